/-
Equations for the descriptor interpreter `Model.Actions.evalD` that make it amenable to proofs:
  * `evalD_node`     the `.node` case as nested matches over structurally recursive folds (`foldE`) instead of the
                     `do`-block with two `for` loops: attributes, position (`evalPos`), token map (`nodeTokmap` =
                     `tokSlots` loop `stepSlot` then `tokmap` loop `stepExtra`, or the shared map), comments
                     (`nodeExtra`).  Nothing in Model/Actions.lean is changed; the loops are proved equal to the folds.
  * `nodesOfD`       the node descriptors occurring in a descriptor (with the flag "top of the production"),
                     `spreadsOfD` the position descriptors of `spreadMod` items;
  * `sub_ok_*`       if a descriptor evaluates, so does every node descriptor occurring in it, in the same context
                     (the nodes a semantic action builds are exactly the values of these sub-descriptors), and every
                     `spreadMod` position;
  * `findPos` / `evalPos` inversion lemmas, the invariant of `tokmapAdd`.
-/
import CalmVerif.Model.Actions
namespace CalmVerif.Proofs.NodePos
open CalmVerif CalmVerif.Model.Actions CalmVerif.Model.ActionDesc

/-! ### loops as folds -/

def foldE {α β ε : Type} (step : α → β → Except ε β) : List α → β → Except ε β
  | [], b => .ok b
  | a :: l, b => match step a b with
    | .ok b' => foldE step l b'
    | .error e => .error e

theorem forIn_yield {α β ε : Type} (step : α → β → Except ε β) (f : α → β → Except ε (ForInStep β))
    (hf : ∀ a b, f a b = (step a b).map ForInStep.yield) :
    ∀ (l : List α) (b : β), forIn l b f = foldE step l b := by
  intro l
  induction l with
  | nil => intro b; simp [foldE]; rfl
  | cons a l ih =>
    intro b
    rw [List.forIn_cons, hf]
    simp only [foldE]
    cases step a b with
    | error e => rfl
    | ok b' => simp only [Except.map]; exact ih b'

/-- an invariant of the accumulator is preserved by a fold -/
theorem foldE_inv {α β ε : Type} {step : α → β → Except ε β} (P : β → Prop) (Q : α → Prop)
    (hstep : ∀ a b b', Q a → P b → step a b = .ok b' → P b') :
    ∀ (l : List α) (b b' : β), (∀ a ∈ l, Q a) → P b → foldE step l b = .ok b' → P b' := by
  intro l
  induction l with
  | nil => intro b b' _ hb h; simp [foldE] at h; rw [← h]; exact hb
  | cons a l ih =>
    intro b b' hq hb h
    simp only [foldE] at h
    split at h
    · next b1 h1 =>
      exact ih b1 b' (fun x hx => hq x (List.mem_cons_of_mem _ hx))
        (hstep a b b1 (hq a List.mem_cons_self) hb h1) h
    · simp at h

abbrev TM := List (String × List Val)

/-- one iteration of the `tokSlots` loop of `setpos` -/
def stepSlot (c : Ctx) (j : Nat) (tm : TM) : Except Err TM :=
  match c.slot? j with
  | some pv => match pv.v with
    | .str s => match findPos c j j j j 0 with
      | .ok q => .ok (tokmapAdd tm s q)
      | .error e => .error e
    | _ => .ok tm
  | none => .error (.internal "IndexError")

/-- the text of an additional token-map entry -/
def textOf (c : Ctx) (as : List (String × Val)) : TextSrc → Except Err String
  | .slotText j => match c.slot? j with
    | some pv => match pv.v with
      | .str s => .ok s
      | _ => .error (.internal "token map text is not a string")
    | none => .error (.internal "IndexError")
  | .const s => .ok s
  | .commas => match as.find? (·.1 == "value") with
    | some (_, .int n) => .ok (commas n.toNat)
    | _ => .error (.internal "TypeError")

/-- one iteration of the loop over the additional token-map entries -/
def stepExtra (c : Ctx) (as : List (String × Val)) (e : TextSrc × PosD) (tm : TM) : Except Err TM :=
  match evalPos c e.2 with
  | .error err => .error err
  | .ok q => match textOf c as e.1 with
    | .error err => .error err
    | .ok text => .ok (tokmapAdd tm text q)

/-- the `@tokmap` value of a node -/
def nodeTokmap (c : Ctx) (as : List (String × Val)) (ts : List Nat) (tm : List (TextSrc × PosD)) :
    Option Nat → Except Err Val
  | some j => match c.slot? j with
    | some pv => .ok ((getAttr pv.v "@tokmap").getD (.list []))
    | none => .error (.internal "IndexError")
  | none => match foldE (stepSlot c) ts [] with
    | .error e => .error e
    | .ok tm1 => match foldE (stepExtra c as) tm tm1 with
      | .error e => .error e
      | .ok tm2 => .ok (tokmapVal tm2)

/-- the `@comments` attribute, if any -/
def nodeExtra (c : Ctx) (pos : PosD) : List (String × Val) :=
  match (match c.withComments, setposIdx pos with
        | true, some idx => match c.slot? idx with
          | some pv => pv.tok.bind commentsOf
          | none => none
        | _, _ => none : Option Val) with
  | some cv => [("@comments", cv)]
  | none => []

/-- **the `.node` case of the interpreter** -/
theorem evalD_node (c : Ctx) (kind : String) (attrs : List (String × D)) (pos : PosD) (ts : List Nat)
    (tm : List (TextSrc × PosD)) (tmo : Option Nat) :
    evalD c (.node kind attrs pos ts tm tmo) =
      match evalAttrs c attrs with
      | .error e => .error e
      | .ok as => match evalPos c pos with
        | .error e => .error e
        | .ok p => match nodeTokmap c as ts tm tmo with
          | .error e => .error e
          | .ok tmv => .ok (.node kind (as ++ nodeExtra c pos ++ [("@pos", p), ("@tokmap", tmv)])) := by
  rw [evalD]
  cases evalAttrs c attrs with
  | error e => rfl
  | ok as =>
    simp only [bind, Except.bind]
    cases evalPos c pos with
    | error e => rfl
    | ok p =>
      simp only []
      cases tmo with
      | some j =>
        simp only [nodeTokmap]
        cases c.slot? j with
        | none => rfl
        | some pv => rfl
      | none =>
        simp only [nodeTokmap]
        rw [forIn_yield (stepSlot c)]
        · cases foldE (stepSlot c) ts [] with
          | error e => rfl
          | ok tm1 =>
            simp only []
            rw [forIn_yield (stepExtra c as)]
            · cases foldE (stepExtra c as) tm tm1 with
              | error e => rfl
              | ok tm2 => rfl
            · intro a b
              obtain ⟨src, pd⟩ := a
              unfold stepExtra
              simp only []
              cases evalPos c pd with
              | error e => rfl
              | ok q =>
                simp only []
                cases src with
                | slotText j =>
                  simp only [textOf]
                  cases c.slot? j with
                  | none => rfl
                  | some pv => simp only []; cases pv.v <;> rfl
                | const s => rfl
                | commas =>
                  simp only [textOf]
                  generalize List.find? (fun x => x.fst == "value") as = r
                  rcases r with _ | ⟨fst, v⟩
                  · rfl
                  · cases v <;> rfl
        · intro a b
          unfold stepSlot
          cases c.slot? a with
          | none => rfl
          | some pv =>
            simp only []
            cases pv.v with
            | str s => simp only []; cases findPos c a a a a 0 <;> rfl
            | _ => rfl

/-- inversion of `evalD_node` -/
theorem evalD_node_ok {c : Ctx} {kind : String} {attrs : List (String × D)} {pos : PosD} {ts : List Nat}
    {tm : List (TextSrc × PosD)} {tmo : Option Nat} {n : Val}
    (h : evalD c (.node kind attrs pos ts tm tmo) = .ok n) :
    ∃ as p tmv, evalAttrs c attrs = .ok as ∧ evalPos c pos = .ok p ∧ nodeTokmap c as ts tm tmo = .ok tmv ∧
      n = .node kind (as ++ nodeExtra c pos ++ [("@pos", p), ("@tokmap", tmv)]) := by
  rw [evalD_node] at h
  split at h
  · simp at h
  · next as has =>
    split at h
    · simp at h
    · next p hp =>
      split at h
      · simp at h
      · next tmv htm =>
        simp only [Except.ok.injEq] at h
        exact ⟨as, p, tmv, has, hp, htm, h.symm⟩

/-! ### the other cases -/

theorem evalAttrs_cons_ok {c : Ctx} {n : String} {d : D} {rest : List (String × D)} {v : List (String × Val)}
    (h : evalAttrs c ((n, d) :: rest) = .ok v) :
    ∃ x xs, evalD c d = .ok x ∧ evalAttrs c rest = .ok xs ∧ v = (n, x) :: xs := by
  rw [evalAttrs] at h
  cases hd : evalD c d with
  | error e => rw [hd] at h; simp [bind, Except.bind] at h
  | ok x =>
    cases hr : evalAttrs c rest with
    | error e => rw [hd, hr] at h; simp [bind, Except.bind] at h
    | ok xs =>
      rw [hd, hr] at h
      simp only [bind, Except.bind, pure, Except.pure, Except.ok.injEq] at h
      exact ⟨x, xs, rfl, rfl, h.symm⟩

theorem evalItems_item_ok {c : Ctx} {d : D} {rest : List Item} {v : List Val}
    (h : evalItems c (.item d :: rest) = .ok v) :
    ∃ x xs, evalD c d = .ok x ∧ evalItems c rest = .ok xs ∧ v = x :: xs := by
  rw [evalItems] at h
  cases hd : evalD c d with
  | error e => rw [hd] at h; simp [bind, Except.bind] at h
  | ok x =>
    cases hr : evalItems c rest with
    | error e => rw [hd, hr] at h; simp [bind, Except.bind] at h
    | ok xs =>
      rw [hd, hr] at h
      simp only [bind, Except.bind, pure, Except.pure, Except.ok.injEq] at h
      exact ⟨x, xs, rfl, rfl, h.symm⟩

theorem evalItems_spread_rest {c : Ctx} {j : Nat} {rest : List Item} {v : List Val}
    (h : evalItems c (.spread j :: rest) = .ok v) : ∃ vs, evalItems c rest = .ok vs := by
  cases hr : evalItems c rest with
  | ok vs => exact ⟨vs, rfl⟩
  | error e =>
    exfalso
    rw [evalItems, hr] at h
    simp only [bind, Except.bind, pure, Except.pure, throw, throwThe, MonadExceptOf.throw] at h
    repeat' split at h
    all_goals (first | contradiction | (simp at h; done) | skip)

theorem evalItems_spreadMod_rest {c : Ctx} {j : Nat} {li : Bool} {ft : Option PosD} {rest : List Item}
    {v : List Val} (h : evalItems c (.spreadMod j li ft :: rest) = .ok v) :
    ∃ vs, evalItems c rest = .ok vs := by
  cases hr : evalItems c rest with
  | ok vs => exact ⟨vs, rfl⟩
  | error e =>
    exfalso
    rw [evalItems, hr] at h
    simp only [bind, Except.bind, pure, Except.pure, throw, throwThe, MonadExceptOf.throw] at h
    repeat' split at h
    all_goals (first | contradiction | (simp at h; done) | skip)

/-- the position a `spreadMod` stores in the token map of the first element is the value of its descriptor -/
theorem evalItems_spreadMod_pos {c : Ctx} {j : Nat} {li : Bool} {pd : PosD} {rest : List Item}
    {v : List Val} (h : evalItems c (.spreadMod j li (some pd) :: rest) = .ok v) :
    ∃ q, evalPos c pd = .ok q := by
  cases hr : evalPos c pd with
  | ok q => exact ⟨q, rfl⟩
  | error e =>
    exfalso
    rw [evalItems] at h
    simp only [hr, bind, Except.bind, pure, Except.pure, throw, throwThe, MonadExceptOf.throw] at h
    repeat' split at h
    all_goals (first | contradiction | (simp at h; done) | skip)

theorem evalD_list_ok {c : Ctx} {items : List Item} {v : Val} (h : evalD c (.list items) = .ok v) :
    ∃ xs, evalItems c items = .ok xs ∧ v = .list xs := by
  rw [evalD] at h
  cases hr : evalItems c items with
  | error e => rw [hr] at h; simp [Except.map] at h
  | ok xs => rw [hr] at h; simp only [Except.map, Except.ok.injEq] at h; exact ⟨xs, rfl, h.symm⟩

theorem evalD_raiseAt_ne {c : Ctx} {msg : String} {j : Nat} {v : Val} : evalD c (.raiseAt msg j) ≠ .ok v := by
  intro h
  rw [evalD] at h
  repeat' split at h
  all_goals (first | contradiction | (simp at h; done) | skip)

theorem evalD_slot_ok {c : Ctx} {j : Nat} {v : Val} (h : evalD c (.slot j) = .ok v) :
    ∃ pv, c.slot? j = some pv ∧ v = pv.v := by
  rw [evalD] at h
  split at h
  · next pv hpv => simp only [Except.ok.injEq] at h; exact ⟨pv, hpv, h.symm⟩
  · simp at h

/-! ### node descriptors occurring in a descriptor -/

/-- an occurrence of a `.node` descriptor; `top`: it is the result of the production, not nested in another value -/
structure NodeD where
  top : Bool
  kind : String
  attrs : List (String × D)
  pos : PosD
  tokSlots : List Nat
  tokmap : List (TextSrc × PosD)
  tokmapOf : Option Nat

def NodeD.d (x : NodeD) : D := .node x.kind x.attrs x.pos x.tokSlots x.tokmap x.tokmapOf

mutual
  def nodesOfD (top : Bool) : D → List NodeD
    | .node kind attrs pos ts tm tmo => ⟨top, kind, attrs, pos, ts, tm, tmo⟩ :: nodesOfAttrs attrs
    | .list items => nodesOfItems items
    | _ => []
  def nodesOfAttrs : List (String × D) → List NodeD
    | [] => []
    | (_, d) :: rest => nodesOfD false d ++ nodesOfAttrs rest
  def nodesOfItems : List Item → List NodeD
    | [] => []
    | .item d :: rest => nodesOfD false d ++ nodesOfItems rest
    | .spread _ :: rest => nodesOfItems rest
    | .spreadMod _ _ _ :: rest => nodesOfItems rest
end

mutual
  /-- the position descriptors of the `spreadMod` items (elision runs) occurring in a descriptor -/
  def spreadsOfD : D → List PosD
    | .node _ attrs _ _ _ _ => spreadsOfAttrs attrs
    | .list items => spreadsOfItems items
    | _ => []
  def spreadsOfAttrs : List (String × D) → List PosD
    | [] => []
    | (_, d) :: rest => spreadsOfD d ++ spreadsOfAttrs rest
  def spreadsOfItems : List Item → List PosD
    | [] => []
    | .item d :: rest => spreadsOfD d ++ spreadsOfItems rest
    | .spread _ :: rest => spreadsOfItems rest
    | .spreadMod _ _ (some pd) :: rest => pd :: spreadsOfItems rest
    | .spreadMod _ _ none :: rest => spreadsOfItems rest
end

mutual
  /-- if a descriptor evaluates, every node descriptor occurring in it evaluates (in the same context) and every
      `spreadMod` position descriptor evaluates -/
  theorem sub_ok_D (c : Ctx) (top : Bool) : ∀ (d : D) (v : Val), evalD c d = .ok v →
      (∀ x ∈ nodesOfD top d, ∃ n, evalD c x.d = .ok n) ∧ (∀ pd ∈ spreadsOfD d, ∃ q, evalPos c pd = .ok q)
    | .node kind attrs pos ts tm tmo, v, h => by
      obtain ⟨as, p, tmv, has, _, _, _⟩ := evalD_node_ok h
      have ih := sub_ok_attrs c attrs as has
      refine ⟨?_, ?_⟩
      · intro x hx
        simp only [nodesOfD, List.mem_cons] at hx
        rcases hx with rfl | hx
        · exact ⟨v, h⟩
        · exact ih.1 x hx
      · intro pd hpd
        simp only [spreadsOfD] at hpd
        exact ih.2 pd hpd
    | .list items, v, h => by
      obtain ⟨xs, hxs, _⟩ := evalD_list_ok h
      have ih := sub_ok_items c items xs hxs
      exact ⟨by simpa [nodesOfD] using ih.1, by simpa [spreadsOfD] using ih.2⟩
    | .slot _, _, _ => by simp [nodesOfD, spreadsOfD]
    | .none, _, _ => by simp [nodesOfD, spreadsOfD]
    | .str _, _, _ => by simp [nodesOfD, spreadsOfD]
    | .int _, _, _ => by simp [nodesOfD, spreadsOfD]
    | .attrOf _ _, _, _ => by simp [nodesOfD, spreadsOfD]
    | .raiseAt _ _, _, _ => by simp [nodesOfD, spreadsOfD]
  theorem sub_ok_attrs (c : Ctx) : ∀ (l : List (String × D)) (v : List (String × Val)), evalAttrs c l = .ok v →
      (∀ x ∈ nodesOfAttrs l, ∃ n, evalD c x.d = .ok n) ∧ (∀ pd ∈ spreadsOfAttrs l, ∃ q, evalPos c pd = .ok q)
    | [], _, _ => by simp [nodesOfAttrs, spreadsOfAttrs]
    | (n, d) :: rest, v, h => by
      obtain ⟨x, xs, hd, hr, _⟩ := evalAttrs_cons_ok h
      have ih1 := sub_ok_D c false d x hd
      have ih2 := sub_ok_attrs c rest xs hr
      refine ⟨?_, ?_⟩
      · intro y hy
        simp only [nodesOfAttrs, List.mem_append] at hy
        rcases hy with hy | hy
        · exact ih1.1 y hy
        · exact ih2.1 y hy
      · intro pd hpd
        simp only [spreadsOfAttrs, List.mem_append] at hpd
        rcases hpd with hpd | hpd
        · exact ih1.2 pd hpd
        · exact ih2.2 pd hpd
  theorem sub_ok_items (c : Ctx) : ∀ (l : List Item) (v : List Val), evalItems c l = .ok v →
      (∀ x ∈ nodesOfItems l, ∃ n, evalD c x.d = .ok n) ∧ (∀ pd ∈ spreadsOfItems l, ∃ q, evalPos c pd = .ok q)
    | [], _, _ => by simp [nodesOfItems, spreadsOfItems]
    | .item d :: rest, v, h => by
      obtain ⟨x, xs, hd, hr, _⟩ := evalItems_item_ok h
      have ih1 := sub_ok_D c false d x hd
      have ih2 := sub_ok_items c rest xs hr
      refine ⟨?_, ?_⟩
      · intro y hy
        simp only [nodesOfItems, List.mem_append] at hy
        rcases hy with hy | hy
        · exact ih1.1 y hy
        · exact ih2.1 y hy
      · intro pd hpd
        simp only [spreadsOfItems, List.mem_append] at hpd
        rcases hpd with hpd | hpd
        · exact ih1.2 pd hpd
        · exact ih2.2 pd hpd
    | .spread j :: rest, v, h => by
      obtain ⟨xs, hr⟩ := evalItems_spread_rest h
      have ih2 := sub_ok_items c rest xs hr
      exact ⟨by simpa [nodesOfItems] using ih2.1, by simpa [spreadsOfItems] using ih2.2⟩
    | .spreadMod j li none :: rest, v, h => by
      obtain ⟨xs, hr⟩ := evalItems_spreadMod_rest h
      have ih2 := sub_ok_items c rest xs hr
      exact ⟨by simpa [nodesOfItems] using ih2.1, by simpa [spreadsOfItems] using ih2.2⟩
    | .spreadMod j li (some pd) :: rest, v, h => by
      obtain ⟨xs, hr⟩ := evalItems_spreadMod_rest h
      obtain ⟨q, hq⟩ := evalItems_spreadMod_pos h
      have ih2 := sub_ok_items c rest xs hr
      refine ⟨by simpa [nodesOfItems] using ih2.1, ?_⟩
      intro pd' hpd
      simp only [spreadsOfItems, List.mem_cons] at hpd
      rcases hpd with rfl | hpd
      · exact ⟨q, hq⟩
      · exact ih2.2 pd' hpd
end

/-! ### positions -/

/-- the column `findpos` computes for (lineno, lexpos): `lookup_colno` if the line number is positive, else 0 -/
def colOf (lc : Nat → Nat → Option Int) (ln lp : Nat) : Option Int := if 0 < ln then lc ln lp else some 0

/-- `p` is the triple `[lp + delta, ln, col + delta]` with `col` the column of `(ln, lp)` under `lc`:
    the three components agree with one another under the lexer's line table -/
def IsPos (lc : Nat → Nat → Option Int) (lp ln delta : Nat) (p : Val) : Prop :=
  ∃ col, colOf lc ln lp = some col ∧ p = posVal (lp + delta) ln (col + (delta : Int))

theorem findPos_same_ok {c : Ctx} {j delta : Nat} {p : Val} (h : findPos c j j j j delta = .ok p) :
    ∃ lp ln, c.lexposOf j = some lp ∧ c.linenoOf j = some ln ∧ IsPos c.lookupCol lp ln delta p := by
  unfold findPos at h
  split at h
  · next lp ln cln clp h1 h2 h3 h4 =>
    rw [h2] at h3; rw [h1] at h4
    simp only [Option.some.injEq] at h3 h4
    subst h3; subst h4
    refine ⟨lp, ln, h1, h2, ?_⟩
    split at h
    · next hpos =>
      split at h
      · next col hcol =>
        simp only [Except.ok.injEq] at h
        exact ⟨col, by simp [colOf, hpos, hcol], h.symm⟩
      · simp at h
    · next hpos =>
      simp only [Except.ok.injEq] at h
      exact ⟨0, by simp [colOf, hpos], h.symm⟩
  · simp at h

theorem evalPos_at_ok {c : Ctx} {j delta : Nat} {p : Val} (h : evalPos c (.at j delta) = .ok p) :
    ∃ lp ln, c.lexposOf j = some lp ∧ c.linenoOf j = some ln ∧ IsPos c.lookupCol lp ln delta p := by
  simp only [evalPos] at h
  exact findPos_same_ok h

theorem lexposOf_succ {c : Ctx} {j lp : Nat} (hj : j ≠ 0) (h : c.lexposOf j = some lp) :
    ∃ pv, c.slots[j - 1]? = some pv ∧ pv.lexpos = lp := by
  simp only [Ctx.lexposOf, hj, if_false, Ctx.slot?, Option.map_eq_some_iff] at h
  exact h

theorem linenoOf_succ {c : Ctx} {j ln : Nat} (hj : j ≠ 0) (h : c.linenoOf j = some ln) :
    ∃ pv, c.slots[j - 1]? = some pv ∧ pv.lineno = ln := by
  simp only [Ctx.linenoOf, hj, if_false, Ctx.slot?, Option.map_eq_some_iff] at h
  exact h

/-- a position taken at slot `j ≥ 1` is computed from the tracked (lexpos, lineno) of the value in that slot -/
theorem evalPos_at_slot {c : Ctx} {j delta : Nat} {p : Val} (hj : j ≠ 0)
    (h : evalPos c (.at j delta) = .ok p) :
    ∃ pv, c.slots[j - 1]? = some pv ∧ IsPos c.lookupCol pv.lexpos pv.lineno delta p := by
  obtain ⟨lp, ln, h1, h2, h3⟩ := evalPos_at_ok h
  obtain ⟨pv, hpv, rfl⟩ := lexposOf_succ hj h1
  obtain ⟨pv', hpv', rfl⟩ := linenoOf_succ hj h2
  rw [hpv] at hpv'
  simp only [Option.some.injEq] at hpv'
  subst hpv'
  exact ⟨pv, hpv, h3⟩

/-- a position taken at slot 0 is computed from the tracked position of the result symbol -/
theorem evalPos_at_zero {c : Ctx} {delta : Nat} {p : Val} (h : evalPos c (.at 0 delta) = .ok p) :
    IsPos c.lookupCol c.pos0.1 c.pos0.2 delta p := by
  obtain ⟨lp, ln, h1, h2, h3⟩ := evalPos_at_ok h
  simp only [Ctx.lexposOf, Ctx.linenoOf, if_true, Option.some.injEq] at h1 h2
  subst h1; subst h2
  exact h3

/-! ### token maps -/

/-- every position of every entry satisfies `P text position` -/
def TmAll (P : String → Val → Prop) (tm : TM) : Prop := ∀ e ∈ tm, ∀ q ∈ e.2, P e.1 q

theorem tokmapAdd_all {P : String → Val → Prop} {tm : TM} {text : String} {q : Val}
    (h : TmAll P tm) (hq : P text q) : TmAll P (tokmapAdd tm text q) := by
  unfold tokmapAdd
  split
  · intro e he q' hq'
    simp only [List.mem_map] at he
    obtain ⟨e0, he0, rfl⟩ := he
    by_cases heq : (e0.1 == text) = true
    · simp only [heq, if_true, List.mem_append, List.mem_singleton] at hq' ⊢
      have : e0.1 = text := by simpa using heq
      rcases hq' with hq' | rfl
      · exact h e0 he0 q' hq'
      · simpa [this] using hq
    · simp only [heq, if_false] at hq' ⊢
      exact h e0 he0 q' hq'
  · intro e he q' hq'
    simp only [List.mem_append, List.mem_singleton] at he
    rcases he with he | rfl
    · exact h e he q' hq'
    · simp only [List.mem_singleton] at hq'
      subst hq'
      exact hq

end CalmVerif.Proofs.NodePos
