/-
`isoCond`, part 2: every binder in the output of ES5 resolution is good (`BOK`), by induction over the tree
along the walk facts.
-/
import CalmVerif.Proofs.ObfIso
import CalmVerif.Proofs.ObfSimple3
namespace CalmVerif.Obf
open CalmVerif CalmVerif.Unparse
open CalmVerif.Spec.Scope (BKind Binder Layer Ctx Occ Role identName isFunctionKind isVarDeclKind
  lookupEnv lookupLabel roleOf enter isPresent hoistVal paramNames declOccs resolveVal resolveList resolveAttrs)

local notation "sLookup" => Spec.Scope.lookupAttr

/-! ### declaration sites -/

theorem declFrom_mem (rp : SPath) (a : String) (f : String → List Binder) : ∀ (xs : List Val) (i : Nat) (o : Occ),
    o ∈ declFrom rp a f i xs → ∃ q ∈ identsFrom rp a i xs, o.binders = f q.2
  | [], _, o, h => by simp [declFrom] at h
  | x :: rest, i, o, h => by
    simp only [declFrom, List.mem_append] at h
    rcases h with h | h
    · cases hn : identName x with
      | none => simp [hn] at h
      | some n =>
        simp only [hn, Option.map_some, Option.toList_some, List.mem_singleton] at h
        subst h
        exact ⟨((a, i) :: rp.reverse, n), by simp [identsFrom, hn], rfl⟩
    · obtain ⟨q, hq, hb⟩ := declFrom_mem rp a f rest (i + 1) o h
      exact ⟨q, by simp [identsFrom, hq], hb⟩

theorem declOccs_mem (rp : SPath) (a : String) (v : Val) (f : String → List Binder) (o : Occ)
    (h : o ∈ declOccs rp a v f) : ∃ q ∈ identsOf rp a v, o.binders = f q.2 := by
  rcases val_list_or v with ⟨xs, rfl⟩ | hnl
  · rw [declOccs_list] at h
    rw [identsOf_list]
    exact declFrom_mem rp a f xs 0 o h
  · have e1 : declOccs rp a v f
        = ((identName v).map (fun n => ({ path := rp ++ [(a, 0)], name := n, binders := f n } : Occ))).toList := by
      cases v with
      | list xs => exact absurd rfl (fun h => hnl xs h)
      | none => rfl
      | bool b => rfl
      | int n => rfl
      | str t => rfl
      | node k as => rfl
    rw [e1] at h
    cases hn : identName v with
    | none => simp [hn] at h
    | some n =>
      simp only [hn, Option.map_some, Option.toList_some, List.mem_singleton] at h
      subst h
      refine ⟨((a, 0) :: rp.reverse, n), ?_, rfl⟩
      cases v with
      | list ys => exact absurd rfl (fun h => hnl ys h)
      | none => simp [identName] at hn
      | bool b => simp [identName] at hn
      | int m => simp [identName] at hn
      | str t => simp [identName] at hn
      | node k as => simp [identsOf, hn]

/-- a labelled jump targets a label in scope, or no label at all -/
theorem lookupLabel_cases : ∀ (L : List (String × SPath × List Anc)) (n : String),
    (∃ x ∈ L, x.1 = n ∧ lookupLabel (L.map (fun x => (x.1, x.2.1))) n = { kind := .label, scope := x.2.1, name := n }) ∨
    lookupLabel (L.map (fun x => (x.1, x.2.1))) n = { kind := .nolabel, scope := [], name := n }
  | [], n => Or.inr rfl
  | (y, py, Cy) :: rest, n => by
    by_cases hyn : y = n
    · exact Or.inl ⟨(y, py, Cy), List.mem_cons_self .., hyn, by simp [lookupLabel, hyn]⟩
    · have hne : (y == n) = false := by simpa using hyn
      rcases lookupLabel_cases rest n with ⟨x, hx, hxn, hlk⟩ | hlk
      · refine Or.inl ⟨x, List.mem_cons_of_mem _ hx, hxn, ?_⟩
        simp only [List.map_cons, lookupLabel, hne, Bool.false_eq_true, if_false]
        exact hlk
      · refine Or.inr ?_
        simp only [List.map_cons, lookupLabel, hne, Bool.false_eq_true, if_false]
        exact hlk

/-! ### the invariant with records -/

section
variable {fin : Final} (recs : List Rec)

/-- the chain of the scope the Identifier of the label defined at `s` is registered in -/
def lblChain (fin : Final) (recs : List Rec) (s : SPath) : Option (List Anc) :=
  (lookupPath fin.identifiers (("identifier", 0) :: s.reverse)).bind
    (fun sid => (recs.find? (fun r => r.id == sid)).map (·.chain))

structure InvR (ctx : Ctx) (mc : MCtx) : Prop where
  inv : Inv fin ctx mc
  alr : AlR recs (tauFin fin) ctx.env mc.chain
  lblR : ∀ x ∈ mc.labels, lblChain fin recs x.2.1 = some x.2.2

theorem lblChain_of_facts {mc : MCtx} {p : SPath} {n : String} (h : labelFacts fin recs mc p n = true) :
    lblChain fin recs p = some mc.chain := by
  simp only [labelFacts, Bool.and_eq_true] at h
  have h1 : lookupPath fin.identifiers (("identifier", 0) :: p.reverse) = some mc.sid := of_decide_eq_true h.1.1
  have h2 : (recs.find? (fun r => r.id == mc.sid)).map (·.chain) = some mc.chain := of_decide_eq_true h.2
  simp only [lblChain, h1, Option.bind_some, h2]

variable {recs}

theorem invR_flag {ctx : Ctx} {mc : MCtx} (hi : InvR (fin := fin) recs ctx mc) (b : Bool) :
    InvR (fin := fin) recs { ctx with forInItem := b } mc :=
  ⟨inv_flag hi.inv b, hi.alr, hi.lblR⟩

/-- a declaration site of the current variable environment gives a good binder -/
theorem declSite_bok {ctx : Ctx} {mc : MCtx} (hi : InvR (fin := fin) recs ctx mc) {q : Path} {n : String}
    (h : declSite fin mc q n = true) :
    BOK recs (lblChain fin recs) (tauFin fin) { kind := ctx.varKind, scope := ctx.varScope, name := n } := by
  simp only [declSite, Bool.and_eq_true] at h
  exact var_bok hi.alr hi.inv.var h.2

/-- what entering a node means for the records -/
theorem enterFacts_spec {mc : MCtx} {p : SPath} {k : String} {as : List (String × Val)} {inner : MCtx}
    (h : enterFacts fin recs mc p k as = some inner) :
    (isFunctionKind k = true ∧ ∃ R A, recs.find? (fun r => r.node == some p.reverse) = some R ∧ R.chain = A :: mc.chain ∧
        inner = { sid := R.id, chain := A :: mc.chain, env := funcEnv mc.env p k as, labels := [] }) ∨
    (isFunctionKind k = false ∧ (k == "Catch") = true ∧ catchRec fin recs mc p.reverse as = some inner) ∨
    (isFunctionKind k = false ∧ (k == "Catch") = false ∧ inner.chain = mc.chain ∧
      (inner.labels = mc.labels ∨ ∃ n, inner.labels = (n, p, mc.chain) :: mc.labels ∧ labelFacts fin recs mc p n = true)) := by
  unfold enterFacts at h
  by_cases hf : isFunctionKind k = true
  · left
    rw [if_pos hf] at h
    cases hR : recs.find? (fun r => r.node == some p.reverse) with
    | none => rw [hR] at h; cases h
    | some R =>
      rw [hR] at h
      simp only at h
      cases hRC : R.chain with
      | nil => rw [hRC] at h; cases h
      | cons A C =>
        rw [hRC] at h
        simp only at h
        by_cases hall : funcFacts fin recs mc p k as R.id A C = true
        · rw [if_pos hall] at h
          simp only [Option.some.injEq] at h
          simp only [funcFacts, Bool.and_eq_true] at hall
          have hC : C = mc.chain := of_decide_eq_true hall.1.1.1.1.1.1.1
          subst hC
          exact ⟨hf, R, A, rfl, hRC, h.symm⟩
        · rw [if_neg hall] at h; cases h
  · right
    rw [if_neg hf] at h
    by_cases hc : (k == "Catch") = true
    · left
      rw [if_pos hc] at h
      exact ⟨by simpa using hf, hc, h⟩
    · right
      rw [if_neg hc] at h
      refine ⟨by simpa using hf, by simpa using hc, ?_⟩
      by_cases hl : (k == "Label") = true
      · rw [if_pos hl] at h
        cases hia : identAttrOf' as with
        | none =>
          rw [hia] at h
          simp only [Option.some.injEq] at h
          subst h
          exact ⟨rfl, Or.inl rfl⟩
        | some n =>
          rw [hia] at h
          simp only at h
          by_cases hlf : labelFacts fin recs mc p n = true
          · rw [if_pos hlf] at h
            simp only [Option.some.injEq] at h
            subst h
            exact ⟨rfl, Or.inr ⟨n, rfl, hlf⟩⟩
          · rw [if_neg hlf] at h; cases h
      · rw [if_neg hl] at h
        simp only [Option.some.injEq] at h
        subst h
        exact ⟨rfl, Or.inl rfl⟩

theorem enter_invR (hgood : ∀ R ∈ recs, ChainGood R.chain) {ctx : Ctx} {mc : MCtx}
    (hi : InvR (fin := fin) recs ctx mc) (p : SPath) (k : String)
    (as : List (String × Val)) (inner : MCtx)
    (h : enterFacts fin recs mc p k as = some inner) : InvR (fin := fin) recs (enter ctx p k as) inner := by
  obtain ⟨_, hinv, _⟩ := enter_of_facts recs hgood hi.inv p k as inner h
  refine ⟨hinv, ?_, ?_⟩
  rotate_left
  · rcases enterFacts_spec h with ⟨hf, R, A, hR, hRC, rfl⟩ | ⟨hf, hc, hcr⟩ | ⟨hf, hc, _, hlb⟩
    · intro x hx; exact absurd hx List.not_mem_nil
    · obtain ⟨c, hca, _, R, K, hR, hRC, rfl, _, _⟩ := catchRec_inv recs hgood hi.inv p.reverse as inner hcr
      exact hi.lblR
    · rcases hlb with hlb | ⟨n, hlb, hlf⟩
      · rw [hlb]; exact hi.lblR
      · rw [hlb]
        intro x hx
        rcases List.mem_cons.1 hx with rfl | hx
        · exact lblChain_of_facts recs hlf
        · exact hi.lblR x hx
  rcases enterFacts_spec h with ⟨hf, R, A, hR, hRC, rfl⟩ | ⟨hf, hc, hcr⟩ | ⟨hf, hc, hch, _⟩
  · have henv : (enter ctx p k as).env = funcEnv ctx.env p k as := by
      rw [enter_unfold]
      simp only [hf, if_true, hoistElems_eq, paramsOf, funcEnv, selfNameOf, identAttr_eq]
      by_cases hfe' : (k == "FuncExpr") = true
      · simp [hfe']
      · simp [hfe']
    have hal := hinv.al
    rw [henv] at hal ⊢
    simp only [funcEnv] at hal ⊢
    obtain ⟨A', C', hAC, _, _, _, _, _, hal'⟩ := al_func_inv hal
    cases hAC
    refine .func p _ _ A mc.chain hal ⟨R, hR, hRC⟩ ?_
    cases hs : selfNameOf k as with
    | none => simpa using hi.alr
    | some g =>
      rw [hs] at hal'
      simp only [Option.toList_some, List.map_cons, List.map_nil, List.cons_append, List.nil_append] at hal' ⊢
      exact .self p g ctx.env mc.chain hal' ⟨A, R, hR, hRC⟩ hi.alr
  · obtain ⟨c, hca, _, R, K, hR, hRC, rfl, _, _⟩ := catchRec_inv recs hgood hi.inv p.reverse as inner hcr
    rw [List.reverse_reverse] at hinv
    have henv : (enter ctx p k as).env = { kind := .catch, scope := p, names := [c] } :: ctx.env := by
      rw [enter_unfold]
      simp only [hf, Bool.false_eq_true, if_false, hc, if_true, identAttr_eq, hca]
    have hal := hinv.al
    rw [henv] at hal ⊢
    exact .catch p c ctx.env K mc.chain hal ⟨R, hR, hRC⟩ hi.alr
  · have henv : (enter ctx p k as).env = ctx.env := by
      rw [enter_unfold]
      simp only [hf, Bool.false_eq_true, if_false, hc]
      split
      · split <;> rfl
      · rfl
    rw [henv, hch]
    exact hi.alr

/-- the binders one attribute contributes are good -/
theorem roleOut_bok {octx ictx : Ctx} {omc imc : MCtx} (hio : InvR (fin := fin) recs octx omc)
    (hii : InvR (fin := fin) recs ictx imc) (p : SPath) (a : String) (v : Val) (role : Role)
    (rF rI rO : List Occ) (fF fI fO : Bool)
    (hparams : role = .params → ictx.varKind = .var ∧ ictx.varScope = p)
    (hcatch : role = .catchParam → ∃ c E', ictx.env = { kind := .catch, scope := p, names := [c] } :: E')
    (hself : role = .selfName → ∃ A, RecVar recs p (A :: omc.chain))
    (h : roleFacts fin recs omc imc p a v role fF fI fO = true)
    (hF : fF = true → ∀ o ∈ rF, ∀ b ∈ o.binders, BOK recs (lblChain fin recs) (tauFin fin) b)
    (hI : fI = true → ∀ o ∈ rI, ∀ b ∈ o.binders, BOK recs (lblChain fin recs) (tauFin fin) b)
    (hO : fO = true → ∀ o ∈ rO, ∀ b ∈ o.binders, BOK recs (lblChain fin recs) (tauFin fin) b) :
    ∀ o ∈ roleOut octx p a v role rF rI rO, ∀ b ∈ o.binders, BOK recs (lblChain fin recs) (tauFin fin) b := by
  intro o ho b hb
  cases role with
  | skip => simp [roleOut] at ho
  | funcDeclName =>
    simp only [roleOut] at ho
    simp only [roleFacts, declSites, List.all_eq_true] at h
    obtain ⟨q, hq, hbs⟩ := declOccs_mem p a v _ o ho
    rw [hbs] at hb
    simp only [List.mem_singleton] at hb
    subst hb
    exact declSite_bok hio (h q hq)
  | selfName =>
    simp only [roleOut] at ho
    simp only [roleFacts, List.all_eq_true] at h
    obtain ⟨q, hq, hbs⟩ := declOccs_mem p a v _ o ho
    rw [hbs] at hb
    simp only [List.mem_singleton] at hb
    subst hb
    obtain ⟨htau, hkey, _⟩ := selfFacts_spec (h q hq)
    exact .self p q.2 omc.chain (hself rfl) (al_good hio.inv.al) hkey htau
  | params =>
    simp only [roleOut] at ho
    simp only [roleFacts, declSites, List.all_eq_true] at h
    obtain ⟨q, hq, hbs⟩ := declOccs_mem p a v _ o ho
    rw [hbs] at hb
    simp only [List.mem_singleton] at hb
    subst hb
    obtain ⟨h1, h2⟩ := hparams rfl
    have := declSite_bok hii (h q hq)
    rwa [h1, h2] at this
  | catchParam =>
    simp only [roleOut] at ho
    simp only [roleFacts, List.all_eq_true] at h
    obtain ⟨q, hq, hbs⟩ := declOccs_mem p a v _ o ho
    rw [hbs] at hb
    simp only [List.mem_singleton] at hb
    subst hb
    obtain ⟨c, E', he⟩ := hcatch rfl
    have halr := hii.alr
    rw [he] at halr
    obtain ⟨K, C, u, hmc, hk, hrec, _⟩ := alR_catch_inv halr
    have hcs := h q hq
    simp only [catchSite, Bool.and_eq_true, hmc, isCatchOf, hk, beq_iff_eq] at hcs
    have hcq : c = q.2 := hcs.2
    rw [← hcq]
    exact .catch p c u K C hrec hk
  | labelDecl =>
    simp only [roleOut] at ho
    simp only [roleFacts, List.all_eq_true, Bool.and_eq_true] at h
    obtain ⟨q, hq, hbs⟩ := declOccs_mem p a v _ o ho
    rw [hbs] at hb
    simp only [List.mem_singleton] at hb
    subst hb
    have hlf := (h q hq).2
    have htie := lblChain_of_facts recs hlf
    simp only [labelFacts, Bool.and_eq_true] at hlf
    have hreg : lookupPath fin.identifiers (("identifier", 0) :: p.reverse) = some omc.sid := of_decide_eq_true hlf.1.1
    refine .label p q.2 omc.chain htie (al_good hio.inv.al) (by simpa using hlf.1.2) ?_
    intro m
    have e : tauN (tauFin fin) .label p m = rhoFin fin (("identifier", 0) :: p.reverse) m := rfl
    rw [e, rho_at hio.inv hreg]
  | labelRef =>
    simp only [roleOut] at ho
    simp only [roleFacts, List.all_eq_true, Bool.and_eq_true] at h
    obtain ⟨q, hq, hbs⟩ := declOccs_mem p a v _ o ho
    rw [hbs] at hb
    simp only [List.mem_singleton] at hb
    subst hb
    rcases lookupLabel_cases omc.labels q.2 with ⟨x, hx, hxn, hlk⟩ | hlk
    · rw [← hio.inv.labels, hlk]
      obtain ⟨htau, hkey, hg⟩ := hio.inv.lblOK x hx
      rw [← hxn]
      exact .label x.2.1 x.1 x.2.2 (hio.lblR x hx) hg hkey htau
    · rw [← hio.inv.labels, hlk]
      exact .nolabel q.2
  | varName assigned =>
    simp only [roleOut] at ho
    simp only [roleFacts, declSites, List.all_eq_true, Bool.and_eq_true] at h
    obtain ⟨q, hq, hbs⟩ := declOccs_mem p a v _ o ho
    rw [hbs] at hb
    have hd := declSite_bok hio (h.1 q hq)
    split at hb
    · simp only [List.mem_cons, List.mem_singleton, List.not_mem_nil, or_false] at hb
      rcases hb with rfl | rfl
      · exact hd
      · exact lookupEnv_bok hio.alr q.2
    · simp only [List.mem_singleton] at hb
      subst hb
      exact hd
  | forInItem => exact hF (by simpa [roleFacts] using h) o (by simpa [roleOut] using ho) b hb
  | inner => exact hI (by simpa [roleFacts] using h) o (by simpa [roleOut] using ho) b hb
  | outer => exact hO (by simpa [roleFacts] using h) o (by simpa [roleOut] using ho) b hb

end
end CalmVerif.Obf
