/-
Where fragment positions and sources come from (for C08).

`SrcAt root sep n s`: the walk of `root` interprets node `n` with `s` on top of the sourcepath stack
(`sep` = the surrogate separator node of ElisionJoinAttr).  Every chunk of the walk refers to such a
node: a layout chunk carries one, a token fragment carries the stack top as its `source` and a
position that is (None, None), the implied (0, 0), or an entry of that node's token map under the
fragment's text (or the original name it records).  The layout pass only adds fragments whose source
is None and whose position comes from the token map of the node of a buffered chunk.
-/
import CalmVerif.Proofs.UnparseFrags
namespace CalmVerif.Unparse
open CalmVerif

variable {σ : Type}

inductive SrcAt (root sep : Val) : Val → Src → Prop where
  | root : SrcAt root sep root (pushSource .notImpl root)
  /-- the value of an attribute of an interpreted node -/
  | attr (k : String) (as : List (String × Val)) (s : Src) (a : String) (v : Val) :
      SrcAt root sep (.node k as) s → (a, v) ∈ as → SrcAt root sep v (pushSource s v)
  /-- an item of a list attribute -/
  | item (k : String) (as : List (String × Val)) (s : Src) (a : String) (xs : List Val) (v : Val) :
      SrcAt root sep (.node k as) s → (a, .list xs) ∈ as → v ∈ xs → SrcAt root sep v (pushSource s v)
  /-- JoinAttr over an attribute holding a node iterates that node's children in place -/
  | grand (k : String) (as : List (String × Val)) (s : Src) (a k' : String) (as' : List (String × Val))
      (b : String) (xs : List Val) (w : Val) :
      SrcAt root sep (.node k as) s → (a, .node k' as') ∈ as → (b, .list xs) ∈ as' → w ∈ xs →
      SrcAt root sep w (pushSource s w)
  | sep (n : Val) (s : Src) : SrcAt root sep n s → SrcAt root sep sep (pushSource s sep)

theorem pushSource_idem (s : Src) (n : Val) : pushSource (pushSource s n) n = pushSource s n := by
  unfold pushSource
  cases h : nodeAttr n "@sourcepath" with
  | none => rfl
  | some v =>
    cases v with
    | str p => by_cases hp : (p == "") = true <;> simp [hp]
    | _ => rfl

theorem srcAt_fix {root sep n : Val} {s : Src} (h : SrcAt root sep n s) : pushSource s n = s := by
  cases h <;> exact pushSource_idem _ _

/-- the key a fragment's position was looked up under: its text, or the original name it records -/
def posKey (f : Frag) : String :=
  match f.name with
  | some v => if v == "" then f.text else v
  | none => f.text

/-- the position of `f` is an entry of `n`'s token map under `posKey f` -/
def FromTokmap (n : Val) (f : Frag) : Prop :=
  ∃ tm ps p, nodeAttr n "@tokmap" = some (.list tm) ∧ tokmapGet tm (posKey f) = .ok ps ∧ p ∈ ps ∧
    posOf p = .ok (f.line, f.col)

def PosFrom (n : Val) (f : Frag) : Prop :=
  (f.line = none ∧ f.col = none) ∨ (f.line = some 0 ∧ f.col = some 0) ∨ FromTokmap n f

theorem getpos_cases (node : Val) (key : String) (idx : Int) (l c : Option Int)
    (h : getpos node key idx = .ok (l, c)) :
    (l = none ∧ c = none) ∨ (l = some 0 ∧ c = some 0) ∨
      ∃ tm ps p, nodeAttr node "@tokmap" = some (.list tm) ∧ tokmapGet tm key = .ok ps ∧ p ∈ ps ∧
        posOf p = .ok (l, c) := by
  unfold getpos at h
  split at h
  · simp only [Except.ok.injEq, Prod.mk.injEq] at h; exact Or.inl ⟨h.1.symm, h.2.symm⟩
  · rename_i tm htm
    split at h
    · cases h
    · rename_i ps hps
      split at h
      · split at h
        · split at h
          · rename_i p hp
            exact Or.inr (Or.inr ⟨tm, ps, p, htm, hps, List.mem_of_getElem? hp, h⟩)
          · cases h
        · split at h
          · split at h
            · rename_i p hp
              exact Or.inr (Or.inr ⟨tm, ps, p, htm, hps, List.mem_of_getElem? hp, h⟩)
            · cases h
          · cases h
      · simp only [Except.ok.injEq, Prod.mk.injEq] at h; exact Or.inr (Or.inl ⟨h.1.symm, h.2.symm⟩)
  · cases h

/-- a token fragment of the walk: emitted for node `n` with stack top `s` -/
def TokFrag (root sep : Val) (f : Frag) : Prop :=
  ∃ n s, SrcAt root sep n s ∧ f.source = s ∧ PosFrom n f

def ChunkPos (root sep : Val) : Chunk → Prop
  | .layout _ _ n => ∃ s, SrcAt root sep n s
  | .frag f => TokFrag root sep f

def AllPos (root sep : Val) (cs : List Chunk) : Prop := ∀ c ∈ cs, ChunkPos root sep c

theorem allPos_nil (root sep : Val) : AllPos root sep [] := by intro c hc; simp at hc

theorem allPos_append {root sep : Val} {a b : List Chunk} (ha : AllPos root sep a) (hb : AllPos root sep b) :
    AllPos root sep (a ++ b) := by
  intro c hc
  rcases List.mem_append.mp hc with h | h
  · exact ha c h
  · exact hb c h

theorem tokenHandler_pos (hd : HData) (th : Option TokenHandlerId) (pos : Option Int) (node : Val)
    (t : String) (src : Src) (fs : List Frag) (h : tokenHandler hd th pos node t src = .ok fs) :
    ∀ f ∈ fs, f.source = src ∧ PosFrom node f := by
  intro f hf
  cases th with
  | none => simp [tokenHandler] at h; subst h; simp at hf
  | some th =>
    cases th with
    | strDefault =>
      simp only [tokenHandler, tokenStrDefault] at h
      split at h
      · rename_i i
        split at h
        · rename_i l c hg
          simp only [Except.ok.injEq] at h; subst h
          simp only [List.mem_singleton] at hf; subst hf
          refine ⟨rfl, ?_⟩
          rcases getpos_cases _ _ _ _ _ hg with h1 | h1 | ⟨tm, ps, p, h1, h2, h3, h4⟩
          · exact Or.inl h1
          · exact Or.inr (Or.inl h1)
          · exact Or.inr (Or.inr ⟨tm, ps, p, h1, by simpa [posKey] using h2, h3, h4⟩)
        · cases h
      · simp only [Except.ok.injEq] at h; subst h
        simp only [List.mem_singleton] at hf; subst hf
        exact ⟨rfl, Or.inl ⟨rfl, rfl⟩⟩
    | unobfuscate =>
      simp only [tokenHandler, tokenUnobfuscate] at h
      split at h
      · cases h
      · rename_i orig _
        split at h
        · rename_i i
          split at h
          · rename_i l c hg
            simp only [Except.ok.injEq] at h; subst h
            simp only [List.mem_singleton] at hf; subst hf
            refine ⟨rfl, ?_⟩
            rcases getpos_cases _ _ _ _ _ hg with h1 | h1 | ⟨tm, ps, p, h1, h2, h3, h4⟩
            · exact Or.inl h1
            · exact Or.inr (Or.inl h1)
            · refine Or.inr (Or.inr ⟨tm, ps, p, h1, ?_, h3, h4⟩)
              cases orig <;> simpa [posKey] using h2
          · cases h
        · simp only [Except.ok.injEq] at h; subst h
          simp only [List.mem_singleton] at hf; subst hf
          exact ⟨rfl, Or.inl ⟨rfl, rfl⟩⟩

/-! ### where the values a rule walks come from -/

theorem lookupAttr_mem : ∀ {as : List (String × Val)} {a : String} {v : Val}, lookupAttr as a = some v → (a, v) ∈ as := by
  intro as
  induction as with
  | nil => intro a v h; simp [lookupAttr] at h
  | cons x rest ih =>
    intro a v h
    obtain ⟨b, w⟩ := x
    simp only [lookupAttr] at h
    split at h
    · rename_i hb
      have : b = a := by simpa using hb
      subst this; cases h; simp
    · exact List.mem_cons_of_mem _ (ih h)

/-- `v` is the value of an attribute of `node` -/
def AttrOf (node v : Val) : Prop := ∃ k as b, node = .node k as ∧ (b, v) ∈ as

theorem nodeAttr_attrOf {node : Val} {a : String} {v : Val} (h : nodeAttr node a = some v) : AttrOf node v := by
  cases node with
  | node k as => exact ⟨k, as, a, rfl, lookupAttr_mem h⟩
  | _ => simp [nodeAttr] at h

/-- an attribute value, `None`, or a string -/
def Origin (node v : Val) : Prop := AttrOf node v ∨ v = .none ∨ ∃ t, v = .str t

theorem getattrVal_origin {node : Val} {a : String} {v : Val} (h : getattrVal node a = .ok v) : Origin node v := by
  unfold getattrVal at h
  split at h
  · split at h
    · rename_i w hw; cases h; exact Or.inl (nodeAttr_attrOf hw)
    · cases h; exact Or.inr (Or.inl rfl)
  · split at h
    · cases h
    · split at h
      · rename_i w hw; cases h; exact Or.inl (nodeAttr_attrOf hw)
      · cases h

theorem valueHandler_origin (hd : HData) (h : DeferHandlerId) (node v : Val) (hv : valueHandler hd h node = .ok v) :
    Origin node v := by
  unfold valueHandler at hv
  split at hv
  · cases hv
  · rename_i w hw
    cases h with
    | comment => simp only [Except.ok.injEq] at hv; subst hv; exact Or.inl (nodeAttr_attrOf hw)
    | literalContinuation =>
      simp only at hv
      split at hv
      · simp only [Except.ok.injEq] at hv; subst hv; exact Or.inr (Or.inr ⟨_, rfl⟩)
      · cases hv
    | obfResolve => simp at hv

/-- the Resolve hook answers with a name -/
def ResolveStr (cfg : Cfg σ) : Prop :=
  ∀ f, cfg.resolve = some f → ∀ path node s v s', f path node s = .ok (v, s') → ∃ t, v = .str t

theorem getSrc_origin (cfg : Cfg σ) (hc : ResolveStr cfg) (path : Path) (node : Val) (a : AttrSrc) (s : σ)
    (v : Val) (s' : σ) (h : getSrc cfg path node a s = .ok (v, s')) : Origin node v := by
  cases a with
  | name a =>
    simp only [getSrc] at h
    obtain ⟨w, h1, h2⟩ := except_map_ok h
    cases h2; exact getattrVal_origin h1
  | iter => simp [getSrc] at h
  | declare a =>
    simp only [getSrc] at h
    split at h
    · cases h
    · rename_i target ht
      have := getattrVal_origin ht
      split at h
      · cases h; exact this
      · obtain ⟨w, _, h2⟩ := except_map_ok h
        cases h2; exact this
  | resolve =>
    simp only [getSrc] at h
    split at h
    · cases h
    · split at h
      · rename_i f hf
        exact Or.inr (Or.inr (hc f hf _ _ _ _ _ h))
      · obtain ⟨w, h1, h2⟩ := except_map_ok h
        cases h2; exact getattrVal_origin h1
  | literal =>
    simp only [getSrc] at h
    split at h
    · obtain ⟨w, h1, h2⟩ := except_map_ok h
      cases h2; exact valueHandler_origin _ _ _ _ h1
    · obtain ⟨w, h1, h2⟩ := except_map_ok h
      cases h2; exact getattrVal_origin h1
  | lineComment =>
    simp only [getSrc] at h
    split at h
    · obtain ⟨w, h1, h2⟩ := except_map_ok h
      cases h2; exact valueHandler_origin _ _ _ _ h1
    · cases h; exact Or.inr (Or.inl rfl)
  | blockComment =>
    simp only [getSrc] at h
    split at h
    · obtain ⟨w, h1, h2⟩ := except_map_ok h
      cases h2; exact valueHandler_origin _ _ _ _ h1
    · cases h; exact Or.inr (Or.inl rfl)

theorem origin_srcAt {root sep node v : Val} {s0 : Src} (hs : SrcAt root sep node s0) (ho : Origin node v)
    (k : String) (as : List (String × Val)) (hv : v = .node k as) : SrcAt root sep v (pushSource s0 v) := by
  rcases ho with ⟨k0, as0, b, rfl, hm⟩ | rfl | ⟨t, rfl⟩
  · exact .attr k0 as0 s0 b v hs hm
  · cases hv
  · cases hv

theorem iterNode_items (cfg : Cfg σ) (node : Val) (items : List (Step × Val)) (h : iterNode cfg node = .ok items) :
    items = [] ∨ ∃ k as xs, node = .node k as ∧ ("children", Val.list xs) ∈ as ∧ ∀ q ∈ items, q.2 ∈ xs := by
  unfold iterNode at h
  split at h
  · rename_i k as
    split at h
    · split at h
      · cases h; exact Or.inl rfl
      · rename_i xs hx
        cases h
        right
        refine ⟨k, as, xs, rfl, lookupAttr_mem hx, ?_⟩
        intro q hq
        simp only [List.mem_map, List.mem_filter] at hq
        obtain ⟨r, ⟨hr, _⟩, rfl⟩ := hq
        exact enumFrom_mem _ _ _ hr
      · cases h
    · cases h
  · cases h

theorem getIter_srcAt (cfg : Cfg σ) (hc : ResolveStr cfg) {root sep : Val} (path : Path) (node : Val)
    (a : AttrSrc) (s : σ) (items : List (Step × Val)) (s' : σ) (s0 : Src) (hs : SrcAt root sep node s0)
    (h : getIter cfg path node a s = .ok (items, s')) :
    ∀ q ∈ items, SrcAt root sep q.2 (pushSource s0 q.2) := by
  unfold getIter at h
  split at h
  · obtain ⟨w, h1, h2⟩ := except_map_ok h
    cases h2
    rcases iterNode_items cfg node _ h1 with rfl | ⟨k, as, xs, rfl, hm, hall⟩
    · intro q hq; simp at hq
    · intro q hq; exact .item k as s0 "children" xs q.2 hs hm (hall q hq)
  · split at h
    · cases h
    · rename_i v s1 hg
      have ho := getSrc_origin cfg hc path node a s v s1 hg
      cases v with
      | list xs =>
        simp only [Except.ok.injEq, Prod.mk.injEq] at h
        obtain ⟨rfl, _⟩ := h
        intro q hq
        simp only [List.mem_map] at hq
        obtain ⟨r, hr, rfl⟩ := hq
        rcases ho with ⟨k0, as0, b, rfl, hm⟩ | h0 | ⟨t, h0⟩
        · exact .item k0 as0 s0 b xs r.2 hs hm (enumFrom_mem _ _ _ hr)
        · cases h0
        · cases h0
      | node k' as' =>
        simp only at h
        obtain ⟨w, h1, h2⟩ := except_map_ok h
        cases h2
        rcases iterNode_items cfg _ _ h1 with rfl | ⟨k2, as2, xs, heq, hm, hall⟩
        · intro q hq; simp at hq
        · cases heq
          rcases ho with ⟨k0, as0, b, rfl, hm0⟩ | h0 | ⟨t, h0⟩
          · intro q hq
            exact .grand k0 as0 s0 b k' as' "children" xs q.2 hs hm0 hm (hall q hq)
          · cases h0
          · cases h0
      | none => simp at h
      | int n => simp at h
      | bool b => simp at h
      | str t => simp at h

/-! ### the walk -/

section
variable (cfg : Cfg σ) (root : Val)

local notation "AllP" => AllPos root cfg.elisionSep
local notation "At" => SrcAt root cfg.elisionSep

theorem emitToken_pos (pos : Option Int) (cur : Val) (src : Src) (v : Val) (cs : List Chunk)
    (hs : At cur src) (h : emitToken cfg pos cur src v = .ok cs) : AllP cs := by
  cases v with
  | str t =>
    simp only [emitToken] at h
    obtain ⟨fs, h1, h2⟩ := except_map_ok h
    subst h2
    intro c hc
    simp only [List.mem_map] at hc
    obtain ⟨f, hf, rfl⟩ := hc
    have := tokenHandler_pos _ _ _ _ _ _ _ h1 f hf
    exact ⟨cur, src, hs, this.1, this.2⟩
  | _ => simp [emitToken] at h

/-- the recursive callback: a node walked below stack top `src` -/
def WalkFnPos (wn : WalkFn σ) : Prop :=
  ∀ path src node defn s cs s', At node (pushSource src node) → wn path src node defn s = .ok (cs, s') → AllP cs

variable {cfg root}

theorem walkValue_pos (wn : WalkFn σ) (hwn : WalkFnPos cfg root wn) (path : Path) (src : Src)
    (cur : Val) (hcur : At cur src) (pos : Option Int) (st : Step) (v : Val) (s : σ) (cs : List Chunk) (s' : σ)
    (hv : ∀ k as, v = .node k as → At v (pushSource src v))
    (h : walkValue cfg wn path src cur pos st v s = .ok (cs, s')) : AllP cs := by
  unfold walkValue at h
  split at h
  · rename_i k as
    exact hwn _ _ _ none _ _ _ (hv k as rfl) h
  · obtain ⟨cs', h1, h2⟩ := except_map_ok h
    simp only [Prod.mk.injEq] at h2
    obtain ⟨rfl, rfl⟩ := h2
    exact emitToken_pos cfg root _ _ _ _ _ hcur h1

theorem runActs_pos (wn : WalkFn σ) (hwn : WalkFnPos cfg root wn) (path : Path) (src : Src)
    (cur : Val) (hcur : At cur src) (pos : Option Int) (sep : List Rule) :
    ∀ (as : List JAct) (s : σ) (cs : List Chunk) (s' : σ),
      (∀ st v, JAct.item st v ∈ as → At v (pushSource src v)) →
      seqM (runAct cfg wn path src cur pos sep) as s = .ok (cs, s') → AllP cs := by
  intro as
  induction as with
  | nil => intro s cs s' _ h; rw [seqM_nil_ok] at h; rw [h.1]; exact allPos_nil _ _
  | cons a as ih =>
    intro s cs s' hall h
    rw [seqM_cons_ok] at h
    obtain ⟨c1, s1, c2, h1, h2, rfl⟩ := h
    apply allPos_append _ (ih s1 c2 s' (fun st v hb => hall st v (by simp [hb])) h2)
    cases a with
    | item st v =>
      exact walkValue_pos wn hwn _ _ _ hcur _ _ _ _ _ _ (fun _ _ _ => hall st v (by simp)) h1
    | sep =>
      exact hwn _ _ _ (some sep) _ _ _ (by rw [srcAt_fix hcur]; exact hcur) h1
    | esep =>
      exact hwn _ _ _ none _ _ _ (.sep cur src hcur) h1

theorem joinActs_srcAt (src : Src) (items : List (Step × Val))
    (h : ∀ q ∈ items, At q.2 (pushSource src q.2)) :
    ∀ st v, JAct.item st v ∈ joinActs items → At v (pushSource src v) := by
  intro st v ha
  cases items with
  | nil => simp [joinActs] at ha
  | cons x rest =>
    simp only [joinActs, List.mem_cons, List.mem_flatMap, JAct.item.injEq] at ha
    rcases ha with ⟨_, hv⟩ | ⟨q, hq, hm⟩
    · have := h x (by simp); rw [← hv] at this; exact this
    · simp only [List.mem_cons, List.mem_nil_iff, or_false, JAct.item.injEq, reduceCtorEq, false_or] at hm
      have := h q (by simp [hq]); rw [← hm.2] at this; exact this

theorem elisionActsAux_srcAt (ek : List String) (src : Src) : ∀ (items : List (Step × Val)) (prev : Val),
    (∀ q ∈ items, At q.2 (pushSource src q.2)) →
    ∀ st v, JAct.item st v ∈ elisionActsAux ek prev items → At v (pushSource src v) := by
  intro items
  induction items with
  | nil => intro prev _ st v ha; simp [elisionActsAux] at ha
  | cons x rest ih =>
    intro prev h st v ha
    simp only [elisionActsAux, List.mem_append, List.mem_cons, JAct.item.injEq] at ha
    rcases ha with (ha | ha) | ⟨_, hv⟩ | ha
    · split at ha <;> simp at ha
    · split at ha <;> simp at ha
    · have := h x (by simp); rw [← hv] at this; exact this
    · exact ih x.2 (fun q hq => h q (by simp [hq])) st v ha

theorem elisionActs_srcAt (ek : List String) (src : Src) (items : List (Step × Val))
    (h : ∀ q ∈ items, At q.2 (pushSource src q.2)) :
    ∀ st v, JAct.item st v ∈ elisionActs ek items → At v (pushSource src v) := by
  intro st v ha
  cases items with
  | nil => simp [elisionActs] at ha
  | cons x rest =>
    simp only [elisionActs, List.mem_cons, JAct.item.injEq] at ha
    rcases ha with ⟨_, hv⟩ | ha
    · have := h x (by simp); rw [← hv] at this; exact this
    · exact elisionActsAux_srcAt ek src rest x.2 (fun q hq => h q (by simp [hq])) st v ha

theorem ruleStep_pos (hc : ResolveStr cfg) (wn : WalkFn σ) (hwn : WalkFnPos cfg root wn) (path : Path) (src : Src)
    (node : Val) (hn : At node src) (rule : Rule) (s : σ) (cs : List Chunk) (s' : σ)
    (h : ruleStep cfg wn path src node rule s = .ok (cs, s')) : AllP cs := by
  have hval : ∀ (a : AttrSrc) (s : σ) (v : Val) (s1 : σ), getSrc cfg path node a s = .ok (v, s1) →
      ∀ k as, v = .node k as → At v (pushSource src v) := by
    intro a s v s1 hg k as hv
    exact origin_srcAt hn (getSrc_origin cfg hc path node a s v s1 hg) k as hv
  cases rule with
  | layout m =>
    simp only [ruleStep] at h
    split at h
    · simp only [Except.ok.injEq, Prod.mk.injEq] at h
      rw [← h.1]
      intro c hc'
      simp only [List.mem_singleton] at hc'
      subst hc'
      exact ⟨src, hn⟩
    · simp only [Except.ok.injEq, Prod.mk.injEq] at h
      rw [← h.1]; exact allPos_nil _ _
  | struct m =>
    simp only [ruleStep] at h
    split at h
    · obtain ⟨x, _, h2⟩ := except_map_ok h
      simp only [Prod.mk.injEq] at h2
      rw [← h2.1]; exact allPos_nil _ _
    · simp only [Except.ok.injEq, Prod.mk.injEq] at h
      rw [← h.1]; exact allPos_nil _ _
  | text v pos =>
    simp only [ruleStep] at h
    obtain ⟨cs', h1, h2⟩ := except_map_ok h
    simp only [Prod.mk.injEq] at h2
    rw [← h2.1]
    exact emitToken_pos cfg root _ _ _ _ _ hn h1
  | attr a pos =>
    simp only [ruleStep] at h
    split at h
    · cases h
    · rename_i v s1 hg
      split at h
      · simp only [Except.ok.injEq, Prod.mk.injEq] at h
        rw [← h.1]; exact allPos_nil _ _
      · exact walkValue_pos wn hwn _ _ _ hn _ _ _ _ _ _ (hval a s v s1 hg) h
  | commentsAttr a pos =>
    simp only [ruleStep] at h
    split at h
    · cases h
    · rename_i v s1 hg
      split at h
      · simp only [Except.ok.injEq, Prod.mk.injEq] at h
        rw [← h.1]; exact allPos_nil _ _
      · exact walkValue_pos wn hwn _ _ _ hn _ _ _ _ _ _ (hval a s v s1 hg) h
  | operator a v pos =>
    simp only [ruleStep] at h
    split at h
    · cases h
    · rename_i w hw
      have hwo : ∀ k as, w = .node k as → At w (pushSource src w) := by
        intro k as hwn'
        cases a with
        | some n =>
          simp only at hw
          exact origin_srcAt hn (getattrVal_origin hw) k as hwn'
        | none =>
          simp only [Except.ok.injEq] at hw
          subst hw
          cases v <;> cases hwn'
      split at h
      · simp only [Except.ok.injEq, Prod.mk.injEq] at h
        rw [← h.1]; exact allPos_nil _ _
      · exact walkValue_pos wn hwn _ _ _ hn _ _ _ _ _ _ hwo h
  | optional a body =>
    simp only [ruleStep] at h
    split at h
    · cases h
    · split at h
      · simp only [Except.ok.injEq, Prod.mk.injEq] at h
        rw [← h.1]; exact allPos_nil _ _
      · exact hwn _ _ _ (some body) _ _ _ (by rw [srcAt_fix hn]; exact hn) h
  | joinAttr a sep pos =>
    simp only [ruleStep] at h
    split at h
    · cases h
    · rename_i items s1 hg
      have hit := getIter_srcAt cfg hc path node a s items s1 src hn hg
      exact runActs_pos wn hwn _ _ _ hn _ _ _ _ _ _ (joinActs_srcAt src items hit) h
  | elisionToken a v pos =>
    simp only [ruleStep] at h
    split at h
    · cases h
    · split at h
      · obtain ⟨cs', h1, h2⟩ := except_map_ok h
        simp only [Prod.mk.injEq] at h2
        rw [← h2.1]
        exact emitToken_pos cfg root _ _ _ _ _ hn h1
      · obtain ⟨cs', h1, h2⟩ := except_map_ok h
        simp only [Prod.mk.injEq] at h2
        rw [← h2.1]
        exact emitToken_pos cfg root _ _ _ _ _ hn h1
      · cases h
  | elisionJoinAttr a sep pos =>
    simp only [ruleStep] at h
    split at h
    · cases h
    · rename_i items s1 hg
      have hit := getIter_srcAt cfg hc path node a s items s1 src hn hg
      exact runActs_pos wn hwn _ _ _ hn _ _ _ _ _ _ (elisionActs_srcAt _ src items hit) h

theorem seqM_pos {α : Type} (f : α → σ → Except Err (List Chunk × σ))
    (hf : ∀ x s cs s', f x s = .ok (cs, s') → AllP cs) :
    ∀ (xs : List α) (s : σ) (cs : List Chunk) (s' : σ), seqM f xs s = .ok (cs, s') → AllP cs := by
  intro xs
  induction xs with
  | nil => intro s cs s' h; rw [seqM_nil_ok] at h; rw [h.1]; exact allPos_nil _ _
  | cons x xs ih =>
    intro s cs s' h
    rw [seqM_cons_ok] at h
    obtain ⟨c1, s1, c2, h1, h2, rfl⟩ := h
    exact allPos_append (hf _ _ _ _ h1) (ih _ _ _ h2)

theorem nodeStep_pos (wr : Path → Src → Val → Rule → σ → Except Err (List Chunk × σ))
    (hwr : ∀ q sr n r s cs s', At n sr → wr q sr n r s = .ok (cs, s') → AllP cs)
    (path : Path) (src : Src) (node : Val) (defn : Option (List Rule)) (s : σ) (cs : List Chunk) (s' : σ)
    (hn : At node (pushSource src node))
    (h : nodeStep cfg wr path src node defn s = .ok (cs, s')) : AllP cs := by
  unfold nodeStep at h
  split at h
  · split at h
    · cases h
    · exact seqM_pos _ (fun r s cs s' hh => hwr _ _ _ _ _ _ _ hn hh) _ _ _ _ h
  · cases h

theorem walk_pos (hc : ResolveStr cfg) : ∀ (fuel : Nat),
    WalkFnPos cfg root (walkNode cfg fuel) ∧
    (∀ q sr n r s cs s', At n sr → walkRule cfg fuel q sr n r s = .ok (cs, s') → AllP cs) := by
  intro fuel
  induction fuel with
  | zero =>
    constructor
    · intro path src node defn s cs s' _ h; simp [walkNode] at h
    · intro q sr n r s cs s' _ h; simp [walkRule] at h
  | succ fuel ih =>
    constructor
    · intro path src node defn s cs s' hn h
      simp only [walkNode] at h
      exact nodeStep_pos _ ih.2 _ _ _ _ _ _ _ hn h
    · intro q sr n r s cs s' hn h
      simp only [walkRule] at h
      exact ruleStep_pos hc _ ih.1 _ _ _ hn _ _ _ _ h

end

/-! ### the layout pass -/

/-- the two constant space fragments carry no source and an implied or absent position -/
structure HDataPos (hd : HData) : Prop where
  imply : hd.spaceImply.source = .none ∧ ((hd.spaceImply.line = none ∧ hd.spaceImply.col = none) ∨
    (hd.spaceImply.line = some 0 ∧ hd.spaceImply.col = some 0))
  drop : hd.spaceDrop.source = .none ∧ ((hd.spaceDrop.line = none ∧ hd.spaceDrop.col = none) ∨
    (hd.spaceDrop.line = some 0 ∧ hd.spaceDrop.col = some 0))

theorem fragAt_pos (node : Val) (t : String) : (fragAt node t).source = .none ∧ PosFrom node (fragAt node t) := by
  refine ⟨rfl, ?_⟩
  simp only [fragAt, getpos0]
  cases hg : getpos node t 0 with
  | error e => exact Or.inr (Or.inl ⟨rfl, rfl⟩)
  | ok lc =>
    obtain ⟨l, c⟩ := lc
    rcases getpos_cases _ _ _ _ _ hg with h1 | h1 | ⟨tm, ps, p, h1, h2, h3, h4⟩
    · exact Or.inl h1
    · exact Or.inr (Or.inl h1)
    · exact Or.inr (Or.inr ⟨tm, ps, p, h1, by simpa [posKey] using h2, h3, h4⟩)

theorem generateIndents_pos (hd : HData) (is : Option String) (lvl : Int) (node : Val) :
    ∀ f ∈ generateIndents hd is lvl, f.source = .none ∧ PosFrom node f := by
  intro f hf
  rcases generateIndents_cases hd is lvl with ⟨h, _⟩ | ⟨h, _⟩
  · rw [h] at hf; simp at hf
  · rw [h] at hf
    simp only [List.mem_singleton] at hf; subst hf; exact ⟨rfl, Or.inl ⟨rfl, rfl⟩⟩

theorem runHandler_pos (hd : HData) (hp : HDataPos hd) (is : Option String) (h : HandlerId) (node : Val)
    (b a p : Option String) (lvl : Int) :
    ∀ f ∈ (runHandler hd is h node b a p lvl).1, f.source = .none ∧ PosFrom node f := by
  intro f hf
  have hnl : (newlineFrag hd).source = .none ∧ PosFrom node (newlineFrag hd) :=
    ⟨rfl, Or.inr (Or.inl ⟨rfl, rfl⟩)⟩
  have himp : hd.spaceImply.source = .none ∧ PosFrom node hd.spaceImply :=
    ⟨hp.imply.1, by rcases hp.imply.2 with h | h; exact Or.inl h; exact Or.inr (Or.inl h)⟩
  have hdrop : hd.spaceDrop.source = .none ∧ PosFrom node hd.spaceDrop :=
    ⟨hp.drop.1, by rcases hp.drop.2 with h | h; exact Or.inl h; exact Or.inr (Or.inl h)⟩
  cases h <;> simp only [runHandler] at hf
  case noop => simp at hf
  case semicolon => simp at hf; subst hf; exact fragAt_pos node ";"
  case semicolonOptional =>
    split at hf
    · simp at hf; subst hf; exact fragAt_pos node ";"
    · simp at hf
  case openbrace => simp at hf; subst hf; exact fragAt_pos node "{"
  case closebrace => simp at hf; subst hf; exact fragAt_pos node "}"
  case spaceImply => simp at hf; subst hf; exact himp
  case spaceDrop => simp at hf; subst hf; exact hdrop
  case newlineSimple => simp at hf; subst hf; exact hnl
  case newlineOptionalPretty =>
    split at hf
    · simp at hf
    · split at hf
      · simp at hf; subst hf; exact hnl
      · simp at hf
  case spaceOptionalPretty =>
    split at hf
    · simp at hf; subst hf; exact himp
    · split at hf
      · split at hf
        · simp at hf; subst hf; exact himp
        · simp at hf
      · simp at hf
  case spaceMinimum =>
    split at hf
    · split at hf
      · simp at hf; subst hf; exact himp
      · simp at hf
    · simp at hf
  case indIndent => simp at hf
  case indDedent => simp at hf
  case indNewline =>
    simp only [List.mem_cons] at hf
    rcases hf with rfl | hf
    · exact hnl
    · exact generateIndents_pos hd is lvl node f hf
  case indNewlineOptional =>
    split at hf
    · simp at hf
    · simp only [List.mem_append] at hf
      rcases hf with hf | hf
      · split at hf
        · simp at hf; subst hf; exact hnl
        · simp at hf
      · exact generateIndents_pos hd is lvl node f hf

theorem runEntries_pos (hd : HData) (hp : HDataPos hd) (is : Option String) (b a : Option String) :
    ∀ (es : List LEntry) (prev : Option String) (lvl : Int),
      ∀ f ∈ (runEntries hd is b a es prev lvl).1, ∃ e ∈ es, f.source = .none ∧ PosFrom e.node f := by
  intro es
  induction es with
  | nil => intro prev lvl f hf; simp [runEntries] at hf
  | cons e es ih =>
    intro prev lvl f hf
    simp only [runEntries, List.mem_append] at hf
    rcases hf with hf | hf
    · exact ⟨e, by simp, runHandler_pos hd hp _ _ _ _ _ _ _ f hf⟩
    · obtain ⟨e', he', h'⟩ := ih _ _ f hf
      exact ⟨e', by simp [he'], h'⟩

/-- the node of every entry of the normal form is the node of a buffered chunk -/
theorem normalizeAux_nodes (tbl : List (LKey × Option HandlerId)) (all : List LChunk) :
    ∀ (cs : List LChunk) (stack : List LEntry), (∀ c ∈ cs, c ∈ all) →
      (∀ e ∈ stack, ∃ c ∈ all, e.node = c.node) →
      ∀ e ∈ normalizeAux tbl all cs stack, ∃ c ∈ all, e.node = c.node := by
  intro cs
  induction cs with
  | nil => intro stack _ hs; simpa [normalizeAux] using hs
  | cons c cs ih =>
    intro stack hc hs
    have hc0 : c ∈ all := hc c (by simp)
    have hcs : ∀ x ∈ cs, x ∈ all := fun x hx => hc x (by simp [hx])
    simp only [normalizeAux]
    split
    · apply ih _ hcs
      intro e he
      simp only [List.mem_append, List.mem_singleton] at he
      rcases he with he | rfl
      · exact hs e he
      · exact ⟨c, hc0, rfl⟩
    · rename_i idx key h hf
      apply ih _ hcs
      intro e he
      simp only [List.mem_append, List.mem_singleton] at he
      rcases he with he | rfl
      · have he' := List.mem_of_mem_take he
        simp only [List.mem_append, List.mem_singleton] at he'
        rcases he' with he' | rfl
        · exact hs e he'
        · exact ⟨c, hc0, rfl⟩
      · simp only
        split
        · rename_i x hx
          exact ⟨x, List.mem_of_getElem? hx, rfl⟩
        · exact ⟨c, hc0, rfl⟩

theorem normalize_nodes (tbl : List (LKey × Option HandlerId)) (buf : List LChunk) :
    ∀ e ∈ normalize tbl buf, ∃ c ∈ buf, e.node = c.node :=
  normalizeAux_nodes tbl buf buf [] (fun _ h => h) (by simp)

/-- a fragment of the final stream: a token fragment of the walk, or a layout fragment (source None)
whose position comes from the token map of an interpreted node -/
def OutFragOK (root sep : Val) (f : Frag) : Prop :=
  TokFrag root sep f ∨ (f.source = .none ∧ ∃ n s, SrcAt root sep n s ∧ PosFrom n f)

theorem flushAll_pos (cfg : Cfg σ) (hp : HDataPos cfg.hd) (root : Val) :
    ∀ (cs : List Chunk) (last : Option String) (buf : List LChunk) (lvl : Int),
      AllPos root cfg.elisionSep cs → (∀ c ∈ buf, ∃ s, SrcAt root cfg.elisionSep c.node s) →
      ∀ f ∈ (flushAll cfg cs last buf lvl).1, OutFragOK root cfg.elisionSep f := by
  have hproc : ∀ (buf : List LChunk) (b a : Option String) (lvl : Int),
      (∀ c ∈ buf, ∃ s, SrcAt root cfg.elisionSep c.node s) →
      ∀ f ∈ (processLayouts cfg buf b a lvl).1, OutFragOK root cfg.elisionSep f := by
    intro buf b a lvl hb f hf
    simp only [processLayouts] at hf
    obtain ⟨e, he, hsrc, hpos⟩ := runEntries_pos cfg.hd hp _ _ _ _ _ _ f hf
    obtain ⟨c, hc, hn⟩ := normalize_nodes cfg.layout buf e he
    obtain ⟨s, hs⟩ := hb c hc
    exact Or.inr ⟨hsrc, c.node, s, hs, by rw [← hn]; exact hpos⟩
  intro cs
  induction cs with
  | nil =>
    intro last buf lvl _ hb f hf
    simp only [flushAll] at hf
    exact hproc _ _ _ _ hb f hf
  | cons c cs ih =>
    intro last buf lvl hc hb f hf
    have hcs : AllPos root cfg.elisionSep cs := fun x hx => hc x (by simp [hx])
    cases c with
    | layout m h n =>
      simp only [flushAll] at hf
      apply ih _ _ _ hcs _ f hf
      intro x hx
      simp only [List.mem_append, List.mem_singleton] at hx
      rcases hx with hx | rfl
      · exact hb x hx
      · exact hc (.layout m h n) (by simp)
    | frag g =>
      simp only [flushAll, List.mem_append, List.mem_cons] at hf
      rcases hf with hf | rfl | hf
      · exact hproc _ _ _ _ hb f hf
      · exact Or.inl (hc (.frag f) (by simp))
      · exact ih _ _ _ hcs (by simp) f hf

/-! ### what `SrcAt` means: a node of the tree (or the separator), under the innermost sourcepath -/

/-- `v` occurs in `root` (through attribute values and list items) -/
inductive Subterm (root : Val) : Val → Prop where
  | refl : Subterm root root
  | attr (k : String) (as : List (String × Val)) (a : String) (v : Val) :
      Subterm root (.node k as) → (a, v) ∈ as → Subterm root v
  | item (xs : List Val) (v : Val) : Subterm root (.list xs) → v ∈ xs → Subterm root v

theorem srcAt_subterm {root sep n : Val} {s : Src} (h : SrcAt root sep n s) : Subterm root n ∨ Subterm sep n := by
  induction h with
  | root => exact Or.inl .refl
  | attr k as s a v _ hm ih =>
    rcases ih with ih | ih
    · exact Or.inl (.attr k as a v ih hm)
    · exact Or.inr (.attr k as a v ih hm)
  | item k as s a xs v _ hm hv ih =>
    rcases ih with ih | ih
    · exact Or.inl (.item xs v (.attr k as a _ ih hm) hv)
    · exact Or.inr (.item xs v (.attr k as a _ ih hm) hv)
  | grand k as s a k' as' b xs w _ hm hm' hw ih =>
    rcases ih with ih | ih
    · exact Or.inl (.item xs w (.attr k' as' b _ (.attr k as a _ ih hm) hm') hw)
    · exact Or.inr (.item xs w (.attr k' as' b _ (.attr k as a _ ih hm) hm') hw)
  | sep n s _ _ => exact Or.inr .refl

/-- a node's own non-empty `sourcepath` is what its tokens carry -/
theorem srcAt_own {root sep n : Val} {s : Src} (h : SrcAt root sep n s) (p : String)
    (hp : nodeAttr n "@sourcepath" = some (.str p)) (hne : p ≠ "") : s = .path p := by
  have := srcAt_fix h
  rw [← this]
  simp [pushSource, hp, hne]

/-- the stack top is `NotImplemented` or the non-empty `sourcepath` of a node of the tree -/
theorem srcAt_source {root sep n : Val} {s : Src} (h : SrcAt root sep n s) :
    s = .notImpl ∨ ∃ m p, (Subterm root m ∨ Subterm sep m) ∧ nodeAttr m "@sourcepath" = some (.str p) ∧
      p ≠ "" ∧ s = .path p := by
  have hpush : ∀ (s0 : Src) (m : Val), (Subterm root m ∨ Subterm sep m) →
      (s0 = .notImpl ∨ ∃ m p, (Subterm root m ∨ Subterm sep m) ∧ nodeAttr m "@sourcepath" = some (.str p) ∧
        p ≠ "" ∧ s0 = .path p) →
      (pushSource s0 m = .notImpl ∨ ∃ m' p, (Subterm root m' ∨ Subterm sep m') ∧
        nodeAttr m' "@sourcepath" = some (.str p) ∧ p ≠ "" ∧ pushSource s0 m = .path p) := by
    intro s0 m hm h0
    unfold pushSource
    cases hsp : nodeAttr m "@sourcepath" with
    | none => simpa using h0
    | some v =>
      cases v with
      | str p =>
        by_cases hp : (p == "") = true
        · simpa [hp] using h0
        · right
          refine ⟨m, p, hm, hsp, by simpa using hp, by simp [hp]⟩
      | _ => simpa using h0
  induction h with
  | root => exact hpush .notImpl root (Or.inl .refl) (Or.inl rfl)
  | attr k as s a v h0 hm ih => exact hpush s v (srcAt_subterm (.attr k as s a v h0 hm)) ih
  | item k as s a xs v h0 hm hv ih => exact hpush s v (srcAt_subterm (.item k as s a xs v h0 hm hv)) ih
  | grand k as s a k' as' b xs w h0 hm hm' hw ih =>
    exact hpush s w (srcAt_subterm (.grand k as s a k' as' b xs w h0 hm hm' hw)) ih
  | sep n s h0 ih => exact hpush s sep (Or.inr .refl) ih

theorem walkChunks_pos (cfg : Cfg σ) (hc : ResolveStr cfg) (tree : Val) (s : σ) (cs : List Chunk) (s' : σ)
    (h : walkChunks cfg tree s = .ok (cs, s')) : AllPos tree cfg.elisionSep cs :=
  (walk_pos (root := tree) hc _).1 _ _ _ none _ _ _ (.root) h

/-- every fragment of `list(printer(tree))` -/
theorem unparse_pos (cfg : Cfg σ) (hp : HDataPos cfg.hd) (hc : ResolveStr cfg) (tree : Val) (s : σ)
    (fs : List Frag) (h : unparse cfg tree s = .ok fs) : ∀ f ∈ fs, OutFragOK tree cfg.elisionSep f := by
  unfold unparse unparseWith at h
  cases hw : walkChunks cfg tree s with
  | error e => rw [hw] at h; simp [Except.map] at h
  | ok r =>
    obtain ⟨chunks, s'⟩ := r
    rw [hw] at h
    simp only [Except.map, Except.ok.injEq] at h
    subst h
    exact flushAll_pos cfg hp tree chunks none [] 0 (walkChunks_pos cfg hc tree s chunks s' hw) (by simp)

end CalmVerif.Unparse
