/-
Definitions for C04 (parse level): why an automatically inserted semicolon (AUTOSEMI) exists, stated against the
text with the ES5 notions of Spec.LexSeg (§7.2 WhiteSpace, §7.3 LineTerminator).
-/
import CalmVerif.Model.Parser
import CalmVerif.Spec.LexSeg

namespace CalmVerif.Proofs.ParserAsi
open CalmVerif.Model CalmVerif.Model.LR CalmVerif.Model.Lexer
open CalmVerif.Spec.LexSeg

/-- `text[a:b]` is ES5 WhiteSpace only -/
def AllWhiteSpace (text : List Char) (a b : Nat) : Prop := ∀ c ∈ slice text a b, isWhiteSpace c = true

/-- THE MODEL'S CONDITION "the previous raw token is a LINE_TERMINATOR", in text terms: a LineTerminatorSequence
    (`\n`, `\r\n`, lone `\r`, U+2028, U+2029) occupies `text[b : b+n]`, and between its end and `pos` there is nothing
    but WhiteSpace — no comment, no token (a comment directly before `pos` hides the terminator: KF-04a) -/
def LtDirectlyBefore (text : List Char) (pos : Nat) : Prop :=
  ∃ b n, TokenRegex.ltSeqLen (text.drop b) = some n ∧ b + n ≤ pos ∧ AllWhiteSpace text (b + n) pos

/-- the ES5 §7.9.1 condition it implies (sound direction): a LineTerminator character occurs before `pos`, separated
    from `pos` by WhiteSpace only — so it lies between the previous token and the token at `pos` -/
def LineTerminatorBefore (text : List Char) (pos : Nat) : Prop :=
  ∃ i c, i < pos ∧ text[i]? = some c ∧ isLineTerminator c = true ∧ AllWhiteSpace text (i + 1) pos

/-- `o` is a token of the text: not inserted, its lexeme is the text at its offset -/
def RealTok (text : List Char) (o : Token) : Prop :=
  o.auto = false ∧ (text.drop o.lexpos).take o.value.length = o.value

/-- the parser has no action on terminal `term` in some (non-defaulted) state: the token is "not allowed by the grammar"
    where `p_error` is called -/
def Rejects (term : Nat) : Prop :=
  ∃ state, defaultedOf Grammar.cached state = none ∧ actionOf Grammar.cached state term = none

/-- terminal index as the parser computes it -/
def tyOf (t : Token) : Nat := (Grammar.termIdx t.type).getD Grammar.cached.numTerminals

/-- why an inserted semicolon `t` exists -/
inductive AsiReason (text : List Char) (t : Token) : Prop where
  /-- (R1) offending token (§7.9.1 rule 1): made by `p_error` from a real token `o` of the text which the grammar did
      not allow where it stood, which is neither `;` nor an inserted `;`, and which is `}` or has a line terminator
      directly before it; `t` carries `o`'s offset and line -/
  | offending (o : Token) :
      RealTok text o → Rejects (tyOf o) → o.type ≠ "SEMI" →
      t.lexpos = o.lexpos → t.lineno = o.lineno →
      ((o.type = "RBRACE" ∧ o.value = ['}']) ∨ LtDirectlyBefore text o.lexpos) → AsiReason text t
  /-- (R2) end of input (§7.9.1 rule 2): made by `p_error(None)` when the parser could not accept `$end` -/
  | endOfInput : Rejects Grammar.cached.endTerm → t.lexpos = 0 → t.lineno = 0 → AsiReason text t
  /-- (R3) restricted production (§7.9.1 rule 3): made by the lexer itself for a LINE_TERMINATOR token that directly
      (WhiteSpace only) follows the keyword token `k` = `break` / `continue` / `return` / `throw`; `t` sits on the
      line terminator -/
  | restricted (k : Token) (kw : String) :
      RealTok text k → kw ∈ ["break", "continue", "return", "throw"] → String.ofList k.value = kw →
      k.lexpos + k.value.length ≤ t.lexpos → AllWhiteSpace text (k.lexpos + k.value.length) t.lexpos →
      (∃ n, TokenRegex.ltSeqLen (text.drop t.lexpos) = some n) → AsiReason text t

end CalmVerif.Proofs.ParserAsi
