/-
Bracket structure of the chunk stream (for `level_is_depth`).

Stream symbols: brace openers (`OpenBlock` chunks, `{` fragments), closers (`CloseBlock`, `}`),
`Indent`, `Dedent`, newline markers, everything else.  A stack automaton (`step`/`run`) accepts the
streams of the language
    S     ::= ( other | nl | group )*
    group ::= opener closer | opener Indent S Dedent nl* closer        -- braces
            | Indent S Dedent                                           -- brace-less (case / default body)
with no newline marker between an opener and its Indent.  `execRules` runs the same automaton
symbolically over a definition (children = "other", Optional bodies taken or skipped: sets of
states); `defsStructOK` demands that every definition is neutral.  `out_struct`: then the chunk
stream of every tree whose printed strings are not themselves braces is accepted, and along the
stream   level = open braces past their Indent + open brace-less groups.
-/
import CalmVerif.Proofs.UnparseOut
namespace CalmVerif.Unparse
open CalmVerif

/-- an open group: after its opening brace / inside (after Indent; `brace = false`: brace-less) /
after its Dedent -/
inductive G where
  | afterOpener | inBody (brace : Bool) | afterDedent
  deriving DecidableEq, Repr

/-- a position where statements / tokens may stand -/
def sPos : List G → Bool
  | [] => true
  | .inBody _ :: _ => true
  | _ => false

/-- `caseOK = false` forbids brace-less groups -/
def step (caseOK : Bool) : SSym → List G → Option (List G)
  | .other, st => if sPos st then some st else none
  | .nl, st =>
    match st with
    | .afterOpener :: _ => none
    | _ => some st
  | .opener, st => if sPos st then some (.afterOpener :: st) else none
  | .indent, .afterOpener :: st => some (.inBody true :: st)
  | .indent, st => if sPos st && caseOK then some (.inBody false :: st) else none
  | .dedent, .inBody true :: st => some (.afterDedent :: st)
  | .dedent, .inBody false :: st => some st
  | .dedent, _ => none
  | .closer, .afterOpener :: st => some st
  | .closer, .afterDedent :: st => some st
  | .closer, _ => none

def run (caseOK : Bool) : List SSym → List G → Option (List G)
  | [], st => some st
  | s :: ss, st =>
    match step caseOK s st with
    | some st' => run caseOK ss st'
    | none => none

theorem run_append (c : Bool) (a b : List SSym) (st : List G) :
    run c (a ++ b) st = (run c a st).bind (run c b) := by
  induction a generalizing st with
  | nil => simp [run]
  | cons s ss ih =>
    simp only [List.cons_append, run]
    cases step c s st with
    | none => simp
    | some st' => simp [ih]

/-- frame property: what is accepted on a relative stack is accepted above any S-position base -/
theorem step_frame (c : Bool) (s : SSym) (rel rel' base : List G) (hb : sPos base = true)
    (h : step c s rel = some rel') : step c s (rel ++ base) = some (rel' ++ base) := by
  cases rel with
  | nil =>
    cases base with
    | nil => simpa using h
    | cons g' base' =>
      cases g' with
      | afterOpener => simp [sPos] at hb
      | afterDedent => simp [sPos] at hb
      | inBody b =>
        cases s <;> cases c <;> simp [step, sPos] at h ⊢ <;> (try subst h) <;> (try simp) <;> (try assumption)
  | cons g rel0 =>
    cases g with
    | afterOpener => cases s <;> cases c <;> simp [step, sPos] at h ⊢ <;> (try subst h) <;> (try simp) <;> (try assumption)
    | afterDedent => cases s <;> cases c <;> simp [step, sPos] at h ⊢ <;> (try subst h) <;> (try simp) <;> (try assumption)
    | inBody b => cases s <;> cases c <;> cases b <;> simp [step, sPos] at h ⊢ <;> (try subst h) <;> (try simp) <;> (try assumption)

theorem run_frame (c : Bool) (ss : List SSym) (rel rel' base : List G) (hb : sPos base = true)
    (h : run c ss rel = some rel') : run c ss (rel ++ base) = some (rel' ++ base) := by
  induction ss generalizing rel with
  | nil => simp only [run, Option.some.injEq] at h ⊢; rw [h]
  | cons s ss ih =>
    simp only [run] at h ⊢
    cases hs : step c s rel with
    | none => rw [hs] at h; cases h
    | some r1 =>
      rw [hs] at h
      rw [step_frame c s rel r1 base hb hs]
      exact ih r1 h

/-! ### symbolic execution of the definitions -/

/-- structural symbol of a non-nesting rule; `none`: the rule yields no chunk -/
def ruleSym (tbl : List (LKey × Option HandlerId)) : Rule → Option SSym
  | .layout m =>
    match lookupLayout tbl (LKey.single m) with
    | some _ => some (symOfMarker m)
    | none => none
  | .struct _ => none
  | .text v _ => some (symOfText v)
  | _ => some .other

/-- a separator definition: only tokens, spaces and newline markers, nothing nested -/
def sepPlainS (tbl : List (LKey × Option HandlerId)) : List Rule → Bool
  | [] => true
  | r :: rs =>
    (match r with
     | .optional _ _ => false
     | .joinAttr _ _ _ => false
     | .elisionJoinAttr _ _ _ => false
     | r => ruleSym tbl r == none || ruleSym tbl r == some .other || ruleSym tbl r == some .nl)
    && sepPlainS tbl rs

/-- one symbol on every state of a set; `none` if some state rejects -/
def stepAll (c : Bool) (s : SSym) : List (List G) → Option (List (List G))
  | [] => some []
  | st :: rest =>
    match step c s st, stepAll c s rest with
    | some st', some rest' => some (st' :: rest')
    | _, _ => none

theorem stepAll_mem (c : Bool) (s : SSym) : ∀ (S S' : List (List G)), stepAll c s S = some S' →
    ∀ rel ∈ S, ∃ rel' ∈ S', step c s rel = some rel' := by
  intro S
  induction S with
  | nil => intro S' _ rel hr; simp at hr
  | cons st rest ih =>
    intro S' h rel hr
    simp only [stepAll] at h
    split at h
    · rename_i st' rest' h1 h2
      cases h
      rcases List.mem_cons.mp hr with rfl | hr
      · exact ⟨st', by simp, h1⟩
      · obtain ⟨r', hr', hs⟩ := ih rest' h2 rel hr
        exact ⟨r', by simp [hr'], hs⟩
    · cases h

mutual
  def execRule (c : Bool) (tbl : List (LKey × Option HandlerId)) : Rule → List (List G) → Option (List (List G))
    | .optional _ body, S => (execRules c tbl body S).map (fun S' => S ++ S')
    | .joinAttr _ sep _, S => if sepPlainS tbl sep then stepAll c .other S else none
    | .elisionJoinAttr _ sep _, S => if sepPlainS tbl sep then stepAll c .other S else none
    | .layout m, S =>
      match ruleSym tbl (.layout m) with
      | some s => stepAll c s S
      | none => some S
    | .struct _, S => some S
    | .text v _, S => stepAll c (symOfText v) S
    | .attr _ _, S => stepAll c .other S
    | .commentsAttr _ _, S => stepAll c .other S
    | .elisionToken _ _ _, S => stepAll c .other S
    | .operator _ _ _, S => stepAll c .other S
  def execRules (c : Bool) (tbl : List (LKey × Option HandlerId)) : List Rule → List (List G) → Option (List (List G))
    | [], S => some S
    | r :: rs, S =>
      match execRule c tbl r S with
      | some S1 => execRules c tbl rs S1
      | none => none
end

/-- running the definition from the empty relative stack ends in the empty relative stack, on every path -/
def defStructOK (c : Bool) (tbl : List (LKey × Option HandlerId)) (d : List Rule) : Bool :=
  match execRules c tbl d [[]] with
  | some S' => S'.all (fun st => st == [])
  | none => false

/-- `caseKinds` may open brace-less groups, the other kinds may not -/
def defsStructOK (tbl : List (LKey × Option HandlerId)) (caseKinds : List String) : Defs → Bool
  | [] => true
  | (k, d) :: rest => defStructOK (caseKinds.contains k) tbl d && defsStructOK tbl caseKinds rest

/-- accepting with brace-less groups forbidden implies accepting with them allowed -/
theorem step_mono (s : SSym) (st st' : List G) (h : step false s st = some st') : step true s st = some st' := by
  cases st with
  | nil => cases s <;> simp [step, sPos] at h ⊢ <;> try exact h
  | cons g rest =>
    cases g with
    | afterOpener => cases s <;> simp [step, sPos] at h ⊢ <;> try exact h
    | afterDedent => cases s <;> simp [step, sPos] at h ⊢ <;> try exact h
    | inBody b => cases b <;> cases s <;> simp [step, sPos] at h ⊢ <;> try exact h

theorem run_mono (ss : List SSym) : ∀ (st st' : List G), run false ss st = some st' → run true ss st = some st' := by
  induction ss with
  | nil => intro st st' h; exact h
  | cons s ss ih =>
    intro st st' h
    simp only [run] at h ⊢
    cases hs : step false s st with
    | none => rw [hs] at h; cases h
    | some r1 =>
      rw [hs] at h
      rw [step_mono s st r1 hs]
      exact ih r1 st' h

/-! ### soundness: the chunk stream of a tree is accepted -/

theorem syms_append (a b : List Chunk) : syms (a ++ b) = syms a ++ syms b := by simp [syms]

/-- leaves every S-position stack unchanged -/
def Neutral (c : Bool) (cs : List Chunk) : Prop :=
  ∀ base, sPos base = true → run c (syms cs) base = some base

theorem neutral_nil (c : Bool) : Neutral c [] := by intro base _; rfl

theorem neutral_append (c : Bool) (a b : List Chunk) (ha : Neutral c a) (hb : Neutral c b) : Neutral c (a ++ b) := by
  intro base hbase
  rw [syms_append, run_append, ha base hbase]
  exact hb base hbase

theorem symOfText_braceFree (t : String) (h : braceFree t = true) : symOfText t = .other := by
  simp only [braceFree, Bool.and_eq_true, bne_iff_ne, ne_eq] at h
  simp [symOfText, h.1, h.2]

theorem step_other (c : Bool) (st st' : List G) (h : step c .other st = some st') : st' = st ∧ sPos st = true := by
  simp only [step] at h
  split at h
  · rename_i hs; cases h; exact ⟨rfl, hs⟩
  · cases h

theorem step_le (c' c : Bool) (hc : c' = true → c = true) (s : SSym) (st st' : List G)
    (h : step c' s st = some st') : step c s st = some st' := by
  cases c' with
  | true => rw [hc rfl]; exact h
  | false =>
    cases c with
    | false => exact h
    | true => exact step_mono s st st' h

theorem sPos_append (rel base : List G) (h1 : sPos rel = true) (h2 : sPos base = true) : sPos (rel ++ base) = true := by
  cases rel with
  | nil => simpa using h2
  | cons g r => cases g <;> simp_all [sPos]

theorem sepPlain_exec (tbl : List (LKey × Option HandlerId)) (c : Bool) :
    ∀ sep : List Rule, sepPlainS tbl sep = true → execRules c tbl sep [[]] = some [[]] := by
  intro sep
  induction sep with
  | nil => intro _; rfl
  | cons r rs ih =>
    intro h
    simp only [sepPlainS, Bool.and_eq_true] at h
    have hs : ∀ s : SSym, (s = .other ∨ s = .nl) → stepAll c s [[]] = some [[]] := by
      intro s hs; rcases hs with rfl | rfl <;> simp [stepAll, step, sPos]
    have h1 : execRule c tbl r [[]] = some [[]] := by
      cases r with
      | layout m =>
        simp only [execRule]
        have := h.1
        simp only [Bool.or_eq_true, beq_iff_eq] at this
        cases hr : ruleSym tbl (.layout m) with
        | none => rfl
        | some sy =>
          rw [hr] at this
          simp only [reduceCtorEq, Option.some.injEq, false_or] at this
          exact hs sy this
      | struct m => rfl
      | text v pos =>
        simp only [execRule]
        have := h.1
        simp only [ruleSym, Bool.or_eq_true, beq_iff_eq, reduceCtorEq, Option.some.injEq, false_or] at this
        exact hs _ this
      | attr a pos => exact hs _ (Or.inl rfl)
      | commentsAttr a pos => exact hs _ (Or.inl rfl)
      | elisionToken a v pos => exact hs _ (Or.inl rfl)
      | operator a v pos => exact hs _ (Or.inl rfl)
      | optional a b => simp at h
      | joinAttr a sp pos => simp at h
      | elisionJoinAttr a sp pos => simp at h
    simp only [execRules, h1]
    exact ih h.2

theorem lookupDef_structOK {tbl : List (LKey × Option HandlerId)} {ck : List String} {defs : Defs}
    (h : defsStructOK tbl ck defs = true) {kind : String} {d : List Rule} (hl : lookupDef defs kind = some d) :
    defStructOK (ck.contains kind) tbl d = true := by
  induction defs with
  | nil => simp [lookupDef] at hl
  | cons x rest ih =>
    obtain ⟨k', d'⟩ := x
    simp only [defsStructOK, Bool.and_eq_true] at h
    simp only [lookupDef] at hl
    split at hl
    · rename_i hk
      have : k' = kind := by simpa using hk
      subst this; cases hl; exact h.1
    · exact ih h.2 hl

def StructSpec (c : Bool) (tbl : List (LKey × Option HandlerId)) (p : String → Bool) : Shape → List Chunk → Prop
  | .token t, cs => ∃ f, cs = [.frag f] ∧ f.text = t ∧ p t = true
  | .ctoken t, cs => ∃ f, cs = [.frag f] ∧ f.text = t
  | .value, cs => Neutral c cs
  | .node, cs => Neutral c cs
  | .rules rs, cs => ∀ (c' : Bool) (S S' : List (List G)), (c' = true → c = true) →
      execRules c' tbl rs S = some S' → ∀ rel ∈ S, ∀ base, sPos base = true →
      ∃ rel' ∈ S', run c (syms cs) (rel ++ base) = some (rel' ++ base)
  | .rule r, cs => ∀ (c' : Bool) (S S' : List (List G)), (c' = true → c = true) →
      execRule c' tbl r S = some S' → ∀ rel ∈ S, ∀ base, sPos base = true →
      ∃ rel' ∈ S', run c (syms cs) (rel ++ base) = some (rel' ++ base)
  | .acts sep _, cs => sepPlainS tbl sep = true → Neutral c cs

/-- a rule that is statically `other` and whose output is neutral -/
theorem spec_other {c : Bool} {cs : List Chunk} (hn : Neutral c cs) (c' : Bool) (S S' : List (List G))
    (hc : c' = true → c = true) (he : stepAll c' .other S = some S') :
    ∀ rel ∈ S, ∀ base, sPos base = true → ∃ rel' ∈ S', run c (syms cs) (rel ++ base) = some (rel' ++ base) := by
  intro rel hr base hb
  obtain ⟨rel', hr', hs⟩ := stepAll_mem c' .other S S' he rel hr
  obtain ⟨rfl, hsp⟩ := step_other c' rel rel' hs
  exact ⟨rel', hr', hn _ (sPos_append _ _ hsp hb)⟩

theorem spec_sym {c : Bool} (ch : Chunk) (c' : Bool) (S S' : List (List G))
    (hc : c' = true → c = true) (he : stepAll c' (symOfChunk ch) S = some S') :
    ∀ rel ∈ S, ∀ base, sPos base = true → ∃ rel' ∈ S', run c (syms [ch]) (rel ++ base) = some (rel' ++ base) := by
  intro rel hr base hb
  obtain ⟨rel', hr', hs⟩ := stepAll_mem c' _ S S' he rel hr
  refine ⟨rel', hr', ?_⟩
  simp only [syms, List.map_cons, List.map_nil, run]
  rw [step_frame c _ rel rel' base hb (step_le c' c hc _ _ _ hs)]

theorem out_struct {tbl : List (LKey × Option HandlerId)} {defs : Defs} {ek ck : List String}
    {p pc k : String → Bool} (c : Bool)
    (hp : ∀ t, p t = true → braceFree t = true)
    (hk : ∀ kind, k kind = true → ck.contains kind = true → c = true)
    (hdefs : defsStructOK tbl ck defs = true)
    {sh : Shape} {cs : List Chunk} (h : Out tbl defs ek p pc k false sh cs) : StructSpec c tbl p sh cs := by
  induction h with
  | tokNone t hdt => cases hdt
  | tokOne t f hf hpt => exact ⟨f, rfl, hf, hpt⟩
  | ctokNone t hdt => cases hdt
  | ctokOne t f hf _ => exact ⟨f, rfl, hf⟩
  | valueTok t cs _ ih =>
    obtain ⟨f, rfl, hf, hpt⟩ := ih
    intro base hb
    simp only [syms, List.map_cons, List.map_nil, symOfChunk, hf, symOfText_braceFree t (hp t hpt), run, step, hb,
      ↓reduceIte]
  | valueNode cs _ ih => exact ih
  | node kind d cs hkk hl _ ih =>
    have hs := lookupDef_structOK hdefs hl
    simp only [defStructOK] at hs
    split at hs
    · rename_i S' he
      intro base hb
      obtain ⟨rel', hr', hrun⟩ := ih (ck.contains kind) [[]] S' (hk kind hkk) he [] (by simp) base hb
      simp only [List.all_eq_true, beq_iff_eq] at hs
      rw [hs rel' hr'] at hrun
      simpa using hrun
    · cases hs
  | rulesNil =>
    intro c' S S' _ he rel hr base _
    simp only [execRules, Option.some.injEq] at he
    subst he
    exact ⟨rel, hr, rfl⟩
  | rulesCons r rs c1 c2 _ _ ih1 ih2 =>
    intro c' S S' hc he rel hr base hb
    simp only [execRules] at he
    split at he
    · rename_i S1 h1
      obtain ⟨rel1, hr1, hrun1⟩ := ih1 c' S S1 hc h1 rel hr base hb
      obtain ⟨rel2, hr2, hrun2⟩ := ih2 c' S1 S' hc he rel1 hr1 base hb
      refine ⟨rel2, hr2, ?_⟩
      rw [syms_append, run_append, hrun1]
      exact hrun2
    · cases he
  | layoutSome m h nd hl =>
    intro c' S S' hc he
    simp only [execRule, ruleSym, hl] at he
    exact spec_sym (.layout m h nd) c' S S' hc he
  | layoutNone m hl =>
    intro c' S S' _ he rel hr base _
    simp only [execRule, ruleSym, hl, Option.some.injEq] at he
    subst he
    exact ⟨rel, hr, rfl⟩
  | struct m =>
    intro c' S S' _ he rel hr base _
    simp only [execRule, Option.some.injEq] at he
    subst he
    exact ⟨rel, hr, rfl⟩
  | text v pos cs _ ih =>
    obtain ⟨f, rfl, hf⟩ := ih
    intro c' S S' hc he
    simp only [execRule] at he
    have : symOfChunk (.frag f) = symOfText v := by simp [symOfChunk, hf]
    rw [← this] at he
    exact spec_sym (.frag f) c' S S' hc he
  | attrEmpty a pos => intro c' S S' hc he; exact spec_other (neutral_nil c) c' S S' hc he
  | attrValue a pos cs _ ih => intro c' S S' hc he; exact spec_other ih c' S S' hc he
  | commentsAttrEmpty a pos => intro c' S S' hc he; exact spec_other (neutral_nil c) c' S S' hc he
  | commentsAttrValue a pos cs _ ih => intro c' S S' hc he; exact spec_other ih c' S S' hc he
  | operatorEmpty a v pos => intro c' S S' hc he; exact spec_other (neutral_nil c) c' S S' hc he
  | operatorValue a v pos cs _ ih => intro c' S S' hc he; exact spec_other ih c' S S' hc he
  | optionalSkip a body =>
    intro c' S S' _ he rel hr base _
    simp only [execRule] at he
    obtain ⟨S2, _, rfl⟩ := Option.map_eq_some_iff.mp he
    exact ⟨rel, by simp [hr], rfl⟩
  | optionalTake a body cs _ ih =>
    intro c' S S' hc he rel hr base hb
    simp only [execRule] at he
    obtain ⟨S2, h2, rfl⟩ := Option.map_eq_some_iff.mp he
    obtain ⟨rel', hr', hrun⟩ := ih c' S S2 hc h2 rel hr base hb
    exact ⟨rel', by simp [hr'], hrun⟩
  | joinAttr a sep pos items cs _ ih =>
    intro c' S S' hc he
    simp only [execRule] at he
    split at he
    · rename_i hsp; exact spec_other (ih hsp) c' S S' hc he
    · cases he
  | elisionToken a v pos t cs _ ih =>
    obtain ⟨f, rfl, hf, hpt⟩ := ih
    intro c' S S' hc he
    have hn : Neutral c [.frag f] := by
      intro base hb
      simp only [syms, List.map_cons, List.map_nil, symOfChunk, hf, symOfText_braceFree t (hp t hpt), run, step, hb,
        ↓reduceIte]
    exact spec_other hn c' S S' hc he
  | elisionJoinAttr a sep pos items cs _ ih =>
    intro c' S S' hc he
    simp only [execRule] at he
    split at he
    · rename_i hsp; exact spec_other (ih hsp) c' S S' hc he
    · cases he
  | actsNil sep => intro _; exact neutral_nil c
  | actsItem sep st v as c1 c2 _ _ ih1 ih2 => intro hsp; exact neutral_append c _ _ ih1 (ih2 hsp)
  | actsSep sep as c1 c2 _ _ ih1 ih2 =>
    intro hsp
    apply neutral_append c _ _ _ (ih2 hsp)
    intro base hb
    obtain ⟨rel', hr', hrun⟩ := ih1 c [[]] [[]] (fun h => h) (sepPlain_exec tbl c sep hsp) [] (by simp) base hb
    simp only [List.mem_singleton] at hr'
    subst hr'
    simpa using hrun
  | actsEsep sep as c1 c2 _ _ ih1 ih2 => intro hsp; exact neutral_append c _ _ ih1 (ih2 hsp)

end CalmVerif.Unparse
