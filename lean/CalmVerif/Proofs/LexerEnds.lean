/-
Helper lemmas for C06 (positions): no token matcher ends its match on a <CR> that is followed by <LF>, so a
CR LF pair is never split between two tokens (or a token and the following gap).
-/
import CalmVerif.Proofs.LexerPly

namespace CalmVerif.Proofs.LexerEnds
open CalmVerif.Model.TokenRegex CalmVerif.Model.PlyLex CalmVerif.Proofs.LexerRegex CalmVerif.Proofs.LexerPly
open CalmVerif.Gen

/-- the last character of the first `n` characters -/
def lastOf (l : List Char) (n : Nat) : Option Char := if n = 0 then none else l[n - 1]?

theorem lastOf_add (l : List Char) (a b : Nat) (hb : 0 < b) :
    lastOf l (a + b) = lastOf (l.drop a) b := by
  unfold lastOf
  have h1 : a + b ≠ 0 := by omega
  have h2 : b ≠ 0 := by omega
  simp only [h1, h2, if_false, List.getElem?_drop]
  congr 1
  omega

theorem lastOf_cons (c : Char) (cs : List Char) (m : Nat) (hm : 0 < m) :
    lastOf (c :: cs) (m + 1) = lastOf cs m := by
  have := lastOf_add (c :: cs) 1 m hm
  rw [Nat.add_comm] at this
  simpa using this

theorem spanLen_getElem (p : Char → Bool) : ∀ (l : List Char) (i : Nat), i < spanLen p l →
    ∃ c, l[i]? = some c ∧ p c = true := by
  intro l
  induction l with
  | nil => intro i h; simp [spanLen] at h
  | cons x xs ih =>
    intro i h
    simp only [spanLen] at h
    split at h
    · rename_i hx
      cases i with
      | zero => exact ⟨x, by simp, hx⟩
      | succ j => simpa using ih j (by omega)
    · omega

theorem lastOf_span (p : Char → Bool) (l : List Char) (h : 0 < spanLen p l) :
    ∃ c, lastOf l (spanLen p l) = some c ∧ p c = true := by
  unfold lastOf
  have h0 : spanLen p l ≠ 0 := by omega
  simp only [h0, if_false]
  exact spanLen_getElem p l _ (by omega)

theorem lastOf_of_take (rest lit : List Char) (h : rest.take lit.length = lit) (hne : lit ≠ []) :
    ∃ c, lastOf rest lit.length = some c ∧ c ∈ lit := by
  unfold lastOf
  have hl : lit.length ≠ 0 := by
    intro h0; exact hne (List.length_eq_zero_iff.mp h0)
  simp only [hl, if_false]
  have : rest[lit.length - 1]? = lit[lit.length - 1]? := by
    have h1 : (rest.take lit.length)[lit.length - 1]? = rest[lit.length - 1]? := by
      rw [List.getElem?_take]
      have : lit.length - 1 < lit.length := by omega
      simp [this]
    rw [← h1, h]
  rw [this, ← List.getLast?_eq_getElem?, List.getLast?_eq_some_getLast hne]
  exact ⟨_, rfl, List.getLast_mem hne⟩

/-- the match does not end on a <CR> immediately followed by <LF> -/
def EndsOK (m : List Char → Option Nat) : Prop :=
  ∀ rest n, m rest = some n → ¬ (lastOf rest n = some '\r' ∧ (rest.drop n).head? = some '\n')

/-- the last character of the match satisfies `P` -/
def LastIs (m : List Char → Option Nat) (P : Char → Prop) : Prop :=
  ∀ rest n, m rest = some n → ∃ c, lastOf rest n = some c ∧ P c

theorem EndsOK.of_lastIs {m : List Char → Option Nat} {P : Char → Prop} (h : LastIs m P) (hP : ¬ P '\r') :
    EndsOK m := by
  intro rest n hm ⟨h1, _⟩
  obtain ⟨c, hc, hpc⟩ := h rest n hm
  rw [h1] at hc
  simp at hc
  subst hc
  exact hP hpc

/-! ### the matchers -/

theorem ltSeqLen_endsOK : EndsOK ltSeqLen := by
  intro rest n h
  cases rest with
  | nil => simp [ltSeqLen] at h
  | cons c cs =>
    simp only [ltSeqLen] at h
    split at h
    · rename_i hc; simp at h; subst h; subst hc; simp [lastOf]
    · split at h
      · rename_i hc
        subst hc
        cases cs with
        | nil => simp at h; subst h; simp [lastOf]
        | cons d ds =>
          simp only at h
          split at h
          · rename_i hd; subst hd; simp at h; subst h; simp [lastOf]
          · rename_i hd; simp at h; subst h; simp [lastOf]; intro h; exact absurd h hd
      · split at h
        · rename_i hc; simp at h; subst h; subst hc; simp [lastOf]
        · split at h
          · rename_i hc; simp at h; subst h; subst hc; simp [lastOf]
          · simp at h

theorem matchLit_lastIs (lit : List Char) : LastIs (matchLit lit) (fun c => c ∈ lit) := by
  intro rest n h
  unfold matchLit at h
  split at h
  · simp at h
  · split at h
    · rename_i hne hs
      simp at h; subst h
      have hne' : lit ≠ [] := by intro h0; simp [h0] at hne
      exact lastOf_of_take rest lit (startsWith_take hs) hne'
    · simp at h

theorem strBody_last (k : StrClasses) (q : Char) :
    ∀ (l : List Char) (skip n : Nat), strBody k q skip l = some n → lastOf l n = some q := by
  intro l
  induction l with
  | nil => intro skip n h; cases skip <;> simp [strBody] at h
  | cons c cs ih =>
    intro skip n h
    cases skip with
    | succ s =>
      simp only [strBody, Option.map_eq_some_iff] at h
      obtain ⟨m, hm, rfl⟩ := h
      have hb := strBody_bounds k q cs s m hm
      rw [lastOf_cons c cs m hb.1]
      exact ih s m hm
    | zero =>
      simp only [strBody] at h
      split at h
      · rename_i hc; simp at h; subst h; simp [lastOf, hc]
      · split at h
        · simp only [Option.map_eq_some_iff] at h
          obtain ⟨m, hm, rfl⟩ := h
          have hb := strBody_bounds k q cs _ m hm
          rw [lastOf_cons c cs m hb.1]
          exact ih _ m hm
        · simp at h

theorem stringLen_lastIs : LastIs stringLen (fun c => c = '"' ∨ c = '\'') := by
  intro rest n h
  unfold stringLen at h
  split at h
  · simp at h
  · rename_i c cs
    split at h
    · simp only [Option.map_eq_some_iff] at h
      obtain ⟨m, hm, rfl⟩ := h
      have hb := strBody_bounds _ _ cs 0 m hm
      refine ⟨'"', ?_, Or.inl rfl⟩
      rw [lastOf_cons c cs m hb.1]
      exact strBody_last _ _ cs 0 m hm
    · split at h
      · simp only [Option.map_eq_some_iff] at h
        obtain ⟨m, hm, rfl⟩ := h
        have hb := strBody_bounds _ _ cs 0 m hm
        refine ⟨'\'', ?_, Or.inr rfl⟩
        rw [lastOf_cons c cs m hb.1]
        exact strBody_last _ _ cs 0 m hm
      · simp at h

theorem idLen_lastIs : LastIs idLen (fun c => isIdStart c = true ∨ isIdPart c = true) := by
  intro rest n h
  unfold idLen at h
  simp only at h
  split at h
  · simp at h
  · rename_i hs
    simp at h; subst h
    by_cases hp : 0 < spanLen isIdPart (rest.drop (spanLen isIdStart rest))
    · obtain ⟨c, hc, hpc⟩ := lastOf_span isIdPart _ hp
      refine ⟨c, ?_, Or.inr hpc⟩
      rw [lastOf_add _ _ _ hp]
      exact hc
    · have h0 : spanLen isIdPart (rest.drop (spanLen isIdStart rest)) = 0 := by omega
      rw [h0, Nat.add_zero]
      obtain ⟨c, hc, hpc⟩ := lastOf_span isIdStart rest (by omega)
      exact ⟨c, hc, Or.inl hpc⟩

theorem propLen_lastIs (kw : List Char) (hne : kw ≠ []) : LastIs (propLen kw) (fun c => c ∈ kw) := by
  intro rest n h
  unfold propLen at h
  split at h
  · rename_i hs
    split at h
    · split at h
      · simp at h; subst h
        exact lastOf_of_take rest kw (startsWith_take hs) hne
      · simp at h
    · simp at h
  · simp at h

/-! ### comments -/

theorem bcScan_last : ∀ (l : List Char) (n : Nat), bcScan l = some n → lastOf l n = some '/' := by
  intro l
  induction l with
  | nil => intro n h; simp [bcScan] at h
  | cons c cs ih =>
    intro n h
    unfold bcScan at h
    cases cs with
    | nil => simp at h
    | cons d ds =>
      simp only at h
      split at h
      · rename_i hcd; simp at h; subst h; simp [lastOf, hcd.2]
      · simp only [Option.map_eq_some_iff] at h
        obtain ⟨m, hm, rfl⟩ := h
        have hb := bcScan_bounds _ _ hm
        rw [lastOf_cons c (d :: ds) m (by omega)]
        exact ih m hm

theorem blockCommentLen_lastIs : LastIs blockCommentLen (fun c => c = '/') := by
  intro rest n h
  unfold blockCommentLen at h
  split at h
  · rename_i c d r
    split at h
    · simp only [Option.map_eq_some_iff] at h
      obtain ⟨m, hm, rfl⟩ := h
      have hb := bcScan_bounds _ _ hm
      refine ⟨'/', ?_, rfl⟩
      rw [Nat.add_comm, lastOf_add (c :: d :: r) 2 m (by omega)]
      simpa using bcScan_last r m hm
    · simp at h
  · simp at h

theorem lineCommentLen_lastIs : LastIs lineCommentLen (fun c => c = '/' ∨ isLineCommentChar c = true) := by
  intro rest n h
  unfold lineCommentLen at h
  split at h
  · rename_i c d r
    split at h
    · rename_i hcd
      simp at h; subst h
      by_cases hp : 0 < spanLen isLineCommentChar r
      · obtain ⟨x, hx, hpx⟩ := lastOf_span isLineCommentChar r hp
        refine ⟨x, ?_, Or.inr hpx⟩
        rw [lastOf_add (c :: d :: r) 2 _ hp]
        simpa using hx
      · have h0 : spanLen isLineCommentChar r = 0 := by omega
        rw [h0]
        exact ⟨'/', by simp [lastOf, hcd.2], Or.inl rfl⟩
    · simp at h
  · simp at h

/-! ### regular expression literals -/

theorem reScan_last : ∀ (k : Nat) (l : List Char) (b : Bool) (n : Nat), l.length ≤ k →
    reScan b l = some n → lastOf l n = some '/' := by
  intro k
  induction k with
  | zero =>
    intro l b n hl h
    cases l with
    | nil => cases b <;> simp [reScan] at h
    | cons c cs => simp at hl
  | succ k ih =>
    intro l b n hl h
    cases l with
    | nil => cases b <;> simp [reScan] at h
    | cons c cs =>
      simp at hl
      have step1 : ∀ b' m, reScan b' cs = some m → lastOf (c :: cs) (m + 1) = some '/' := by
        intro b' m hm
        have hb := reScan_bounds _ cs b' m (Nat.le_refl _) hm
        rw [lastOf_cons c cs m hb.1]
        exact ih cs b' m hl hm
      have step2 : ∀ b' d ds m, cs = d :: ds → reScan b' ds = some m → lastOf (c :: cs) (m + 2) = some '/' := by
        intro b' d ds m hcs hm
        subst hcs
        have hb := reScan_bounds _ ds b' m (Nat.le_refl _) hm
        rw [Nat.add_comm, lastOf_add (c :: d :: ds) 2 m hb.1]
        simpa using ih ds b' m (by simp at hl; omega) hm
      cases b with
      | false =>
        unfold reScan at h
        split at h
        · simp only [Option.map_eq_some_iff] at h
          obtain ⟨m, hm, rfl⟩ := h
          exact step1 _ _ hm
        · split at h
          · cases hcs : cs with
            | nil => simp [hcs] at h
            | cons d ds =>
              simp only [hcs] at h
              split at h
              · simp only [Option.map_eq_some_iff] at h
                obtain ⟨m, hm, rfl⟩ := h
                rw [← hcs]
                exact step2 _ d ds m hcs hm
              · simp at h
          · split at h
            · simp only [Option.map_eq_some_iff] at h
              obtain ⟨m, hm, rfl⟩ := h
              exact step1 _ _ hm
            · split at h
              · rename_i hc; simp at h; subst h; simp [lastOf, hc]
              · simp at h
      | true =>
        unfold reScan at h
        split at h
        · simp only [Option.map_eq_some_iff] at h
          obtain ⟨m, hm, rfl⟩ := h
          exact step1 _ _ hm
        · split at h
          · cases hcs : cs with
            | nil => simp [hcs] at h
            | cons d ds =>
              simp only [hcs] at h
              split at h
              · simp only [Option.map_eq_some_iff] at h
                obtain ⟨m, hm, rfl⟩ := h
                rw [← hcs]
                exact step2 _ d ds m hcs hm
              · simp at h
          · split at h
            · simp only [Option.map_eq_some_iff] at h
              obtain ⟨m, hm, rfl⟩ := h
              exact step1 _ _ hm
            · simp at h

theorem regexLen_lastIs : LastIs regexLen (fun c => c = '/' ∨ isReFlag c = true) := by
  intro rest n h
  unfold regexLen at h
  simp only at h
  split at h
  · rename_i m hm
    simp at h; subst h
    by_cases hf : 0 < spanLen isReFlag (rest.drop m)
    · obtain ⟨x, hx, hpx⟩ := lastOf_span isReFlag _ hf
      refine ⟨x, ?_, Or.inr hpx⟩
      rw [lastOf_add _ _ _ hf]
      exact hx
    · have h0 : spanLen isReFlag (rest.drop m) = 0 := by omega
      rw [h0, Nat.add_zero]
      refine ⟨'/', ?_, Or.inl rfl⟩
      split at hm
      · rename_i s c cs
        split at hm
        · split at hm
          · simp only [Option.map_eq_some_iff] at hm
            obtain ⟨j, hj, rfl⟩ := hm
            have hb := reScan_bounds _ cs false j (Nat.le_refl _) hj
            rw [Nat.add_comm, lastOf_add (s :: c :: cs) 2 j hb.1]
            simpa using reScan_last _ cs false j (Nat.le_refl _) hj
          · split at hm
            · cases cs with
              | nil => simp at hm
              | cons d ds =>
                simp only at hm
                split at hm
                · simp only [Option.map_eq_some_iff] at hm
                  obtain ⟨j, hj, rfl⟩ := hm
                  have hb := reScan_bounds _ ds false j (Nat.le_refl _) hj
                  rw [Nat.add_comm, lastOf_add (s :: c :: d :: ds) 3 j hb.1]
                  simpa using reScan_last _ ds false j (Nat.le_refl _) hj
                · simp at hm
            · split at hm
              · simp only [Option.map_eq_some_iff] at hm
                obtain ⟨j, hj, rfl⟩ := hm
                have hb := reScan_bounds _ cs true j (Nat.le_refl _) hj
                rw [Nat.add_comm, lastOf_add (s :: c :: cs) 2 j hb.1]
                simpa using reScan_last _ cs true j (Nat.le_refl _) hj
              · simp at hm
        · simp at hm
      · simp at hm
  · simp at h

/-! ### numbers -/

/-- the characters a number can end with -/
def NumEnd (c : Char) : Prop :=
  c = '0' ∨ c = '.' ∨ isDec c = true ∨ isHex c = true ∨ isOct c = true ∨ isNonzero c = true

theorem expLen_cases (r : List Char) :
    expLen r = 0 ∨
    (∃ e s r2, r = e :: s :: r2 ∧ 0 < spanLen isDec r2 ∧ expLen r = 2 + spanLen isDec r2) ∨
    (∃ e r1, r = e :: r1 ∧ 0 < spanLen isDec r1 ∧ expLen r = 1 + spanLen isDec r1) := by
  cases r with
  | nil => left; simp [expLen]
  | cons e r1 =>
    by_cases he : e = 'e' ∨ e = 'E'
    · cases r1 with
      | nil => left; simp [expLen, he]
      | cons s r2 =>
        by_cases hs : s = '+' ∨ s = '-'
        · by_cases hd : 0 < spanLen isDec r2
          · right; left
            exact ⟨e, s, r2, rfl, hd, by simp [expLen, he, hs, hd]⟩
          · by_cases hd' : 0 < spanLen isDec (s :: r2)
            · right; right
              exact ⟨e, s :: r2, rfl, hd', by simp [expLen, he, hs, hd, hd']⟩
            · left; simp [expLen, he, hs, hd, hd']
        · by_cases hd' : 0 < spanLen isDec (s :: r2)
          · right; right
            exact ⟨e, s :: r2, rfl, hd', by simp [expLen, he, hs, hd']⟩
          · left; simp [expLen, he, hs, hd']
    · left; simp [expLen, he]

theorem expLen_last (r : List Char) (h : 0 < expLen r) : ∃ c, lastOf r (expLen r) = some c ∧ isDec c = true := by
  rcases expLen_cases r with h0 | ⟨e, s, r2, rfl, hd, heq⟩ | ⟨e, r1, rfl, hd, heq⟩
  · omega
  · rw [heq]
    obtain ⟨c, hc, hpc⟩ := lastOf_span isDec r2 hd
    refine ⟨c, ?_, hpc⟩
    rw [lastOf_add (e :: s :: r2) 2 _ hd]
    simpa using hc
  · rw [heq]
    obtain ⟨c, hc, hpc⟩ := lastOf_span isDec r1 hd
    refine ⟨c, ?_, hpc⟩
    rw [lastOf_add (e :: r1) 1 _ hd]
    simpa using hc

theorem fracLen_last (r : List Char) (h : 0 < fracLen r) : ∃ c, lastOf r (fracLen r) = some c ∧ isDec c = true := by
  unfold fracLen at h ⊢
  by_cases he : 0 < expLen (r.drop (spanLen isDec r))
  · obtain ⟨c, hc, hpc⟩ := expLen_last _ he
    refine ⟨c, ?_, hpc⟩
    rw [lastOf_add _ _ _ he]
    exact hc
  · have h0 : expLen (r.drop (spanLen isDec r)) = 0 := by omega
    rw [h0, Nat.add_zero] at h ⊢
    exact lastOf_span isDec r h

theorem decIntLen_last (rest : List Char) (n : Nat) (h : decIntLen rest = some n) :
    ∃ c, lastOf rest n = some c ∧ NumEnd c := by
  unfold decIntLen at h
  split at h
  · simp at h
  · rename_i c cs
    split at h
    · rename_i hc; simp at h; subst h
      exact ⟨c, by simp [lastOf], Or.inl hc⟩
    · split at h
      · rename_i hnz
        simp at h; subst h
        by_cases hd : 0 < spanLen isDec cs
        · obtain ⟨x, hx, hpx⟩ := lastOf_span isDec cs hd
          refine ⟨x, ?_, Or.inr (Or.inr (Or.inl hpx))⟩
          rw [lastOf_add (c :: cs) 1 _ hd]
          simpa using hx
        · have h0 : spanLen isDec cs = 0 := by omega
          rw [h0]
          exact ⟨c, by simp [lastOf], Or.inr (Or.inr (Or.inr (Or.inr (Or.inr hnz))))⟩
      · simp at h

theorem hexLen_lastIs : LastIs hexLen NumEnd := by
  intro rest n hk
  unfold hexLen at hk
  split at hk
  · rename_i z x r
    split at hk
    · split at hk
      · rename_i hh
        simp at hk; subst hk
        obtain ⟨c, hc, hpc⟩ := lastOf_span isHex r hh
        refine ⟨c, ?_, Or.inr (Or.inr (Or.inr (Or.inl hpc)))⟩
        rw [lastOf_add (z :: x :: r) 2 _ hh]
        simpa using hc
      · simp at hk
    · simp at hk
  · simp at hk

theorem octLen_lastIs : LastIs octLen NumEnd := by
  intro rest n hk
  unfold octLen at hk
  split at hk
  · rename_i z r
    split at hk
    · split at hk
      · rename_i ho
        simp at hk; subst hk
        obtain ⟨c, hc, hpc⟩ := lastOf_span isOct r ho
        refine ⟨c, ?_, Or.inr (Or.inr (Or.inr (Or.inr (Or.inl hpc))))⟩
        rw [lastOf_add (z :: r) 1 _ ho]
        simpa using hc
      · simp at hk
    · simp at hk
  · simp at hk

theorem decDotLen_lastIs : LastIs decDotLen NumEnd := by
  intro rest n hk
  unfold decDotLen at hk
  split at hk
  · rename_i j hj
    split at hk
    · rename_i dot r hd
      split at hk
      · rename_i hdot
        simp at hk; subst hk
        by_cases hf : 0 < fracLen r
        · obtain ⟨c, hc, hpc⟩ := fracLen_last r hf
          refine ⟨c, ?_, Or.inr (Or.inr (Or.inl hpc))⟩
          rw [lastOf_add rest (j + 1) _ hf]
          have : rest.drop (j + 1) = r := by
            rw [← List.drop_drop, hd]; simp
          rw [this]; exact hc
        · have h0 : fracLen r = 0 := by omega
          rw [h0, Nat.add_zero]
          refine ⟨'.', ?_, Or.inr (Or.inl rfl)⟩
          rw [lastOf_add rest j 1 (by omega), hd]
          simp [lastOf, hdot]
      · simp at hk
    · simp at hk
  · simp at hk

theorem dotDecLen_lastIs : LastIs dotDecLen NumEnd := by
  intro rest n hk
  unfold dotDecLen at hk
  split at hk
  · rename_i dot r
    split at hk
    · split at hk
      · rename_i hd
        simp at hk; subst hk
        have hf : 0 < fracLen r := by unfold fracLen; omega
        obtain ⟨c, hc, hpc⟩ := fracLen_last r hf
        refine ⟨c, ?_, Or.inr (Or.inr (Or.inl hpc))⟩
        rw [lastOf_add (dot :: r) 1 _ hf]
        simpa using hc
      · simp at hk
    · simp at hk
  · simp at hk

theorem decExpLen_lastIs : LastIs decExpLen NumEnd := by
  intro rest n h
  unfold decExpLen at h
  split at h
  · rename_i j hj
    simp at h; subst h
    by_cases he : 0 < expLen (rest.drop j)
    · obtain ⟨c, hc, hpc⟩ := expLen_last _ he
      refine ⟨c, ?_, Or.inr (Or.inr (Or.inl hpc))⟩
      rw [lastOf_add rest j _ he]
      exact hc
    · have h0 : expLen (rest.drop j) = 0 := by omega
      rw [h0, Nat.add_zero]
      exact decIntLen_last rest j hj
  · simp at h

theorem orElse_lastIs {a b : List Char → Option Nat} {P : Char → Prop} (ha : LastIs a P) (hb : LastIs b P) :
    LastIs (fun r => orElse (a r) (b r)) P := by
  intro rest n h
  simp only [orElse] at h
  split at h
  · rename_i k hk
    simp at h; subst h
    exact ha rest _ hk
  · exact hb rest n h

theorem numberLen_lastIs : LastIs numberLen NumEnd :=
  orElse_lastIs hexLen_lastIs (orElse_lastIs octLen_lastIs (orElse_lastIs decDotLen_lastIs
    (orElse_lastIs dotDecLen_lastIs decExpLen_lastIs)))

/-! ### every rule -/

theorem cr_facts :
    isIdStart '\r' = false ∧ isIdPart '\r' = false ∧ isLineCommentChar '\r' = false ∧ isReFlag '\r' = false ∧
    isDec '\r' = false ∧ isHex '\r' = false ∧ isOct '\r' = false ∧ isNonzero '\r' = false := by decide +kernel

theorem punct_no_cr : LexData.punctSpelling.all (fun p => !(p.2.toList.contains '\r')) = true := by decide

theorem lookup_pair_mem' (tbl : List (String × String)) (k v : String) (h : lookup tbl k = some v) :
    (k, v) ∈ tbl := by
  induction tbl with
  | nil => simp [lookup] at h
  | cons p rest ih =>
    obtain ⟨a, b⟩ := p
    simp only [lookup] at h
    split at h
    · rename_i hk; simp at h; simp [hk, h]
    · simp [ih h]

theorem ruleMatcher_endsOK (name : String) (m : List Char → Option Nat) (h : ruleMatcher name = some m) :
    EndsOK m := by
  obtain ⟨c1, c2, c3, c4, c5, c6, c7, c8⟩ := cr_facts
  unfold ruleMatcher at h
  repeat' split at h
  all_goals first
    | (simp at h; subst h)
    | skip
  · exact EndsOK.of_lastIs stringLen_lastIs (by decide)
  · exact EndsOK.of_lastIs (propLen_lastIs _ (by decide)) (by decide)
  · exact EndsOK.of_lastIs (propLen_lastIs _ (by decide)) (by decide)
  · exact EndsOK.of_lastIs idLen_lastIs (by simp [c1, c2])
  · exact EndsOK.of_lastIs numberLen_lastIs (by simp [NumEnd, c5, c6, c7, c8])
  · exact ltSeqLen_endsOK
  · exact EndsOK.of_lastIs blockCommentLen_lastIs (by decide)
  · exact EndsOK.of_lastIs lineCommentLen_lastIs (by simp [c3])
  · exact EndsOK.of_lastIs regexLen_lastIs (by simp [c4])
  · rename_i lit hl
    have hmem := lookup_pair_mem' _ _ _ hl
    have := List.all_eq_true.mp punct_no_cr _ hmem
    exact EndsOK.of_lastIs (matchLit_lastIs _) (by simpa using this)
  · simp at h

end CalmVerif.Proofs.LexerEnds
