/-
Lifting from the chunk stream to the FINAL fragment stream (for `pretty_lines_indented`):
`checkLines` accepts the output of `flushAll` with the structural depths of the chunk stream.

`scan` is `checkLines` as a state transformer (pending white space of the current line, depths still
owed).  One entry of the normal form of a buffer — a raw chunk, a noop triple (Indent, Newline, Dedent)
or a `;` pair — moves the scanner exactly as its chunks move `stableRun` / `printingDepths`.
-/
import CalmVerif.Proofs.UnparseGroups
import CalmVerif.Proofs.UnparseEnd
namespace CalmVerif.Unparse
open CalmVerif

variable {σ : Type}

abbrev LState := Option (List Frag) × List Int

def scanStep (ind : String) (f : Frag) (st : LState) : Option LState :=
  match classifyFrag f with
  | .newline => some (some [], st.2)
  | .space => some (st.1.map (· ++ [f]), st.2)
  | .token =>
    match st.2 with
    | [] => none
    | d :: ds' =>
      if lineOK ind st.1 d = true then some (none, ds') else none

def scan (ind : String) : List Frag → LState → Option LState
  | [], st => some st
  | f :: fs, st =>
    match scanStep ind f st with
    | some st' => scan ind fs st'
    | none => none

theorem scan_append (ind : String) (a b : List Frag) (st : LState) :
    scan ind (a ++ b) st = (scan ind a st).bind (scan ind b) := by
  induction a generalizing st with
  | nil => simp [scan]
  | cons f fs ih =>
    simp only [List.cons_append, scan]
    cases scanStep ind f st with
    | none => simp
    | some st' => simp [ih]

theorem checkLines_of_scan (ind : String) : ∀ (fs : List Frag) (pend pend' : Option (List Frag)) (ds : List Int),
    scan ind fs (pend, ds) = some (pend', []) → checkLines ind fs ds pend = true := by
  intro fs
  induction fs with
  | nil =>
    intro pend pend' ds h
    simp only [scan, Option.some.injEq, Prod.mk.injEq] at h
    simp [checkLines, h.2]
  | cons f fs ih =>
    intro pend pend' ds h
    simp only [scan, scanStep] at h
    simp only [checkLines]
    cases hc : classifyFrag f with
    | newline => rw [hc] at h; exact ih _ _ _ h
    | space => rw [hc] at h; exact ih _ _ _ h
    | token =>
      rw [hc] at h
      cases ds with
      | nil => simp at h
      | cons d ds' =>
        simp only at h ⊢
        by_cases hq : lineOK ind pend d = true
        · simp only [hq, ↓reduceIte] at h
          simp only [Bool.and_eq_true]
          exact ⟨hq, ih _ _ _ h⟩
        · simp [hq] at h

/-! ### chunk lists -/

def chunkOf (c : LChunk) : Chunk := .layout c.m c.handler c.node
def chunksOf (buf : List LChunk) : List Chunk := buf.map chunkOf

theorem netChunks_chunksOf (buf : List LChunk) : netChunks (chunksOf buf) = bufNet buf := by
  induction buf with
  | nil => rfl
  | cons c cs ih =>
    simp only [chunksOf, List.map_cons, chunkOf, netChunks, chunkDelta, bufNet] at ih ⊢
    rw [ih]

theorem printingDepths_append (a b : List Chunk) (l : Int) :
    printingDepths (a ++ b) l = printingDepths a l ++ printingDepths b (l + netChunks a) := by
  induction a generalizing l with
  | nil => simp [printingDepths, netChunks]
  | cons c cs ih =>
    simp only [List.cons_append, printingDepths, ih, netChunks, List.append_assoc, Int.add_assoc]

theorem stableRun_append (a b : List Chunk) (m : LMode) :
    stableRun (a ++ b) m = (stableRun a m).bind (stableRun b) := by
  induction a generalizing m with
  | nil => simp [stableRun]
  | cons c cs ih =>
    simp only [List.cons_append, stableRun]
    cases stableStep c m with
    | none => simp
    | some m' => simp [ih]

/-! ### what the handlers may assume -/

/-- handler data of the pretty printer -/
structure HDataLines (hd : HData) (is : Option String) : Prop where
  newline : hd.newline = "\n"
  spaceText : hd.spaceImply.text = " "
  spaceSrc : hd.spaceImply.source = .none
  indent : indentOK (effIndent hd is) = true

def indentHandlers : List HandlerId :=
  [.openbrace, .closebrace, .semicolon, .spaceImply, .spaceOptionalPretty, .indIndent, .indDedent,
   .indNewline, .indNewlineOptional]

/-- the facts about the `indent` layout table the lifting uses (all decided on the generated table) -/
structure IndentTable (tbl : List (LKey × Option HandlerId)) : Prop where
  tuples : indentTuplesOK tbl = true
  indent : lookupLayout tbl (LKey.single .Indent) = some .indIndent
  dedent : lookupLayout tbl (LKey.single .Dedent) = some .indDedent
  newline : lookupLayout tbl (LKey.single .Newline) = some .indNewline
  optSpace : lookupLayout tbl (LKey.single .OptionalSpace) = some .spaceOptionalPretty
  space : lookupLayout tbl (LKey.single .Space) = some .spaceImply
  endStatement : lookupLayout tbl (LKey.single .EndStatement) = some .semicolon
  handlers : ∀ m h, lookupLayout tbl (LKey.single m) = some h → h ∈ indentHandlers
  net : tableNetOK tbl = true

/-- a token text next to the buffer: non-empty, no CR / LF at its ends -/
def EdgeOK (x : Option String) : Prop :=
  ∀ b, x = some b → (∃ c t, b.toList = c :: t ∧ c ≠ '\r' ∧ c ≠ '\n') ∧ (∃ t c, b.toList = t ++ [c] ∧ c ≠ '\r' ∧ c ≠ '\n')

theorem edge_lc {hd : HData} (hn : hd.newline = "\n") {x : Option String} (hx : EdgeOK x) :
    (nlSet hd).contains (lcN hd x) = false ∧ (strTruthy x && inCRLF (lcN hd x)) = false := by
  cases x with
  | none => exact ⟨by rw [lcN_none]; exact nl_contains_nil hn, by simp [strTruthy]⟩
  | some b =>
    obtain ⟨_, t, c, htc, h1, h2⟩ := hx b rfl
    rw [lcN_some hn htc]
    unfold nlSet
    rw [nl_contains_single hn, inCRLF_single]
    have : (c == '\r' || c == '\n') = false := by simp [h1, h2]
    simp [this]

theorem edge_fc {hd : HData} (hn : hd.newline = "\n") {x : Option String} (hx : EdgeOK x) :
    (nlSet hd).contains (fcN hd x) = false := by
  cases x with
  | none => rw [fcN_none]; exact nl_contains_nil hn
  | some b =>
    obtain ⟨⟨c, t, hct, h1, h2⟩, _⟩ := hx b rfl
    have h1' : hd.newline.length = 1 := by rw [hn]; decide
    have : fcN hd (some b) = [c] := by simp [fcN, h1', hct]
    rw [this]
    unfold nlSet
    rw [nl_contains_single hn]
    simp [h1, h2]

/-! ### classification of the fragments the handlers yield -/

theorem classify_fragAt (node : Val) (s : String) (hs : s = ";" ∨ s = "{" ∨ s = "}") :
    classifyFrag (fragAt node s) = .token := by
  rcases hs with rfl | rfl | rfl <;> simp [classifyFrag, fragAt] <;> decide

theorem classify_newline {hd : HData} (hn : hd.newline = "\n") : classifyFrag (newlineFrag hd) = .newline := by
  simp [classifyFrag, newlineFrag, hn]

theorem classify_space {hd : HData} {is : Option String} (hl : HDataLines hd is) :
    classifyFrag hd.spaceImply = .space := by
  simp only [classifyFrag, hl.spaceSrc, hl.spaceText]
  decide

theorem indentChar_facts (c : Char) (h : indentCharOK c = true) : c ≠ '\n' ∧ c ≠ '\r' ∧ c ≠ ';' ∧ c ≠ '{' ∧ c ≠ '}' := by
  refine ⟨?_, ?_, ?_, ?_, ?_⟩ <;> (intro he; subst he; revert h; decide)

theorem strMul_chars (s : String) (n : Int) : ∀ c ∈ (strMul s n).toList, c ∈ s.toList := by
  intro c hc
  simp only [strMul, String.toList_ofList, List.mem_flatten, List.mem_replicate] at hc
  obtain ⟨l, ⟨_, rfl⟩, hcl⟩ := hc
  exact hcl

theorem classify_indent {hd : HData} {is : Option String} (hl : HDataLines hd is) (l : Int)
    (hne : strMul (effIndent hd is) l ≠ "") : classifyFrag (indentFrag hd is l) = .space := by
  have hall : ∀ c ∈ (strMul (effIndent hd is) l).toList, indentCharOK c = true := by
    intro c hc
    have := hl.indent
    simp only [indentOK, List.all_eq_true] at this
    exact this c (strMul_chars _ _ c hc)
  have hno : ∀ c : Char, (c = '\n' ∨ c = ';' ∨ c = '{' ∨ c = '}') → strMul (effIndent hd is) l ≠ String.ofList [c] := by
    intro c hc he
    have hm : c ∈ (strMul (effIndent hd is) l).toList := by rw [he]; simp
    have := indentChar_facts c (hall c hm)
    rcases hc with rfl | rfl | rfl | rfl <;> simp_all
  have e1 := hno '\n' (Or.inl rfl)
  have e2 := hno ';' (Or.inr (Or.inl rfl))
  have e3 := hno '{' (Or.inr (Or.inr (Or.inl rfl)))
  have e4 := hno '}' (Or.inr (Or.inr (Or.inr rfl)))
  have f1 : ("\n" : String) = String.ofList ['\n'] := by decide
  have f2 : (";" : String) = String.ofList [';'] := by decide
  have f3 : ("{" : String) = String.ofList ['{'] := by decide
  have f4 : ("}" : String) = String.ofList ['}'] := by decide
  simp only [classifyFrag, indentFrag, f1, f2, f3, f4]
  simp [e1, e2, e3, e4]

theorem indentFragsOf_eq (hd : HData) (is : Option String) (l : Int) :
    indentFragsOf (effIndent hd is) l = generateIndents hd is l := rfl

/-- scanning the indentation fragments appends them to the pending white space -/
theorem scan_indents {hd : HData} {is : Option String} (hl : HDataLines hd is) (l : Int)
    (pend : Option (List Frag)) (ds : List Int) :
    scan (effIndent hd is) (generateIndents hd is l) (pend, ds)
      = some (pend.map (· ++ generateIndents hd is l), ds) := by
  rcases generateIndents_cases hd is l with ⟨h, _⟩ | ⟨h, hne⟩
  · rw [h]; cases pend <;> simp [scan]
  · rw [h]
    simp only [scan, scanStep, classify_indent hl l hne]

/-- the indentation fragment does not end with CR / LF -/
theorem indent_last {hd : HData} {is : Option String} (hl : HDataLines hd is) (l : Int) (t : List Char) (c : Char)
    (h : (indentFrag hd is l).text.toList = t ++ [c]) : c ≠ '\r' ∧ c ≠ '\n' := by
  have hm : c ∈ (strMul (effIndent hd is) l).toList := by
    simp only [indentFrag] at h; rw [h]; simp
  have := hl.indent
  simp only [indentOK, List.all_eq_true] at this
  have hc := indentChar_facts c (this c (strMul_chars _ _ c hm))
  exact ⟨hc.2.1, hc.1⟩

/-! ### the simulation invariant -/

/-- scanner state vs. the line mode of the chunk stream at Indentator level `l` -/
def RInv (ind : String) (l : Int) : LMode → Option (List Frag) → Prop
  | .mid, pend => pend = none
  | .fresh, pend => pend = some (indentFragsOf ind l)
  | .dirty, _ => True

/-- when the last fragment yielded in this flush ends with CR / LF the current line is still empty -/
def PInv (prev : Option String) (pend : Option (List Frag)) : Prop :=
  ∀ p, prev = some p → p ≠ "" ∧ ∀ t c, p.toList = t ++ [c] → (c = '\r' ∨ c = '\n') → pend = some []

theorem pinv_plain {pend : Option (List Frag)} (s : String) (hne : s ≠ "")
    (hlast : ∀ t c, s.toList = t ++ [c] → c ≠ '\r' ∧ c ≠ '\n') : PInv (some s) pend := by
  intro p hp
  cases hp
  refine ⟨hne, ?_⟩
  intro t c htc hc
  have := hlast t c htc
  rcases hc with rfl | rfl
  · exact absurd rfl this.1
  · exact absurd rfl this.2

theorem lastText_single (f : Frag) (prev : Option String) : lastText [f] prev = some f.text := by
  simp [lastText]

theorem lastText_nil (prev : Option String) : lastText [] prev = prev := by simp [lastText]

section
variable {hd : HData} {is : Option String} (hl : HDataLines hd is)
include hl

local notation "ind" => effIndent hd is

/-- the fragments of an unconditional newline at level `l` -/
theorem scan_newline_indents (l : Int) (pend : Option (List Frag)) (ds : List Int) :
    scan ind (newlineFrag hd :: generateIndents hd is l) (pend, ds) = some (some (indentFragsOf ind l), ds) := by
  simp only [scan, scanStep, classify_newline hl.newline]
  rw [scan_indents hl]
  simp [indentFragsOf_eq]

/-- one raw chunk of the buffer -/
theorem raw_step (c : LChunk) (hh : c.handler ∈ indentHandlers) (before after prev : Option String)
    (l : Int) (mode mode' : LMode) (pend : Option (List Frag)) (rest : List Int)
    (hb : EdgeOK before) (ha : EdgeOK after) (hR : RInv ind l mode pend) (hP : PInv prev pend)
    (hs : stableStep (chunkOf c) mode = some mode') :
    ∃ pend', scan ind (runHandler hd is c.handler c.node before after prev l).1
        (pend, printingDepths [chunkOf c] l ++ rest) = some (pend', rest) ∧
      (runHandler hd is c.handler c.node before after prev l).2 = l + hDelta c.handler ∧
      RInv ind (l + hDelta c.handler) mode' pend' ∧
      PInv (lastText (runHandler hd is c.handler c.node before after prev l).1 prev) pend' := by
  have hlevel := runHandler_level hd is c.handler c.node before after prev l
  -- a handler that always prints one of `;` `{` `}`
  have hvis : ∀ s : String, (s = ";" ∨ s = "{" ∨ s = "}") → isVisibleH c.handler = true →
      (runHandler hd is c.handler c.node before after prev l).1 = [fragAt c.node s] → hDelta c.handler = 0 →
      ∃ pend', scan ind (runHandler hd is c.handler c.node before after prev l).1
          (pend, printingDepths [chunkOf c] l ++ rest) = some (pend', rest) ∧
        (runHandler hd is c.handler c.node before after prev l).2 = l + hDelta c.handler ∧
        RInv ind (l + hDelta c.handler) mode' pend' ∧
        PInv (lastText (runHandler hd is c.handler c.node before after prev l).1 prev) pend' := by
    intro s hsv hv hfr hd0
    simp only [stableStep, chunkOf, hv, ↓reduceIte] at hs
    have hmode : mode ≠ .dirty ∧ mode' = .mid := by
      by_cases hm : mode = .dirty
      · simp [hm] at hs
      · simp [hm] at hs; exact ⟨hm, hs.symm⟩
    obtain ⟨hm, rfl⟩ := hmode
    have hok : lineOK ind pend l = true := by
      cases mode with
      | mid => have : pend = none := hR; simp [this, lineOK]
      | fresh => have : pend = some (indentFragsOf ind l) := hR; simp [this, lineOK]
      | dirty => exact absurd rfl hm
    refine ⟨none, ?_, hlevel, rfl, ?_⟩
    · rw [hfr]
      simp only [scan, scanStep, classify_fragAt c.node s hsv, printingDepths, chunkOf, isPrinting, hv, ↓reduceIte,
        List.append_nil, List.singleton_append, hok]
    · rw [hfr, lastText_single]
      apply pinv_plain
      · rcases hsv with rfl | rfl | rfl <;> simp [fragAt]
      · intro t ch htc
        rcases hsv with rfl | rfl | rfl <;>
          (simp [fragAt] at htc
           have e := congrArg List.getLast? htc
           simp at e
           subst e
           exact ⟨by decide, by decide⟩)
  -- a handler that yields nothing
  have hnone : isVisibleH c.handler = false → isNewlineH c.handler = false →
      (runHandler hd is c.handler c.node before after prev l).1 = [] →
      ∃ pend', scan ind (runHandler hd is c.handler c.node before after prev l).1
          (pend, printingDepths [chunkOf c] l ++ rest) = some (pend', rest) ∧
        (runHandler hd is c.handler c.node before after prev l).2 = l + hDelta c.handler ∧
        RInv ind (l + hDelta c.handler) mode' pend' ∧
        PInv (lastText (runHandler hd is c.handler c.node before after prev l).1 prev) pend' := by
    intro hv hn hfr
    simp only [stableStep, chunkOf, hv, hn, Bool.false_eq_true, ↓reduceIte] at hs
    refine ⟨pend, ?_, hlevel, ?_, ?_⟩
    · rw [hfr]; simp [scan, printingDepths, chunkOf, isPrinting, hv]
    · split at hs
      · simp only [Option.some.injEq] at hs; subst hs
        cases mode with
        | mid => exact hR
        | fresh => trivial
        | dirty => trivial
      · simp only [Option.some.injEq] at hs; subst hs
        cases mode with
        | mid => exact hR
        | fresh =>
          rename_i hz
          have : hDelta c.handler = 0 := by
            simp only [Bool.or_eq_true, bne_iff_ne, ne_eq, not_or, Decidable.not_not] at hz
            exact hz.1
          rw [this, Int.add_zero]; exact hR
        | dirty => trivial
    · rw [hfr, lastText_nil]; exact hP
  -- a space handler that yields the space fragment
  have hspace : isSpaceH c.handler = true → isVisibleH c.handler = false → isNewlineH c.handler = false →
      hDelta c.handler = 0 →
      (runHandler hd is c.handler c.node before after prev l).1 = [hd.spaceImply] →
      ∃ pend', scan ind (runHandler hd is c.handler c.node before after prev l).1
          (pend, printingDepths [chunkOf c] l ++ rest) = some (pend', rest) ∧
        (runHandler hd is c.handler c.node before after prev l).2 = l + hDelta c.handler ∧
        RInv ind (l + hDelta c.handler) mode' pend' ∧
        PInv (lastText (runHandler hd is c.handler c.node before after prev l).1 prev) pend' := by
    intro hsp hv hn hd0 hfr
    simp only [stableStep, chunkOf, hv, hn, hsp, Bool.false_eq_true, ↓reduceIte, Bool.or_true] at hs
    simp only [Option.some.injEq] at hs
    refine ⟨pend.map (· ++ [hd.spaceImply]), ?_, hlevel, ?_, ?_⟩
    · rw [hfr]; simp [scan, scanStep, classify_space hl, printingDepths, chunkOf, isPrinting, hv]
    · subst hs
      cases mode with
      | mid => have : pend = none := hR; simp [this, RInv]
      | fresh => trivial
      | dirty => trivial
    · rw [hfr, lastText_single]
      apply pinv_plain
      · rw [hl.spaceText]; decide
      · intro t ch htc
        rw [hl.spaceText] at htc
        have e := congrArg List.getLast? htc
        simp at e
        subst e
        exact ⟨by decide, by decide⟩
  simp only [indentHandlers, List.mem_cons, List.mem_nil_iff, or_false] at hh
  rcases hh with hh | hh | hh | hh | hh | hh | hh | hh | hh
  · exact hvis "{" (Or.inr (Or.inl rfl)) (by rw [hh]; rfl) (by rw [hh]; rfl) (by rw [hh]; rfl)
  · exact hvis "}" (Or.inr (Or.inr rfl)) (by rw [hh]; rfl) (by rw [hh]; rfl) (by rw [hh]; rfl)
  · exact hvis ";" (Or.inl rfl) (by rw [hh]; rfl) (by rw [hh]; rfl) (by rw [hh]; rfl)
  · exact hspace (by rw [hh]; rfl) (by rw [hh]; rfl) (by rw [hh]; rfl) (by rw [hh]; rfl) (by rw [hh]; rfl)
  · -- spaceOptionalPretty: the space fragment or nothing
    have hcases : (runHandler hd is c.handler c.node before after prev l).1 = [hd.spaceImply] ∨
        (runHandler hd is c.handler c.node before after prev l).1 = [] := by
      rw [hh]
      simp only [runHandler]
      split
      · exact Or.inl rfl
      · split
        · split
          · exact Or.inl rfl
          · exact Or.inr rfl
        · exact Or.inr rfl
    rcases hcases with h1 | h1
    · exact hspace (by rw [hh]; rfl) (by rw [hh]; rfl) (by rw [hh]; rfl) (by rw [hh]; rfl) h1
    · exact hnone (by rw [hh]; rfl) (by rw [hh]; rfl) h1
  · exact hnone (by rw [hh]; rfl) (by rw [hh]; rfl) (by rw [hh]; rfl)
  · exact hnone (by rw [hh]; rfl) (by rw [hh]; rfl) (by rw [hh]; rfl)
  · -- indNewline
    have hfr : (runHandler hd is c.handler c.node before after prev l).1 = newlineFrag hd :: generateIndents hd is l := by
      rw [hh]; rfl
    have hm : mode' = .fresh := by
      simp only [stableStep, chunkOf, hh, isVisibleH, isNewlineH, Bool.false_eq_true, ↓reduceIte, Option.some.injEq] at hs
      exact hs.symm
    subst hm
    refine ⟨some (indentFragsOf ind l), ?_, hlevel, ?_, ?_⟩
    · rw [hfr, scan_newline_indents hl]
      simp [printingDepths, chunkOf, isPrinting, hh, isVisibleH]
    · have : hDelta c.handler = 0 := by rw [hh]; rfl
      rw [this, Int.add_zero]; rfl
    · rw [hfr]
      rcases generateIndents_cases hd is l with ⟨h, _⟩ | ⟨h, hne⟩
      · rw [h, lastText_single]
        intro p hp
        cases hp
        refine ⟨by simp [newlineFrag, hl.newline], fun _ _ _ _ => ?_⟩
        rw [indentFragsOf_eq, h]
      · rw [h]
        have : lastText [newlineFrag hd, indentFrag hd is l] prev = some (indentFrag hd is l).text := by
          simp [lastText]
        rw [this]
        apply pinv_plain _ hne
        intro t ch htc; exact indent_last hl l t ch htc
  · -- indNewlineOptional
    have hm : mode' = .fresh := by
      simp only [stableStep, chunkOf, hh, isVisibleH, isNewlineH, Bool.false_eq_true, ↓reduceIte, Option.some.injEq] at hs
      exact hs.symm
    subst hm
    have hd0 : hDelta c.handler = 0 := by rw [hh]; rfl
    have hb' := edge_lc hl.newline hb
    have ha' := edge_fc hl.newline ha
    -- the newline is emitted unless the last fragment of this flush ends with CR / LF
    have hshape : ∃ nl : List Frag, (runHandler hd is c.handler c.node before after prev l).1 = nl ++ generateIndents hd is l ∧
        ((nl = [newlineFrag hd]) ∨ (nl = [] ∧ pend = some [] ∧ ∃ p, prev = some p)) := by
      rw [hh]
      simp only [runHandler, hb'.2, Bool.false_eq_true, ↓reduceIte]
      by_cases hany : anyNewline hd before after prev = true
      · refine ⟨[], by simp [hany], Or.inr ⟨rfl, ?_⟩⟩
        rw [anyNewline_eq, hb'.1, ha'] at hany
        simp only [Bool.false_or] at hany
        cases prev with
        | none =>
          rw [lcN_none] at hany
          have := nl_contains_nil hl.newline
          unfold nlSet at hany
          rw [this] at hany; cases hany
        | some p =>
          obtain ⟨hpne, hpl⟩ := hP p rfl
          obtain ⟨t, ch, htc⟩ := str_ne_empty_last hpne
          rw [lcN_some hl.newline htc] at hany
          unfold nlSet at hany
          rw [nl_contains_single hl.newline] at hany
          simp only [Bool.or_eq_true, beq_iff_eq] at hany
          exact ⟨hpl t ch htc hany, p, rfl⟩
      · refine ⟨[newlineFrag hd], by simp [hany], Or.inl rfl⟩
    obtain ⟨nl, hfr, hnl⟩ := hshape
    refine ⟨some (indentFragsOf ind l), ?_, hlevel, ?_, ?_⟩
    · rw [hfr]
      have hdp : printingDepths [chunkOf c] l = [] := by simp [printingDepths, chunkOf, isPrinting, hh, isVisibleH]
      rw [hdp, List.nil_append]
      rcases hnl with rfl | ⟨rfl, hpe, _⟩
      · exact scan_newline_indents hl l pend rest
      · rw [List.nil_append, hpe, scan_indents hl]
        simp [indentFragsOf_eq]
    · rw [hd0, Int.add_zero]; rfl
    · rw [hfr]
      rcases generateIndents_cases hd is l with ⟨h, _⟩ | ⟨h, hne⟩
      · rw [h, List.append_nil, indentFragsOf_eq, h]
        rcases hnl with rfl | ⟨rfl, hpe, p, hp⟩
        · rw [lastText_single]
          intro q hq
          cases hq
          exact ⟨by simp [newlineFrag, hl.newline], fun _ _ _ _ => rfl⟩
        · rw [lastText_nil]
          intro q hq
          refine ⟨(hP q hq).1, fun _ _ _ _ => rfl⟩
      · rw [h, lastText_append, lastText_single]
        apply pinv_plain _ hne
        intro t ch htc; exact indent_last hl l t ch htc

omit hl in
theorem chunksOf_append (a b : List LChunk) : chunksOf (a ++ b) = chunksOf a ++ chunksOf b := by
  simp [chunksOf]

omit hl in
theorem stableRun_single (c : Chunk) (m m' : LMode) (h : stableRun [c] m = some m') : stableStep c m = some m' := by
  simp only [stableRun] at h
  cases hs : stableStep c m with
  | none => rw [hs] at h; cases h
  | some x => rw [hs] at h; simpa using h

/-- one entry of the normal form, with the chunks it stands for -/
theorem grp_step {tbl : List (LKey × Option HandlerId)} (ht : IndentTable tbl) (g : List LChunk) (e : LEntry)
    (hg : Grp tbl g e) (hok : ∀ c ∈ g, LChunkOK tbl c) (before after prev : Option String)
    (l : Int) (mode mode' : LMode) (pend : Option (List Frag)) (rest : List Int)
    (hb : EdgeOK before) (ha : EdgeOK after) (hR : RInv ind l mode pend) (hP : PInv prev pend)
    (hs : stableRun (chunksOf g) mode = some mode') :
    ∃ pend', scan ind (runHandler hd is e.handler e.node before after prev l).1
        (pend, printingDepths (chunksOf g) l ++ rest) = some (pend', rest) ∧
      (runHandler hd is e.handler e.node before after prev l).2 = l + bufNet g ∧
      RInv ind (l + bufNet g) mode' pend' ∧
      PInv (lastText (runHandler hd is e.handler e.node before after prev l).1 prev) pend' := by
  rcases grp_classify ht.tuples hg with ⟨c, rfl, rfl⟩ | ⟨c1, c2, c3, rfl, m1, m2, m3, hh⟩ | ⟨c1, c2, rfl, m1, m2, hh⟩
  · have hc : LChunkOK tbl c := hok c (by simp)
    have := raw_step hl c (ht.handlers c.m c.handler hc) before after prev l mode mode' pend rest hb ha hR hP
      (stableRun_single (chunkOf c) mode mode' (by simpa [chunksOf] using hs))
    simpa [rawEntry, chunksOf, bufNet] using this
  · -- (Indent, Newline, Dedent) ↦ noop
    have h1 : c1.handler = .indIndent := by
      have := hok c1 (by simp); unfold LChunkOK at this; rw [m1, ht.indent] at this; exact (Option.some.inj this).symm
    have h2 : c2.handler = .indNewline := by
      have := hok c2 (by simp); unfold LChunkOK at this; rw [m2, ht.newline] at this; exact (Option.some.inj this).symm
    have h3 : c3.handler = .indDedent := by
      have := hok c3 (by simp); unfold LChunkOK at this; rw [m3, ht.dedent] at this; exact (Option.some.inj this).symm
    have hm : mode' = .dirty := by
      simp only [chunksOf, List.map_cons, List.map_nil, chunkOf, stableRun, stableStep, h1, h2, h3, isVisibleH,
        isNewlineH, hDelta, isSpaceH] at hs
      cases mode <;> simp at hs <;> exact hs.symm
    subst hm
    refine ⟨pend, ?_, ?_, trivial, ?_⟩
    · rw [hh]
      simp [runHandler, scan, chunksOf, chunkOf, printingDepths, isPrinting, h1, h2, h3, isVisibleH]
    · rw [hh]; simp [runHandler, bufNet, h1, h2, h3, hDelta]
    · rw [hh]; simpa [runHandler, lastText] using hP
  · -- (OptionalSpace | Space, EndStatement) ↦ `;`
    have h1 : c1.handler = .spaceOptionalPretty ∨ c1.handler = .spaceImply := by
      have := hok c1 (by simp); unfold LChunkOK at this
      rcases m1 with m1 | m1
      · rw [m1, ht.optSpace] at this; exact Or.inl (Option.some.inj this).symm
      · rw [m1, ht.space] at this; exact Or.inr (Option.some.inj this).symm
    have h2 : c2.handler = .semicolon := by
      have := hok c2 (by simp); unfold LChunkOK at this; rw [m2, ht.endStatement] at this; exact (Option.some.inj this).symm
    have hpl : PInv (lastText [fragAt e.node ";"] prev) none := by
      rw [lastText_single]
      apply pinv_plain
      · simp [fragAt]
      · intro t ch htc
        simp [fragAt] at htc
        have e' := congrArg List.getLast? htc
        simp at e'
        subst e'
        exact ⟨by decide, by decide⟩
    rcases h1 with h1 | h1
    all_goals
      have hm : mode = .mid ∧ mode' = .mid := by
        simp only [chunksOf, List.map_cons, List.map_nil, chunkOf, stableRun, stableStep, h1, h2,
          isVisibleH, isNewlineH, isSpaceH, hDelta] at hs
        cases mode <;> simp at hs
        exact ⟨rfl, hs.symm⟩
      obtain ⟨rfl, rfl⟩ := hm
      have hpn : pend = none := hR
      refine ⟨none, ?_, ?_, ?_, ?_⟩
      · rw [hh, hpn]
        simp [runHandler, scan, scanStep, classify_fragAt e.node ";" (Or.inl rfl), chunksOf, chunkOf, printingDepths,
          isPrinting, h1, h2, isVisibleH, chunkDelta, hDelta, lineOK]
      · rw [hh]; simp [runHandler, bufNet, h1, h2, hDelta]
      · have : bufNet [c1, c2] = 0 := by simp [bufNet, h1, h2, hDelta]
        rw [this]; rfl
      · rw [hh]; exact hpl

/-- the second pass over the normal form of a buffer -/
theorem entries_steps {tbl : List (LKey × Option HandlerId)} (ht : IndentTable tbl)
    (before after : Option String) (hb : EdgeOK before) (ha : EdgeOK after) :
    ∀ (ps : List (List LChunk × LEntry)), (∀ p ∈ ps, Grp tbl p.1 p.2) → (∀ p ∈ ps, ∀ c ∈ p.1, LChunkOK tbl c) →
      ∀ (prev : Option String) (l : Int) (mode mode' : LMode) (pend : Option (List Frag)) (rest : List Int),
        RInv ind l mode pend → PInv prev pend →
        stableRun (chunksOf (ps.flatMap (·.1))) mode = some mode' →
        ∃ pend', scan ind (runEntries hd is before after (ps.map (·.2)) prev l).1
            (pend, printingDepths (chunksOf (ps.flatMap (·.1))) l ++ rest) = some (pend', rest) ∧
          RInv ind (l + bufNet (ps.flatMap (·.1))) mode' pend' := by
  intro ps
  induction ps with
  | nil =>
    intro _ _ prev l mode mode' pend rest hR _ hs
    simp only [List.flatMap_nil, chunksOf, List.map_nil, stableRun, Option.some.injEq] at hs
    subst hs
    exact ⟨pend, by simp [runEntries, scan, chunksOf, printingDepths], by simpa [bufNet] using hR⟩
  | cons p ps ih =>
    intro hps hok prev l mode mode' pend rest hR hP hs
    obtain ⟨g, e⟩ := p
    simp only [List.flatMap_cons, chunksOf_append, stableRun_append] at hs
    cases hs1 : stableRun (chunksOf g) mode with
    | none => rw [hs1] at hs; cases hs
    | some m1 =>
      rw [hs1] at hs
      simp only [Option.bind_some] at hs
      obtain ⟨pend1, hsc1, hlv, hR1, hP1⟩ := grp_step hl ht g e (hps (g, e) (by simp)) (hok (g, e) (by simp))
        before after prev l mode m1 pend
        (printingDepths (chunksOf (ps.flatMap (·.1))) (l + netChunks (chunksOf g)) ++ rest) hb ha hR hP hs1
      rw [netChunks_chunksOf] at hsc1
      obtain ⟨pend2, hsc2, hR2⟩ := ih (fun q hq => hps q (by simp [hq])) (fun q hq => hok q (by simp [hq]))
        (lastText (runHandler hd is e.handler e.node before after prev l).1 prev) (l + bufNet g) m1 mode' pend1 rest
        hR1 hP1 hs
      refine ⟨pend2, ?_, ?_⟩
      · simp only [List.map_cons, runEntries, List.flatMap_cons, chunksOf_append, printingDepths_append,
          netChunks_chunksOf, List.append_assoc, scan_append, hlv]
        rw [hsc1]
        exact hsc2
      · simpa [List.flatMap_cons, bufNet_append, Int.add_assoc] using hR2

end

/-! ### the whole stream -/

/-- what the lifting needs of every chunk: layout chunks carry the table's handler; token fragments carry a
source (never None) and a text with clean edges -/
def ChunkLine (tbl : List (LKey × Option HandlerId)) : Chunk → Prop
  | .layout m h _ => lookupLayout tbl (LKey.single m) = some h
  | .frag f => f.source ≠ .none ∧ EdgeOK (some f.text)

theorem processLayouts_lines (cfg : Cfg σ) (hl : HDataLines cfg.hd cfg.indentStr) (ht : IndentTable cfg.layout)
    (buf : List LChunk) (hbuf : ∀ c ∈ buf, LChunkOK cfg.layout c) (before after : Option String)
    (hb : EdgeOK before) (ha : EdgeOK after) (l : Int) (mode mode' : LMode) (pend : Option (List Frag))
    (rest : List Int) (hR : RInv (effIndent cfg.hd cfg.indentStr) l mode pend)
    (hs : stableRun (chunksOf buf) mode = some mode') :
    ∃ pend', scan (effIndent cfg.hd cfg.indentStr) (processLayouts cfg buf before after l).1
        (pend, printingDepths (chunksOf buf) l ++ rest) = some (pend', rest) ∧
      RInv (effIndent cfg.hd cfg.indentStr) (l + bufNet buf) mode' pend' := by
  obtain ⟨ps, h1, h2, h3⟩ := normalize_groups cfg.layout buf
  have hok : ∀ p ∈ ps, ∀ c ∈ p.1, LChunkOK cfg.layout c := by
    intro p hp c hc
    apply hbuf
    rw [← h2]
    exact List.mem_flatMap.mpr ⟨p, hp, hc⟩
  have := entries_steps hl ht before after hb ha ps h3 hok none l mode mode' pend rest hR
    (by intro p hp; cases hp) (by rw [h2]; exact hs)
  simpa [processLayouts, h1, h2] using this

theorem flushAll_lines (cfg : Cfg σ) (hl : HDataLines cfg.hd cfg.indentStr) (ht : IndentTable cfg.layout) :
    ∀ (cs : List Chunk) (last : Option String) (buf : List LChunk) (lvl : Int) (mode : LMode)
      (pend : Option (List Frag)) (rest : List Int),
      (∀ c ∈ cs, ChunkLine cfg.layout c) → (∀ c ∈ buf, LChunkOK cfg.layout c) → EdgeOK last →
      RInv (effIndent cfg.hd cfg.indentStr) lvl mode pend →
      (stableRun (chunksOf buf ++ cs) mode).isSome = true →
      ∃ pend', scan (effIndent cfg.hd cfg.indentStr) (flushAll cfg cs last buf lvl).1
        (pend, printingDepths (chunksOf buf ++ cs) lvl ++ rest) = some (pend', rest) := by
  intro cs
  induction cs with
  | nil =>
    intro last buf lvl mode pend rest _ hbuf hlast hR hs
    simp only [List.append_nil] at hs ⊢
    cases hs1 : stableRun (chunksOf buf) mode with
    | none => rw [hs1] at hs; cases hs
    | some m1 =>
      obtain ⟨pend', h1, _⟩ := processLayouts_lines cfg hl ht buf hbuf last none hlast (by intro b hb; cases hb)
        lvl mode m1 pend rest hR hs1
      exact ⟨pend', by simpa [flushAll] using h1⟩
  | cons c cs ih =>
    intro last buf lvl mode pend rest hcs hbuf hlast hR hs
    have hcs' : ∀ x ∈ cs, ChunkLine cfg.layout x := fun x hx => hcs x (by simp [hx])
    cases c with
    | layout m h n =>
      have hc0 : ChunkLine cfg.layout (.layout m h n) := hcs _ (by simp)
      have e : chunksOf buf ++ Chunk.layout m h n :: cs
          = chunksOf (buf ++ [{ m := m, handler := h, node := n }]) ++ cs := by
        simp [chunksOf, chunkOf]
      simp only [flushAll]
      rw [e] at hs ⊢
      apply ih _ _ _ _ _ _ hcs' _ hlast hR hs
      intro x hx
      simp only [List.mem_append, List.mem_singleton] at hx
      rcases hx with hx | rfl
      · exact hbuf x hx
      · exact hc0
    | frag f =>
      obtain ⟨hsrc, hedge⟩ : f.source ≠ .none ∧ EdgeOK (some f.text) := hcs (.frag f) (by simp)
      rw [stableRun_append] at hs
      cases hs1 : stableRun (chunksOf buf) mode with
      | none => rw [hs1] at hs; cases hs
      | some m1 =>
        rw [hs1] at hs
        simp only [Option.bind_some, stableRun, stableStep] at hs
        have hm1 : m1 ≠ .dirty := by
          intro he; rw [he] at hs; simp at hs
        have hs2 : (stableRun (chunksOf [] ++ cs) .mid).isSome = true := by
          simpa [hm1, chunksOf] using hs
        obtain ⟨pend1, h1, hR1⟩ := processLayouts_lines cfg hl ht buf hbuf last (some f.text) hlast hedge
          lvl mode m1 pend
          ((lvl + bufNet buf) :: (printingDepths cs (lvl + bufNet buf) ++ rest)) hR hs1
        have hlev := processLayouts_level cfg ht.net buf hbuf last (some f.text) lvl
        obtain ⟨pend2, h2⟩ := ih (some f.text) [] (lvl + bufNet buf) .mid none rest hcs' (by simp) hedge rfl hs2
        have hok : lineOK (effIndent cfg.hd cfg.indentStr) pend1 (lvl + bufNet buf) = true := by
          cases m1 with
          | mid => have : pend1 = none := hR1; simp [this, lineOK]
          | fresh =>
            have : pend1 = some (indentFragsOf (effIndent cfg.hd cfg.indentStr) (lvl + bufNet buf)) := hR1
            simp [this, lineOK]
          | dirty => exact absurd rfl hm1
        have hcl : classifyFrag f = .token := by
          simp only [classifyFrag]
          have : (f.source == Src.none) = false := by simpa using hsrc
          simp [this]
        refine ⟨pend2, ?_⟩
        simp only [flushAll, printingDepths_append, netChunks_chunksOf, printingDepths, isPrinting, ↓reduceIte,
          chunkDelta, Int.add_zero, List.singleton_append, List.append_assoc, List.cons_append, List.nil_append,
          scan_append, hlev]
        rw [h1]
        simp only [Option.bind_some, scan, scanStep, hcl, hok, ↓reduceIte]
        simpa [chunksOf] using h2

/-! ### discharging the side conditions -/

def lineMarkers : List Marker :=
  [.OpenBlock, .CloseBlock, .EndStatement, .Space, .OptionalSpace, .RequiredSpace, .Newline, .OptionalNewline,
   .Indent, .Dedent, .PushScope, .PopScope, .PushCatch, .PopCatch, .ResolveFuncName]

/-- every marker's handler is one of the handlers of the `indent` rule set -/
def handlersB (tbl : List (LKey × Option HandlerId)) : Bool :=
  lineMarkers.all (fun m => match lookupLayout tbl (LKey.single m) with
    | some h => indentHandlers.contains h
    | none => true)

theorem handlers_of_B {tbl : List (LKey × Option HandlerId)} (hb : handlersB tbl = true) :
    ∀ m h, lookupLayout tbl (LKey.single m) = some h → h ∈ indentHandlers := by
  intro m h hl
  simp only [handlersB, List.all_eq_true] at hb
  have hm : m ∈ lineMarkers := by cases m <;> simp [lineMarkers]
  have := hb m hm
  rw [hl] at this
  simpa using this

theorem tokenFrags_mem {cs : List Chunk} {f : Frag} (h : Chunk.frag f ∈ cs) : f ∈ tokenFrags cs := by
  induction cs with
  | nil => cases h
  | cons c cs ih =>
    cases c with
    | frag g =>
      simp only [List.mem_cons, Chunk.frag.injEq] at h
      rcases h with rfl | h
      · simp [tokenFrags]
      · simp [tokenFrags, ih h]
    | layout m hh n =>
      simp only [List.mem_cons, reduceCtorEq, false_or] at h
      simpa [tokenFrags] using ih h

theorem tokensEdgeB_spec {cs : List Chunk} (h : tokensEdgeB cs = true) {f : Frag} (hf : f ∈ tokenFrags cs) :
    EdgeOK (some f.text) := by
  intro b hb
  cases hb
  simp only [tokensEdgeB, List.all_eq_true, Bool.and_eq_true] at h
  obtain ⟨h1, h2⟩ := h f hf
  constructor
  · cases hl : f.text.toList with
    | nil => rw [hl] at h1; simp at h1
    | cons c t =>
      rw [hl] at h1
      simp only [List.head?_cons, Bool.not_eq_true', Bool.or_eq_false_iff, beq_eq_false_iff_ne, ne_eq] at h1
      exact ⟨c, t, rfl, h1.1, h1.2⟩
  · cases hg : f.text.toList.getLast? with
    | none => rw [hg] at h2; simp at h2
    | some c =>
      rw [hg] at h2
      obtain ⟨t, ht⟩ := List.getLast?_eq_some_iff.mp hg
      refine ⟨t, c, ht, ?_, ?_⟩ <;> (intro he; subst he; simp [isLT] at h2)

theorem tokensEdgeB_clean {cs : List Chunk} (h : tokensEdgeB cs = true) : tokensCleanB cs = true := by
  simp only [tokensEdgeB, tokensCleanB, List.all_eq_true, Bool.and_eq_true] at h ⊢
  intro f hf
  exact (h f hf).2

theorem indentFragsOf_zero (s : String) : indentFragsOf s 0 = [] := by
  simp [indentFragsOf, strMul_zero]

/-- `checkLines` accepts the final stream with the structural depths of the chunk stream -/
theorem flushAll_checkLines (cfg : Cfg σ) (hl : HDataLines cfg.hd cfg.indentStr) (ht : IndentTable cfg.layout)
    (cs : List Chunk) (hcs : ∀ c ∈ cs, ChunkLine cfg.layout c) (hs : lineStartsStable cs = true) :
    checkLines (effIndent cfg.hd cfg.indentStr) (flushAll cfg cs none [] 0).1 (printingDepths cs 0) (some []) = true := by
  obtain ⟨pend', h⟩ := flushAll_lines cfg hl ht cs none [] 0 .fresh (some []) [] hcs (by simp)
    (by intro b hb; cases hb) (by simp [RInv, indentFragsOf_zero]) (by simpa [chunksOf, lineStartsStable] using hs)
  simp only [chunksOf, List.map_nil, List.nil_append, List.append_nil] at h
  exact checkLines_of_scan _ _ _ _ _ h

end CalmVerif.Unparse
