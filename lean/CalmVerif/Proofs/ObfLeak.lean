/-
The leak-propagation invariant of the obfuscator's prewalk.

`Scope.close()` re-references every leaked symbol (referenced, not locally declared) in the parent, and a
CatchScope forwards references to its parent, so in the finished scope tree every non-local symbol of a
function scope is a key of its parent's `referenced_symbols` (`LeakOK`).  `StackInv` states this for the
closed children of every open frame; every handler of the prewalk Dispatcher preserves it (keys of
`referenced_symbols` only grow: `Grow`), hence so does the walk (Proofs/ObfWalkInv.lean).
-/
import CalmVerif.Proofs.ObfWalkInv
import CalmVerif.Proofs.ObfRemap
namespace CalmVerif.Obf
open CalmVerif CalmVerif.Unparse

mutual
  /-- `t` is a closed child of a scope whose `referenced_symbols` has the keys `K`: the non-local symbols of
  every function scope are referenced in its parent, recursively -/
  def LeakOK (K : List String) : STree → Prop
    | .mk _ _ kind refs decl children =>
      match kind with
      | .func => (∀ x ∈ ckeys refs, x ∉ decl → x ∈ K) ∧ LeakOKList (ckeys refs) children
      | .catch sym _ => LeakOKList (sym :: K) children
  def LeakOKList (K : List String) : List STree → Prop
    | [] => True
    | c :: cs => LeakOK K c ∧ LeakOKList K cs
end

mutual
  theorem leakOK_mono {K K' : List String} (hk : ∀ x ∈ K, x ∈ K') : ∀ t, LeakOK K t → LeakOK K' t
    | .mk _ _ kind refs decl children, h => by
      cases kind with
      | func =>
        simp only [LeakOK] at h ⊢
        exact ⟨fun x hx hd => hk x (h.1 x hx hd), h.2⟩
      | «catch» sym u =>
        simp only [LeakOK] at h ⊢
        refine leakOKList_mono (K := sym :: K) (K' := sym :: K') ?_ children h
        intro x hx
        rcases List.mem_cons.1 hx with rfl | hx
        · exact List.mem_cons_self ..
        · exact List.mem_cons_of_mem _ (hk x hx)
  theorem leakOKList_mono {K K' : List String} (hk : ∀ x ∈ K, x ∈ K') :
      ∀ ts, LeakOKList K ts → LeakOKList K' ts
    | [], _ => trivial
    | c :: cs, h => by
      simp only [LeakOKList] at h ⊢
      exact ⟨leakOK_mono hk c h.1, leakOKList_mono hk cs h.2⟩
end

theorem leakOKList_append (K : List String) (c : STree) :
    ∀ a, LeakOKList K a → LeakOK K c → LeakOKList K (a ++ [c])
  | [], _, hc => by simp only [List.nil_append, LeakOKList]; exact ⟨hc, trivial⟩
  | x :: a, h, hc => by
    simp only [List.cons_append, LeakOKList] at h ⊢
    exact ⟨h.1, leakOKList_append K c a h.2 hc⟩

/-! ### keys of the dicts -/

theorem mem_ckeys_cset {d : Counts} {k : String} {v : Nat} {x : String} :
    x ∈ ckeys (cset d k v) ↔ x ∈ ckeys d ∨ x = k := by
  induction d with
  | nil => simp [cset, ckeys]
  | cons p d ih =>
    obtain ⟨k', v'⟩ := p
    simp only [cset]
    split
    · rename_i hk
      have : k' = k := by simpa using hk
      subst this
      simp only [ckeys, List.map_cons, List.mem_cons]
      tauto
    · simp only [ckeys, List.map_cons, List.mem_cons] at ih ⊢
      rw [ih]
      tauto

/-- keys of the effective `referenced_symbols` of the top frame -/
def effKeys : List Frame → List String
  | [] => []
  | f :: rest =>
    match f.kind with
    | .func => ckeys f.refs
    | .catch sym _ => sym :: effKeys rest

def StackInv : List Frame → Prop
  | [] => True
  | f :: rest => LeakOKList (effKeys (f :: rest)) f.children ∧ StackInv rest

/-- frame by frame: same closed children, same scope class, keys of `referenced_symbols` only grow -/
inductive Grow : List Frame → List Frame → Prop where
  | nil : Grow [] []
  | func (f f' : Frame) (r r' : List Frame) : f'.children = f.children → f.kind = .func → f'.kind = .func →
      (∀ x ∈ ckeys f.refs, x ∈ ckeys f'.refs) → Grow r r' → Grow (f :: r) (f' :: r')
  | «catch» (f f' : Frame) (r r' : List Frame) (sym : String) (u u' : Nat) : f'.children = f.children →
      f.kind = .catch sym u → f'.kind = .catch sym u' → Grow r r' → Grow (f :: r) (f' :: r')

theorem grow_refl : ∀ s, Grow s s
  | [] => .nil
  | f :: r => by
    cases hk : f.kind with
    | func => exact .func f f r r rfl hk hk (fun _ h => h) (grow_refl r)
    | «catch» sym u => exact .catch f f r r sym u u rfl hk hk (grow_refl r)

theorem grow_trans {a b c : List Frame} (h1 : Grow a b) (h2 : Grow b c) : Grow a c := by
  induction h1 generalizing c with
  | nil => exact h2
  | func f f' r r' hc hk hk' hsub _ ih =>
    cases h2 with
    | func _ f'' _ r'' hc2 _ hk2' hsub2 hr2 =>
      exact .func f f'' r r'' (hc2.trans hc) hk hk2' (fun x hx => hsub2 x (hsub x hx)) (ih hr2)
    | «catch» _ f'' _ r'' sym u u' _ hk2 _ _ => rw [hk'] at hk2; cases hk2
  | «catch» f f' r r' sym u u' hc hk hk' _ ih =>
    cases h2 with
    | func _ f'' _ r'' _ hk2 _ _ _ => rw [hk'] at hk2; cases hk2
    | «catch» _ f'' _ r'' sym2 u2 u2' hc2 hk2 hk2' hr2 =>
      rw [hk'] at hk2
      cases hk2
      exact .catch f f'' r r'' sym u u2' (hc2.trans hc) hk hk2' (ih hr2)

theorem grow_effKeys {s s' : List Frame} (h : Grow s s') : ∀ x ∈ effKeys s, x ∈ effKeys s' := by
  induction h with
  | nil => intro x hx; exact hx
  | func f f' r r' _ hk hk' hsub _ _ =>
    intro x hx
    simp only [effKeys, hk, hk'] at hx ⊢
    exact hsub x hx
  | «catch» f f' r r' sym u u' _ hk hk' _ ih =>
    intro x hx
    simp only [effKeys, hk, hk'] at hx ⊢
    rcases List.mem_cons.1 hx with rfl | hx
    · exact List.mem_cons_self ..
    · exact List.mem_cons_of_mem _ (ih x hx)

theorem grow_inv {s s' : List Frame} (h : Grow s s') : StackInv s → StackInv s' := by
  induction h with
  | nil => exact id
  | func f f' r r' hc hk hk' hsub hr ih =>
    intro hi
    simp only [StackInv] at hi ⊢
    refine ⟨?_, ih hi.2⟩
    rw [hc]
    exact leakOKList_mono (grow_effKeys (.func f f' r r' hc hk hk' hsub hr)) _ hi.1
  | «catch» f f' r r' sym u u' hc hk hk' hr ih =>
    intro hi
    simp only [StackInv] at hi ⊢
    refine ⟨?_, ih hi.2⟩
    rw [hc]
    exact leakOKList_mono (grow_effKeys (.catch f f' r r' sym u u' hc hk hk' hr)) _ hi.1

theorem referenceAt_grow : ∀ (s : List Frame) (sym : String) (c : Nat) (s' : List Frame),
    referenceAt s sym c = .ok s' → Grow s s' ∧ sym ∈ effKeys s'
  | [], _, _, _, h => by simp [referenceAt] at h
  | f :: rest, sym, c, s', h => by
    simp only [referenceAt] at h
    split at h
    · rename_i hk
      simp only [Except.ok.injEq] at h
      subst h
      refine ⟨.func _ _ _ _ rfl hk hk ?_ (grow_refl rest), ?_⟩
      · intro x hx
        exact mem_ckeys_cset.2 (Or.inl hx)
      · simp only [effKeys, hk]
        exact mem_ckeys_cset.2 (Or.inr rfl)
    · rename_i cs u hk
      split at h
      · rename_i he
        have : sym = cs := by simpa using he
        subst this
        simp only [Except.ok.injEq] at h
        subst h
        refine ⟨.catch _ _ _ _ sym u (u + c) rfl hk rfl (grow_refl rest), ?_⟩
        simp [effKeys]
      · obtain ⟨r', hr, rfl⟩ := exc_map_ok h
        have ih := referenceAt_grow rest sym c r' hr
        refine ⟨.catch _ _ _ _ cs u u rfl hk hk ih.1, ?_⟩
        simp only [effKeys, hk]
        exact List.mem_cons_of_mem _ ih.2

theorem declareAt_grow : ∀ (s : List Frame) (sym : String) (s' : List Frame),
    declareAt s sym = .ok s' → Grow s s'
  | [], _, _, h => by simp [declareAt] at h
  | f :: rest, sym, s', h => by
    simp only [declareAt] at h
    split at h
    · rename_i hk
      simp only [Except.ok.injEq] at h
      subst h
      exact .func _ _ _ _ rfl hk hk (fun x hx => mem_ckeys_cset.2 (Or.inl hx)) (grow_refl rest)
    · rename_i cs u hk
      split at h
      · obtain ⟨r', hr, rfl⟩ := exc_map_ok h
        exact .catch _ _ _ _ cs u u rfl hk hk (declareAt_grow rest sym r' hr)
      · simp only [Except.ok.injEq] at h
        subst h
        exact grow_refl _

theorem referenceAll_grow : ∀ (l : Counts) (s s' : List Frame), referenceAll l s = .ok s' →
    Grow s s' ∧ ∀ p ∈ l, p.1 ∈ effKeys s'
  | [], s, s', h => by
    simp only [referenceAll, Except.ok.injEq] at h
    subst h
    exact ⟨grow_refl _, fun p hp => by cases hp⟩
  | (sym, c) :: rest, s, s', h => by
    simp only [referenceAll] at h
    split at h
    · cases h
    · rename_i s1 h1
      have g1 := referenceAt_grow s sym c s1 h1
      have g2 := referenceAll_grow rest s1 s' h
      refine ⟨grow_trans g1.1 g2.1, ?_⟩
      intro p hp
      rcases List.mem_cons.1 hp with rfl | hp
      · exact grow_effKeys g2.1 _ g1.2
      · exact g2.2 p hp

/-! ### the handlers preserve the invariant -/

def StInv (st : St) : Prop := StackInv st.stack

theorem stInv_init : StInv St.init := by
  simp [StInv, St.init, StackInv, LeakOKList]

theorem hookPushScope_inv (p : Path) (v : Val) (s s' : St) (hs : StInv s) (h : hookPushScope p v s = .ok s') :
    StInv s' := by
  unfold hookPushScope at h
  split at h
  · cases h
  · simp only [Except.ok.injEq] at h
    subst h
    simp only [StInv, StackInv, LeakOKList, true_and]
    exact hs

theorem hookPushCatch_inv (p : Path) (v : Val) (s s' : St) (hs : StInv s) (h : hookPushCatch p v s = .ok s') :
    StInv s' := by
  unfold hookPushCatch at h
  split at h
  · cases h
  · split at h
    · cases h
    · simp only [Except.ok.injEq] at h
      subst h
      simp only [StInv, StackInv, LeakOKList, true_and]
      exact hs

theorem mem_leaked {refs : Counts} {decl : List String} {x : String} (hx : x ∈ ckeys refs) (hd : x ∉ decl) :
    ∃ p ∈ leaked refs decl, p.1 = x := by
  simp only [ckeys, List.mem_map] at hx
  obtain ⟨p, hp, rfl⟩ := hx
  refine ⟨p, ?_, rfl⟩
  simp only [leaked, List.mem_filter]
  refine ⟨hp, ?_⟩
  simpa using hd

theorem hookPop_inv (p : Path) (v : Val) (s s' : St) (hs : StInv s) (h : hookPop p v s = .ok s') :
    StInv s' := by
  unfold hookPop at h
  split at h
  · cases h
  · cases h
  · rename_i f pf rest hstk
    simp only [StInv, hstk, StackInv] at hs
    obtain ⟨hf, hrest⟩ := hs
    cases hk : f.kind with
    | func =>
      simp only [hk] at h
      split at h
      · cases h
      · cases h
      · rename_i p' rest' hcl
        simp only [Except.ok.injEq] at h
        subst h
        obtain ⟨hg, hleak⟩ := referenceAll_grow _ _ _ hcl
        have hi := grow_inv hg (show StackInv (pf :: rest) from hrest)
        simp only [StackInv] at hi
        simp only [StInv, StackInv]
        refine ⟨?_, hi.2⟩
        have hK : effKeys ({ p' with children := p'.children ++ [closeFrame f] } :: rest') = effKeys (p' :: rest') := by
          simp [effKeys]
        rw [hK]
        refine leakOKList_append _ _ _ hi.1 ?_
        simp only [closeFrame, hk, LeakOK]
        refine ⟨?_, ?_⟩
        · intro x hx hd
          obtain ⟨q, hq, rfl⟩ := mem_leaked hx hd
          exact hleak q hq
        · simpa [effKeys, hk] using hf
    | «catch» sym u =>
      simp only [hk] at h
      simp only [Except.ok.injEq] at h
      subst h
      simp only [StInv, StackInv]
      refine ⟨?_, hrest.2⟩
      have hK : effKeys ({ pf with children := pf.children ++ [closeFrame f] } :: rest) = effKeys (pf :: rest) := by
        simp [effKeys]
      rw [hK]
      refine leakOKList_append _ _ _ hrest.1 ?_
      simp only [closeFrame, hk, LeakOK]
      simpa [effKeys, hk] using hf

theorem hookDeclare_inv (p : Path) (v : Val) (s s' : St) (hs : StInv s) (h : hookDeclare p v s = .ok s') :
    StInv s' := by
  unfold hookDeclare at h
  split at h
  · cases h
  · obtain ⟨stk, hd, rfl⟩ := exc_map_ok h
    exact grow_inv (declareAt_grow _ _ _ hd) hs

theorem hookRegister_inv (p : Path) (v : Val) (s : St) (r : Val) (s' : St) (hs : StInv s)
    (h : hookRegister p v s = .ok (r, s')) : StInv s' := by
  unfold hookRegister at h
  split at h
  · cases h
  · split at h
    · cases h
    · obtain ⟨stk, hd, he⟩ := exc_map_ok h
      simp only [Prod.mk.injEq] at he
      rw [← he.2]
      exact grow_inv (referenceAt_grow _ _ _ _ hd).1 hs

theorem hookShadow_inv (p : Path) (v : Val) (s s' : St) (hs : StInv s) (h : hookShadow p v s = .ok s') :
    StInv s' := by
  unfold hookShadow at h
  split at h
  · cases h
  · split at h
    · cases h
    · obtain ⟨stk, hd, rfl⟩ := exc_map_ok h
      exact grow_inv (referenceAt_grow _ _ _ _ hd).1 hs

theorem methodStruct_inv (n : String) (p : Path) (v : Val) (s s' : St) (hs : StInv s)
    (h : methodStruct n p v s = .ok s') : StInv s' := by
  unfold methodStruct at h
  split at h
  · exact hookPushScope_inv p v s s' hs h
  · split at h
    · exact hookPop_inv p v s s' hs h
    · split at h
      · exact hookPushCatch_inv p v s s' hs h
      · split at h
        · exact hookShadow_inv p v s s' hs h
        · cases h

theorem prewalkCfg_preserves (t : Tables) (sf : Bool) : HooksPreserve (prewalkCfg t sf) StInv where
  declare := by
    intro f hf p v s s' hs h
    simp only [prewalkCfg] at hf
    split at hf
    · split at hf
      · cases hf; exact hookDeclare_inv p v s s' hs h
      · cases hf; cases h
    · cases hf
  resolve := by
    intro f hf p v s r s' hs h
    simp only [prewalkCfg] at hf
    split at hf
    · split at hf
      · cases hf; exact hookRegister_inv p v s r s' hs h
      · cases hf; cases h
    · cases hf
  struct := by
    intro m f hf p v s s' hs h
    simp only [prewalkCfg] at hf
    cases hl : lookupMarker (if sf = true then Gen.ObfData.prewalkStructShadow else Gen.ObfData.prewalkStruct) m with
    | none => rw [hl] at hf; cases hf
    | some n =>
      rw [hl] at hf
      simp only [Option.map_some, Option.some.injEq] at hf
      subst hf
      exact methodStruct_inv n p v s s' hs h

/-- **the prewalk establishes the leak-propagation invariant** -/
theorem prewalk_stackInv (t : Tables) (sf : Bool) (tree : Val) (st : St) (h : prewalk t sf tree = .ok st) :
    StackInv st.stack := by
  unfold prewalk at h
  obtain ⟨r, hr, rfl⟩ := exc_map_ok h
  exact walkChunks_inv (prewalkCfg_preserves t sf) tree St.init r.1 r.2 stInv_init (by simpa using hr)

end CalmVerif.Obf
