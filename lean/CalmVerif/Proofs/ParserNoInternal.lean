/-
Helper lemmas for C12 (composed model): the exceptions of the parser's token source (`token()`, `p_error` with
`auto_semi`, the guarded `backtracked_token`, `_raise_syntax_error`) are ECMASyntaxError / ECMARegexSyntaxError
in every configuration a parse reaches.
-/
import CalmVerif.Proofs.ParserNoInternalRelex
import CalmVerif.Proofs.ParserReach
import CalmVerif.Proofs.LRTotal

namespace CalmVerif.Proofs.ParserNoInternal
open CalmVerif.Model.TokenRegex CalmVerif.Model.PlyLex CalmVerif.Model.Lexer CalmVerif.Model CalmVerif.Model.LR
open CalmVerif.Proofs.LexerStep CalmVerif.Proofs.LexerLoop
open CalmVerif.Proofs.LexerDrive CalmVerif.Proofs.ParserDrive CalmVerif.Proofs.LexerNoInternal
open CalmVerif.Gen

/-! ### a pending real token keeps `cur_token` set -/

/-- every real pushed-back token was lexed: `cur_token` is not `None` while it is pending -/
def LinkS (st : LexState) : Prop := ∀ x ∈ st.nextTokens, x.auto = false → st.curToken.isSome = true

theorem lexCall_cur {st : LexState} {t : Token} {st' : LexState} (h : LexCall st (some t) st')
    (hreal : t.auto = false) : st'.curToken = some t := by
  obtain ⟨s, tok, st1, _, _, hcur, _, hret⟩ := h
  rcases hret with h1 | ⟨raw, a, _, h2, ha, _⟩
  · rw [hcur, ← h1]
  · simp at h2; subst h2; rw [ha] at hreal; simp at hreal

theorem tokenLoop_cur : ∀ (fuel : Nat) (st : LexState) (t : Token) (st' : LexState),
    tokenLoop fuel st = .ok (some t, st') → t.auto = false → st'.curToken.isSome = true := by
  intro fuel
  induction fuel with
  | zero => intro st t st' h; simp [tokenLoop] at h
  | succ fuel ih =>
    intro st t st' h hreal
    unfold tokenLoop at h
    split at h
    · split at h
      · simp at h
      · simp at h
      · rename_i t0 st1 hg
        split at h
        · exact ih _ _ _ h hreal
        · simp at h
          obtain ⟨rfl, rfl⟩ := h
          rw [lexCall_cur (getUpdateToken_call _ _ _ hg) hreal]; rfl
    · split at h
      · split at h
        · simp at h
        · simp at h
        · rename_i t0 st1 hg
          split at h
          · split at h
            · split at h
              · simp at h
                obtain ⟨rfl, rfl⟩ := h
                rw [lexCall_cur (getUpdateToken_call _ _ _ hg) hreal]; rfl
              · split at h
                · exact ih _ _ _ h hreal
                · exact ih _ _ _ h hreal
            · exact ih _ _ _ h hreal
          · simp at h
            obtain ⟨rfl, rfl⟩ := h
            rw [lexCall_cur (getUpdateToken_call _ _ _ hg) hreal]; rfl
      · rw [lexCall_cur (divOrRegex_call _ _ _ h) hreal]; rfl

/-- `token()` keeps the link, and a real token it returns has `cur_token` set -/
theorem token_link {st : LexState} {r : Option Token} {st' : LexState} (hl : LinkS st)
    (h : token st = .ok (r, st')) :
    LinkS st' ∧ ∀ t, r = some t → t.auto = false → st'.curToken.isSome = true := by
  have h' : ∀ r1 st1, token' st = .ok (r1, st1) →
      LinkS st1 ∧ ∀ t, r1 = some t → t.auto = false → st1.curToken.isSome = true := by
    intro r1 st1 ht
    unfold token' at ht
    split at ht
    · rename_i t rest hnt
      simp at ht
      obtain ⟨rfl, rfl⟩ := ht
      refine ⟨fun x hx hr => hl x (by rw [hnt]; simp [hx]) hr, ?_⟩
      intro x hx hr
      simp at hx; subst hx
      exact hl _ (by rw [hnt]; simp) hr
    · rename_i hnt
      have hf := (tokenLoop_spec _ _ _ _ ht).1
      refine ⟨fun x hx => by rw [hf.2.2.2, hnt] at hx; simp at hx, ?_⟩
      intro t ht' hr
      subst ht'
      exact tokenLoop_cur _ _ _ _ ht hr
  unfold token at h
  split at h
  · simp at h
  · rename_i st1 ht
    simp at h
    obtain ⟨rfl, rfl⟩ := h
    exact h' _ _ ht
  · rename_i t st1 ht
    obtain ⟨h1, h2⟩ := h' _ _ ht
    split at h
    · simp at h
      obtain ⟨rfl, rfl⟩ := h
      refine ⟨h1, ?_⟩
      intro x hx hr
      simp at hx; subst hx
      exact h2 t rfl hr
    · simp at h
      obtain ⟨rfl, rfl⟩ := h
      exact ⟨h1, h2⟩

/-! ### `p_error` -/

/-- the state invariant used for the error analysis -/
structure SrcOK (text : List Char) (st : LexState) : Prop where
  reach : Reachable text st
  wf : WF st
  link : LinkS st

/-- the token handed to `p_error` (the look-ahead): good, and if real then `cur_token` is set -/
def TokOKFor (text : List Char) (st : LexState) (tok : Option Token) : Prop :=
  ∀ t, tok = some t → Good text st.newlineIdx t ∧ (t.auto = false → st.curToken.isSome = true)

theorem raiseSyntaxError_syntax (st : LexState) (tok : Option Token) (hwf : WF st) :
    ∃ e, Parser.raiseSyntaxError st tok = .lex e ∧ IsSyntax e := by
  unfold Parser.raiseSyntaxError
  split
  · rename_i e he
    exact ⟨e, rfl, token_error_syntax st hwf e he⟩
  · exact ⟨_, rfl, Or.inl ⟨_, rfl⟩⟩

/-- under `p_error`'s guard the current token is a real DIV token ending at `lexpos` -/
theorem guard_cur {text : List Char} {st : LexState} (h : SrcOK text st) (tok : Option Token)
    (htok : TokOKFor text st tok) (cur : Token) (hcur : (st.curToken <|> tok) = some cur)
    (hty : LexData.backtrackCur.contains cur.type = true) :
    st.curToken = some cur ∧ st.lexpos = cur.lexpos + cur.value.length ∧ RuleInfo text cur ∧ cur.type = "DIV" := by
  have hdiv : cur.type = "DIV" := by
    rw [backtrack_cur_is_div.1] at hty
    simpa using hty
  cases hct : st.curToken with
  | some c =>
    rw [hct] at hcur
    simp at hcur
    subst hcur
    have hc := h.reach.cur
    unfold CurOK at hc
    rw [hct] at hc
    exact ⟨rfl, hc.1, hc.2.2, hdiv⟩
  | none =>
    exfalso
    rw [hct] at hcur
    simp at hcur
    obtain ⟨hg, hl⟩ := htok cur hcur
    cases ha : cur.auto with
    | false =>
      have := hl ha
      rw [hct] at this
      simp at this
    | true =>
      have := (hg.2 ha).1
      rw [hdiv] at this
      simp at this

/-- T: every exception of `p_error` is an ECMASyntaxError / ECMARegexSyntaxError -/
theorem pError_error_syntax {text : List Char} {st : LexState} (h : SrcOK text st) (tok : Option Token)
    (htok : TokOKFor text st tok) (pe : Parser.PErr) (he : Parser.pError st tok = .error pe) :
    ∃ e, pe = .lex e ∧ IsSyntax e := by
  obtain ⟨_, _, _, ha4⟩ := autoSemi_drive tok h.reach (fun t ht => (htok t ht).1)
  unfold Parser.pError at he
  split at he
  · simp at he
  · rename_i st1 hauto
    have e1 : (autoSemi st tok).1 = none := by rw [hauto]
    have e2 : (autoSemi st tok).2 = st1 := by rw [hauto]
    have hst : st1 = st := by rw [← e2]; exact ha4 e1
    subst hst
    -- `auto_semi(None)` always inserts: the token is not None here
    have htk : ∃ t, tok = some t := by
      cases tok with
      | none => simp [autoSemi] at e1
      | some t => exact ⟨t, rfl⟩
    obtain ⟨t0, rfl⟩ := htk
    split at he
    · rename_i hnone
      cases hc : st1.curToken <;> simp [hc] at hnone
    · rename_i cur hcur
      have tail : LexData.backtrackCur.contains cur.type = true →
          (match backtrackedToken st1 1 with
            | Except.error e => Except.error (Parser.PErr.lex e)
            | Except.ok (none, _) => Except.error (Parser.PErr.lex (Err.internal "AttributeError"))
            | Except.ok (some rt, st2) =>
              if rt.type = "REGEX" then Except.ok (some rt, st2)
              else Except.error (Parser.raiseSyntaxError st2 (some t0))) = Except.error pe →
          ∃ e, pe = .lex e ∧ IsSyntax e := by
        intro hty hb
        obtain ⟨hcs, hlex, hri, hdiv⟩ := guard_cur h (some t0) htok cur hcur hty
        obtain ⟨hat, hlen⟩ := atDiv_of_token hri hdiv
        have hpos : ¬ st1.lexpos < 1 := by omega
        -- the rewound state
        have hwf_r : WF { st1 with lexpos := st1.lexpos - 1, nextTokens := [] } := h.wf
        have hat_r : AtDiv ({ st1 with lexpos := st1.lexpos - 1, nextTokens := [] } : LexState).text
            ({ st1 with lexpos := st1.lexpos - 1, nextTokens := [] } : LexState).lexpos := by
          show AtDiv st1.text (st1.lexpos - 1)
          rw [h.reach.pinv.textEq]
          have : st1.lexpos - 1 = cur.lexpos := by omega
          rw [this]; exact hat
        have hbt : backtrackedToken st1 1 =
            (match token { st1 with lexpos := st1.lexpos - 1, nextTokens := [] } with
             | .error e => .error e
             | .ok (tok, st2) => .ok (tok, { st2 with validPrevToken := st1.validPrevToken })) := by
          unfold backtrackedToken
          rw [if_neg hpos]
          rfl
        rw [hbt] at hb
        cases htk : token { st1 with lexpos := st1.lexpos - 1, nextTokens := [] } with
        | error e =>
          rw [htk] at hb
          simp only [Except.error.injEq] at hb
          exact ⟨e, hb.symm, token_error_syntax _ hwf_r e htk⟩
        | ok res =>
          obtain ⟨r2, st2⟩ := res
          rw [htk] at hb
          simp only at hb
          have hne := token_atDiv hat_r rfl htk
          have hwf2 : WF st2 := (token_ni _ hwf_r).2 _ _ htk
          cases r2 with
          | none => exact absurd rfl hne
          | some rt =>
            simp only at hb
            split at hb
            · simp at hb
            · simp only [Except.error.injEq] at hb
              rw [← hb]
              exact raiseSyntaxError_syntax _ _ ⟨hwf2.1, hwf2.2⟩
      simp only at he
      split at he
      · split at he
        · rename_i hbt
          simp only [Bool.and_eq_true] at hbt
          exact tail hbt.1 he
        · simp only [Except.error.injEq] at he
          rw [← he]; exact raiseSyntaxError_syntax _ _ h.wf
      · split at he
        · rename_i hbt
          simp at hbt
        · simp only [Except.error.injEq] at he
          rw [← he]; exact raiseSyntaxError_syntax _ _ h.wf

/-- `p_error` returning a replacement look-ahead keeps the invariant -/
theorem pError_ok_inv {text : List Char} {st : LexState} (h : SrcOK text st) (tok : Option Token)
    (htok : TokOKFor text st tok) {r : Option Token} {st' : LexState}
    (he : Parser.pError st tok = .ok (r, st')) :
    SrcOK text st' ∧ TokOKFor text st' r := by
  obtain ⟨hr', _, hgood⟩ := pError_drive h.reach tok (fun t ht => (htok t ht).1) he
  have key : WF st' ∧ LinkS st' ∧ ∀ t, r = some t → t.auto = false → st'.curToken.isSome = true := by
    unfold Parser.pError at he
    split at he
    · rename_i semi st1 hauto
      simp only [Except.ok.injEq, Prod.mk.injEq] at he
      obtain ⟨rfl, rfl⟩ := he
      have e1 : (autoSemi st tok).1 = some semi := by rw [hauto]
      have e2 : (autoSemi st tok).2 = st1 := by rw [hauto]
      refine ⟨e2 ▸ autoSemi_wf st tok h.wf, ?_, ?_⟩
      · -- the pushed-back token is the look-ahead
        cases tok with
        | none =>
          simp [autoSemi, createSemiToken] at e2
          rw [← e2]; exact h.link
        | some t =>
          by_cases hc : (t.type ≠ "SEMI" ∧ t.type ≠ "AUTOSEMI") ∧ (t.type = "RBRACE" ∨ isPrevTokenLt st = true)
          · have : (autoSemi st (some t)).2 =
                (createSemiToken { st with nextTokens := t :: st.nextTokens } (some t)).2 := by
              unfold autoSemi; simp only; rw [if_pos hc]
            rw [this] at e2
            rw [← e2]
            intro x hx hreal
            have hx' : x ∈ t :: st.nextTokens := hx
            simp only [List.mem_cons] at hx'
            show st.curToken.isSome = true
            rcases hx' with rfl | hx'
            · exact (htok _ rfl).2 hreal
            · exact h.link x hx' hreal
          · have : autoSemi st (some t) = (none, st) := by
              unfold autoSemi; simp only; rw [if_neg hc]
            rw [this] at e1; simp at e1
      · intro t ht hreal
        simp at ht; subst ht
        exfalso
        have hsemi : semi.auto = true := by
          cases tok with
          | none => simp [autoSemi, createSemiToken] at e1; rw [← e1]
          | some t =>
            by_cases hc : (t.type ≠ "SEMI" ∧ t.type ≠ "AUTOSEMI") ∧ (t.type = "RBRACE" ∨ isPrevTokenLt st = true)
            · have : (autoSemi st (some t)).1 =
                  some (createSemiToken { st with nextTokens := t :: st.nextTokens } (some t)).1 := by
                unfold autoSemi; simp only; rw [if_pos hc]
              rw [this] at e1; simp at e1; rw [← e1]; rfl
            · have : autoSemi st (some t) = (none, st) := by
                unfold autoSemi; simp only; rw [if_neg hc]
              rw [this] at e1; simp at e1
        rw [hsemi] at hreal; simp at hreal
    · rename_i st1 hauto
      have hst : st1 = st := by
        have e1 : (autoSemi st tok).1 = none := by rw [hauto]
        have e2 : (autoSemi st tok).2 = st1 := by rw [hauto]
        rw [← e2]
        exact (autoSemi_drive tok h.reach (fun t ht => (htok t ht).1)).2.2.2 e1
      subst hst
      split at he
      · simp at he
      · simp only at he
        have tail : ∀ (x : LexState → Except Parser.PErr (Option Token × LexState)),
            (match backtrackedToken st1 1 with
              | Except.error e => Except.error (Parser.PErr.lex e)
              | Except.ok (none, _) => Except.error (Parser.PErr.lex (Err.internal "AttributeError"))
              | Except.ok (some rt, st2) =>
                if rt.type = "REGEX" then Except.ok (some rt, st2) else x st2) = Except.ok (r, st') →
            (∀ s y, x s ≠ .ok y) →
            WF st' ∧ LinkS st' ∧ ∀ t, r = some t → t.auto = false → st'.curToken.isSome = true := by
          intro x hb hx
          split at hb
          · simp at hb
          · simp at hb
          · rename_i rt st2 hbk
            split at hb
            · simp only [Except.ok.injEq, Prod.mk.injEq] at hb
              obtain ⟨rfl, rfl⟩ := hb
              refine ⟨(backtrackedToken_ni st1 1 h.wf).2 _ _ hbk, ?_⟩
              unfold backtrackedToken at hbk
              split at hbk
              · simp at hbk
              · simp only at hbk
                split at hbk
                · simp at hbk
                · rename_i r2 st2' htk
                  simp only [Except.ok.injEq, Prod.mk.injEq] at hbk
                  obtain ⟨rfl, rfl⟩ := hbk
                  have hl0 : LinkS { st1 with lexpos := st1.lexpos - 1, nextTokens := [] } := by
                    intro x hx; simp at hx
                  obtain ⟨l1, l2⟩ := token_link hl0 htk
                  exact ⟨l1, l2⟩
            · exact absurd hb (hx _ _)
        split at he
        · split at he
          · exact tail (fun s2 => .error (Parser.raiseSyntaxError s2 tok)) he (by intro s y; simp)
          · simp at he
        · split at he
          · exact tail (fun s2 => .error (Parser.raiseSyntaxError s2 tok)) he (by intro s y; simp)
          · simp at he
  refine ⟨⟨hr', key.1, key.2.1⟩, ?_⟩
  intro t ht
  exact ⟨hgood t ht, key.2.2 t ht⟩

/-! ### the configurations of a parse -/

variable {ν : Type} {T : Tables} {S : Sem Token ν LexState Parser.PErr}

def CfgOK (text : List Char) (c : Config Token ν LexState) : Prop :=
  GoodCfg text c ∧ WF c.src ∧ LinkS c.src ∧
  ∀ t, c.look = some (some t) → t.auto = false → c.src.curToken.isSome = true

theorem CfgOK.srcOK {text : List Char} {c : Config Token ν LexState} (h : CfgOK text c) : SrcOK text c.src :=
  ⟨h.1.1, h.2.1, h.2.2.1⟩

theorem CfgOK.tokOK {text : List Char} {c : Config Token ν LexState} (h : CfgOK text c) :
    TokOKFor text c.src (lookTok c) := by
  intro t ht
  unfold lookTok at ht
  split at ht
  · rename_i t0 hl
    simp at ht; subst ht
    exact ⟨h.1.2.2 _ hl, h.2.2.2 _ hl⟩
  · simp at ht

theorem init_cfgOK (text : List Char) (wc : Bool) : CfgOK (ν := ν) text (initConfig (init text wc false)) :=
  ⟨init_good text wc, by simp [WF, init, initConfig], by intro x hx; simp [init, initConfig] at hx,
   by intro t ht; simp [initConfig] at ht⟩

theorem fetch_cfgOK {text : List Char} {c c1 : Config Token ν LexState} {state : Nat} {a : Option Act}
    (h : CfgOK text c) (hf : fetch T S Parser.source c state = .ok (a, c1)) : CfgOK text c1 := by
  have hg1 := (fetch_good h.1 hf).1
  refine ⟨hg1, ?_⟩
  unfold fetch at hf
  split at hf
  · simp only [Except.ok.injEq, Prod.mk.injEq] at hf
    rw [← hf.2]; exact h.2
  · split at hf
    · simp only [Except.ok.injEq, Prod.mk.injEq] at hf
      rw [← hf.2]; exact h.2
    · split at hf
      · simp at hf
      · rename_i t s' hn
        simp only [Except.ok.injEq, Prod.mk.injEq] at hf
        rw [← hf.2]
        simp only [Parser.source] at hn
        split at hn
        · rename_i res ht
          simp only [Except.ok.injEq] at hn
          subst hn
          obtain ⟨l1, l2⟩ := token_link h.2.2.1 ht
          refine ⟨(token_ni _ h.2.1).2 _ _ ht, l1, ?_⟩
          intro x hx
          simp only [Option.some.injEq] at hx
          exact l2 x hx
        · simp at hn

theorem step_cfgOK {text : List Char} {c c' : Config Token ν LexState} (h : CfgOK text c)
    (hs : step T S Parser.source c = .inl c') : CfgOK text c' := by
  have hg' := (step_good h.1 hs).1
  refine ⟨hg', ?_⟩
  unfold step at hs
  split at hs
  · simp at hs
  · split at hs
    · simp at hs
    · rename_i s c1 hf
      have h1 := fetch_cfgOK h hf
      unfold doShift at hs
      split at hs
      · simp only [Sum.inl.injEq] at hs
        rw [← hs]
        exact ⟨h1.2.1, h1.2.2.1, by simp⟩
      · simp at hs
    · rename_i p c1 hf
      have h1 := fetch_cfgOK h hf
      unfold doReduce at hs
      split at hs
      · simp at hs
      · split at hs
        · split at hs
          · simp at hs
          · split at hs
            · simp at hs
            · split at hs
              · simp only [Sum.inl.injEq] at hs
                rw [← hs]
                exact h1.2
              · simp at hs
        · simp at hs
    · split at hs <;> simp at hs
    · rename_i c1 hf
      have h1 := fetch_cfgOK h hf
      unfold doError at hs
      split at hs
      · simp at hs
      · simp at hs
      · rename_i t s' he
        simp only [Sum.inl.injEq] at hs
        rw [← hs]
        have he' : Parser.pError c1.src (lookTok c1) = .ok (some t, s') := he
        obtain ⟨k1, k2⟩ := pError_ok_inv h1.srcOK (lookTok c1) h1.tokOK he'
        refine ⟨k1.wf, k1.link, ?_⟩
        intro x hx
        simp only [Option.some.injEq] at hx
        subst hx
        exact (k2 _ rfl).2

theorem reach_cfgOK {text : List Char} {c0 c : Config Token ν LexState} (h0 : CfgOK text c0)
    (hr : Reach T S Parser.source c0 c) : CfgOK text c := by
  induction hr with
  | refl => exact h0
  | step _ hs ih => exact step_cfgOK ih hs

/-- a step of the composed parser that ends the run in a lexer-side error ends it in a syntax error -/
theorem step_lex_error_syntax {text : List Char} {T : Tables} {c : Config Token Actions.PVal LexState}
    (h : CfgOK text c) (e : Err) (hs : step T (Parser.sem T) Parser.source c = .inr (.error (.lex e))) :
    IsSyntax e := by
  unfold step at hs
  split at hs
  · simp at hs
  · split at hs
    · -- `fetch` raised: `token()`
      rename_i state _ _ pe hf
      simp only [Sum.inr.injEq, Outcome.error.injEq] at hs
      subst hs
      unfold fetch at hf
      split at hf
      · simp at hf
      · split at hf
        · simp at hf
        · split at hf
          · rename_i pe' hn
            simp only [Except.error.injEq] at hf
            subst hf
            simp only [Parser.source] at hn
            split at hn
            · simp at hn
            · rename_i e' ht
              simp only [Except.error.injEq, Parser.PErr.lex.injEq] at hn
              subst hn
              exact token_error_syntax _ h.2.1 _ ht
          · simp at hf
    · rename_i s c1 hf
      unfold doShift at hs
      split at hs <;> simp at hs
    · rename_i p c1 hf
      unfold doReduce at hs
      split at hs
      · simp at hs
      · split at hs
        · split at hs
          · rename_i pe hred
            simp only [Sum.inr.injEq, Outcome.error.injEq] at hs
            subst hs
            simp only [Parser.sem] at hred
            split at hred <;> simp at hred
          · split at hs
            · simp at hs
            · split at hs <;> simp at hs
        · simp at hs
    · split at hs <;> simp at hs
    · rename_i c1 hf
      have h1 := fetch_cfgOK h hf
      unfold doError at hs
      split at hs
      · rename_i pe he
        simp only [Sum.inr.injEq, Outcome.error.injEq] at hs
        subst hs
        have he' : Parser.pError c1.src (lookTok c1) = .error (.lex e) := he
        obtain ⟨e', h1', h2'⟩ := pError_error_syntax h1.srcOK (lookTok c1) h1.tokOK _ he'
        simp only [Parser.PErr.lex.injEq] at h1'
        rw [h1']; exact h2'
      · simp at hs
      · simp at hs

end CalmVerif.Proofs.ParserNoInternal
