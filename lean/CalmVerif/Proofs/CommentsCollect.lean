/-
C13, faithfulness on final trees: collecting the `@comments` attributes of a tree, and which right-hand-side slots a
semantic-action descriptor takes values / comments from.  Definitions and table checks only (no Mathlib).
-/
import CalmVerif.Model.Actions
import CalmVerif.Proofs.CommentsTable

namespace CalmVerif.Proofs.Comments
open CalmVerif CalmVerif.Model.Actions CalmVerif.Model.ActionDesc

mutual
  /-- the values of all `@comments` attributes (`Node.comments`, the Comments nodes) of the nodes of a tree, in document
      order.  The tree structure is what the non-meta attributes span: other `@…` attributes (`@pos`, `@tokmap`) are
      positional metadata and are not searched; a Comments node is not searched either. -/
  def cms : Val → List Val
    | .list xs => cmsL xs
    | .node _ as => cmsA as
    | _ => []
  def cmsL : List Val → List Val
    | [] => []
    | v :: vs => cms v ++ cmsL vs
  def cmsA : List (String × Val) → List Val
    | [] => []
    | (a, v) :: rest => (if a == "@comments" then [v] else if Val.isMeta a then [] else cms v) ++ cmsA rest
end

/-- a reference of a descriptor to a slot: `(false, j)` the value of slot `j` is used, `(true, j)` a node is anchored
    (`setpos`) at slot `j` and takes the comments of its token -/
abbrev Ref := Bool × Nat

/-- the anchor reference of a node descriptor -/
def anchorRefs (pos : PosD) : List Ref :=
  match setposIdx pos with
  | some idx => [(true, idx)]
  | none => []

mutual
  def refsD : D → List Ref
    | .slot j => [(false, j)]
    | .attrOf j _ => [(false, j)]
    | .list items => refsItems items
    | .node _ attrs pos _ _ _ =>
      refsAttrs attrs ++ anchorRefs pos
    | _ => []
  def refsAttrs : List (String × D) → List Ref
    | [] => []
    | (_, d) :: rest => refsD d ++ refsAttrs rest
  def refsItems : List Item → List Ref
    | [] => []
    | .item d :: rest => refsD d ++ refsItems rest
    | .spread j :: rest => (false, j) :: refsItems rest
    | .spreadMod j _ _ :: rest => (false, j) :: refsItems rest
end

def nodupRef : List Ref → Bool
  | [] => true
  | x :: xs => !xs.contains x && nodupRef xs

/-- in every production, for every value shape, every slot value is used at most once and at most one node is anchored
    at a slot: no argument tree is duplicated in the result, no token's comments are taken twice -/
def refsOnce (tbl : List Entry) : Bool := tbl.all fun e => (rowsOf e).all fun d => nodupRef (refsD d)

mutual
  /-- attribute names read from an argument (`attrOf`) are plain (not `@…` metadata) -/
  def plainReadD : D → Bool
    | .attrOf _ name => !Val.isMeta name
    | .list items => plainReadItems items
    | .node _ attrs _ _ _ _ => plainReadAttrs attrs
    | _ => true
  def plainReadAttrs : List (String × D) → Bool
    | [] => true
    | (_, d) :: rest => plainReadD d && plainReadAttrs rest
  def plainReadItems : List Item → Bool
    | [] => true
    | .item d :: rest => plainReadD d && plainReadItems rest
    | _ :: rest => plainReadItems rest
end

def plainRead (tbl : List Entry) : Bool := tbl.all fun e => (rowsOf e).all plainReadD

end CalmVerif.Proofs.Comments
