/-
C09 helper lemmas, part 2: the `write` loop.  Invariant: decoding what has been emitted so
far (Spec decoder) yields running totals equal to the bookkeeper's `_curr` values.
-/
import CalmVerif.Proofs.SourceMapText

namespace CalmVerif.Proofs.SourceMap
open CalmVerif.Model.SourceMap
open CalmVerif.Spec.SourceMapV3

/-! ### decoder: snoc lemmas -/

theorem decodeLine_append (t : Totals) (g : Int) (xs ys : List (List Int)) :
    decodeLine t g (xs ++ ys) =
      match decodeLine t g xs with
      | none => none
      | some (t1, g1, es) =>
        match decodeLine t1 g1 ys with
        | none => none
        | some (t2, g2, es') => some (t2, g2, es ++ es') := by
  induction xs generalizing t g with
  | nil => simp only [List.nil_append, decodeLine]; cases decodeLine t g ys <;> simp
  | cons x xs ih =>
    simp only [List.cons_append, decodeLine]
    cases h : decodeSeg t g x with
    | none => simp
    | some r =>
      obtain ⟨t1, g1, e⟩ := r
      simp only [ih]
      cases decodeLine t1 g1 xs with
      | none => simp
      | some r2 =>
        obtain ⟨t2, g2, es⟩ := r2
        simp only
        cases decodeLine t2 g2 ys with
        | none => simp
        | some r3 => simp

theorem decodeLine_snoc (t : Totals) (g : Int) (xs : List (List Int)) (s : List Int)
    {t1 g1 es t2 g2 e} (h1 : decodeLine t g xs = some (t1, g1, es))
    (h2 : decodeSeg t1 g1 s = some (t2, g2, e)) :
    decodeLine t g (xs ++ [s]) = some (t2, g2, es ++ [e]) := by
  rw [decodeLine_append, h1]; simp [decodeLine, h2]

theorem decodeLines_snoc (t : Totals) (ls : List (List (List Int))) (l : List (List Int))
    {t1 D t2 g2 es} (h1 : decodeLines t ls = some (t1, D))
    (h2 : decodeLine t1 0 l = some (t2, g2, es)) :
    decodeLines t (ls ++ [l]) = some (t2, D ++ [es]) := by
  induction ls generalizing t D with
  | nil =>
    simp only [decodeLines, Option.some.injEq, Prod.mk.injEq] at h1
    obtain ⟨rfl, rfl⟩ := h1
    simp [decodeLines, h2]
  | cons x xs ih =>
    simp only [List.cons_append, decodeLines] at h1 ⊢
    cases hx : decodeLine t 0 x with
    | none => simp [hx] at h1
    | some r =>
      obtain ⟨ta, ga, ea⟩ := r
      simp only [hx] at h1 ⊢
      cases hxs : decodeLines ta xs with
      | none => simp [hxs] at h1
      | some r2 =>
        obtain ⟨tb, Db⟩ := r2
        simp only [hxs, Option.some.injEq, Prod.mk.injEq] at h1
        obtain ⟨rfl, rfl⟩ := h1
        simp [ih ta hxs]

/-! ### one emitted segment -/

/-- the decoder's running totals that correspond to a writer state -/
def totalsOf (st : WState) : Totals :=
  ⟨st.sources.current, st.book.sline.curr - 1, st.book.scol.curr - 1, st.names.current⟩

/-- the absolute entry that `emitSeg` adds, read off the state after it -/
def entryOf (st st1 : WState) (lineno colno : Option Nat) (name : Option (List Char)) : Entry :=
  match lineno, colno with
  | some _, some _ =>
    ⟨st.book.sink.curr, some ((totalsOf st1).src, (totalsOf st1).line, (totalsOf st1).col),
      name.map (fun _ => (totalsOf st1).name)⟩
  | _, _ => ⟨st.book.sink.curr, none, none⟩

theorem emitSeg_decode (st : WState) (ln cn : Option Nat) (name : Option (List Char)) (source : Option Src) :
    ∃ seg, (emitSeg st ln cn name source).cur = st.cur ++ [seg] ∧
      decodeSeg (totalsOf st) st.book.sink.prev seg =
        some (totalsOf (emitSeg st ln cn name source), st.book.sink.curr,
              entryOf st (emitSeg st ln cn name source) ln cn name) := by
  unfold emitSeg
  cases ln with
  | none => exact ⟨_, rfl, by simp [decodeSeg, entryOf, totalsOf, Cell.rel]; omega⟩
  | some l =>
    cases cn with
    | none => exact ⟨_, rfl, by simp [decodeSeg, entryOf, totalsOf, Cell.rel]; omega⟩
    | some c =>
      cases name with
      | none =>
        refine ⟨_, rfl, ?_⟩
        cases source <;>
          simp only [Names.update, Names.add, decodeSeg, entryOf, totalsOf, Cell.rel, Cell.set, Cell.abs,
            Option.map_none] <;>
          (by_cases hl : l = 0 <;> by_cases hc : c = 0 <;>
            simp [hl, hc] <;> (try constructor) <;> omega)
      | some nm =>
        refine ⟨_, rfl, ?_⟩
        cases source <;>
          simp only [Names.update, Names.add, decodeSeg, entryOf, totalsOf, Cell.rel, Cell.set, Cell.abs,
            Option.map_some] <;>
          (by_cases hl : l = 0 <;> by_cases hc : c = 0 <;>
            simp [hl, hc] <;> (try constructor) <;> omega)


/-! ### `Names` -/

theorem Names.add_keys_prefix {α : Type} [DecidableEq α] (n : Names α) (a : α) :
    n.keys <+: (n.add a).1.keys := by
  simp only [Names.add]
  split
  · exact List.prefix_refl _
  · exact List.prefix_append _ _

theorem Names.add_mem {α : Type} [DecidableEq α] (n : Names α) (a : α) :
    a ∈ (n.add a).1.keys := by
  simp only [Names.add]
  split
  · assumption
  · simp

theorem Names.add_current_lt {α : Type} [DecidableEq α] (n : Names α) (a : α) :
    (n.add a).1.current < (n.add a).1.keys.length := by
  have h := Names.add_mem n a
  simp only [Names.add] at h ⊢
  exact List.idxOf_lt_length_of_mem h

theorem Names.add_getElem {α : Type} [DecidableEq α] (n : Names α) (a : α) :
    (n.add a).1.keys[(n.add a).1.current]? = some a := by
  have h := Names.add_mem n a
  simp only [Names.add] at h ⊢
  rw [List.getElem?_eq_getElem (List.idxOf_lt_length_of_mem h)]
  simp

/-! ### frame facts of `emitSeg` -/

theorem emitSeg_done (st : WState) (ln cn name source) : (emitSeg st ln cn name source).done = st.done := by
  unfold emitSeg; split <;> rfl

theorem emitSeg_sink (st : WState) (ln cn name source) :
    (emitSeg st ln cn name source).book.sink = st.book.sink := by
  unfold emitSeg; split <;> rfl

theorem emitSeg_sources (st : WState) (ln cn name source) :
    (emitSeg st ln cn name source).sources =
      match ln, cn with
      | some _, some _ => (st.sources.update source).1
      | _, _ => st.sources := by
  unfold emitSeg; split <;> simp

theorem emitSeg_names (st : WState) (ln cn name source) :
    (emitSeg st ln cn name source).names =
      match ln, cn with
      | some _, some _ => (st.names.update name).1
      | _, _ => st.names := by
  unfold emitSeg; split <;> simp

theorem update_keys_prefix {α : Type} [DecidableEq α] (n : Names α) (a : Option α) :
    n.keys <+: (n.update a).1.keys := by
  cases a with
  | none => exact List.prefix_refl _
  | some a => exact Names.add_keys_prefix n a

theorem emitSeg_sources_prefix (st : WState) (ln cn name source) :
    st.sources.keys <+: (emitSeg st ln cn name source).sources.keys := by
  rw [emitSeg_sources]; split
  · exact update_keys_prefix _ _
  · exact List.prefix_refl _

theorem emitSeg_names_prefix (st : WState) (ln cn name source) :
    st.names.keys <+: (emitSeg st ln cn name source).names.keys := by
  rw [emitSeg_names]; split
  · exact update_keys_prefix _ _
  · exact List.prefix_refl _

/-- `_current` of a `Names` is a valid index, or `0` while the table is still empty -/
def CurOK {α : Type} (n : Names α) : Prop := n.current < n.keys.length ∨ n.current = 0

theorem update_curOK {α : Type} [DecidableEq α] (n : Names α) (a : Option α) (h : CurOK n) :
    CurOK (n.update a).1 := by
  cases a with
  | none => exact h
  | some a => exact Or.inl (Names.add_current_lt n a)

theorem curOK_of_prefix {α : Type} (n : Names α) (k : List α) (h : CurOK n) (hp : n.keys <+: k) :
    n.current < k.length ∨ n.current = 0 := by
  rcases h with h | h
  · exact Or.inl (Nat.lt_of_lt_of_le h hp.length_le)
  · exact Or.inr h

theorem emitSeg_sources_curOK (st : WState) (ln cn name source) (h : CurOK st.sources) :
    CurOK (emitSeg st ln cn name source).sources := by
  rw [emitSeg_sources]; split
  · exact update_curOK _ _ h
  · exact h

theorem emitSeg_sline (st : WState) (ln cn name source) (h : 1 ≤ st.book.sline.curr) :
    1 ≤ (emitSeg st ln cn name source).book.sline.curr := by
  unfold emitSeg; split
  · rename_i l c
    by_cases hl : l = 0 <;> simp [hl, Cell.set, h]; omega
  · exact h

theorem emitSeg_scol (st : WState) (ln cn name source) (h : 1 ≤ st.book.scol.curr) :
    1 ≤ (emitSeg st ln cn name source).book.scol.curr := by
  unfold emitSeg; split
  · rename_i l c
    by_cases hc : c = 0 <;> simp [hc, Cell.set, Cell.abs] <;> omega
  · exact h

end CalmVerif.Proofs.SourceMap
