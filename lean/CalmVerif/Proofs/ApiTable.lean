import CalmVerif.Model.Api
/-
Kernel computations over the regenerated table `Gen.Api` (helper lemmas for Props/C14; kept in a file
of their own so that the evaluation cost is not paid by the file with the readable statements).
-/
namespace CalmVerif.Proofs.Api
open CalmVerif.Gen.Api

theorem printerObjs_fresh_b : (printerObjs.all fun r => !(r.stateful && r.shared)) = true := by
  decide +kernel

theorem printerObjs_observed_b :
    (printerObjs.any fun r => r.role == "layout:Indent.self" && r.config == "pretty_printer()" &&
        r.cls == "Indentator" && r.stateful && !r.shared) = true ∧
    (printerObjs.any fun r => r.role == "prewalk[0].self" &&
        r.config == "minify_printer(obfuscate=1,obfuscate_globals=0,shadow_funcname=0,drop_semi=0)" &&
        r.cls == "Obfuscator" && r.stateful && !r.shared) = true ∧
    -- for EVERY configuration, in table order: the five per-call objects every call has, stateful and fresh
    ((printerObjs.filter fun r =>
        ["call.dispatcher", "setup.layout_handlers", "setup.deferrable_handlers", "call.walk.nodes",
         "call.walk.sourcepath_stack"].contains r.role && r.stateful && !r.shared).map (·.config))
      = printerConfigs.flatMap (fun c => List.replicate 5 c) := by
  decide +kernel

theorem printerPersist_readonly_b : (printerPersist.all fun r => !r.mutated) = true := by
  decide +kernel

theorem printerPersist_observed_b :
    ((printerPersist.filter fun r =>
        ["printer.__dict__", "printer.rules[0]", "module:unparsers.es5.definitions",
         "module:ruletypes.ElisionJoinAttr.sep", "module:handlers.core", "tree[0]"].contains r.name).map (·.config))
      = printerConfigs.flatMap (fun c => List.replicate 6 c) := by
  decide +kernel

end CalmVerif.Proofs.Api
