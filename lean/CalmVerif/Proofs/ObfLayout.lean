/-
The layout pass (`flushAll`: `process_layouts` with the layout handlers) looks at the token texts only
through a handful of observations (`Edge`): emptiness, the `required_space` verdict of the last / first
character against any neighbour, whether the last / first `len(newline_str)` characters are a newline, and
membership in `optional_rhs_space_tokens` / `assignment_tokens`.  Two chunk streams that agree up to
`Edge`-equivalent token texts (`ChunkSim`) are therefore turned into fragment streams that agree up to the
same pairs, with identical layout fragments and identical Indentator level (`flushAll_sim`).
-/
import CalmVerif.Model.Unparse
namespace CalmVerif.Unparse
open CalmVerif

/-- the two texts are indistinguishable for every layout handler -/
structure Edge (hd : HData) (t t' : String) : Prop where
  truthy : (t != "") = (t' != "")
  rsB : ∀ x, requiredSpaceStr hd t x = requiredSpaceStr hd t' x
  rsA : ∀ x, requiredSpaceStr hd x t = requiredSpaceStr hd x t'
  crlf : inCRLF (lcN hd (some t)) = inCRLF (lcN hd (some t'))
  nlB : [['\r'], ['\n'], hd.newline.toList].contains (lcN hd (some t))
      = [['\r'], ['\n'], hd.newline.toList].contains (lcN hd (some t'))
  nlA : [['\r'], ['\n'], hd.newline.toList].contains (fcN hd (some t))
      = [['\r'], ['\n'], hd.newline.toList].contains (fcN hd (some t'))
  optRhs : hd.optionalRhsSpaceTokens.contains (some t) = hd.optionalRhsSpaceTokens.contains (some t')
  assign : hd.assignmentTokens.contains t = hd.assignmentTokens.contains t'

theorem Edge.refl (hd : HData) (t : String) : Edge hd t t :=
  ⟨rfl, fun _ => rfl, fun _ => rfl, rfl, rfl, rfl, rfl, rfl⟩

inductive OEdge (hd : HData) : Option String → Option String → Prop where
  | none : OEdge hd none none
  | some (t t' : String) : Edge hd t t' → OEdge hd (some t) (some t')

theorem OEdge.refl (hd : HData) : ∀ o, OEdge hd o o
  | .none => .none
  | .some t => .some t t (Edge.refl hd t)

theorem oedge_truthy {hd : HData} {o o' : Option String} (h : OEdge hd o o') : strTruthy o = strTruthy o' := by
  cases h with
  | none => rfl
  | some t t' e => exact e.truthy

theorem oedge_crlf {hd : HData} {o o' : Option String} (h : OEdge hd o o') :
    inCRLF (lcN hd o) = inCRLF (lcN hd o') := by
  cases h with
  | none => rfl
  | some t t' e => exact e.crlf

theorem oedge_nlB {hd : HData} {o o' : Option String} (h : OEdge hd o o') :
    [['\r'], ['\n'], hd.newline.toList].contains (lcN hd o) = [['\r'], ['\n'], hd.newline.toList].contains (lcN hd o') := by
  cases h with
  | none => rfl
  | some t t' e => exact e.nlB

theorem oedge_nlA {hd : HData} {o o' : Option String} (h : OEdge hd o o') :
    [['\r'], ['\n'], hd.newline.toList].contains (fcN hd o) = [['\r'], ['\n'], hd.newline.toList].contains (fcN hd o') := by
  cases h with
  | none => rfl
  | some t t' e => exact e.nlA

theorem oedge_optRhs {hd : HData} {o o' : Option String} (h : OEdge hd o o') :
    hd.optionalRhsSpaceTokens.contains o = hd.optionalRhsSpaceTokens.contains o' := by
  cases h with
  | none => rfl
  | some t t' e => exact e.optRhs

theorem oedge_anyNewline {hd : HData} {b b' a a' : Option String} (hb : OEdge hd b b') (ha : OEdge hd a a')
    (prev : Option String) : anyNewline hd b a prev = anyNewline hd b' a' prev := by
  simp only [anyNewline, oedge_nlB hb, oedge_nlA ha]

theorem edge_rs {hd : HData} {b b' a a' : String} (hb : Edge hd b b') (ha : Edge hd a a') :
    requiredSpaceStr hd b a = requiredSpaceStr hd b' a' := by
  rw [hb.rsB a, ha.rsA b']

/-- a layout handler cannot tell the two situations apart -/
theorem runHandler_edge (hd : HData) (is : Option String) (h : HandlerId) (node : Val)
    {b b' a a' : Option String} (hb : OEdge hd b b') (ha : OEdge hd a a') (prev : Option String) (lvl : Int) :
    runHandler hd is h node b a prev lvl = runHandler hd is h node b' a' prev lvl := by
  cases h with
  | noop => rfl
  | semicolon => rfl
  | semicolonOptional => simp only [runHandler, oedge_truthy ha]
  | openbrace => rfl
  | closebrace => rfl
  | spaceImply => rfl
  | spaceDrop => rfl
  | newlineSimple => rfl
  | newlineOptionalPretty => simp only [runHandler, oedge_crlf hb, oedge_anyNewline hb ha]
  | spaceOptionalPretty =>
    simp only [runHandler, oedge_optRhs ha]
    cases hb with
    | none => cases ha <;> rfl
    | some tb tb' eb =>
      cases ha with
      | none => rfl
      | some ta ta' ea => simp only [edge_rs eb ea, ea.assign]
  | spaceMinimum =>
    simp only [runHandler]
    cases hb with
    | none => cases ha <;> rfl
    | some tb tb' eb =>
      cases ha with
      | none => rfl
      | some ta ta' ea => simp only [edge_rs eb ea]
  | indIndent => rfl
  | indDedent => rfl
  | indNewline => rfl
  | indNewlineOptional => simp only [runHandler, oedge_truthy hb, oedge_crlf hb, oedge_anyNewline hb ha]

theorem runEntries_edge (hd : HData) (is : Option String) {b b' a a' : Option String}
    (hb : OEdge hd b b') (ha : OEdge hd a a') :
    ∀ (es : List LEntry) (prev : Option String) (lvl : Int),
      runEntries hd is b a es prev lvl = runEntries hd is b' a' es prev lvl
  | [], _, _ => rfl
  | e :: es, prev, lvl => by
    simp only [runEntries, runHandler_edge hd is e.handler e.node hb ha prev lvl]
    rw [runEntries_edge hd is hb ha es]

variable {σ : Type}

theorem processLayouts_edge (cfg : Cfg σ) (buf : List LChunk) {b b' a a' : Option String}
    (hb : OEdge cfg.hd b b') (ha : OEdge cfg.hd a a') (lvl : Int) :
    processLayouts cfg buf b a lvl = processLayouts cfg buf b' a' lvl := by
  simp only [processLayouts, runEntries_edge cfg.hd cfg.indentStr hb ha]

/-- pointwise relation of two lists of the same length -/
inductive All2 {α β : Type} (P : α → β → Prop) : List α → List β → Prop where
  | nil : All2 P [] []
  | cons {a : α} {b : β} {as : List α} {bs : List β} : P a b → All2 P as bs → All2 P (a :: as) (b :: bs)

/-- equal, or a pair whose texts no layout handler can tell apart (with what else relates them in `R`) -/
def FragSim (hd : HData) (R : Frag → Frag → Prop) (fa fb : Frag) : Prop :=
  fa = fb ∨ (Edge hd fa.text fb.text ∧ R fa fb)

def ChunkSim (hd : HData) (R : Frag → Frag → Prop) (c1 c2 : Chunk) : Prop :=
  c1 = c2 ∨ ∃ fa fb, c1 = .frag fa ∧ c2 = .frag fb ∧ Edge hd fa.text fb.text ∧ R fa fb

theorem forall2_fragSim_refl (hd : HData) (R : Frag → Frag → Prop) : ∀ (l : List Frag), All2 (FragSim hd R) l l
  | [] => .nil
  | _ :: l => .cons (Or.inl rfl) (forall2_fragSim_refl hd R l)

theorem forall2_append {α β : Type} {P : α → β → Prop} : ∀ {a : List α} {b : List β} {c : List α} {d : List β},
    All2 P a b → All2 P c d → All2 P (a ++ c) (b ++ d)
  | [], [], _, _, _, h2 => h2
  | _ :: _, _ :: _, _, _, .cons h t, h2 => .cons h (forall2_append t h2)

/-- the layout pass maps `ChunkSim`-related chunk streams to `FragSim`-related fragment streams -/
theorem flushAll_sim (cfg : Cfg σ) (R : Frag → Frag → Prop) :
    ∀ (ca cb : List Chunk), All2 (ChunkSim cfg.hd R) ca cb →
      ∀ (last last' : Option String) (buf : List LChunk) (lvl : Int), OEdge cfg.hd last last' →
        (flushAll cfg ca last buf lvl).2 = (flushAll cfg cb last' buf lvl).2 ∧
        All2 (FragSim cfg.hd R) (flushAll cfg ca last buf lvl).1 (flushAll cfg cb last' buf lvl).1 := by
  intro ca cb h
  induction h with
  | nil =>
    intro last last' buf lvl hl
    simp only [flushAll, processLayouts_edge cfg buf hl .none lvl, true_and]
    exact forall2_fragSim_refl _ _ _
  | @cons c1 c2 as bs hc _ ih =>
    intro last last' buf lvl hl
    rcases hc with rfl | ⟨fa, fb, rfl, rfl, he, hr⟩
    · cases c1 with
      | layout m h n =>
        simp only [flushAll]
        exact ih last last' _ lvl hl
      | frag f =>
        simp only [flushAll]
        rw [processLayouts_edge cfg buf hl (OEdge.refl _ (some f.text)) lvl]
        have := ih (some f.text) (some f.text) [] (processLayouts cfg buf last' (some f.text) lvl).2 (OEdge.refl _ _)
        exact ⟨this.1, forall2_append (forall2_fragSim_refl _ _ _) (.cons (Or.inl rfl) this.2)⟩
    · simp only [flushAll]
      rw [processLayouts_edge cfg buf hl (OEdge.some _ _ he) lvl]
      have := ih (some fa.text) (some fb.text) [] (processLayouts cfg buf last' (some fb.text) lvl).2 (OEdge.some _ _ he)
      exact ⟨this.1, forall2_append (forall2_fragSim_refl _ _ _) (.cons (Or.inr ⟨he, hr⟩) this.2)⟩

end CalmVerif.Unparse
