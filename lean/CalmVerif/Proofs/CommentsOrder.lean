/-
C13, source order of the captured comments, lexer level.  The invariant `Chain L st` of a list of comments `L` (all
comments the parser holds in token order, followed by the pushed-back tokens' and the pending ones) against a lexer
state: pairwise in source order and disjoint, all ending at or before the read position, and — if the current raw
token is a DIV — at or before ITS START, which is what survives the rewind of `backtracked_token`.
-/
import CalmVerif.Proofs.CommentsFaithful
import CalmVerif.Proofs.LexerDrive

namespace CalmVerif.Proofs.Comments
open CalmVerif.Model.TokenRegex CalmVerif.Model.PlyLex CalmVerif.Model.Lexer
open CalmVerif.Proofs.LexerPly CalmVerif.Proofs.LexerStep CalmVerif.Proofs.LexerLoop CalmVerif.Proofs.LexerDrive

/-- offset just after the comment -/
def cend (c : Comment) : Nat := c.lexpos + c.value.length

/-- `a` lies entirely before `b` in the source -/
def Before (a b : Comment) : Prop := cend a ≤ b.lexpos

structure Chain (L : List Comment) (st : LexState) : Prop where
  pw : L.Pairwise Before
  bound : ∀ c ∈ L, cend c ≤ st.lexpos
  div : ∀ cur, st.curToken = some cur → cur.type = "DIV" → ∀ c ∈ L, cend c ≤ cur.lexpos
  ne : ∀ c ∈ L, c.value ≠ []

theorem Chain.nil_init (text : List Char) (wc yc : Bool) : Chain [] (init text wc yc) :=
  ⟨List.Pairwise.nil, fun _ h => by simp at h, fun _ _ _ _ h => by simp at h, fun _ h => by simp at h⟩

/-- the chain only depends on the read position and the current token -/
theorem Chain.congr {L : List Comment} {a b : LexState} (h : Chain L a) (hp : b.lexpos = a.lexpos)
    (hc : b.curToken = a.curToken) : Chain L b :=
  ⟨h.pw, fun c hc' => by rw [hp]; exact h.bound c hc', fun cur h1 h2 => h.div cur (by rw [← hc]; exact h1) h2, h.ne⟩

theorem Chain.sublist {L L' : List Comment} {st : LexState} (h : Chain L st) (hs : List.Sublist L' L) : Chain L' st :=
  ⟨h.pw.sublist hs, fun c hc => h.bound c (hs.subset hc), fun cur h1 h2 c hc => h.div cur h1 h2 c (hs.subset hc),
   fun c hc => h.ne c (hs.subset hc)⟩

theorem lexCall_le {st : LexState} {r : Option Token} {st' : LexState} (h : LexCall st r st') :
    st.lexpos ≤ st'.lexpos := by
  obtain ⟨s, tok, st1, hg, hpe, _, _, _⟩ := h
  rw [hpe.2.1]
  exact getLexerToken_le _ _ _ _ hg

/-- one raw call of the lexer keeps the chain (the list is unchanged; the new current token starts at or after the
    old read position) -/
theorem Chain.call {L : List Comment} {st : LexState} {r : Option Token} {st' : LexState} (h : Chain L st)
    (hc : LexCall st r st') : Chain L st' := by
  have hle := lexCall_le hc
  obtain ⟨s, tok, st1, hg, hpe, hcur, _, _⟩ := hc
  refine ⟨h.pw, fun c hc' => Nat.le_trans (h.bound c hc') hle, ?_, h.ne⟩
  intro cur h1 _ c hc'
  rw [hcur] at h1
  subst h1
  have := (getLexerToken_some _ _ _ _ hg).le
  exact Nat.le_trans (h.bound c hc') this

theorem div_not_comment : isComment "DIV" = false := by decide

/-- capturing the comment token just lexed extends the chain -/
theorem Chain.capture {L : List Comment} {st : LexState} {t0 : Token} {st1 : LexState} (h : Chain L st)
    (hraw : RawStep st (some t0) st1) (hcall : LexCall st (some t0) st1) (hcm : isComment t0.type = true)
    (hid : List Comment) :
    Chain (L ++ [t0.toComment]) { st1 with hiddenTokens := hid } := by
  obtain ⟨_, hle, hpos⟩ := rawStep_comment hraw hcm
  have hne0 : t0.value ≠ [] := by
    obtain ⟨_, s, raw, st0, hr, _, hcase⟩ := hraw
    rcases hcase with rfl | ⟨_, hty, _⟩
    · exact hr.ne
    · rw [hty, autosemi_not_comment] at hcm; cases hcm
  have h1 := h.call hcall
  refine ⟨?_, ?_, ?_, ?_⟩
  · rw [List.pairwise_append]
    refine ⟨h.pw, List.pairwise_singleton _ _, ?_⟩
    intro a ha b hb
    simp only [List.mem_singleton] at hb
    subst hb
    exact Nat.le_trans (h.bound a ha) hle
  · intro c hc
    rw [List.mem_append] at hc
    rcases hc with hc | hc
    · exact h1.bound c hc
    · simp only [List.mem_singleton] at hc
      subst hc
      show t0.lexpos + t0.value.length ≤ st1.lexpos
      omega
  · intro cur hcur hty
    exfalso
    obtain ⟨s, tok, st2, _, _, hc2, _, hret⟩ := hcall
    have hcur' : st1.curToken = some cur := hcur
    rcases hret with h2 | ⟨raw, a, _, h3, _, ha, _⟩
    · rw [hc2, ← h2] at hcur'
      simp only [Option.some.injEq] at hcur'
      subst hcur'
      rw [hty, div_not_comment] at hcm
      cases hcm
    · simp only [Option.some.injEq] at h3
      subst h3
      rw [ha, autosemi_not_comment] at hcm
      cases hcm
  · intro c hc
    rw [List.mem_append] at hc
    rcases hc with hc | hc
    · exact h.ne c hc
    · simp only [List.mem_singleton] at hc
      subst hc
      exact hne0

/-- comments of a chain start at strictly increasing offsets -/
theorem Chain.offsets_increasing {L : List Comment} {st : LexState} (h : Chain L st) :
    (L.map (·.lexpos)).Pairwise (· < ·) := by
  rw [List.pairwise_map]
  have hne := h.ne
  have hpw := h.pw
  clear h
  induction hpw with
  | nil => exact List.Pairwise.nil
  | @cons a l hab _ ih =>
    refine List.Pairwise.cons ?_ (ih (fun c hc => hne c (List.mem_cons_of_mem _ hc)))
    intro b hb
    have h1 : cend a ≤ b.lexpos := hab b hb
    have h2 : 0 < a.value.length := List.length_pos_iff.mpr (hne a (List.mem_cons_self ..))
    unfold cend at h1
    omega

/-- the loop of `_token`: the held comments `H` followed by the pending ones stay a chain -/
theorem tokenLoop_chain (H : List Comment) : ∀ (fuel : Nat) (st : LexState) (r : Option Token) (st' : LexState),
    tokenLoop fuel st = .ok (r, st') → Chain (H ++ st.hiddenTokens) st → Chain (H ++ st'.hiddenTokens) st' := by
  intro fuel
  induction fuel with
  | zero => intro st r st' h; simp [tokenLoop] at h
  | succ fuel ih =>
    intro st r st' h hinv
    unfold tokenLoop at h
    split at h
    · split at h
      · simp at h
      · rename_i st1 hg
        simp at h
        obtain ⟨rfl, rfl⟩ := h
        rw [getUpdateToken_hid _ _ _ hg]
        exact hinv.call (getUpdateToken_call _ _ _ hg)
      · rename_i t0 st1 hg
        have hk : Chain (H ++ st1.hiddenTokens) st1 := by
          rw [getUpdateToken_hid _ _ _ hg]
          exact hinv.call (getUpdateToken_call _ _ _ hg)
        split at h
        · exact ih _ _ _ h hk
        · simp at h
          obtain ⟨rfl, rfl⟩ := h
          exact hk
    · split at h
      · split at h
        · simp at h
        · rename_i st1 hg
          simp at h
          obtain ⟨rfl, rfl⟩ := h
          rw [getUpdateToken_hid _ _ _ hg]
          exact hinv.call (getUpdateToken_call _ _ _ hg)
        · rename_i t0 st1 hg
          have hh := getUpdateToken_hid _ _ _ hg
          have hk : Chain (H ++ st1.hiddenTokens) st1 := by
            rw [hh]
            exact hinv.call (getUpdateToken_call _ _ _ hg)
          split at h
          · split at h
            · rename_i hcm
              split at h
              · simp at h
                obtain ⟨rfl, rfl⟩ := h
                exact hk
              · split at h
                · refine ih _ _ _ h ?_
                  show Chain (H ++ (st1.hiddenTokens ++ [t0.toComment])) _
                  rw [hh, ← List.append_assoc]
                  exact hinv.capture (getUpdateToken_spec _ _ _ hg) (getUpdateToken_call _ _ _ hg) hcm _
                · exact ih _ _ _ h hk
            · exact ih _ _ _ h hk
          · simp at h
            obtain ⟨rfl, rfl⟩ := h
            exact hk
      · rw [divOrRegex_hid _ _ _ h]
        exact hinv.call (divOrRegex_call _ _ _ h)

/-! ### `token()` -/

def hidOf (r : Option Token) : List Comment :=
  match r with
  | some t => t.hidden
  | none => []

/-- the comments of the pushed-back tokens, in the order in which they will be popped -/
def nextHid (st : LexState) : List Comment := st.nextTokens.flatMap (·.hidden)

/-- state part of the run invariant: capture is on; while something is pushed back nothing is pending (so a pop never
    overwrites the comments a token was given when first lexed) -/
structure OrdSt (st : LexState) : Prop where
  wc : st.withComments = true
  pend : st.hiddenTokens ≠ [] → st.nextTokens = []

theorem token_chain (H : List Comment) {st st' : LexState} {r : Option Token} (ho : OrdSt st)
    (hc : Chain (H ++ nextHid st ++ st.hiddenTokens) st) (h : token st = .ok (r, st')) :
    OrdSt st' ∧ Chain (H ++ hidOf r ++ nextHid st' ++ st'.hiddenTokens) st' ∧ (∀ t, r = some t → st'.hiddenTokens = []) := by
  cases hnt : st.nextTokens with
  | cons t rest =>
    -- a pushed-back token is popped: nothing is pending, the token keeps its comments
    have hp : st.hiddenTokens = [] := by
      by_cases hp : st.hiddenTokens = []
      · exact hp
      · have := ho.pend hp; rw [hnt] at this; cases this
    have h1 : token' st = .ok (some t, { st with nextTokens := rest }) := by
      unfold token'; rw [hnt]
    unfold token at h
    rw [h1] at h
    simp only [] at h
    have hcond : ¬ ((st.withComments && !st.hiddenTokens.isEmpty) = true) := by simp [hp]
    rw [if_neg hcond] at h
    simp only [Except.ok.injEq, Prod.mk.injEq] at h
    obtain ⟨rfl, rfl⟩ := h
    refine ⟨⟨ho.wc, fun hne => absurd hp hne⟩, ?_, fun _ _ => hp⟩
    have : H ++ hidOf (some t) ++ nextHid { st with nextTokens := rest } ++ st.hiddenTokens =
        H ++ nextHid st ++ st.hiddenTokens := by
      simp [hidOf, nextHid, hnt, List.append_assoc]
    show Chain (H ++ hidOf (some t) ++ nextHid { st with nextTokens := rest } ++ st.hiddenTokens) _
    rw [this]
    exact hc.congr rfl rfl
  | nil =>
    have hc0 : Chain (H ++ st.hiddenTokens) st := by simpa [nextHid, hnt] using hc
    unfold token at h
    split at h
    · simp at h
    · next st1 ht =>
      simp only [Except.ok.injEq, Prod.mk.injEq] at h
      obtain ⟨rfl, rfl⟩ := h
      unfold token' at ht
      rw [hnt] at ht
      have hf := (tokenLoop_spec _ _ _ _ ht).1
      have hn1 : st1.nextTokens = [] := by rw [hf.2.2.2, hnt]
      refine ⟨⟨hf.2.2.1.trans ho.wc, fun _ => hn1⟩, ?_, fun t ht' => by cases ht'⟩
      simpa [hidOf, nextHid, hn1] using tokenLoop_chain H _ _ _ _ ht hc0
    · next t st1 ht =>
      unfold token' at ht
      rw [hnt] at ht
      have hf := (tokenLoop_spec _ _ _ _ ht).1
      have hn1 : st1.nextTokens = [] := by rw [hf.2.2.2, hnt]
      have hwc : st1.withComments = true := hf.2.2.1.trans ho.wc
      have hfresh : t.hidden = [] := tokenLoop_fresh _ _ _ _ ht
      have hloop := tokenLoop_chain H _ _ _ _ ht hc0
      split at h
      · simp only [Except.ok.injEq, Prod.mk.injEq] at h
        obtain ⟨rfl, rfl⟩ := h
        refine ⟨⟨hwc, fun hne => absurd rfl hne⟩, ?_, fun _ _ => rfl⟩
        show Chain (H ++ st1.hiddenTokens ++ nextHid { st1 with hiddenTokens := [] } ++ []) _
        have : nextHid { st1 with hiddenTokens := [] } = [] := by simp [nextHid, hn1]
        rw [this]
        simp only [List.append_nil]
        exact hloop.congr rfl rfl
      · next hcond =>
        simp only [Except.ok.injEq, Prod.mk.injEq] at h
        obtain ⟨rfl, rfl⟩ := h
        have hp : st1.hiddenTokens = [] := by
          simp only [hwc, Bool.true_and, Bool.not_eq_true', List.isEmpty_eq_false_iff, ne_eq, Decidable.not_not,
            Bool.not_eq_eq_eq_not, Bool.not_true] at hcond
          simpa using hcond
        refine ⟨⟨hwc, fun _ => hn1⟩, ?_, fun _ _ => hp⟩
        simpa [hidOf, nextHid, hn1, hfresh, hp] using hloop

end CalmVerif.Proofs.Comments
