/-
`resolve` is one-to-one on the names referenced at a scope — the resolve-level form of capture-freedom.

For every scope S of a finished tree (chain = S with its final table, followed by its ancestors):
  * `resolveChain chain` is injective on the keys of S's `referenced_symbols` (by the leak-propagation
    invariant `LeakOK` these include every name referenced anywhere in S's subtree that is not declared
    below S: the names visible-and-declared at S or free at S);
  * it is the identity on names no scope of the chain declares (free names), and on names that no scope
    of the chain WITH A NON-EMPTY TABLE declares (top-level names when the global scope is not obfuscated).
Proved by induction over the scope tree from what `_reserved_symbols` contains (Proofs/ObfRemap.lean).
-/
import CalmVerif.Proofs.ObfLeak
namespace CalmVerif.Obf
open CalmVerif CalmVerif.Unparse

/-! ### association lists -/

theorem lookup_none_of_not_key {l : List (String × String)} {x : String} (h : ∀ p ∈ l, p.1 ≠ x) :
    l.lookup x = none := by
  induction l with
  | nil => rfl
  | cons p l ih =>
    obtain ⟨k, v⟩ := p
    have hk : k ≠ x := h (k, v) (List.mem_cons_self ..)
    have : (x == k) = false := by simpa using fun e => hk e.symm
    simp only [List.lookup_cons, this]
    exact ih (fun q hq => h q (List.mem_cons_of_mem _ hq))

theorem lookup_zip_some {syms names : List String} {x v : String} :
    (syms.zip names).lookup x = some v → x ∈ syms ∧ v ∈ names := by
  induction syms generalizing names with
  | nil => simp
  | cons s syms ih =>
    cases names with
    | nil => simp
    | cons n names =>
      simp only [List.zip_cons_cons, List.lookup_cons]
      split
      · rename_i he
        have : x = s := by simpa using he
        intro h
        simp only [Option.some.injEq] at h
        subst h; subst this
        exact ⟨List.mem_cons_self .., List.mem_cons_self ..⟩
      · intro h
        have := ih h
        exact ⟨List.mem_cons_of_mem _ this.1, List.mem_cons_of_mem _ this.2⟩

theorem lookup_zip_inj {syms names : List String} (hn : names.Nodup) {x y v : String} :
    (syms.zip names).lookup x = some v → (syms.zip names).lookup y = some v → x = y := by
  induction syms generalizing names with
  | nil => simp
  | cons s syms ih =>
    cases names with
    | nil => simp
    | cons n names =>
      rw [List.nodup_cons] at hn
      simp only [List.zip_cons_cons, List.lookup_cons]
      by_cases hx : (x == s) = true <;> by_cases hy : (y == s) = true
      · intro _ _
        have a : x = s := by simpa using hx
        have b : y = s := by simpa using hy
        rw [a, b]
      · simp only [hx, hy]
        intro h1 h2
        simp only [Option.some.injEq] at h1
        subst h1
        exact absurd (lookup_zip_some h2).2 hn.1
      · simp only [hx, hy]
        intro h1 h2
        simp only [Option.some.injEq] at h2
        subst h2
        exact absurd (lookup_zip_some h1).2 hn.1
      · simp only [hx, hy]
        exact ih hn.2

theorem lookup_zip_of_mem {syms names : List String} (hl : names.length = syms.length) {x : String}
    (hx : x ∈ syms) : ∃ v, (syms.zip names).lookup x = some v := by
  induction syms generalizing names with
  | nil => cases hx
  | cons s syms ih =>
    cases names with
    | nil => simp at hl
    | cons n names =>
      simp only [List.zip_cons_cons, List.lookup_cons]
      by_cases he : (x == s) = true
      · simp [he]
      · simp only [he]
        have : x ≠ s := by simpa using he
        rcases List.mem_cons.1 hx with rfl | hx
        · exact absurd rfl this
        · exact ih (by simpa using hl) hx

/-! ### the sorted order has the same elements -/

theorem mem_insertDesc {x q : String × Nat} : ∀ {l : List (String × Nat)}, q ∈ insertDesc x l ↔ q = x ∨ q ∈ l
  | [] => by simp [insertDesc]
  | y :: ys => by
    simp only [insertDesc]
    split
    · simp
    · simp only [List.mem_cons, mem_insertDesc (l := ys)]
      tauto

theorem mem_sortDesc {q : String × Nat} : ∀ {l : List (String × Nat)}, q ∈ sortDesc l ↔ q ∈ l
  | [] => by simp [sortDesc]
  | x :: xs => by
    have ih := mem_sortDesc (q := q) (l := xs)
    simp only [sortDesc, List.foldr_cons] at ih ⊢
    rw [mem_insertDesc, ih]
    simp

theorem mem_remapOrder {refs : Counts} {decl : List String} {x : String} :
    x ∈ remapOrder refs decl ↔ x ∈ ckeys refs ∧ x ∈ decl := by
  simp only [remapOrder, ckeys, List.mem_map, List.mem_filter, mem_sortDesc]
  constructor
  · rintro ⟨p, ⟨hp, hd⟩, rfl⟩
    exact ⟨⟨p, hp, rfl⟩, by simpa using hd⟩
  · rintro ⟨⟨p, hp, rfl⟩, hd⟩
    exact ⟨p, ⟨hp, by simpa using hd⟩, rfl⟩

theorem mem_ckeys_cupdate {u : Counts} : ∀ {d : Counts} {x : String},
    x ∈ ckeys (cupdate d u) ↔ x ∈ ckeys d ∨ x ∈ ckeys u := by
  induction u with
  | nil => intro d x; simp [cupdate, ckeys]
  | cons p u ih =>
    intro d x
    have : cupdate d (p :: u) = cupdate (cset d p.1 p.2) u := by simp [cupdate]
    rw [this, ih, mem_ckeys_cset]
    simp only [ckeys, List.map_cons, List.mem_cons]
    tauto

/-! ### what the tables may contain -/

def declaredBy (a : Anc) : List String :=
  match a.kind with
  | .func => a.decl
  | .catch sym _ => [sym]

/-- the keys of every table of the chain are names its scope declares -/
def KeysDecl : List Anc → Prop
  | [] => True
  | a :: rest => (∀ p ∈ a.remapped, p.1 ∈ declaredBy a) ∧ KeysDecl rest

theorem declaredBy_sub (a : Anc) (rest : List Anc) : ∀ x ∈ declaredBy a, x ∈ declaredSymbols (a :: rest) := by
  intro x hx
  unfold declaredBy at hx
  unfold declaredSymbols
  split <;> rename_i hk <;> simp only [hk] at hx
  · exact mem_sunion.2 (Or.inl hx)
  · exact mem_sunion.2 (Or.inl hx)

theorem declared_rest_sub (a : Anc) (rest : List Anc) :
    ∀ x ∈ declaredSymbols rest, x ∈ declaredSymbols (a :: rest) := by
  intro x hx
  cases hk : a.kind with
  | func => simp only [declaredSymbols, hk]; exact mem_sunion.2 (Or.inr hx)
  | «catch» sym u => simp only [declaredSymbols, hk]; exact mem_sunion.2 (Or.inr hx)

theorem resolve_id_of_no_key : ∀ (chain : List Anc) (x : String),
    (∀ a ∈ chain, a.remapped.lookup x = none) → resolveChain chain x = x
  | [], _, _ => rfl
  | a :: rest, x, h => by
    simp only [resolveChain, h a (List.mem_cons_self ..)]
    split
    · rfl
    · exact resolve_id_of_no_key rest x (fun b hb => h b (List.mem_cons_of_mem _ hb))

theorem keysDecl_lookup : ∀ {chain : List Anc}, KeysDecl chain → ∀ (x : String),
    (∀ a ∈ chain, a.remapped ≠ [] → x ∉ declaredBy a) → ∀ a ∈ chain, a.remapped.lookup x = none
  | [], _, _, _, a, ha => by cases ha
  | b :: rest, hk, x, hx, a, ha => by
    rcases List.mem_cons.1 ha with rfl | ha
    · by_cases he : a.remapped = []
      · rw [he]; rfl
      · apply lookup_none_of_not_key
        intro p hp hpx
        exact hx a (List.mem_cons_self ..) he (hpx ▸ hk.1 p hp)
    · exact keysDecl_lookup hk.2 x (fun c hc => hx c (List.mem_cons_of_mem _ hc)) a ha

theorem not_declared_chain : ∀ (chain : List Anc) (x : String), x ∉ declaredSymbols chain →
    ∀ a ∈ chain, x ∉ declaredBy a
  | [], _, _, a, ha => by cases ha
  | b :: rest, x, hx, a, ha => by
    rcases List.mem_cons.1 ha with rfl | ha
    · exact fun h => hx (declaredBy_sub a rest x h)
    · exact not_declared_chain rest x (fun h => hx (declared_rest_sub b rest x h)) a ha

/-- `resolve` of the scope heading `chain` is one-to-one on the keys of its `referenced_symbols` -/
def InjOnRefs (chain : List Anc) : Prop :=
  ∀ x ∈ ckeys (effRefs chain), ∀ y ∈ ckeys (effRefs chain),
    resolveChain chain x = resolveChain chain y → x = y

structure ScopeOK (chain : List Anc) : Prop where
  inj : InjOnRefs chain
  free : ∀ x, x ∉ declaredSymbols chain → resolveChain chain x = x
  untouched : ∀ x, (∀ a ∈ chain, a.remapped ≠ [] → x ∉ declaredBy a) → resolveChain chain x = x

mutual
  def InjTree (chain : List Anc) : STree → RTree → Prop
    | .mk _ _ kind refs decl children, .mk _ _ _ _ _ rm rcs =>
      ScopeOK ({ kind := kind, refs := refs, decl := decl, remapped := rm } :: chain) ∧
      InjTreeList ({ kind := kind, refs := refs, decl := decl, remapped := rm } :: chain) children rcs
  def InjTreeList (chain : List Anc) : List STree → List RTree → Prop
    | [], [] => True
    | c :: cs, r :: rs => InjTree chain c r ∧ InjTreeList chain cs rs
    | [], _ :: _ => False
    | _ :: _, [] => False
end

theorem scopeOK_of (chain : List Anc) (hk : KeysDecl chain) (hi : InjOnRefs chain) : ScopeOK chain where
  inj := hi
  free := fun x hx => resolve_id_of_no_key chain x
    (keysDecl_lookup hk x (fun a ha _ => not_declared_chain chain x hx a ha))
  untouched := fun x hx => resolve_id_of_no_key chain x (keysDecl_lookup hk x hx)

/-- the table of a scope, in full -/
theorem table_spec2 {cs : List Char} (hnd : cs.Nodup) (hne : cs ≠ []) (res kw : List String)
    (syms : List String) (rm : List (String × String))
    (h : (draw cs (sunion res kw) syms.length).map (fun names => syms.zip names) = .ok rm) :
    ∃ names, rm = syms.zip names ∧ names.length = syms.length ∧ names.Nodup ∧
      ∀ v ∈ names, v ∉ res ∧ v ≠ "" := by
  obtain ⟨names, hd, rfl⟩ := except_map_ok' h
  obtain ⟨names', hd', hl, hnodup, hall⟩ := draw_spec hnd hne (sunion res kw) syms.length
  rw [hd] at hd'
  simp only [Except.ok.injEq] at hd'
  subst hd'
  exact ⟨names, rfl, hl, hnodup, fun v hv =>
    ⟨fun hr => (hall v hv).1 (mem_sunion.2 (Or.inl hr)), (hall v hv).2⟩⟩

/-- one scope: from injectivity of the ancestors' resolve on the non-local symbols to injectivity of the
scope's own resolve on everything referenced here -/
theorem scope_step (chain : List Anc) (self0 : Anc) (h0 : self0.remapped = []) (children : List STree)
    (syms names : List String)
    (hsyms : ∀ x, x ∈ syms ↔ x ∈ ckeys (effRefs (self0 :: chain)) ∧ x ∉ nonLocalSymbols (self0 :: chain))
    (hl : names.length = syms.length) (hnd : names.Nodup)
    (hfresh : ∀ v ∈ names, v ∉ reservedSymbols (self0 :: chain) children ∧ v ≠ "")
    (hpar : ∀ x ∈ nonLocalSymbols (self0 :: chain), ∀ y ∈ nonLocalSymbols (self0 :: chain),
      resolveChain (self0 :: chain) x = resolveChain (self0 :: chain) y → x = y) :
    InjOnRefs ({ self0 with remapped := syms.zip names } :: chain) := by
  have heff : effRefs ({ self0 with remapped := syms.zip names } :: chain) = effRefs (self0 :: chain) := by
    simp only [effRefs]
  -- what resolve answers
  have hres_local : ∀ x ∈ syms, ∃ v ∈ names, (syms.zip names).lookup x = some v ∧
      resolveChain ({ self0 with remapped := syms.zip names } :: chain) x = v := by
    intro x hx
    obtain ⟨v, hv⟩ := lookup_zip_of_mem hl hx
    have hvn := (lookup_zip_some hv).2
    refine ⟨v, hvn, hv, ?_⟩
    have hne : (v == "") = false := by simpa using (hfresh v hvn).2
    simp [resolveChain, hv, hne]
  have hres_non : ∀ x, x ∉ syms →
      resolveChain ({ self0 with remapped := syms.zip names } :: chain) x = resolveChain (self0 :: chain) x := by
    intro x hx
    have : (syms.zip names).lookup x = none := by
      cases hlk : (syms.zip names).lookup x with
      | none => rfl
      | some v => exact absurd (lookup_zip_some hlk).1 hx
    simp [resolveChain, this, h0]
  have hreserved : ∀ y ∈ nonLocalSymbols (self0 :: chain),
      resolveChain (self0 :: chain) y ∈ reservedSymbols (self0 :: chain) children := by
    intro y hy
    unfold reservedSymbols
    refine mem_sunion.2 (Or.inr ?_)
    exact List.mem_map.2 ⟨y, hy, rfl⟩
  intro x hx y hy hxy
  rw [heff] at hx hy
  by_cases hxs : x ∈ syms <;> by_cases hys : y ∈ syms
  · obtain ⟨v, _, hv, hrv⟩ := hres_local x hxs
    obtain ⟨w, _, hw, hrw⟩ := hres_local y hys
    rw [hrv, hrw] at hxy
    subst hxy
    exact lookup_zip_inj hnd hv hw
  · obtain ⟨v, hvn, _, hrv⟩ := hres_local x hxs
    rw [hrv, hres_non y hys] at hxy
    have hyn : y ∈ nonLocalSymbols (self0 :: chain) := by
      by_contra hc
      exact hys ((hsyms y).2 ⟨hy, hc⟩)
    exact absurd (hxy ▸ hreserved y hyn) (hfresh v hvn).1
  · obtain ⟨w, hwn, _, hrw⟩ := hres_local y hys
    rw [hres_non x hxs, hrw] at hxy
    have hxn : x ∈ nonLocalSymbols (self0 :: chain) := by
      by_contra hc
      exact hxs ((hsyms x).2 ⟨hx, hc⟩)
    exact absurd (hxy ▸ hreserved x hxn) (hfresh w hwn).1
  · rw [hres_non x hxs, hres_non y hys] at hxy
    have hxn : x ∈ nonLocalSymbols (self0 :: chain) := by
      by_contra hc
      exact hxs ((hsyms x).2 ⟨hx, hc⟩)
    have hyn : y ∈ nonLocalSymbols (self0 :: chain) := by
      by_contra hc
      exact hys ((hsyms y).2 ⟨hy, hc⟩)
    exact hpar x hxn y hyn hxy


theorem lookup_mem' {l : List (String × String)} {k v : String} (h : l.lookup k = some v) : (k, v) ∈ l := by
  induction l with
  | nil => simp at h
  | cons p l ih =>
    obtain ⟨k', v'⟩ := p
    simp only [List.lookup_cons] at h
    split at h
    · rename_i he
      have : k = k' := by simpa using he
      simp only [Option.some.injEq] at h
      subst h; subst this
      exact List.mem_cons_self ..
    · exact List.mem_cons_of_mem _ (ih h)

/-- what `resolve` can answer: the symbol itself, or a value some table of the chain stores under it -/
theorem resolveChain_cases : ∀ (chain : List Anc) (s : String),
    resolveChain chain s = s ∨ ∃ a ∈ chain, (s, resolveChain chain s) ∈ a.remapped
  | [], s => Or.inl rfl
  | a :: rest, s => by
    unfold resolveChain
    split
    · rename_i r hl
      split
      · exact Or.inl rfl
      · exact Or.inr ⟨a, List.mem_cons_self .., lookup_mem' hl⟩
    · split
      · exact Or.inl rfl
      · rcases resolveChain_cases rest s with h | ⟨b, hb, hp⟩
        · exact Or.inl h
        · exact Or.inr ⟨b, List.mem_cons_of_mem _ hb, hp⟩

/-- no replacement of the chain is the word `arguments` (a generated name can in principle be that word: nine letters of
ID_CHARS, not a keyword; it needs more than 53^8 names in one scope) -/
def ChainNoArgs (chain : List Anc) : Prop := ∀ a ∈ chain, ∀ p ∈ a.remapped, p.2 ≠ "arguments"

theorem resolveChain_ne_arguments {chain : List Anc} (h : ChainNoArgs chain) {s : String} (hs : s ≠ "arguments") :
    resolveChain chain s ≠ "arguments" := by
  rcases resolveChain_cases chain s with e | ⟨a, ha, hp⟩
  · rw [e]; exact hs
  · exact h a ha _ hp

end CalmVerif.Obf
