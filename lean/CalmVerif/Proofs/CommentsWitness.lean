/-
C13: executable observers used by the witness theorems of Props/C13 (composed parser model, pretty-printer model,
reference parser).  Definitions only.
-/
import CalmVerif.Model.Parser
import CalmVerif.Model.UnparseInst
import CalmVerif.Spec.Es5Parse

namespace CalmVerif.Proofs.Comments
open CalmVerif CalmVerif.Model CalmVerif.Model.LR

mutual
  /-- the tree carries a `@comments` attribute somewhere -/
  def hasComments : Val → Bool
    | .list xs => hasCommentsL xs
    | .node _ as => hasCommentsA as
    | _ => false
  def hasCommentsL : List Val → Bool
    | [] => false
    | v :: vs => hasComments v || hasCommentsL vs
  def hasCommentsA : List (String × Val) → Bool
    | [] => false
    | (a, v) :: rest => a == "@comments" || hasComments v || hasCommentsA rest
end

/-- the tree of an accepting parse -/
def accTree : Outcome Actions.PVal Parser.PErr → Option Val
  | .accepted v => some v.v
  | _ => none

/-- `pretty_print(parse(text, with_comments=True), indent_str='  ')` on the models -/
def printedWithComments (text : String) : Option String :=
  match accTree (Parser.parse text.toList true) with
  | some t =>
    match Unparse.unparse (Unparse.prettyCfg (some "  ")) t () with
    | .ok fs => some (Unparse.textOf fs)
    | .error _ => none
  | none => none

/-- number of statements in the body of the first function of the program, as the ES5.1 reference parser reads `text` -/
def specBodyLen (text : String) : Option Nat :=
  match Spec.Es5.parseProgram text.toList with
  | .ok out =>
    match out.tree.attr? "children" with
    | some (.list (f :: _)) =>
      match f.attr? "elements" with
      | some (.list es) => some es.length
      | _ => none
    | _ => none
  | .error _ => none

end CalmVerif.Proofs.Comments
