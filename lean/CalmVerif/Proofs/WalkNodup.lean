/- C16: the paths of the stored nodes are pairwise different (so "exactly once" is about paths). -/
import CalmVerif.Proofs.WalkCor
namespace CalmVerif.Proofs.Walk
open CalmVerif CalmVerif.Gen.Children CalmVerif.Model.Walk
open List

theorem preNode_nil_tbl (full : Bool) (q : Path) (k : String) (as : Attrs) :
    preNode [] full q (.node k as) = (q, .node k as) :: (preAttrs [] full q as).flatMap (·.2) := by
  simp [preNode, recipeNamesOf, findRow, asm]

theorem preSlot_nil_tbl (full : Bool) (q : Path) (a : String) (k : String) (as : Attrs) :
    preSlot [] full q a (.node k as)
      = ((a, 0) :: q, .node k as) :: (preAttrs [] full ((a, 0) :: q) as).flatMap (·.2) := by
  simp [preSlot, recipeNamesOf, findRow, asm]

theorem suffix_clash {s1 s2 : Step} {q l : Path} (h1 : s1 :: q <:+ l) (h2 : s2 :: q <:+ l) : s1 = s2 := by
  have h := suffix_of_suffix_length_le h1 h2 (by simp)
  have := h.eq_of_length (by simp)
  simpa using congrArg List.head? this

theorem suffix_ne_self {s : Step} {q l : Path} (h : s :: q <:+ l) : l ≠ q := by
  intro heq
  have := h.length_le
  simp [heq] at this
  omega

mutual
  theorem suf_node (full : Bool) : ∀ (v : Val) (q : Path) (e : Path × Val),
      e ∈ preNode [] full q v → q <:+ e.1
    | .node k as, q, e, h => by
        rw [preNode_nil_tbl] at h
        rcases List.mem_cons.mp h with h | h
        · subst h; exact List.suffix_refl _
        · obtain ⟨a, i, _, hs⟩ := suf_attrs full as q e h
          exact (List.suffix_cons _ _).trans hs
    | .none, _, _, h => by simp [preNode] at h
    | .bool _, _, _, h => by simp [preNode] at h
    | .int _, _, _, h => by simp [preNode] at h
    | .str _, _, _, h => by simp [preNode] at h
    | .list _, _, _, h => by simp [preNode] at h
  theorem suf_attrs (full : Bool) : ∀ (as : List (String × Val)) (q : Path) (e : Path × Val),
      e ∈ (preAttrs [] full q as).flatMap (·.2) → ∃ a i, a ∈ as.map (·.1) ∧ (a, i) :: q <:+ e.1
    | [], _, _, h => by simp [preAttrs] at h
    | (a, x) :: rest, q, e, h => by
        simp only [preAttrs, List.flatMap_cons, List.mem_append] at h
        rcases h with h | h
        · split at h
          · simp at h
          · obtain ⟨i, hs⟩ := suf_slot full x q a e h
            exact ⟨a, i, by simp, hs⟩
        · obtain ⟨b, j, hb, hs⟩ := suf_attrs full rest q e h
          exact ⟨b, j, by simp [hb], hs⟩
  theorem suf_slot (full : Bool) : ∀ (x : Val) (q : Path) (a : String) (e : Path × Val),
      e ∈ preSlot [] full q a x → ∃ i, (a, i) :: q <:+ e.1
    | .node k as, q, a, e, h => by
        rw [preSlot_nil_tbl] at h
        rcases List.mem_cons.mp h with h | h
        · subst h; exact ⟨0, List.suffix_refl _⟩
        · obtain ⟨b, j, _, hs⟩ := suf_attrs full as _ e h
          exact ⟨0, (List.suffix_cons _ _).trans hs⟩
    | .list xs, q, a, e, h => by
        simp only [preSlot] at h
        obtain ⟨j, _, hs⟩ := suf_items full xs q a 0 e h
        exact ⟨j, hs⟩
    | .none, _, _, _, h => by simp [preSlot] at h
    | .bool _, _, _, _, h => by simp [preSlot] at h
    | .int _, _, _, _, h => by simp [preSlot] at h
    | .str _, _, _, _, h => by simp [preSlot] at h
  theorem suf_items (full : Bool) : ∀ (xs : List Val) (q : Path) (a : String) (i : Nat) (e : Path × Val),
      e ∈ preItems [] full q a i xs → ∃ j, i ≤ j ∧ (a, j) :: q <:+ e.1
    | [], _, _, _, _, h => by simp [preItems] at h
    | x :: xs, q, a, i, e, h => by
        simp only [preItems, List.mem_append] at h
        rcases h with h | h
        · exact ⟨i, Nat.le_refl _, suf_node full x _ e h⟩
        · obtain ⟨j, hj, hs⟩ := suf_items full xs q a (i + 1) e h
          exact ⟨j, by omega, hs⟩
end

mutual
  theorem nd_node (full : Bool) : ∀ (v : Val) (q : Path), dnV full v = true →
      ((preNode [] full q v).map (·.1)).Nodup
    | .node k as, q, h => by
        simp only [dnV, Bool.and_eq_true] at h
        rw [preNode_nil_tbl]
        simp only [List.map_cons, List.nodup_cons]
        refine ⟨?_, nd_attrs full as q h.1 h.2⟩
        intro hm
        obtain ⟨e, he, heq⟩ := List.mem_map.mp hm
        obtain ⟨a, i, _, hs⟩ := suf_attrs full as q e he
        exact suffix_ne_self hs heq
    | .none, _, _ => by simp [preNode]
    | .bool _, _, _ => by simp [preNode]
    | .int _, _, _ => by simp [preNode]
    | .str _, _, _ => by simp [preNode]
    | .list _, _, _ => by simp [preNode]
  theorem nd_attrs (full : Bool) : ∀ (as : List (String × Val)) (q : Path),
      nodupB (as.map (·.1)) = true → dnAttrs full as = true →
      (((preAttrs [] full q as).flatMap (·.2)).map (·.1)).Nodup
    | [], _, _, _ => by simp [preAttrs]
    | (a, x) :: rest, q, hn, hd => by
        simp only [List.map_cons, nodupB_cons] at hn
        simp only [dnAttrs, Bool.and_eq_true] at hd
        simp only [preAttrs, List.flatMap_cons, List.map_append]
        refine List.nodup_append.mpr ⟨?_, nd_attrs full rest q hn.2 hd.2, ?_⟩
        · split
          · simp
          · rename_i hc
            have hx := hd.1
            have hc' : ¬((!full) = true ∧ (a == commentsAttr) = true) := by
              rw [← Bool.and_eq_true]; exact hc
            rw [if_neg hc'] at hx
            exact nd_slot full x q a hx
        · intro p1 h1 p2 h2 heq
          subst heq
          obtain ⟨e1, he1, hp1⟩ := List.mem_map.mp h1
          obtain ⟨e2, he2, hp2⟩ := List.mem_map.mp h2
          obtain ⟨b, j, hb, hs2⟩ := suf_attrs full rest q e2 he2
          split at he1
          · simp at he1
          · obtain ⟨i, hs1⟩ := suf_slot full x q a e1 he1
            rw [hp1] at hs1
            rw [hp2] at hs2
            have := suffix_clash hs1 hs2
            simp only [Prod.mk.injEq] at this
            exact hn.1 (this.1 ▸ hb)
  theorem nd_slot (full : Bool) : ∀ (x : Val) (q : Path) (a : String), dnV full x = true →
      ((preSlot [] full q a x).map (·.1)).Nodup
    | .node k as, q, a, h => by
        simp only [dnV, Bool.and_eq_true] at h
        rw [preSlot_nil_tbl]
        simp only [List.map_cons, List.nodup_cons]
        refine ⟨?_, nd_attrs full as _ h.1 h.2⟩
        intro hm
        obtain ⟨e, he, heq⟩ := List.mem_map.mp hm
        obtain ⟨b, i, _, hs⟩ := suf_attrs full as _ e he
        exact suffix_ne_self hs heq
    | .list xs, q, a, h => by
        simp only [dnV] at h
        simp only [preSlot]
        exact nd_items full xs q a 0 h
    | .none, _, _, _ => by simp [preSlot]
    | .bool _, _, _, _ => by simp [preSlot]
    | .int _, _, _, _ => by simp [preSlot]
    | .str _, _, _, _ => by simp [preSlot]
  theorem nd_items (full : Bool) : ∀ (xs : List Val) (q : Path) (a : String) (i : Nat),
      dnList full xs = true → ((preItems [] full q a i xs).map (·.1)).Nodup
    | [], _, _, _, _ => by simp [preItems]
    | x :: xs, q, a, i, h => by
        simp only [dnList, Bool.and_eq_true] at h
        simp only [preItems, List.map_append]
        refine List.nodup_append.mpr ⟨nd_node full x _ h.1, nd_items full xs q a (i + 1) h.2, ?_⟩
        intro p1 h1 p2 h2 heq
        subst heq
        obtain ⟨e1, he1, hp1⟩ := List.mem_map.mp h1
        obtain ⟨e2, he2, hp2⟩ := List.mem_map.mp h2
        have hs1 := suf_node full x _ e1 he1
        obtain ⟨j, hj, hs2⟩ := suf_items full xs q a (i + 1) e2 he2
        rw [hp1] at hs1
        rw [hp2] at hs2
        have := suffix_clash hs1 hs2
        simp only [Prod.mk.injEq] at this
        omega
end

theorem stored_nodup (full : Bool) (q : Path) (v : Val) (h : dnV full v = true) :
    ((storedDesc full q v).map (·.1)).Nodup := by
  cases v with
  | node k as =>
    simp only [dnV, Bool.and_eq_true] at h
    simp only [storedDesc, preDesc, recipeNamesOf, findRow, asm]
    exact nd_attrs full as q h.1 h.2
  | _ => simp [storedDesc, preDesc]

theorem preDesc_nodup (tbl : Table) (full : Bool) (q : Path) (v : Val) (h : dnV full v = true) :
    ((preDesc tbl full q v).map (·.1)).Nodup :=
  ((preDesc_perm_stored tbl full q v).map (·.1)).nodup_iff.mpr (stored_nodup full q v h)

end CalmVerif.Proofs.Walk
