/-
The link between the obfuscator's invariants and ES5 identifier resolution, for environments made of function records, catch records,
records of the own names of function expressions, and the global record:

  if the environment `E` of a site is aligned with the chain `C` of scope records the site is registered in (`Al`: record by
  record the declared names agree and the record's renaming `τ` is the scope's table), every chain is good (`ChainGood`:
  `remap_injective_visible`, table keys ⊆ declared names, full tables below the root, the leak invariant, declared ⊆ referenced,
  no replacement spelled `arguments`), and the name `n` is a key of the innermost scope's `referenced_symbols`,
  then looking up what `Scope.resolve` answers for `n` in the IMAGE of `E` finds the image of the binder `n` had in `E`
  (`lookup_link`) — capture-freedom and consistency in one statement; and a declared name is renamed by its own record (`decl_link`).
-/
import CalmVerif.Proofs.ObfRecs
import CalmVerif.Proofs.ObfBindCond
namespace CalmVerif.Obf
open CalmVerif CalmVerif.Unparse
open CalmVerif.Spec.Scope (BKind Binder Layer lookupEnv)

/-- what the invariants give for the scope heading `C` -/
structure ChainGood (C : List Anc) : Prop where
  ok : ScopeOK C
  keys : KeysHead C
  full : C.tail ≠ [] → FullHead C
  catchFull : CatchFullHead C
  leak : C.tail ≠ [] → LeakHead C
  declRefs : ∀ A ∈ C.head?, ∀ x ∈ A.decl, x ∈ ckeys A.refs
  noArgs : ChainNoArgs C

theorem resolveChain_single (A : Anc) (n : String) : resolveChain [A] n = applyTable A.remapped n := by
  cases h : A.remapped.lookup n <;> simp [resolveChain, applyTable, h]

theorem lookupEnv_hit {l : Layer} {rest : List Layer} {n : String} (h : l.names.contains n = true) :
    lookupEnv (l :: rest) n = { kind := l.kind, scope := l.scope, name := n } := by
  simp only [lookupEnv, h, if_true]

theorem lookupEnv_args {l : Layer} {rest : List Layer} (h : l.names.contains "arguments" = false) (hk : l.kind = .var) :
    lookupEnv (l :: rest) "arguments" = { kind := .args, scope := l.scope, name := "arguments" } := by
  simp only [lookupEnv, h, Bool.false_eq_true, if_false, hk, beq_self_eq_true, Bool.and_self, if_true]

theorem lookupEnv_skip {l : Layer} {rest : List Layer} {n : String} (h : l.names.contains n = false)
    (hs : (l.kind == .var && n == "arguments") = false) : lookupEnv (l :: rest) n = lookupEnv rest n := by
  simp only [lookupEnv, h, Bool.false_eq_true, if_false, hs]

theorem mapEnv_cons (τ : Tau) (L : Layer) (E : List Layer) : mapEnv τ (L :: E) = mapLayer τ L :: mapEnv τ E := rfl

/-- environment ↔ chain of scope records -/
inductive Al (τ : Tau) : List Layer → List Anc → Prop where
  | root (names : List String) (A : Anc) : A.kind = .func → (∀ x, x ∈ names → x ∈ A.decl) →
      (∀ n, tauN τ .global [] n = applyTable A.remapped n) → ChainGood [A] →
      Al τ [{ kind := .global, scope := [], names := names }] [A]
  | func (p : SPath) (names : List String) (E : List Layer) (A : Anc) (C : List Anc) : A.kind = .func →
      (∀ x, x ∈ names → x ∈ A.decl) → (∀ n, tauN τ .var p n = applyTable A.remapped n) → ChainGood (A :: C) → C ≠ [] →
      Al τ E C → Al τ ({ kind := .var, scope := p, names := names } :: E) (A :: C)
  | «catch» (p : SPath) (c : String) (u : Nat) (E : List Layer) (K : Anc) (C : List Anc) : K.kind = .catch c u →
      (∀ n, tauN τ .catch p n = applyTable K.remapped n) → ChainGood (K :: C) → C ≠ [] →
      Al τ E C → Al τ ({ kind := .catch, scope := p, names := [c] } :: E) (K :: C)
  /-- the record of the own name `g` of the function expression at `p`: no scope record of its own; the name is declared, and its
  Identifier registered, in the enclosing scope -/
  | self (p : SPath) (g : String) (E : List Layer) (C : List Anc) : (∀ n, tauN τ .self p n = resolveChain C n) →
      g ∈ ckeys (effRefs C) → Al τ E C → Al τ ({ kind := .self, scope := p, names := [g] } :: E) C

theorem al_good {τ : Tau} {E : List Layer} {C : List Anc} (h : Al τ E C) : ChainGood C := by
  induction h with
  | root _ _ _ _ _ hg => exact hg
  | func _ _ _ _ _ _ _ _ hg _ _ _ => exact hg
  | «catch» _ _ _ _ _ _ _ _ hg _ _ _ => exact hg
  | self _ _ _ _ _ _ _ ih => exact ih

theorem contains_iff {l : List String} {x : String} : l.contains x = true ↔ x ∈ l := by simp

/-- a declared, referenced name of a scope below the root has a non-empty replacement, and `resolve` answers it -/
theorem resolve_declared {A : Anc} {C : List Anc} (hk : A.kind = .func) (hg : ChainGood (A :: C)) (hC : C ≠ [])
    {m : String} (hm : m ∈ A.decl) :
    ∃ v, (m, v) ∈ A.remapped ∧ v ≠ "" ∧ resolveChain (A :: C) m = v ∧ applyTable A.remapped m = v := by
  have hr : m ∈ ckeys A.refs := hg.declRefs A (by simp) m hm
  obtain ⟨v, hv, hne⟩ := hg.full (by simpa using hC) hk m hr hm
  have hne' : (v == "") = false := by simpa using hne
  exact ⟨v, lookup_mem' hv, hne, by simp [resolveChain, hv, hne'], by simp [applyTable, hv, hne']⟩

theorem lookup_none_of_not_decl {A : Anc} {C : List Anc} (hk : A.kind = .func) (hg : ChainGood (A :: C))
    {n : String} (hn : n ∉ A.decl) : A.remapped.lookup n = none := by
  apply lookup_none_of_not_key
  intro p hp hpn
  have := hg.keys p hp
  simp only [declaredBy, hk] at this
  exact hn (hpn ▸ this)

/-- the catch symbol has a non-empty replacement, and `resolve` answers it -/
theorem resolve_catch {K : Anc} {C : List Anc} {c : String} {u : Nat} (hk : K.kind = .catch c u) (hg : ChainGood (K :: C)) :
    ∃ v, (c, v) ∈ K.remapped ∧ v ≠ "" ∧ resolveChain (K :: C) c = v ∧ applyTable K.remapped c = v := by
  obtain ⟨v, hv, hne⟩ := hg.catchFull c u hk
  have hne' : (v == "") = false := by simpa using hne
  exact ⟨v, lookup_mem' hv, hne, by simp [resolveChain, hv, hne'], by simp [applyTable, hv, hne']⟩

theorem lookup_none_catch {K : Anc} {C : List Anc} {c : String} {u : Nat} (hk : K.kind = .catch c u)
    (hg : ChainGood (K :: C)) {n : String} (hn : n ≠ c) : K.remapped.lookup n = none := by
  apply lookup_none_of_not_key
  intro p hp hpn
  have := hg.keys p hp
  simp only [declaredBy, hk, List.mem_singleton] at this
  exact hn (hpn ▸ this)

theorem resolve_through_catch {K : Anc} {C : List Anc} {c : String} {u : Nat} (hk : K.kind = .catch c u)
    (hg : ChainGood (K :: C)) {n : String} (hn : n ≠ c) : resolveChain (K :: C) n = resolveChain C n := by
  simp [resolveChain, lookup_none_catch hk hg hn, hk, SKind.isFunc]

theorem effRefs_catch_keys {K : Anc} {C : List Anc} {c : String} {u : Nat} (hk : K.kind = .catch c u) {n : String} :
    n ∈ ckeys (effRefs (K :: C)) ↔ n = c ∨ n ∈ ckeys (effRefs C) := by
  simp only [effRefs, hk]
  rw [mem_ckeys_cupdate]
  simp [ckeys]

/-- **the link**: capture-freedom and consistency of `resolve` w.r.t. the aligned environment -/
theorem lookup_link (τ : Tau) : ∀ {E : List Layer} {C : List Anc}, Al τ E C → ∀ (n : String), n ∈ ckeys (effRefs C) →
    noExtra E C n = true → lookupEnv (mapEnv τ E) (resolveChain C n) = mapBinder τ (lookupEnv E n) := by
  intro E C h
  induction h with
  | root names A hk hnames htau hg =>
    intro n hn hx
    have hrefs : effRefs [A] = A.refs := by simp [effRefs, hk]
    rw [hrefs] at hn
    rw [resolveChain_single, mapEnv_cons]
    by_cases hc : n ∈ names
    · have h1 : names.contains n = true := contains_iff.2 hc
      have h2 : (mapLayer τ { kind := .global, scope := [], names := names }).names.contains (applyTable A.remapped n) = true := by
        simp only [mapLayer]
        rw [contains_iff, ← htau n]
        exact List.mem_map.2 ⟨n, hc, rfl⟩
      rw [lookupEnv_hit h2, lookupEnv_hit (l := { kind := .global, scope := [], names := names }) h1]
      simp [mapLayer, mapBinder, htau n]
    · have h1 : names.contains n = false := by simpa using hc
      have hl : A.remapped.lookup n = none := by
        simp only [noExtra, h1, Bool.false_eq_true, if_false, Bool.and_eq_true, Option.isNone_iff_eq_none] at hx
        exact hx.1
      have hn' : applyTable A.remapped n = n := by simp [applyTable, hl]
      have h2 : (mapLayer τ { kind := .global, scope := [], names := names }).names.contains (applyTable A.remapped n) = false := by
        simp only [mapLayer]
        rw [hn']
        apply Bool.eq_false_iff.2
        intro hcon
        obtain ⟨m, hm, hmn⟩ := List.mem_map.1 (contains_iff.1 hcon)
        rw [htau m, ← resolveChain_single, ← hn', ← resolveChain_single] at hmn
        have hmr : m ∈ ckeys (effRefs [A]) := by rw [hrefs]; exact hg.declRefs A (by simp) m (hnames m hm)
        have hnr : n ∈ ckeys (effRefs [A]) := by rw [hrefs]; exact hn
        have := hg.ok.inj m hmr n hnr hmn
        exact hc (this ▸ hm)
      rw [lookupEnv_skip h2 (by simp [mapLayer]),
        lookupEnv_skip (l := { kind := .global, scope := [], names := names }) h1 (by simp)]
      simp [mapEnv, lookupEnv, hn', mapBinder, tauN]
  | func p names E A C hk hnames htau hg hC _ ih =>
    intro n hn hx
    have hrefs : effRefs (A :: C) = A.refs := by simp [effRefs, hk]
    rw [hrefs] at hn
    rw [mapEnv_cons]
    by_cases hc : n ∈ names
    · have h1 : names.contains n = true := contains_iff.2 hc
      obtain ⟨v, _, _, hrv, hav⟩ := resolve_declared hk hg hC (hnames n hc)
      have h2 : (mapLayer τ { kind := .var, scope := p, names := names }).names.contains (resolveChain (A :: C) n) = true := by
        simp only [mapLayer]
        rw [contains_iff, hrv, ← hav, ← htau n]
        exact List.mem_map.2 ⟨n, hc, rfl⟩
      rw [lookupEnv_hit h2, lookupEnv_hit (l := { kind := .var, scope := p, names := names }) h1]
      simp [mapLayer, mapBinder, htau n, hrv, hav]
    · have h1 : names.contains n = false := by simpa using hc
      simp only [noExtra, h1, Bool.false_eq_true, if_false, Bool.and_eq_true, Option.isNone_iff_eq_none, List.tail_cons] at hx
      have hl : A.remapped.lookup n = none := hx.1
      have hnd : n ∉ A.decl := by
        intro hd
        obtain ⟨v, hv, _⟩ := hg.full (by simpa using hC) hk n hn hd
        rw [hl] at hv; cases hv
      have hemp : C.isEmpty = false := by
        cases C with
        | nil => exact absurd rfl hC
        | cons a r => rfl
      -- no declared name of this record is renamed to what `n` resolves to
      have hnocap : (mapLayer τ { kind := .var, scope := p, names := names }).names.contains (resolveChain (A :: C) n) = false := by
        simp only [mapLayer]
        apply Bool.eq_false_iff.2
        intro hcon
        obtain ⟨m, hm, hmn⟩ := List.mem_map.1 (contains_iff.1 hcon)
        obtain ⟨v, _, _, hrv, hav⟩ := resolve_declared hk hg hC (hnames m hm)
        rw [htau m, hav, ← hrv] at hmn
        have hmr : m ∈ ckeys (effRefs (A :: C)) := by
          rw [hrefs]; exact hg.declRefs A (by simp) m (hnames m hm)
        have hnr : n ∈ ckeys (effRefs (A :: C)) := by rw [hrefs]; exact hn
        have := hg.ok.inj m hmr n hnr hmn
        exact hc (this ▸ hm)
      by_cases ha : n = "arguments"
      · subst ha
        have hres : resolveChain (A :: C) "arguments" = "arguments" := by
          simp [resolveChain, hl, hk, SKind.isFunc, hemp]
        rw [hres] at hnocap ⊢
        rw [lookupEnv_args hnocap (by simp [mapLayer]),
          lookupEnv_args (l := { kind := .var, scope := p, names := names }) h1 rfl]
        simp [mapLayer, mapBinder, tauN]
      · have hne : (n == "arguments") = false := by simpa using ha
        have hres : resolveChain (A :: C) n = resolveChain C n := by
          simp [resolveChain, hl, hne]
        have hna : ChainNoArgs C := fun a ha' p' hp' => hg.noArgs a (List.mem_cons_of_mem _ ha') p' hp'
        have hne' : (resolveChain C n == "arguments") = false := by
          simpa using resolveChain_ne_arguments hna ha
        rw [hres] at hnocap ⊢
        have hleak : n ∈ ckeys (effRefs C) := hg.leak (by simpa using hC) hk n hn hnd
        rw [lookupEnv_skip hnocap (by simp [hne']),
          lookupEnv_skip (l := { kind := .var, scope := p, names := names }) h1 (by simp [hne])]
        have hx2 : noExtra E C n = true := by simpa [hne] using hx.2
        exact ih n hleak hx2
  | «catch» p c u E K C hk htau hg hC _ ih =>
    intro n hn hx
    rw [mapEnv_cons]
    obtain ⟨v, _, _, hrv, hav⟩ := resolve_catch hk hg
    by_cases hc : n = c
    · subst hc
      have h1 : ([n] : List String).contains n = true := by simp
      have h2 : (mapLayer τ { kind := .catch, scope := p, names := [n] }).names.contains (resolveChain (K :: C) n) = true := by
        simp only [mapLayer, List.map_cons, List.map_nil]
        rw [hrv, htau n, hav]
        simp
      rw [lookupEnv_hit h2, lookupEnv_hit (l := { kind := .catch, scope := p, names := [n] }) h1]
      simp [mapLayer, mapBinder, htau n, hrv, hav]
    · have h1 : ([c] : List String).contains n = false := by simpa using hc
      have hres := resolve_through_catch hk hg hc
      have hnC : n ∈ ckeys (effRefs C) := by
        rcases (effRefs_catch_keys hk).1 hn with h | h
        · exact absurd h hc
        · exact h
      have h2 : (mapLayer τ { kind := .catch, scope := p, names := [c] }).names.contains (resolveChain (K :: C) n) = false := by
        simp only [mapLayer, List.map_cons, List.map_nil]
        rw [htau c, hav]
        apply Bool.eq_false_iff.2
        intro hcon
        have heq : resolveChain (K :: C) n = v := by simpa using hcon
        have hcr : c ∈ ckeys (effRefs (K :: C)) := (effRefs_catch_keys hk).2 (Or.inl rfl)
        have := hg.ok.inj c hcr n hn (by rw [hrv, heq])
        exact hc this.symm
      rw [lookupEnv_skip h2 (by simp [mapLayer]),
        lookupEnv_skip (l := { kind := .catch, scope := p, names := [c] }) h1 (by simp), hres]
      have hx2 : noExtra E C n = true := by
        simp only [noExtra, h1, Bool.false_eq_true, if_false, List.tail_cons] at hx; exact hx
      exact ih n hnC hx2
  | self p g E C htau hg hal ih =>
    intro n hn hx
    rw [mapEnv_cons]
    by_cases hc : n = g
    · subst hc
      have h1 : ([n] : List String).contains n = true := by simp
      have h2 : (mapLayer τ { kind := .self, scope := p, names := [n] }).names.contains (resolveChain C n) = true := by
        simp [mapLayer, htau n]
      rw [lookupEnv_hit h2, lookupEnv_hit (l := { kind := .self, scope := p, names := [n] }) h1]
      simp [mapLayer, mapBinder, htau n]
    · have h1 : ([g] : List String).contains n = false := by simpa using hc
      have h2 : (mapLayer τ { kind := .self, scope := p, names := [g] }).names.contains (resolveChain C n) = false := by
        simp only [mapLayer, List.map_cons, List.map_nil]
        rw [htau g]
        apply Bool.eq_false_iff.2
        intro hcon
        have heq : resolveChain C n = resolveChain C g := by simpa using hcon
        exact hc ((al_good hal).ok.inj n hn g hg heq)
      rw [lookupEnv_skip h2 (by simp [mapLayer]),
        lookupEnv_skip (l := { kind := .self, scope := p, names := [g] }) h1 (by simp)]
      have hx2 : noExtra E C n = true := by
        simp only [noExtra, h1, Bool.false_eq_true, if_false] at hx; exact hx
      exact ih n hn hx2

/-- a declaration of the innermost record is renamed by that record -/
theorem decl_link_func {A : Anc} {C : List Anc} (hk : A.kind = .func) (hg : ChainGood (A :: C)) (hC : C ≠ [])
    {m : String} (hm : m ∈ A.decl) : resolveChain (A :: C) m = applyTable A.remapped m := by
  obtain ⟨v, _, _, hrv, hav⟩ := resolve_declared hk hg hC hm
  rw [hrv, hav]


/-- the variable environment of an environment: the first record that is neither a catch clause nor the own name of a function
expression -/
def varLayer : List Layer → Option (BKind × SPath)
  | [] => none
  | L :: E => if L.kind == .catch || L.kind == .self then varLayer E else some (L.kind, L.scope)

/-- a symbol declared in the variable environment (through catch scopes that do not bind it) is renamed by that record, and
is a key of the innermost scope's `referenced_symbols` -/
theorem decl_link {τ : Tau} : ∀ {E : List Layer} {C : List Anc}, Al τ E C → ∀ {vk : BKind} {vs : SPath},
    varLayer E = some (vk, vs) → ∀ {n : String}, varDeclOK C n = true →
    resolveChain C n = tauN τ vk vs n ∧ n ∈ ckeys (effRefs C) := by
  intro E C h
  induction h with
  | root names A hk hnames htau hg =>
    intro vk vs hv n hn
    have hkc : (BKind.global == BKind.catch || BKind.global == BKind.self) = false := by decide
    simp only [varLayer, hkc, Bool.false_eq_true, if_false, Option.some.injEq, Prod.mk.injEq] at hv
    obtain ⟨rfl, rfl⟩ := hv
    simp only [varDeclOK, hk] at hn
    have hd : n ∈ A.decl := by simpa using hn
    refine ⟨by rw [resolveChain_single, htau n], ?_⟩
    simp only [effRefs, hk]
    exact hg.declRefs A (by simp) n hd
  | func p names E A C hk hnames htau hg hC _ _ =>
    intro vk vs hv n hn
    have hkc : (BKind.var == BKind.catch || BKind.var == BKind.self) = false := by decide
    simp only [varLayer, hkc, Bool.false_eq_true, if_false, Option.some.injEq, Prod.mk.injEq] at hv
    obtain ⟨rfl, rfl⟩ := hv
    simp only [varDeclOK, hk] at hn
    have hd : n ∈ A.decl := by simpa using hn
    refine ⟨by rw [decl_link_func hk hg hC hd, htau n], ?_⟩
    simp only [effRefs, hk]
    exact hg.declRefs A (by simp) n hd
  | «catch» p c u E K C hk htau hg hC _ ih =>
    intro vk vs hv n hn
    have hkc : (BKind.catch == BKind.catch || BKind.catch == BKind.self) = true := by decide
    simp only [varLayer, hkc, if_true] at hv
    simp only [varDeclOK, hk, Bool.and_eq_true, bne_iff_ne, ne_eq] at hn
    obtain ⟨h1, h2⟩ := ih hv hn.2
    exact ⟨by rw [resolve_through_catch hk hg hn.1, h1], (effRefs_catch_keys hk).2 (Or.inr h2)⟩
  | self p g E C htau hg _ ih =>
    intro vk vs hv n hn
    have hkc : (BKind.self == BKind.catch || BKind.self == BKind.self) = true := by decide
    simp only [varLayer, hkc, if_true] at hv
    exact ih hv hn

end CalmVerif.Obf
