/-
Assembly for Props/C01tok: identifiers and comments, the shifted tokens have actions, classification of the token
types, and the statement of `TokenTextsOK` for every configuration of a parse.
-/
import CalmVerif.Proofs.TokenTextsRun
import CalmVerif.Proofs.ParserReach
import CalmVerif.Proofs.LexerSpelling

namespace CalmVerif.Proofs.TokenTexts
open CalmVerif CalmVerif.TokenAdj CalmVerif.Unparse
open CalmVerif.Model CalmVerif.Model.LR CalmVerif.Model.Lexer CalmVerif.Model.PlyLex
open CalmVerif.Proofs.LexerRegex CalmVerif.Proofs.LexerPly CalmVerif.Proofs.LexerEnds CalmVerif.Proofs.LexerLoop
open CalmVerif.Proofs.LexerTables CalmVerif.Proofs.LexerDrive CalmVerif.Proofs.ParserDrive
open CalmVerif.Proofs.ParsedTyped
open CalmVerif.Gen.Tables.Cached

/-- ID -/
theorem id_ok {text : List Char} {t : Token} (h : RuleInfo text t) (hty : t.type = "ID")
    (hres : String.ofList t.value ∉ reservedWords)
    (hk : ∀ c, t.value.head? = some c → charKind c ≠ 2) :
    wordSigs.contains (sig (String.ofList t.value)) = true ∧ endsOK (String.ofList t.value) = true := by
  obtain ⟨hm, hv⟩ := ruleInfo_rule h "ID" (by decide) hty Model.TokenRegex.idLen (by simp [ruleMatcher])
  have hb := idLen_bounded _ _ hm
  obtain ⟨S, P, hsp, hne, hS, hP⟩ := idLen_shape _ _ hm
  obtain ⟨l, hl, hlq⟩ := idLen_lastIs _ _ hm
  have hlast := value_last hb hv
  rw [hl] at hlast
  rw [hv] at hsp
  cases S with
  | nil => exact absurd rfl hne
  | cons c S' =>
    constructor
    · rw [hsp]
      apply sig_word c S' P
      · intro x hx; rw [isIdStart_bridge]; exact hS x hx
      · intro x hx; rw [isIdPart_bridge]; exact hP x hx
      · rw [← hsp]; exact hres
      · apply hk; rw [hsp]; rfl
    · apply endsOK_of_last _ l hlast
      apply endChar_notLT
      rcases hlq with h1 | h1 <;> simp [endChar, h1]

/-- a comment token (line or block) -/
theorem comment_ok {text : List Char} {c : Comment} (h : Comments.CommentOK text c) :
    (c.type = "LINE_COMMENT" → sig (String.ofList c.value) = .lineComment) ∧
    (c.type = "BLOCK_COMMENT" → sig (String.ofList c.value) = .blockComment) ∧
    endsOK (String.ofList c.value) = true := by
  obtain ⟨hc, _, hsl, s, r, ⟨_, _, m, _, hm, hn, _⟩, ap, hr⟩ := h
  have hv : (text.drop c.lexpos).take c.value.length = c.value := by
    rw [← slice_eq_take_drop]; exact hsl
  have hcases : c.type = "BLOCK_COMMENT" ∨ c.type = "LINE_COMMENT" := by
    simpa [isComment, Gen.LexData.comments] using hc
  have line : c.type = "LINE_COMMENT" →
      sig (String.ofList c.value) = .lineComment ∧ endsOK (String.ofList c.value) = true := by
    intro hty
    have hrr : r = "LINE_COMMENT" := ruleFn_eq ap r _ _ (by decide) (by decide) (hr ▸ hty)
    subst hrr
    have : m = Model.TokenRegex.lineCommentLen := by
      have e : ruleMatcher "LINE_COMMENT" = some Model.TokenRegex.lineCommentLen := by simp [ruleMatcher]
      rw [e] at hm; exact (Option.some.inj hm).symm
    subst this
    have hb := lineCommentLen_bounded _ _ hn
    obtain ⟨rr, hrest, h2⟩ := lineCommentLen_first _ _ hn
    obtain ⟨l, hl, hlq⟩ := lineCommentLen_lastIs _ _ hn
    have hlast := value_last hb hv
    rw [hl] at hlast
    constructor
    · rw [← hv, hrest]
      obtain ⟨k, hk⟩ : ∃ k, c.value.length = k + 2 := ⟨c.value.length - 2, by omega⟩
      rw [hk]
      simp only [List.take_succ_cons]
      exact sig_lineComment _
    · apply endsOK_of_last _ l hlast
      apply endChar_notLT
      rcases hlq with rfl | h1
      · simp [endChar]
      · simp [endChar, h1]
  have block : c.type = "BLOCK_COMMENT" →
      sig (String.ofList c.value) = .blockComment ∧ endsOK (String.ofList c.value) = true := by
    intro hty
    have hrr : r = "BLOCK_COMMENT" := ruleFn_eq ap r _ _ (by decide) (by decide) (hr ▸ hty)
    subst hrr
    have : m = Model.TokenRegex.blockCommentLen := by
      have e : ruleMatcher "BLOCK_COMMENT" = some Model.TokenRegex.blockCommentLen := by simp [ruleMatcher]
      rw [e] at hm; exact (Option.some.inj hm).symm
    subst this
    have hb := blockCommentLen_bounded _ _ hn
    obtain ⟨rr, hrest, h2⟩ := blockCommentLen_first _ _ hn
    obtain ⟨l, hl, hlq⟩ := blockCommentLen_lastIs _ _ hn
    have hlast := value_last hb hv
    rw [hl] at hlast
    constructor
    · rw [← hv, hrest]
      obtain ⟨k, hk⟩ : ∃ k, c.value.length = k + 2 := ⟨c.value.length - 2, by omega⟩
      rw [hk]
      simp only [List.take_succ_cons]
      exact sig_blockComment _
    · apply endsOK_of_last _ l hlast
      apply endChar_notLT
      subst hlq
      simp [endChar]
  refine ⟨fun h => (line h).1, fun h => (block h).1, ?_⟩
  rcases hcases with h | h
  · exact (block h).2
  · exact (line h).2

/-! ### every shifted token had a shift action -/

section shift
variable {τ ν σ ε : Type} {T : LR.Tables} {S : Sem τ ν σ ε} {R : Source τ σ ε}

/-- the driver had a shift action on the terminal of the token -/
def HadShift (T : LR.Tables) (S : Sem τ ν σ ε) (t : τ) : Prop :=
  ∃ state s', actionOf T state (S.ty t) = some (.shift s')

theorem step_hadShift {c c' : Config τ ν σ} (h : ∀ t ∈ c.shifted, HadShift T S t)
    (hs : step T S R c = .inl c') : ∀ t ∈ c'.shifted, HadShift T S t := by
  unfold step at hs
  split at hs
  · simp at hs
  · rename_i state _ _
    split at hs
    · simp at hs
    · rename_i s c1 hf
      obtain ⟨_, _, hsh, hdisj⟩ := fetch_spec' hf
      unfold doShift at hs
      split at hs
      · rename_i t hl
        simp only [Sum.inl.injEq] at hs
        rw [← hs]
        intro x hx
        simp only [List.mem_cons] at hx
        rcases hx with rfl | hx
        · rcases hdisj with ⟨p, _, hp⟩ | hd
          · simp at hp
          · refine ⟨state, s, ?_⟩
            have hlt : lookTermOf T S c1 = S.ty x := by simp [lookTermOf, hl]
            rw [← hlt]; exact hd.symm
        · exact h x (hsh ▸ hx)
      · simp at hs
    · rename_i p c1 hf
      obtain ⟨_, _, hsh, _⟩ := fetch_spec' hf
      unfold doReduce at hs
      split at hs
      · simp at hs
      · split at hs
        · split at hs
          · simp at hs
          · split at hs
            · simp at hs
            · split at hs
              · simp only [Sum.inl.injEq] at hs
                rw [← hs]
                intro x hx
                exact h x (hsh ▸ hx)
              · simp at hs
        · simp at hs
    · split at hs <;> simp at hs
    · rename_i c1 hf
      obtain ⟨_, _, hsh, _⟩ := fetch_spec' hf
      unfold doError at hs
      split at hs
      · simp at hs
      · simp at hs
      · simp only [Sum.inl.injEq] at hs
        rw [← hs]
        intro x hx
        exact h x (hsh ▸ hx)

theorem reach_hadShift {c0 c : Config τ ν σ} (h0 : ∀ t ∈ c0.shifted, HadShift T S t)
    (hr : Reach T S R c0 c) : ∀ t ∈ c.shifted, HadShift T S t := by
  induction hr with
  | refl => exact h0
  | step _ hs ih => exact step_hadShift ih hs

end shift

/-! ### classification of the token types (decided over the regenerated tables) -/

def varNames : List String := ["ID", "NUMBER", "STRING", "REGEX"]
def markerNames : List String := ["LINE_TERMINATOR", "LINE_COMMENT", "BLOCK_COMMENT"]

def tyOfName (N : String) : Nat := (Grammar.termIdx N).getD Grammar.cached.numTerminals

/-- D: every type a token can have (rule names, "ID", keyword types, "AUTOSEMI") is one of the four variable-text
    terminals, or a comment / line terminator, or a terminal with a fixed spelling -/
theorem type_classes :
    (allRules ++ kwTypes ++ ["ID", "AUTOSEMI"]).all (fun N =>
      varNames.contains N || markerNames.contains N || ((termSpelling[tyOfName N]?).getD "" != "")) = true := by
  decide +kernel

/-- D: the parser has no action at all on LINE_TERMINATOR / LINE_COMMENT / BLOCK_COMMENT -/
theorem markers_no_action :
    markerNames.all (fun N => Gen.Tables.Cached.action.all (fun row => (lookupFlat row (tyOfName N)).isNone)) = true := by
  decide +kernel

/-- D: the signature classes the (untrusted) typing certificate assigns to the variable-text terminals -/
theorem var_term_sigs :
    (cert.termSigs[tyOfName "ID"]?).getD [] = wordSigs ∧
    (cert.termSigs[tyOfName "NUMBER"]?).getD [] = numSigs ∧
    (cert.termSigs[tyOfName "STRING"]?).getD [] = [TC.str] ∧
    (cert.termSigs[tyOfName "REGEX"]?).getD [] = regexSigs := by
  decide +kernel

abbrev PS := Parser.sem Grammar.cached

theorem hadShift_not_marker {t : Token} (h : HadShift Grammar.cached PS t) : t.type ∉ markerNames := by
  intro hm
  obtain ⟨state, s', ha⟩ := h
  have hall := List.all_eq_true.mp markers_no_action t.type hm
  unfold actionOf at ha
  split at ha
  · rename_i row hrow
    have hrm : row ∈ Gen.Tables.Cached.action := List.mem_of_getElem? hrow
    have := List.all_eq_true.mp hall row hrm
    have hty : PS.ty t = tyOfName t.type := rfl
    rw [hty] at ha
    cases hl : lookupFlat row (tyOfName t.type) with
    | none => rw [hl] at ha; simp at ha
    | some x => rw [hl] at this; simp at this
  · simp at ha

/-- the statement of `TokenTextsOK` for one shifted token -/
def TokTextsOK (t : Token) : Prop :=
  ((termSpelling[PS.ty t]?).getD "" = "" →
    ((cert.termSigs[PS.ty t]?).getD []).contains (sig (String.ofList t.value)) = true ∧
    endsOK (String.ofList t.value) = true) ∧
  ∀ h ∈ t.hidden,
    (h.type = "LINE_COMMENT" → sig (String.ofList h.value) = .lineComment) ∧
    (h.type = "BLOCK_COMMENT" → sig (String.ofList h.value) = .blockComment) ∧
    endsOK (String.ofList h.value) = true

theorem autosemi_spelled : (termSpelling[tyOfName "AUTOSEMI"]?).getD "" ≠ "" := by decide +kernel

theorem tokTextsOK_of {text : List Char} {idx : List Nat} {t : Token} (hg : Good text idx t)
    (hsh : HadShift Grammar.cached PS t) (hcm : ∀ c ∈ t.hidden, Comments.CommentOK text c)
    (hres : t.type = "ID" → String.ofList t.value ∉ reservedWords)
    (hk : t.type = "ID" → ∀ c, t.value.head? = some c → charKind c ≠ 2) : TokTextsOK t := by
  refine ⟨?_, fun c hc => comment_ok (hcm c hc)⟩
  intro hsp
  have hty : PS.ty t = tyOfName t.type := rfl
  rw [hty] at hsp ⊢
  cases hauto : t.auto with
  | true =>
    exfalso
    rw [(hg.2 hauto).1] at hsp
    exact autosemi_spelled hsp
  | false =>
    obtain ⟨_, _, hri⟩ := hg.1 hauto
    have hmem : t.type ∈ allRules ++ kwTypes ++ ["ID", "AUTOSEMI"] := by
      rcases LexerSpelling.ruleInfo_type_mem hri with h | h
      · simp [h]
      · simp only [List.mem_cons] at h
        rcases h with h | h
        · simp [h]
        · simp [h]
    have hcls := List.all_eq_true.mp type_classes t.type hmem
    simp only [Bool.or_eq_true, List.contains_eq_mem, decide_eq_true_eq, bne_iff_ne, ne_eq] at hcls
    obtain ⟨s1, s2, s3, s4⟩ := var_term_sigs
    rcases hcls with (hv | hm) | hs
    · simp only [varNames, List.mem_cons, List.mem_nil_iff, or_false] at hv
      rcases hv with h | h | h | h
      · rw [h, s1]; exact id_ok hri h (hres h) (hk h)
      · rw [h, s2]; exact number_ok hri h
      · rw [h, s3]
        obtain ⟨a, b⟩ := string_ok hri h
        exact ⟨by rw [a]; rfl, b⟩
      · rw [h, s4]; exact regex_ok hri h
    · exact absurd hm (hadShift_not_marker hsh)
    · exact absurd hsp hs

/-- **every shifted token of every configuration of a parse satisfies the statement of `TokenTextsOK`**, provided no
    shifted ID token is spelled like a reserved word and none starts with a character of kind 2 -/
theorem shifted_tokTextsOK {text : List Char} {wc : Bool} {c : Config Token Actions.PVal LexState}
    (hr : Reach Grammar.cached PS Parser.source (initConfig (Lexer.init text wc false)) c)
    (hres : ∀ t ∈ c.shifted, t.type = "ID" → String.ofList t.value ∉ reservedWords)
    (hk : ∀ t ∈ c.shifted, t.type = "ID" → ∀ ch, t.value.head? = some ch → charKind ch ≠ 2) :
    ∀ t ∈ c.shifted, TokTextsOK t := by
  intro t ht
  have hgood := (reach_good (init_good text wc) hr).2.1 t ht
  have hshift := reach_hadShift (T := Grammar.cached) (S := PS) (R := Parser.source)
    (c0 := initConfig (Lexer.init text wc false)) (by simp [initConfig]) hr t ht
  have hcm := (Comments.reach_cfgOK Grammar.cached PS (Comments.init_cfgOK text wc false) hr).2.2 t ht
  exact tokTextsOK_of hgood hshift hcm (hres t ht) (hk t ht)

end CalmVerif.Proofs.TokenTexts
