/-
Grammar-level lemmas that turn the closure checks of Proofs/ActionFacts (`G.nonNullOK`, `G.startsWith`)
into statements about valid derivation trees (Proofs/LRSound):
  * `solid_yield_ne`      a valid tree whose root symbol is `solid` has a non-empty yield;
  * `symStartsWith_yield` a valid tree whose root symbol passes `symStartsWith s` has a yield whose first
                          token is of a terminal spelled `s`.
Both need the start production to be isolated (`prod0OK`: the closure checks skip production 0) and every
token to be classified as a terminal or as the out-of-range index `numTerminals` (`ty t ≤ numTerminals`,
what `Model.Parser.sem` does with unknown token types).
-/
import CalmVerif.Proofs.ActionFacts
import CalmVerif.Proofs.LRSound
namespace CalmVerif.Model.LR
variable {τ : Type}

mutual
  def Tree.size : Tree τ → Nat
    | .leaf _ => 1
    | .node _ cs => 1 + sizeList cs
  def sizeList : List (Tree τ) → Nat
    | [] => 0
    | c :: cs => c.size + sizeList cs
end

/-- root nonterminal of a tree (none for a leaf) -/
def Tree.lhs? (T : Tables) : Tree τ → Option Nat
  | .leaf _ => none
  | .node p _ => (T.prods[p]?).map (·.1)

end CalmVerif.Model.LR

namespace CalmVerif.Proofs.NodePos
open CalmVerif.Model.ActionDesc CalmVerif.Model.ActionFacts CalmVerif.Model.LR

variable {τ : Type}

/-- the grammar record of the checks describes the tables the driver runs on -/
structure GT (g : G) (T : Tables) : Prop where
  prods : g.prods = T.prods
  nT : g.nT = T.numTerminals

/-- the start production `S' → …` is production 0 of nonterminal 0, which has no other production and
    occurs in no right-hand side (so derivation trees below the root never use it) -/
def prod0OK (g : G) : Bool :=
  match g.prods with
  | (l0, _) :: rest => l0 == 0 && rest.all (fun p => p.1 != 0) && g.prods.all (fun p => !p.2.contains g.nT)
  | [] => false

theorem size_mem {c : Tree τ} : ∀ {cs : List (Tree τ)}, c ∈ cs → c.size ≤ sizeList cs
  | [], h => by simp at h
  | d :: ds, h => by
    simp only [List.mem_cons] at h
    simp only [sizeList]
    rcases h with rfl | h
    · omega
    · have := size_mem h; omega

theorem validList_mem {T : Tables} {ty : τ → Nat} {c : Tree τ} : ∀ {cs : List (Tree τ)},
    validList T ty cs → c ∈ cs → c.valid T ty
  | [], _, h => by simp at h
  | d :: ds, hv, h => by
    simp only [validList] at hv
    simp only [List.mem_cons] at h
    rcases h with rfl | h
    · exact hv.1
    · exact validList_mem hv.2 h

theorem yieldList_ne_of_mem {c : Tree τ} : ∀ {cs : List (Tree τ)}, c ∈ cs → c.yield ≠ [] → yieldList cs ≠ []
  | [], h, _ => by simp at h
  | d :: ds, h, hne => by
    simp only [List.mem_cons] at h
    simp only [yieldList]
    rcases h with rfl | h
    · simp [hne]
    · have := yieldList_ne_of_mem h hne
      simp [this]

section
variable {g : G} {T : Tables} {ty : τ → Nat}

theorem sym_node {p : Nat} {cs : List (Tree τ)} {lhs : Nat} {rhs : List Nat}
    (hp : T.prods[p]? = some (lhs, rhs)) : (Tree.node p cs).sym T ty = T.numTerminals + lhs := by
  simp [Tree.sym, hp]

/-- a production other than production 0 is among those the closure checks range over -/
theorem mem_drop_one {p : Nat} {q : Nat × List Nat} (hp : g.prods[p]? = some q) (h0 : p ≠ 0) :
    q ∈ g.prods.drop 1 := by
  cases p with
  | zero => exact absurd rfl h0
  | succ p =>
    have : (g.prods.drop 1)[p]? = some q := by
      rw [List.getElem?_drop]; rwa [Nat.add_comm]
    exact List.mem_of_getElem? this

theorem prod0_lhs (h0 : prod0OK g = true) {q : Nat × List Nat} (hp : g.prods[0]? = some q) : q.1 = 0 := by
  unfold prod0OK at h0
  split at h0
  · next l0 r0 rest heq =>
    simp only [Bool.and_eq_true, beq_iff_eq] at h0
    rw [heq] at hp
    simp at hp
    rw [← hp]; exact h0.1.1
  · simp at h0

theorem prod_succ_lhs (h0 : prod0OK g = true) {p : Nat} {q : Nat × List Nat} (hp : g.prods[p + 1]? = some q) :
    q.1 ≠ 0 := by
  unfold prod0OK at h0
  split at h0
  · next l0 r0 rest heq =>
    simp only [Bool.and_eq_true, beq_iff_eq] at h0
    rw [heq] at hp
    simp only [List.getElem?_cons_succ] at hp
    have := List.all_eq_true.mp h0.1.2 q (List.mem_of_getElem? hp)
    simpa using this
  · simp at h0

theorem rhs_no_nT (h0 : prod0OK g = true) {q : Nat × List Nat} (hq : q ∈ g.prods) : g.nT ∉ q.2 := by
  unfold prod0OK at h0
  split at h0
  · simp only [Bool.and_eq_true] at h0
    have := List.all_eq_true.mp h0.2 q hq
    simpa using this
  · simp at h0

/-- a child of a valid instance of a production is a terminal leaf or an instance of a production other than 0 -/
theorem child_cases (hgt : GT g T) (h0 : prod0OK g = true) (hty : ∀ t, ty t ≤ T.numTerminals)
    {q : Nat × List Nat} (hq : q ∈ g.prods) {c : Tree τ} (hc : c.sym T ty ∈ q.2) (hv : c.valid T ty) :
    (∃ t, c = .leaf t ∧ ty t < T.numTerminals) ∨
    (∃ p cs lhs, c = .node (p + 1) cs ∧ T.prods[p + 1]? = some (lhs, symList T ty cs) ∧ lhs ≠ 0) := by
  have hn := rhs_no_nT h0 hq
  cases c with
  | leaf t =>
    left
    refine ⟨t, rfl, ?_⟩
    have h1 := hty t
    have : ty t ≠ T.numTerminals := by
      intro he
      apply hn
      rw [hgt.nT, ← he]; simpa [Tree.sym] using hc
    omega
  | node p cs =>
    right
    simp only [Tree.valid] at hv
    obtain ⟨⟨lhs, hp⟩, _⟩ := hv
    cases p with
    | zero =>
      exfalso
      have hl : lhs = 0 := by
        have := prod0_lhs h0 (q := (lhs, symList T ty cs)) (by rw [hgt.prods]; exact hp)
        simpa using this
      apply hn
      rw [sym_node hp, hl] at hc
      rw [hgt.nT]; simpa using hc
    | succ p =>
      refine ⟨p, cs, lhs, rfl, hp, ?_⟩
      have := prod_succ_lhs h0 (q := (lhs, symList T ty cs)) (by rw [hgt.prods]; exact hp)
      simpa using this

theorem symList_mem {c : Tree τ} : ∀ {cs : List (Tree τ)}, c ∈ cs → c.sym T ty ∈ symList T ty cs := by
  intro cs h
  rw [symList_eq_map]
  exact List.mem_map_of_mem h

theorem solid_yield_ne_aux (hgt : GT g T) (h0 : prod0OK g = true) (hnn : g.nonNullOK = true)
    (hty : ∀ t, ty t ≤ T.numTerminals) : ∀ (k : Nat) (tr : Tree τ), tr.size = k → tr.valid T ty →
    (∃ q ∈ g.prods, tr.sym T ty ∈ q.2) → g.solid (tr.sym T ty) = true → tr.yield ≠ [] := by
  intro k
  induction k using Nat.strongRecOn with
  | _ k ih =>
    intro tr hk hv hin hs
    obtain ⟨q, hq, hmem⟩ := hin
    rcases child_cases hgt h0 hty hq hmem hv with ⟨t, rfl, _⟩ | ⟨p, cs, lhs, rfl, hp, hl⟩
    · simp [Tree.yield]
    · -- the production has a solid symbol, whose subtree has a non-empty yield
      have hsym : (Tree.node (p + 1) cs).sym T ty = T.numTerminals + lhs := sym_node hp
      rw [hsym] at hs
      have hnull : g.nullable.contains lhs = false := by
        simp only [G.solid, G.isTerm, hgt.nT, Bool.or_eq_true, decide_eq_true_eq, Bool.not_eq_true',
          Nat.add_sub_cancel_left] at hs
        rcases hs with h | h
        · omega
        · exact h
      have hmemq : (lhs, symList T ty cs) ∈ g.prods.drop 1 :=
        mem_drop_one (by rw [hgt.prods]; exact hp) (by omega)
      have hclos := List.all_eq_true.mp hnn _ hmemq
      simp only [hnull, Bool.false_or, List.any_eq_true] at hclos
      obtain ⟨x, hx, hxs⟩ := hclos
      rw [symList_eq_map, List.mem_map] at hx
      obtain ⟨c, hc, rfl⟩ := hx
      simp only [Tree.valid] at hv
      have hcv := validList_mem hv.2 hc
      have hsz : c.size < k := by
        have := size_mem hc
        simp only [Tree.size] at hk; omega
      have hcy := ih c.size hsz c rfl hcv
        ⟨(lhs, symList T ty cs), List.mem_of_mem_drop hmemq, symList_mem hc⟩ hxs
      simp only [Tree.yield]
      exact yieldList_ne_of_mem hc hcy

/-- **non-nullable symbols have non-empty yields** -/
theorem solid_yield_ne (hgt : GT g T) (h0 : prod0OK g = true) (hnn : g.nonNullOK = true)
    (hty : ∀ t, ty t ≤ T.numTerminals) (tr : Tree τ) (hv : tr.valid T ty)
    (hin : ∃ q ∈ g.prods, tr.sym T ty ∈ q.2) (hs : g.solid (tr.sym T ty) = true) : tr.yield ≠ [] :=
  solid_yield_ne_aux hgt h0 hnn hty _ tr rfl hv hin hs

/-- the yield starts with a token of a terminal spelled `s` -/
def FirstIs (g : G) (ty : τ → Nat) (s : String) (tr : Tree τ) : Prop :=
  ∃ t rest, tr.yield = t :: rest ∧ g.termSpelling[ty t]? = some s ∧ s ≠ ""

theorem term_spelled {x : Nat} {s : String} (h : ((g.termSpelling[x]?).getD "" == s && s != "") = true) :
    g.termSpelling[x]? = some s ∧ s ≠ "" := by
  simp only [Bool.and_eq_true, beq_iff_eq, bne_iff_ne, ne_eq] at h
  refine ⟨?_, h.2⟩
  cases hx : g.termSpelling[x]? with
  | none => rw [hx] at h; simp at h
  | some w => rw [hx] at h; simp at h; rw [h.1]

theorem startsWith_sound (hgt : GT g T) (h0 : prod0OK g = true) (hty : ∀ t, ty t ≤ T.numTerminals)
    (s : String) : ∀ (fuel : Nat) (seen : List Nat) (n : Nat), g.startsWith s fuel seen n = true →
    ∀ (k : Nat) (tr : Tree τ), tr.size = k → tr.valid T ty → Tree.lhs? T tr = some n →
      (∃ q ∈ g.prods, tr.sym T ty ∈ q.2) →
      (∀ tr' : Tree τ, tr'.size < tr.size → tr'.valid T ty → (∃ q ∈ g.prods, tr'.sym T ty ∈ q.2) →
        (∃ m ∈ seen, Tree.lhs? T tr' = some m) → FirstIs g ty s tr') →
      FirstIs g ty s tr := by
  intro fuel
  induction fuel with
  | zero => intro seen n h; simp [G.startsWith] at h
  | succ fuel ihf =>
    intro seen n hsw k
    induction k using Nat.strongRecOn with
    | _ k ihk =>
      intro tr hk hv hl hin hseen
      obtain ⟨q, hq, hmem⟩ := hin
      rcases child_cases hgt h0 hty hq hmem hv with ⟨t, rfl, _⟩ | ⟨p, cs, lhs, rfl, hp, hl0⟩
      · simp [Tree.lhs?] at hl
      · simp only [Tree.lhs?, hp, Option.map_some, Option.some.injEq] at hl
        subst hl
        have hmemq : (lhs, symList T ty cs) ∈ g.prods.drop 1 :=
          mem_drop_one (by rw [hgt.prods]; exact hp) (by omega)
        simp only [G.startsWith, Bool.and_eq_true] at hsw
        have hall := List.all_eq_true.mp hsw.2 (lhs, symList T ty cs)
          (List.mem_filter.mpr ⟨hmemq, by simp⟩)
        -- the right-hand side is not empty; look at its first symbol
        cases cs with
        | nil => simp [symList] at hall
        | cons c cs' =>
          simp only [symList] at hall
          simp only [Tree.valid, validList] at hv
          have hcv := hv.2.1
          have hcin : ∃ q ∈ g.prods, c.sym T ty ∈ q.2 :=
            ⟨(lhs, symList T ty (c :: cs')), List.mem_of_mem_drop hmemq, by simp [symList]⟩
          have hcsize : c.size < (Tree.node (p + 1) (c :: cs')).size := by
            simp only [Tree.size, sizeList]; omega
          have lift : FirstIs g ty s c → FirstIs g ty s (Tree.node (p + 1) (c :: cs')) := by
            rintro ⟨t, rest, hy, hsp⟩
            exact ⟨t, rest ++ yieldList cs', by simp [Tree.yield, yieldList, hy], hsp⟩
          obtain ⟨q', hq', hmem'⟩ := hcin
          rcases child_cases hgt h0 hty hq' hmem' hcv with ⟨t, rfl, htlt⟩ | ⟨p', cs2, m, rfl, hp', hm0⟩
          · -- a terminal
            have hterm : g.isTerm (ty t) = true := by simp [G.isTerm, hgt.nT, htlt]
            simp only [Tree.sym, hterm, if_true] at hall
            exact ⟨t, yieldList cs', by simp [Tree.yield, yieldList], term_spelled hall⟩
          · -- a nonterminal `m`
            have hsymc : (Tree.node (p' + 1) cs2).sym T ty = T.numTerminals + m := sym_node hp'
            have hnt : g.isTerm (T.numTerminals + m) = false := by simp [G.isTerm, hgt.nT]
            rw [hsymc] at hall
            simp only [hnt, hgt.nT, Nat.add_sub_cancel_left, Bool.false_eq_true, if_false] at hall
            have hlc : Tree.lhs? T (Tree.node (p' + 1) cs2) = some m := by simp [Tree.lhs?, hp']
            have hseen' : ∀ tr' : Tree τ, tr'.size < (Tree.node (p' + 1) cs2).size → tr'.valid T ty →
                (∃ q ∈ g.prods, tr'.sym T ty ∈ q.2) →
                (∃ m' ∈ seen, Tree.lhs? T tr' = some m') → FirstIs g ty s tr' :=
              fun tr' hsz hv' hin' hm' => hseen tr' (by omega) hv' hin' hm'
            apply lift
            split at hall
            · next hcond =>
              simp only [Bool.or_eq_true, beq_iff_eq, List.contains_iff_mem] at hcond
              rcases hcond with rfl | hms
              · -- left recursion: the subtree is a smaller instance of the same nonterminal
                exact ihk _ (by omega) _ rfl hcv hlc ⟨q', hq', hmem'⟩ hseen'
              · exact hseen _ hcsize hcv ⟨q', hq', hmem'⟩ ⟨m, hms, hlc⟩
            · refine ihf (lhs :: seen) m hall _ _ rfl hcv hlc ⟨q', hq', hmem'⟩ ?_
              intro tr' hsz hv' hin' ⟨m', hm', hl'⟩
              simp only [List.mem_cons] at hm'
              rcases hm' with rfl | hm'
              · exact ihk _ (by omega) tr' rfl hv' hl' hin'
                  (fun tr'' hsz' hv'' hin'' hm'' => hseen tr'' (by omega) hv'' hin'' hm'')
              · exact hseen tr' (by omega) hv' hin' ⟨m', hm', hl'⟩

/-- **symbols that pass `symStartsWith s` start with a token of a terminal spelled `s`** -/
theorem symStartsWith_yield (hgt : GT g T) (h0 : prod0OK g = true) (hty : ∀ t, ty t ≤ T.numTerminals)
    {s : String} (tr : Tree τ) (hv : tr.valid T ty) (hin : ∃ q ∈ g.prods, tr.sym T ty ∈ q.2)
    (hs : g.symStartsWith s (tr.sym T ty) = true) : FirstIs g ty s tr := by
  obtain ⟨q, hq, hmem⟩ := hin
  rcases child_cases hgt h0 hty hq hmem hv with ⟨t, rfl, htlt⟩ | ⟨p, cs, lhs, rfl, hp, hl0⟩
  · have hterm : g.isTerm (ty t) = true := by simp [G.isTerm, hgt.nT, htlt]
    simp only [G.symStartsWith, Tree.sym, hterm, if_true] at hs
    exact ⟨t, [], by simp [Tree.yield], term_spelled hs⟩
  · have hsym : (Tree.node (p + 1) cs).sym T ty = T.numTerminals + lhs := sym_node hp
    have hnt : g.isTerm (T.numTerminals + lhs) = false := by simp [G.isTerm, hgt.nT]
    rw [hsym] at hs
    simp only [G.symStartsWith, hnt, hgt.nT, Nat.add_sub_cancel_left, Bool.false_eq_true, if_false] at hs
    refine startsWith_sound hgt h0 hty s 6 [] lhs hs _ _ rfl hv (by simp [Tree.lhs?, hp]) ⟨q, hq, hmem⟩ ?_
    intro tr' _ _ _ ⟨m, hm, _⟩
    simp at hm

end

end CalmVerif.Proofs.NodePos
