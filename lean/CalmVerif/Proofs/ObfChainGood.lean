/-
`ChainGood` for every scope record of the tree `finalize` produces from a prewalk state: all the proved invariants
(`remap_injective_visible`, table facts, leak invariant, declared ⊆ referenced) bundled per scope.
-/
import CalmVerif.Proofs.ObfDeclRefs
import CalmVerif.Proofs.ObfWords
namespace CalmVerif.Obf
open CalmVerif CalmVerif.Unparse

mutual
  theorem recs_tables : ∀ (chain : List Anc) (t : STree) (r : RTree), ∀ rec ∈ recsOf chain t r,
      ∀ a ∈ rec.chain, a ∈ chain ∨ a.remapped ∈ r.tables
    | chain, .mk id node kind refs decl children, .mk _ _ _ _ _ rm rcs => by
      intro rec hrec a ha
      simp only [recsOf, List.mem_cons] at hrec
      rcases hrec with rfl | hrec
      · simp only [List.mem_cons] at ha
        rcases ha with rfl | ha
        · exact Or.inr (by simp [RTree.tables])
        · exact Or.inl ha
      · rcases recsList_tables _ children rcs rec hrec a ha with h | h
        · simp only [List.mem_cons] at h
          rcases h with rfl | h
          · exact Or.inr (by simp [RTree.tables])
          · exact Or.inl h
        · exact Or.inr (by simp [RTree.tables, h])
  theorem recsList_tables : ∀ (chain : List Anc) (ts : List STree) (rs : List RTree), ∀ rec ∈ recsOfList chain ts rs,
      ∀ a ∈ rec.chain, a ∈ chain ∨ a.remapped ∈ tablesList rs
    | _, [], _ => by intro rec hrec; simp [recsOfList] at hrec
    | _, _ :: _, [] => by intro rec hrec; simp [recsOfList] at hrec
    | chain, c :: cs, r :: rs => by
      intro rec hrec a ha
      simp only [recsOfList, List.mem_append] at hrec
      rcases hrec with hrec | hrec
      · rcases recs_tables chain c r rec hrec a ha with h | h
        · exact Or.inl h
        · exact Or.inr (by simp [tablesList, h])
      · rcases recsList_tables chain cs rs rec hrec a ha with h | h
        · exact Or.inl h
        · exact Or.inr (by simp [tablesList, h])
end

/-- every scope record of the finished tree is good -/
theorem finalize_chainGood (sf : Bool) (tree : Val) (fl : Flags) (st : St) (fin : Final)
    (hcs : Gen.ObfData.charset.Nodup ∧ Gen.ObfData.charset ≠ [])
    (hpre : prewalk tablesGen sf tree = .ok st) (hfin : finalize Gen.ObfData.charset fl st = .ok fin)
    (hna : noArgsValue fin = true) :
    ∃ g, st.stack = [g] ∧ ∀ rec ∈ recsOf [] (closeFrame g) fin.tree, ChainGood rec.chain := by
  have hinv := prewalk_stackInv tablesGen sf tree st hpre
  have hdr := prewalk_stackDR tablesGen sf tree st hpre
  obtain ⟨g, hg, hinj⟩ := finalize_injTree hcs.1 hcs.2 fl st fin hinv hfin (noArgsValue_allNew fin hna)
  refine ⟨g, hg, ?_⟩
  have hbt : buildTree Gen.ObfData.charset fl.reserved [] fl.obfuscateGlobals (closeFrame g) = .ok fin.tree := by
    unfold finalize at hfin
    rw [hg] at hfin
    simp only at hfin
    split at hfin
    · cases hfin
    · rename_i rt hrt
      simp only [Except.ok.injEq] at hfin
      subst hfin
      exact hrt
  intro rec hrec
  have hok := injTree_recs [] _ _ hinj rec hrec
  have htf := buildTree_tableFacts hcs.1 hcs.2 fl.reserved [] fl.obfuscateGlobals _ _ hbt rec hrec
  have hdrt : TreeDR (closeFrame g) := by
    rw [hg] at hdr
    simp only [StackDR, FrameDR] at hdr
    simp only [closeFrame, TreeDR]
    exact hdr.1
  have hdrr := treeDR_recs [] _ _ hdrt rec hrec
  have hna' : ChainNoArgs rec.chain := by
    intro a ha p hp
    rcases recs_tables [] _ _ rec hrec a ha with h | h
    · cases h
    · simp only [noArgsValue, List.all_eq_true] at hna
      simpa using hna _ h p hp
  -- the leak invariant: for every record below the root
  have hleak : rec.chain.tail ≠ [] → LeakHead rec.chain := by
    intro htail
    rw [hg] at hinv
    simp only [StackInv] at hinv
    have hl := hinv.1
    -- split the records of the root
    cases hfr : fin.tree with
    | mk rid rnode rkind rrefs rldecl rrm rcs =>
      rw [hfr] at hrec
      simp only [closeFrame, recsOf, List.mem_cons] at hrec
      rcases hrec with rfl | hrec
      · simp at htail
      · refine leakList_recs _ g.children rcs ?_ rec hrec
        cases hk : g.kind with
        | func => simpa [effKeys, effRefs, hk] using hl
        | «catch» sym u =>
          simp only [effKeys, hk] at hl
          simp only [effRefs]
          refine leakOKList_mono ?_ _ hl
          intro x hx
          exact mem_ckeys_cupdate.2 (Or.inl (by simpa [ckeys, effKeys] using hx))
  refine ⟨hok, htf.1, ?_, htf.2.1, hleak, ?_, hna'⟩
  · intro htail
    apply htf.2.2
    left
    intro hlen
    cases hc : rec.chain with
    | nil => rw [hc] at htail; simp at htail
    | cons a r =>
      rw [hc] at htail hlen
      cases r with
      | nil => simp at htail
      | cons b r' => simp at hlen
  · intro A hA x hx
    cases hc : rec.chain with
    | nil => rw [hc] at hA; simp at hA
    | cons a r =>
      rw [hc] at hA hdrr
      simp only [List.head?_cons, Option.mem_def, Option.some.injEq] at hA
      subst hA
      exact hdrr x hx

end CalmVerif.Obf
