/-
Every configuration the LR driver reaches with the parser's token source has a `Reachable` lexer state, and every
token it holds (shifted, look-ahead) is `Good` w.r.t. the current line table.
-/
import CalmVerif.Proofs.ParserDrive
import CalmVerif.Proofs.NodePosGhost

namespace CalmVerif.Proofs.ParserDrive
open CalmVerif.Model.Lexer CalmVerif.Model CalmVerif.Model.LR
open CalmVerif.Proofs.LexerDrive

variable {ν : Type} {T : Tables} {S : Sem Token ν LexState Parser.PErr}

/-- the lexer state of the configuration is reachable and all tokens held are good w.r.t. its line table -/
def GoodCfg (text : List Char) (c : Config Token ν LexState) : Prop :=
  Reachable text c.src ∧ (∀ t ∈ c.shifted, Good text c.src.newlineIdx t) ∧
  (∀ t, c.look = some (some t) → Good text c.src.newlineIdx t)

theorem fetch_good {text : List Char} {c c1 : Config Token ν LexState} {state : Nat} {a : Option Act}
    (hg : GoodCfg text c) (hf : fetch T S Parser.source c state = .ok (a, c1)) :
    GoodCfg text c1 ∧ c1.shifted = c.shifted ∧ c.src.newlineIdx <+: c1.src.newlineIdx := by
  unfold fetch at hf
  split at hf
  · simp only [Except.ok.injEq, Prod.mk.injEq] at hf
    rw [← hf.2]; exact ⟨hg, rfl, List.prefix_refl _⟩
  · split at hf
    · simp only [Except.ok.injEq, Prod.mk.injEq] at hf
      rw [← hf.2]; exact ⟨hg, rfl, List.prefix_refl _⟩
    · split at hf
      · simp at hf
      · rename_i t s' hn
        simp only [Except.ok.injEq, Prod.mk.injEq] at hf
        rw [← hf.2]
        obtain ⟨h1, h2, h3⟩ := next_drive hg.1 hn
        refine ⟨⟨h1, fun x hx => (hg.2.1 x hx).mono h2, ?_⟩, rfl, h2⟩
        intro x hx
        simp only [Option.some.injEq] at hx
        exact h3 x hx

theorem step_good {text : List Char} {c c' : Config Token ν LexState} (hg : GoodCfg text c)
    (hs : step T S Parser.source c = .inl c') :
    GoodCfg text c' ∧ c.src.newlineIdx <+: c'.src.newlineIdx ∧ (∀ t ∈ c.shifted, t ∈ c'.shifted) := by
  unfold step at hs
  split at hs
  · simp at hs
  · rename_i state _ _
    split at hs
    · simp at hs
    · -- shift
      rename_i s c1 hf
      obtain ⟨hg1, hsh, hpre⟩ := fetch_good hg hf
      unfold doShift at hs
      split at hs
      · rename_i t hl
        simp only [Sum.inl.injEq] at hs
        rw [← hs]
        refine ⟨⟨hg1.1, ?_, by simp⟩, hpre, fun x hx => by simp [hsh, hx]⟩
        intro x hx
        simp only [List.mem_cons] at hx
        rcases hx with rfl | hx
        · exact hg1.2.2 _ hl
        · exact hg1.2.1 x hx
      · simp at hs
    · -- reduce
      rename_i p c1 hf
      obtain ⟨hg1, hsh, hpre⟩ := fetch_good hg hf
      unfold doReduce at hs
      split at hs
      · simp at hs
      · split at hs
        · split at hs
          · simp at hs
          · split at hs
            · simp at hs
            · split at hs
              · simp only [Sum.inl.injEq] at hs
                rw [← hs]
                exact ⟨hg1, hpre, fun x hx => by simp [hsh, hx]⟩
              · simp at hs
        · simp at hs
    · split at hs <;> simp at hs
    · -- error: p_error
      rename_i c1 hf
      obtain ⟨hg1, hsh, hpre⟩ := fetch_good hg hf
      unfold doError at hs
      split at hs
      · simp at hs
      · simp at hs
      · rename_i t s' he
        simp only [Sum.inl.injEq] at hs
        rw [← hs]
        have htok : ∀ x, lookTok c1 = some x → Good text c1.src.newlineIdx x := by
          intro x hx
          unfold lookTok at hx
          split at hx
          · rename_i t0 hl
            simp at hx; subst hx
            exact hg1.2.2 _ hl
          · simp at hx
        have he' : Parser.pError c1.src (lookTok c1) = .ok (some t, s') := he
        obtain ⟨h1, h2, h3⟩ := pError_drive hg1.1 (lookTok c1) htok he'
        refine ⟨⟨h1, fun x hx => (hg1.2.1 x hx).mono h2, ?_⟩, hpre.trans h2, fun x hx => by simp [hsh, hx]⟩
        intro x hx
        simp only [Option.some.injEq] at hx
        subst hx
        exact h3 _ rfl

theorem init_good (text : List Char) (wc : Bool) :
    GoodCfg (ν := ν) text (initConfig (init text wc false)) :=
  ⟨init_reachable text wc false, by simp [initConfig], by simp [initConfig]⟩

theorem reach_good {text : List Char} {c0 c : Config Token ν LexState} (h0 : GoodCfg text c0)
    (hr : Reach T S Parser.source c0 c) : GoodCfg text c := by
  induction hr with
  | refl => exact h0
  | step _ hs ih => exact (step_good ih hs).1

/-- along the run the line table only grows at its end and the log of shifted tokens only grows -/
theorem reach_prefix {text : List Char} {c0 c : Config Token ν LexState} (h0 : GoodCfg text c0)
    (hr : Reach T S Parser.source c0 c) :
    c0.src.newlineIdx <+: c.src.newlineIdx ∧ ∀ t ∈ c0.shifted, t ∈ c.shifted := by
  induction hr with
  | refl => exact ⟨List.prefix_refl _, fun _ h => h⟩
  | step hr' hs ih =>
    obtain ⟨_, h2, h3⟩ := step_good (reach_good h0 hr') hs
    exact ⟨ih.1.trans h2, fun t ht => h3 t (ih.2 t ht)⟩

/-- at a call of a semantic action: the lexer state handed to the action is reachable and every shifted token is
    good w.r.t. its line table -/
theorem reduceCall_good {text : List Char} {c : Config Token ν LexState} (hg : GoodCfg text c)
    {p : Nat} {args : List ν} {st : LexState} (hc : reduceCall T S Parser.source c = some (p, args, st)) :
    Reachable text st ∧ ∀ t ∈ c.shifted, Good text st.newlineIdx t := by
  unfold reduceCall at hc
  split at hc
  · simp at hc
  · split at hc
    · rename_i p' c1 hf
      obtain ⟨hg1, hsh, _⟩ := fetch_good hg hf
      split at hc
      · split at hc
        · simp only [Option.some.injEq, Prod.mk.injEq] at hc
          rw [← hc.2.2, ← hsh]
          exact ⟨hg1.1, hg1.2.1⟩
        · simp at hc
      · simp at hc
    · simp at hc

end CalmVerif.Proofs.ParserDrive
