/-
Shape typing of semantic values for "the semantic actions never fail internally" (C12).

`Sh` is the finite abstraction of a semantic value that the action descriptors can observe:
  none / str / node k / list / elisions (a non-empty list of nodes that carry an integer `value` attribute —
  what `elision : elision COMMA` mutates).
`conc req sh v` is the concretisation: which values have shape `sh` (`req`: per node kind, attribute names every
node of that kind carries — what `.attrOf` reads; every node's token map, if present, holds well-formed positions —
what `raiseAt` reads).
`Cert` is an UNTRUSTED certificate: `req` and, per nonterminal, the set of shapes its values can have.
`closedOK` is the kernel-decidable closure check: for every production and every row of its action (under the row's
conditions on the argument kinds), evaluation of the row's descriptor is *safe* on all argument shapes (`safeD`: every
slot index is in range, every `.attrOf` reads a required attribute of a node, every `.spread` reads a list, every
`.spreadMod` an elision list, token-map texts are strings, …) and the shape of the result is in the certificate of
the left-hand side.  Soundness is Proofs/ActionsTotal.lean.
-/
import CalmVerif.Model.Actions
import CalmVerif.Model.LR
namespace CalmVerif.Proofs.ActionsTotal
open CalmVerif CalmVerif.Model.Actions CalmVerif.Model.ActionDesc

inductive Sh where
  | none | str | list | elisions
  | node (k : String)
  deriving DecidableEq, Repr, Inhabited

def Sh.kind : Sh → Kind
  | .none => .none
  | .str => .str
  | .list => .list
  | .elisions => .list
  | .node k => .node k

structure Cert where
  req : List (String × List String)
  shapes : List (List Sh)

def reqOf (req : List (String × List String)) (k : String) : List String :=
  ((req.find? (·.1 == k)).map (·.2)).getD []

/-- the attribute names the node constructor itself appends -/
def reserved : List String := ["@pos", "@tokmap", "@comments"]

/-! ### concretisation -/

def hasIntValue (as : List (String × Val)) : Prop :=
  ∃ nm n, as.find? (·.1 == "value") = some (nm, .int n)

/-- what `raiseAt` needs of a position: `[_, int, int]` -/
def IsPosVal (p : Val) : Prop := ∃ a l c, p = .list [a, .int l, .int c]

def TokmapWF (tmv : Val) : Prop :=
  ∀ entries, tmv = .list entries → ∀ e ∈ entries, ∀ s p ps, e = .list [.str s, .list (p :: ps)] → IsPosVal p

def NodeOK (req : List (String × List String)) (k : String) (as : List (String × Val)) : Prop :=
  (∀ name ∈ reqOf req k, (as.find? (·.1 == name)).isSome = true) ∧
  (∀ nm tmv, as.find? (·.1 == "@tokmap") = some (nm, tmv) → TokmapWF tmv)

def conc (req : List (String × List String)) : Sh → Val → Prop
  | .none, v => v = .none
  | .str, v => ∃ s, v = .str s
  | .list, v => ∃ xs, v = .list xs
  | .elisions, v => ∃ xs, v = .list xs ∧ xs ≠ [] ∧ ∀ x ∈ xs, ∃ k as, x = .node k as ∧ hasIntValue as
  | .node k, v => ∃ as, v = .node k as ∧ NodeOK req k as

/-! ### the abstract check -/

def slotSh (S : List (List Sh)) (j : Nat) : Option (List Sh) := if j = 0 then none else S[j - 1]?

/-- the slot indices a position descriptor reads are in range (`k` = number of right-hand-side symbols) -/
def posSafe (k : Nat) : PosD → Bool
  | .unset => true
  | .at j _ => decide (j ≤ k)
  | .slots a b c d _ => decide (a ≤ k) && decide (b ≤ k) && decide (c ≤ k) && decide (d ≤ k)
  | .ofNode j => decide (1 ≤ j) && decide (j ≤ k)
  | .ofNodeTok j => decide (1 ≤ j) && decide (j ≤ k)

/-- the position descriptor yields a `[int, int, int]` triple (not the unset triple, not a copied attribute) -/
def posIsVal : PosD → Bool
  | .at _ _ => true
  | .slots _ _ _ _ _ => true
  | _ => false

def isListSh : Sh → Bool
  | .list => true
  | .elisions => true
  | _ => false

def firstValueIsInt (attrs : List (String × D)) : Bool :=
  match attrs.find? (·.1 == "value") with
  | some (_, .int _) => true
  | _ => false

def srcSafe (S : List (List Sh)) (attrs : List (String × D)) : TextSrc → Bool
  | .slotText j => (match slotSh S j with
      | some shs => shs.all (· == Sh.str)
      | none => false)
  | .const _ => true
  | .commas => firstValueIsInt attrs

mutual
  def safeD (req : List (String × List String)) (S : List (List Sh)) (k : Nat) : D → Bool
    | .slot j => (slotSh S j).isSome
    | .none => true
    | .str _ => true
    | .int _ => true
    | .attrOf j name => (match slotSh S j with
        | some shs => shs.all fun sh => match sh with
          | .node kd => (reqOf req kd).contains name
          | _ => false
        | none => false)
    | .raiseAt _ j => (slotSh S j).isSome
    | .list items => safeItems req S k items
    | .node kind attrs pos ts tm tmo =>
      safeAttrs req S k attrs && attrs.all (fun a => !reserved.contains a.1) &&
      (reqOf req kind).all (fun n => attrs.any (·.1 == n)) &&
      posSafe k pos && ts.all (fun j => (slotSh S j).isSome) &&
      tm.all (fun e => posSafe k e.2 && posIsVal e.2 && srcSafe S attrs e.1) &&
      (match tmo with
        | some j => (slotSh S j).isSome
        | none => true)
  def safeAttrs (req : List (String × List String)) (S : List (List Sh)) (k : Nat) : List (String × D) → Bool
    | [] => true
    | (_, d) :: rest => safeD req S k d && safeAttrs req S k rest
  def safeItems (req : List (String × List String)) (S : List (List Sh)) (k : Nat) : List Item → Bool
    | [] => true
    | .item d :: rest => safeD req S k d && safeItems req S k rest
    | .spread j :: rest => (match slotSh S j with
        | some shs => shs.all isListSh
        | none => false) && safeItems req S k rest
    | .spreadMod j _ ft :: rest => (match slotSh S j with
        | some shs => shs.all (· == Sh.elisions)
        | none => false) &&
      (match ft with
        | some pd => posSafe k pd
        | none => true) && safeItems req S k rest
end

/-- does the list descriptor build an elision list -/
def itemsAreElisions (S : List (List Sh)) : List Item → Bool
  | [.spreadMod j _ _] => (match slotSh S j with
      | some shs => shs.all (· == Sh.elisions)
      | none => false)
  | [.item (.node _ attrs _ _ _ _)] => firstValueIsInt attrs
  | _ => false

/-- shapes of the result of a row (`none`: a shape the typing does not cover) -/
def resSh (S : List (List Sh)) : D → Option (List Sh)
  | .slot j => slotSh S j
  | .none => some [Sh.none]
  | .str _ => some [Sh.str]
  | .int _ => Option.none
  | .attrOf _ _ => Option.none
  | .raiseAt _ _ => some []
  | .list items => some [if itemsAreElisions S items then Sh.elisions else Sh.list]
  | .node k _ _ _ _ _ => some [Sh.node k]

def symShapes (cert : Cert) (nT : Nat) (x : Nat) : List Sh :=
  if x < nT then [Sh.str] else (cert.shapes[x - nT]?).getD []

/-- shapes of slot `i` compatible with the conditions of a row -/
def filterSlot (conds : List (Nat × List Kind)) (i : Nat) (shs : List Sh) : List Sh :=
  shs.filter fun sh => conds.all fun c => c.1 != i || c.2.contains sh.kind

def slotSets (cert : Cert) (nT : Nat) (conds : List (Nat × List Kind)) : Nat → List Nat → List (List Sh)
  | _, [] => []
  | i, x :: rest => filterSlot conds i (symShapes cert nT x) :: slotSets cert nT conds (i + 1) rest

def rowOK (cert : Cert) (nT : Nat) (lhsShapes : List Sh) (rhs : List Nat) (conds : List (Nat × List Kind))
    (d : D) : Bool :=
  let S := slotSets cert nT conds 1 rhs
  S.any (·.isEmpty) ||
  (safeD cert.req S rhs.length d &&
    match resSh S d with
    | some shs => shs.all lhsShapes.contains
    | none => false)

def entryOK (cert : Cert) (nT : Nat) (lhsShapes : List Sh) (rhs : List Nat) (e : Entry) : Bool :=
  rowOK cert nT lhsShapes rhs [] e.result &&
  e.exceptions.all fun row => rowOK cert nT lhsShapes rhs row.1 row.2

def closedFrom (cert : Cert) (nT : Nat) : List (Nat × List Nat) → List Entry → Bool
  | [], [] => true
  | (lhs, rhs) :: ps, e :: es =>
    entryOK cert nT ((cert.shapes[lhs]?).getD []) rhs e && closedFrom cert nT ps es
  | _, _ => false

/-- **the closure check** -/
def closedOK (cert : Cert) (T : Model.LR.Tables) (actions : List Entry) : Bool :=
  closedFrom cert T.numTerminals T.prods actions

end CalmVerif.Proofs.ActionsTotal
