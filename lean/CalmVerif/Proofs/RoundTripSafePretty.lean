import CalmVerif.Proofs.RoundTripSafe
import CalmVerif.Proofs.RoundTripCertPretty
namespace CalmVerif.TokenAdj

set_option maxRecDepth 1000000 in
theorem direct_safe_pretty_forced :
    withCert Gen.Rules.rs_indent Gen.Defs.definitions 4
      (fun c => directOK (allNeedsF (mkCtx Gen.Rules.rs_indent c) Gen.Defs.definitions)) = true := by decide +kernel

/-- D: every two token signatures that can be printed with nothing between them under this rule set are
boundary-safe, except KF-01 (and the two artefacts of the abstraction) -/
theorem direct_safe_pretty : directOK followPretty = true := by
  have h := direct_safe_pretty_forced
  rw [withCert_eq, allNeedsF_eq] at h
  exact h

end CalmVerif.TokenAdj
