import CalmVerif.Proofs.RoundTripSafe
import CalmVerif.Proofs.RoundTripCertPretty
namespace CalmVerif.TokenAdj
set_option maxRecDepth 1000000 in
/-- D: every two token signatures that can be printed with nothing between them by the pretty printer are
boundary-safe, except KF-01 (and the two artefacts of the abstraction) -/
theorem direct_safe_pretty : directOK followPretty = true := by decide +kernel
end CalmVerif.TokenAdj
