/-
Soundness of the abstract analysis of Model/TokenAdj.lean, part 1: values read from a tree that respects the slot
typing (`wfVal`) are described by the abstract result of the attribute source (`ValIn`).
-/
import CalmVerif.Proofs.RoundTripLang
import CalmVerif.Proofs.RoundTripMain
namespace CalmVerif.TokenAdj
open CalmVerif CalmVerif.Unparse

variable {σ : Type}

/-! ### well-formed trees -/

theorem wfList_mem {cx : Ctx} : ∀ {xs : List Val}, wfList cx xs = true → ∀ v ∈ xs, wfVal cx v = true := by
  intro xs
  induction xs with
  | nil => intro _ v hv; simp at hv
  | cons x xs ih =>
    intro h v hv
    simp only [wfList, Bool.and_eq_true] at h
    rcases List.mem_cons.mp hv with rfl | hv
    · exact h.1
    · exact ih h.2 v hv

theorem wfAttrs_lookup {cx : Ctx} {k : String} : ∀ {as : List (String × Val)} {a : String} {v : Val},
    wfAttrs cx k as = true → printedAttr a = true → lookupAttr as a = some v →
    slotOK (cx.slot k (slotKey a)) v = true ∧ wfVal cx v = true := by
  intro as
  induction as with
  | nil => intro a v _ _ h; simp [lookupAttr] at h
  | cons x rest ih =>
    intro a v h ha hl
    obtain ⟨b, w⟩ := x
    simp only [wfAttrs, Bool.and_eq_true, Bool.or_eq_true, Bool.not_eq_true'] at h
    simp only [lookupAttr] at hl
    split at hl
    · rename_i hb
      have : b = a := by simpa using hb
      subst this
      cases hl
      rcases h.1 with h1 | h1
      · rw [h1] at ha; cases ha
      · exact h1
    · exact ih h.2 ha hl

/-! ### certificates -/

/-- `a` is below `b` (as sets of symbol strings) -/
structure AbsLe (a b : Abs) : Prop where
  n : a.n = true → b.n = true
  f : ∀ x ∈ a.f, x ∈ b.f
  l : ∀ x ∈ a.l, x ∈ b.l

theorem AbsLe.refl (a : Abs) : AbsLe a a := ⟨id, fun _ h => h, fun _ h => h⟩
theorem AbsLe.trans {a b c : Abs} (h1 : AbsLe a b) (h2 : AbsLe b c) : AbsLe a c :=
  ⟨fun h => h2.n (h1.n h), fun x h => h2.f x (h1.f x h), fun x h => h2.l x (h1.l x h)⟩
theorem AbsLe.opt (a : Abs) : AbsLe a a.opt := ⟨fun _ => rfl, fun _ h => h, fun _ h => h⟩
theorem inLang_le {F : Follow} {a b : Abs} {l : List Sym} (h : InLang F a l) (hle : AbsLe a b) : InLang F b l :=
  inLang_weaken h hle.n hle.f hle.l

theorem ann_le {hd : HData} {F : Follow} {a b : Abs} {cs : List Chunk} (h : Ann hd F a cs) (hle : AbsLe a b) : Ann hd F b cs :=
  ann_weaken h hle.n hle.f hle.l

theorem kindsRes_mem (cx : Ctx) : ∀ (ks : List String), (kindsRes cx ks).bad = false → ∀ k ∈ ks,
    ∃ a, certOf cx k = some a ∧ AbsLe a (kindsRes cx ks).abs := by
  intro ks
  induction ks with
  | nil => intro _ k hk; simp at hk
  | cons k0 ks ih =>
    intro hb k hk
    simp only [kindsRes] at hb ⊢
    cases hc : certOf cx k0 with
    | none => rw [hc] at hb; simp [Res.fail] at hb
    | some a0 =>
      rw [hc] at hb
      simp only at hb ⊢
      rcases List.mem_cons.mp hk with rfl | hk
      · exact ⟨a0, hc, ⟨fun h => by simp [Abs.alt, h], fun x h => (SymSet.mem_append _ _ _).mpr (Or.inl h),
          fun x h => (SymSet.mem_append _ _ _).mpr (Or.inl h)⟩⟩
      · obtain ⟨a, h1, h2⟩ := ih hb k hk
        exact ⟨a, h1, ⟨fun h => by simp [Abs.alt, h2.n h], fun x h => (SymSet.mem_append _ _ _).mpr (Or.inr (h2.f x h)),
          fun x h => (SymSet.mem_append _ _ _).mpr (Or.inr (h2.l x h))⟩⟩

/-- what a value read from a well-formed node can be, relative to an abstract summary -/
inductive ValIn (cx : Ctx) (A : Abs) : Val → Prop where
  | none : A.n = true → ValIn cx A .none
  | tok (t : String) : Sym.t (sig t) ∈ A.f → Sym.t (sig t) ∈ A.l → ValIn cx A (.str t)
  | node (k : String) (as : List (String × Val)) (a' : Abs) : wfVal cx (.node k as) = true →
      certOf cx k = some a' → AbsLe a' A → ValIn cx A (.node k as)

theorem ValIn.le {cx : Ctx} {A B : Abs} {v : Val} (h : ValIn cx A v) (hle : AbsLe A B) : ValIn cx B v := by
  cases h with
  | none hn => exact .none (hle.n hn)
  | tok t h1 h2 => exact .tok t (hle.f _ h1) (hle.l _ h2)
  | node k as a' hw hc h => exact .node k as a' hw hc (h.trans hle)

theorem kindIn_node {ks : List String} {v : Val} (h : kindIn ks v = true) : ∃ k as, v = .node k as ∧ k ∈ ks := by
  cases v with
  | node k as => exact ⟨k, as, rfl, by simpa [kindIn] using h⟩
  | none => simp [kindIn] at h
  | bool b => simp [kindIn] at h
  | int i => simp [kindIn] at h
  | str s => simp [kindIn] at h
  | list xs => simp [kindIn] at h

theorem slotVal (cx : Ctx) (ty : SlotTy) (v : Val) (hs : slotOK ty v = true) (hw : wfVal cx v = true)
    (hb : (slotRes cx ty).bad = false) : ValIn cx (slotRes cx ty).abs v := by
  cases ty with
  | tok cs =>
    cases v with
    | str s =>
      simp only [slotOK] at hs
      have hm : sig s ∈ cs := by simpa using hs
      have : Sym.t (sig s) ∈ cs.map Sym.t := List.mem_map.mpr ⟨_, hm, rfl⟩
      exact .tok s ((SymSet.mem_ofList _ _).mpr this) ((SymSet.mem_ofList _ _).mpr this)
    | none => simp [slotOK] at hs
    | bool b => simp [slotOK] at hs
    | int i => simp [slotOK] at hs
    | list xs => simp [slotOK] at hs
    | node k as => simp [slotOK] at hs
  | node ks opt =>
    simp only [slotRes] at hb ⊢
    simp only [slotOK, Bool.or_eq_true, Bool.and_eq_true] at hs
    rcases hs with hs | ⟨ho, hn⟩
    · obtain ⟨k, as, rfl, hk⟩ := kindIn_node hs
      obtain ⟨a', h1, h2⟩ := kindsRes_mem cx ks hb k hk
      refine .node k as a' hw h1 ?_
      cases opt with
      | true => exact h2.trans (AbsLe.opt _)
      | false => exact h2
    · cases v with
      | none => subst ho; exact .none rfl
      | bool b => simp at hn
      | int i => simp at hn
      | str s => simp at hn
      | list xs => simp at hn
      | node k as => simp at hn
  | nodes ks => simp [slotRes, Res.fail] at hb
  | int1 => simp [slotRes, Res.fail] at hb
  | any => simp [slotRes, Res.fail] at hb

/-- the configurations the typed analysis speaks about -/
structure TypedCfg (cfg : Cfg σ) (cx : Ctx) : Prop where
  hooks : NoHooks cfg
  tok : cfg.tokenHandler = some .strDefault
  tbl : cx.tbl = cfg.layout
  hdr : cx.hdr = cfg.hd.headerKinds
  lc : cfg.lineComment = Option.none ∨ cfg.lineComment = some .comment
  bc : cfg.blockComment = Option.none ∨ cfg.blockComment = some .comment
  ek : cx.elisionKinds = cfg.hd.elisionKinds
  /-- the surrogate separator node of ElisionJoinAttr is a well-formed node of kind `cx.esep` -/
  esep : ∃ as, cfg.elisionSep = .node cx.esep as ∧ wfVal cx (.node cx.esep as) = true
  /-- the Literal handler keeps the class `str` -/
  lit : cfg.literal = Option.none ∨ (cfg.literal = some .literalContinuation ∧
    ∀ s : String, sig s = .str → sig (String.ofList (dropLineCont cfg.hd s.toList)) = .str)

section
variable {cfg : Cfg σ} {cx : Ctx} (hc : TypedCfg cfg cx)
include hc

omit hc in
theorem printed_of_not_meta {a : String} (h : ¬ Val.isMeta a = true) : printedAttr a = true := by
  simp [printedAttr, h]

/-- `getattr(node, a)` on a well-formed node -/
theorem getattr_typed (k : String) (as : List (String × Val)) (hw : wfVal cx (.node k as) = true) (a : String) (v : Val)
    (h : getattrVal (.node k as) a = .ok v) (hb : (srcRes cx k (.name a)).bad = false) :
    ValIn cx (srcRes cx k (.name a)).abs v ∧ wfVal cx v = true := by
  simp only [wfVal] at hw
  unfold getattrVal at h
  simp only [srcRes] at hb ⊢
  by_cases h1 : (a == "comments") = true
  · rw [if_pos h1] at h hb ⊢
    have ha : a = "comments" := by simpa using h1
    subst ha
    simp only [nodeAttr] at h
    cases hl : lookupAttr as "@comments" with
    | none => rw [hl] at h; simp at h; subst h; exact ⟨.none rfl, rfl⟩
    | some w =>
      rw [hl] at h
      simp only [Except.ok.injEq] at h
      subst h
      obtain ⟨h2, h3⟩ := wfAttrs_lookup hw (by decide) hl
      have : slotKey "@comments" = "comments" := by decide
      rw [this] at h2
      exact ⟨(slotVal cx _ _ h2 h3 hb).le (AbsLe.opt _), h3⟩
  · rw [if_neg h1] at h hb ⊢
    by_cases h2 : Val.isMeta a = true
    · rw [if_pos h2] at h; cases h
    · rw [if_neg h2] at h
      simp only [nodeAttr] at h
      cases hl : lookupAttr as a with
      | none => rw [hl] at h; cases h
      | some w =>
        rw [hl] at h
        simp only [Except.ok.injEq] at h
        subst h
        obtain ⟨h3, h4⟩ := wfAttrs_lookup hw (printed_of_not_meta h2) hl
        have hk : slotKey a = a := by
          simp only [slotKey]
          split
          · rename_i hh
            have : a = "@comments" := by simpa using hh
            subst this
            exact absurd (by decide) h2
          · rfl
        rw [hk] at h3
        exact ⟨slotVal cx _ _ h3 h4 hb, h4⟩

end
end CalmVerif.TokenAdj
