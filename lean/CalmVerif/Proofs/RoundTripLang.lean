/-
Symbol strings described by an abstract summary (`Abs`: nullable, first set, last set) over a follow relation `F`:
`InLang F a l`, closed under concatenation (`Abs.seq`, given the cross pairs are in `F`), union, iteration.
-/
import CalmVerif.Model.TokenAdj
namespace CalmVerif.TokenAdj
open CalmVerif CalmVerif.Unparse

/-! ### bit sets of symbols -/

theorem SymSet.mem_iff (s : SymSet) (x : Sym) : x ∈ s ↔ s.bits.testBit x = true := Iff.rfl

theorem SymSet.not_mem_empty (x : Sym) : ¬ x ∈ SymSet.empty := by
  simp [SymSet.mem_iff, SymSet.empty]

theorem SymSet.mem_single (x y : Sym) : x ∈ SymSet.single y ↔ x = y := by
  simp only [SymSet.mem_iff, SymSet.single, Nat.one_shiftLeft, Nat.testBit_two_pow, decide_eq_true_eq]
  exact eq_comm

theorem SymSet.mem_append (a b : SymSet) (x : Sym) : x ∈ a ++ b ↔ x ∈ a ∨ x ∈ b := by
  show (SymSet.union a b).bits.testBit x = true ↔ _
  simp only [SymSet.union, Nat.testBit_or, Bool.or_eq_true, SymSet.mem_iff]

theorem SymSet.mem_ofList (x : Sym) : ∀ l : List Sym, x ∈ SymSet.ofList l ↔ x ∈ l
  | [] => by simp [SymSet.ofList, SymSet.not_mem_empty]
  | y :: ys => by
    simp only [SymSet.ofList, SymSet.mem_append, SymSet.mem_single, SymSet.mem_ofList x ys, List.mem_cons]

theorem SymSet.mem_of_subset {a b : SymSet} (h : a.subset b = true) {x : Sym} (hx : x ∈ a) : x ∈ b := by
  simp only [SymSet.subset, beq_iff_eq] at h
  rw [SymSet.mem_iff] at hx ⊢
  rw [← h, Nat.testBit_or, hx]; rfl

/-- the follow relation: a list of rectangles -/
abbrev Follow := List Rect

/-- `x` may be directly followed by `y` -/
def InF (F : Follow) (x y : Sym) : Prop := ∃ r ∈ F, x ∈ r.1 ∧ y ∈ r.2

/-- every two consecutive symbols are in `F` -/
def PairsIn (F : Follow) : List Sym → Prop
  | [] => True
  | [_] => True
  | a :: b :: t => InF F a b ∧ PairsIn F (b :: t)

structure InLang (F : Follow) (a : Abs) (l : List Sym) : Prop where
  nul : l = [] → a.n = true
  fst : ∀ x, l.head? = some x → x ∈ a.f
  lst : ∀ x, l.getLast? = some x → x ∈ a.l
  prs : PairsIn F l

theorem pairsIn_append (F : Follow) : ∀ (l1 l2 : List Sym), PairsIn F l1 → PairsIn F l2 →
    (∀ a b, l1.getLast? = some a → l2.head? = some b → InF F a b) → PairsIn F (l1 ++ l2) := by
  intro l1
  induction l1 with
  | nil => intro l2 _ h2 _; simpa using h2
  | cons x xs ih =>
    intro l2 h1 h2 hc
    cases xs with
    | nil =>
      cases l2 with
      | nil => simpa using h1
      | cons y ys =>
        show PairsIn F (x :: y :: ys)
        exact ⟨hc x y (by simp) (by simp), h2⟩
    | cons z zs =>
      show PairsIn F (x :: (z :: zs ++ l2))
      have h1' : InF F x z ∧ PairsIn F (z :: zs) := h1
      refine ⟨h1'.1, ?_⟩
      apply ih l2 h1'.2 h2
      intro a b ha hb
      exact hc a b (by simpa [List.getLast?_cons_cons] using ha) hb

theorem inF_cross {F : Follow} {a b : Abs} (hc : ∀ p ∈ cross a b, p ∈ F) {x y : Sym} (hx : x ∈ a.l) (hy : y ∈ b.f) :
    InF F x y := ⟨(a.l, b.f), hc _ (by simp [cross]), hx, hy⟩

theorem inLang_nil (F : Follow) {a : Abs} (h : a.n = true) : InLang F a [] :=
  ⟨fun _ => h, fun x hx => by simp at hx, fun x hx => by simp at hx, trivial⟩

theorem inLang_singleOf (F : Follow) {ss : List Sym} {s : Sym} (h : s ∈ ss) : InLang F (Abs.ofSyms ss) [s] :=
  ⟨fun h => by simp at h,
   fun x hx => by simp at hx; subst hx; exact (SymSet.mem_ofList _ _).mpr h,
   fun x hx => by simp at hx; subst hx; exact (SymSet.mem_ofList _ _).mpr h, trivial⟩

theorem inLang_single (F : Follow) (s : Sym) : InLang F (Abs.ofSyms [s]) [s] := inLang_singleOf F (by simp)

theorem mem_seq_f {a b : Abs} {x : Sym} : x ∈ (a.seq b).f ↔ x ∈ a.f ∨ (a.n = true ∧ x ∈ b.f) := by
  simp only [Abs.seq, SymSet.mem_append]
  cases a.n <;> simp [SymSet.not_mem_empty]

theorem mem_seq_l {a b : Abs} {x : Sym} : x ∈ (a.seq b).l ↔ x ∈ b.l ∨ (b.n = true ∧ x ∈ a.l) := by
  simp only [Abs.seq, SymSet.mem_append]
  cases b.n <;> simp [SymSet.not_mem_empty]

theorem inLang_append' {F : Follow} {a b : Abs} {l1 l2 : List Sym} (h1 : InLang F a l1) (h2 : InLang F b l2)
    (hc : ∀ x ∈ a.l, ∀ y ∈ b.f, InF F x y) : InLang F (a.seq b) (l1 ++ l2) := by
  refine ⟨?_, ?_, ?_, ?_⟩
  · intro h
    have := List.append_eq_nil_iff.mp h
    simp [Abs.seq, h1.nul this.1, h2.nul this.2]
  · intro x hx
    rw [mem_seq_f]
    cases l1 with
    | nil =>
      simp only [List.nil_append] at hx
      exact Or.inr ⟨h1.nul rfl, h2.fst x hx⟩
    | cons y ys =>
      simp only [List.cons_append, List.head?_cons, Option.some.injEq] at hx
      exact Or.inl (h1.fst x (by simp [hx]))
  · intro x hx
    rw [mem_seq_l]
    cases l2 with
    | nil =>
      simp only [List.append_nil] at hx
      exact Or.inr ⟨h2.nul rfl, h1.lst x hx⟩
    | cons y ys =>
      have : (l1 ++ y :: ys).getLast? = (y :: ys).getLast? := by
        rw [List.getLast?_append]
        cases hq : (y :: ys).getLast? with
        | none => simp at hq
        | some z => rfl
      rw [this] at hx
      exact Or.inl (h2.lst x hx)
  · apply pairsIn_append F l1 l2 h1.prs h2.prs
    intro x y hx hy
    exact hc x (h1.lst x hx) y (h2.fst y hy)

theorem inLang_append {F : Follow} {a b : Abs} {l1 l2 : List Sym} (h1 : InLang F a l1) (h2 : InLang F b l2)
    (hc : ∀ p ∈ cross a b, p ∈ F) : InLang F (a.seq b) (l1 ++ l2) :=
  inLang_append' h1 h2 (fun _ hx _ hy => inF_cross hc hx hy)

theorem mem_of_subList {α : Type} [BEq α] [LawfulBEq α] {a b : List α} (h : subList a b = true) {x : α} (hx : x ∈ a) :
    x ∈ b := by
  simp only [subList, List.all_eq_true] at h
  have := h x hx
  simpa using this

theorem inLang_mono {F : Follow} {a b : Abs} {l : List Sym} (h : InLang F a l) (hle : a.le b = true) : InLang F b l := by
  simp only [Abs.le, Bool.and_eq_true, Bool.or_eq_true, Bool.not_eq_true'] at hle
  obtain ⟨⟨hn, hf⟩, hl⟩ := hle
  refine ⟨?_, fun x hx => SymSet.mem_of_subset hf (h.fst x hx), fun x hx => SymSet.mem_of_subset hl (h.lst x hx), h.prs⟩
  intro he
  rcases hn with hn | hn
  · rw [h.nul he] at hn; cases hn
  · exact hn

/-- weakening by explicit inclusions -/
theorem inLang_weaken {F : Follow} {a b : Abs} {l : List Sym} (h : InLang F a l) (hn : a.n = true → b.n = true)
    (hf : ∀ x ∈ a.f, x ∈ b.f) (hl : ∀ x ∈ a.l, x ∈ b.l) : InLang F b l :=
  ⟨fun he => hn (h.nul he), fun x hx => hf x (h.fst x hx), fun x hx => hl x (h.lst x hx), h.prs⟩

theorem inLang_opt {F : Follow} {a : Abs} {l : List Sym} (h : InLang F a l) : InLang F a.opt l :=
  inLang_weaken h (fun _ => rfl) (fun _ hx => hx) (fun _ hx => hx)

theorem inLang_altL {F : Follow} {a b : Abs} {l : List Sym} (h : InLang F a l) : InLang F (a.alt b) l :=
  inLang_weaken h (fun hn => by simp [Abs.alt, hn]) (fun _ hx => (SymSet.mem_append _ _ _).mpr (Or.inl hx))
    (fun _ hx => (SymSet.mem_append _ _ _).mpr (Or.inl hx))

theorem inLang_altR {F : Follow} {a b : Abs} {l : List Sym} (h : InLang F b l) : InLang F (a.alt b) l :=
  inLang_weaken h (fun hn => by simp [Abs.alt, hn]) (fun _ hx => (SymSet.mem_append _ _ _).mpr (Or.inr hx))
    (fun _ hx => (SymSet.mem_append _ _ _).mpr (Or.inr hx))

/-- iteration: a concatenation of strings of `p` is a string of `⟨true, p.f, p.l⟩` -/
theorem inLang_star {F : Follow} {p : Abs} (hc : ∀ q ∈ cross p p, q ∈ F) :
    ∀ (ls : List (List Sym)), (∀ l ∈ ls, InLang F p l) → InLang F ⟨true, p.f, p.l⟩ ls.flatten := by
  intro ls
  induction ls with
  | nil => intro _; exact inLang_nil F rfl
  | cons l ls ih =>
    intro h
    have h1 := h l (by simp)
    have h2 := ih (fun l' hl' => h l' (by simp [hl']))
    have hcr : ∀ q ∈ cross p ⟨true, p.f, p.l⟩, q ∈ F := hc
    have := inLang_append h1 h2 hcr
    simp only [List.flatten_cons]
    refine inLang_weaken this (fun _ => rfl) ?_ ?_
    · intro x hx
      rcases mem_seq_f.mp hx with hx | ⟨_, hx⟩ <;> exact hx
    · intro x hx
      rcases mem_seq_l.mp hx with hx | ⟨_, hx⟩ <;> exact hx

/-! ### annotated strings: the symbols of a chunk stream with the OCCURRENCE of every layout chunk -/

theorem tcCode_lt (c : TC) : tcCode c < 256 := by
  cases c <;> simp only [tcCode] <;> first | omega | (split <;> omega)

theorem symT_lt (c : TC) : Sym.t c < 512 := by
  have := tcCode_lt c
  show 2 * tcCode c < 512
  omega

theorem symM_lt (mk : Marker) (hdr : Bool) : Sym.m mk hdr < 64 ∧ Sym.m mk hdr % 2 = 1 := by
  cases mk <;> cases hdr <;> decide

theorem erase_t (c : TC) : eraseSym (Sym.t c) = Sym.t c := by
  simp [eraseSym, symT_lt c]

theorem erase_mo (occ : Nat) (mk : Marker) (hdr : Bool) : eraseSym (Sym.mo occ mk hdr) = Sym.m mk hdr := by
  obtain ⟨h, hodd⟩ := symM_lt mk hdr
  have key : ∀ s : Nat, s < 64 → s % 2 = 1 →
      (if 512 + 64 * occ + s < 512 then 512 + 64 * occ + s else 2 * (((512 + 64 * occ + s - 512) % 64) / 2) + 1) = s := by
    intro s h1 h2
    have h3 : ¬ (512 + 64 * occ + s < 512) := by omega
    rw [if_neg h3]
    have : (512 + 64 * occ + s - 512) % 64 = s := by omega
    rw [this]; omega
  exact key (Sym.m mk hdr) h hodd

/-- a symbol that erases to a token symbol IS that token symbol -/
theorem erase_eq_t {x : Sym} {c : TC} (h : eraseSym x = Sym.t c) : x = Sym.t c := by
  have key : ∀ (x t : Nat), (if x < 512 then x else 2 * (((x - 512) % 64) / 2) + 1) = 2 * t → x = 2 * t := by
    intro x t h
    split at h
    · exact h
    · omega
  exact key x (tcCode c) h

/-- `cs` has an annotation (a symbol string that erases to `syms cs`) in the language of `a` -/
def Ann (hd : HData) (F : Follow) (a : Abs) (cs : List Chunk) : Prop :=
  ∃ l : List Sym, l.map eraseSym = syms hd cs ∧ InLang F a l

theorem ann_nil (hd : HData) (F : Follow) {a : Abs} (h : a.n = true) : Ann hd F a [] :=
  ⟨[], rfl, inLang_nil F h⟩

theorem ann_sym (hd : HData) (F : Follow) {a : Abs} {cs : List Chunk} (x : Sym) (he : syms hd cs = [eraseSym x])
    (hf : x ∈ a.f) (hl : x ∈ a.l) : Ann hd F a cs :=
  ⟨[x], by simp [he], ⟨fun h => by simp at h, fun y hy => by simp at hy; subst hy; exact hf,
    fun y hy => by simp at hy; subst hy; exact hl, trivial⟩⟩

theorem ann_append' {hd : HData} {F : Follow} {a b : Abs} {c1 c2 : List Chunk} (h1 : Ann hd F a c1) (h2 : Ann hd F b c2)
    (hc : ∀ x ∈ a.l, ∀ y ∈ b.f, InF F x y) : Ann hd F (a.seq b) (c1 ++ c2) := by
  obtain ⟨l1, e1, g1⟩ := h1
  obtain ⟨l2, e2, g2⟩ := h2
  exact ⟨l1 ++ l2, by simp [syms, List.map_append] at e1 e2 ⊢; rw [e1, e2], inLang_append' g1 g2 hc⟩

theorem ann_append {hd : HData} {F : Follow} {a b : Abs} {c1 c2 : List Chunk} (h1 : Ann hd F a c1) (h2 : Ann hd F b c2)
    (hc : ∀ p ∈ cross a b, p ∈ F) : Ann hd F (a.seq b) (c1 ++ c2) :=
  ann_append' h1 h2 (fun _ hx _ hy => inF_cross hc hx hy)

theorem ann_weaken {hd : HData} {F : Follow} {a b : Abs} {cs : List Chunk} (h : Ann hd F a cs) (hn : a.n = true → b.n = true)
    (hf : ∀ x ∈ a.f, x ∈ b.f) (hl : ∀ x ∈ a.l, x ∈ b.l) : Ann hd F b cs := by
  obtain ⟨l, e, g⟩ := h
  exact ⟨l, e, inLang_weaken g hn hf hl⟩

theorem ann_opt {hd : HData} {F : Follow} {a : Abs} {cs : List Chunk} (h : Ann hd F a cs) : Ann hd F a.opt cs :=
  ann_weaken h (fun _ => rfl) (fun _ hx => hx) (fun _ hx => hx)

theorem ann_mono {hd : HData} {F : Follow} {a b : Abs} {cs : List Chunk} (h : Ann hd F a cs) (hle : a.le b = true) :
    Ann hd F b cs := by
  obtain ⟨l, e, g⟩ := h
  exact ⟨l, e, inLang_mono g hle⟩

end CalmVerif.TokenAdj
