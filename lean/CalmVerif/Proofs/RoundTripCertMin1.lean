/-
The first / last certificates of the `rs_minify1` rule set, computed by fixpoint iteration over the regenerated Gen.Defs,
and the kernel decision that they are closed (D obligation: breaks when a definition or the rule set changes).
-/
import CalmVerif.Proofs.RoundTripCert
namespace CalmVerif.TokenAdj
open CalmVerif CalmVerif.Unparse

def certMin1 : List (String × Abs) := certIter Gen.Rules.rs_minify1 Gen.Defs.definitions 4
def cxMin1 : Ctx := mkCtx Gen.Rules.rs_minify1 Gen.Defs.definitions certMin1
/-- the follow relation: every pair of symbols (token signatures, layout markers) that can be adjacent in a chunk stream -/
def followMin1 : List Rect := allNeeds cxMin1 Gen.Defs.definitions

set_option maxRecDepth 1000000 in
theorem certMin1_closed_forced :
    withCtx Gen.Rules.rs_minify1 Gen.Defs.definitions 4 (fun cx => closedCert cx Gen.Defs.definitions) = true := by decide +kernel

theorem certMin1_closed : closedCert cxMin1 Gen.Defs.definitions = true := by
  have h := certMin1_closed_forced
  rw [withCtx_eq] at h
  exact h

theorem followMin1_closed : closed cxMin1 followMin1 Gen.Defs.definitions = true :=
  closed_of_cert cxMin1 Gen.Defs.definitions certMin1_closed

end CalmVerif.TokenAdj
