/-
Boundary safety of two token signatures that are printed with nothing between them (`directSafe`), by the rules of
longest-match lexing (ES5 7: identifier / number / punctuator / regular-expression-flag extension, comment starts),
and the table-level check over the follow relations of the three rule sets (`directOK`, evaluated on bit sets;
`directOK_spec` says what it means).
-/
import CalmVerif.Proofs.RoundTripCert
namespace CalmVerif.TokenAdj
open CalmVerif CalmVerif.Unparse

def rangeTo : Nat → List Nat
  | 0 => []
  | n + 1 => n :: rangeTo n

/-- the exact text of a `lit` signature ("" for the classes) -/
def tcText : TC → String
  | .lit i => litText i
  | _ => ""

def headIs (p : Char → Bool) : List Char → Bool
  | c :: _ => p c
  | [] => false

/-- the first character of the token is an identifier-part character (letter, digit, `$`, `_`, …) -/
def startsId : TC → Bool
  | .lit i => headIs isIdAny (litText i).toList
  | .word _ _ => true
  | .decInt => true
  | .numDot => true
  | .num false _ => true
  | _ => false

/-- the first character of the token is a decimal digit -/
def startsDigit : TC → Bool
  | .lit i => headIs isDigit (litText i).toList
  | .decInt => true
  | .numDot => true
  | .num false _ => true
  | _ => false

/-- what a punctuator could be extended with: the first characters of the next token -/
def firstText : TC → List Char
  | .lit i => (litText i).toList
  | .regex _ => ['/']
  | .lineComment => ['/', '/']
  | .blockComment => ['/', '*']
  | .num true _ => ['.']
  | .commas => [',']
  | _ => []

/-- the punctuators and comment openers that properly extend `p` -/
def extsOf (p : List Char) : List String → List (List Char)
  | [] => []
  | r :: rs =>
    if decide (p.length < r.length) && p.isPrefixOf r.toList then r.toList :: extsOf p rs else extsOf p rs

def anyPrefixOf (pq : List Char) : List (List Char) → Bool
  | [] => false
  | r :: rs => r.isPrefixOf pq || anyPrefixOf pq rs

/-- `p` directly followed by text starting with `q` reads as a longer punctuator or as a comment start -/
def extendsPunct (p q : List Char) : Bool := anyPrefixOf (p ++ q) (extsOf p (punctuators ++ ["//", "/*"]))

/-- D: the ASCII fast path of the identifier tables agrees with Gen.LexData below 128 (and `$`, letters, digits, `_`
are all there is), so `isIdStart` / `isIdPart` are the lexer's character classes -/
theorem ascii_tables_agree :
    ((rangeTo 128).all fun n => inRanges n idStartAscii == inRanges n Gen.LexData.idStart &&
      inRanges n idPartAscii == inRanges n Gen.LexData.idPart) = true := by decide +kernel

def endsWithSpace (s : List Char) : Bool := s.getLast? == some ' '

/-- token `a` directly followed by token `b` (nothing printed between them) still lexes as `a` then `b`
(given the goal symbol of `b` at a `/`) -/
def directSafe (a b : TC) : Bool :=
  match a with
  | .lineComment => false
  | .other => false
  | .str => true
  | .blockComment => true
  | .empty => true
  | .commas => true
  | .word _ _ => !startsId b
  | .regex _ => !startsId b
  | .decInt => !startsId b && !headIs (· == '.') (firstText b)
  | .numDot => !startsId b
  | .num _ _ => !startsId b
  | .lit i =>
    let s := (litText i).toList
    if endsWithSpace s then true
    else if headIs isIdAny s then !startsId b
    else !extendsPunct s (firstText b) && !(s == ['.'] && startsDigit b)

/-- KF-01: a decimal integer literal directly before the `.` of a member access -/
def kf01Pair (a b : TC) : Bool := a == .decInt && b == mkLit "."

/-- artefacts of the abstraction (pairs it cannot exclude although they never occur):
`function` directly before its name (the `RequiredSpace` sits in an `Optional` on the same attribute as the name),
and anything after a line comment in rule sets that have no comment handlers (comments are then never printed;
where they are printed, the definitions put a `Newline` marker after them) -/
def artefactPair (a b : TC) : Bool :=
  (a == mkLit "function" && (match b with | .word _ _ => true | _ => false)) || a == .lineComment

def okPair (a b : TC) : Bool := directSafe a b || kf01Pair a b || artefactPair a b

/-! ### the check on bit sets -/

def rangeFrom : Nat → Nat → List Nat
  | _, 0 => []
  | i, n + 1 => i :: rangeFrom (i + 1) n

/-- the codes of all token signatures (`tcCode`): the classes 1 … 22 and the table spellings 32 … -/
def tokCodes : List Nat := rangeFrom 1 10 ++ rangeFrom 13 18 ++ rangeFrom 32 litTable.length

/-- rows grouped: (bit set of the token symbols `2·a` with this row, the row) -/
def addRow (a row : Nat) : List (Nat × Nat) → List (Nat × Nat)
  | [] => [(1 <<< (2 * a), row)]
  | (m, r) :: rest => if r == row then (m ||| 1 <<< (2 * a), r) :: rest else (m, r) :: addRow a row rest

/-- bit set (over symbols `2·b`) of the token codes `b` for which `ok a b` fails -/
def badRow (ok : TC → TC → Bool) (a : TC) : List Nat → Nat
  | [] => 0
  | b :: bs => (if ok a (tcOfCode b) then 0 else 1 <<< (2 * b)) ||| badRow ok a bs

def groupRows (ok : TC → TC → Bool) : List Nat → List (Nat × Nat)
  | [] => []
  | a :: as => addRow a (badRow ok (tcOfCode a) tokCodes) (groupRows ok as)

/-- the symbols in `filter` that directly follow some symbol of `src` -/
def stepMask (src filter : Nat) : List Rect → Nat
  | [] => 0
  | r :: rs => (if r.1.bits &&& src == 0 then 0 else r.2.bits &&& filter) ||| stepMask src filter rs

def tokMask : List Nat → Nat
  | [] => 0
  | a :: as => 1 <<< (2 * a) ||| tokMask as

/-- for every group of left tokens: no token of the group's bad row directly follows -/
def directGroupsOK (F : List Rect) (toks : Nat) : List (Nat × Nat) → Bool
  | [] => true
  | (m, row) :: rest => (stepMask m toks F &&& row == 0) && directGroupsOK F toks rest

/-- every two token signatures that are adjacent in `F` are boundary-safe, a known finding or an artefact -/
def directOK (F : List Rect) : Bool := directGroupsOK F (tokMask tokCodes) (groupRows okPair tokCodes)

/-! ### what the bit-set checks mean -/

theorem stepMask_spec (src filter : Nat) (x y : Sym) (hx : src.testBit x = true) (hy : filter.testBit y = true) :
    ∀ (F : List Rect), InF F x y → (stepMask src filter F).testBit y = true := by
  intro F
  induction F with
  | nil => intro ⟨r, hr, _⟩; simp at hr
  | cons r rs ih =>
    intro ⟨q, hq, hqx, hqy⟩
    simp only [stepMask, Nat.testBit_or, Bool.or_eq_true]
    rcases List.mem_cons.mp hq with rfl | hq
    · left
      have hne : ¬ (q.1.bits &&& src == 0) = true := by
        intro h0
        have h1 : (q.1.bits &&& src).testBit x = true := by
          rw [Nat.testBit_and]
          have : q.1.bits.testBit x = true := hqx
          rw [this, hx]; rfl
        rw [beq_iff_eq] at h0
        rw [h0] at h1
        simp at h1
      rw [if_neg hne, Nat.testBit_and]
      have : q.2.bits.testBit y = true := hqy
      rw [this, hy]; rfl
    · exact Or.inr (ih ⟨q, hq, hqx, hqy⟩)

theorem tokMask_spec (b : Nat) : ∀ (l : List Nat), b ∈ l → (tokMask l).testBit (2 * b) = true := by
  intro l
  induction l with
  | nil => intro h; simp at h
  | cons c cs ih =>
    intro hb
    simp only [tokMask, Nat.testBit_or, Bool.or_eq_true]
    rcases List.mem_cons.mp hb with rfl | hb
    · left; simp [Nat.one_shiftLeft]
    · exact Or.inr (ih hb)

theorem badRow_spec (ok : TC → TC → Bool) (a : TC) (b : Nat) : ∀ (l : List Nat), b ∈ l → ok a (tcOfCode b) = false →
    (badRow ok a l).testBit (2 * b) = true := by
  intro l
  induction l with
  | nil => intro h; simp at h
  | cons c cs ih =>
    intro hb hok
    simp only [badRow, Nat.testBit_or, Bool.or_eq_true]
    rcases List.mem_cons.mp hb with rfl | hb
    · left
      rw [hok]
      simp [Nat.one_shiftLeft]
    · exact Or.inr (ih hb hok)

theorem addRow_new (a row : Nat) : ∀ (g : List (Nat × Nat)), ∃ m, (m, row) ∈ addRow a row g ∧ m.testBit (2 * a) = true := by
  intro g
  induction g with
  | nil => exact ⟨1 <<< (2 * a), by simp [addRow], by simp [Nat.one_shiftLeft]⟩
  | cons e rest ih =>
    obtain ⟨m0, r0⟩ := e
    simp only [addRow]
    split
    · rename_i hr
      have : r0 = row := by simpa using hr
      subst this
      exact ⟨m0 ||| 1 <<< (2 * a), by simp, by simp [Nat.testBit_or, Nat.one_shiftLeft]⟩
    · obtain ⟨m, h1, h2⟩ := ih
      exact ⟨m, List.mem_cons_of_mem _ h1, h2⟩

theorem addRow_old (a row : Nat) (m0 r0 : Nat) (x : Nat) : ∀ (g : List (Nat × Nat)), (m0, r0) ∈ g → m0.testBit x = true →
    ∃ m, (m, r0) ∈ addRow a row g ∧ m.testBit x = true := by
  intro g
  induction g with
  | nil => intro h; simp at h
  | cons e rest ih =>
    intro h hx
    obtain ⟨m1, r1⟩ := e
    simp only [addRow]
    rcases List.mem_cons.mp h with heq | h
    · simp only [Prod.mk.injEq] at heq
      obtain ⟨rfl, rfl⟩ := heq
      split
      · exact ⟨m0 ||| 1 <<< (2 * a), by simp, by simp [Nat.testBit_or, hx]⟩
      · exact ⟨m0, by simp, hx⟩
    · split
      · exact ⟨m0, List.mem_cons_of_mem _ h, hx⟩
      · obtain ⟨m, h1, h2⟩ := ih h hx
        exact ⟨m, List.mem_cons_of_mem _ h1, h2⟩

theorem groupRows_spec (ok : TC → TC → Bool) (a : Nat) : ∀ (l : List Nat), a ∈ l →
    ∃ m, (m, badRow ok (tcOfCode a) tokCodes) ∈ groupRows ok l ∧ m.testBit (2 * a) = true := by
  intro l
  induction l with
  | nil => intro h; simp at h
  | cons c cs ih =>
    intro ha
    simp only [groupRows]
    rcases List.mem_cons.mp ha with rfl | ha
    · exact addRow_new _ _ _
    · obtain ⟨m, h1, h2⟩ := ih ha
      exact addRow_old _ _ _ _ _ _ h1 h2

theorem directGroupsOK_spec (F : List Rect) (toks : Nat) : ∀ (g : List (Nat × Nat)), directGroupsOK F toks g = true →
    ∀ m row, (m, row) ∈ g → stepMask m toks F &&& row = 0 := by
  intro g
  induction g with
  | nil => intro _ m row h; simp at h
  | cons e rest ih =>
    intro h m row hm
    obtain ⟨m0, r0⟩ := e
    simp only [directGroupsOK, Bool.and_eq_true, beq_iff_eq] at h
    rcases List.mem_cons.mp hm with heq | hm
    · simp only [Prod.mk.injEq] at heq
      obtain ⟨rfl, rfl⟩ := heq
      exact h.1
    · exact ih h.2 m row hm

/-- `directOK F`: for all token codes `a`, `b` (`tokCodes`: every signature class and every table spelling), if the
symbol of `a` may be directly followed by the symbol of `b` in `F`, then the pair is boundary-safe (`directSafe`), the
known finding KF-01 (`kf01Pair`) or an artefact of the abstraction (`artefactPair`) -/
theorem directOK_spec (F : List Rect) (h : directOK F = true) (a b : Nat) (ha : a ∈ tokCodes) (hb : b ∈ tokCodes)
    (hf : InF F (2 * a) (2 * b)) : okPair (tcOfCode a) (tcOfCode b) = true := by
  cases hok : okPair (tcOfCode a) (tcOfCode b) with
  | true => rfl
  | false =>
    exfalso
    obtain ⟨m, hm, hma⟩ := groupRows_spec okPair a tokCodes ha
    have hz := directGroupsOK_spec F _ _ h m _ hm
    have s2 := stepMask_spec m (tokMask tokCodes) (2 * a) (2 * b) hma (tokMask_spec b tokCodes hb) F hf
    have s3 := badRow_spec okPair (tcOfCode a) b tokCodes hb hok
    have : (stepMask m (tokMask tokCodes) F &&& badRow okPair (tcOfCode a) tokCodes).testBit (2 * b) = true := by
      rw [Nat.testBit_and, s2, s3]; rfl
    rw [hz] at this
    simp at this

end CalmVerif.TokenAdj
