/-
Boundary safety of two token signatures that are printed with nothing between them (`directSafe`), by the rules of
longest-match lexing (ES5 7: identifier / number / punctuator / regular-expression-flag extension, comment starts),
and the table-level check over the follow relations of the three rule sets.
-/
import CalmVerif.Proofs.RoundTripCert
namespace CalmVerif.TokenAdj
open CalmVerif CalmVerif.Unparse

/-- the first character of the token is an identifier-part character (letter, digit, `$`, `_`, …) -/
def startsId : TC → Bool
  | .lit s => match s.toList with
    | c :: _ => isIdPart c
    | [] => false
  | .word _ _ => true
  | .decInt => true
  | .numDot => true
  | .num false => true
  | _ => false

/-- the first character of the token is a decimal digit -/
def startsDigit : TC → Bool
  | .lit s => match s.toList with
    | c :: _ => isDigit c
    | [] => false
  | .decInt => true
  | .numDot => true
  | .num false => true
  | _ => false

/-- what a punctuator could be extended with: the first characters of the next token -/
def firstText : TC → String
  | .lit q => q
  | .regex _ => "/"
  | .lineComment => "//"
  | .blockComment => "/*"
  | .num true => "."
  | .commas => ","
  | _ => ""

/-- `p` directly followed by text starting with `q` reads as a longer punctuator or as a comment start -/
def extendsPunct (p q : String) : Bool :=
  (punctuators ++ ["//", "/*"]).any fun r =>
    decide (p.length < r.length) && p.toList.isPrefixOf r.toList && r.toList.isPrefixOf (p.toList ++ q.toList)

def endsWithSpace (s : String) : Bool := s.toList.getLast? == some ' '

/-- token `a` directly followed by token `b` (nothing printed between them) still lexes as `a` then `b`
(given the goal symbol of `b` at a `/`) -/
def directSafe (a b : TC) : Bool :=
  match a with
  | .lineComment => false
  | .other => false
  | .str => true
  | .blockComment => true
  | .empty => true
  | .commas => true
  | .word _ _ => !startsId b
  | .regex _ => !startsId b
  | .decInt => !startsId b && !(firstText b).toList.isPrefixOf ['.'] || (firstText b == "") && !startsId b
  | .numDot => !startsId b
  | .num _ => !startsId b
  | .lit s =>
    if endsWithSpace s then true
    else if startsId (.lit s) then !startsId b
    else !extendsPunct s (firstText b) && !(s == "." && startsDigit b)

def tokPairs (F : List (Sym × Sym)) : List (TC × TC) :=
  F.filterMap fun p => match p with
    | (.t a, .t b) => some (a, b)
    | _ => none

/-- KF-01: a decimal integer literal directly before the `.` of a member access -/
def kf01Pair (a b : TC) : Bool := a == .decInt && b == .lit "."

/-- artefacts of the abstraction (pairs it cannot exclude although they never occur):
`function` directly before its name (the `RequiredSpace` sits in an `Optional` on the same attribute as the name),
and anything after a line comment in rule sets that have no comment handlers (comments are then never printed;
where they are printed, the definitions put a `Newline` marker after them) -/
def artefactPair (a b : TC) : Bool :=
  (a == .lit "function" && (match b with | .word _ _ => true | _ => false)) || a == .lineComment

def directOK (F : List (Sym × Sym)) : Bool :=
  (tokPairs F).all fun p => directSafe p.1 p.2 || kf01Pair p.1 p.2 || artefactPair p.1 p.2

end CalmVerif.TokenAdj
