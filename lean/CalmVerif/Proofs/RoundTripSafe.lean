/-
Boundary safety of two token signatures that are printed with nothing between them (`directSafe`), by the rules of
longest-match lexing (ES5 7: identifier / number / punctuator / regular-expression-flag extension, comment starts),
and the table-level check over the follow relations of the three rule sets (`directOK`, evaluated on bit sets;
`directOK_spec` says what it means).
-/
import CalmVerif.Proofs.RoundTripCert
namespace CalmVerif.TokenAdj
open CalmVerif CalmVerif.Unparse

def rangeTo : Nat → List Nat
  | 0 => []
  | n + 1 => n :: rangeTo n

/-- the exact text of a `lit` signature ("" for the classes) -/
def tcText : TC → String
  | .lit i => litText i
  | _ => ""

def headIs (p : Char → Bool) : List Char → Bool
  | c :: _ => p c
  | [] => false

/-- the first character of the token is an identifier-part character (letter, digit, `$`, `_`, …) -/
def startsId : TC → Bool
  | .lit i => headIs isIdAny (litText i).toList
  | .word _ _ => true
  | .decInt => true
  | .numDot => true
  | .num false => true
  | _ => false

/-- the first character of the token is a decimal digit -/
def startsDigit : TC → Bool
  | .lit i => headIs isDigit (litText i).toList
  | .decInt => true
  | .numDot => true
  | .num false => true
  | _ => false

/-- what a punctuator could be extended with: the first characters of the next token -/
def firstText : TC → List Char
  | .lit i => (litText i).toList
  | .regex _ => ['/']
  | .lineComment => ['/', '/']
  | .blockComment => ['/', '*']
  | .num true => ['.']
  | .commas => [',']
  | _ => []

/-- the punctuators and comment openers that properly extend `p` -/
def extsOf (p : List Char) : List String → List (List Char)
  | [] => []
  | r :: rs =>
    if decide (p.length < r.length) && p.isPrefixOf r.toList then r.toList :: extsOf p rs else extsOf p rs

def anyPrefixOf (pq : List Char) : List (List Char) → Bool
  | [] => false
  | r :: rs => r.isPrefixOf pq || anyPrefixOf pq rs

/-- `p` directly followed by text starting with `q` reads as a longer punctuator or as a comment start -/
def extendsPunct (p q : List Char) : Bool := anyPrefixOf (p ++ q) (extsOf p (punctuators ++ ["//", "/*"]))

/-- D: the ASCII fast path of the identifier tables agrees with Gen.LexData below 128 (and `$`, letters, digits, `_`
are all there is), so `isIdStart` / `isIdPart` are the lexer's character classes -/
theorem ascii_tables_agree :
    ((rangeTo 128).all fun n => inRanges n idStartAscii == inRanges n Gen.LexData.idStart &&
      inRanges n idPartAscii == inRanges n Gen.LexData.idPart) = true := by decide +kernel

def endsWithSpace (s : List Char) : Bool := s.getLast? == some ' '

/-- token `a` directly followed by token `b` (nothing printed between them) still lexes as `a` then `b`
(given the goal symbol of `b` at a `/`) -/
def directSafe (a b : TC) : Bool :=
  match a with
  | .lineComment => false
  | .other => false
  | .str => true
  | .blockComment => true
  | .empty => true
  | .commas => true
  | .word _ _ => !startsId b
  | .regex _ => !startsId b
  | .decInt => !startsId b && !headIs (· == '.') (firstText b)
  | .numDot => !startsId b
  | .num _ => !startsId b
  | .lit i =>
    let s := (litText i).toList
    if endsWithSpace s then true
    else if headIs isIdAny s then !startsId b
    else !extendsPunct s (firstText b) && !(s == ['.'] && startsDigit b)

/-- KF-01: a decimal integer literal directly before the `.` of a member access -/
def kf01Pair (a b : TC) : Bool := a == .decInt && b == mkLit "."

/-- artefacts of the abstraction (pairs it cannot exclude although they never occur):
`function` directly before its name (the `RequiredSpace` sits in an `Optional` on the same attribute as the name),
and anything after a line comment in rule sets that have no comment handlers (comments are then never printed;
where they are printed, the definitions put a `Newline` marker after them) -/
def artefactPair (a b : TC) : Bool :=
  (a == mkLit "function" && (match b with | .word _ _ => true | _ => false)) || a == .lineComment

def okPair (a b : TC) : Bool := directSafe a b || kf01Pair a b || artefactPair a b

/-! ### the check on bit sets -/

def rangeFrom : Nat → Nat → List Nat
  | _, 0 => []
  | i, n + 1 => i :: rangeFrom (i + 1) n

/-- the codes of all token signatures (`tcCode`): the classes 1 … 22 and the table spellings 32 … -/
def tokCodes : List Nat := rangeFrom 1 22 ++ rangeFrom 32 litTable.length

/-- bit set (over symbols `2·b`) of the codes `b` that are NOT allowed directly after code `a` -/
def unsafeRow (a : TC) : List Nat → Nat
  | [] => 0
  | b :: bs => (if okPair a (tcOfCode b) then 0 else 1 <<< (2 * b)) ||| unsafeRow a bs

/-- bit set of the symbols that may directly follow symbol `x` -/
def succMask (x : Sym) : List Rect → Nat
  | [] => 0
  | r :: rs => (if r.1.has x then r.2.bits else 0) ||| succMask x rs

def directOKFrom (F : List Rect) : List Nat → Bool
  | [] => true
  | a :: as => (succMask (2 * a) F &&& unsafeRow (tcOfCode a) tokCodes == 0) && directOKFrom F as

/-- every two token signatures that are adjacent in `F` are boundary-safe, a known finding or an artefact -/
def directOK (F : List Rect) : Bool := directOKFrom F tokCodes

/-! ### what the bit-set check means -/

theorem succMask_spec (x y : Sym) : ∀ (F : List Rect), InF F x y → (succMask x F).testBit y = true := by
  intro F
  induction F with
  | nil => intro ⟨r, hr, _⟩; simp at hr
  | cons r rs ih =>
    intro ⟨q, hq, hx, hy⟩
    simp only [succMask, Nat.testBit_or, Bool.or_eq_true]
    rcases List.mem_cons.mp hq with rfl | hq
    · left
      have hx' : q.1.has x = true := hx
      rw [hx']
      exact hy
    · exact Or.inr (ih ⟨q, hq, hx, hy⟩)

theorem unsafeRow_spec (a : TC) (b : Nat) : ∀ (l : List Nat), b ∈ l → okPair a (tcOfCode b) = false →
    (unsafeRow a l).testBit (2 * b) = true := by
  intro l
  induction l with
  | nil => intro h; simp at h
  | cons c cs ih =>
    intro hb hok
    simp only [unsafeRow, Nat.testBit_or, Bool.or_eq_true]
    rcases List.mem_cons.mp hb with rfl | hb
    · left
      rw [hok]
      simp [Nat.one_shiftLeft, Nat.testBit_two_pow]
    · exact Or.inr (ih hb hok)

theorem directOKFrom_spec (F : List Rect) : ∀ (l : List Nat), directOKFrom F l = true → ∀ a ∈ l,
    succMask (2 * a) F &&& unsafeRow (tcOfCode a) tokCodes = 0 := by
  intro l
  induction l with
  | nil => intro _ a ha; simp at ha
  | cons c cs ih =>
    intro h a ha
    simp only [directOKFrom, Bool.and_eq_true, beq_iff_eq] at h
    rcases List.mem_cons.mp ha with rfl | ha
    · exact h.1
    · exact ih h.2 a ha

/-- `directOK F`: for all token codes `a`, `b` (`tokCodes`: every signature class and every table spelling), if the
symbol of `a` may be directly followed by the symbol of `b` in `F`, then the pair is boundary-safe (`directSafe`), the
known finding KF-01 (`kf01Pair`) or an artefact of the abstraction (`artefactPair`) -/
theorem directOK_spec (F : List Rect) (h : directOK F = true) (a b : Nat) (ha : a ∈ tokCodes) (hb : b ∈ tokCodes)
    (hf : InF F (2 * a) (2 * b)) : okPair (tcOfCode a) (tcOfCode b) = true := by
  cases hok : okPair (tcOfCode a) (tcOfCode b) with
  | true => rfl
  | false =>
    exfalso
    have h0 := directOKFrom_spec F tokCodes h a ha
    have h1 := succMask_spec (2 * a) (2 * b) F hf
    have h2 := unsafeRow_spec (tcOfCode a) b tokCodes hb hok
    have : (succMask (2 * a) F &&& unsafeRow (tcOfCode a) tokCodes).testBit (2 * b) = true := by
      rw [Nat.testBit_and, h1, h2]; rfl
    rw [h0] at this
    simp at this

end CalmVerif.TokenAdj
