/-
The tokens `Parser._raise_syntax_error` quotes: `lexer.valid_prev_token` and `lexer.cur_token` are, in every lexer
state the parser can be in, REAL tokens (never an inserted AUTOSEMI) carrying the ES5-counted line / column of their
offset and whose value is the text at that offset (`VP`).  `valid_prev_token` is only ever assigned from `cur_token`
(`_set_tokens`), `cur_token` only from `get_lexer_token()`; `backtracked_token` restores `valid_prev_token`.
-/
import CalmVerif.Proofs.ParserReach
import CalmVerif.Proofs.LinesBridge

namespace CalmVerif.Proofs.ErrorPos
open CalmVerif.Model.TokenRegex CalmVerif.Model.PlyLex CalmVerif.Model.Lexer CalmVerif.Model CalmVerif.Model.LR
open CalmVerif.Proofs.LexerStep CalmVerif.Proofs.LexerLoop CalmVerif.Proofs.LexerPos
open CalmVerif.Proofs.LexerDrive CalmVerif.Proofs.ParserDrive
open CalmVerif.Gen

/-- a real token whose recorded line / column are the counted ones and whose value is the text at its offset -/
def RealAt (text : List Char) (t : Token) : Prop :=
  t.auto = false ∧ PosOK text t ∧ (text.drop t.lexpos).take t.value.length = t.value ∧ t.value ≠ []

theorem realAt_of_good {text : List Char} {idx : List Nat} {t : Token} (hg : Good text idx t)
    (ha : t.auto = false) : RealAt text t := by
  refine ⟨ha, (hg.1 ha).1, (hg.1 ha).2.2.1, ?_⟩
  obtain ⟨_, _, _, s, r, ap, ⟨_, _, m, _, hm, hn, _⟩, _⟩ := hg.1 ha
  have hb := CalmVerif.Proofs.LexerPly.ruleMatcher_bounded r m hm _ _ hn
  intro h0
  rw [h0] at hb
  simp at hb

/-- `cur_token` and `valid_prev_token` are real located tokens -/
def VP (text : List Char) (st : LexState) : Prop :=
  (∀ c, st.curToken = some c → RealAt text c) ∧ (∀ v, st.validPrevToken = some v → RealAt text v)

theorem VP.congr {text : List Char} {a b : LexState} (h : VP text a) (h1 : b.curToken = a.curToken)
    (h2 : b.validPrevToken = a.validPrevToken) : VP text b :=
  ⟨fun c hc => h.1 c (h1 ▸ hc), fun v hv => h.2 v (h2 ▸ hv)⟩

theorem init_vp (text : List Char) (wc yc : Bool) : VP text (init text wc yc) :=
  ⟨fun c hc => by simp [init] at hc, fun v hv => by simp [init] at hv⟩

theorem getLexerToken_keeps (s : LexerState) (st : LexState) (tok : Option Token) (st1 : LexState)
    (h : getLexerToken s st = .ok (tok, st1)) :
    st1.curToken = st.curToken ∧ st1.validPrevToken = st.validPrevToken := by
  unfold getLexerToken at h
  split at h
  · simp only [Except.ok.injEq, Prod.mk.injEq] at h
    obtain ⟨_, rfl⟩ := h
    exact ⟨rfl, rfl⟩
  · simp at h
  · split at h <;> simp at h
  · split at h
    · simp at h
    · simp only [Except.ok.injEq, Prod.mk.injEq] at h
      obtain ⟨_, rfl⟩ := h
      exact ⟨rfl, rfl⟩

theorem getLexerToken_realAt {text : List Char} {s : LexerState} {st : LexState} {raw : Token} {st1 : LexState}
    (hinv : PInv text st) (h : getLexerToken s st = .ok (some raw, st1)) : RealAt text raw := by
  have hraw := getLexerToken_some _ _ _ _ h
  have hle : st.lexpos ≤ text.length := by
    have h1 := hraw.le; have h2 := hraw.bound; rw [hinv.textEq] at h2; omega
  obtain ⟨_, hpos⟩ := inv_raw (hinv.toInv hle) hraw
  have h1 := rawTok_value hraw
  rw [hinv.textEq] at h1
  exact ⟨hraw.auto, hpos, h1, hraw.ne⟩

theorem setTokens_vp {text : List Char} {st : LexState} {tok : Option Token} {st2 : LexState}
    (h : setTokens st tok = .ok st2) (hv : VP text st) (ht : ∀ t, tok = some t → RealAt text t) :
    VP text st2 := by
  unfold setTokens at h
  split at h
  · simp at h
  · simp only [Except.ok.injEq] at h
    subst h
    refine ⟨fun c hc => ht c hc, fun v hv' => ?_⟩
    simp only at hv'
    split at hv'
    · rename_i c hc
      split at hv'
      · simp only [Option.some.injEq] at hv'
        subst hv'
        exact hv.1 c hc
      · exact hv.2 v hv'
    · exact hv.2 v hv'

/-- `get_lexer_token()` in state `s` followed by `_set_tokens` -/
theorem lexSet_vp {text : List Char} {s : LexerState} {st st1 st2 : LexState} {tok : Option Token}
    (hinv : PInv text st) (hv : VP text st) (hg : getLexerToken s st = .ok (tok, st1))
    (hs : setTokens st1 tok = .ok st2) : VP text st2 := by
  have hk := getLexerToken_keeps _ _ _ _ hg
  have hv1 : VP text st1 := hv.congr hk.1 hk.2
  refine setTokens_vp hs hv1 ?_
  intro t ht
  subst ht
  exact getLexerToken_realAt hinv hg

theorem getUpdateToken_vp {text : List Char} {st : LexState} {r : Option Token} {st' : LexState}
    (hinv : PInv text st) (hv : VP text st) (h : getUpdateToken st = .ok (r, st')) : VP text st' := by
  unfold getUpdateToken at h
  split at h
  · simp at h
  · rename_i tok st1 hg
    split at h
    · simp at h
    · rename_i st2 hs
      have hv2 := lexSet_vp hinv hv hg hs
      split at h
      · simp only [Except.ok.injEq, Prod.mk.injEq] at h
        obtain ⟨_, rfl⟩ := h
        exact hv2
      · split at h
        · simp at h
        · rename_i st3 hu
          obtain ⟨ts, rfl⟩ := updateStack_spec _ _ _ hu
          split at h
          · simp only [createSemiToken, Except.ok.injEq, Prod.mk.injEq] at h
            obtain ⟨_, rfl⟩ := h
            exact hv2
          · simp only [Except.ok.injEq, Prod.mk.injEq] at h
            obtain ⟨_, rfl⟩ := h
            exact hv2

theorem divOrRegex_vp {text : List Char} {st : LexState} {r : Option Token} {st' : LexState}
    (hinv : PInv text st) (hv : VP text st) (h : divOrRegex st = .ok (r, st')) : VP text st' := by
  unfold divOrRegex at h
  split at h
  · simp at h
  · exact getUpdateToken_vp hinv hv h
  · split at h
    · simp at h
    · rename_i tok st1 hg
      unfold readRegex at hg
      split at h
      · simp at h
      · rename_i st2 hs
        simp only [Except.ok.injEq, Prod.mk.injEq] at h
        obtain ⟨_, rfl⟩ := h
        exact lexSet_vp hinv hv hg hs

theorem tokenLoop_vp (text : List Char) : ∀ (fuel : Nat) (st : LexState) (r : Option Token) (st' : LexState),
    tokenLoop fuel st = .ok (r, st') → PInv text st → VP text st → VP text st' := by
  intro fuel
  induction fuel with
  | zero => intro st r st' h; simp [tokenLoop] at h
  | succ fuel ih =>
    intro st r st' h hinv hv
    have hskip : ∀ (r0 : Option Token) (st1 st1' : LexState), getUpdateToken st = .ok (r0, st1) →
        PosEq st1' st1 → st1'.curToken = st1.curToken → st1'.validPrevToken = st1.validPrevToken →
        tokenLoop fuel st1' = .ok (r, st') → VP text st' := by
      intro r0 st1 st1' hg hpe hc1 hc2 hrec
      have h1 := lexCall_drive hinv (getUpdateToken_call _ _ _ hg)
      have hv1 := getUpdateToken_vp hinv hv hg
      exact ih st1' r st' hrec (h1.1.congr hpe) (hv1.congr hc1 hc2)
    unfold tokenLoop at h
    split at h
    · split at h
      · simp at h
      · rename_i st1 hg
        simp only [Except.ok.injEq, Prod.mk.injEq] at h
        obtain ⟨_, rfl⟩ := h
        exact getUpdateToken_vp hinv hv hg
      · rename_i t0 st1 hg
        split at h
        · exact hskip _ st1 st1 hg ⟨rfl, rfl, rfl, rfl⟩ rfl rfl h
        · simp only [Except.ok.injEq, Prod.mk.injEq] at h
          obtain ⟨_, rfl⟩ := h
          exact getUpdateToken_vp hinv hv hg
    · split at h
      · split at h
        · simp at h
        · rename_i st1 hg
          simp only [Except.ok.injEq, Prod.mk.injEq] at h
          obtain ⟨_, rfl⟩ := h
          exact getUpdateToken_vp hinv hv hg
        · rename_i t0 st1 hg
          split at h
          · split at h
            · split at h
              · simp only [Except.ok.injEq, Prod.mk.injEq] at h
                obtain ⟨_, rfl⟩ := h
                exact getUpdateToken_vp hinv hv hg
              · split at h
                · exact hskip _ st1 { st1 with hiddenTokens := st1.hiddenTokens ++ [t0.toComment] } hg
                    ⟨rfl, rfl, rfl, rfl⟩ rfl rfl h
                · exact hskip _ st1 st1 hg ⟨rfl, rfl, rfl, rfl⟩ rfl rfl h
            · exact hskip _ st1 st1 hg ⟨rfl, rfl, rfl, rfl⟩ rfl rfl h
          · simp only [Except.ok.injEq, Prod.mk.injEq] at h
            obtain ⟨_, rfl⟩ := h
            exact getUpdateToken_vp hinv hv hg
      · exact divOrRegex_vp hinv hv h

theorem token'_vp {text : List Char} {st : LexState} {r : Option Token} {st' : LexState}
    (hp : PInv text st) (hv : VP text st) (h : token' st = .ok (r, st')) : VP text st' := by
  unfold token' at h
  split at h
  · simp only [Except.ok.injEq, Prod.mk.injEq] at h
    obtain ⟨_, rfl⟩ := h
    exact hv
  · exact tokenLoop_vp text _ _ _ _ h hp hv

theorem token_vp {text : List Char} {st : LexState} {r : Option Token} {st' : LexState}
    (hp : PInv text st) (hv : VP text st) (h : token st = .ok (r, st')) : VP text st' := by
  unfold token at h
  split at h
  · simp at h
  · rename_i st1 ht
    simp only [Except.ok.injEq, Prod.mk.injEq] at h
    obtain ⟨_, rfl⟩ := h
    exact token'_vp hp hv ht
  · rename_i t st1 ht
    have h1 := token'_vp hp hv ht
    split at h
    · simp only [Except.ok.injEq, Prod.mk.injEq] at h
      obtain ⟨_, rfl⟩ := h
      exact h1
    · simp only [Except.ok.injEq, Prod.mk.injEq] at h
      obtain ⟨_, rfl⟩ := h
      exact h1

theorem autoSemi_keeps (st : LexState) (tok : Option Token) :
    (autoSemi st tok).2.curToken = st.curToken ∧ (autoSemi st tok).2.validPrevToken = st.validPrevToken := by
  unfold autoSemi
  cases tok with
  | none => exact ⟨rfl, rfl⟩
  | some t =>
    simp only
    split
    · exact ⟨rfl, rfl⟩
    · exact ⟨rfl, rfl⟩

/-- `backtracked_token(1)` under the guard of `p_error` -/
theorem backtracked_vp {text : List Char} {st : LexState} (hr : Reachable text st) (hv : VP text st)
    (tok : Option Token) (cur : Token) (hcur : (st.curToken <|> tok) = some cur)
    (hty : LexData.backtrackCur.contains cur.type = true)
    {r : Option Token} {st' : LexState} (h : backtrackedToken st 1 = .ok (r, st')) : VP text st' := by
  unfold backtrackedToken at h
  split at h
  · simp at h
  · rename_i hpos
    have hp := pinv_rewind hr tok cur hcur hty hpos
    simp only at h
    split at h
    · simp at h
    · rename_i r2 st2 ht
      simp only [Except.ok.injEq, Prod.mk.injEq] at h
      obtain ⟨_, rfl⟩ := h
      have hv2 := token_vp hp (hv.congr rfl rfl) ht
      exact ⟨hv2.1, hv.2⟩

/-! ### the call of `_raise_syntax_error` inside `p_error` -/

/-- the lexer state with which `Parser.pError st tok` calls `raiseSyntaxError · tok` (`none`: it does not) -/
def raiseCall (st : LexState) (tok : Option Token) : Option LexState :=
  match autoSemi st tok with
  | (some _, _) => none
  | (none, st1) =>
    match (st1.curToken <|> tok) with
    | none => none
    | some cur =>
      let backtrack : Bool := LexData.backtrackCur.contains cur.type &&
        (match st1.validPrevToken with
          | some vp => LexData.backtrackPrev.contains vp.type
          | none => false)
      if backtrack then
        match backtrackedToken st1 1 with
        | .ok (some rt, st2) => if rt.type = "REGEX" then none else some st2
        | _ => none
      else some st1

theorem pError_error_aux (b : Bool) (st1 : LexState) (tok : Option Token) (pe : Parser.PErr)
    (h : (if b = true then
        match backtrackedToken st1 1 with
        | .error e => .error (.lex e)
        | .ok (none, _) => .error (.lex (.internal "AttributeError"))
        | .ok (some rt, st2) =>
          if rt.type = "REGEX" then .ok (some rt, st2)
          else .error (Parser.raiseSyntaxError st2 tok)
      else .error (Parser.raiseSyntaxError st1 tok) : Except Parser.PErr (Option Token × LexState)) = .error pe) :
    (∃ st', (if b = true then
        match backtrackedToken st1 1 with
        | .ok (some rt, st2) => if rt.type = "REGEX" then none else some st2
        | _ => none
      else some st1) = some st' ∧ pe = Parser.raiseSyntaxError st' tok) ∨
    (∃ e, pe = .lex e ∧ (e = .internal "AttributeError" ∨ backtrackedToken st1 1 = .error e)) := by
  cases b with
  | false =>
    simp only [Bool.false_eq_true, if_false, Except.error.injEq] at h ⊢
    exact Or.inl ⟨st1, rfl, h.symm⟩
  | true =>
    simp only [if_true] at h ⊢
    split at h
    · rename_i e hb
      simp only [Except.error.injEq] at h
      exact Or.inr ⟨e, h.symm, Or.inr hb⟩
    · simp only [Except.error.injEq] at h
      exact Or.inr ⟨_, h.symm, Or.inl rfl⟩
    · rename_i rt st2 hb
      rw [hb]
      simp only
      split at h
      · simp at h
      · rename_i hne
        rw [if_neg hne]
        simp only [Except.error.injEq] at h
        exact Or.inl ⟨st2, rfl, h.symm⟩

/-- `p_error` raises either through `_raise_syntax_error` (at the state `raiseCall` names) or hands on an exception
    of the re-lexing `backtracked_token(1)` / the AttributeErrors excluded by Props.C12parse -/
theorem pError_error_cases (st : LexState) (tok : Option Token) (pe : Parser.PErr)
    (h : Parser.pError st tok = .error pe) :
    (∃ st', raiseCall st tok = some st' ∧ pe = Parser.raiseSyntaxError st' tok) ∨
    (∃ e, pe = .lex e ∧ (e = .internal "AttributeError" ∨
      backtrackedToken (autoSemi st tok).2 1 = .error e)) := by
  unfold Parser.pError at h
  unfold raiseCall
  split at h
  · simp at h
  · rename_i st1 hauto
    rw [hauto]
    simp only
    split at h
    · simp only [Except.error.injEq] at h
      exact Or.inr ⟨_, h.symm, Or.inl rfl⟩
    · rename_i cur hcur
      rw [hcur]
      exact pError_error_aux _ st1 tok pe h

/-- the state handed to `_raise_syntax_error` is a parser-reachable one -/
theorem raiseCall_inv {text : List Char} {st : LexState} (hr : Reachable text st) (hv : VP text st)
    (tok : Option Token) (htok : ∀ t, tok = some t → Good text st.newlineIdx t) {st' : LexState}
    (h : raiseCall st tok = some st') :
    Reachable text st' ∧ VP text st' ∧ st.newlineIdx <+: st'.newlineIdx := by
  obtain ⟨ha1, ha2, ha3, ha4⟩ := autoSemi_drive tok hr htok
  unfold raiseCall at h
  split at h
  · simp at h
  · rename_i st1 hauto
    have e1 : (autoSemi st tok).1 = none := by rw [hauto]
    have e2 : (autoSemi st tok).2 = st1 := by rw [hauto]
    have hst : st1 = st := by rw [← e2]; exact ha4 e1
    subst hst
    split at h
    · simp at h
    · rename_i cur hcur
      have aux : ∀ (b : Bool), (b = true → LexData.backtrackCur.contains cur.type = true) →
          (if b = true then
            match backtrackedToken st1 1 with
            | .ok (some rt, st2) => if rt.type = "REGEX" then none else some st2
            | _ => none
          else some st1) = some st' →
          Reachable text st' ∧ VP text st' ∧ st1.newlineIdx <+: st'.newlineIdx := by
        intro b hb h
        cases b with
        | false =>
          simp only [Bool.false_eq_true, if_false, Option.some.injEq] at h
          subst h
          exact ⟨hr, hv, List.prefix_refl _⟩
        | true =>
          have hty := hb rfl
          simp only [if_true] at h
          split at h
          · rename_i rt st2 hbk
            split at h
            · simp at h
            · simp only [Option.some.injEq] at h
              subst h
              obtain ⟨h1, h2, _⟩ := backtracked_drive hr tok cur hcur hty hbk
              exact ⟨h1, backtracked_vp hr hv tok cur hcur hty hbk, h2⟩
          · simp at h
      refine aux _ ?_ h
      intro hb
      simp only [Bool.and_eq_true] at hb
      exact hb.1

/-- `p_error` returning a replacement look-ahead keeps `VP` -/
theorem pError_vp {text : List Char} {st : LexState} (hr : Reachable text st) (hv : VP text st) (tok : Option Token)
    (htok : ∀ t, tok = some t → Good text st.newlineIdx t) {r : Option Token} {st' : LexState}
    (h : Parser.pError st tok = .ok (r, st')) : VP text st' := by
  obtain ⟨ha1, ha2, ha3, ha4⟩ := autoSemi_drive tok hr htok
  have hk := autoSemi_keeps st tok
  unfold Parser.pError at h
  split at h
  · rename_i semi st1 hauto
    simp only [Except.ok.injEq, Prod.mk.injEq] at h
    obtain ⟨_, rfl⟩ := h
    have e2 : (autoSemi st tok).2 = st1 := by rw [hauto]
    rw [e2] at hk
    exact hv.congr hk.1 hk.2
  · rename_i st1 hauto
    have e1 : (autoSemi st tok).1 = none := by rw [hauto]
    have e2 : (autoSemi st tok).2 = st1 := by rw [hauto]
    have hst : st1 = st := by rw [← e2]; exact ha4 e1
    subst hst
    split at h
    · simp at h
    · rename_i cur hcur
      have aux : ∀ (b : Bool), (b = true → LexData.backtrackCur.contains cur.type = true) →
          (if b = true then
            match backtrackedToken st1 1 with
            | .error e => .error (.lex e)
            | .ok (none, _) => .error (.lex (.internal "AttributeError"))
            | .ok (some rt, st2) =>
              if rt.type = "REGEX" then .ok (some rt, st2)
              else .error (Parser.raiseSyntaxError st2 tok)
          else .error (Parser.raiseSyntaxError st1 tok) : Except Parser.PErr (Option Token × LexState)) =
            .ok (r, st') → VP text st' := by
        intro b hb h
        cases b with
        | false => simp at h
        | true =>
          have hty := hb rfl
          simp only [if_true] at h
          split at h
          · simp at h
          · simp at h
          · rename_i rt st2 hbk
            split at h
            · simp only [Except.ok.injEq, Prod.mk.injEq] at h
              obtain ⟨_, rfl⟩ := h
              exact backtracked_vp hr hv tok cur hcur hty hbk
            · simp at h
      refine aux _ ?_ h
      intro hb
      simp only [Bool.and_eq_true] at hb
      exact hb.1

/-! ### along the run of the LR driver -/

variable {ν : Type} {T : Tables} {S : Sem Token ν LexState Parser.PErr}

theorem fetch_vp {text : List Char} {c c1 : Config Token ν LexState} {state : Nat} {a : Option Act}
    (hg : GoodCfg text c) (hv : VP text c.src) (hf : fetch T S Parser.source c state = .ok (a, c1)) :
    VP text c1.src := by
  unfold fetch at hf
  split at hf
  · simp only [Except.ok.injEq, Prod.mk.injEq] at hf
    rw [← hf.2]; exact hv
  · split at hf
    · simp only [Except.ok.injEq, Prod.mk.injEq] at hf
      rw [← hf.2]; exact hv
    · split at hf
      · simp at hf
      · rename_i t s' hn
        simp only [Except.ok.injEq, Prod.mk.injEq] at hf
        rw [← hf.2]
        simp only [Parser.source] at hn
        split at hn
        · rename_i res ht
          simp only [Except.ok.injEq] at hn
          subst hn
          exact token_vp hg.1.pinv hv ht
        · simp at hn

theorem step_vp {text : List Char} {c c' : Config Token ν LexState} (hg : GoodCfg text c) (hv : VP text c.src)
    (hs : step T S Parser.source c = .inl c') : VP text c'.src := by
  unfold step at hs
  split at hs
  · simp at hs
  · rename_i state _ _
    split at hs
    · simp at hs
    · rename_i s c1 hf
      have hv1 := fetch_vp hg hv hf
      unfold doShift at hs
      split at hs
      · simp only [Sum.inl.injEq] at hs
        rw [← hs]; exact hv1
      · simp at hs
    · rename_i p c1 hf
      have hv1 := fetch_vp hg hv hf
      unfold doReduce at hs
      split at hs
      · simp at hs
      · split at hs
        · split at hs
          · simp at hs
          · split at hs
            · simp at hs
            · split at hs
              · simp only [Sum.inl.injEq] at hs
                rw [← hs]; exact hv1
              · simp at hs
        · simp at hs
    · split at hs <;> simp at hs
    · rename_i c1 hf
      obtain ⟨hg1, _, _⟩ := fetch_good hg hf
      have hv1 := fetch_vp hg hv hf
      unfold doError at hs
      split at hs
      · simp at hs
      · simp at hs
      · rename_i t s' he
        simp only [Sum.inl.injEq] at hs
        rw [← hs]
        have htok : ∀ x, lookTok c1 = some x → Good text c1.src.newlineIdx x := by
          intro x hx
          unfold lookTok at hx
          split at hx
          · rename_i t0 hl
            simp at hx; subst hx
            exact hg1.2.2 _ hl
          · simp at hx
        have he' : Parser.pError c1.src (lookTok c1) = .ok (some t, s') := he
        exact pError_vp hg1.1 hv1 (lookTok c1) htok he'

theorem reach_vp {text : List Char} {c0 c : Config Token ν LexState} (h0 : GoodCfg text c0) (hv0 : VP text c0.src)
    (hr : Reach T S Parser.source c0 c) : VP text c.src := by
  induction hr with
  | refl => exact hv0
  | step hr' hs ih => exact step_vp (reach_good h0 hr') ih hs

/-- the look-ahead handed to `p_error` is `Good` -/
theorem lookTok_good {text : List Char} {c : Config Token ν LexState} (hg : GoodCfg text c) :
    ∀ x, lookTok c = some x → Good text c.src.newlineIdx x := by
  intro x hx
  unfold lookTok at hx
  split at hx
  · rename_i t0 hl
    simp at hx; subst hx
    exact hg.2.2 _ hl
  · simp at hx

end CalmVerif.Proofs.ErrorPos
