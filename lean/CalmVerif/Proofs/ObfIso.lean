/-
`isoCond`, part 1.  Every binder ES5 resolution reports names a declared symbol of a scope record that
is determined by the binder's (kind, scope) (`BOK`); on such binders the record renaming is one-to-one (from
`remap_injective_visible`) and keeps what must be kept.
-/
import CalmVerif.Proofs.ObfSimple2
import CalmVerif.Proofs.ObfBindIso
namespace CalmVerif.Obf
open CalmVerif CalmVerif.Unparse
open CalmVerif.Spec.Scope (BKind Binder Layer Ctx Occ lookupEnv)

/-- the scope record of the function node at `s` -/
def RecVar (recs : List Rec) (s : SPath) (C : List Anc) : Prop :=
  ∃ R, recs.find? (fun r => r.node == some s.reverse) = some R ∧ R.chain = C

/-- the record of the global scope -/
def RecRoot (recs : List Rec) (C : List Anc) : Prop := ∃ R rest, recs = R :: rest ∧ R.chain = C

/-- a binder that names a declared symbol of the record its (kind, scope) determines — or no declaration at all -/
inductive BOK (recs : List Rec) (lc : SPath → Option (List Anc)) (τ : Tau) : Binder → Prop where
  | free (s : SPath) (n : String) : BOK recs lc τ { kind := .free, scope := s, name := n }
  | args (s : SPath) (n : String) : BOK recs lc τ { kind := .args, scope := s, name := n }
  | var (s : SPath) (n : String) (A : Anc) (C : List Anc) : RecVar recs s (A :: C) → A.kind = .func →
      ChainGood (A :: C) → C ≠ [] → n ∈ A.decl → (∀ m, tauN τ .var s m = applyTable A.remapped m) →
      BOK recs lc τ { kind := .var, scope := s, name := n }
  | glob (n : String) (A : Anc) : RecRoot recs [A] → A.kind = .func → ChainGood [A] → n ∈ A.decl →
      (∀ m, tauN τ .global [] m = applyTable A.remapped m) → BOK recs lc τ { kind := .global, scope := [], name := n }
  | «catch» (s : SPath) (n : String) (u : Nat) (K : Anc) (C : List Anc) : RecVar recs s (K :: C) → K.kind = .catch n u →
      BOK recs lc τ { kind := .catch, scope := s, name := n }
  | self (s : SPath) (n : String) (C : List Anc) : (∃ A, RecVar recs s (A :: C)) → ChainGood C → n ∈ ckeys (effRefs C) →
      (∀ m, tauN τ .self s m = resolveChain C m) → BOK recs lc τ { kind := .self, scope := s, name := n }
  /-- `lc s`: the chain of the scope the Identifier of the label defined at `s` is registered in -/
  | label (s : SPath) (n : String) (C : List Anc) : lc s = some C → ChainGood C → n ∈ ckeys (effRefs C) →
      (∀ m, tauN τ .label s m = resolveChain C m) → BOK recs lc τ { kind := .label, scope := s, name := n }
  | nolabel (n : String) : BOK recs lc τ { kind := .nolabel, scope := [], name := n }

/-- `Al` with, per environment record, the scope record that the look-ups by node path return -/
inductive AlR (recs : List Rec) (τ : Tau) : List Layer → List Anc → Prop where
  | root (names : List String) (A : Anc) : Al τ [{ kind := .global, scope := [], names := names }] [A] →
      RecRoot recs [A] → AlR recs τ [{ kind := .global, scope := [], names := names }] [A]
  | func (p : SPath) (names : List String) (E : List Layer) (A : Anc) (C : List Anc) :
      Al τ ({ kind := .var, scope := p, names := names } :: E) (A :: C) → RecVar recs p (A :: C) → AlR recs τ E C →
      AlR recs τ ({ kind := .var, scope := p, names := names } :: E) (A :: C)
  | «catch» (p : SPath) (c : String) (E : List Layer) (K : Anc) (C : List Anc) :
      Al τ ({ kind := .catch, scope := p, names := [c] } :: E) (K :: C) → RecVar recs p (K :: C) → AlR recs τ E C →
      AlR recs τ ({ kind := .catch, scope := p, names := [c] } :: E) (K :: C)
  | self (p : SPath) (g : String) (E : List Layer) (C : List Anc) :
      Al τ ({ kind := .self, scope := p, names := [g] } :: E) C → (∃ A, RecVar recs p (A :: C)) → AlR recs τ E C →
      AlR recs τ ({ kind := .self, scope := p, names := [g] } :: E) C

theorem alR_al {recs : List Rec} {τ : Tau} {E : List Layer} {C : List Anc} (h : AlR recs τ E C) : Al τ E C := by
  cases h with
  | root names A h _ => exact h
  | func p names E A C h _ _ => exact h
  | «catch» p c E K C h _ _ => exact h
  | self p g E C h _ _ => exact h

theorem al_self_inv {τ : Tau} {p : SPath} {g : String} {E' : List Layer} {C : List Anc}
    (h : Al τ ({ kind := .self, scope := p, names := [g] } :: E') C) :
    (∀ n, tauN τ .self p n = resolveChain C n) ∧ g ∈ ckeys (effRefs C) ∧ Al τ E' C := by
  cases h with
  | self _ _ _ _ htau hg hal => exact ⟨htau, hg, hal⟩

theorem alR_catch_inv {recs : List Rec} {τ : Tau} {p : SPath} {c : String} {E' : List Layer} {C' : List Anc}
    (h : AlR recs τ ({ kind := .catch, scope := p, names := [c] } :: E') C') :
    ∃ K C u, C' = K :: C ∧ K.kind = .catch c u ∧ RecVar recs p (K :: C) ∧ AlR recs τ E' C := by
  cases h with
  | «catch» _ _ _ K C hal hrec hr =>
    obtain ⟨K', C'', u, he, hk, _⟩ := al_catch_inv hal
    cases he
    exact ⟨K, C, u, rfl, hk, hrec, hr⟩

/-- what a look-up in an aligned environment returns -/
theorem lookupEnv_bok {recs : List Rec} {lc : SPath → Option (List Anc)} {τ : Tau} : ∀ {E : List Layer} {C : List Anc}, AlR recs τ E C →
    ∀ (n : String), BOK recs lc τ (lookupEnv E n) := by
  intro E C h
  induction h with
  | root names A hal hrec =>
    intro n
    cases hal with
    | root _ _ hk hnames htau hg =>
      by_cases hc : names.contains n = true
      · rw [lookupEnv_hit hc]
        exact .glob n A hrec hk hg (hnames n (contains_iff.1 hc)) htau
      · have hc' : names.contains n = false := by simpa using hc
        rw [lookupEnv_skip hc' (by simp)]
        exact .free [] n
  | func p names E A C hal hrec _ ih =>
    intro n
    cases hal with
    | func _ _ _ _ _ hk hnames htau hg hC _ =>
      by_cases hc : names.contains n = true
      · rw [lookupEnv_hit hc]
        exact .var p n A C hrec hk hg hC (hnames n (contains_iff.1 hc)) htau
      · have hc' : names.contains n = false := by simpa using hc
        by_cases ha : n = "arguments"
        · subst ha
          rw [lookupEnv_args hc' rfl]
          exact .args p "arguments"
        · rw [lookupEnv_skip hc' (by simp [ha])]
          exact ih n
  | «catch» p c E K C hal hrec _ ih =>
    intro n
    obtain ⟨K', C', u, he, hk, _⟩ := al_catch_inv hal
    cases he
    by_cases hc : ([c] : List String).contains n = true
    · rw [lookupEnv_hit hc]
      have : n = c := by simpa using hc
      subst this
      exact .catch p n u K C hrec hk
    · have hc' : ([c] : List String).contains n = false := by simpa using hc
      rw [lookupEnv_skip hc' (by simp)]
      exact ih n
  | self p g E C hal hrec _ ih =>
    intro n
    obtain ⟨htau, hkey, hal'⟩ := al_self_inv hal
    by_cases hc : ([g] : List String).contains n = true
    · rw [lookupEnv_hit hc]
      have : n = g := by simpa using hc
      subst this
      exact .self p n C hrec (al_good hal') hkey htau
    · have hc' : ([g] : List String).contains n = false := by simpa using hc
      rw [lookupEnv_skip hc' (by simp)]
      exact ih n

/-- a declared name of the variable environment of an aligned environment -/
theorem var_bok {recs : List Rec} {lc : SPath → Option (List Anc)} {τ : Tau} : ∀ {E : List Layer} {C : List Anc}, AlR recs τ E C →
    ∀ {vk : BKind} {vs : SPath} {n : String}, varLayer E = some (vk, vs) → varDeclOK C n = true →
    BOK recs lc τ { kind := vk, scope := vs, name := n } := by
  intro E C h
  induction h with
  | root names A hal hrec =>
    intro vk vs n hv hd
    cases hal with
    | root _ _ hk hnames htau hg =>
      have hkc : (BKind.global == BKind.catch || BKind.global == BKind.self) = false := by decide
      simp only [varLayer, hkc] at hv
      have hv' : (BKind.global, ([] : SPath)) = (vk, vs) := by simpa using hv
      cases hv'
      exact .glob n A hrec hk hg (by simpa [varDeclOK, hk] using hd) htau
  | func p names E A C hal hrec _ _ =>
    intro vk vs n hv hd
    cases hal with
    | func _ _ _ _ _ hk hnames htau hg hC _ =>
      have hkc : (BKind.var == BKind.catch || BKind.var == BKind.self) = false := by decide
      simp only [varLayer, hkc] at hv
      have hv' : (BKind.var, p) = (vk, vs) := by simpa using hv
      cases hv'
      exact .var p n A C hrec hk hg hC (by simpa [varDeclOK, hk] using hd) htau
  | «catch» p c E K C hal hrec _ ih =>
    intro vk vs n hv hd
    obtain ⟨K', C', u, he, hk, _⟩ := al_catch_inv hal
    cases he
    have hkc : (BKind.catch == BKind.catch || BKind.catch == BKind.self) = true := by decide
    simp only [varLayer, hkc, if_true] at hv
    simp only [varDeclOK, hk, Bool.and_eq_true] at hd
    exact ih hv hd.2
  | self p g E C hal hrec _ ih =>
    intro vk vs n hv hd
    have hkc : (BKind.self == BKind.catch || BKind.self == BKind.self) = true := by decide
    simp only [varLayer, hkc, if_true] at hv
    exact ih hv hd

/-! ### one-to-one and keeping -/

theorem applyTable_inj_func {A : Anc} {C : List Anc} (hk : A.kind = .func) (hg : ChainGood (A :: C)) (hC : C ≠ [])
    {n1 n2 : String} (h1 : n1 ∈ A.decl) (h2 : n2 ∈ A.decl) (h : applyTable A.remapped n1 = applyTable A.remapped n2) :
    n1 = n2 := by
  obtain ⟨v1, _, _, hr1, ha1⟩ := resolve_declared hk hg hC h1
  obtain ⟨v2, _, _, hr2, ha2⟩ := resolve_declared hk hg hC h2
  have hrefs : effRefs (A :: C) = A.refs := by simp [effRefs, hk]
  have k1 : n1 ∈ ckeys (effRefs (A :: C)) := by rw [hrefs]; exact hg.declRefs A (by simp) n1 h1
  have k2 : n2 ∈ ckeys (effRefs (A :: C)) := by rw [hrefs]; exact hg.declRefs A (by simp) n2 h2
  exact hg.ok.inj n1 k1 n2 k2 (by rw [hr1, hr2, ← ha1, ← ha2]; exact h)

theorem applyTable_inj_root {A : Anc} (hk : A.kind = .func) (hg : ChainGood [A])
    {n1 n2 : String} (h1 : n1 ∈ A.decl) (h2 : n2 ∈ A.decl) (h : applyTable A.remapped n1 = applyTable A.remapped n2) :
    n1 = n2 := by
  have hrefs : effRefs [A] = A.refs := by simp [effRefs, hk]
  have k1 : n1 ∈ ckeys (effRefs [A]) := by rw [hrefs]; exact hg.declRefs A (by simp) n1 h1
  have k2 : n2 ∈ ckeys (effRefs [A]) := by rw [hrefs]; exact hg.declRefs A (by simp) n2 h2
  exact hg.ok.inj n1 k1 n2 k2 (by rw [resolveChain_single, resolveChain_single]; exact h)

/-- the record renaming is one-to-one on good binders -/
theorem mapBinder_inj {recs : List Rec} {lc : SPath → Option (List Anc)} {τ : Tau} {b1 b2 : Binder} (h1 : BOK recs lc τ b1) (h2 : BOK recs lc τ b2)
    (h : mapBinder τ b1 = mapBinder τ b2) : b1 = b2 := by
  have hk : b1.kind = b2.kind := by simpa [mapBinder] using congrArg Binder.kind h
  have hs : b1.scope = b2.scope := by simpa [mapBinder] using congrArg Binder.scope h
  have hn := congrArg Binder.name h
  simp only [mapBinder] at hn
  cases h1 with
  | free s n =>
    cases h2 with
    | free s' n' => simp only at hk hs hn; simp [tauN] at hn; rw [hs, hn]
    | args s' n' => cases hk
    | var s' n' A' C' _ _ _ _ _ _ => cases hk
    | glob n' A' _ _ _ _ _ => cases hk
    | «catch» s' n' u' K' C' _ _ => cases hk
    | self s' n' C' _ _ _ _ => cases hk
    | label s' n' C' _ _ _ _ => cases hk
    | nolabel n' => cases hk
  | args s n =>
    cases h2 with
    | free s' n' => cases hk
    | args s' n' => simp only at hk hs hn; simp [tauN] at hn; rw [hs, hn]
    | var s' n' A' C' _ _ _ _ _ _ => cases hk
    | glob n' A' _ _ _ _ _ => cases hk
    | «catch» s' n' u' K' C' _ _ => cases hk
    | self s' n' C' _ _ _ _ => cases hk
    | label s' n' C' _ _ _ _ => cases hk
    | nolabel n' => cases hk
  | var s n A C hrec hkA hg hC hd htau =>
    cases h2 with
    | free s' n' => cases hk
    | args s' n' => cases hk
    | glob n' A' _ _ _ _ _ => cases hk
    | «catch» s' n' u' K' C' _ _ => cases hk
    | self s' n' C' _ _ _ _ => cases hk
    | label s' n' C' _ _ _ _ => cases hk
    | nolabel n' => cases hk
    | var s' n' A' C' hrec' hkA' hg' hC' hd' htau' =>
      simp only at hs hn
      subst hs
      obtain ⟨R, hR, hRc⟩ := hrec
      obtain ⟨R', hR', hRc'⟩ := hrec'
      rw [hR] at hR'
      cases hR'
      rw [hRc] at hRc'
      cases hRc'
      rw [htau n, htau n'] at hn
      rw [applyTable_inj_func hkA hg hC hd hd' hn]
  | glob n A hrec hkA hg hd htau =>
    cases h2 with
    | free s' n' => cases hk
    | args s' n' => cases hk
    | var s' n' A' C' _ _ _ _ _ _ => cases hk
    | «catch» s' n' u' K' C' _ _ => cases hk
    | self s' n' C' _ _ _ _ => cases hk
    | label s' n' C' _ _ _ _ => cases hk
    | nolabel n' => cases hk
    | glob n' A' hrec' hkA' hg' hd' htau' =>
      simp only at hn
      obtain ⟨R, rest, hR, hRc⟩ := hrec
      obtain ⟨R', rest', hR', hRc'⟩ := hrec'
      rw [hR] at hR'
      cases hR'
      rw [hRc] at hRc'
      cases hRc'
      rw [htau n, htau n'] at hn
      rw [applyTable_inj_root hkA hg hd hd' hn]
  | «catch» s n u K C hrec hkK =>
    cases h2 with
    | free s' n' => cases hk
    | args s' n' => cases hk
    | var s' n' A' C' _ _ _ _ _ _ => cases hk
    | glob n' A' _ _ _ _ _ => cases hk
    | self s' n' C' _ _ _ _ => cases hk
    | label s' n' C' _ _ _ _ => cases hk
    | nolabel n' => cases hk
    | «catch» s' n' u' K' C' hrec' hkK' =>
      simp only at hs
      subst hs
      obtain ⟨R, hR, hRc⟩ := hrec
      obtain ⟨R', hR', hRc'⟩ := hrec'
      rw [hR] at hR'
      cases hR'
      rw [hRc] at hRc'
      cases hRc'
      rw [hkK] at hkK'
      cases hkK'
      rfl
  | self s n C hrec hg hkey htau =>
    cases h2 with
    | free s' n' => cases hk
    | args s' n' => cases hk
    | var s' n' A' C' _ _ _ _ _ _ => cases hk
    | glob n' A' _ _ _ _ _ => cases hk
    | «catch» s' n' u' K' C' _ _ => cases hk
    | label s' n' C' _ _ _ _ => cases hk
    | nolabel n' => cases hk
    | self s' n' C' hrec' hg' hkey' htau' =>
      simp only at hs hn
      subst hs
      obtain ⟨A, R, hR, hRc⟩ := hrec
      obtain ⟨A', R', hR', hRc'⟩ := hrec'
      rw [hR] at hR'
      cases hR'
      rw [hRc] at hRc'
      cases hRc'
      rw [htau n, htau n'] at hn
      rw [hg.ok.inj n hkey n' hkey' hn]
  | label s n C hlc hg hkey htau =>
    cases h2 with
    | free s' n' => cases hk
    | args s' n' => cases hk
    | var s' n' A' C' _ _ _ _ _ _ => cases hk
    | glob n' A' _ _ _ _ _ => cases hk
    | «catch» s' n' u' K' C' _ _ => cases hk
    | self s' n' C' _ _ _ _ => cases hk
    | nolabel n' => cases hk
    | label s' n' C' hlc' hg' hkey' htau' =>
      simp only at hs hn
      subst hs
      rw [hlc] at hlc'
      cases hlc'
      rw [htau n, htau n'] at hn
      rw [hg.ok.inj n hkey n' hkey' hn]
  | nolabel n =>
    cases h2 with
    | free s' n' => cases hk
    | args s' n' => cases hk
    | var s' n' A' C' _ _ _ _ _ _ => cases hk
    | glob n' A' _ _ _ _ _ => cases hk
    | «catch» s' n' u' K' C' _ _ => cases hk
    | self s' n' C' _ _ _ _ => cases hk
    | label s' n' C' _ _ _ _ => cases hk
    | nolabel n' => simp only at hn; simp [tauN] at hn; rw [hn]

theorem functional_of_inj (f : Binder → Binder) : ∀ (l : List Binder),
    (∀ x ∈ l, ∀ y ∈ l, f x = f y → x = y) → functional (l.map (fun b => (f b, b))) = true
  | [], _ => rfl
  | x :: rest, h => by
    simp only [List.map_cons, functional, Bool.and_eq_true, List.all_eq_true, List.mem_map]
    refine ⟨?_, functional_of_inj f rest (fun a ha b hb => h a (List.mem_cons_of_mem _ ha) b (List.mem_cons_of_mem _ hb))⟩
    rintro p ⟨b, hb, rfl⟩
    by_cases he : (f b == f x) = true
    · have e : f b = f x := (binder_beq_iff _ _).1 he
      have := h b (List.mem_cons_of_mem _ hb) x (List.mem_cons_self ..) e
      subst this
      simp [binder_beq_iff]
    · simp [he]

/-- `isoCond` from good binders -/
theorem isoCond_of_bok {recs : List Rec} {lc : SPath → Option (List Anc)} {τ : Tau} (og : Bool) (occs : List Occ)
    (hroot : og = false → ∀ A, RecRoot recs [A] → A.remapped = [])
    (h : ∀ b ∈ allBinders occs, BOK recs lc τ b) : isoCond τ og occs = true := by
  simp only [isoCond, Bool.and_eq_true, List.all_eq_true]
  refine ⟨?_, functional_of_inj (mapBinder τ) _ (fun x hx y hy => mapBinder_inj (h x hx) (h y hy))⟩
  intro b hb
  cases h b hb with
  | free s n => simp [tauN]
  | args s n => simp [tauN]
  | var s n A C _ _ _ _ _ _ => simp [keepsName]
  | «catch» s n u K C _ _ => simp [keepsName]
  | self s n C _ _ _ _ => simp [keepsName]
  | label s n C _ _ _ _ => simp [keepsName]
  | nolabel n => simp [tauN]
  | glob n A hrec _ _ _ htau =>
    cases og with
    | true => simp [keepsName]
    | false =>
      have := hroot rfl A hrec
      simp [keepsName, htau n, this, applyTable]

end CalmVerif.Obf
