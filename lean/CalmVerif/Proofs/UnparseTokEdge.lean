/-
The token-text condition `tokensEdgeB` from tree-level hypotheses:
 * non-empty, not starting with CR / LF: from builder rt's typed stream theorem (`walkChunks_typed`): every printed
   token has a signature of the first sets / the follow relation, and these contain neither `other` nor `empty`
   (kernel decision on the certificate);
 * not ending with a line terminator: from the provenance induction `walkChunks_out` with `endsOK` — every printed
   token is a string of the tree, `","` repeated, or a constant of a definition.
-/
import CalmVerif.Proofs.RoundTripSafePretty
import CalmVerif.Proofs.RoundTripTyped5
import CalmVerif.Proofs.UnparseTokens
import CalmVerif.Model.UnparseInst
namespace CalmVerif.Unparse
open CalmVerif CalmVerif.TokenAdj

/-! ### no printed token has the signature `other` or `empty` -/

def badSyms : SymSet := SymSet.ofList [Sym.t .other, Sym.t .empty]

def noBadTok (c : List (String × Abs)) (F : List Rect) : Bool :=
  c.all (fun p => (p.2.f.bits &&& badSyms.bits) == 0) && F.all (fun r => (r.2.bits &&& badSyms.bits) == 0)

set_option maxRecDepth 1000000 in
theorem noBadTok_pretty_forced :
    withCtx Gen.Rules.rs_indent Gen.Defs.definitions 4
      (fun cx => forceRects (allNeedsF cx Gen.Defs.definitions) fun F => noBadTok cx.cert F) = true := by
  decide +kernel

theorem noBadTok_pretty : noBadTok certPretty followPretty = true := by
  have h := noBadTok_pretty_forced
  rw [withCtx_eq, forceRects_eq, allNeedsF_eq] at h
  exact h

/-- a token symbol (even) is the erasure of itself only: occurrence symbols erase to marker symbols (odd) -/
theorem eraseSym_even {y n : Nat} (h : eraseSym y = 2 * n) : y = 2 * n := by
  unfold eraseSym at h
  by_cases hlt : y < 512
  · rw [if_pos hlt] at h; exact h
  · rw [if_neg hlt] at h
    exfalso
    have h2 : ∀ m : Nat, 2 * m + 1 ≠ 2 * n := by intro m; omega
    exact h2 _ h

theorem not_bad_of_mem {S : SymSet} (h : (S.bits &&& badSyms.bits) = 0) {x : Sym} (hx : x ∈ S) :
    x ≠ Sym.t .other ∧ x ≠ Sym.t .empty := by
  have hx' : S.bits.testBit x = true := hx
  have key : ∀ y, badSyms.bits.testBit y = true → x ≠ y := by
    intro y hy he
    subst he
    have : (S.bits &&& badSyms.bits).testBit x = true := by rw [Nat.testBit_and, hx', hy]; rfl
    rw [h] at this
    simp at this
  exact ⟨key _ (by decide), key _ (by decide)⟩

theorem pairsIn_mem (F : Follow) : ∀ (x : Sym) (l : List Sym), PairsIn F (x :: l) → ∀ y ∈ l, ∃ r ∈ F, y ∈ r.2 := by
  intro x l
  induction l generalizing x with
  | nil => intro _ y hy; cases hy
  | cons z zs ih =>
    intro h y hy
    have h' : InF F x z ∧ PairsIn F (z :: zs) := h
    rcases List.mem_cons.mp hy with rfl | hy
    · obtain ⟨r, hr, _, h2⟩ := h'.1
      exact ⟨r, hr, h2⟩
    · exact ih z h'.2 y hy

theorem inLang_mem {F : Follow} {a : Abs} {l : List Sym} (h : InLang F a l) :
    ∀ y ∈ l, y ∈ a.f ∨ ∃ r ∈ F, y ∈ r.2 := by
  cases l with
  | nil => intro y hy; cases hy
  | cons x xs =>
    intro y hy
    rcases List.mem_cons.mp hy with rfl | hy
    · exact Or.inl (h.fst _ rfl)
    · exact Or.inr (pairsIn_mem F x xs h.prs y hy)

theorem frag_of_tokenFrags : ∀ (cs : List Chunk) (f : Frag), f ∈ tokenFrags cs → Chunk.frag f ∈ cs
  | [], f, h => by simp [tokenFrags] at h
  | .frag g :: cs, f, h => by
    simp only [tokenFrags, List.mem_cons] at h
    rcases h with rfl | h
    · simp
    · exact List.mem_cons_of_mem _ (frag_of_tokenFrags cs f h)
  | .layout _ _ _ :: cs, f, h => by
    simp only [tokenFrags] at h
    exact List.mem_cons_of_mem _ (frag_of_tokenFrags cs f h)

theorem certOf_mem {cx : Ctx} {k : String} {a : Abs} (h : certOf cx k = some a) : ∃ p ∈ cx.cert, p.2 = a := by
  simp only [certOf, Option.map_eq_some_iff] at h
  obtain ⟨p, hp, rfl⟩ := h
  exact ⟨p, List.mem_of_find?_eq_some hp, rfl⟩

/-- every token printed for a well-typed node has a proper signature -/
theorem typed_tokens_sig (indent : Option String) (K : String) (attrs : List (String × Val))
    (hwf : wfVal cxPretty (.node K attrs) = true) (cs : List Chunk)
    (hw : walkChunks (prettyCfg indent) (.node K attrs) () = .ok (cs, ())) :
    ∀ f ∈ tokenFrags cs, sig f.text ≠ .other ∧ sig f.text ≠ .empty := by
  intro f hf
  obtain ⟨a, ha, l, hl, hin⟩ := walkChunks_typed (prettyTyped indent certPretty) followPretty followPretty_closed
    K attrs hwf () cs () hw
  have hnb := noBadTok_pretty
  simp only [noBadTok, Bool.and_eq_true, List.all_eq_true, beq_iff_eq] at hnb
  have hmem : Sym.t (sig f.text) ∈ TokenAdj.syms (prettyCfg indent).hd cs := by
    simp only [TokenAdj.syms, List.mem_map]
    exact ⟨.frag f, frag_of_tokenFrags cs f hf, rfl⟩
  rw [← hl, List.mem_map] at hmem
  obtain ⟨y, hy, hey⟩ := hmem
  have hyt : y = Sym.t (sig f.text) := eraseSym_even hey
  subst hyt
  have hne : Sym.t (sig f.text) ≠ Sym.t .other ∧ Sym.t (sig f.text) ≠ Sym.t .empty := by
    rcases inLang_mem hin _ hy with h | ⟨r, hr, h⟩
    · obtain ⟨p, hp, rfl⟩ := certOf_mem ha
      exact not_bad_of_mem (hnb.1 p hp) h
    · exact not_bad_of_mem (hnb.2 r hr) h
  exact ⟨fun he => hne.1 (by rw [he]), fun he => hne.2 (by rw [he])⟩

/-! ### a proper signature: non-empty, does not start with CR / LF -/

def headOK (t : String) : Bool :=
  match t.toList.head? with
  | some c => !(c == '\r' || c == '\n')
  | none => false

theorem litTable_headOK : litTable.all headOK = true := by decide +kernel

theorem sigChars_cr (rest : List Char) : sigChars ('\r' :: rest) = .other := by
  have h1 : isDigit '\r' = false := by decide
  have h2 : isIdStart '\r' = false := by decide
  simp [sigChars, h1, h2]

theorem sigChars_lf (rest : List Char) : sigChars ('\n' :: rest) = .other := by
  have h1 : isDigit '\n' = false := by decide
  have h2 : isIdStart '\n' = false := by decide
  simp [sigChars, h1, h2]

theorem headOK_of_sig (t : String) (h1 : sig t ≠ .other) (h2 : sig t ≠ .empty) : headOK t = true := by
  simp only [sig] at h1 h2
  cases hl : litIdx t with
  | some i =>
    have hm := idxIn_mem t litTable 0 i hl
    have := litTable_headOK
    simp only [List.all_eq_true] at this
    exact this t hm
  | none =>
    rw [hl] at h1 h2
    simp only at h1 h2
    cases hc : t.toList with
    | nil => rw [hc] at h2; simp [sigChars] at h2
    | cons c rest =>
      rw [hc] at h1
      simp only [headOK, hc, List.head?_cons]
      by_cases hr : c = '\r'
      · subst hr; exact absurd (sigChars_cr rest) h1
      · by_cases hn : c = '\n'
        · subst hn; exact absurd (sigChars_lf rest) h1
        · simp [hr, hn]

/-! ### no printed token ends with a line terminator -/

theorem endsOK_strMul (v : String) (n : Int) (h : endsOK v = true) : endsOK (strMul v n) = true := by
  simp only [endsOK, strMul, String.toList_ofList] at h ⊢
  cases hn : n.toNat with
  | zero => simp
  | succ m =>
    cases hv : v.toList with
    | nil => simp
    | cons a t =>
      rw [hv] at h
      rw [List.replicate_succ', List.flatten_append]
      simp only [List.flatten_cons, List.flatten_nil, List.append_nil]
      rw [List.getLast?_append]
      cases hg : (a :: t).getLast? with
      | none => simp at hg
      | some d => rw [hg] at h; simpa using h

/-- the constants of the definitions do not end with a line terminator; the pretty printer has no handler that
rewrites literals and no Resolve hook -/
theorem pretty_cfg_endsOK (indent : Option String) : CfgOK (prettyCfg indent) endsOK endsOK anyStr where
  defs := by
    show defsOK endsOK endsOK Gen.Defs.definitions = true
    decide +kernel
  sep := by
    show valAll endsOK anyStr Gen.Defs.elisionSep = true
    decide
  mul := endsOK_strMul
  cont := by
    intro h
    have h1 : (prettyCfg indent).literal = none := by
      show deferLookup Gen.Rules.rs_indent.deferrable .literal = none; decide
    have h2 : (prettyCfg indent).lineComment = some .comment := by
      show deferLookup Gen.Rules.rs_indent.deferrable .lineComment = some .comment; decide
    have h3 : (prettyCfg indent).blockComment = some .comment := by
      show deferLookup Gen.Rules.rs_indent.deferrable .blockComment = some .comment; decide
    rw [h1, h2, h3] at h
    simp at h
  resolve := by
    intro f hf
    have : (prettyCfg indent).resolve = none := rfl
    rw [this] at hf; cases hf

/-- the token-text condition of the stream follows from the slot typing and "no string value of the tree ends with a
line terminator" -/
theorem tokensEdgeB_of_tree (indent : Option String) (K : String) (attrs : List (String × Val))
    (hwf : wfVal cxPretty (.node K attrs) = true)
    (he : valAll endsOK anyStr (.node K attrs) = true) (cs : List Chunk)
    (hw : walkChunks (prettyCfg indent) (.node K attrs) () = .ok (cs, ())) :
    tokensEdgeB cs = true := by
  have hsig := typed_tokens_sig indent K attrs hwf cs hw
  have hout := walkChunks_out (pretty_cfg_endsOK indent) _ he () cs () hw
  simp only [tokensEdgeB, List.all_eq_true, Bool.and_eq_true]
  intro f hf
  have hh := headOK_of_sig f.text (hsig f hf).1 (hsig f hf).2
  have hl : endsOK f.text = true := by rcases out_tokens hout f hf with h | h <;> exact h
  simp only [headOK] at hh
  simp only [endsOK] at hl
  refine ⟨hh, ?_⟩
  cases hc : f.text.toList with
  | nil => rw [hc] at hh; simp at hh
  | cons c rest =>
    rw [hc] at hl
    cases hg : (c :: rest).getLast? with
    | none => simp at hg
    | some d => rw [hg] at hl; exact hl

end CalmVerif.Unparse
