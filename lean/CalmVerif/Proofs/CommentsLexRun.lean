/-
C13, faithfulness on final trees, token-source level: along every run of the LR driver over the real token source
(`token` / `auto_semi` / `backtracked_token` / `p_error`), every comment in the `hidden_tokens` of every token the
driver holds or has shifted is a comment token of the source text (`CommentOK`).
-/
import CalmVerif.Proofs.CommentsFaithful
import CalmVerif.Proofs.LexerLoop
import CalmVerif.Proofs.NodePosGhost
import CalmVerif.Model.Parser
import CalmVerif.Proofs.CommentsParser

namespace CalmVerif.Proofs.Comments
open CalmVerif CalmVerif.Model CalmVerif.Model.LR CalmVerif.Model.Lexer CalmVerif.Model.Parser
open CalmVerif.Proofs.LexerStep CalmVerif.Proofs.LexerLoop

/-- the comments a token carries are comment tokens of the source -/
def TokCOK (text : List Char) (t : Token) : Prop := AllOK text t.hidden

def OTokCOK (text : List Char) (t : Option Token) : Prop := ∀ x, t = some x → TokCOK text x

/-- lexer states over `text` whose pending comments, and the comments of the pushed-back tokens, are comment tokens of
    the source -/
def StOK (text : List Char) (st : LexState) : Prop :=
  st.text = text ∧ AllOK text st.hiddenTokens ∧ ∀ t ∈ st.nextTokens, TokCOK text t

theorem allOK_nil (text : List Char) : AllOK text [] := fun _ h => by simp at h

theorem init_stOK (text : List Char) (wc yc : Bool) : StOK text (init text wc yc) :=
  ⟨rfl, allOK_nil _, fun _ h => by simp [init] at h⟩

theorem token'_ok {text : List Char} {st st' : LexState} {r : Option Token} (hst : StOK text st)
    (h : token' st = .ok (r, st')) : StOK text st' ∧ OTokCOK text r := by
  obtain ⟨htx, hp, hn⟩ := hst
  unfold token' at h
  split at h
  · next t rest hnt =>
    simp only [Except.ok.injEq, Prod.mk.injEq] at h
    obtain ⟨rfl, rfl⟩ := h
    refine ⟨⟨htx, hp, fun x hx => hn x (by rw [hnt]; exact List.mem_cons_of_mem _ hx)⟩, ?_⟩
    intro x hx
    cases hx
    exact hn t (by rw [hnt]; exact List.mem_cons_self ..)
  · next hnt =>
    have hspec := tokenLoop_spec _ _ _ _ h
    have hall := tokenLoop_allok _ _ _ _ h (by rw [htx]; exact hp)
    rw [htx] at hall
    refine ⟨⟨hspec.1.1.trans htx, hall, ?_⟩, ?_⟩
    · rw [hspec.1.2.2.2, hnt]; intro t ht; simp at ht
    · intro x hx
      subst hx
      have := tokenLoop_fresh _ _ _ _ h
      unfold TokCOK
      rw [this]
      exact allOK_nil _

theorem token_ok {text : List Char} {st st' : LexState} {r : Option Token} (hst : StOK text st)
    (h : token st = .ok (r, st')) : StOK text st' ∧ OTokCOK text r := by
  unfold token at h
  split at h
  · simp at h
  · next st1 ht =>
    simp only [Except.ok.injEq, Prod.mk.injEq] at h
    obtain ⟨rfl, rfl⟩ := h
    exact token'_ok hst ht
  · next t st1 ht =>
    obtain ⟨hst1, ht1⟩ := token'_ok hst ht
    split at h
    · simp only [Except.ok.injEq, Prod.mk.injEq] at h
      obtain ⟨rfl, rfl⟩ := h
      refine ⟨⟨hst1.1, allOK_nil _, hst1.2.2⟩, ?_⟩
      intro x hx
      cases hx
      exact hst1.2.1
    · simp only [Except.ok.injEq, Prod.mk.injEq] at h
      obtain ⟨rfl, rfl⟩ := h
      exact ⟨hst1, ht1⟩

theorem createSemi_ok (text : List Char) (st : LexState) (o : Option Token) :
    TokCOK text (createSemiToken st o).1 ∧ (createSemiToken st o).2.text = st.text ∧
    (createSemiToken st o).2.hiddenTokens = st.hiddenTokens ∧ (createSemiToken st o).2.nextTokens = st.nextTokens := by
  cases o <;> exact ⟨allOK_nil _, rfl, rfl, rfl⟩

theorem autoSemi_ok {text : List Char} {st : LexState} {tok : Option Token} (hst : StOK text st)
    (htok : OTokCOK text tok) : StOK text (autoSemi st tok).2 ∧ OTokCOK text (autoSemi st tok).1 := by
  obtain ⟨htx, hp, hn⟩ := hst
  unfold autoSemi
  cases tok with
  | none =>
    obtain ⟨h1, h2, h3, h4⟩ := createSemi_ok text st none
    refine ⟨⟨h2.trans htx, by rw [h3]; exact hp, by rw [h4]; exact hn⟩, ?_⟩
    intro x hx; cases hx; exact h1
  | some t =>
    simp only []
    split
    · obtain ⟨h1, h2, h3, h4⟩ := createSemi_ok text { st with nextTokens := t :: st.nextTokens } (some t)
      refine ⟨⟨h2.trans htx, by rw [h3]; exact hp, ?_⟩, ?_⟩
      · rw [h4]
        intro x hx
        simp only [List.mem_cons] at hx
        rcases hx with rfl | hx
        · exact htok _ rfl
        · exact hn x hx
      · intro x hx; cases hx; exact h1
    · exact ⟨⟨htx, hp, hn⟩, fun x hx => by cases hx⟩

theorem backtrackedToken_ok {text : List Char} {st st' : LexState} {pos : Nat} {r : Option Token} (hst : StOK text st)
    (h : backtrackedToken st pos = .ok (r, st')) : StOK text st' ∧ OTokCOK text r := by
  unfold backtrackedToken at h
  split at h
  · simp at h
  · have hst1 : StOK text { st with lexpos := st.lexpos - pos, nextTokens := [] } :=
      ⟨hst.1, hst.2.1, fun t ht => by simp at ht⟩
    dsimp only at h
    split at h
    · simp at h
    · next tok st2 ht =>
      simp only [Except.ok.injEq, Prod.mk.injEq] at h
      obtain ⟨rfl, rfl⟩ := h
      obtain ⟨h2, h3⟩ := token_ok hst1 ht
      exact ⟨⟨h2.1, h2.2.1, h2.2.2⟩, h3⟩

theorem pError_ok {text : List Char} {st st' : LexState} {tok r : Option Token} (hst : StOK text st)
    (htok : OTokCOK text tok) (h : pError st tok = .ok (r, st')) : StOK text st' ∧ OTokCOK text r := by
  rw [pError_eq] at h
  unfold pError' at h
  have ha := autoSemi_ok hst htok
  cases hs : autoSemi st tok with
  | mk semi st1 =>
    rw [hs] at h ha
    cases semi with
    | some s =>
      simp only [Except.ok.injEq, Prod.mk.injEq] at h
      obtain ⟨rfl, rfl⟩ := h
      exact ha
    | none =>
      simp only [] at h
      cases hc : (st1.curToken <|> tok) with
      | none => simp [hc] at h
      | some cur =>
        simp only [hc] at h
        unfold pErrorTail at h
        cases hbt : btTest cur st1.validPrevToken with
        | false => simp [hbt] at h
        | true =>
          simp only [hbt, if_true] at h
          cases hb : backtrackedToken st1 1 with
          | error e => simp [hb] at h
          | ok res =>
            obtain ⟨rt, st2⟩ := res
            cases rt with
            | none => simp [hb] at h
            | some rt =>
              simp only [hb] at h
              split at h
              · simp only [Except.ok.injEq, Prod.mk.injEq] at h
                obtain ⟨rfl, rfl⟩ := h
                exact backtrackedToken_ok ha.1 hb
              · simp at h

/-! ### along the run of the driver -/

/-- the invariant of a configuration: source state, look-ahead and shifted tokens -/
def CfgOK {ν : Type} (text : List Char) (c : Config Token ν LexState) : Prop :=
  StOK text c.src ∧ (∀ o, c.look = some o → OTokCOK text o) ∧ ∀ t ∈ c.shifted, TokCOK text t

theorem source_next_ok {text : List Char} {st st' : LexState} {r : Option Token} (hst : StOK text st)
    (h : source.next st = .ok (r, st')) : StOK text st' ∧ OTokCOK text r := by
  unfold source at h
  simp only [] at h
  cases ht : Lexer.token st with
  | error e => simp [ht] at h
  | ok res =>
    simp only [ht, Except.ok.injEq] at h
    subst h
    exact token_ok hst ht

theorem step_cfgOK {ν : Type} (T : Tables) (S : Sem Token ν LexState PErr) {text : List Char}
    {c c' : Config Token ν LexState} (hc : CfgOK text c) (hs : step T S source c = .inl c') : CfgOK text c' := by
  obtain ⟨hsrc, hlook, hsh⟩ := hc
  unfold step at hs
  split at hs
  · simp at hs
  · next st below hst =>
    -- `fetch` keeps the invariant
    have hfetch : ∀ a c1, fetch T S source c st = .ok (a, c1) → CfgOK text c1 := by
      intro a c1 hf
      unfold fetch at hf
      split at hf
      · simp only [Except.ok.injEq, Prod.mk.injEq] at hf
        rw [← hf.2]; exact ⟨hsrc, hlook, hsh⟩
      · split at hf
        · simp only [Except.ok.injEq, Prod.mk.injEq] at hf
          rw [← hf.2]; exact ⟨hsrc, hlook, hsh⟩
        · split at hf
          · simp at hf
          · next t s' hn =>
            simp only [Except.ok.injEq, Prod.mk.injEq] at hf
            rw [← hf.2]
            obtain ⟨h1, h2⟩ := source_next_ok hsrc hn
            exact ⟨h1, fun o ho => by simp only [Option.some.injEq] at ho; subst ho; exact h2, hsh⟩
    split at hs
    · simp at hs
    · next s c1 hf =>
      obtain ⟨h1, h2, h3⟩ := hfetch _ _ hf
      unfold doShift at hs
      split at hs
      · next t hlk =>
        simp only [Sum.inl.injEq] at hs
        subst hs
        refine ⟨h1, fun o ho => by simp at ho, ?_⟩
        intro x hx
        simp only [List.mem_cons] at hx
        rcases hx with rfl | hx
        · exact h2 _ hlk _ rfl
        · exact h3 x hx
      · simp at hs
    · next p c1 hf =>
      obtain ⟨h1, h2, h3⟩ := hfetch _ _ hf
      unfold doReduce at hs
      split at hs
      · simp at hs
      · split at hs
        · split at hs
          · simp at hs
          · split at hs
            · simp at hs
            · split at hs
              · simp only [Sum.inl.injEq] at hs
                subst hs
                exact ⟨h1, h2, h3⟩
              · simp at hs
        · simp at hs
    · split at hs <;> simp at hs
    · next c1 hf =>
      obtain ⟨h1, h2, h3⟩ := hfetch _ _ hf
      unfold doError at hs
      have hlt : OTokCOK text (lookTok c1) := by
        unfold lookTok
        intro x hx
        split at hx
        · next t hlk => cases hx; exact h2 _ hlk _ rfl
        · simp at hx
      cases hr : source.onError c1.src (lookTok c1) with
      | error e => simp [hr] at hs
      | ok res =>
        obtain ⟨t?, s'⟩ := res
        cases t? with
        | none => simp [hr] at hs
        | some t =>
          simp only [hr, Sum.inl.injEq] at hs
          subst hs
          obtain ⟨g1, g2⟩ := pError_ok h1 hlt hr
          exact ⟨g1, fun o ho => by simp only [Option.some.injEq] at ho; subst ho; exact g2, h3⟩

theorem reach_cfgOK {ν : Type} (T : Tables) (S : Sem Token ν LexState PErr) {text : List Char}
    {c c' : Config Token ν LexState} (hc : CfgOK text c) (hr : Reach T S source c c') : CfgOK text c' := by
  induction hr with
  | refl => exact hc
  | step _ hs ih => exact step_cfgOK T S ih hs

theorem init_cfgOK {ν : Type} (text : List Char) (wc yc : Bool) :
    CfgOK text (initConfig (init text wc yc) : Config Token ν LexState) :=
  ⟨init_stOK text wc yc, fun o ho => by simp [initConfig] at ho, fun t ht => by simp [initConfig] at ht⟩

end CalmVerif.Proofs.Comments
