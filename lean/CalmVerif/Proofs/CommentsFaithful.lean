/-
C13, faithfulness at the lexer: what `hidden_tokens` / `token.hidden_tokens` contain.
-/
import CalmVerif.Proofs.LexerStep

namespace CalmVerif.Proofs.Comments
open CalmVerif.Model.TokenRegex CalmVerif.Model.PlyLex CalmVerif.Model.Lexer
open CalmVerif.Proofs.LexerPly CalmVerif.Proofs.LexerStep
open CalmVerif.Spec.LexSeg

/-! ### `hidden_tokens` is only touched by the loop of `_token` and by `token` -/

theorem getLexerToken_hid (s : LexerState) (st : LexState) (r : Option Token) (st' : LexState)
    (h : getLexerToken s st = .ok (r, st')) : st'.hiddenTokens = st.hiddenTokens := by
  unfold getLexerToken at h
  split at h
  · simp at h; rw [← h.2]
  · simp at h
  · split at h <;> simp at h
  · split at h
    · simp at h
    · simp at h; rw [← h.2]; rfl

theorem setTokens_hid (st : LexState) (t : Option Token) (st' : LexState) (h : setTokens st t = .ok st') :
    st'.hiddenTokens = st.hiddenTokens := by
  unfold setTokens at h
  split at h
  · simp at h
  · simp at h; rw [← h]

theorem updateStack_hid (st : LexState) (cur : Token) (st' : LexState) (h : updateStack st cur = .ok st') :
    st'.hiddenTokens = st.hiddenTokens := by
  obtain ⟨ts, rfl⟩ := updateStack_spec _ _ _ h
  rfl

theorem getUpdateToken_hid (st : LexState) (r : Option Token) (st' : LexState)
    (h : getUpdateToken st = .ok (r, st')) : st'.hiddenTokens = st.hiddenTokens := by
  unfold getUpdateToken at h
  split at h
  · simp at h
  · rename_i tok st1 hg
    have h1 := getLexerToken_hid _ _ _ _ hg
    split at h
    · simp at h
    · rename_i st2 hs
      have h2 := setTokens_hid _ _ _ hs
      split at h
      · simp at h; rw [← h.2, h2, h1]
      · split at h
        · simp at h
        · rename_i st3 hu
          have h3 := updateStack_hid _ _ _ hu
          split at h
          · simp only [createSemiToken, Except.ok.injEq, Prod.mk.injEq] at h
            rw [← h.2]; show st3.hiddenTokens = _; rw [h3, h2, h1]
          · simp at h; rw [← h.2, h3, h2, h1]

theorem divOrRegex_hid (st : LexState) (r : Option Token) (st' : LexState)
    (h : divOrRegex st = .ok (r, st')) : st'.hiddenTokens = st.hiddenTokens := by
  unfold divOrRegex at h
  split at h
  · simp at h
  · exact getUpdateToken_hid _ _ _ h
  · split at h
    · simp at h
    · rename_i tok st1 hg
      have h1 := getLexerToken_hid _ _ _ _ hg
      split at h
      · simp at h
      · rename_i st2 hs
        have h2 := setTokens_hid _ _ _ hs
        simp at h; rw [← h.2, h2, h1]

/-! ### the read position never moves backwards in a lexing step -/

theorem getLexerToken_le (s : LexerState) (st : LexState) (r : Option Token) (st' : LexState)
    (h : getLexerToken s st = .ok (r, st')) : st.lexpos ≤ st'.lexpos := by
  unfold getLexerToken at h
  split at h
  · rename_i p hp
    have := (plyToken_eof _ _ _ _ hp).2
    simp at h; rw [← h.2]; show st.lexpos ≤ p; omega
  · simp at h
  · split at h <;> simp at h
  · rename_i ty start len hp
    have := (plyToken_tok _ _ _ _ _ _ hp).1
    split at h
    · simp at h
    · simp at h; rw [← h.2]; show st.lexpos ≤ start + len; omega

theorem setTokens_lexpos (st : LexState) (t : Option Token) (st' : LexState) (h : setTokens st t = .ok st') :
    st'.lexpos = st.lexpos := by
  unfold setTokens at h
  split at h
  · simp at h
  · simp at h; rw [← h]

theorem updateStack_lexpos (st : LexState) (cur : Token) (st' : LexState) (h : updateStack st cur = .ok st') :
    st'.lexpos = st.lexpos := by
  obtain ⟨ts, rfl⟩ := updateStack_spec _ _ _ h
  rfl

theorem getUpdateToken_le (st : LexState) (r : Option Token) (st' : LexState)
    (h : getUpdateToken st = .ok (r, st')) : st.lexpos ≤ st'.lexpos := by
  unfold getUpdateToken at h
  split at h
  · simp at h
  · rename_i tok st1 hg
    have h1 := getLexerToken_le _ _ _ _ hg
    split at h
    · simp at h
    · rename_i st2 hs
      have h2 := setTokens_lexpos _ _ _ hs
      split at h
      · simp at h; rw [← h.2, h2]; exact h1
      · split at h
        · simp at h
        · rename_i st3 hu
          have h3 := updateStack_lexpos _ _ _ hu
          split at h
          · simp only [createSemiToken, Except.ok.injEq, Prod.mk.injEq] at h
            rw [← h.2]; show _ ≤ st3.lexpos; rw [h3, h2]; exact h1
          · simp at h; rw [← h.2, h3, h2]; exact h1

theorem divOrRegex_le (st : LexState) (r : Option Token) (st' : LexState)
    (h : divOrRegex st = .ok (r, st')) : st.lexpos ≤ st'.lexpos := by
  unfold divOrRegex at h
  split at h
  · simp at h
  · exact getUpdateToken_le _ _ _ h
  · split at h
    · simp at h
    · rename_i tok st1 hg
      have h1 := getLexerToken_le _ _ _ _ hg
      split at h
      · simp at h
      · rename_i st2 hs
        have h2 := setTokens_lexpos _ _ _ hs
        simp at h; rw [← h.2, h2]; exact h1

/-! ### what a captured comment is -/

/-- a comment token of the source `text`: its type is LINE_COMMENT / BLOCK_COMMENT, its value is the slice of the text at
    its recorded offset, and it is the lexeme the first matching lexer rule matches there, that rule giving its type -/
def CommentOK (text : List Char) (c : Comment) : Prop :=
  isComment c.type = true ∧
  c.lexpos + c.value.length ≤ text.length ∧
  slice text c.lexpos (c.lexpos + c.value.length) = c.value ∧
  ∃ s r, FirstMatch (rulesOf s) (text.drop c.lexpos) r c.value.length ∧ ∃ ap, c.type = ruleFn ap r c.value

/-- the pending comments are comment tokens of the source, lie before the read position, in source order, disjoint -/
def HidInv (text : List Char) (lexpos : Nat) (hid : List Comment) : Prop :=
  (∀ c ∈ hid, CommentOK text c ∧ c.lexpos + c.value.length ≤ lexpos) ∧
  hid.Pairwise (fun a b => a.lexpos + a.value.length ≤ b.lexpos)

theorem HidInv.mono {text : List Char} {p q : Nat} {hid : List Comment} (h : HidInv text p hid) (hpq : p ≤ q) :
    HidInv text q hid :=
  ⟨fun c hc => ⟨(h.1 c hc).1, Nat.le_trans (h.1 c hc).2 hpq⟩, h.2⟩

theorem HidInv.nil (text : List Char) (p : Nat) : HidInv text p [] :=
  ⟨fun _ h => by simp at h, List.Pairwise.nil⟩

theorem autosemi_not_comment : isComment "AUTOSEMI" = false := by decide

/-- a raw step moves the read position forward -/
theorem rawStep_lexpos {st : LexState} {t : Token} {st1 : LexState} (h : RawStep st (some t) st1) :
    st.lexpos ≤ st1.lexpos := by
  obtain ⟨_, s, raw, st0, hraw, hp, _⟩ := h
  rw [hp.1, hraw.lexpos]
  have := hraw.le
  omega

/-- a comment token handed to the loop of `_token` is a comment token of the source, not before the read position,
    and the read position is moved to its end -/
theorem rawStep_comment {st : LexState} {t : Token} {st1 : LexState} (h : RawStep st (some t) st1)
    (hc : isComment t.type = true) :
    CommentOK st.text t.toComment ∧ st.lexpos ≤ t.lexpos ∧ st1.lexpos = t.lexpos + t.value.length := by
  obtain ⟨_, s, raw, st0, hraw, hp, hcase⟩ := h
  rcases hcase with rfl | ⟨_, hty, _⟩
  · refine ⟨⟨hc, hraw.bound, hraw.val, s, (let ⟨r, h1, h2⟩ := hraw.rule; ⟨r, h1, _, h2⟩)⟩, hraw.le, ?_⟩
    rw [hp.1, hraw.lexpos]
  · rw [hty, autosemi_not_comment] at hc
    cases hc

theorem HidInv.snoc {st : LexState} {t : Token} {st1 : LexState} (hi : HidInv st.text st.lexpos st.hiddenTokens)
    (h : RawStep st (some t) st1) (hc : isComment t.type = true) :
    HidInv st.text st1.lexpos (st.hiddenTokens ++ [t.toComment]) := by
  obtain ⟨hok, hle, hpos⟩ := rawStep_comment h hc
  constructor
  · intro c hcm
    rw [List.mem_append] at hcm
    rcases hcm with hcm | hcm
    · exact ⟨(hi.1 c hcm).1, by have := (hi.1 c hcm).2; omega⟩
    · simp only [List.mem_singleton] at hcm
      subst hcm
      exact ⟨hok, by show t.lexpos + t.value.length ≤ _; omega⟩
  · rw [List.pairwise_append]
    refine ⟨hi.2, List.pairwise_singleton _ _, ?_⟩
    intro a ha b hb
    simp only [List.mem_singleton] at hb
    subst hb
    have := (hi.1 a ha).2
    show _ ≤ t.lexpos
    omega

/-- the loop of `_token` keeps the invariant -/
theorem tokenLoop_hid : ∀ (fuel : Nat) (st : LexState) (r : Option Token) (st' : LexState),
    tokenLoop fuel st = .ok (r, st') → HidInv st.text st.lexpos st.hiddenTokens →
    HidInv st.text st'.lexpos st'.hiddenTokens ∧ st'.text = st.text := by
  intro fuel
  induction fuel with
  | zero => intro st r st' h; simp [tokenLoop] at h
  | succ fuel ih =>
    intro st r st' h hinv
    have hkeep : ∀ (r0 : Option Token) (st1 : LexState), RawStep st r0 st1 → st1.hiddenTokens = st.hiddenTokens →
        st.lexpos ≤ st1.lexpos → HidInv st1.text st1.lexpos st1.hiddenTokens := by
      intro r0 st1 hraw hh hle
      rw [hraw.1.1, hh]
      exact hinv.mono hle
    have hrec : ∀ (st1 : LexState), st1.text = st.text → HidInv st1.text st1.lexpos st1.hiddenTokens →
        tokenLoop fuel st1 = .ok (r, st') → HidInv st.text st'.lexpos st'.hiddenTokens ∧ st'.text = st.text := by
      intro st1 ht hi hr
      have := ih st1 r st' hr hi
      rw [ht] at this
      exact this
    unfold tokenLoop at h
    split at h
    · split at h
      · simp at h
      · rename_i st1 hg
        simp at h
        obtain ⟨rfl, rfl⟩ := h
        have hraw := getUpdateToken_spec _ _ _ hg
        have := hkeep _ _ hraw (getUpdateToken_hid _ _ _ hg) (getUpdateToken_le _ _ _ hg)
        rw [hraw.1.1] at this
        exact ⟨this, hraw.1.1⟩
      · rename_i t0 st1 hg
        have hraw := getUpdateToken_spec _ _ _ hg
        have hk := hkeep _ _ hraw (getUpdateToken_hid _ _ _ hg) (getUpdateToken_le _ _ _ hg)
        split at h
        · exact hrec st1 hraw.1.1 hk h
        · simp at h
          obtain ⟨rfl, rfl⟩ := h
          rw [hraw.1.1] at hk
          exact ⟨hk, hraw.1.1⟩
    · split at h
      · split at h
        · simp at h
        · rename_i st1 hg
          simp at h
          obtain ⟨rfl, rfl⟩ := h
          have hraw := getUpdateToken_spec _ _ _ hg
          have := hkeep _ _ hraw (getUpdateToken_hid _ _ _ hg) (getUpdateToken_le _ _ _ hg)
          rw [hraw.1.1] at this
          exact ⟨this, hraw.1.1⟩
        · rename_i t0 st1 hg
          have hraw := getUpdateToken_spec _ _ _ hg
          have hh := getUpdateToken_hid _ _ _ hg
          have hk := hkeep _ _ hraw hh (getUpdateToken_le _ _ _ hg)
          have hdone : HidInv st.text st1.lexpos st1.hiddenTokens ∧ st1.text = st.text := by
            rw [hraw.1.1] at hk
            exact ⟨hk, hraw.1.1⟩
          split at h
          · split at h
            · rename_i hcm
              split at h
              · simp at h
                obtain ⟨rfl, rfl⟩ := h
                exact hdone
              · split at h
                · -- the comment is captured
                  refine hrec { st1 with hiddenTokens := st1.hiddenTokens ++ [t0.toComment] } hraw.1.1 ?_ h
                  show HidInv st1.text st1.lexpos (st1.hiddenTokens ++ [t0.toComment])
                  rw [hraw.1.1, hh]
                  exact hinv.snoc hraw hcm
                · exact hrec st1 hraw.1.1 hk h
            · exact hrec st1 hraw.1.1 hk h
          · simp at h
            obtain ⟨rfl, rfl⟩ := h
            exact hdone
      · have hraw := divOrRegex_spec _ _ _ h
        have := hkeep _ _ hraw (divOrRegex_hid _ _ _ h) (divOrRegex_le _ _ _ h)
        rw [hraw.1.1] at this
        exact ⟨this, hraw.1.1⟩

/-! ### tokens come out of the loop of `_token` without `hidden_tokens` -/

theorem getLexerToken_fresh (s : LexerState) (st : LexState) (t : Token) (st' : LexState)
    (h : getLexerToken s st = .ok (some t, st')) : t.hidden = [] := by
  unfold getLexerToken at h
  split at h
  · simp at h
  · simp at h
  · split at h <;> simp at h
  · split at h
    · simp at h
    · simp at h; rw [← h.1]

theorem getUpdateToken_fresh (st : LexState) (t : Token) (st' : LexState)
    (h : getUpdateToken st = .ok (some t, st')) : t.hidden = [] := by
  unfold getUpdateToken at h
  split at h
  · simp at h
  · rename_i tok st1 hg
    split at h
    · simp at h
    · rename_i st2 hs
      obtain ⟨_, _, hc2⟩ := setTokens_spec _ _ _ hs
      split at h
      · simp at h
      · rename_i cur hcur
        rw [hc2] at hcur
        subst hcur
        have hf := getLexerToken_fresh _ _ _ _ hg
        split at h
        · simp at h
        · split at h
          · simp only [createSemiToken, Except.ok.injEq, Prod.mk.injEq, Option.some.injEq] at h
            rw [← h.1]
          · simp at h; rw [← h.1]; exact hf

theorem divOrRegex_fresh (st : LexState) (t : Token) (st' : LexState)
    (h : divOrRegex st = .ok (some t, st')) : t.hidden = [] := by
  unfold divOrRegex at h
  split at h
  · simp at h
  · exact getUpdateToken_fresh _ _ _ h
  · split at h
    · simp at h
    · rename_i tok st1 hg
      unfold readRegex at hg
      split at h
      · simp at h
      · rename_i st2 hs
        obtain ⟨_, _, hc2⟩ := setTokens_spec _ _ _ hs
        simp only [Except.ok.injEq, Prod.mk.injEq] at h
        rw [hc2] at h
        obtain ⟨rfl, _⟩ := h
        exact getLexerToken_fresh _ _ _ _ hg

theorem tokenLoop_fresh : ∀ (fuel : Nat) (st : LexState) (t : Token) (st' : LexState),
    tokenLoop fuel st = .ok (some t, st') → t.hidden = [] := by
  intro fuel
  induction fuel with
  | zero => intro st t st' h; simp [tokenLoop] at h
  | succ fuel ih =>
    intro st t st' h
    unfold tokenLoop at h
    split at h
    · split at h
      · simp at h
      · simp at h
      · rename_i t0 st1 hg
        split at h
        · exact ih _ _ _ h
        · simp at h
          obtain ⟨rfl, rfl⟩ := h
          exact getUpdateToken_fresh _ _ _ hg
    · split at h
      · split at h
        · simp at h
        · simp at h
        · rename_i t0 st1 hg
          split at h
          · split at h
            · split at h
              · simp at h
                obtain ⟨rfl, rfl⟩ := h
                exact getUpdateToken_fresh _ _ _ hg
              · split at h
                · exact ih _ _ _ h
                · exact ih _ _ _ h
            · exact ih _ _ _ h
          · simp at h
            obtain ⟨rfl, rfl⟩ := h
            exact getUpdateToken_fresh _ _ _ hg
      · exact divOrRegex_fresh _ _ _ h

/-- T: `token()` from a state whose pending comments satisfy the invariant (and with nothing pushed back) hands the
    pending comments to the token it returns and clears them — or keeps the invariant at the end of input -/
theorem token_hid (st : LexState) (hn : st.nextTokens = []) (r : Option Token) (st' : LexState)
    (h : token st = .ok (r, st')) (hinv : HidInv st.text st.lexpos st.hiddenTokens) :
    st'.text = st.text ∧ HidInv st.text st'.lexpos st'.hiddenTokens ∧
    (∀ t, r = some t →
      (t.hidden ≠ [] → st'.hiddenTokens = []) ∧ HidInv st.text st'.lexpos t.hidden) := by
  unfold token at h
  split at h
  · simp at h
  · rename_i st1 ht
    simp at h
    obtain ⟨rfl, rfl⟩ := h
    unfold token' at ht
    rw [hn] at ht
    have := tokenLoop_hid _ _ _ _ ht hinv
    exact ⟨this.2, this.1, fun t ht => by cases ht⟩
  · rename_i t0 st1 ht
    unfold token' at ht
    rw [hn] at ht
    have hl := tokenLoop_hid _ _ _ _ ht hinv
    have hfresh : t0.hidden = [] := tokenLoop_fresh _ _ _ _ ht
    split at h
    · simp at h
      obtain ⟨rfl, rfl⟩ := h
      refine ⟨hl.2, HidInv.nil _ _, ?_⟩
      intro t ht
      cases ht
      exact ⟨fun _ => rfl, hl.1⟩
    · simp at h
      obtain ⟨rfl, rfl⟩ := h
      refine ⟨hl.2, hl.1, ?_⟩
      intro t ht
      cases ht
      rw [hfresh]
      exact ⟨fun hne => absurd rfl hne, HidInv.nil _ _⟩

/-! ### the robust part of the invariant: every captured comment is a comment token of the source
     (no position bound: it survives `backtracked_token` and the pushing back of tokens) -/

def AllOK (text : List Char) (l : List Comment) : Prop := ∀ c ∈ l, CommentOK text c

theorem tokenLoop_allok : ∀ (fuel : Nat) (st : LexState) (r : Option Token) (st' : LexState),
    tokenLoop fuel st = .ok (r, st') → AllOK st.text st.hiddenTokens → AllOK st.text st'.hiddenTokens := by
  intro fuel
  induction fuel with
  | zero => intro st r st' h; simp [tokenLoop] at h
  | succ fuel ih =>
    intro st r st' h hinv
    have hrec : ∀ (st1 : LexState), st1.text = st.text → AllOK st1.text st1.hiddenTokens →
        tokenLoop fuel st1 = .ok (r, st') → AllOK st.text st'.hiddenTokens := by
      intro st1 ht hi hr
      have := ih st1 r st' hr hi
      rw [ht] at this
      exact this
    have hsame : ∀ (st1 : LexState), st1.text = st.text → st1.hiddenTokens = st.hiddenTokens →
        AllOK st1.text st1.hiddenTokens := by
      intro st1 ht hh
      rw [ht, hh]; exact hinv
    unfold tokenLoop at h
    split at h
    · split at h
      · simp at h
      · rename_i st1 hg
        simp at h
        obtain ⟨rfl, rfl⟩ := h
        have hraw := getUpdateToken_spec _ _ _ hg
        have := hsame _ hraw.1.1 (getUpdateToken_hid _ _ _ hg)
        rw [hraw.1.1] at this
        exact this
      · rename_i t0 st1 hg
        have hraw := getUpdateToken_spec _ _ _ hg
        have hk := hsame _ hraw.1.1 (getUpdateToken_hid _ _ _ hg)
        split at h
        · exact hrec st1 hraw.1.1 hk h
        · simp at h
          obtain ⟨rfl, rfl⟩ := h
          rw [hraw.1.1] at hk
          exact hk
    · split at h
      · split at h
        · simp at h
        · rename_i st1 hg
          simp at h
          obtain ⟨rfl, rfl⟩ := h
          have hraw := getUpdateToken_spec _ _ _ hg
          have := hsame _ hraw.1.1 (getUpdateToken_hid _ _ _ hg)
          rw [hraw.1.1] at this
          exact this
        · rename_i t0 st1 hg
          have hraw := getUpdateToken_spec _ _ _ hg
          have hh := getUpdateToken_hid _ _ _ hg
          have hk := hsame _ hraw.1.1 hh
          have hdone : AllOK st.text st1.hiddenTokens := by
            rw [hraw.1.1] at hk
            exact hk
          split at h
          · split at h
            · rename_i hcm
              split at h
              · simp at h
                obtain ⟨rfl, rfl⟩ := h
                exact hdone
              · split at h
                · refine hrec { st1 with hiddenTokens := st1.hiddenTokens ++ [t0.toComment] } hraw.1.1 ?_ h
                  show AllOK st1.text (st1.hiddenTokens ++ [t0.toComment])
                  rw [hraw.1.1, hh]
                  intro c hc
                  rw [List.mem_append] at hc
                  rcases hc with hc | hc
                  · exact hinv c hc
                  · simp only [List.mem_singleton] at hc
                    subst hc
                    exact (rawStep_comment hraw hcm).1
                · exact hrec st1 hraw.1.1 hk h
            · exact hrec st1 hraw.1.1 hk h
          · simp at h
            obtain ⟨rfl, rfl⟩ := h
            exact hdone
      · have hraw := divOrRegex_spec _ _ _ h
        have := hsame _ hraw.1.1 (divOrRegex_hid _ _ _ h)
        rw [hraw.1.1] at this
        exact this

end CalmVerif.Proofs.Comments
