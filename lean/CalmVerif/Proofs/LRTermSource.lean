/-
Termination of the LR driver loop (C12), part 4: what one loop iteration does to the look-ahead and to the token
source (`fetch_view`, `step_view`, `stepCalls_view`), an induction principle for invariants of (configuration,
number of source calls) along a `Trace`, and the bound on the source calls of a plain token list
(`listSource_bound`: at most one call per token plus one for the end of input).
-/
import CalmVerif.Proofs.LRTermSteps
namespace CalmVerif.Model.LR

variable {τ ν σ ε : Type}
variable {T : Tables} {S : Sem τ ν σ ε} {R : Source τ σ ε}

theorem fetch_view {c c1 : Config τ ν σ} {st : Nat} {a : Option Act}
    (hf : fetch T S R c st = .ok (a, c1)) :
    (∃ p, defaultedOf T st = some p ∧ a = some (.reduce p) ∧ c1 = c ∧
        (if (defaultedOf T st).isNone && c.look.isNone then 1 else 0) = 0) ∨
    (∃ x, defaultedOf T st = none ∧ c.look = some x ∧ c1 = c ∧ a = actionOf T st (lookTermOf T S c1) ∧
        (if (defaultedOf T st).isNone && c.look.isNone then 1 else 0) = 0) ∨
    (∃ t s', defaultedOf T st = none ∧ c.look = none ∧ R.next c.src = .ok (t, s') ∧
        c1 = { c with look := some t, src := s' } ∧ a = actionOf T st (lookTermOf T S c1) ∧
        (if (defaultedOf T st).isNone && c.look.isNone then 1 else 0) = 1) := by
  unfold fetch at hf
  split at hf
  · next p hp =>
    simp only [Except.ok.injEq, Prod.mk.injEq] at hf
    obtain ⟨rfl, rfl⟩ := hf
    exact Or.inl ⟨p, hp, rfl, rfl, by simp [hp]⟩
  · next hd =>
    split at hf
    · next x hl =>
      simp only [Except.ok.injEq, Prod.mk.injEq] at hf
      obtain ⟨rfl, rfl⟩ := hf
      exact Or.inr (Or.inl ⟨x, hd, hl, rfl, rfl, by simp [hl]⟩)
    · next hl =>
      split at hf
      · simp at hf
      · next t s' hn =>
        simp only [Except.ok.injEq, Prod.mk.injEq] at hf
        obtain ⟨rfl, rfl⟩ := hf
        exact Or.inr (Or.inr ⟨t, s', hd, hl, hn, rfl, rfl, by simp [hd, hl]⟩)

/-- one continuing loop iteration: the fetch, then a shift, a reduction or a repaired error -/
theorem step_view {c c' : Config τ ν σ} (hs : step T S R c = .inl c') :
    ∃ st below a c1, c.states = st :: below ∧ fetch T S R c st = .ok (a, c1) ∧
      ((∃ s t, a = some (.shift s) ∧ c1.look = some (some t) ∧ c'.look = none ∧ c'.src = c1.src ∧
          c'.shifted = t :: c1.shifted ∧ c'.states = s :: c1.states) ∨
       (∃ p, a = some (.reduce p) ∧ c'.look = c1.look ∧ c'.src = c1.src ∧ c'.shifted = c1.shifted) ∨
       (∃ t s', a = none ∧ R.onError c1.src (lookTok c1) = .ok (some t, s') ∧ c'.look = some (some t) ∧
          c'.src = s' ∧ c'.shifted = c1.shifted ∧ c'.states = c1.states ∧ c'.vals = c1.vals)) := by
  unfold step at hs
  split at hs
  · simp at hs
  · next st below hst =>
    split at hs
    · simp at hs
    · next s c1 hf =>
      refine ⟨st, below, _, c1, hst, hf, Or.inl ?_⟩
      unfold doShift at hs
      split at hs
      · next t hlk =>
        simp only [Sum.inl.injEq] at hs
        subst hs
        exact ⟨s, t, rfl, hlk, rfl, rfl, rfl, rfl⟩
      · simp at hs
    · next p c1 hf =>
      refine ⟨st, below, _, c1, hst, hf, Or.inr (Or.inl ⟨p, rfl, ?_⟩)⟩
      unfold doReduce at hs
      split at hs
      · simp at hs
      · split at hs
        · split at hs
          · simp at hs
          · split at hs
            · simp at hs
            · split at hs
              · simp only [Sum.inl.injEq] at hs
                subst hs
                exact ⟨rfl, rfl, rfl⟩
              · simp at hs
        · simp at hs
    · split at hs <;> simp at hs
    · next c1 hf =>
      refine ⟨st, below, _, c1, hst, hf, Or.inr (Or.inr ?_)⟩
      unfold doError at hs
      cases hr : R.onError c1.src (lookTok c1) with
      | error e => simp [hr] at hs
      | ok res =>
        obtain ⟨t?, s'⟩ := res
        cases t? with
        | none => simp [hr] at hs
        | some t =>
          simp only [hr, Sum.inl.injEq] at hs
          subst hs
          exact ⟨t, s', rfl, rfl, rfl, rfl, rfl, rfl, rfl⟩

/-- the source calls of an iteration, from its view -/
theorem stepCalls_view {c c1 : Config τ ν σ} {st : Nat} {below : List Nat} {a : Option Act}
    (hst : c.states = st :: below) (hf : fetch T S R c st = .ok (a, c1)) :
    stepCalls T S R c = (if (defaultedOf T st).isNone && c.look.isNone then 1 else 0) +
      (if a = none then 1 else 0) := by
  unfold stepCalls
  simp only [hst, hf]
  cases a with
  | none => simp
  | some x => simp

/-- invariants of (configuration, number of source calls) along a trace -/
theorem trace_inv {P : Config τ ν σ → Nat → Prop} {c c' : Config τ ν σ} {n k : Nat}
    (ht : Trace T S R c n k c') (h0 : P c 0)
    (hstep : ∀ c1 c2 k, P c1 k → step T S R c1 = .inl c2 → P c2 (k + stepCalls T S R c1)) : P c' k := by
  induction ht with
  | refl => exact h0
  | step _ hs ih => exact hstep _ _ _ ih hs

/-! ### a plain token list -/

/-- 1 if the look-ahead held is `$end` -/
def endHeld (c : Config τ ν σ) : Nat :=
  match c.look with
  | some none => 1
  | _ => 0

/-- the driver calls a list source at most once per token, plus once for the end of input -/
theorem listSource_bound (T : Tables) (S : Sem τ ν (List τ) ε) (err : Option τ → ε) (l : List τ) :
    SourceBound T S (listSource ε err) l (l.length + 1) := by
  intro n k c' ht
  have key : c'.src.length + k = l.length + endHeld c' ∧ (c'.look = some none → c'.src = []) := by
    refine trace_inv (P := fun c k => c.src.length + k = l.length + endHeld c ∧
      (c.look = some none → c.src = [])) ht (by simp [initConfig, endHeld]) ?_
    intro c1 c2 k ⟨hk, he⟩ hs
    obtain ⟨st, below, a, cf, hst, hf, hcases⟩ := step_view hs
    rw [stepCalls_view hst hf]
    -- the fetch
    have hfetch : cf.src.length + (k + (if (defaultedOf T st).isNone && c1.look.isNone then 1 else 0)) =
        l.length + endHeld cf ∧ (cf.look = some none → cf.src = []) := by
      rcases fetch_view hf with ⟨p, _, ha, rfl, h0⟩ | ⟨x, _, hl, rfl, ha, h0⟩ | ⟨t, s', _, hl, hn, rfl, ha, h1⟩
      · rw [h0]; exact ⟨hk, he⟩
      · rw [h0]; exact ⟨hk, he⟩
      · rw [h1]
        simp only [endHeld, hl] at hk
        cases hsrc : c1.src with
        | nil =>
          simp only [listSource, hsrc, Except.ok.injEq, Prod.mk.injEq] at hn
          obtain ⟨rfl, rfl⟩ := hn
          simp [hsrc, endHeld] at hk ⊢
          omega
        | cons x rest =>
          simp only [listSource, hsrc, Except.ok.injEq, Prod.mk.injEq] at hn
          obtain ⟨rfl, rfl⟩ := hn
          simp [hsrc, endHeld] at hk ⊢
          omega
    obtain ⟨h1, h2⟩ := hfetch
    rcases hcases with ⟨s, t, ha, hl, hl', hsrc, _, _⟩ | ⟨p, ha, hl', hsrc, _⟩ | ⟨t, s', ha, herr, _⟩
    · simp only [ha, endHeld, hl, hl', hsrc] at h1 ⊢
      simp at h1 ⊢
      omega
    · simp only [ha, endHeld, hl', hsrc] at h1 ⊢
      simp at h1 ⊢
      exact ⟨by omega, h2⟩
    · simp [listSource] at herr
  have : endHeld c' ≤ 1 := by unfold endHeld; split <;> omega
  omega

/-! ### an executable counter (for concrete instances) -/

/-- (iterations, successful source calls) of `run T S R fuel c` -/
def countRun (T : Tables) (S : Sem τ ν σ ε) (R : Source τ σ ε) : Nat → Config τ ν σ → Nat × Nat
  | 0, _ => (0, 0)
  | fuel + 1, c =>
    match step T S R c with
    | .inl c' => ((countRun T S R fuel c').1 + 1, stepCalls T S R c + (countRun T S R fuel c').2)
    | .inr _ => (0, 0)

theorem countRun_trace : ∀ (fuel : Nat) (c : Config τ ν σ),
    Trace T S R c (countRun T S R fuel c).1 (countRun T S R fuel c).2 (run T S R fuel c).2
  | 0, c => by simp only [countRun, run]; exact Trace.refl c
  | fuel + 1, c => by
    cases hs : step T S R c with
    | inl c' =>
      simp only [countRun, run, hs]
      exact trace_head hs (countRun_trace fuel c')
    | inr o =>
      simp only [countRun, run, hs]
      exact Trace.refl c

end CalmVerif.Model.LR
