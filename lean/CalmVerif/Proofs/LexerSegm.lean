/-
Helper lemmas for C06: `token()` and the stand-alone iteration produce a segmentation of the input.
-/
import CalmVerif.Proofs.LexerLoop

namespace CalmVerif.Proofs.LexerSegm
open CalmVerif.Model.TokenRegex CalmVerif.Model.PlyLex CalmVerif.Model.Lexer
open CalmVerif.Proofs.LexerPly CalmVerif.Proofs.LexerGap CalmVerif.Proofs.LexerStep CalmVerif.Proofs.LexerLoop
open CalmVerif.Spec.LexSeg

theorem token'_spec (st : LexState) (hn : st.nextTokens = []) (r : Option Token) (st' : LexState)
    (h : token' st = .ok (r, st')) : TokStep st r st' := by
  unfold token' at h
  rw [hn] at h
  exact tokenLoop_spec _ _ _ _ h

theorem token_spec (st : LexState) (hn : st.nextTokens = []) (r : Option Token) (st' : LexState)
    (h : token st = .ok (r, st')) : TokStep st r st' := by
  unfold token at h
  split at h
  · simp at h
  · rename_i st1 ht
    simp at h
    obtain ⟨rfl, rfl⟩ := h
    exact token'_spec _ hn _ _ ht
  · rename_i t st1 ht
    have hs := token'_spec _ hn _ _ ht
    split at h
    · simp at h
      obtain ⟨rfl, rfl⟩ := h
      obtain ⟨hf, hr⟩ := hs
      exact ⟨⟨hf.1, hf.2.1, hf.2.2.1, hf.2.2.2⟩, hr⟩
    · simp at h
      obtain ⟨rfl, rfl⟩ := h
      exact hs

/-- the (offset, lexeme) pairs of the tokens that are segments of the input (not inserted AutoLexTokens) -/
def realToks (toks : List Token) : List (Nat × List Char) :=
  (toks.filter (fun t => !t.auto)).map (fun t => (t.lexpos, t.value))

theorem Segmented.prepend {cm : Bool} {text : List Char} {a b : Nat} {toks : List (Nat × List Char)}
    (hab : a ≤ b) (hgap : GapText cm (slice text a b)) (h : Segmented cm text b toks) :
    Segmented cm text a toks := by
  cases toks with
  | nil =>
    obtain ⟨hb, hg⟩ := h
    refine ⟨by omega, ?_⟩
    rw [drop_eq_slice_append _ _ _ hab]
    exact GapText.append hgap hg
  | cons pv rest =>
    obtain ⟨p, v⟩ := pv
    obtain ⟨hp, hg, hne, hbd, hv, hrest⟩ := h
    refine ⟨by omega, ?_, hne, hbd, hv, hrest⟩
    rw [slice_append _ _ b _ hab hp]
    exact GapText.append hgap hg

theorem lexAll_spec : ∀ (fuel : Nat) (st : LexState) (acc toks : List Token),
    st.nextTokens = [] → st.lexpos ≤ st.text.length → lexAll fuel st acc = (toks, none) →
    ∃ new, toks = acc.reverse ++ new ∧ Segmented (!st.yieldComments) st.text st.lexpos (realToks new) := by
  intro fuel
  induction fuel with
  | zero => intro st acc toks _ _ h; simp [lexAll] at h
  | succ fuel ih =>
    intro st acc toks hn hle h
    unfold lexAll at h
    split at h
    · simp at h
    · rename_i st1 ht
      simp at h
      subst h
      obtain ⟨_, hg⟩ := token_spec _ hn _ _ ht
      exact ⟨[], by simp, by simpa [realToks, Segmented] using ⟨hle, hg⟩⟩
    · rename_i t st1 ht
      obtain ⟨hf, hlt, hbd, hauto, hreal⟩ := token_spec _ hn _ _ ht
      have hn1 : st1.nextTokens = [] := by rw [hf.2.2.2, hn]
      obtain ⟨new, hnew, hseg⟩ := ih st1 (t :: acc) toks hn1 (by rw [hf.1]; exact hbd) h
      rw [hf.1, hf.2.1] at hseg
      refine ⟨t :: new, by simp [hnew], ?_⟩
      cases ha : t.auto with
      | true =>
        have : realToks (t :: new) = realToks new := by simp [realToks, ha]
        rw [this]
        obtain ⟨g, _⟩ := hauto ha
        exact Segmented.prepend (by omega) g hseg
      | false =>
        have : realToks (t :: new) = (t.lexpos, t.value) :: realToks new := by simp [realToks, ha]
        rw [this]
        obtain ⟨l1, g, ne, lp, v, _⟩ := hreal ha
        refine ⟨l1, g, ne, by omega, v, ?_⟩
        rw [← lp]
        exact hseg

/-- every token of the stand-alone iteration that is not an inserted one is a rule match at its offset, and the
    inserted ones are AUTOSEMI `;` -/
theorem lexAll_tokens : ∀ (fuel : Nat) (st : LexState) (acc toks : List Token) (e : Option Err),
    st.nextTokens = [] → lexAll fuel st acc = (toks, e) →
    ∃ new, toks = acc.reverse ++ new ∧
      ∀ t ∈ new, (t.auto = false → RuleInfo st.text t) ∧ (t.auto = true → t.value = [';'] ∧ t.type = "AUTOSEMI") := by
  intro fuel
  induction fuel with
  | zero => intro st acc toks e _ h; simp [lexAll] at h; exact ⟨[], by simp [h.1], by simp⟩
  | succ fuel ih =>
    intro st acc toks e hn h
    unfold lexAll at h
    split at h
    · simp at h; exact ⟨[], by simp [h.1], by simp⟩
    · simp at h; exact ⟨[], by simp [h.1], by simp⟩
    · rename_i t st1 ht
      obtain ⟨hf, hlt, hbd, hauto, hreal⟩ := token_spec _ hn _ _ ht
      have hn1 : st1.nextTokens = [] := by rw [hf.2.2.2, hn]
      obtain ⟨new, hnew, hall⟩ := ih st1 (t :: acc) toks e hn1 h
      rw [hf.1] at hall
      refine ⟨t :: new, by simp [hnew], ?_⟩
      intro x hx
      simp at hx
      rcases hx with rfl | hx
      · exact ⟨fun ha => (hreal ha).2.2.2.2.2, fun ha => ⟨(hauto ha).2.1, (hauto ha).2.2.1⟩⟩
      · exact hall x hx

/-- a segmentation is ordered and non-overlapping: offsets strictly increase, each token ends before the next starts -/
theorem segmented_ordered (cm : Bool) (text : List Char) :
    ∀ (pos : Nat) (l : List (Nat × List Char)), Segmented cm text pos l →
      (∀ x ∈ l, pos ≤ x.1) ∧ l.Pairwise (fun a b => a.1 < b.1 ∧ a.1 + a.2.length ≤ b.1) := by
  intro pos l
  induction l generalizing pos with
  | nil => intro _; simp
  | cons pv rest ih =>
    obtain ⟨p, v⟩ := pv
    intro h
    obtain ⟨hp, _, hne, _, _, hrest⟩ := h
    obtain ⟨h1, h2⟩ := ih _ hrest
    have hpos : 0 < v.length := by cases v with
      | nil => exact absurd rfl hne
      | cons => simp
    refine ⟨?_, ?_⟩
    · intro x hx
      simp at hx
      rcases hx with rfl | hx
      · exact hp
      · have := h1 x hx; omega
    · simp only [List.pairwise_cons]
      refine ⟨?_, h2⟩
      intro x hx
      have := h1 x hx
      constructor <;> omega


end CalmVerif.Proofs.LexerSegm
