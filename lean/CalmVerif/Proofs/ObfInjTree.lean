/-
Induction over the scope tree: every scope of the tree `buildTree` finishes satisfies `ScopeOK`
(Proofs/ObfInj.lean), given the leak-propagation invariant of the input tree (Proofs/ObfLeak.lean).
-/
import CalmVerif.Proofs.ObfInj
namespace CalmVerif.Obf
open CalmVerif CalmVerif.Unparse

def STree.kids : STree → List STree
  | .mk _ _ _ _ _ children => children

/-- what a child `c` of the scope heading `chain'` inherits: the resolve of the child before its own table exists is
one-to-one on the child's non-local symbols, and the child's own children satisfy the leak invariant w.r.t. the child -/
theorem child_hyps (chain' : List Anc) (hne : chain' ≠ []) (hi : InjOnRefs chain') (hna : ChainNoArgs chain') (c : STree)
    (hl : LeakOK (ckeys (effRefs chain')) c) :
    (∀ x ∈ nonLocalSymbols (c.anc :: chain'), ∀ y ∈ nonLocalSymbols (c.anc :: chain'),
      resolveChain (c.anc :: chain') x = resolveChain (c.anc :: chain') y → x = y) ∧
    LeakOKList (ckeys (effRefs (c.anc :: chain'))) c.kids := by
  obtain ⟨id, node, kind, refs, decl, children⟩ := c
  have hemp : chain'.isEmpty = false := by
    cases chain' with
    | nil => exact absurd rfl hne
    | cons a r => rfl
  cases kind with
  | func =>
    simp only [LeakOK] at hl
    simp only [STree.anc, STree.kids, nonLocalSymbols, effRefs]
    refine ⟨?_, hl.2⟩
    intro x hx y hy hxy
    simp only [List.mem_filter] at hx hy
    have hxk := hl.1 x hx.1 (by simpa using hx.2)
    have hyk := hl.1 y hy.1 (by simpa using hy.2)
    simp only [resolveChain, List.lookup_nil, SKind.isFunc, hemp, Bool.not_false, Bool.and_true] at hxy
    by_cases hxa : x = "arguments" <;> by_cases hya : y = "arguments"
    · rw [hxa, hya]
    · have : (y == "arguments") = false := by simpa using hya
      simp only [hxa, beq_self_eq_true, if_true, this, Bool.false_eq_true, if_false] at hxy
      exact absurd hxy.symm (resolveChain_ne_arguments hna hya)
    · have : (x == "arguments") = false := by simpa using hxa
      simp only [hya, beq_self_eq_true, if_true, this, Bool.false_eq_true, if_false] at hxy
      exact absurd hxy (resolveChain_ne_arguments hna hxa)
    · have h1 : (x == "arguments") = false := by simpa using hxa
      have h2 : (y == "arguments") = false := by simpa using hya
      simp only [h1, h2, Bool.false_eq_true, if_false] at hxy
      exact hi x hxk y hyk hxy
  | «catch» sym u =>
    simp only [LeakOK] at hl
    simp only [STree.anc, STree.kids, nonLocalSymbols, effRefs]
    have hmem : ∀ x, x ∈ ckeys (cupdate [(sym, u)] (effRefs chain')) → x ≠ sym → x ∈ ckeys (effRefs chain') := by
      intro x hx hne
      rcases mem_ckeys_cupdate.1 hx with h | h
      · simp [ckeys] at h; exact absurd h hne
      · exact h
    refine ⟨?_, ?_⟩
    · intro x hx y hy hxy
      simp only [List.mem_filter] at hx hy
      simp only [resolveChain, List.lookup_nil, SKind.isFunc, Bool.and_false, Bool.false_and, Bool.false_eq_true,
        if_false] at hxy
      exact hi x (hmem x hx.1 (by simpa using hx.2)) y (hmem y hy.1 (by simpa using hy.2)) hxy
    · refine leakOKList_mono ?_ _ hl
      intro x hx
      rcases List.mem_cons.1 hx with rfl | hx
      · exact mem_ckeys_cupdate.2 (Or.inl (by simp [ckeys]))
      · exact mem_ckeys_cupdate.2 (Or.inr hx)

theorem zip_fst_mem {α β : Type} {l1 : List α} {l2 : List β} {p : α × β} (h : p ∈ l1.zip l2) : p.1 ∈ l1 :=
  (List.of_mem_zip h).1

mutual
  theorem buildTree_injTree {cs : List Char} (hnd : cs.Nodup) (hne : cs ≠ []) (kw : List String) :
      ∀ (chain : List Anc) (doSelf : Bool) (t : STree) (r : RTree),
        KeysDecl chain → (doSelf = false → chain = []) → ChainNoArgs chain → r.AllNew (fun v => v ≠ "arguments") →
        (∀ x ∈ nonLocalSymbols (t.anc :: chain), ∀ y ∈ nonLocalSymbols (t.anc :: chain),
          resolveChain (t.anc :: chain) x = resolveChain (t.anc :: chain) y → x = y) →
        LeakOKList (ckeys (effRefs (t.anc :: chain))) t.kids →
        buildTree cs kw chain doSelf t = .ok r → InjTree chain t r
    | chain, doSelf, .mk id node kind refs decl children, r, hk, hds, hna, hr, hpar, hleak, h => by
      simp only [STree.anc, STree.kids] at hpar hleak
      simp only [buildTree] at h
      split at h
      · cases h
      · rename_i rm hrm
        split at h
        · cases h
        · rename_i rcs hrcs
          simp only [Except.ok.injEq] at h
          subst h
          simp only [RTree.AllNew] at hr
          -- the scope's own table
          have hself : InjOnRefs ({ kind := kind, refs := refs, decl := decl, remapped := rm } :: chain) ∧
              (∀ p ∈ rm, p.1 ∈ declaredBy { kind := kind, refs := refs, decl := decl, remapped := rm }) := by
            cases kind with
            | func =>
              simp only at hrm
              split at hrm
              · obtain ⟨names, rfl, hl, hnodup, hfresh⟩ := table_spec2 hnd hne _ kw _ rm hrm
                refine ⟨?_, ?_⟩
                · refine scope_step chain { kind := .func, refs := refs, decl := decl, remapped := [] } rfl
                    children (remapOrder refs decl) names ?_ hl hnodup hfresh hpar
                  intro x
                  rw [mem_remapOrder]
                  simp only [effRefs, nonLocalSymbols, List.mem_filter]
                  constructor
                  · rintro ⟨h1, h2⟩
                    exact ⟨h1, fun hc => by simpa [h2] using hc.2⟩
                  · rintro ⟨h1, h2⟩
                    refine ⟨h1, ?_⟩
                    by_contra hd
                    exact h2 ⟨h1, by simpa using hd⟩
                · intro p hp
                  simp only [declaredBy]
                  exact (mem_remapOrder.1 (zip_fst_mem hp)).2
              · simp only [Except.ok.injEq] at hrm
                subst hrm
                rename_i hfalse
                have hc : chain = [] := hds (by simpa using hfalse)
                subst hc
                refine ⟨?_, fun p hp => absurd hp List.not_mem_nil⟩
                intro x _ y _ hxy
                simpa [resolveChain] using hxy
            | «catch» sym u =>
              simp only at hrm
              obtain ⟨names, rfl, hl, hnodup, hfresh⟩ := table_spec2 hnd hne _ kw [sym] rm hrm
              refine ⟨?_, ?_⟩
              · refine scope_step chain { kind := .catch sym u, refs := refs, decl := decl, remapped := [] } rfl
                  children [sym] names ?_ hl hnodup hfresh hpar
                intro x
                simp only [effRefs, nonLocalSymbols, List.mem_filter, List.mem_singleton]
                constructor
                · rintro rfl
                  refine ⟨mem_ckeys_cupdate.2 (Or.inl (by simp [ckeys])), ?_⟩
                  rintro ⟨_, h2⟩
                  simp at h2
                · rintro ⟨h1, h2⟩
                  by_contra hne'
                  exact h2 ⟨h1, by simpa using hne'⟩
              · intro p hp
                simp only [declaredBy]
                exact zip_fst_mem hp
          have hk' : KeysDecl ({ kind := kind, refs := refs, decl := decl, remapped := rm } :: chain) :=
            ⟨hself.2, hk⟩
          have hna' : ChainNoArgs ({ kind := kind, refs := refs, decl := decl, remapped := rm } :: chain) := by
            intro a ha p hp
            rcases List.mem_cons.1 ha with rfl | ha
            · exact hr.1 p hp
            · exact hna a ha p hp
          refine ⟨scopeOK_of _ hk' hself.1, ?_⟩
          refine buildChildren_injTree hnd hne kw _ children rcs hk' (by simp) hna' hr.2 hself.1 ?_ hrcs
          have : effRefs ({ kind := kind, refs := refs, decl := decl, remapped := rm } :: chain)
              = effRefs ({ kind := kind, refs := refs, decl := decl, remapped := [] } :: chain) := by
            simp only [effRefs]
          rw [this]
          exact hleak
  theorem buildChildren_injTree {cs : List Char} (hnd : cs.Nodup) (hne : cs ≠ []) (kw : List String) :
      ∀ (chain : List Anc) (ts : List STree) (rs : List RTree),
        KeysDecl chain → chain ≠ [] → ChainNoArgs chain → AllNewList (fun v => v ≠ "arguments") rs →
        InjOnRefs chain → LeakOKList (ckeys (effRefs chain)) ts →
        buildChildren cs kw chain ts = .ok rs → InjTreeList chain ts rs
    | _, [], rs, _, _, _, _, _, _, h => by
      simp only [buildChildren, Except.ok.injEq] at h
      subst h
      trivial
    | chain, c :: rest, rs, hk, hcne, hna, hrs0, hi, hl, h => by
      simp only [buildChildren] at h
      split at h
      · cases h
      · rename_i r hr
        split at h
        · cases h
        · rename_i rs' hrs
          simp only [Except.ok.injEq] at h
          subst h
          simp only [LeakOKList] at hl
          simp only [AllNewList] at hrs0
          have hc := child_hyps chain hcne hi hna c hl.1
          exact ⟨buildTree_injTree hnd hne kw chain true c r hk (fun hf => by cases hf) hna hrs0.1 hc.1 hc.2 hr,
            buildChildren_injTree hnd hne kw chain rest rs' hk hcne hna hrs0.2 hi hl.2 hrs⟩
end

/-- the whole run: prewalk, then finalize -/
theorem finalize_injTree {cs : List Char} (hnd : cs.Nodup) (hne : cs ≠ []) (fl : Flags) (st : St) (fin : Final)
    (hinv : StackInv st.stack) (h : finalize cs fl st = .ok fin)
    (hna : fin.tree.AllNew (fun v => v ≠ "arguments")) :
    ∃ g, st.stack = [g] ∧ InjTree [] (closeFrame g) fin.tree := by
  unfold finalize at h
  split at h
  · rename_i g hg
    split at h
    · cases h
    · rename_i rt hrt
      simp only [Except.ok.injEq] at h
      subst h
      refine ⟨g, hg, ?_⟩
      refine buildTree_injTree hnd hne fl.reserved [] fl.obfuscateGlobals (closeFrame g) rt trivial
        (fun _ => rfl) (fun a ha => by cases ha) hna ?_ ?_ hrt
      · intro x _ y _ hxy
        simpa [resolveChain, closeFrame, STree.anc] using hxy
      · rw [hg] at hinv
        simp only [StackInv] at hinv
        have hl := hinv.1
        simp only [closeFrame, STree.anc, STree.kids]
        cases hk : g.kind with
        | func => simpa [effKeys, effRefs, hk] using hl
        | «catch» sym u =>
          simp only [effKeys, hk] at hl
          simp only [effRefs]
          refine leakOKList_mono ?_ _ hl
          intro x hx
          exact mem_ckeys_cupdate.2 (Or.inl (by simpa [ckeys, effKeys] using hx))
  · cases h

end CalmVerif.Obf
