/-
The (untrusted) type certificate of the semantic values of the parser model (see Proofs/ParsedTypedDefs.lean) and the
kernel decision that the regenerated action table is closed under it.

The certificate is COMPUTED from the regenerated tables (`Gen.Actions.shapes`, `listElems`, the grammar and the
terminal spellings) by `certExpr`.  String comparison is very slow in the kernel (≈10 ms each) and the kernel evaluates by
name, so the computed certificate is normalised ONCE, at elaboration time, to literal data (`reduce%`, a three-line
elaborator around `Lean.Meta.reduce`): `cert` IS that literal.  Nothing is assumed about it — it is an untrusted
certificate; that it is the value of `certExpr` on its terminal part is re-checked where needed
(`Proofs/ParsedTypedCert2.lean`), and the closure check below is a kernel decision about the literal.
-/
import Lean
import CalmVerif.Proofs.ParsedTypedRun
import CalmVerif.Model.Grammar
import CalmVerif.Gen.Actions
import CalmVerif.Gen.Tables.Cert
namespace CalmVerif.Proofs.ParsedTyped
open CalmVerif CalmVerif.Model CalmVerif.Model.ActionDesc CalmVerif.TokenAdj CalmVerif.Unparse
open CalmVerif.Gen.Tables.Cached

/-! ### the certificate -/

/-- the signatures of a token slot -/
def tokSigs : SlotTy → List TC
  | .tok cs => cs
  | _ => []

/-- per terminal: the signature of its fixed spelling; for the four terminals without one, the class the slot typing
    itself expects of the literal node built from it (`es5Slot "Identifier" "value"`, …) -/
def termSigsOf (i : Nat) : List TC :=
  let s := (termSpelling[i]?).getD ""
  if s != "" then [sig s]
  else match (terminals[i]?).getD "" with
    | "ID" => tokSigs (es5Slot "Identifier" "value")
    | "NUMBER" => tokSigs (es5Slot "Number" "value")
    | "STRING" => tokSigs (es5Slot "String" "value")
    | "REGEX" => tokSigs (es5Slot "Regex" "value")
    | _ => []

/-- string-valued nonterminals pass one terminal through -/
def strTysOf (n : Nat) : List Ty :=
  (prods.filter (fun p => p.1 == n)).filterMap fun p => match p.2 with
    | [x] => if x < numTerminals then some (Ty.str (termSigsOf x)) else none
    | _ => none

/-- the types of nonterminal `n`; `Gen.Actions.shapes` / `listElems` list the nonterminals in the order of the grammar
    tables, so they are read by position (the certificate is untrusted: a different order would fail the check) -/
def tysOf (n : Nat) (name : String) : List Ty :=
  if name == "S'" then [Ty.none]
  else if name == "reserved_word" then [Ty.idname]
  else if name == "identifier_name" then [Ty.wf "Identifier", Ty.idname]
  else (((Gen.Actions.shapes[n]?).map (·.2)).getD []).flatMap fun k => match k with
    | .none => [Ty.none]
    | .str => strTysOf n
    | .list => [Ty.list (((Gen.Actions.listElems[n]?).map (·.2)).getD [])]
    | .node kd => [Ty.wf kd]

/-- the certificate as a computation over the regenerated tables -/
def certExpr : TCert :=
  { termSigs := (List.range numTerminals).map termSigsOf,
    tys := (List.range nonterminals.length).map fun n => tysOf n ((nonterminals[n]?).getD "") }

open Lean Elab Term Meta in
/-- `reduce% t`: the normal form of `t`, computed by the elaborator -/
elab "reduce% " t:term : term => do
  let e ← elabTerm t none
  let r ← reduce e (skipTypes := true) (skipProofs := true)
  return r

set_option maxRecDepth 100000 in
/-- the (untrusted) certificate: the value of `certExpr`, normalised to literal data at elaboration time -/
def cert : TCert := { termSigs := reduce% certExpr.termSigs, tys := reduce% certExpr.tys }

/-! ### the decision -/

/-- every semantic action builds well-typed nodes from well-typed arguments -/
theorem cert_closed : closedT cert Grammar.cached Gen.Actions.actions = true := by
  decide +kernel

end CalmVerif.Proofs.ParsedTyped
