/-
Soundness of the abstract analysis, part 4b: ElisionJoinAttr (array literals).
-/
import CalmVerif.Proofs.RoundTripTyped4
namespace CalmVerif.TokenAdj
open CalmVerif CalmVerif.Unparse

variable {σ : Type}

theorem seqM_append_ok {α : Type} (f : α → σ → Except Err (List Chunk × σ)) : ∀ (a b : List α) (s : σ) (cs : List Chunk) (s' : σ),
    seqM f (a ++ b) s = .ok (cs, s') →
      ∃ c1 s1 c2, seqM f a s = .ok (c1, s1) ∧ seqM f b s1 = .ok (c2, s') ∧ cs = c1 ++ c2 := by
  intro a
  induction a with
  | nil => intro b s cs s' h; exact ⟨[], s, cs, by rw [seqM_nil_ok]; exact ⟨rfl, rfl⟩, by simpa using h, rfl⟩
  | cons x xs ih =>
    intro b s cs s' h
    simp only [List.cons_append] at h
    rw [seqM_cons_ok] at h
    obtain ⟨c1, s1, c2, h1, h2, rfl⟩ := h
    obtain ⟨d1, t1, d2, g1, g2, rfl⟩ := ih b s1 c2 s' h2
    exact ⟨c1 ++ d1, t1, d2, by rw [seqM_cons_ok]; exact ⟨c1, s1, d1, h1, g1, rfl⟩, g2, by simp⟩

theorem seqM_single_ok {α : Type} (f : α → σ → Except Err (List Chunk × σ)) (x : α) (s : σ) (cs : List Chunk) (s' : σ)
    (h : seqM f [x] s = .ok (cs, s')) : f x s = .ok (cs, s') := by
  rw [seqM_cons_ok] at h
  obtain ⟨c1, s1, c2, h1, h2, rfl⟩ := h
  rw [seqM_nil_ok] at h2
  rw [h2.1, h2.2] at *
  simpa using h1

section
variable {cfg : Cfg σ} {cx : Ctx} (hc : TypedCfg cfg cx) (F : Follow)
include hc

theorem ejoin_typed {wn : WalkFn σ} (hwn : NodeOK cfg cx F wn) (path : Path) (src : Src) (k : String)
    (as : List (String × Val)) (hw : wfVal cx (.node k as) = true) (pos : Option Int) (sep : List Rule) (sp : Nat) (ks : List String)
    (e : Abs) (he : certOf cx cx.esep = some e)
    (hxb : (kindsRes cx (ks.filter (fun k => !cx.elisionKinds.contains k))).bad = false)
    (heb : (kindsRes cx (ks.filter (fun k => cx.elisionKinds.contains k))).bad = false)
    (hsb : (absRules cx k sp sep).bad = false) (hsn : ∀ p ∈ (absRules cx k sp sep).need, p ∈ F)
    (hen : e.n = false)
    (hxn : (kindsRes cx (ks.filter (fun k => !cx.elisionKinds.contains k))).abs.n = false)
    (hien : (kindsRes cx (ks.filter (fun k => cx.elisionKinds.contains k))).abs.n = false)
    (mf : SymSet)
    (hmf : mf = (absRules cx k sp sep).abs.f ++ (if (absRules cx k sp sep).abs.n then
      (kindsRes cx (ks.filter (fun k => !cx.elisionKinds.contains k))).abs.f else SymSet.empty) ++
      (kindsRes cx (ks.filter (fun k => cx.elisionKinds.contains k))).abs.f)
    (hc1 : ∀ p ∈ cross (kindsRes cx (ks.filter (fun k => !cx.elisionKinds.contains k))).abs e, p ∈ F)
    (hc2 : ∀ p ∈ cross e ⟨false, mf, SymSet.empty⟩, p ∈ F)
    (hc3 : ∀ p ∈ cross (absRules cx k sp sep).abs (kindsRes cx (ks.filter (fun k => !cx.elisionKinds.contains k))).abs, p ∈ F)
    (hc4 : ∀ p ∈ cross (kindsRes cx (ks.filter (fun k => cx.elisionKinds.contains k))).abs ⟨false, mf, SymSet.empty⟩, p ∈ F)
    (items : List (Step × Val)) (hit : ItemsOK cx ks items) (s : σ) (cs : List Chunk) (s' : σ)
    (h : seqM (runAct cfg wn path src (.node k as) pos sep) (elisionActs cfg.hd.elisionKinds items) s = .ok (cs, s')) :
    Ann cfg.hd F ⟨true, (kindsRes cx (ks.filter (fun k => !cx.elisionKinds.contains k))).abs.f ++
        (kindsRes cx (ks.filter (fun k => cx.elisionKinds.contains k))).abs.f,
      (kindsRes cx (ks.filter (fun k => !cx.elisionKinds.contains k))).abs.l ++
        (kindsRes cx (ks.filter (fun k => cx.elisionKinds.contains k))).abs.l⟩ cs := by
  generalize hIX : (kindsRes cx (ks.filter (fun k => !cx.elisionKinds.contains k))).abs = IX at *
  generalize hIE : (kindsRes cx (ks.filter (fun k => cx.elisionKinds.contains k))).abs = IE at *
  generalize hS : (absRules cx k sp sep).abs = S at *
  -- units
  have hE : ∀ s cs s', runAct cfg wn path src (.node k as) pos sep .esep s = .ok (cs, s') → Ann cfg.hd F e cs := by
    intro s cs s' hr
    obtain ⟨asep, h1, h2⟩ := hc.esep
    simp only [runAct, h1] at hr
    obtain ⟨a, g1, g2⟩ := hwn _ _ cx.esep asep Option.none _ _ _ h2 hr
    rw [he] at g1; cases g1; exact g2
  have hSep : ∀ s cs s', runAct cfg wn path src (.node k as) pos sep .sep s = .ok (cs, s') → Ann cfg.hd F S cs := by
    intro s cs s' hr
    simp only [runAct] at hr
    have := hwn _ _ k as (some sep) _ _ _ hw hr sp hsb hsn
    rw [hS] at this; exact this
  have hItem : ∀ (q : Step × Val), (∃ k' as', q.2 = .node k' as' ∧ k' ∈ ks ∧ wfVal cx (.node k' as') = true) →
      ∀ s cs s', runAct cfg wn path src (.node k as) pos sep (.item q.1 q.2) s = .ok (cs, s') →
      Ann cfg.hd F (if isKind cfg.hd.elisionKinds q.2 then IE else IX) cs := by
    intro q ⟨k', as', hq, hk', hw'⟩ s cs s' hr
    simp only [runAct, hq, walkValue] at hr
    obtain ⟨a, g1, g2⟩ := hwn _ _ k' as' Option.none _ _ _ hw' hr
    rw [hq]
    simp only [isKind, ← hc.ek]
    by_cases hel : cx.elisionKinds.contains k' = true
    · rw [if_pos hel]
      obtain ⟨a', g3, g4⟩ := kindsRes_mem cx _ heb k' (List.mem_filter.mpr ⟨hk', hel⟩)
      rw [g1] at g3; cases g3; rw [hIE] at g4; exact ann_le g2 g4
    · rw [if_neg hel]
      obtain ⟨a', g3, g4⟩ := kindsRes_mem cx _ hxb k' (List.mem_filter.mpr ⟨hk', by simpa using hel⟩)
      rw [g1] at g3; cases g3; rw [hIX] at g4; exact ann_le g2 g4
  -- the part after an item, by the category of that item
  have htail : ∀ (rest : List (Step × Val)), ItemsOK cx ks rest → ∀ (prev : Val) s cs s',
      seqM (runAct cfg wn path src (.node k as) pos sep) (elisionActsAux cfg.hd.elisionKinds prev rest) s = .ok (cs, s') →
      Ann cfg.hd F (if isKind cfg.hd.elisionKinds prev then ⟨true, mf, IX.l ++ IE.l⟩ else ⟨true, e.f, IX.l ++ IE.l⟩) cs := by
    intro rest
    induction rest with
    | nil =>
      intro _ prev s cs s' hr
      simp only [elisionActsAux] at hr
      rw [seqM_nil_ok] at hr
      rw [hr.1]
      split <;> exact ann_nil cfg.hd F rfl
    | cons y ys ih =>
      intro hys prev s cs s' hr
      obtain ⟨st, nx⟩ := y
      simp only [elisionActsAux] at hr
      obtain ⟨p12, s2, p34, hr12, hr34, rfl⟩ := seqM_append_ok _ _ _ _ _ _ hr
      obtain ⟨p1, s1, p2, hr1, hr2, rfl⟩ := seqM_append_ok _ _ _ _ _ _ hr12
      rw [seqM_cons_ok] at hr34
      obtain ⟨p3, s3, p4, hr3, hr4, rfl⟩ := hr34
      have e3 := hItem (st, nx) (hys (st, nx) (by simp)) s2 p3 s3 hr3
      have e4 := ih (fun q hq => hys q (by simp [hq])) nx s3 p4 s' hr4
      -- the middle part `p2 ++ p3 ++ p4`
      have hmid : Ann cfg.hd F ⟨false, mf, IX.l ++ IE.l⟩ (p2 ++ (p3 ++ p4)) := by
        by_cases hnx : isKind cfg.hd.elisionKinds nx = true
        · simp only [hnx, if_true] at e3 e4 hr2
          rw [seqM_nil_ok] at hr2
          rw [hr2.1, List.nil_append]
          have := ann_append' e3 e4 (fun x hx y hy => inF_cross hc4 hx hy)
          refine ann_weaken this (fun hn => by simp [Abs.seq, hien] at hn) ?_ ?_
          · intro x hx
            rcases mem_seq_f.mp hx with hx | ⟨hn, _⟩
            · show x ∈ mf
              rw [hmf]
              exact (SymSet.mem_append _ _ _).mpr (Or.inr hx)
            · rw [hien] at hn; cases hn
          · intro x hx
            rcases mem_seq_l.mp hx with hx | ⟨_, hx⟩
            · exact hx
            · exact (SymSet.mem_append _ _ _).mpr (Or.inr hx)
        · simp only [hnx, Bool.false_eq_true, if_false] at e3 e4 hr2
          have e2 := hSep s1 p2 s2 (seqM_single_ok _ _ _ _ _ (by simpa using hr2))
          have e34 := ann_append' e3 e4 (fun x hx y hy => inF_cross hc1 hx hy)
          have e234 := ann_append' e2 e34 (fun x hx y hy => by
            rcases mem_seq_f.mp hy with hy | ⟨hn, _⟩
            · exact inF_cross hc3 hx hy
            · rw [hxn] at hn; cases hn)
          refine ann_weaken e234 (fun hn => by simp [Abs.seq, hxn] at hn) ?_ ?_
          · intro x hx
            show x ∈ mf
            rw [hmf]
            rcases mem_seq_f.mp hx with hx | ⟨hsn', hx⟩
            · exact (SymSet.mem_append _ _ _).mpr (Or.inl ((SymSet.mem_append _ _ _).mpr (Or.inl hx)))
            · rcases mem_seq_f.mp hx with hx | ⟨hn, _⟩
              · refine (SymSet.mem_append _ _ _).mpr (Or.inl ((SymSet.mem_append _ _ _).mpr (Or.inr ?_)))
                rw [if_pos hsn']; exact hx
              · rw [hxn] at hn; cases hn
          · intro x hx
            rcases mem_seq_l.mp hx with hx | ⟨hn, _⟩
            · rcases mem_seq_l.mp hx with hx | ⟨_, hx⟩
              · exact hx
              · exact (SymSet.mem_append _ _ _).mpr (Or.inl hx)
            · simp [Abs.seq, hxn] at hn
      by_cases hprev : isKind cfg.hd.elisionKinds prev = true
      · simp only [hprev, if_true] at hr1 ⊢
        rw [seqM_nil_ok] at hr1
        rw [hr1.1, List.nil_append]
        exact ann_weaken hmid (fun _ => rfl) (fun _ hx => hx) (fun _ hx => hx)
      · simp only [hprev, Bool.false_eq_true, if_false] at hr1 ⊢
        have e1 := hE s p1 s1 (seqM_single_ok _ _ _ _ _ (by simpa using hr1))
        rw [List.append_assoc]
        have := ann_append' e1 hmid (fun x hx y hy => inF_cross hc2 hx hy)
        refine ann_weaken this (fun _ => rfl) ?_ ?_
        · intro x hx
          rcases mem_seq_f.mp hx with hx | ⟨hn, _⟩
          · exact hx
          · rw [hen] at hn; cases hn
        · intro x hx
          rcases mem_seq_l.mp hx with hx | ⟨hn, _⟩
          · exact hx
          · cases hn
  cases items with
  | nil =>
    simp only [elisionActs] at h
    rw [seqM_nil_ok] at h
    rw [h.1]; exact ann_nil cfg.hd F rfl
  | cons x rest =>
    obtain ⟨st, v⟩ := x
    simp only [elisionActs] at h
    rw [seqM_cons_ok] at h
    obtain ⟨p3, s3, p4, hr3, hr4, rfl⟩ := h
    have e3 := hItem (st, v) (hit (st, v) (by simp)) s p3 s3 hr3
    have e4 := htail rest (fun q hq => hit q (by simp [hq])) v s3 p4 s' hr4
    by_cases hv : isKind cfg.hd.elisionKinds v = true
    · simp only [hv, if_true] at e3 e4
      have := ann_append' e3 e4 (fun x hx y hy => inF_cross hc4 hx hy)
      refine ann_weaken this (fun _ => rfl) ?_ ?_
      · intro x hx
        rcases mem_seq_f.mp hx with hx | ⟨hn, _⟩
        · exact (SymSet.mem_append _ _ _).mpr (Or.inr hx)
        · rw [hien] at hn; cases hn
      · intro x hx
        rcases mem_seq_l.mp hx with hx | ⟨_, hx⟩
        · exact hx
        · exact (SymSet.mem_append _ _ _).mpr (Or.inr hx)
    · simp only [hv, Bool.false_eq_true, if_false] at e3 e4
      have := ann_append' e3 e4 (fun x hx y hy => inF_cross hc1 hx hy)
      refine ann_weaken this (fun _ => rfl) ?_ ?_
      · intro x hx
        rcases mem_seq_f.mp hx with hx | ⟨hn, _⟩
        · exact (SymSet.mem_append _ _ _).mpr (Or.inl hx)
        · rw [hxn] at hn; cases hn
      · intro x hx
        rcases mem_seq_l.mp hx with hx | ⟨_, hx⟩
        · exact hx
        · exact (SymSet.mem_append _ _ _).mpr (Or.inl hx)

end
end CalmVerif.TokenAdj
