/-
Helper lemmas for C06 (positions): the reference terminator scan of Spec.LinesRef over concatenations and
prefixes, and its equality with the scan `_update_newline_idx` performs on a token value.
-/
import CalmVerif.Model.Lexer
import CalmVerif.Spec.LinesRef

namespace CalmVerif.Proofs.LexerLines
open CalmVerif.Model.Lexer
open CalmVerif.Spec.LinesRef

theorem nlOffsets_eq : ∀ (l : List Char) (off : Nat), nlOffsets l off = terminatorEnds l off := by
  intro l
  induction l with
  | nil => intro off; simp [nlOffsets, terminatorEnds]
  | cons c cs ih =>
    intro off
    simp only [nlOffsets, terminatorEnds, ih]
    by_cases hc : c = '\r'
    · subst hc
      by_cases hh : cs.head? = some '\n'
      · simp [hh]
      · simp [hh, isLineTerminator]
    · by_cases hl : c = '\n' ∨ c = '\u2028' ∨ c = '\u2029'
      · have : isLineTerminator c = true := by
          rcases hl with h | h | h <;> simp [isLineTerminator, h]
        simp [hc, hl, this]
      · have : isLineTerminator c = false := by
          simp only [not_or] at hl
          simp [isLineTerminator, hc, hl.1, hl.2.1, hl.2.2]
        simp [hc, hl, this]

theorem te_bounds : ∀ (l : List Char) (i : Nat), ∀ e ∈ terminatorEnds l i, i < e ∧ e ≤ i + l.length := by
  intro l
  induction l with
  | nil => intro i e h; simp [terminatorEnds] at h
  | cons c cs ih =>
    intro i e h
    simp only [terminatorEnds] at h
    split at h
    · have := ih (i + 1) e h; simp; omega
    · split at h
      · simp at h
        rcases h with rfl | h
        · simp <;> omega
        · have := ih (i + 1) e h; simp; omega
      · have := ih (i + 1) e h; simp; omega

theorem te_append : ∀ (l1 l2 : List Char) (i : Nat),
    ¬ (l1.getLast? = some '\r' ∧ l2.head? = some '\n') →
    terminatorEnds (l1 ++ l2) i = terminatorEnds l1 i ++ terminatorEnds l2 (i + l1.length) := by
  intro l1
  induction l1 with
  | nil => intro l2 i _; simp [terminatorEnds]
  | cons c cs ih =>
    intro l2 i h
    by_cases hcs : cs = []
    · subst hcs
      simp only [List.cons_append, List.nil_append, terminatorEnds, List.head?_nil]
      simp only [List.getLast?_singleton] at h
      by_cases hc : c = '\r'
      · subst hc
        have hh : ¬ l2.head? = some '\n' := fun h' => h ⟨rfl, h'⟩
        simp [hh, isLineTerminator]
      · simp [hc]
        split <;> simp
    · have hh : (cs ++ l2).head? = cs.head? := by
        cases cs with
        | nil => exact absurd rfl hcs
        | cons d ds => simp
      have hg : (c :: cs).getLast? = cs.getLast? := by
        cases cs with
        | nil => exact absurd rfl hcs
        | cons d ds => simp [List.getLast?_cons_cons]
      have hrec := ih l2 (i + 1) (by rw [← hg]; exact h)
      have hlen : i + 1 + cs.length = i + (c :: cs).length := by simp; omega
      simp only [List.cons_append, terminatorEnds, hh]
      rw [hrec, hlen]
      split
      · rfl
      · split <;> simp

theorem te_no_lt : ∀ (l : List Char) (i : Nat), (∀ c ∈ l, isLineTerminator c = false) →
    terminatorEnds l i = [] := by
  intro l
  induction l with
  | nil => intro i _; simp [terminatorEnds]
  | cons c cs ih =>
    intro i h
    have hc : isLineTerminator c = false := h c (by simp)
    have hcr : c ≠ '\r' := by
      intro h0; subst h0; simp [isLineTerminator] at hc
    simp only [terminatorEnds]
    simp [hcr, hc]
    exact ih (i + 1) (fun d hd => h d (by simp [hd]))

/-- offset `b` does not sit between the <CR> and the <LF> of a CR LF pair -/
def NoSplitAt (text : List Char) (b : Nat) : Prop :=
  ¬ (0 < b ∧ text[b - 1]? = some '\r' ∧ text[b]? = some '\n')

theorem getLast_take (text : List Char) (b : Nat) (hb : 0 < b) (hle : b ≤ text.length) :
    (text.take b).getLast? = text[b - 1]? := by
  rw [List.getLast?_eq_getElem?, List.length_take, Nat.min_eq_left hle, List.getElem?_take]
  have : b - 1 < b := by omega
  simp [this]

theorem split_cond (text : List Char) (b : Nat) (hle : b ≤ text.length) (h : NoSplitAt text b) :
    ¬ ((text.take b).getLast? = some '\r' ∧ (text.drop b).head? = some '\n') := by
  intro ⟨h1, h2⟩
  by_cases hb : 0 < b
  · rw [getLast_take text b hb hle] at h1
    rw [List.head?_drop] at h2
    exact h ⟨hb, h1, h2⟩
  · have : b = 0 := by omega
    subst this
    simp at h1

/-- the terminator ends at or before `off` are those of the prefix of length `off` -/
theorem te_filter (text : List Char) (off : Nat) (hle : off ≤ text.length) (h : NoSplitAt text off) :
    (terminatorEnds text 0).filter (· ≤ off) = terminatorEnds (text.take off) 0 := by
  have hsplit := te_append (text.take off) (text.drop off) 0 (split_cond text off hle h)
  rw [List.take_append_drop] at hsplit
  rw [hsplit, List.filter_append]
  have hlen : (text.take off).length = off := by simp [hle]
  have h1 : (terminatorEnds (text.take off) 0).filter (· ≤ off) = terminatorEnds (text.take off) 0 := by
    rw [List.filter_eq_self]
    intro e he
    have := te_bounds _ _ e he
    rw [hlen] at this
    simp; omega
  have h2 : (terminatorEnds (text.drop off) (0 + (text.take off).length)).filter (· ≤ off) = [] := by
    rw [List.filter_eq_nil_iff]
    intro e he
    have := te_bounds _ _ e he
    rw [hlen] at this
    simp; omega
  rw [h1, h2, List.append_nil]

/-- extending a prefix by a window -/
theorem te_take_add (text : List Char) (a k : Nat) (hle : a ≤ text.length) (h : NoSplitAt text a) :
    terminatorEnds (text.take (a + k)) 0 =
      terminatorEnds (text.take a) 0 ++ terminatorEnds ((text.drop a).take k) a := by
  rw [List.take_add]
  have hlen : (text.take a).length = a := by simp [hle]
  have := te_append (text.take a) ((text.drop a).take k) 0 ?_
  · rw [this, hlen, Nat.zero_add]
  · intro ⟨h1, h2⟩
    apply split_cond text a hle h
    refine ⟨h1, ?_⟩
    cases hk : k with
    | zero => subst hk; simp at h2
    | succ j =>
      subst hk
      cases hd : text.drop a with
      | nil => rw [hd] at h2; simp at h2
      | cons x xs => rw [hd] at h2; simpa using h2

end CalmVerif.Proofs.LexerLines
