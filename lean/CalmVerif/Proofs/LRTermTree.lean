/-
Termination of the LR driver loop (C12), part 2: the number of internal nodes of a VALID derivation tree is
bounded by its yield (every internal node is one `reduce` step of the driver).

With a rank certificate passing `ranksOK` (Proofs/LRTermRank.lean), for every valid tree `t` (`Good`):
  * empty yield      ⇒  the root symbol is nullable and  nodes t ≤ e(sym t);
  * nonempty yield   ⇒  nodes t + K + d(sym t) ≤ 2·K·|yield t|.
-/
import CalmVerif.Proofs.LRTermRank
namespace CalmVerif.Model.LR

variable {τ : Type}

mutual
  /-- number of internal nodes (= reductions that built the tree) -/
  def Tree.nodes : Tree τ → Nat
    | .leaf _ => 0
    | .node _ cs => 1 + nodesList cs
  def nodesList : List (Tree τ) → Nat
    | [] => 0
    | c :: cs => c.nodes + nodesList cs
end

theorem nodesList_append (a b : List (Tree τ)) : nodesList (a ++ b) = nodesList a + nodesList b := by
  induction a with
  | nil => simp [nodesList]
  | cons c cs ih => simp [nodesList, ih]; omega

theorem nodesList_reverse (a : List (Tree τ)) : nodesList a.reverse = nodesList a := by
  induction a with
  | nil => rfl
  | cons c cs ih => simp [nodesList_append, nodesList, ih]; omega

theorem yieldList_length_reverse (a : List (Tree τ)) :
    (yieldList a.reverse).length = (yieldList a).length := by
  induction a with
  | nil => rfl
  | cons c cs ih => simp [yieldList_append, yieldList, ih]; omega

section bound
variable {T : Tables} {C : RankCert} {ty : τ → Nat}

/-- the bound satisfied by a valid tree -/
def Good (T : Tables) (C : RankCert) (ty : τ → Nat) (t : Tree τ) : Prop :=
  (t.yield = [] → nullableS C T.numTerminals (t.sym T ty) = true ∧
      t.nodes ≤ eOf C T.numTerminals (t.sym T ty)) ∧
  (t.yield ≠ [] → t.nodes + C.K + dOf C T.numTerminals (t.sym T ty) ≤ 2 * C.K * t.yield.length)

/-- either a leaf, or a tree whose symbol code is a nonterminal's (every valid inner node) -/
def LeafOrNT (T : Tables) (ty : τ → Nat) (t : Tree τ) : Prop :=
  (∃ a, t = .leaf a) ∨ T.numTerminals ≤ t.sym T ty

/-- all children with empty yield -/
theorem empty_children : ∀ {cs : List (Tree τ)}, (∀ c ∈ cs, Good T C ty c) → yieldList cs = [] →
    allNull C T.numTerminals (symList T ty cs) = true ∧
      nodesList cs ≤ eSum C T.numTerminals (symList T ty cs)
  | [], _, _ => by simp [allNull, symList, nodesList, eSum]
  | c :: cs, hg, hy => by
    simp only [yieldList, List.append_eq_nil_iff] at hy
    have hc := (hg c (by simp)).1 hy.1
    have ih := empty_children (cs := cs) (fun c' hc' => hg c' (by simp [hc'])) hy.2
    simp only [symList, allNull, hc.1, ih.1, Bool.and_self, nodesList, eSum, true_and]
    omega

/-- any children, nonempty yield -/
theorem some_children : ∀ {cs : List (Tree τ)}, (∀ c ∈ cs, Good T C ty c) → yieldList cs ≠ [] →
    nodesList cs + C.K ≤ 2 * C.K * (yieldList cs).length + eSum C T.numTerminals (symList T ty cs)
  | [], _, hy => by simp [yieldList] at hy
  | c :: cs, hg, hy => by
    have hgc := hg c (by simp)
    have hgs : ∀ c' ∈ cs, Good T C ty c' := fun c' hc' => hg c' (by simp [hc'])
    simp only [yieldList, List.length_append, Nat.mul_add, nodesList, symList, eSum]
    by_cases h1 : c.yield = []
    · have hc := hgc.1 h1
      have h2 : yieldList cs ≠ [] := by
        intro h; apply hy; simp [yieldList, h1, h]
      have ih := some_children hgs h2
      simp only [h1, List.length_nil, Nat.mul_zero]
      omega
    · have hc := hgc.2 h1
      by_cases h2 : yieldList cs = []
      · have he := empty_children hgs h2
        simp only [h2, List.length_nil, Nat.mul_zero]
        omega
      · have ih := some_children hgs h2
        omega

/-- the children of an instance of a production that passed `prodOK` -/
theorem unit_children (hd : ∀ x, dOf C T.numTerminals x ≤ C.K) {dA1 : Nat} :
    ∀ {cs : List (Tree τ)} {acc : Nat}, (∀ c ∈ cs, Good T C ty c ∧ LeafOrNT T ty c) →
    unitCheck C T.numTerminals dA1 acc (symList T ty cs) = true →
    dA1 + acc + eSum C T.numTerminals (symList T ty cs) ≤ C.K →
    yieldList cs ≠ [] →
    nodesList cs + dA1 + acc + C.K ≤ 2 * C.K * (yieldList cs).length
  | [], _, _, _, _, hy => by simp [yieldList] at hy
  | c :: cs, acc, hg, hu, hk, hy => by
    have hgc := hg c (by simp)
    have hgs : ∀ c' ∈ cs, Good T C ty c' ∧ LeafOrNT T ty c' := fun c' hc' => hg c' (by simp [hc'])
    have hgs' : ∀ c' ∈ cs, Good T C ty c' := fun c' hc' => (hgs c' hc').1
    simp only [symList, unitCheck, Bool.and_eq_true, Bool.or_eq_true, Bool.not_eq_true',
      Nat.ble_eq, Bool.and_eq_false_iff] at hu
    simp only [symList, eSum] at hk
    simp only [yieldList, List.length_append, Nat.mul_add, nodesList]
    by_cases h1 : c.yield = []
    · -- an empty child: it is nullable, go on
      have hc := hgc.1.1 h1
      have h2 : yieldList cs ≠ [] := by
        intro h; apply hy; simp [yieldList, h1, h]
      have hu2 : unitCheck C T.numTerminals dA1 (acc + eOf C T.numTerminals (c.sym T ty)) (symList T ty cs) = true := by
        rcases hu.2 with h | h
        · rw [hc.1] at h; cases h
        · exact h
      have ih := unit_children hd hgs hu2 (by omega) h2
      simp only [h1, List.length_nil, Nat.mul_zero]
      omega
    · have hc := hgc.1.2 h1
      by_cases h2 : yieldList cs = []
      · -- the only child with a nonempty yield
        have he := empty_children hgs' h2
        simp only [h2, List.length_nil, Nat.mul_zero, Nat.add_zero]
        rcases hgc.2 with ⟨a, rfl⟩ | hnt
        · simp only [Tree.nodes, Tree.yield, List.length_singleton, Nat.mul_one]
          omega
        · rcases hu.1 with h | h
          · rcases h with h | h
            · have : Nat.ble T.numTerminals (c.sym T ty) = true := by simpa using hnt
              rw [this] at h; cases h
            · rw [he.1] at h; cases h
          · omega
      · -- at least two children with nonempty yield
        have ih := some_children hgs' h2
        have := hd (c.sym T ty)
        omega

end bound

/-! ### every valid tree is good -/

section main
variable {T : Tables} {C : RankCert} {ty : τ → Nat}

theorem node_good (h : ranksOK T C = true) {p lhs : Nat} {cs : List (Tree τ)}
    (hp : T.prods[p]? = some (lhs, symList T ty cs))
    (hg : ∀ c ∈ cs, Good T C ty c ∧ LeafOrNT T ty c) : Good T C ty (.node p cs) := by
  have hpk := rk_prod h hp
  simp only [prodOK, Bool.and_eq_true, Bool.or_eq_true, Bool.not_eq_true', Nat.ble_eq] at hpk
  obtain ⟨⟨hk, hnull⟩, hunit⟩ := hpk
  have hsym : Tree.sym T ty (.node p cs) = T.numTerminals + lhs := by simp [Tree.sym, hp]
  have hg' : ∀ c ∈ cs, Good T C ty c := fun c hc => (hg c hc).1
  constructor
  · intro hy
    simp only [Tree.yield] at hy
    have he := empty_children hg' hy
    rcases hnull with h0 | h0
    · rw [he.1] at h0; cases h0
    · rw [hsym]
      refine ⟨h0.1, ?_⟩
      simp only [Tree.nodes]
      omega
  · intro hy
    simp only [Tree.yield] at hy
    have := unit_children (rk_d_le h) hg hunit (by omega) hy
    rw [hsym]
    simp only [Tree.nodes, Tree.yield]
    omega

theorem leaf_good (h : ranksOK T C = true) (a : τ) : Good T C ty (.leaf a) := by
  constructor
  · intro hy; simp [Tree.yield] at hy
  · intro _
    have := rk_d_le h (Tree.sym T ty (.leaf a))
    simp only [Tree.nodes, Tree.yield, List.length_singleton, Nat.mul_one]
    omega

mutual
  theorem tree_good (h : ranksOK T C = true) : ∀ (t : Tree τ), t.valid T ty → Good T C ty t ∧ LeafOrNT T ty t
    | .leaf a, _ => ⟨leaf_good h a, Or.inl ⟨a, rfl⟩⟩
    | .node p cs, hv => by
      simp only [Tree.valid] at hv
      obtain ⟨⟨lhs, hp⟩, hvs⟩ := hv
      refine ⟨node_good h hp (list_good h cs hvs), Or.inr ?_⟩
      simp [Tree.sym, hp]
  theorem list_good (h : ranksOK T C = true) : ∀ (cs : List (Tree τ)), validList T ty cs →
      ∀ c ∈ cs, Good T C ty c ∧ LeafOrNT T ty c
    | [], _ => by simp
    | c :: cs, hv => by
      simp only [validList] at hv
      intro c' hc'
      simp only [List.mem_cons] at hc'
      rcases hc' with rfl | hc'
      · exact tree_good h c' hv.1
      · exact list_good h cs hv.2 c' hc'
end

end main
end CalmVerif.Model.LR
