/-
C10 helper lemmas, part 5: canonical strings are exactly the Spec encodings of
integer lists (`Canonical (encodeList l)`, and every canonical string is some
`encodeList l`).
-/
import CalmVerif.Proofs.VlqTables
import CalmVerif.Proofs.VlqSpec

namespace CalmVerif.Proofs.Vlq
open CalmVerif.Spec.VlqV3

theorem canonicalFrom_step {v : Nat} (hv : v < 64) (mid : Bool) (cs : List Char) :
    canonicalFrom mid (b64Char v :: cs) =
      if v ≥ 32 then canonicalFrom true cs
      else ((if mid then v != 0 else v != 1) && canonicalFrom false cs) := by
  rw [canonicalFrom, b64Val_b64Char v hv]

/-- inside a group: the rest of a group with non-zero value is accepted -/
theorem canonicalFrom_true_encodeRaw : ∀ (n : Nat) (rest : List Char), 1 ≤ n →
    canonicalFrom true (encodeRaw n ++ rest) = canonicalFrom false rest := by
  intro n
  induction n using sextets_induct with
  | small n h =>
    intro rest h1
    have h32 : ¬ n ≥ 32 := by omega
    have hn : (n != 0) = true := by simp; omega
    rw [encodeRaw_small h, List.singleton_append, canonicalFrom_step (by omega)]
    simp [h32, hn]
  | big n h ih =>
    intro rest h1
    have h32 : n % 32 + 32 ≥ 32 := by omega
    rw [encodeRaw_big h, List.cons_append, canonicalFrom_step (by omega)]
    simp only [h32, if_true]
    exact ih rest (by omega)

theorem canonicalFrom_false_encodeRaw (n : Nat) (rest : List Char) (h1 : n ≠ 1) :
    canonicalFrom false (encodeRaw n ++ rest) = canonicalFrom false rest := by
  by_cases h : n < 32
  · have h32 : ¬ n ≥ 32 := by omega
    have hn : (n != 1) = true := by simp; omega
    rw [encodeRaw_small h, List.singleton_append, canonicalFrom_step (by omega)]
    simp [h32, hn]
  · have h32 : n % 32 + 32 ≥ 32 := by omega
    rw [encodeRaw_big (by omega), List.cons_append, canonicalFrom_step (by omega)]
    simp only [h32, if_true]
    exact canonicalFrom_true_encodeRaw _ rest (by omega)

theorem canonical_encodeList (l : List Int) : Canonical (encodeList l) := by
  unfold Canonical
  induction l with
  | nil => rfl
  | cons v vs ih =>
    rw [encodeList, encode, canonicalFrom_false_encodeRaw _ _ (toRaw_ne_one v)]
    exact ih

/-! ### every canonical string is an encoding -/

/-- mid-group: a canonical remainder starts with the tail of a group of value ≥ 1 -/
theorem canonicalFrom_true_split : ∀ (s : List Char), canonicalFrom true s = true →
    ∃ n rest, 1 ≤ n ∧ s = encodeRaw n ++ rest ∧ canonicalFrom false rest = true ∧
      rest.length < s.length := by
  intro s
  induction s with
  | nil => intro h; simp [canonicalFrom] at h
  | cons c cs ih =>
    intro h
    rw [canonicalFrom] at h
    cases hv : b64Val c with
    | none => simp [hv] at h
    | some v =>
      obtain ⟨hv64, hc⟩ := b64Val_some hv
      simp only [hv] at h
      by_cases h32 : v ≥ 32
      · simp only [h32, if_true] at h
        obtain ⟨n, rest, hn, hs, hr, hl⟩ := ih h
        refine ⟨(v - 32) + 32 * n, rest, by omega, ?_, hr, by simp only [List.length_cons]; omega⟩
        rw [encodeRaw_big (by omega)]
        have e1 : ((v - 32) + 32 * n) % 32 + 32 = v := by omega
        have e2 : ((v - 32) + 32 * n) / 32 = n := by omega
        rw [e1, e2, hc, hs, List.cons_append]
      · simp only [h32, if_false, if_true, Bool.and_eq_true, bne_iff_ne] at h
        refine ⟨v, cs, by omega, ?_, h.2, by simp⟩
        rw [encodeRaw_small (by omega), hc, List.singleton_append]

/-- group start: a non-empty canonical string starts with a whole group of value ≠ 1 -/
theorem canonicalFrom_false_split (c : Char) (cs : List Char)
    (h : canonicalFrom false (c :: cs) = true) :
    ∃ n rest, n ≠ 1 ∧ c :: cs = encodeRaw n ++ rest ∧ canonicalFrom false rest = true ∧
      rest.length < (c :: cs).length := by
  rw [canonicalFrom] at h
  cases hv : b64Val c with
  | none => simp [hv] at h
  | some v =>
    obtain ⟨hv64, hc⟩ := b64Val_some hv
    simp only [hv] at h
    by_cases h32 : v ≥ 32
    · simp only [h32, if_true] at h
      obtain ⟨n, rest, hn, hs, hr, hl⟩ := canonicalFrom_true_split cs h
      refine ⟨(v - 32) + 32 * n, rest, by omega, ?_, hr, by simp only [List.length_cons]; omega⟩
      rw [encodeRaw_big (by omega)]
      have e1 : ((v - 32) + 32 * n) % 32 + 32 = v := by omega
      have e2 : ((v - 32) + 32 * n) / 32 = n := by omega
      rw [e1, e2, hc, hs, List.cons_append]
    · simp only [h32, if_false, Bool.false_eq_true, Bool.and_eq_true, bne_iff_ne] at h
      refine ⟨v, cs, h.1, ?_, h.2, by simp⟩
      rw [encodeRaw_small (by omega), hc, List.singleton_append]

theorem canonical_surj_aux : ∀ (k : Nat) (s : List Char), s.length ≤ k → Canonical s →
    ∃ l : List Int, s = encodeList l := by
  intro k
  induction k with
  | zero =>
    intro s hk _
    have : s = [] := List.eq_nil_of_length_eq_zero (by omega)
    exact ⟨[], by simp [this, encodeList]⟩
  | succ k ih =>
    intro s hk hcan
    cases s with
    | nil => exact ⟨[], rfl⟩
    | cons c cs =>
      obtain ⟨n, rest, hn, hs, hr, hl⟩ := canonicalFrom_false_split c cs hcan
      obtain ⟨l, hl'⟩ := ih rest (by simp only [List.length_cons] at hk hl; omega) hr
      refine ⟨ofRaw n :: l, ?_⟩
      rw [encodeList, encode, toRaw_ofRaw hn, ← hl', hs]

/-- every canonical string is the canonical encoding of a list of integers -/
theorem canonical_surj {s : List Char} (h : Canonical s) : ∃ l : List Int, s = encodeList l :=
  canonical_surj_aux s.length s (Nat.le_refl _) h

end CalmVerif.Proofs.Vlq
