/- C16: walkF = preDesc on well-formed trees under coverTable (induction on the fuel). -/
import CalmVerif.Proofs.WalkMain
namespace CalmVerif.Proofs.Walk
open CalmVerif CalmVerif.Gen.Children CalmVerif.Model.Walk

theorem recipeKids_mem (as : Attrs) : ∀ (items : List Item) (ks : List (Step × Val)),
    recipeKids as items = .ok ks → ∀ sc ∈ ks, ∃ it ∈ items, ∃ k1, itemKids as it = .ok k1 ∧ sc ∈ k1 := by
  intro items
  induction items with
  | nil => intro ks h sc hsc; simp [recipeKids] at h; subst h; simp at hsc
  | cons it rest ih =>
    intro ks h sc hsc
    simp only [recipeKids] at h
    cases h1 : itemKids as it with
    | error e => simp [h1] at h
    | ok k1 =>
      cases h2 : recipeKids as rest with
      | error e => simp [h1, h2] at h
      | ok k2 =>
        simp [h1, h2] at h
        subst h
        rcases List.mem_append.mp hsc with hm | hm
        · exact ⟨it, List.mem_cons_self, k1, h1, hm⟩
        · obtain ⟨it', hit', k', hk', hm'⟩ := ih k2 h2 sc hm
          exact ⟨it', List.mem_cons_of_mem _ hit', k', hk', hm'⟩

theorem walkKids_ok (tbl : Table) (recur : Path → Val → Except Err Out) (p : Path) :
    ∀ (cs : List (Step × Val)),
    (∀ sc ∈ cs, recur (sc.1 :: p) sc.2 = .ok (preDesc tbl false (sc.1 :: p) sc.2) ∧ ∃ k bs, sc.2 = .node k bs) →
    walkKids recur p cs = .ok (cs.flatMap (fun sc => preNode tbl false (sc.1 :: p) sc.2)) := by
  intro cs
  induction cs with
  | nil => intro _; simp [walkKids]
  | cons sc rest ih =>
    obtain ⟨s, c⟩ := sc
    intro h
    obtain ⟨h1, k, bs, hk⟩ := h (s, c) List.mem_cons_self
    have h2 := ih (fun sc hsc => h sc (List.mem_cons_of_mem _ hsc))
    simp only at h1 hk
    subst hk
    simp [walkKids, h1, h2, preNode_node]

/-- facts about the children of a well-formed node -/
theorem kids_facts (tbl : Table) (hc : coverTable tbl = true) (k : String) (as : Attrs) (r : Row)
    (hr : findRow tbl k = some r) (hnd : nodupB (as.map (·.1)) = true)
    (hall : ∀ e ∈ r.attrs, (lookup as e.1).isSome = true) (hw : wfAttrs tbl r as = true) (p : Path) :
    ∃ ks, recipeKids as r.recipe = .ok ks ∧
      ks.flatMap (fun sc => preNode tbl false (sc.1 :: p) sc.2) = preDesc tbl false p (.node k as) ∧
      ∀ sc ∈ ks, sc.2 = .none ∨ ((∃ k' bs, sc.2 = .node k' bs) ∧ wfAs tbl .must sc.2 = true ∧
        vsize sc.2 < vsize (.node k as)) := by
  have hcr : coverRow r = true := by
    have := List.all_eq_true.mp hc r (findRow_mem tbl k r hr)
    exact this
  have cf := coverFacts r hcr
  have hnotc : ∀ a s, (a, s) ∈ r.attrs → a ≠ commentsAttr := by
    intro a s hm heq
    exact cf.noComments (List.mem_map.mpr ⟨(a, s), hm, heq⟩)
  -- the value of a row attribute
  have hval : ∀ a s, lookupShape r.attrs a = some s → ∃ x, lookup as a = some x ∧
      wfAs tbl (match s with | .node => Slot.opt | .nodeList => .lst | .scalar => .scal) x = true := by
    intro a s hs
    have hm := lookupShape_mem r.attrs a s hs
    have := hall (a, s) hm
    obtain ⟨x, hx⟩ := Option.isSome_iff_exists.mp this
    refine ⟨x, hx, ?_⟩
    have hwx := wfAttrs_mem tbl r as a x hw (lookup_mem as a x hx)
    have hne : (a == commentsAttr) = false := by simp [hnotc a s hm]
    simp only [slotOf, hne, hs] at hwx
    cases s <;> simpa using hwx
  have hgood : ∀ it ∈ r.recipe, ItemGood as it ∧ lookup as it.name = lookup as it.name ∧ it.name ≠ commentsAttr := by
    intro it hit
    cases it with
    | one a =>
      have hs := cf.oneShape a hit
      obtain ⟨x, hx, hwx⟩ := hval a .node hs
      refine ⟨⟨x, hx, ?_⟩, rfl, hnotc a .node (lookupShape_mem _ _ _ hs)⟩
      rcases wfAs_opt tbl x hwx with h0 | ⟨h1, _⟩
      · exact Or.inl h0
      · exact Or.inr h1
    | many a =>
      have hs := cf.manyShape a hit
      obtain ⟨x, hx, hwx⟩ := hval a .nodeList hs
      obtain ⟨xs, hxs, _⟩ := wfAs_lst tbl x hwx
      subst hxs
      exact ⟨⟨xs, hx⟩, rfl, hnotc a .nodeList (lookupShape_mem _ _ _ hs)⟩
  have hleft : ∀ e ∈ as, e.1 ∉ r.recipe.map Item.name → slotOut tbl false p e.1 e.2 = [] := by
    intro e he hnot
    obtain ⟨b, y⟩ := e
    simp only [slotOut]
    by_cases hb : b = commentsAttr
    · simp [hb]
    · have hne : (b == commentsAttr) = false := by simp [hb]
      simp only [hne, Bool.and_false, Bool.false_eq_true, if_false]
      have hwy := wfAttrs_mem tbl r as b y hw he
      simp only [slotOf, hne, Bool.false_eq_true, if_false] at hwy
      cases hs : lookupShape r.attrs b with
      | none => simp only [hs] at hwy; exact wfAs_scal tbl false p b y hwy
      | some s =>
        cases s with
        | scalar => simp only [hs] at hwy; exact wfAs_scal tbl false p b y hwy
        | node =>
          exfalso
          exact hnot (List.mem_map.mpr ⟨.one b, cf.nodeIn b (lookupShape_mem _ _ _ hs), rfl⟩)
        | nodeList =>
          exfalso
          exact hnot (List.mem_map.mpr ⟨.many b, cf.listIn b (lookupShape_mem _ _ _ hs), rfl⟩)
  obtain ⟨ks, hks, hflat⟩ := recipe_asm tbl p as r.recipe as cf.nodupRecipe hnd hgood hleft
  refine ⟨ks, hks, ?_, ?_⟩
  · rw [hflat]; simp [preDesc, recipeNamesOf, hr]
  · intro sc hsc
    obtain ⟨it, hit, k1, hk1, hm⟩ := recipeKids_mem as r.recipe ks hks sc hsc
    cases it with
    | one a =>
      have hs := cf.oneShape a hit
      obtain ⟨x, hx, hwx⟩ := hval a .node hs
      simp [itemKids, hx] at hk1
      subst hk1
      simp at hm
      subst hm
      rcases wfAs_opt tbl x hwx with h0 | ⟨h1, h2⟩
      · exact Or.inl h0
      · refine Or.inr ⟨h1, h2, ?_⟩
        have := lookup_size as a x hx
        simp only [vsize]; omega
    | many a =>
      have hs := cf.manyShape a hit
      obtain ⟨x, hx, hwx⟩ := hval a .nodeList hs
      obtain ⟨xs, hxs, hwl⟩ := wfAs_lst tbl x hwx
      subst hxs
      simp [itemKids, hx] at hk1
      subst hk1
      have hw1 := wfList_enum tbl a xs 0 sc hwl hm
      obtain ⟨k', bs, _, hv, _⟩ := wfAs_must_node tbl sc.2 hw1
      refine Or.inr ⟨⟨k', bs, hv⟩, hw1, ?_⟩
      have h1 := enumFrom_size a xs 0 sc hm
      have h2 := lookup_size as a (.list xs) hx
      simp only [vsize] at h2 ⊢; omega

theorem walkF_pre (tbl : Table) (hc : coverTable tbl = true) : ∀ (n : Nat) (p : Path) (v : Val),
    wfAs tbl .must v = true → vsize v ≤ n → walkF tbl n p v = .ok (preDesc tbl false p v) := by
  intro n
  induction n with
  | zero => intro p v _ hs; have := vsize_pos v; omega
  | succ n ih =>
    intro p v hw hs
    obtain ⟨k, as, r, hv, hr, hnd, hall, hwa⟩ := wfAs_must_node tbl v hw
    subst hv
    obtain ⟨ks, hks, hflat, hkids⟩ := kids_facts tbl hc k as r hr hnd hall hwa p
    have hiter : iterNode tbl (.node k as) = .ok (ks.filter (fun c => !isNone c.2)) := by
      simp [iterNode, childrenOf, hr, hks]
    simp only [walkF, hiter]
    rw [walkKids_ok tbl (walkF tbl n) p]
    · rw [flatMap_filter_nil _ _ ks, hflat]
      intro sc _ hg
      have : sc.2 = .none := by
        cases h : sc.2 <;> simp [h, isNone] at hg
        rfl
      simp [this, preNode]
    · intro sc hsc
      obtain ⟨hm, hnn⟩ := List.mem_filter.mp hsc
      rcases hkids sc hm with h0 | ⟨hnode, hwf, hsz⟩
      · simp [h0, isNone] at hnn
      · exact ⟨ih (sc.1 :: p) sc.2 hwf (by omega), hnode⟩

end CalmVerif.Proofs.Walk
