/-
Facts about `build_remap_symbols` (Model/Obfuscate.lean `buildTree`): every replacement the generator hands
out lies outside the skip set it was built with (no hypothesis on the charset), hence outside the reserved
keywords and outside `_reserved_symbols` of the scope; this carries over to every table of the finished tree.
-/
import CalmVerif.Proofs.ObfGen
namespace CalmVerif.Obf
open CalmVerif CalmVerif.Unparse

/-- whatever `nextName` returns is outside `skip` (any charset, any fuel) -/
theorem nextName_not_skip (cs : List Char) (skip : List String) :
    ∀ fuel ds nm ds', nextName cs skip fuel ds = .ok (nm, ds') → nm ∉ skip
  | 0, _, _, _, h => by simp [nextName] at h
  | fuel + 1, ds, nm, ds', h => by
    simp only [nextName] at h
    split at h
    · cases h
    · rename_i n hn
      by_cases hc : skip.contains n = true
      · simp only [hc, if_true] at h
        exact nextName_not_skip cs skip fuel _ nm ds' h
      · simp only [hc] at h
        simp only [Bool.false_eq_true, if_false, Except.ok.injEq, Prod.mk.injEq] at h
        obtain ⟨rfl, _⟩ := h
        simpa using hc

theorem drawFrom_not_skip (cs : List Char) (skip : List String) :
    ∀ n ds names, drawFrom cs skip n ds = .ok names → ∀ x ∈ names, x ∉ skip
  | 0, _, names, h => by
    simp only [drawFrom, Except.ok.injEq] at h
    subst h
    intro x hx
    cases hx
  | n + 1, ds, names, h => by
    simp only [drawFrom] at h
    split at h
    · cases h
    · rename_i nm ds' hg
      split at h
      · cases h
      · rename_i rest hr
        simp only [Except.ok.injEq] at h
        subst h
        intro x hx
        rcases List.mem_cons.1 hx with rfl | hx
        · exact nextName_not_skip cs skip _ _ _ _ hg
        · exact drawFrom_not_skip cs skip n ds' rest hr x hx

theorem draw_not_skip (cs : List Char) (skip : List String) (n : Nat) (names : List String)
    (h : draw cs skip n = .ok names) : ∀ x ∈ names, x ∉ skip :=
  drawFrom_not_skip cs skip n [] names h

mutual
  /-- `P` holds of every replacement in every table of the tree -/
  def RTree.AllNew (P : String → Prop) : RTree → Prop
    | .mk _ _ _ _ _ rm children => (∀ p ∈ rm, P p.2) ∧ AllNewList P children
  def AllNewList (P : String → Prop) : List RTree → Prop
    | [] => True
    | c :: cs => c.AllNew P ∧ AllNewList P cs
end

theorem except_map_ok' {ε α β : Type} {f : α → β} {x : Except ε α} {b : β} (h : x.map f = .ok b) :
    ∃ a, x = .ok a ∧ f a = b := by
  cases x with
  | error e => simp [Except.map] at h
  | ok a => exact ⟨a, rfl, by simpa [Except.map] using h⟩

theorem zip_snd_mem {α β : Type} {l1 : List α} {l2 : List β} {p : α × β} (h : p ∈ l1.zip l2) : p.2 ∈ l2 :=
  (List.of_mem_zip h).2

mutual
  theorem buildTree_allNew (cs : List Char) (kw : List String) :
      ∀ (chain : List Anc) (doSelf : Bool) (t : STree) (r : RTree),
        buildTree cs kw chain doSelf t = .ok r → r.AllNew (fun v => v ∉ kw)
    | chain, doSelf, .mk id node kind refs decl children, r, h => by
      simp only [buildTree] at h
      split at h
      · cases h
      · rename_i rm hrm
        split at h
        · cases h
        · rename_i rcs hrcs
          simp only [Except.ok.injEq] at h
          subst h
          refine ⟨?_, buildChildren_allNew cs kw _ children rcs hrcs⟩
          intro p hp
          -- where did `rm` come from?
          cases kind with
          | func =>
            simp only at hrm
            split at hrm
            · obtain ⟨names, hd, rfl⟩ := except_map_ok' hrm
              have := draw_not_skip cs _ _ names hd p.2 (zip_snd_mem hp)
              exact fun hk => this (mem_sunion.2 (Or.inr hk))
            · simp only [Except.ok.injEq] at hrm
              subst hrm
              cases hp
          | «catch» sym u =>
            simp only at hrm
            obtain ⟨names, hd, rfl⟩ := except_map_ok' hrm
            have := draw_not_skip cs _ _ names hd p.2 (zip_snd_mem hp)
            exact fun hk => this (mem_sunion.2 (Or.inr hk))
  theorem buildChildren_allNew (cs : List Char) (kw : List String) :
      ∀ (chain : List Anc) (ts : List STree) (rs : List RTree),
        buildChildren cs kw chain ts = .ok rs → AllNewList (fun v => v ∉ kw) rs
    | _, [], rs, h => by
      simp only [buildChildren, Except.ok.injEq] at h
      subst h
      trivial
    | chain, c :: rest, rs, h => by
      simp only [buildChildren] at h
      split at h
      · cases h
      · rename_i r hr
        split at h
        · cases h
        · rename_i rs' hrs
          simp only [Except.ok.injEq] at h
          subst h
          exact ⟨buildTree_allNew cs kw chain true c r hr, buildChildren_allNew cs kw chain rest rs' hrs⟩
end

end CalmVerif.Obf

namespace CalmVerif.Obf
open CalmVerif CalmVerif.Unparse

mutual
  /-- capture-freedom of the tables of a finished tree `r` built from the scope tree `t` under the ancestors
  `chain`: in every scope the replacements are non-empty, pairwise distinct, and outside `_reserved_symbols`
  of that scope (free names of the scope and of its whole subtree, and the names every non-local symbol
  referenced here resolves to through the ancestors' tables) -/
  def Capfree (chain : List Anc) : STree → RTree → Prop
    | .mk _ _ kind refs decl children, .mk _ _ _ _ _ rm rcs =>
      (∀ p ∈ rm, p.2 ∉ reservedSymbols ({ kind := kind, refs := refs, decl := decl, remapped := [] } :: chain) children
        ∧ p.2 ≠ "") ∧
      (rm.map (·.2)).Nodup ∧
      CapfreeList ({ kind := kind, refs := refs, decl := decl, remapped := rm } :: chain) children rcs
  def CapfreeList (chain : List Anc) : List STree → List RTree → Prop
    | [], [] => True
    | c :: cs, r :: rs => Capfree chain c r ∧ CapfreeList chain cs rs
    | [], _ :: _ => False
    | _ :: _, [] => False
end

theorem zip_snd_nodup {α β : Type} : ∀ (l1 : List α) (l2 : List β), l2.Nodup → ((l1.zip l2).map (·.2)).Nodup
  | [], _, _ => by simp
  | _ :: _, [], _ => by simp
  | a :: l1, b :: l2, h => by
    rw [List.nodup_cons] at h
    simp only [List.zip_cons_cons, List.map_cons, List.nodup_cons]
    refine ⟨?_, zip_snd_nodup l1 l2 h.2⟩
    intro hm
    obtain ⟨p, hp, rfl⟩ := List.mem_map.1 hm
    exact h.1 (zip_snd_mem hp)

/-- the table a scope gets from a fresh generator with skip set `reserved ∪ kw` -/
theorem table_spec {cs : List Char} (hnd : cs.Nodup) (hne : cs ≠ []) (res kw : List String)
    (syms : List String) (rm : List (String × String))
    (h : (draw cs (sunion res kw) syms.length).map (fun names => syms.zip names) = .ok rm) :
    (∀ p ∈ rm, p.2 ∉ res ∧ p.2 ≠ "") ∧ (rm.map (·.2)).Nodup := by
  obtain ⟨names, hd, rfl⟩ := except_map_ok' h
  obtain ⟨names', hd', _, hnodup, hall⟩ := draw_spec hnd hne (sunion res kw) syms.length
  rw [hd] at hd'
  simp only [Except.ok.injEq] at hd'
  subst hd'
  refine ⟨?_, zip_snd_nodup _ _ hnodup⟩
  intro p hp
  have := hall p.2 (zip_snd_mem hp)
  exact ⟨fun hr => this.1 (mem_sunion.2 (Or.inl hr)), this.2⟩

mutual
  theorem buildTree_capfree {cs : List Char} (hnd : cs.Nodup) (hne : cs ≠ []) (kw : List String) :
      ∀ (chain : List Anc) (doSelf : Bool) (t : STree) (r : RTree),
        buildTree cs kw chain doSelf t = .ok r → Capfree chain t r
    | chain, doSelf, .mk id node kind refs decl children, r, h => by
      simp only [buildTree] at h
      split at h
      · cases h
      · rename_i rm hrm
        split at h
        · cases h
        · rename_i rcs hrcs
          simp only [Except.ok.injEq] at h
          subst h
          have hc := buildChildren_capfree hnd hne kw _ children rcs hrcs
          have ht : (∀ p ∈ rm, p.2 ∉ reservedSymbols ({ kind := kind, refs := refs, decl := decl, remapped := [] } :: chain) children
              ∧ p.2 ≠ "") ∧ (rm.map (·.2)).Nodup := by
            cases kind with
            | func =>
              simp only at hrm
              split at hrm
              · exact table_spec hnd hne _ kw _ rm hrm
              · simp only [Except.ok.injEq] at hrm
                subst hrm
                refine ⟨?_, ?_⟩
                · intro p hp
                  exact absurd hp (List.not_mem_nil)
                · exact List.nodup_nil
            | «catch» sym u =>
              simp only at hrm
              exact table_spec hnd hne _ kw [sym] rm hrm
          exact ⟨ht.1, ht.2, hc⟩
  theorem buildChildren_capfree {cs : List Char} (hnd : cs.Nodup) (hne : cs ≠ []) (kw : List String) :
      ∀ (chain : List Anc) (ts : List STree) (rs : List RTree),
        buildChildren cs kw chain ts = .ok rs → CapfreeList chain ts rs
    | _, [], rs, h => by
      simp only [buildChildren, Except.ok.injEq] at h
      subst h
      trivial
    | chain, c :: rest, rs, h => by
      simp only [buildChildren] at h
      split at h
      · cases h
      · rename_i r hr
        split at h
        · cases h
        · rename_i rs' hrs
          simp only [Except.ok.injEq] at h
          subst h
          exact ⟨buildTree_capfree hnd hne kw chain true c r hr,
            buildChildren_capfree hnd hne kw chain rest rs' hrs⟩
end

end CalmVerif.Obf
