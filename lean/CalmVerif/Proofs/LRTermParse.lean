/-
Termination of the LR driver loop (C12), part 7: the real token source (`Lexer.token` + `Parser.p_error`) makes at
most `8 * |text| + 4` successful calls in any run of the driver over tables passing `tablesValid`, `ranksOK`, `autoOK`
— for every semantics that classifies AUTOSEMI tokens as the terminal `auto`.

Potential argument.  `phi = 8 * (|text| - lexpos) + psi (look-ahead kind, |next_tokens|, last shifted is AUTOSEMI)`:
  * a call that lexes a token (`token()` with empty `next_tokens`, or the REGEX re-lex of `p_error`) moves `lexpos`
    forward inside the text: `phi` drops by at least 8 - 7;
  * the other successful calls — popping a pushed-back token, `None` at the end of input, inserting an AUTOSEMI —
    lower `psi` by at least 1; shifts and reductions never raise it.  The only way `psi` could go round is
    `insert AUTOSEMI ; shift it ; (pop | None) ; insert AUTOSEMI ; shift it ; …`, which the tables exclude
    (Proofs/LRTermAuto.auto_not_shifted: no two AUTOSEMI shifts in a row); an AUTOSEMI look-ahead that is an error
    is never repaired by another insertion (`auto_semi` returns `None` for SEMI/AUTOSEMI tokens).
-/
import CalmVerif.Proofs.LRTermLex
import CalmVerif.Proofs.LRTermAuto
import CalmVerif.Proofs.LRTermSource
namespace CalmVerif.Proofs.LRTermParse
open CalmVerif.Model.LR CalmVerif.Model.Lexer CalmVerif.Model.Parser CalmVerif.Proofs.LRTermLex

inductive LookKind where
  | none | eoi | auto | other
  deriving DecidableEq

def kindOf : Option (Option Token) → LookKind
  | none => .none
  | some none => .eoi
  | some (some t) => if t.type = "AUTOSEMI" then .auto else .other

/-- an upper bound on the number of further source calls that do not lex -/
def psi : LookKind → Nat → Bool → Nat
  | .auto, _, true => 0
  | .auto, q, false => if q = 0 then 2 else 5
  | .eoi, _, true => 1
  | .eoi, _, false => 3
  | .none, q, true => if q = 0 then 2 else 5
  | .none, q, false => if q = 0 then 4 else 7
  | .other, _, true => 4
  | .other, _, false => 6

theorem psi_le (l : LookKind) (q : Nat) (e : Bool) : psi l q e ≤ 7 := by
  cases l <;> cases e <;> simp only [psi] <;> (try split) <;> omega

def phi (len : Nat) (look : Option (Option Token)) (st : LexState) (e : Bool) : Nat :=
  8 * (len - st.lexpos) + psi (kindOf look) st.nextTokens.length e

/-- at most one pushed-back token, and none while a real token or `$end` is the look-ahead -/
def J (look : Option (Option Token)) (st : LexState) : Prop :=
  st.nextTokens.length ≤ 1 ∧ (kindOf look = .other ∨ kindOf look = .eoi → st.nextTokens = [])

theorem kindOf_auto {t : Token} (h : t.type = "AUTOSEMI") : kindOf (some (some t)) = .auto := by
  simp [kindOf, h]

theorem kindOf_other {t : Token} (h : t.type ≠ "AUTOSEMI") : kindOf (some (some t)) = .other := by
  simp [kindOf, h]

/-! ### the source calls -/

/-- `lexer.token()` called with no look-ahead held -/
theorem next_phi {text : List Char} {st st' : LexState} {r : Option Token} (e : Bool)
    (hj : J none st) (htx : st.text = text) (h : token st = .ok (r, st')) :
    st'.text = text ∧ J (some r) st' ∧ phi text.length (some r) st' e + 1 ≤ phi text.length none st e := by
  obtain ⟨hq, _⟩ := hj
  rcases token_call h with ⟨t, rest, t', hn, hn', hlp, htx', rfl, hty⟩ | ⟨hn, hn', htx', hnone, hsome⟩
  · -- popped
    have hrest : rest = [] := by
      rw [hn] at hq
      cases rest with
      | nil => rfl
      | cons _ _ => simp at hq
    subst hrest
    refine ⟨htx'.trans htx, ⟨by simp [hn'], fun _ => hn'⟩, ?_⟩
    simp only [phi, hn, hn', hlp, List.length_nil, List.length_singleton, kindOf]
    cases e <;> split <;> simp [psi]
  · cases r with
    | none =>
      have hlt := hnone rfl
      rw [htx] at hlt
      refine ⟨htx'.trans htx, ⟨by simp [hn'], fun _ => hn'⟩, ?_⟩
      simp only [phi, hn, hn', List.length_nil, kindOf]
      have : text.length - st'.lexpos = 0 := by omega
      rw [this]
      cases e <;> simp [psi]
    | some t =>
      obtain ⟨h1, h2, _⟩ := hsome t rfl
      rw [htx] at h2
      refine ⟨htx'.trans htx, ⟨by simp [hn'], fun _ => hn'⟩, ?_⟩
      simp only [phi]
      have := psi_le (kindOf (some (some t))) st'.nextTokens.length e
      omega

/-- `p_error(tok)` called with the look-ahead `x` (`tok` = the token, `None` for `$end`) -/
theorem err_phi {text : List Char} {st st' : LexState} {x : Option Token} {r : Option Token} (e : Bool)
    (hj : J (some x) st) (htx : st.text = text) (h : pError st x = .ok (r, st')) :
    ∃ t', r = some t' ∧ st'.text = text ∧ J (some (some t')) st' ∧
      phi text.length (some (some t')) st' e + 1 ≤ phi text.length (some x) st e := by
  obtain ⟨t', rfl, hk⟩ := pError_call h
  refine ⟨t', rfl, ?_⟩
  cases hk with
  | insertEnd hx hty hn hlp htx' =>
    subst hx
    have hq : st.nextTokens = [] := hj.2 (Or.inr rfl)
    refine ⟨htx'.trans htx, ⟨by simp [hn, hq], ?_⟩, ?_⟩
    · rw [kindOf_auto hty]; intro h0; rcases h0 with h0 | h0 <;> cases h0
    · simp only [phi, hn, hq, hlp, List.length_nil]
      rw [kindOf_auto hty]
      simp only [kindOf]
      cases e <;> simp [psi]
  | insert t hx hne hty hn hlp htx' =>
    subst hx
    have hq : st.nextTokens = [] := hj.2 (Or.inl (kindOf_other hne))
    refine ⟨htx'.trans htx, ⟨by simp [hn, hq], ?_⟩, ?_⟩
    · rw [kindOf_auto hty]; intro h0; rcases h0 with h0 | h0 <;> cases h0
    · simp only [phi, hn, hq, hlp, List.length_nil, List.length_singleton]
      rw [kindOf_auto hty, kindOf_other hne]
      cases e <;> simp [psi]
  | relex hty hn hlt hle htx' =>
    rw [htx] at hle
    refine ⟨htx'.trans htx, ⟨by simp [hn], fun _ => hn⟩, ?_⟩
    simp only [phi]
    have := psi_le (kindOf (some (some t'))) st'.nextTokens.length e
    omega

/-! ### the driver -/

section driver
variable {ν : Type} {T : Tables} {cert : List (List Nat)} {acc : List Nat} {C : RankCert} {A : AutoCert} {auto : Nat}
variable {S : Sem Token ν LexState PErr}

/-- the invariant along a trace: `k` source calls so far -/
structure PInv (T : Tables) (S : Sem Token ν LexState PErr) (auto : Nat) (text : List Char)
    (c : Config Token ν LexState) (k : Nat) : Prop where
  ginv : GInv T S (fun _ _ => True) c
  textEq : c.src.text = text
  j : J c.look c.src
  pot : k + phi text.length c.look c.src (lastAuto S auto c) ≤ 8 * text.length + 4

theorem pinv_init (text : List Char) (wc : Bool) :
    PInv T S auto text (initConfig (Model.Lexer.init text wc false)) 0 :=
  ⟨ginv_init _, rfl, ⟨by simp [initConfig, Model.Lexer.init], fun _ => rfl⟩,
    by simp [initConfig, Model.Lexer.init, phi, kindOf, psi, lastAuto]⟩

theorem step_pinv (h : tablesValid T cert acc = true) (hr : ranksOK T C = true) (ha : autoOK T C A auto = true)
    (hty : ∀ t : Token, t.type = "AUTOSEMI" → S.ty t = auto) {text : List Char}
    {c c' : Config Token ν LexState} {k : Nat} (hinv : PInv T S auto text c k)
    (hs : step T S source c = .inl c') : PInv T S auto text c' (k + stepCalls T S source c) := by
  obtain ⟨hg, htx, hj, hpot⟩ := hinv
  have hg' : GInv T S (fun _ _ => True) c' :=
    step_ginv h ⟨fun _ => trivial, fun _ _ _ _ => trivial⟩ hg hs
  obtain ⟨st, below, a, c1, hst, hf, hcases⟩ := step_view hs
  rw [stepCalls_view hst hf]
  obtain ⟨hs1, _, hsh1, _⟩ := fetch_spec' hf
  have hla1 : lastAuto S auto c1 = lastAuto S auto c := by simp [lastAuto, hsh1]
  -- the fetch
  have hfetch : c1.src.text = text ∧ J c1.look c1.src ∧
      (k + (if (defaultedOf T st).isNone && c.look.isNone then 1 else 0)) +
        phi text.length c1.look c1.src (lastAuto S auto c) ≤ 8 * text.length + 4 ∧
      (a = none ∨ (∃ s, a = some (.shift s)) → a = actionOf T st (lookTermOf T S c1)) ∧
      (a = none → c1.look.isSome) := by
    rcases fetch_view hf with ⟨p, _, hap, rfl, h0⟩ | ⟨x, _, hl, rfl, hax, h0⟩ | ⟨t, s', _, hl, hn, rfl, hat, h1⟩
    · rw [h0]
      refine ⟨htx, hj, hpot, ?_, ?_⟩
      · intro h0; rcases h0 with h0 | ⟨s, h0⟩ <;> (rw [hap] at h0; cases h0)
      · intro h0; rw [hap] at h0; cases h0
    · rw [h0]; exact ⟨htx, hj, hpot, fun _ => hax, fun _ => by simp [hl]⟩
    · rw [h1]
      have hn' : token c.src = .ok (t, s') := by
        simp only [source] at hn
        split at hn
        · next r heq => simp only [Except.ok.injEq] at hn; rw [heq, hn]
        · simp at hn
      rw [hl] at hj hpot
      obtain ⟨e1, e2, e3⟩ := next_phi (lastAuto S auto c) hj htx hn'
      exact ⟨e1, e2, by simp only; omega, fun _ => hat, fun _ => rfl⟩
  obtain ⟨htx1, hj1, hpot1, hact, hsome⟩ := hfetch
  rcases hcases with ⟨s, t, has, hl1, hl', hsrc', hsh', hst'⟩ | ⟨p, hap, hl', hsrc', hsh'⟩ |
    ⟨t', s', han, herr, hl', hsrc', hsh', _, _⟩
  · -- shift
    have hact' : actionOf T st (S.ty t) = some (.shift s) := by
      have := hact (Or.inr ⟨s, has⟩)
      rw [has] at this
      simpa [lookTermOf, hl1] using this.symm
    refine ⟨hg', by rw [hsrc']; exact htx1, ?_, ?_⟩
    · rw [hl', hsrc']
      exact ⟨hj1.1, fun h0 => by rcases h0 with h0 | h0 <;> simp [kindOf] at h0⟩
    · have hgoal : phi text.length c'.look c'.src (lastAuto S auto c') ≤
          phi text.length c1.look c1.src (lastAuto S auto c) := by
        simp only [phi, hl', hsrc', hl1]
        by_cases hauto : t.type = "AUTOSEMI"
        · -- an AUTOSEMI is shifted: the previous token was not one
          have hE : lastAuto S auto c = false := by
            cases hb : lastAuto S auto c with
            | false => rfl
            | true =>
              exfalso
              have := auto_not_shifted hr ha hg hb hst s
              rw [← hty t hauto] at this
              exact this hact'
          have hE' : lastAuto S auto c' = true := by
            simp [lastAuto, hsh', hty t hauto]
          rw [hE, hE', kindOf_auto hauto]
          simp only [kindOf, psi]
          split <;> simp
        · have hq : c1.src.nextTokens = [] := hj1.2 (Or.inl (by rw [hl1]; exact kindOf_other hauto))
          rw [kindOf_other hauto, hq]
          simp only [kindOf, List.length_nil]
          cases lastAuto S auto c' <;> cases lastAuto S auto c <;> simp [psi]
      have hz : (if a = none then 1 else 0) = 0 := by rw [has]; simp
      rw [hz]
      omega
  · -- reduce
    have hla : lastAuto S auto c' = lastAuto S auto c := by simp [lastAuto, hsh', hsh1]
    refine ⟨hg', by rw [hsrc']; exact htx1, by rw [hl', hsrc']; exact hj1, ?_⟩
    rw [hl', hsrc', hla]
    have hz : (if a = none then 1 else 0) = 0 := by rw [hap]; simp
    rw [hz]
    omega
  · -- error repaired by `p_error`
    have hla : lastAuto S auto c' = lastAuto S auto c := by simp [lastAuto, hsh', hsh1]
    obtain ⟨x, hx⟩ := Option.isSome_iff_exists.mp (hsome han)
    have htok : lookTok c1 = x := by
      unfold lookTok; rw [hx]; cases x <;> rfl
    have herr' : pError c1.src x = .ok (some t', s') := by
      simpa [source, htok] using herr
    rw [hx] at hj1 hpot1
    obtain ⟨t'', ht'', e1, e2, e3⟩ := err_phi (lastAuto S auto c) hj1 htx1 herr'
    cases ht''
    refine ⟨hg', by rw [hsrc']; exact e1, by rw [hl', hsrc']; exact e2, ?_⟩
    rw [hl', hsrc', hla]
    have hz : (if a = none then 1 else 0) = 1 := by rw [han]; simp
    rw [hz]
    omega

/-- **the real token source makes at most `8 * |text| + 4` successful calls** in any run of the driver -/
theorem source_bound (h : tablesValid T cert acc = true) (hr : ranksOK T C = true) (ha : autoOK T C A auto = true)
    (hty : ∀ t : Token, t.type = "AUTOSEMI" → S.ty t = auto) (text : List Char) (wc : Bool) :
    SourceBound T S source (Model.Lexer.init text wc false) (8 * text.length + 4) := by
  intro n k c' ht
  have := trace_inv (P := PInv T S auto text) ht (pinv_init text wc)
    (fun c1 c2 k hp hs => step_pinv h hr ha hty hp hs)
  have := this.pot
  omega

end driver
end CalmVerif.Proofs.LRTermParse
