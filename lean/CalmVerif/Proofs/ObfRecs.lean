/-
The scopes of a finished tree as a flat list of records (`recsOf`): id, node path, and the chain of `Anc`s (the scope
with its final table first, then its ancestors).  Per record, extracted from the tree-shaped invariants:
  ScopeOK     (Proofs/ObfInjTree.lean)  resolve one-to-one on the referenced names, identity on undeclared names
  KeysHead    the keys of the scope's table are names the scope declares
  FullHead    a scope built with `children_only = False` (every scope but possibly the root) has a non-empty replacement for
              every declared name that is a key of its `referenced_symbols`
  LeakHead    every non-local symbol of a function scope is a key of the parent's `referenced_symbols` (leak invariant)
-/
import CalmVerif.Proofs.ObfInjTree
import CalmVerif.Proofs.ObfFacts
namespace CalmVerif.Obf
open CalmVerif CalmVerif.Unparse

def KeysHead : List Anc → Prop
  | A :: _ => ∀ p ∈ A.remapped, p.1 ∈ declaredBy A
  | [] => True

def FullHead : List Anc → Prop
  | A :: _ => A.kind = .func → ∀ x ∈ ckeys A.refs, x ∈ A.decl → ∃ v, A.remapped.lookup x = some v ∧ v ≠ ""
  | [] => True

def CatchFullHead : List Anc → Prop
  | A :: _ => ∀ sym u, A.kind = .catch sym u → ∃ v, A.remapped.lookup sym = some v ∧ v ≠ ""
  | [] => True

def LeakHead : List Anc → Prop
  | A :: C => A.kind = .func → ∀ x ∈ ckeys A.refs, x ∉ A.decl → x ∈ ckeys (effRefs C)
  | [] => True

/-! ### ScopeOK per record -/

mutual
  theorem injTree_recs : ∀ (chain : List Anc) (t : STree) (r : RTree), InjTree chain t r →
      ∀ rec ∈ recsOf chain t r, ScopeOK rec.chain
    | chain, .mk id node kind refs decl children, .mk _ _ _ _ _ rm rcs, h => by
      simp only [InjTree] at h
      intro rec hrec
      simp only [recsOf, List.mem_cons] at hrec
      rcases hrec with rfl | hrec
      · exact h.1
      · exact injTreeList_recs _ children rcs h.2 rec hrec
  theorem injTreeList_recs : ∀ (chain : List Anc) (ts : List STree) (rs : List RTree), InjTreeList chain ts rs →
      ∀ rec ∈ recsOfList chain ts rs, ScopeOK rec.chain
    | _, [], _, _ => by intro rec hrec; simp [recsOfList] at hrec
    | _, _ :: _, [], h => by simp [InjTreeList] at h
    | chain, c :: cs, r :: rs, h => by
      simp only [InjTreeList] at h
      intro rec hrec
      simp only [recsOfList, List.mem_append] at hrec
      rcases hrec with hrec | hrec
      · exact injTree_recs chain c r h.1 rec hrec
      · exact injTreeList_recs chain cs rs h.2 rec hrec
end

/-! ### table facts per record -/

theorem table_full {cs : List Char} (hnd : cs.Nodup) (hne : cs ≠ []) (res kw : List String) (refs : Counts)
    (decl : List String) (rm : List (String × String))
    (h : (draw cs (sunion res kw) (remapOrder refs decl).length).map (fun names => (remapOrder refs decl).zip names) = .ok rm) :
    (∀ p ∈ rm, p.1 ∈ decl) ∧
    (∀ x ∈ ckeys refs, x ∈ decl → ∃ v, rm.lookup x = some v ∧ v ≠ "") := by
  obtain ⟨names, rfl, hl, _, hfresh⟩ := table_spec2 hnd hne res kw _ rm h
  refine ⟨fun p hp => (mem_remapOrder.1 (zip_fst_mem hp)).2, ?_⟩
  intro x hx hd
  obtain ⟨v, hv⟩ := lookup_zip_of_mem hl (mem_remapOrder.2 ⟨hx, hd⟩)
  exact ⟨v, hv, (hfresh v (lookup_zip_some hv).2).2⟩

mutual
  theorem buildTree_tableFacts {cs : List Char} (hnd : cs.Nodup) (hne : cs ≠ []) (kw : List String) :
      ∀ (chain : List Anc) (doSelf : Bool) (t : STree) (r : RTree), buildTree cs kw chain doSelf t = .ok r →
        ∀ rec ∈ recsOf chain t r, KeysHead rec.chain ∧ CatchFullHead rec.chain ∧
          (rec.chain.length ≠ chain.length + 1 ∨ doSelf = true → FullHead rec.chain)
    | chain, doSelf, .mk id node kind refs decl children, r, h => by
      simp only [buildTree] at h
      split at h
      · cases h
      · rename_i rm hrm
        split at h
        · cases h
        · rename_i rcs hrcs
          simp only [Except.ok.injEq] at h
          subst h
          intro rec hrec
          simp only [recsOf, List.mem_cons] at hrec
          rcases hrec with rfl | hrec
          · -- the scope itself
            cases kind with
            | func =>
              simp only at hrm
              split at hrm
              · rename_i hds
                obtain ⟨h1, h2⟩ := table_full hnd hne _ kw refs decl rm hrm
                exact ⟨fun p hp => by simpa [declaredBy] using h1 p hp, (fun _ _ hk => SKind.noConfusion hk), fun _ _ => h2⟩
              · simp only [Except.ok.injEq] at hrm
                subst hrm
                rename_i hds
                refine ⟨fun p hp => absurd hp List.not_mem_nil, (fun _ _ hk => SKind.noConfusion hk), ?_⟩
                intro hor
                rcases hor with hl | hd
                · simp at hl
                · exact absurd hd hds
            | «catch» sym u =>
              simp only at hrm
              obtain ⟨names, rfl, hl, _, hfresh⟩ := table_spec2 hnd hne _ kw [sym] rm hrm
              refine ⟨fun p hp => by simpa [declaredBy] using zip_fst_mem hp, ?_, fun _ hk => by cases hk⟩
              intro sym' u' hk
              simp only [SKind.catch.injEq] at hk
              obtain ⟨rfl, _⟩ := hk
              obtain ⟨v, hv⟩ := lookup_zip_of_mem hl (List.mem_singleton.2 rfl)
              exact ⟨v, hv, (hfresh v (lookup_zip_some hv).2).2⟩
          · have := buildChildren_tableFacts hnd hne kw _ children rcs hrcs rec hrec
            refine ⟨this.1, this.2.1, fun _ => this.2.2⟩
  theorem buildChildren_tableFacts {cs : List Char} (hnd : cs.Nodup) (hne : cs ≠ []) (kw : List String) :
      ∀ (chain : List Anc) (ts : List STree) (rs : List RTree), buildChildren cs kw chain ts = .ok rs →
        ∀ rec ∈ recsOfList chain ts rs, KeysHead rec.chain ∧ CatchFullHead rec.chain ∧ FullHead rec.chain
    | _, [], rs, h => by
      simp only [buildChildren, Except.ok.injEq] at h
      subst h
      intro rec hrec
      simp [recsOfList] at hrec
    | chain, c :: rest, rs, h => by
      simp only [buildChildren] at h
      split at h
      · cases h
      · rename_i r hr
        split at h
        · cases h
        · rename_i rs' hrs
          simp only [Except.ok.injEq] at h
          subst h
          intro rec hrec
          simp only [recsOfList, List.mem_append] at hrec
          rcases hrec with hrec | hrec
          · have := buildTree_tableFacts hnd hne kw chain true c r hr rec hrec
            exact ⟨this.1, this.2.1, this.2.2 (Or.inr rfl)⟩
          · exact buildChildren_tableFacts hnd hne kw chain rest rs' hrs rec hrec
end

/-! ### the leak invariant per record -/

mutual
  theorem leak_recs : ∀ (chain : List Anc) (t : STree) (r : RTree), LeakOK (ckeys (effRefs chain)) t →
      ∀ rec ∈ recsOf chain t r, LeakHead rec.chain
    | chain, .mk id node kind refs decl children, .mk _ _ _ _ _ rm rcs, h => by
      intro rec hrec
      simp only [recsOf, List.mem_cons] at hrec
      cases kind with
      | func =>
        simp only [LeakOK] at h
        rcases hrec with rfl | hrec
        · intro _ x hx hd
          exact h.1 x hx hd
        · refine leakList_recs _ children rcs ?_ rec hrec
          simpa [effRefs] using h.2
      | «catch» sym u =>
        simp only [LeakOK] at h
        rcases hrec with rfl | hrec
        · intro hk; cases hk
        · refine leakList_recs _ children rcs ?_ rec hrec
          refine leakOKList_mono ?_ _ h
          intro x hx
          simp only [effRefs]
          rcases List.mem_cons.1 hx with rfl | hx
          · exact mem_ckeys_cupdate.2 (Or.inl (by simp [ckeys]))
          · exact mem_ckeys_cupdate.2 (Or.inr hx)
  theorem leakList_recs : ∀ (chain : List Anc) (ts : List STree) (rs : List RTree),
      LeakOKList (ckeys (effRefs chain)) ts → ∀ rec ∈ recsOfList chain ts rs, LeakHead rec.chain
    | _, [], _, _ => by intro rec hrec; simp [recsOfList] at hrec
    | _, _ :: _, [], _ => by intro rec hrec; simp [recsOfList] at hrec
    | chain, c :: cs, r :: rs, h => by
      simp only [LeakOKList] at h
      intro rec hrec
      simp only [recsOfList, List.mem_append] at hrec
      rcases hrec with hrec | hrec
      · exact leak_recs chain c r h.1 rec hrec
      · exact leakList_recs chain cs rs h.2 rec hrec
end

end CalmVerif.Obf
