/-
`isoCond`, part 3: the induction over the tree and the program-level statement.
-/
import CalmVerif.Proofs.ObfIso2
import CalmVerif.Proofs.ObfSimple4
namespace CalmVerif.Obf
open CalmVerif CalmVerif.Unparse
open CalmVerif.Spec.Scope (BKind Binder Layer Ctx Occ Role identName isFunctionKind isVarDeclKind
  lookupEnv lookupLabel roleOf enter isPresent hoistVal paramNames declOccs resolveVal resolveList resolveAttrs)

local notation "sLookup" => Spec.Scope.lookupAttr

section
variable {fin : Final} (recs : List Rec) (hgood : ∀ R ∈ recs, ChainGood R.chain)
include hgood

abbrev AllBOK (fin : Final) (recs : List Rec) (os : List Occ) : Prop := ∀ o ∈ os, ∀ b ∈ o.binders, BOK recs (lblChain fin recs) (tauFin fin) b

omit hgood in
theorem allBOK_append {a b : List Occ} (ha : AllBOK fin recs a) (hb : AllBOK fin recs b) : AllBOK fin recs (a ++ b) := by
  intro o ho
  rcases List.mem_append.1 ho with h | h
  · exact ha o h
  · exact hb o h

omit hgood in
theorem battrs_step_list {outer inner : Ctx} {omc imc : MCtx} (hio : InvR (fin := fin) recs outer omc)
    (hii : InvR (fin := fin) recs inner imc) (hof : outer.forInItem = false) (hif : inner.forInItem = false)
    (p : SPath) (kind : String) (hasInit forIn : Bool)
    (hin : InnerOK kind p inner ∧ (isFunctionKind kind = true → ∃ A, RecVar recs p (A :: omc.chain)))
    (a : String) (xs : List Val) (rest : List (String × Val))
    (h : factsAttrs fin recs omc imc p kind hasInit forIn ((a, .list xs) :: rest) = true)
    (ihList : ∀ (ctx : Ctx) (mc : MCtx), InvR (fin := fin) recs ctx mc → factsList fin recs mc ctx.forInItem p a 0 xs = true →
      AllBOK fin recs (resolveList ctx p a 0 xs))
    (ihRest : factsAttrs fin recs omc imc p kind hasInit forIn rest = true →
      AllBOK fin recs (resolveAttrs outer inner p kind hasInit forIn rest)) :
    AllBOK fin recs (resolveAttrs outer inner p kind hasInit forIn ((a, .list xs) :: rest)) := by
  rw [factsAttrs.eq_2, Bool.and_eq_true] at h
  rw [resolveAttrs_cons_list]
  refine allBOK_append recs ?_ (ihRest h.2)
  refine roleOut_bok hio hii p a (.list xs) _ _ _ _ _ _ _ (fun hr => hin.1.1 (roleOf_params_func hr)) (fun hr => hin.1.2 (roleOf_catchParam hr)) (fun hr => hin.2 (roleOf_selfName hr)) h.1 ?_ ?_ ?_
  · intro hc; exact ihList outer omc hio (by rw [hof]; exact hc)
  · intro hc; exact ihList inner imc hii (by rw [hif]; exact hc)
  · intro hc; exact ihList outer omc hio (by rw [hof]; exact hc)

omit hgood in
theorem battrs_step_nonlist {outer inner : Ctx} {omc imc : MCtx} (hio : InvR (fin := fin) recs outer omc)
    (hii : InvR (fin := fin) recs inner imc) (hof : outer.forInItem = false) (hif : inner.forInItem = false)
    (p : SPath) (kind : String) (hasInit forIn : Bool)
    (hin : InnerOK kind p inner ∧ (isFunctionKind kind = true → ∃ A, RecVar recs p (A :: omc.chain)))
    (a : String) (v : Val) (hnl : NotList v) (rest : List (String × Val))
    (h : factsAttrs fin recs omc imc p kind hasInit forIn ((a, v) :: rest) = true)
    (ihVal : ∀ (ctx : Ctx) (mc : MCtx), InvR (fin := fin) recs ctx mc →
      factsVal fin recs mc ctx.forInItem (p ++ [(a, 0)]) v = true → AllBOK fin recs (resolveVal ctx (p ++ [(a, 0)]) v))
    (ihRest : factsAttrs fin recs omc imc p kind hasInit forIn rest = true →
      AllBOK fin recs (resolveAttrs outer inner p kind hasInit forIn rest)) :
    AllBOK fin recs (resolveAttrs outer inner p kind hasInit forIn ((a, v) :: rest)) := by
  rw [factsAttrs.eq_3 _ _ _ _ _ _ _ _ _ _ _ hnl, Bool.and_eq_true] at h
  rw [resolveAttrs_cons_nonlist _ _ _ _ _ _ _ _ hnl]
  refine allBOK_append recs ?_ (ihRest h.2)
  refine roleOut_bok hio hii p a v _ _ _ _ _ _ _ (fun hr => hin.1.1 (roleOf_params_func hr)) (fun hr => hin.1.2 (roleOf_catchParam hr)) (fun hr => hin.2 (roleOf_selfName hr)) h.1 ?_ ?_ ?_
  · intro hc; exact ihVal { outer with forInItem := true } omc (invR_flag hio true) hc
  · intro hc; exact ihVal inner imc hii (by rw [hif]; exact hc)
  · intro hc; exact ihVal outer omc hio (by rw [hof]; exact hc)

mutual
  theorem bokVal : ∀ (ctx : Ctx) (mc : MCtx) (p : SPath) (v : Val), InvR (fin := fin) recs ctx mc →
      factsVal fin recs mc ctx.forInItem p v = true → AllBOK fin recs (resolveVal ctx p v)
    | _, _, _, .none, _, _ => by intro o ho; simp [resolveVal] at ho
    | _, _, _, .bool _, _, _ => by intro o ho; simp [resolveVal] at ho
    | _, _, _, .int _, _, _ => by intro o ho; simp [resolveVal] at ho
    | _, _, _, .str _, _, _ => by intro o ho; simp [resolveVal] at ho
    | ctx, mc, p, .list xs, hi, h => by
      simp only [factsVal] at h
      simp only [resolveVal]
      exact bokList ctx mc p "" 0 xs hi h
    | ctx, mc, p, .node k as, hi, h => by
      simp only [factsVal] at h
      simp only [resolveVal]
      by_cases hid : (k == "Identifier") = true
      · simp only [hid, if_true]
        cases hn : identName (.node k as) with
        | none => intro o ho; simp at ho
        | some n =>
          intro o ho b hb
          simp only [List.mem_singleton] at ho
          subst ho
          simp only [List.mem_singleton] at hb
          subst hb
          exact lookupEnv_bok hi.alr n
      · simp only [hid, Bool.false_eq_true, if_false, Bool.and_eq_true] at h ⊢
        have h3 := h
        cases he : enterFacts fin recs mc p k as with
        | none => rw [he] at h3; cases h3
        | some inner =>
          rw [he] at h3
          simp only at h3
          have hi0 : InvR (fin := fin) recs { ctx with forInItem := false } mc := invR_flag hi false
          obtain ⟨_, _, hvar⟩ := enter_of_facts recs hgood hi0.inv p k as inner he
          have hinvR := enter_invR hgood hi0 p k as inner he
          have hif : (enter { ctx with forInItem := false } p k as).forInItem = false := by
            rw [enter_unfold]
            split
            · rfl
            · split
              · split <;> rfl
              · split
                · split <;> rfl
                · rfl
          have hrecv : isFunctionKind k = true → ∃ A, RecVar recs p (A :: mc.chain) := by
            intro hfk
            rcases enterFacts_spec he with ⟨_, R, A, hR, hRC, _⟩ | ⟨hf, _, _⟩ | ⟨hf, _, _⟩
            · exact ⟨A, R, hR, hRC⟩
            · rw [hfk] at hf; cases hf
            · rw [hfk] at hf; cases hf
          exact bokAttrs { ctx with forInItem := false } (enter { ctx with forInItem := false } p k as)
            mc inner p k _ ctx.forInItem ⟨hvar, hrecv⟩ as hi0 hinvR rfl hif h3
  theorem bokList : ∀ (ctx : Ctx) (mc : MCtx) (p : SPath) (a : String) (i : Nat) (xs : List Val),
      InvR (fin := fin) recs ctx mc → factsList fin recs mc ctx.forInItem p a i xs = true →
      AllBOK fin recs (resolveList ctx p a i xs)
    | _, _, _, _, _, [], _, _ => by intro o ho; simp [resolveList] at ho
    | ctx, mc, p, a, i, v :: rest, hi, h => by
      simp only [factsList, Bool.and_eq_true] at h
      simp only [resolveList]
      exact allBOK_append recs (bokVal ctx mc _ v hi h.1) (bokList ctx mc p a (i + 1) rest hi h.2)
  theorem bokAttrs : ∀ (outer inner : Ctx) (omc imc : MCtx) (p : SPath) (kind : String)
      (hasInit forIn : Bool) (_ : InnerOK kind p inner ∧ (isFunctionKind kind = true → ∃ A, RecVar recs p (A :: omc.chain)))
      (as : List (String × Val)), InvR (fin := fin) recs outer omc → InvR (fin := fin) recs inner imc →
      outer.forInItem = false → inner.forInItem = false → factsAttrs fin recs omc imc p kind hasInit forIn as = true →
      AllBOK fin recs (resolveAttrs outer inner p kind hasInit forIn as)
    | _, _, _, _, _, _, _, _, _, [], _, _, _, _, _ => by intro o ho; simp [resolveAttrs] at ho
    | outer, inner, omc, imc, p, kind, hasInit, forIn, hin, (a, .list xs) :: rest, hio, hii, hof, hif, h =>
      battrs_step_list recs hio hii hof hif p kind hasInit forIn hin a xs rest h
        (fun ctx mc hi hc => bokList ctx mc p a 0 xs hi hc)
        (fun hc => bokAttrs outer inner omc imc p kind hasInit forIn hin rest hio hii hof hif hc)
    | outer, inner, omc, imc, p, kind, hasInit, forIn, hin, (a, .none) :: rest, hio, hii, hof, hif, h =>
      battrs_step_nonlist recs hio hii hof hif p kind hasInit forIn hin a .none (fun _ hx => by cases hx) rest h
        (fun ctx mc hi hc => bokVal ctx mc _ .none hi hc)
        (fun hc => bokAttrs outer inner omc imc p kind hasInit forIn hin rest hio hii hof hif hc)
    | outer, inner, omc, imc, p, kind, hasInit, forIn, hin, (a, .bool b) :: rest, hio, hii, hof, hif, h =>
      battrs_step_nonlist recs hio hii hof hif p kind hasInit forIn hin a (.bool b) (fun _ hx => by cases hx) rest h
        (fun ctx mc hi hc => bokVal ctx mc _ (.bool b) hi hc)
        (fun hc => bokAttrs outer inner omc imc p kind hasInit forIn hin rest hio hii hof hif hc)
    | outer, inner, omc, imc, p, kind, hasInit, forIn, hin, (a, .int n) :: rest, hio, hii, hof, hif, h =>
      battrs_step_nonlist recs hio hii hof hif p kind hasInit forIn hin a (.int n) (fun _ hx => by cases hx) rest h
        (fun ctx mc hi hc => bokVal ctx mc _ (.int n) hi hc)
        (fun hc => bokAttrs outer inner omc imc p kind hasInit forIn hin rest hio hii hof hif hc)
    | outer, inner, omc, imc, p, kind, hasInit, forIn, hin, (a, .str t) :: rest, hio, hii, hof, hif, h =>
      battrs_step_nonlist recs hio hii hof hif p kind hasInit forIn hin a (.str t) (fun _ hx => by cases hx) rest h
        (fun ctx mc hi hc => bokVal ctx mc _ (.str t) hi hc)
        (fun hc => bokAttrs outer inner omc imc p kind hasInit forIn hin rest hio hii hof hif hc)
    | outer, inner, omc, imc, p, kind, hasInit, forIn, hin, (a, .node k2 as2) :: rest, hio, hii, hof, hif, h =>
      battrs_step_nonlist recs hio hii hof hif p kind hasInit forIn hin a (.node k2 as2) (fun _ hx => by cases hx) rest h
        (fun ctx mc hi hc => bokVal ctx mc _ (.node k2 as2) hi hc)
        (fun hc => bokAttrs outer inner omc imc p kind hasInit forIn hin rest hio hii hof hif hc)
end

end

/-- the binders of a whole program are good -/
theorem program_bok (fin : Final) (recs : List Rec) (hgood : ∀ R ∈ recs, ChainGood R.chain) (program : Val)
    (h : factsProgram fin recs program = true) :
    ∀ b ∈ allBinders (Spec.Scope.resolveProgram program), BOK recs (lblChain fin recs) (tauFin fin) b := by
  unfold factsProgram at h
  cases hrecs : recs with
  | nil => rw [hrecs] at h; cases h
  | cons R rest =>
    rw [hrecs] at h
    simp only at h
    cases hc : R.chain with
    | nil => rw [hc] at h; cases h
    | cons A C =>
      cases C with
      | cons B C' => rw [hc] at h; cases h
      | nil =>
        rw [hc] at h
        simp only [Bool.and_eq_true] at h
        obtain ⟨⟨⟨⟨⟨hk0, hset⟩, htab0⟩, hch0⟩, _⟩, hfacts⟩ := h
        have hk : A.kind = .func := by simpa using hk0
        have htab : rootTable fin = A.remapped := of_decide_eq_true htab0
        have hch : lookupChain fin.chains R.id = some (entriesOf [A]) := of_decide_eq_true hch0
        have hg : ChainGood [A] := hc ▸ hgood R (by rw [hrecs]; exact List.mem_cons_self ..)
        have hal : Al (tauFin fin) [{ kind := .global, scope := [], names := Spec.Scope.hoistVal program }] [A] := by
          refine .root _ A hk (subsetOf_iff hset) ?_ hg
          intro n
          have e : tauN (tauFin fin) .global [] n = applyTable (rootTable fin) n := rfl
          rw [e, htab]
        have hinvR : InvR (fin := fin) recs (Spec.Scope.globalCtx program) { sid := R.id, chain := [A], env := [{ kind := .global, scope := [], names := Spec.Scope.hoistVal program }], labels := [] } := by
          refine ⟨⟨hal, rfl, hch, rfl, rfl, fun x hx => absurd hx List.not_mem_nil⟩, ?_, fun x hx => absurd hx List.not_mem_nil⟩
          exact .root _ A hal ⟨R, rest, hrecs, hc⟩
        rw [← hrecs] at hfacts
        have hall := bokVal recs hgood (Spec.Scope.globalCtx program) _ [] program hinvR hfacts
        intro b hb
        simp only [allBinders, List.mem_flatMap] at hb
        obtain ⟨o, ho, hbo⟩ := hb
        rw [← hrecs]
        exact hall o ho b hbo

end CalmVerif.Obf
