/-
Helper lemmas for C18: what each stream received on a successful `io.write`; counting of `closed` events.
-/
import CalmVerif.Proofs.IO

namespace CalmVerif.IO

theorem written_fragEvents_same (x : Sid) (fs : List Frag) :
    written x (fragEvents x fs) = fs.flatMap (·.lines) := by
  have hl : ∀ ls : List String, written x (ls.map (Event.wrote x)) = ls := by
    intro ls
    induction ls with
    | nil => rfl
    | cons l t ih => simp [written, ih]
  induction fs with
  | nil => rfl
  | cons f t ih =>
    have ih' : written x (fragEvents x t) = t.flatMap (·.lines) := ih
    simp only [fragEvents] at ih' ⊢
    simp [hl, ih']

theorem written_fragEvents_other {x y : Sid} (h : x ≠ y) (fs : List Frag) :
    written y (fragEvents x fs) = [] := by
  have hl : ∀ ls : List String, written y (ls.map (Event.wrote x)) = [] := by
    intro ls
    induction ls with
    | nil => rfl
    | cons l t ih => simp [written, ih, h]
  induction fs with
  | nil => rfl
  | cons f t ih =>
    have ih' : written y (fragEvents x t) = [] := ih
    simp only [fragEvents] at ih' ⊢
    simp [hl, ih']

@[simp] theorem written_openEvents (x : Sid) (arg : StreamArg) : written x arg.openEvents = [] := by
  cases arg <;> rfl

/-- the items of the URL comment (`writelines` argument), if any -/
def urlComment (o : Oracle) (a : WArr) (out sm : Sid) : List String :=
  match a.url with
  | .disabled => []
  | .dflt => [urlPrefix, mapUrl o a out sm, "\n"]
  | .explicit u => [urlPrefix, u, "\n"]

/-- the items of the inline data URL comment -/
def dataUrlComment (o : Oracle) (a : WArr) (frags : List Frag) (out : Sid) : List String :=
  [dataUrlPrefix, encodingOf a out, ",", o.b64 (encodingOf a out) (mapText o a frags out out)]

theorem written_urlEvents_out (o : Oracle) (a : WArr) (out sm : Sid) :
    written out (urlEvents o a out sm) = urlComment o a out sm := by
  unfold urlEvents urlComment
  cases a.url <;> simp [written]

theorem written_urlEvents_other (o : Oracle) (a : WArr) {out sm x : Sid} (h : out ≠ x) :
    written x (urlEvents o a out sm) = [] := by
  unfold urlEvents
  cases a.url <;> simp [written, h]

theorem written_smEvents_same (o : Oracle) (a : WArr) (frags : List Frag) (out : Sid) :
    written out (smEvents o a frags out out) = dataUrlComment o a frags out := by
  simp [smEvents, written, dataUrlComment]

theorem written_smEvents_out (o : Oracle) (a : WArr) (frags : List Frag) {out sm : Sid} (h : sm ≠ out) :
    written out (smEvents o a frags out sm) = urlComment o a out sm := by
  simp [smEvents, h, written, written_urlEvents_out]

theorem written_smEvents_sm (o : Oracle) (a : WArr) (frags : List Frag) {out sm : Sid} (h : sm ≠ out) :
    written sm (smEvents o a frags out sm) = [mapText o a frags out sm] := by
  have h' : out ≠ sm := fun e => h e.symm
  simp [smEvents, h, written, written_urlEvents_other o a h']

theorem concat_append (a b : List String) : concat (a ++ b) = concat a ++ concat b := by
  induction a with
  | nil => simp [concat]
  | cons x t ih => simp [concat, ih, String.append_assoc]

theorem concat_lines_eq_texts (fs : List Frag) : concat (fs.flatMap (·.lines)) = concat (fs.map Frag.text) := by
  induction fs with
  | nil => rfl
  | cons f t ih => simp [concat_append, concat, Frag.text, ih]

/-! ### counting -/

theorem count_one_of_nodup {l : List Sid} (hn : l.Nodup) {x : Sid} (hx : x ∈ l) : l.count x = 1 := by
  induction l with
  | nil => cases hx
  | cons a t ih =>
    rw [List.nodup_cons] at hn
    by_cases h : x = a
    · subst h
      simp [List.count_eq_zero_of_not_mem hn.1]
    · have hx' : x ∈ t := by
        cases hx with
        | head => exact absurd rfl h
        | tail _ h' => exact h'
      have hne : (a == x) = false := by simpa using fun e => h e.symm
      simp [List.count_cons, hne, ih hn.2 hx']

theorem count_one_of_sublist_nodup {l fs : List Sid} (hs : l.Sublist fs) (hn : fs.Nodup) {x : Sid} (hx : x ∈ l) :
    l.reverse.count x = 1 := by
  have hn' : l.Nodup := hn.sublist hs
  rw [List.count_reverse]
  exact count_one_of_nodup hn' hx

/-- consequences of the trace shape for the observations -/
theorem shape_obs {t body : List Event} (ht : t = body ++ (openedOf body).reverse.map Event.closed)
    (hc : closedOf body = []) :
    openedOf t = openedOf body ∧ closedOf t = (openedOf body).reverse ∧ faultsOf t = faultsOf body := by
  subst ht
  simp only [openedOf_append, closedOf_append, faultsOf_append, openedOf_closes, closedOf_closes,
    faultsOf_closes, hc]
  simp

end CalmVerif.IO
