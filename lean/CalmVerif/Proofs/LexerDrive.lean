/-
The lexer as the PARSER drives it (arbitrary interleavings of `token`, `auto_semi` and the guarded
`backtracked_token` of `Parser.p_error`): the line-table invariant, prefix-stability of `newline_idx`, and the
facts every token handed to the parser carries.
-/
import CalmVerif.Proofs.LexerPos
import CalmVerif.Proofs.LexerTables

namespace CalmVerif.Proofs.LexerDrive
open CalmVerif.Model.TokenRegex CalmVerif.Model.PlyLex CalmVerif.Model.Lexer
open CalmVerif.Proofs.LexerRegex CalmVerif.Proofs.LexerPly CalmVerif.Proofs.LexerStep CalmVerif.Proofs.LexerLoop
open CalmVerif.Proofs.LexerLines CalmVerif.Proofs.LexerPos
open CalmVerif.Spec.LinesRef
open CalmVerif.Spec.LexSeg (slice)

/-- text, `lexpos`, `lineno` and `newline_idx` agree -/
def PosEq (a b : LexState) : Prop :=
  a.text = b.text ∧ a.lexpos = b.lexpos ∧ a.lineno = b.lineno ∧ a.newlineIdx = b.newlineIdx

/-- the line-table invariant, also for states past the end of the input (`lexpos > |text|` after ply returned None) -/
structure PInv (text : List Char) (st : LexState) : Prop where
  textEq : st.text = text
  idx : st.newlineIdx = 0 :: terminatorEnds (text.take st.lexpos) 0
  lineno : st.lineno = 1 + (terminatorEnds (text.take st.lexpos) 0).length
  nosplit : NoSplitAt text st.lexpos

theorem PInv.toInv {text : List Char} {st : LexState} (h : PInv text st) (hle : st.lexpos ≤ text.length) :
    Inv text st := ⟨h.textEq, hle, h.idx, h.lineno, h.nosplit⟩

theorem invToPInv {text : List Char} {st : LexState} (h : Inv text st) : PInv text st :=
  ⟨h.textEq, h.idx, h.lineno, h.nosplit⟩

theorem PInv.congr {text : List Char} {a b : LexState} (h : PInv text a) (hp : PosEq b a) : PInv text b :=
  ⟨hp.1.trans h.textEq, by rw [hp.2.2.2, hp.2.1]; exact h.idx, by rw [hp.2.2.1, hp.2.1]; exact h.lineno,
   hp.2.1 ▸ h.nosplit⟩

/-! ### what the parser knows about a token -/

/-- offset `lexpos` is on line `lineno ≥ 1` by ES5 counting, and the line table `idx` has the entry of that line,
    which yields the ES5-counted column -/
def Counted (text : List Char) (idx : List Nat) (lexpos lineno : Nat) : Prop :=
  1 ≤ lineno ∧ lineno = (lineCol text lexpos).1 ∧
  ∃ b, idx[lineno - 1]? = some b ∧ (lexpos : Int) - (b : Int) + 1 = ((lineCol text lexpos).2 : Int)

theorem Counted.mono {text : List Char} {idx idx' : List Nat} {lp ln : Nat} (h : Counted text idx lp ln)
    (hp : idx <+: idx') : Counted text idx' lp ln := by
  obtain ⟨h1, h2, b, hb, hc⟩ := h
  refine ⟨h1, h2, b, ?_, hc⟩
  obtain ⟨suf, rfl⟩ := hp
  have hlt : ln - 1 < idx.length := by
    by_cases hlt : ln - 1 < idx.length
    · exact hlt
    · rw [List.getElem?_eq_none (by omega)] at hb; simp at hb
  rw [List.getElem?_append_left hlt]
  exact hb

/-- a token as the parser may hold it (look-ahead, shifted, pushed back), relative to a line table `idx`:
    a real token carries the ES5-counted position (`PosOK`), the line table has the entry of its line (`Counted`),
    and it is a rule match at its offset; an inserted one is `AUTOSEMI` `;` located at (0, 0) (end of input) or at
    the counted position of the token it was made from -/
def Good (text : List Char) (idx : List Nat) (t : Token) : Prop :=
  (t.auto = false → PosOK text t ∧ Counted text idx t.lexpos t.lineno ∧ RuleInfo text t) ∧
  (t.auto = true → t.type = "AUTOSEMI" ∧ t.value = [';'] ∧
    (t.lineno = 0 ∨ Counted text idx t.lexpos t.lineno))

theorem Good.mono {text : List Char} {idx idx' : List Nat} {t : Token} (h : Good text idx t)
    (hp : idx <+: idx') : Good text idx' t := by
  refine ⟨fun ha => ?_, fun ha => ?_⟩
  · obtain ⟨h1, h2, h3⟩ := h.1 ha
    exact ⟨h1, h2.mono hp, h3⟩
  · obtain ⟨h1, h2, h3⟩ := h.2 ha
    exact ⟨h1, h2, h3.imp id (fun c => c.mono hp)⟩

theorem Good.hidden {text : List Char} {idx : List Nat} {t : Token} (h : Good text idx t) (hd : List Comment) :
    Good text idx { t with hidden := hd } := h

/-- `cur_token` is the last raw token and `lexpos` is its end; or nothing was lexed yet / ply is past the end -/
def CurOK (text : List Char) (st : LexState) : Prop :=
  match st.curToken with
  | some c => st.lexpos = c.lexpos + c.value.length ∧ c.auto = false ∧ RuleInfo text c
  | none => st.lexpos = 0 ∨ text.length < st.lexpos

/-! ### one call of ply -/

theorem plyToken_eof' (s : LexerState) (text : List Char) (pos p : Nat) {ap : Bool}
    (h : plyToken s text pos ap = .eof p) :
    AllIgnored s (text.drop pos) ∧ text.length < p := by
  refine ⟨(plyToken_eof s text pos p h).1, ?_⟩
  unfold plyToken at h
  simp only at h
  split at h
  · rename_i hd
    simp at h
    have := congrArg List.length hd
    simp at this
    omega
  · split at h <;> simp at h

theorem getLexerToken_eof (s : LexerState) (st st1 : LexState) (h : getLexerToken s st = .ok (none, st1)) :
    ∃ p, st1 = { st with lexpos := p } ∧ st.text.length < p ∧ AllIgnored s (st.text.drop st.lexpos) := by
  unfold getLexerToken at h
  split at h
  · rename_i p hp
    simp at h
    obtain ⟨h1, h2⟩ := plyToken_eof' _ _ _ _ hp
    exact ⟨p, h.symm, h2, h1⟩
  · simp at h
  · split at h <;> simp at h
  · split at h <;> simp at h

theorem pinv_eof {text : List Char} {st : LexState} (s : LexerState) (h : PInv text st)
    (hign : AllIgnored s (text.drop st.lexpos)) (p : Nat) (hp : text.length < p) :
    PInv text { st with lexpos := p } := by
  have htake : text.take p = text := List.take_of_length_le (by omega)
  have hE : terminatorEnds text 0 = terminatorEnds (text.take st.lexpos) 0 := by
    by_cases hle : st.lexpos ≤ text.length
    · have h1 := te_take_add text st.lexpos (text.length - st.lexpos) hle h.nosplit
      have h2 : st.lexpos + (text.length - st.lexpos) = text.length := by omega
      rw [h2, List.take_of_length_le (Nat.le_refl _)] at h1
      have h3 : (text.drop st.lexpos).take (text.length - st.lexpos) = text.drop st.lexpos :=
        List.take_of_length_le (by simp)
      rw [h3, te_no_lt _ _ (fun c hc => ignored_not_lt s c (hign c hc)), List.append_nil] at h1
      exact h1
    · rw [List.take_of_length_le (by omega)]
  refine ⟨h.textEq, ?_, ?_, ?_⟩
  · simp only [htake, hE]; exact h.idx
  · simp only [htake, hE]; exact h.lineno
  · intro ⟨_, _, h3⟩
    rw [List.getElem?_eq_none (by simp; omega)] at h3
    simp at h3

/-- the raw call behind one iteration of `_token`: one `get_lexer_token()` in some state of ply, then
    `_set_tokens`; `r` is what the iteration hands on (the raw token, or the AUTOSEMI made from it) -/
def LexCall (st : LexState) (r : Option Token) (st' : LexState) : Prop :=
  ∃ s tok st1, getLexerToken s st = .ok (tok, st1) ∧ PosEq st' st1 ∧ st'.curToken = tok ∧
    st'.nextTokens = st.nextTokens ∧
    (r = tok ∨ ∃ raw a, tok = some raw ∧ r = some a ∧ a.auto = true ∧ a.type = "AUTOSEMI" ∧ a.value = [';'] ∧
      a.lexpos = raw.lexpos ∧ a.lineno = raw.lineno)

theorem getUpdateToken_call (st : LexState) (r : Option Token) (st' : LexState)
    (h : getUpdateToken st = .ok (r, st')) : LexCall st r st' := by
  unfold getUpdateToken at h
  split at h
  · simp at h
  · rename_i tok st1 hg
    split at h
    · simp at h
    · rename_i st2 hs
      obtain ⟨hf2, hl2, hc2⟩ := setTokens_spec _ _ _ hs
      have hnt : st1.nextTokens = st.nextTokens := by
        cases tok with
        | none => exact (getLexerToken_none _ _ _ hg).1.2.2.2
        | some t => exact (getLexerToken_some _ _ _ _ hg).frame.2.2.2
      have hpe : PosEq st2 st1 := ⟨hf2.1, hl2.1, hl2.2.1, hl2.2.2⟩
      split at h
      · rename_i hcur
        simp at h
        obtain ⟨rfl, rfl⟩ := h
        rw [hc2] at hcur
        subst hcur
        exact ⟨.initial, none, st1, hg, hpe, hc2, hf2.2.2.2.trans hnt, Or.inl rfl⟩
      · rename_i cur hcur
        rw [hc2] at hcur
        subst hcur
        split at h
        · simp at h
        · rename_i st3 hu
          obtain ⟨ts, rfl⟩ := updateStack_spec _ _ _ hu
          split at h
          · simp only [createSemiToken, Except.ok.injEq, Prod.mk.injEq] at h
            obtain ⟨rfl, rfl⟩ := h
            exact ⟨.initial, some cur, st1, hg, hpe, hc2, hf2.2.2.2.trans hnt,
              Or.inr ⟨cur, _, rfl, rfl, rfl, rfl, rfl, rfl, rfl⟩⟩
          · simp only [Except.ok.injEq, Prod.mk.injEq] at h
            obtain ⟨rfl, rfl⟩ := h
            exact ⟨.initial, some cur, st1, hg, hpe, hc2, hf2.2.2.2.trans hnt, Or.inl rfl⟩

theorem divOrRegex_call (st : LexState) (r : Option Token) (st' : LexState)
    (h : divOrRegex st = .ok (r, st')) : LexCall st r st' := by
  unfold divOrRegex at h
  split at h
  · simp at h
  · exact getUpdateToken_call _ _ _ h
  · split at h
    · simp at h
    · rename_i tok st1 hg
      unfold readRegex at hg
      split at h
      · simp at h
      · rename_i st2 hs
        obtain ⟨hf2, hl2, hc2⟩ := setTokens_spec _ _ _ hs
        have hnt : st1.nextTokens = st.nextTokens := by
          cases tok with
          | none => exact (getLexerToken_none _ _ _ hg).1.2.2.2
          | some t => exact (getLexerToken_some _ _ _ _ hg).frame.2.2.2
        simp only [Except.ok.injEq, Prod.mk.injEq] at h
        obtain ⟨rfl, rfl⟩ := h
        exact ⟨.regex, tok, st1, hg, ⟨hf2.1, hl2.1, hl2.2.1, hl2.2.2⟩, hc2, hf2.2.2.2.trans hnt,
          Or.inl hc2⟩

theorem getLast_idx (E : List Nat) : (0 :: E)[E.length]? = some (E.getLastD 0) := by
  have := getLastD_cons_zero E
  rw [List.getLast?_eq_getElem?] at this
  simpa using this

/-- what one raw call establishes, from a state satisfying the line-table invariant -/
theorem lexCall_drive {text : List Char} {st : LexState} {r : Option Token} {st' : LexState}
    (hinv : PInv text st) (h : LexCall st r st') :
    PInv text st' ∧ CurOK text st' ∧ st.newlineIdx <+: st'.newlineIdx ∧ st'.nextTokens = st.nextTokens ∧
    ∀ t, r = some t → Good text st'.newlineIdx t := by
  obtain ⟨s, tok, st1, hg, hpe, hcur, hnt, hret⟩ := h
  cases tok with
  | none =>
    obtain ⟨p, rfl, hp, hign⟩ := getLexerToken_eof _ _ _ hg
    rw [hinv.textEq] at hp hign
    have hinv1 := pinv_eof s hinv hign p hp
    refine ⟨hinv1.congr hpe, ?_, ?_, hnt, ?_⟩
    · unfold CurOK; rw [hcur]; right; rw [hpe.2.1]; exact hp
    · rw [hpe.2.2.2]; exact List.prefix_refl _
    · intro t ht
      rcases hret with rfl | ⟨raw, a, h0, _⟩
      · simp at ht
      · simp at h0
  | some raw =>
    have hraw := getLexerToken_some _ _ _ _ hg
    have hle : st.lexpos ≤ text.length := by
      have := hraw.le; have := hraw.bound; rw [hinv.textEq] at *; omega
    obtain ⟨hinv1, hpos⟩ := inv_raw (hinv.toInv hle) hraw
    have hri : RuleInfo text raw := by
      have h1 := rawTok_value hraw
      have h2 := rawTok_ruleInfo hraw
      rw [hinv.textEq] at h1 h2
      exact ⟨h1, h2⟩
    have hpre : st.newlineIdx <+: st'.newlineIdx := by
      rw [hpe.2.2.2, hraw.nl.1]; exact List.prefix_append _ _
    have hgood0 : Good text st.newlineIdx raw := by
      refine ⟨fun _ => ⟨hpos, ⟨by rw [hraw.lineno, hinv.lineno]; omega, hpos.1, ?_⟩, hri⟩, fun ha => ?_⟩
      · refine ⟨(terminatorEnds (text.take st.lexpos) 0).getLastD 0, ?_, ?_⟩
        · rw [hraw.lineno, hinv.lineno, hinv.idx]
          have : 1 + (terminatorEnds (text.take st.lexpos) 0).length - 1 =
              (terminatorEnds (text.take st.lexpos) 0).length := by omega
          rw [this]; exact getLast_idx _
        · have hc := hraw.colno
          unfold colnoAt lastNewline at hc
          rw [hinv.idx, getLastD_cons_zero] at hc
          simp only [Except.ok.injEq] at hc
          rw [hc]; exact hpos.2
      · rw [hraw.auto] at ha; simp at ha
    have hgood : Good text st'.newlineIdx raw := hgood0.mono hpre
    refine ⟨(invToPInv hinv1).congr hpe, ?_, hpre, hnt, ?_⟩
    · unfold CurOK; rw [hcur]; simp only
      exact ⟨by rw [hpe.2.1, hraw.lexpos], hraw.auto, hri⟩
    · intro t ht
      rcases hret with rfl | ⟨raw', a, h0, rfl, ha, hty, hv, hlp, hln⟩
      · simp at ht; subst ht; exact hgood
      · simp at ht h0; subst ht; subst h0
        refine ⟨fun hf => by rw [ha] at hf; simp at hf, fun _ => ⟨hty, hv, Or.inr ?_⟩⟩
        rw [hlp, hln]
        exact (hgood.1 hraw.auto).2.1

end CalmVerif.Proofs.LexerDrive
