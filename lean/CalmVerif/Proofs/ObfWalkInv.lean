/-
A predicate on the hook state that every hook (Declare / Resolve deferrable handlers, Structure-marker
handlers) preserves is preserved by the whole walk (`walkNode` / `walkRule` / `walkChunks`): the walk
touches the hook state only through the hooks.
-/
import CalmVerif.Proofs.UnparseNet
namespace CalmVerif.Unparse
open CalmVerif

variable {σ : Type}

structure HooksPreserve (cfg : Cfg σ) (P : σ → Prop) : Prop where
  declare : ∀ f, cfg.declare = some f → ∀ p v s s', P s → f p v s = .ok s' → P s'
  resolve : ∀ f, cfg.resolve = some f → ∀ p v s r s', P s → f p v s = .ok (r, s') → P s'
  struct : ∀ m f, cfg.struct m = some f → ∀ p v s s', P s → f p v s = .ok s' → P s'

theorem exc_map_ok {ε α β : Type} {f : α → β} {x : Except ε α} {b : β} (h : x.map f = .ok b) :
    ∃ a, x = .ok a ∧ f a = b := by
  cases x with
  | error e => simp [Except.map] at h
  | ok a => exact ⟨a, rfl, by simpa [Except.map] using h⟩

section
variable {cfg : Cfg σ} {P : σ → Prop} (hp : HooksPreserve cfg P)
include hp

omit hp in
theorem foldl_declare_inv (one : Nat × Val → σ → Except Err σ)
    (hone : ∀ p s s', P s → one p s = .ok s' → P s') :
    ∀ (l : List (Nat × Val)) (acc : Except Err σ) (s' : σ), (∀ s, acc = .ok s → P s) →
      l.foldl (fun acc p => match acc with
        | .error e => .error e
        | .ok s => one p s) acc = .ok s' → P s' := by
  intro l
  induction l with
  | nil => intro acc s' ha h; exact ha s' h
  | cons p l ih =>
    intro acc s' ha h
    simp only [List.foldl_cons] at h
    refine ih _ s' ?_ h
    intro s hs
    cases acc with
    | error e => simp at hs
    | ok s0 => exact hone p s0 s (ha s0 rfl) hs

theorem runDeclare_inv (path : Path) (a : String) (target : Val) (s s' : σ) (hs : P s)
    (h : runDeclare cfg path a target s = .ok s') : P s' := by
  unfold runDeclare at h
  split at h
  · simp only [Except.ok.injEq] at h; subst h; exact hs
  · rename_i f hf
    have hone : ∀ (p : Nat × Val) (s s' : σ), P s →
        (if isKind cfg.hd.identifierKinds p.2 then f ((a, p.1) :: path) p.2 s
         else .error (.typeError "the resolved attribute is not an Identifier")) = .ok s' → P s' := by
      intro p s s' hs h
      split at h
      · exact hp.declare f hf _ _ _ _ hs h
      · cases h
    split at h
    · exact foldl_declare_inv _ hone _ _ _ (fun s0 h0 => by cases h0; exact hs) h
    · exact hone _ _ _ hs h

theorem getSrc_inv (path : Path) (node : Val) (a : AttrSrc) (s : σ) (v : Val) (s' : σ) (hs : P s)
    (h : getSrc cfg path node a s = .ok (v, s')) : P s' := by
  cases a with
  | name a =>
    simp only [getSrc] at h
    obtain ⟨w, _, h2⟩ := exc_map_ok h
    cases h2; exact hs
  | iter => simp [getSrc] at h
  | declare a =>
    simp only [getSrc] at h
    split at h
    · cases h
    · split at h
      · cases h; exact hs
      · obtain ⟨w, h1, h2⟩ := exc_map_ok h
        cases h2
        exact runDeclare_inv hp _ _ _ _ _ hs h1
  | resolve =>
    simp only [getSrc] at h
    split at h
    · cases h
    · split at h
      · rename_i f hf
        exact hp.resolve f hf _ _ _ _ _ hs h
      · obtain ⟨w, _, h2⟩ := exc_map_ok h
        cases h2; exact hs
  | literal =>
    simp only [getSrc] at h
    split at h <;> (obtain ⟨w, _, h2⟩ := exc_map_ok h; cases h2; exact hs)
  | lineComment =>
    simp only [getSrc] at h
    split at h
    · obtain ⟨w, _, h2⟩ := exc_map_ok h; cases h2; exact hs
    · cases h; exact hs
  | blockComment =>
    simp only [getSrc] at h
    split at h
    · obtain ⟨w, _, h2⟩ := exc_map_ok h; cases h2; exact hs
    · cases h; exact hs

theorem getIter_inv (path : Path) (node : Val) (a : AttrSrc) (s : σ) (items : List (Step × Val)) (s' : σ)
    (hs : P s) (h : getIter cfg path node a s = .ok (items, s')) : P s' := by
  unfold getIter at h
  split at h
  · obtain ⟨w, _, h2⟩ := exc_map_ok h
    cases h2; exact hs
  · split at h
    · cases h
    · rename_i v s1 hg
      have h1 := getSrc_inv hp _ _ _ _ _ _ hs hg
      cases v with
      | list xs =>
        simp only [Except.ok.injEq, Prod.mk.injEq] at h
        rw [← h.2]; exact h1
      | node k as =>
        simp only at h
        obtain ⟨w, _, h2⟩ := exc_map_ok h
        cases h2; exact h1
      | none => simp at h
      | int n => simp at h
      | bool b => simp at h
      | str t => simp at h

/-- the recursive callback preserves `P` -/
def WalkFnInv (P : σ → Prop) (wn : WalkFn σ) : Prop :=
  ∀ path src node defn s cs s', P s → wn path src node defn s = .ok (cs, s') → P s'

omit hp in
theorem walkValue_inv (wn : WalkFn σ) (hwn : WalkFnInv P wn) (path : Path) (src : Src) (cur : Val)
    (pos : Option Int) (st : Step) (v : Val) (s : σ) (cs : List Chunk) (s' : σ) (hs : P s)
    (h : walkValue cfg wn path src cur pos st v s = .ok (cs, s')) : P s' := by
  unfold walkValue at h
  split at h
  · exact hwn _ _ _ _ _ _ _ hs h
  · obtain ⟨w, _, h2⟩ := exc_map_ok h
    cases h2; exact hs

omit hp in
theorem seqM_inv {α : Type} (f : α → σ → Except Err (List Chunk × σ))
    (hf : ∀ x s cs s', P s → f x s = .ok (cs, s') → P s') :
    ∀ (xs : List α) (s : σ) (cs : List Chunk) (s' : σ), P s → seqM f xs s = .ok (cs, s') → P s' := by
  intro xs
  induction xs with
  | nil => intro s cs s' hs h; rw [seqM_nil_ok] at h; rw [h.2]; exact hs
  | cons x xs ih =>
    intro s cs s' hs h
    rw [seqM_cons_ok] at h
    obtain ⟨c1, s1, c2, h1, h2, _⟩ := h
    exact ih _ _ _ (hf _ _ _ _ hs h1) h2

omit hp in
theorem runAct_inv (wn : WalkFn σ) (hwn : WalkFnInv P wn) (path : Path) (src : Src) (cur : Val)
    (pos : Option Int) (sep : List Rule) (a : JAct) (s : σ) (cs : List Chunk) (s' : σ) (hs : P s)
    (h : runAct cfg wn path src cur pos sep a s = .ok (cs, s')) : P s' := by
  cases a with
  | item st v => exact walkValue_inv wn hwn _ _ _ _ _ _ _ _ _ hs h
  | sep => exact hwn _ _ _ _ _ _ _ hs h
  | esep => exact hwn _ _ _ _ _ _ _ hs h

theorem ruleStep_inv (wn : WalkFn σ) (hwn : WalkFnInv P wn) (path : Path) (src : Src) (node : Val)
    (rule : Rule) (s : σ) (cs : List Chunk) (s' : σ) (hs : P s)
    (h : ruleStep cfg wn path src node rule s = .ok (cs, s')) : P s' := by
  cases rule with
  | layout m =>
    simp only [ruleStep] at h
    split at h <;> (simp only [Except.ok.injEq, Prod.mk.injEq] at h; rw [← h.2]; exact hs)
  | struct m =>
    simp only [ruleStep] at h
    split at h
    · rename_i f hf
      obtain ⟨x, h1, h2⟩ := exc_map_ok h
      simp only [Prod.mk.injEq] at h2
      rw [← h2.2]
      exact hp.struct m f hf _ _ _ _ hs h1
    · simp only [Except.ok.injEq, Prod.mk.injEq] at h
      rw [← h.2]; exact hs
  | text v pos =>
    simp only [ruleStep] at h
    obtain ⟨x, _, h2⟩ := exc_map_ok h
    simp only [Prod.mk.injEq] at h2
    rw [← h2.2]; exact hs
  | attr a pos =>
    simp only [ruleStep] at h
    split at h
    · cases h
    · rename_i v s1 hg
      have h1 := getSrc_inv hp _ _ _ _ _ _ hs hg
      split at h
      · simp only [Except.ok.injEq, Prod.mk.injEq] at h
        rw [← h.2]; exact h1
      · exact walkValue_inv wn hwn _ _ _ _ _ _ _ _ _ h1 h
  | commentsAttr a pos =>
    simp only [ruleStep] at h
    split at h
    · cases h
    · rename_i v s1 hg
      have h1 := getSrc_inv hp _ _ _ _ _ _ hs hg
      split at h
      · simp only [Except.ok.injEq, Prod.mk.injEq] at h
        rw [← h.2]; exact h1
      · exact walkValue_inv wn hwn _ _ _ _ _ _ _ _ _ h1 h
  | operator a v pos =>
    simp only [ruleStep] at h
    split at h
    · cases h
    · split at h
      · simp only [Except.ok.injEq, Prod.mk.injEq] at h
        rw [← h.2]; exact hs
      · exact walkValue_inv wn hwn _ _ _ _ _ _ _ _ _ hs h
  | optional a body =>
    simp only [ruleStep] at h
    split at h
    · cases h
    · split at h
      · simp only [Except.ok.injEq, Prod.mk.injEq] at h
        rw [← h.2]; exact hs
      · exact hwn _ _ _ _ _ _ _ hs h
  | joinAttr a sep pos =>
    simp only [ruleStep] at h
    split at h
    · cases h
    · rename_i items s1 hg
      have h1 := getIter_inv hp _ _ _ _ _ _ hs hg
      exact seqM_inv _ (fun x s cs s' hs hh => runAct_inv wn hwn _ _ _ _ _ _ _ _ _ hs hh) _ _ _ _ h1 h
  | elisionToken a v pos =>
    simp only [ruleStep] at h
    split at h
    · cases h
    · rename_i w s1 hg
      have h1 := getSrc_inv hp _ _ _ _ _ _ hs hg
      split at h
      · obtain ⟨x, _, h2⟩ := exc_map_ok h
        simp only [Prod.mk.injEq] at h2
        rw [← h2.2]; exact h1
      · obtain ⟨x, _, h2⟩ := exc_map_ok h
        simp only [Prod.mk.injEq] at h2
        rw [← h2.2]; exact h1
      · cases h
  | elisionJoinAttr a sep pos =>
    simp only [ruleStep] at h
    split at h
    · cases h
    · rename_i items s1 hg
      have h1 := getIter_inv hp _ _ _ _ _ _ hs hg
      exact seqM_inv _ (fun x s cs s' hs hh => runAct_inv wn hwn _ _ _ _ _ _ _ _ _ hs hh) _ _ _ _ h1 h

omit hp in
theorem nodeStep_inv (wr : Path → Src → Val → Rule → σ → Except Err (List Chunk × σ))
    (hwr : ∀ q sr n r s cs s', P s → wr q sr n r s = .ok (cs, s') → P s')
    (path : Path) (src : Src) (node : Val) (defn : Option (List Rule)) (s : σ) (cs : List Chunk) (s' : σ)
    (hs : P s) (h : nodeStep cfg wr path src node defn s = .ok (cs, s')) : P s' := by
  unfold nodeStep at h
  split at h
  · split at h
    · cases h
    · exact seqM_inv _ (fun r s cs s' hs hh => hwr _ _ _ _ _ _ _ hs hh) _ _ _ _ hs h
  · cases h

theorem walk_inv : ∀ (fuel : Nat),
    WalkFnInv P (walkNode cfg fuel) ∧
    (∀ q sr n r s cs s', P s → walkRule cfg fuel q sr n r s = .ok (cs, s') → P s') := by
  intro fuel
  induction fuel with
  | zero =>
    constructor
    · intro path src node defn s cs s' _ h; simp [walkNode] at h
    · intro q sr n r s cs s' _ h; simp [walkRule] at h
  | succ fuel ih =>
    constructor
    · intro path src node defn s cs s' hs h
      simp only [walkNode] at h
      exact nodeStep_inv _ ih.2 _ _ _ _ _ _ _ hs h
    · intro q sr n r s cs s' hs h
      simp only [walkRule] at h
      exact ruleStep_inv hp _ ih.1 _ _ _ _ _ _ _ hs h

theorem walkChunks_inv (tree : Val) (s : σ) (cs : List Chunk) (s' : σ) (hs : P s)
    (h : walkChunks cfg tree s = .ok (cs, s')) : P s' :=
  (walk_inv hp _).1 _ _ _ _ _ _ _ hs h

end
end CalmVerif.Unparse
