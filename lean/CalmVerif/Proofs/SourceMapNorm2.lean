/-
C09 helper lemmas, part 10: `normalize_mapping_line` / `normalize_mappings` as a whole.
-/
import CalmVerif.Proofs.SourceMapNorm

namespace CalmVerif.Proofs.SourceMap
open CalmVerif.Model.SourceMap
open CalmVerif.Spec.SourceMapV3

theorem decodeLine_cons_some {t g seg rest r} (h : decodeLine t g (seg :: rest) = some r) :
    ∃ t1 g1 e es, decodeSeg t g seg = some (t1, g1, e) ∧
      decodeLine t1 g1 rest = some (r.1, r.2.1, es) ∧ r.2.2 = e :: es := by
  simp only [decodeLine] at h
  cases hx : decodeSeg t g seg with
  | none => simp [hx] at h
  | some a =>
    obtain ⟨t1, g1, e⟩ := a
    simp only [hx] at h
    cases hxs : decodeLine t1 g1 rest with
    | none => simp [hxs] at h
    | some b =>
      obtain ⟨t2, g2, es⟩ := b
      simp only [hxs, Option.some.injEq] at h
      subst h
      exact ⟨t1, g1, e, es, rfl, hxs, rfl⟩

theorem normLoop_inv (tout : Totals) (rest : MLine) :
    ∀ (s : NState) (tx : Totals) (gx : Int) (ex : List Entry) (tr : Totals) (gr : Int) (er : List Entry)
      (tfin : Totals) (gfin : Int) (erest : List Entry),
      decodeLine tout 0 s.result = some (tr, gr, er) →
      LInv s tx gx ex tr gr er →
      decodeLine tx gx rest = some (tfin, gfin, erest) →
      Sorted (ex ++ erest) →
      ∃ s', normLoop s rest = some s' ∧ ∃ tr' gr' er',
        decodeLine tout 0 s'.result = some (tr', gr', er') ∧
        LInv s' tfin gfin (ex ++ erest) tr' gr' er' := by
  induction rest with
  | nil =>
    intro s tx gx ex tr gr er tfin gfin erest hdec hinv hrest _
    simp only [decodeLine, Option.some.injEq, Prod.mk.injEq] at hrest
    obtain ⟨rfl, rfl, rfl⟩ := hrest
    exact ⟨s, rfl, tr, gr, er, hdec, by simpa using hinv⟩
  | cons seg rest ih =>
    intro s tx gx ex tr gr er tfin gfin erest hdec hinv hrest hsorted
    obtain ⟨t1, g1, e, es, hseg, hrest', heq⟩ := decodeLine_cons_some hrest
    simp only at hrest' heq
    subst heq
    have hlt : ∀ x ∈ ex, x.genCol < e.genCol := by
      intro x hx
      simp only [Sorted, List.map_append, List.map_cons, List.pairwise_append] at hsorted
      exact hsorted.2.2 _ (List.mem_map_of_mem hx) _ (by simp)
    obtain ⟨s1, hs1, tr1, gr1, er1, hdec1, hinv1⟩ :=
      normStep_inv tout s tx gx ex tr gr er hdec hinv seg t1 g1 e hseg hlt
    obtain ⟨s2, hs2, tr2, gr2, er2, hdec2, hinv2⟩ :=
      ih s1 t1 g1 (ex ++ [e]) tr1 gr1 er1 tfin gfin es hdec1 hinv1 hrest' (by simpa using hsorted)
    refine ⟨s2, by simp [normLoop, hs1, hs2], tr2, gr2, er2, hdec2, by simpa using hinv2⟩

/-- totals of the normalised output versus totals of the input, `col` being the source
column amount not yet emitted (`previous_source_column`) -/
def TotRel (a b : Totals) (col : Int) : Prop :=
  a.src = b.src ∧ a.line = b.line ∧ a.name = b.name ∧ a.col + col = b.col

theorem normalizeMappingLine_ok (tin tout : Totals) (col : Int) (hrel : TotRel tout tin col)
    (ml : MLine) {tfin gfin ex} (hd : decodeLine tin 0 ml = some (tfin, gfin, ex)) (hs : Sorted ex) :
    ∃ ml' col' tfin' gfin' er, normalizeMappingLine ml col = some (ml', col') ∧
      decodeLine tout 0 ml' = some (tfin', gfin', er) ∧ TotRel tfin' tfin col' ∧ LineRel ex er := by
  cases ml with
  | nil =>
    simp only [decodeLine, Option.some.injEq, Prod.mk.injEq] at hd
    obtain ⟨rfl, rfl, rfl⟩ := hd
    exact ⟨[], col, tout, 0, [], rfl, rfl, hrel, LineRel.nil⟩
  | cons seg rest =>
    obtain ⟨h1, h2, h3, h4⟩ := hrel
    have hinv0 : LInv { r0 := 0, r3 := col, result := [], regen := true } tin 0 [] tout 0 [] :=
      ⟨by simp, h1, h2, h3, h4, LineRel.nil, by simp⟩
    obtain ⟨s', hs', tr', gr', er', hdec', hinv'⟩ :=
      normLoop_inv tout (seg :: rest) _ tin 0 [] tout 0 [] tfin gfin ex rfl hinv0 hd (by simpa using hs)
    refine ⟨s'.result, s'.r3, tr', gr', er', by simp [normalizeMappingLine, hs'], hdec',
      ⟨hinv'.src_eq, hinv'.line_eq, hinv'.name_eq, hinv'.col_eq⟩, by simpa using hinv'.rel⟩

inductive LinesRel : List (List Entry) → List (List Entry) → Prop
  | nil : LinesRel [] []
  | cons {a b : List Entry} {as bs : List (List Entry)} :
      LineRel a b → LinesRel as bs → LinesRel (a :: as) (b :: bs)

theorem LinesRel.length {A B} (h : LinesRel A B) : B.length = A.length := by
  induction h with
  | nil => rfl
  | cons _ _ ih => simp [ih]

theorem LinesRel.getD {A B} (h : LinesRel A B) (L : Nat) : LineRel (A.getD L []) (B.getD L []) := by
  induction h generalizing L with
  | nil => simpa using LineRel.nil
  | cons h1 _ ih =>
    cases L with
    | zero => simpa using h1
    | succ n => simpa using ih n

theorem LinesRel.mem {A B} (h : LinesRel A B) : ∀ b ∈ B, ∃ a ∈ A, LineRel a b := by
  induction h with
  | nil => simp
  | cons h1 _ ih =>
    intro b hb
    simp only [List.mem_cons] at hb
    rcases hb with rfl | hb
    · exact ⟨_, by simp, h1⟩
    · obtain ⟨a, ha, hr⟩ := ih b hb
      exact ⟨a, by simp [ha], hr⟩

theorem normalizeMappings_ok (m : Mappings) :
    ∀ (tin tout : Totals) (col : Int), TotRel tout tin col →
      ∀ {tfin D}, decodeLines tin m = some (tfin, D) → (∀ l ∈ D, Sorted l) →
      ∃ m' tfin' D', normalizeMappings m col = some m' ∧ decodeLines tout m' = some (tfin', D') ∧
        LinesRel D D' ∧ m'.length = m.length := by
  induction m with
  | nil =>
    intro tin tout col _ tfin D hd _
    simp only [decodeLines, Option.some.injEq, Prod.mk.injEq] at hd
    obtain ⟨rfl, rfl⟩ := hd
    exact ⟨[], tout, [], rfl, rfl, LinesRel.nil, rfl⟩
  | cons ml rest ih =>
    intro tin tout col hrel tfin D hd hs
    simp only [decodeLines] at hd
    cases hx : decodeLine tin 0 ml with
    | none => simp [hx] at hd
    | some a =>
      obtain ⟨t1, g1, ex⟩ := a
      simp only [hx] at hd
      cases hxs : decodeLines t1 rest with
      | none => simp [hxs] at hd
      | some b =>
        obtain ⟨t2, Drest⟩ := b
        simp only [hxs, Option.some.injEq, Prod.mk.injEq] at hd
        obtain ⟨rfl, rfl⟩ := hd
        obtain ⟨ml', col', t1', g1', er, hn, hdl, hrel', hlr⟩ :=
          normalizeMappingLine_ok tin tout col hrel ml hx (hs ex (by simp))
        obtain ⟨m', tfin', D', hnm, hdm, hf2, hlen⟩ :=
          ih t1 t1' col' hrel' hxs (fun l hl => hs l (by simp [hl]))
        refine ⟨ml' :: m', tfin', er :: D', by simp [normalizeMappings, hn, hnm],
          by simp [decodeLines, hdl, hdm], LinesRel.cons hlr hf2, by simp [hlen]⟩

end CalmVerif.Proofs.SourceMap
