/-
A second invariant of the prewalk: in every scope (open frame or closed tree) every locally declared symbol is a key of
`referenced_symbols` (`Scope.declare` creates the reference entry).  Then `ChainGood` (Proofs/ObfLink.lean) for every scope
record of the finished tree.
-/
import CalmVerif.Proofs.ObfLink
namespace CalmVerif.Obf
open CalmVerif CalmVerif.Unparse

mutual
  def TreeDR : STree → Prop
    | .mk _ _ _ refs decl children => (∀ x ∈ decl, x ∈ ckeys refs) ∧ TreeDRList children
  def TreeDRList : List STree → Prop
    | [] => True
    | c :: cs => TreeDR c ∧ TreeDRList cs
end

theorem treeDRList_append (c : STree) : ∀ a, TreeDRList a → TreeDR c → TreeDRList (a ++ [c])
  | [], _, hc => by simp only [List.nil_append, TreeDRList]; exact ⟨hc, trivial⟩
  | x :: a, h, hc => by
    simp only [List.cons_append, TreeDRList] at h ⊢
    exact ⟨h.1, treeDRList_append c a h.2 hc⟩

def FrameDR (f : Frame) : Prop := (∀ x ∈ f.decl, x ∈ ckeys f.refs) ∧ TreeDRList f.children

def StackDR : List Frame → Prop
  | [] => True
  | f :: rest => FrameDR f ∧ StackDR rest

theorem referenceAt_dr : ∀ (s : List Frame) (sym : String) (c : Nat) (s' : List Frame),
    referenceAt s sym c = .ok s' → StackDR s → StackDR s'
  | [], _, _, _, h, _ => by simp [referenceAt] at h
  | f :: rest, sym, c, s', h, hs => by
    simp only [referenceAt] at h
    simp only [StackDR] at hs
    split at h
    · simp only [Except.ok.injEq] at h
      subst h
      simp only [StackDR, FrameDR]
      exact ⟨⟨fun x hx => mem_ckeys_cset.2 (Or.inl (hs.1.1 x hx)), hs.1.2⟩, hs.2⟩
    · split at h
      · simp only [Except.ok.injEq] at h
        subst h
        exact ⟨hs.1, hs.2⟩
      · obtain ⟨r', hr, rfl⟩ := exc_map_ok h
        exact ⟨hs.1, referenceAt_dr rest sym c r' hr hs.2⟩

theorem mem_sadd' {s : List String} {x y : String} : y ∈ sadd s x ↔ y ∈ s ∨ y = x := mem_sadd

theorem declareAt_dr : ∀ (s : List Frame) (sym : String) (s' : List Frame),
    declareAt s sym = .ok s' → StackDR s → StackDR s'
  | [], _, _, h, _ => by simp [declareAt] at h
  | f :: rest, sym, s', h, hs => by
    simp only [declareAt] at h
    simp only [StackDR] at hs
    split at h
    · simp only [Except.ok.injEq] at h
      subst h
      simp only [StackDR, FrameDR]
      refine ⟨⟨?_, hs.1.2⟩, hs.2⟩
      intro x hx
      rcases mem_sadd'.1 hx with hx | rfl
      · exact mem_ckeys_cset.2 (Or.inl (hs.1.1 x hx))
      · exact mem_ckeys_cset.2 (Or.inr rfl)
    · split at h
      · obtain ⟨r', hr, rfl⟩ := exc_map_ok h
        exact ⟨hs.1, declareAt_dr rest sym r' hr hs.2⟩
      · simp only [Except.ok.injEq] at h
        subst h
        exact ⟨hs.1, hs.2⟩

theorem referenceAll_dr : ∀ (l : Counts) (s s' : List Frame), referenceAll l s = .ok s' → StackDR s → StackDR s'
  | [], s, s', h, hs => by
    simp only [referenceAll, Except.ok.injEq] at h
    subst h; exact hs
  | (sym, c) :: rest, s, s', h, hs => by
    simp only [referenceAll] at h
    split at h
    · cases h
    · rename_i s1 h1
      exact referenceAll_dr rest s1 s' h (referenceAt_dr s sym c s1 h1 hs)

def StDR (st : St) : Prop := StackDR st.stack

theorem stDR_init : StDR St.init := by
  simp [StDR, St.init, StackDR, FrameDR, TreeDRList]

theorem hookPop_dr (p : Path) (v : Val) (s s' : St) (hs : StDR s) (h : hookPop p v s = .ok s') : StDR s' := by
  unfold hookPop at h
  split at h
  · cases h
  · cases h
  · rename_i f pf rest hstk
    simp only [StDR, hstk, StackDR] at hs
    obtain ⟨hf, hpf, hrest⟩ := hs
    have hclosed : TreeDR (closeFrame f) := by
      simp only [closeFrame, TreeDR]
      exact hf
    cases hk : f.kind with
    | func =>
      simp only [hk] at h
      split at h
      · cases h
      · cases h
      · rename_i p' rest' hcl
        simp only [Except.ok.injEq] at h
        subst h
        have := referenceAll_dr _ _ _ hcl (show StackDR (pf :: rest) from ⟨hpf, hrest⟩)
        simp only [StackDR] at this
        simp only [StDR, StackDR, FrameDR]
        exact ⟨⟨this.1.1, treeDRList_append _ _ this.1.2 hclosed⟩, this.2⟩
    | «catch» sym u =>
      simp only [hk] at h
      simp only [Except.ok.injEq] at h
      subst h
      simp only [StDR, StackDR, FrameDR]
      exact ⟨⟨hpf.1, treeDRList_append _ _ hpf.2 hclosed⟩, hrest⟩

theorem prewalkCfg_preserves_dr (t : Tables) (sf : Bool) : HooksPreserve (prewalkCfg t sf) StDR where
  declare := by
    intro f hf p v s s' hs h
    simp only [prewalkCfg] at hf
    split at hf
    · split at hf
      · cases hf
        unfold hookDeclare at h
        split at h
        · cases h
        · obtain ⟨stk, hd, rfl⟩ := exc_map_ok h
          exact declareAt_dr _ _ _ hd hs
      · cases hf; cases h
    · cases hf
  resolve := by
    intro f hf p v s r s' hs h
    simp only [prewalkCfg] at hf
    split at hf
    · split at hf
      · cases hf
        unfold hookRegister at h
        split at h
        · cases h
        · split at h
          · cases h
          · obtain ⟨stk, hd, he⟩ := exc_map_ok h
            simp only [Prod.mk.injEq] at he
            rw [← he.2]
            exact referenceAt_dr _ _ _ _ hd hs
      · cases hf; cases h
    · cases hf
  struct := by
    intro m f hf p v s s' hs h
    simp only [prewalkCfg] at hf
    cases hl : lookupMarker (if sf = true then Gen.ObfData.prewalkStructShadow else Gen.ObfData.prewalkStruct) m with
    | none => rw [hl] at hf; cases hf
    | some n =>
      rw [hl] at hf
      simp only [Option.map_some, Option.some.injEq] at hf
      subst hf
      unfold methodStruct at h
      split at h
      · unfold hookPushScope at h
        split at h
        · cases h
        · simp only [Except.ok.injEq] at h
          subst h
          simp only [StDR, StackDR, FrameDR, TreeDRList, and_true]
          exact ⟨fun x hx => absurd hx List.not_mem_nil, hs⟩
      · split at h
        · exact hookPop_dr p v s s' hs h
        · split at h
          · unfold hookPushCatch at h
            split at h
            · cases h
            · split at h
              · cases h
              · simp only [Except.ok.injEq] at h
                subst h
                simp only [StDR, StackDR, FrameDR, TreeDRList, and_true]
                exact ⟨fun x hx => absurd hx List.not_mem_nil, hs⟩
          · split at h
            · unfold hookShadow at h
              split at h
              · cases h
              · split at h
                · cases h
                · obtain ⟨stk, hd, rfl⟩ := exc_map_ok h
                  exact referenceAt_dr _ _ _ _ hd hs
            · cases h

theorem prewalk_stackDR (t : Tables) (sf : Bool) (tree : Val) (st : St) (h : prewalk t sf tree = .ok st) :
    StackDR st.stack := by
  unfold prewalk at h
  obtain ⟨r, hr, rfl⟩ := exc_map_ok h
  exact walkChunks_inv (prewalkCfg_preserves_dr t sf) tree St.init r.1 r.2 stDR_init (by simpa using hr)

/-! ### per record -/

def DeclRefsHead : List Anc → Prop
  | A :: _ => ∀ x ∈ A.decl, x ∈ ckeys A.refs
  | [] => True

mutual
  theorem treeDR_recs : ∀ (chain : List Anc) (t : STree) (r : RTree), TreeDR t →
      ∀ rec ∈ recsOf chain t r, DeclRefsHead rec.chain
    | chain, .mk id node kind refs decl children, .mk _ _ _ _ _ rm rcs, h => by
      simp only [TreeDR] at h
      intro rec hrec
      simp only [recsOf, List.mem_cons] at hrec
      rcases hrec with rfl | hrec
      · exact h.1
      · exact treeDRList_recs _ children rcs h.2 rec hrec
  theorem treeDRList_recs : ∀ (chain : List Anc) (ts : List STree) (rs : List RTree), TreeDRList ts →
      ∀ rec ∈ recsOfList chain ts rs, DeclRefsHead rec.chain
    | _, [], _, _ => by intro rec hrec; simp [recsOfList] at hrec
    | _, _ :: _, [], _ => by intro rec hrec; simp [recsOfList] at hrec
    | chain, c :: cs, r :: rs, h => by
      simp only [TreeDRList] at h
      intro rec hrec
      simp only [recsOfList, List.mem_append] at hrec
      rcases hrec with hrec | hrec
      · exact treeDR_recs chain c r h.1 rec hrec
      · exact treeDRList_recs chain cs rs h.2 rec hrec
end

end CalmVerif.Obf
