import CalmVerif.Proofs.RoundTripSep
import CalmVerif.Proofs.RoundTripCertPretty
namespace CalmVerif.TokenAdj

set_option maxRecDepth 1000000 in
theorem sep_safe_prettyB_forced :
    withCtx Gen.Rules.rs_indent Gen.Defs.definitions 4
      (fun cx => forceRects (allNeedsF cx Gen.Defs.definitions) fun F => sepOKPrettyB F) = true := by
  decide +kernel

theorem sep_safe_prettyB : sepOKPrettyB followPretty = true := by
  have h := sep_safe_prettyB_forced
  rw [withCtx_eq, forceRects_eq, allNeedsF_eq] at h
  exact h

end CalmVerif.TokenAdj
