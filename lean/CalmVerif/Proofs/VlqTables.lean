/-
C10 helper lemmas, part 1: facts about the generated tables and constants
(`decide` over Gen/) and the bridge from the bit operations of the model to
arithmetic.  If /repo's alphabet, table or constants change, this file breaks.
-/
import CalmVerif.Model.Vlq
import CalmVerif.Spec.VlqV3

namespace CalmVerif.Proofs.Vlq
open CalmVerif.Gen.Vlq CalmVerif.Model.Vlq CalmVerif.Spec.VlqV3

/-! ### generated tables -/

theorem INT_B64_eq : INT_B64 = alphabet := by decide
theorem B64_INT_eq : B64_INT = alphabet.zipIdx := by decide

theorem indexIn_some {c : Char} {d : Char} : ∀ {l : List Char} {v : Nat},
    indexIn c l = some v → v < l.length ∧ l.getD v d = c := by
  intro l
  induction l with
  | nil => intro v h; simp [indexIn] at h
  | cons a as ih =>
    intro v h
    unfold indexIn at h
    split at h
    · next hca => cases h; simp [hca]
    · cases hi : indexIn c as with
      | none => simp [hi] at h
      | some w =>
        simp [hi] at h
        subst h
        obtain ⟨h1, h2⟩ := ih hi
        refine ⟨by simp only [List.length_cons]; omega, ?_⟩
        simpa [List.getD_cons_succ] using h2

theorem lookup_zipIdx (c : Char) : ∀ (l : List Char) (k : Nat),
    (l.zipIdx k).lookup c = (indexIn c l).map (· + k) := by
  intro l
  induction l with
  | nil => intro k; simp [indexIn]
  | cons a as ih =>
    intro k
    simp only [List.zipIdx_cons, List.lookup_cons, indexIn]
    by_cases h : c = a
    · subst h; simp
    · have : (c == a) = false := by simp [h]
      rw [this, ih]
      simp only [h, if_false]
      cases indexIn c as <;> simp; omega

theorem b64Int_eq (c : Char) :
    b64Int c = match b64Val c with
      | some v => .ok v
      | none => .error (.keyError c) := by
  unfold b64Int b64Val
  rw [B64_INT_eq, lookup_zipIdx]
  cases indexIn c alphabet <;> simp

theorem b64Val_b64Char : ∀ n, n < 64 → b64Val (b64Char n) = some n := by decide

theorem b64Val_some {c : Char} {v : Nat} (h : b64Val c = some v) : v < 64 ∧ b64Char v = c := by
  have := indexIn_some (d := '=') h
  exact ⟨by simpa [alphabet] using this.1, this.2⟩

theorem intB64_eq {n : Nat} (h : n < 64) : intB64 n = .ok (b64Char n) := by
  unfold intB64 b64Char
  rw [INT_B64_eq]
  have hl : n < alphabet.length := by simpa [alphabet] using h
  simp [List.getD, List.getElem?_eq_getElem hl]

theorem b64Char_mem : ∀ n, n < 64 → b64Char n ∈ alphabet := by decide

theorem comma_not_mem : ',' ∉ alphabet := by decide
theorem semi_not_mem : ';' ∉ alphabet := by decide

/-! ### constants: bit operations as arithmetic -/

theorem loop_digit (raw : Nat) : ((raw &&& VLQ_BASE_MASK) ||| VLQ_CONT) = raw % 32 + 32 := by
  have h1 : raw &&& VLQ_BASE_MASK = raw % 32 := Nat.and_two_pow_sub_one_eq_mod raw 5
  rw [h1]
  have : ∀ x, x < 32 → (x ||| VLQ_CONT) = x + 32 := by decide
  exact this _ (Nat.mod_lt _ (by decide))

theorem shift_eq (raw : Nat) : raw >>> VLQ_SHIFT = raw / 32 := by
  simp [VLQ_SHIFT, Nat.shiftRight_eq_div_pow]

theorem clear_digit : ∀ x, x < 32 → ((x + 32) &&& VLQ_BASE_MASK) = x := by decide
theorem clear_digit' : ∀ x, x < 32 → (((x &&& VLQ_BASE_MASK) ||| VLQ_CONT) &&& VLQ_BASE_MASK) = x := by decide

theorem cont_zero_iff : ∀ v, v < 64 → ((VLQ_CONT &&& v) = 0 ↔ v < 32) := by decide

theorem base_mask (v : Nat) : VLQ_BASE_MASK &&& v = v % 32 := by
  rw [Nat.and_comm]; exact Nat.and_two_pow_sub_one_eq_mod v 5

theorem acc_step (d i sh : Nat) (h : i < 2 ^ sh) : ((d <<< sh) ||| i) = d * 2 ^ sh + i := by
  rw [Nat.shiftLeft_eq, Nat.mul_comm, Nat.two_pow_add_eq_or_of_lt h]

theorem emit_eq (i : Nat) : emit i = ofRaw i := by
  unfold emit ofRaw
  have h1 : 1 &&& i = i % 2 := by rw [Nat.and_comm]; exact Nat.and_one_is_mod i
  have h2 : i >>> 1 = i / 2 := by simp [Nat.shiftRight_eq_div_pow]
  rw [h1, h2]
  by_cases h : i % 2 = 1
  · have : i % 2 ≠ 0 := by omega
    simp [h]
  · have : i % 2 = 0 := by omega
    simp [this]

theorem rawOf_eq (i : Int) : rawOf i = toRaw i := by
  unfold rawOf toRaw
  simp only [Nat.shiftLeft_eq]
  split <;> omega

theorem ofRaw_toRaw (v : Int) : ofRaw (toRaw v) = v := by
  unfold ofRaw toRaw
  split <;> split <;> omega

theorem toRaw_ofRaw {r : Nat} (h : r ≠ 1) : toRaw (ofRaw r) = r := by
  unfold ofRaw toRaw
  split <;> split <;> omega

theorem toRaw_ne_one (v : Int) : toRaw v ≠ 1 := by
  unfold toRaw
  split <;> omega

end CalmVerif.Proofs.Vlq
