/-
The LR driver model never fails *internally* (C12): on tables that pass `tablesValid` and the additional
checkable condition `driverTotal` (against an untrusted certificate of LR(0) item sets emitted by the
translator), no configuration reachable from the initial one makes `step` return `Outcome.internal` —
whatever the semantics `S` and the token source.

Certificate (`ItemCert`): per state `s`
  * `kitemsOf s` : kernel items as quadruples (p, d, lhs, len), 1 ≤ d ≤ len = |rhs p|, lhs = lhs p;
  * `needOf s`   : nonterminals `A` for which `goto[s][A]` must exist (closure items `A → . α`);
  * `eps`        : the empty productions (p, lhs).
`driverTotal` checks, by one pass over the table entries:
  * every key of an action row is a terminal index and the `$end` column never shifts;
  * the items and `eps` agree with the production list; `goto[s][A]` exists for every `A ∈ needOf s`;
  * every reduction `p` possible in `s` (some look-ahead, or by default) has its complete item in `kitemsOf s`,
    or is an empty production whose left-hand side is in `needOf s`;
  * for every transition `q → t` (shift or goto) and every item (p, d, …) of `t`: d = 1 and lhs ∈ needOf q,
    or (p, d-1, …) is an item of `q`.
Along any path of the automaton (`StackOK`) these give: the state `len` below a state holding the complete
item of `p` has `lhs p` in its `need` set, hence the goto that ply looks up after popping exists.  With the
suffix certificate of `tablesValid` (stack depth) this excludes every `KeyError`/`IndexError` of the driver:
missing goto, stack underflow, bad production, accept on an empty stack, shift of `$end`.
-/
import CalmVerif.Proofs.NodePosGhost
namespace CalmVerif.Model.LR

variable {τ ν σ ε : Type}

structure ItemCert where
  chunk : Nat
  kitems : List (List (List Nat))
  need : List (List (List Nat))
  eps : List Nat

/-- two-level random access into a chunked table -/
def row2 (chunk : Nat) (tbl : List (List (List Nat))) (s : Nat) : List Nat :=
  match tbl[s / chunk]? with
  | some c => (c[s % chunk]?).getD []
  | none => []

def kitemsOf (C : ItemCert) (s : Nat) : List Nat := row2 C.chunk C.kitems s
def needOf (C : ItemCert) (s : Nat) : List Nat := row2 C.chunk C.need s

def hasItem : List Nat → Nat → Nat → Nat → Nat → Bool
  | a :: b :: c :: d :: rest, p, dd, lhs, len =>
    (a == p && b == dd && c == lhs && d == len) || hasItem rest p dd lhs len
  | _, _, _, _, _ => false

def allItems (f : Nat → Nat → Nat → Nat → Bool) : List Nat → Bool
  | a :: b :: c :: d :: rest => f a b c d && allItems f rest
  | _ => true

def hasCompleteItem : List Nat → Nat → Bool
  | a :: b :: _ :: d :: rest, p => (a == p && b == d) || hasCompleteItem rest p
  | _, _ => false

def epsHas : List Nat → Nat → List Nat → Bool
  | p' :: lhs :: rest, p, need => (p' == p && need.contains lhs) || epsHas rest p need
  | _, _, _ => false

def upTo (f : Nat → Bool) : Nat → Bool
  | 0 => true
  | n + 1 => f n && upTo f n

def itemValid (T : Tables) (p d lhs len : Nat) : Bool :=
  match T.prods[p]? with
  | some (l, rhs) => l == lhs && rhs.length == len && decide (1 ≤ d) && decide (d ≤ len)
  | none => false

def epsValid (T : Tables) : List Nat → Bool
  | p :: lhs :: rest =>
    (match T.prods[p]? with
     | some (l, rhs) => l == lhs && rhs.isEmpty
     | none => false) && epsValid T rest
  | _ => true

def needRowOK (T : Tables) (s : Nat) : List Nat → Bool
  | [] => true
  | a :: rest => (gotoOf T s a).isSome && needRowOK T s rest

def reduceOK (C : ItemCert) (s p : Nat) : Bool :=
  hasCompleteItem (kitemsOf C s) p || epsHas C.eps p (needOf C s)

def transOK (C : ItemCert) (q t : Nat) : Bool :=
  allItems (fun p d lhs len =>
    if d == 1 then (needOf C q).contains lhs else hasItem (kitemsOf C q) p (d - 1) lhs len) (kitemsOf C t)

def actionEntryTotal (T : Tables) (C : ItemCert) (s term code : Nat) : Bool :=
  decide (term < T.numTerminals) &&
  (match decodeAct code with
   | .shift t => term != T.endTerm && transOK C s t
   | .reduce p => reduceOK C s p
   | .accept => true)

def driverTotal (T : Tables) (C : ItemCert) : Bool :=
  decide (0 < C.chunk) && (kitemsOf C 0).isEmpty &&
  allFrom (fun s row => rowAll (fun term code => actionEntryTotal T C s term code) row) 0 T.action &&
  allFrom (fun s row => rowAll (fun _ t => transOK C s t) row) 0 T.goto &&
  rowAll (fun s p => reduceOK C s p) T.defaulted &&
  upTo (fun s => allItems (itemValid T) (kitemsOf C s)) (C.chunk * C.kitems.length) &&
  epsValid T C.eps &&
  upTo (fun s => needRowOK T s (needOf C s)) (C.chunk * C.need.length)

/-! ### extraction lemmas -/

theorem upTo_lt {f : Nat → Bool} : ∀ {n s : Nat}, upTo f n = true → s < n → f s = true
  | 0, _, _, h => by omega
  | n + 1, s, hall, h => by
    simp only [upTo, Bool.and_eq_true] at hall
    by_cases hs : s = n
    · subst hs; exact hall.1
    · exact upTo_lt hall.2 (by omega)

theorem row2_out {chunk : Nat} (hc : 0 < chunk) {tbl : List (List (List Nat))} {s : Nat}
    (h : chunk * tbl.length ≤ s) : row2 chunk tbl s = [] := by
  unfold row2
  have : tbl.length ≤ s / chunk := by
    rw [Nat.le_div_iff_mul_le hc, Nat.mul_comm]; exact h
  simp [List.getElem?_eq_none this]

theorem allItems_hasItem {f : Nat → Nat → Nat → Nat → Bool} : ∀ {row : List Nat} {p d lhs len : Nat},
    allItems f row = true → hasItem row p d lhs len = true → f p d lhs len = true
  | [], _, _, _, _, _, h => by simp [hasItem] at h
  | [_], _, _, _, _, _, h => by simp [hasItem] at h
  | [_, _], _, _, _, _, _, h => by simp [hasItem] at h
  | [_, _, _], _, _, _, _, _, h => by simp [hasItem] at h
  | a :: b :: c :: d :: rest, p, dd, lhs, len, hall, h => by
    simp only [allItems, Bool.and_eq_true] at hall
    simp only [hasItem, Bool.or_eq_true, Bool.and_eq_true, beq_iff_eq] at h
    rcases h with ⟨⟨⟨rfl, rfl⟩, rfl⟩, rfl⟩ | h
    · exact hall.1
    · exact allItems_hasItem hall.2 h

theorem hasCompleteItem_spec : ∀ {row : List Nat} {p : Nat},
    hasCompleteItem row p = true → ∃ lhs len, hasItem row p len lhs len = true
  | [], _, h => by simp [hasCompleteItem] at h
  | [_], _, h => by simp [hasCompleteItem] at h
  | [_, _], _, h => by simp [hasCompleteItem] at h
  | [_, _, _], _, h => by simp [hasCompleteItem] at h
  | a :: b :: c :: d :: rest, p, h => by
    simp only [hasCompleteItem, Bool.or_eq_true, Bool.and_eq_true, beq_iff_eq] at h
    rcases h with ⟨rfl, rfl⟩ | h
    · exact ⟨c, b, by simp [hasItem]⟩
    · obtain ⟨lhs, len, hh⟩ := hasCompleteItem_spec h
      exact ⟨lhs, len, by simp [hasItem, hh]⟩

theorem epsHas_spec {T : Tables} : ∀ {eps : List Nat} {p : Nat} {need : List Nat},
    epsValid T eps = true → epsHas eps p need = true →
    ∃ lhs, T.prods[p]? = some (lhs, []) ∧ need.contains lhs = true
  | [], _, _, _, h => by simp [epsHas] at h
  | [_], _, _, _, h => by simp [epsHas] at h
  | p' :: lhs :: rest, p, need, hv, h => by
    simp only [epsValid, Bool.and_eq_true] at hv
    simp only [epsHas, Bool.or_eq_true, Bool.and_eq_true, beq_iff_eq] at h
    rcases h with ⟨rfl, hn⟩ | h
    · have h1 := hv.1
      split at h1
      · next l rhs hp =>
        simp only [Bool.and_eq_true, beq_iff_eq, List.isEmpty_iff] at h1
        obtain ⟨rfl, rfl⟩ := h1
        exact ⟨l, hp, hn⟩
      · simp at h1
    · exact epsHas_spec hv.2 h

theorem needRowOK_mem {T : Tables} {s : Nat} : ∀ {row : List Nat} {a : Nat},
    needRowOK T s row = true → row.contains a = true → (gotoOf T s a).isSome = true
  | [], _, _, h => by simp at h
  | b :: rest, a, hall, h => by
    simp only [needRowOK, Bool.and_eq_true] at hall
    simp only [List.contains_cons, Bool.or_eq_true, beq_iff_eq] at h
    rcases h with rfl | h
    · exact hall.1
    · exact needRowOK_mem hall.2 h

section facts
variable {T : Tables} {C : ItemCert}

theorem dt_chunk (h : driverTotal T C = true) : 0 < C.chunk := by
  simp only [driverTotal, Bool.and_eq_true, decide_eq_true_eq] at h
  exact h.1.1.1.1.1.1.1

theorem dt_action (h : driverTotal T C = true) {s term : Nat} {a : Act}
    (ha : actionOf T s term = some a) :
    ∃ code, decodeAct code = a ∧ actionEntryTotal T C s term code = true := by
  simp only [driverTotal, Bool.and_eq_true] at h
  unfold actionOf at ha
  split at ha
  · next row hrow =>
    cases hl : lookupFlat row term with
    | none => simp [hl] at ha
    | some code =>
      simp [hl] at ha
      refine ⟨code, ha, ?_⟩
      have := allFrom_get (i := 0) h.1.1.1.1.1.2 hrow
      simp only [Nat.zero_add] at this
      exact rowAll_lookup this hl
  · simp at ha

theorem dt_goto (h : driverTotal T C = true) {s nt t : Nat}
    (hg : gotoOf T s nt = some t) : transOK C s t = true := by
  simp only [driverTotal, Bool.and_eq_true] at h
  unfold gotoOf at hg
  split at hg
  · next row hrow =>
    have := allFrom_get (i := 0) h.1.1.1.1.2 hrow
    simp only [Nat.zero_add] at this
    exact rowAll_lookup (P := fun _ t => transOK C s t) this hg
  · simp at hg

theorem dt_defaulted (h : driverTotal T C = true) {s p : Nat}
    (hd : defaultedOf T s = some p) : reduceOK C s p = true := by
  simp only [driverTotal, Bool.and_eq_true] at h
  exact rowAll_lookup h.1.1.1.2 hd

theorem dt_item (h : driverTotal T C = true) {s p d lhs len : Nat}
    (hi : hasItem (kitemsOf C s) p d lhs len = true) : itemValid T p d lhs len = true := by
  have hc := dt_chunk h
  simp only [driverTotal, Bool.and_eq_true] at h
  by_cases hs : s < C.chunk * C.kitems.length
  · exact allItems_hasItem (upTo_lt h.1.1.2 hs) hi
  · simp [kitemsOf, row2_out hc (Nat.le_of_not_lt hs), hasItem] at hi

theorem dt_zero (h : driverTotal T C = true) : kitemsOf C 0 = [] := by
  simp only [driverTotal, Bool.and_eq_true, List.isEmpty_iff] at h
  exact h.1.1.1.1.1.1.2

theorem dt_eps (h : driverTotal T C = true) : epsValid T C.eps = true := by
  simp only [driverTotal, Bool.and_eq_true] at h
  exact h.1.2

theorem dt_need (h : driverTotal T C = true) {s a : Nat}
    (hn : (needOf C s).contains a = true) : (gotoOf T s a).isSome = true := by
  have hc := dt_chunk h
  simp only [driverTotal, Bool.and_eq_true] at h
  by_cases hs : s < C.chunk * C.need.length
  · exact needRowOK_mem (upTo_lt h.2 hs) hn
  · simp [needOf, row2_out hc (Nat.le_of_not_lt hs)] at hn

end facts

/-! ### the item invariant along a path of the automaton -/

/-- every item of every state on the stack points, `d` states further down, at a state that needs its
    left-hand side -/
def SInv (C : ItemCert) : List Nat → Prop
  | [] => True
  | s :: below =>
    (∀ p d lhs len, hasItem (kitemsOf C s) p d lhs len = true →
      ∃ q, below[d - 1]? = some q ∧ (needOf C q).contains lhs = true) ∧ SInv C below

section inv
variable {T : Tables} {C : ItemCert} {ty : τ → Nat}

theorem sinv_push (hd : driverTotal T C = true) {q t : Nat} {below : List Nat}
    (hinv : SInv C (q :: below)) (ht : transOK C q t = true) : SInv C (t :: q :: below) := by
  refine ⟨?_, hinv⟩
  intro p d lhs len hi
  have hv := dt_item hd hi
  have hf := allItems_hasItem ht hi
  simp only [itemValid] at hv
  split at hv
  · next l rhs hp =>
    simp only [Bool.and_eq_true, beq_iff_eq, decide_eq_true_eq] at hv
    obtain ⟨⟨⟨_, _⟩, hd1⟩, _⟩ := hv
    split at hf
    · next h1 =>
      simp only [beq_iff_eq] at h1
      subst h1
      exact ⟨q, by simp, hf⟩
    · next h1 =>
      simp only [beq_iff_eq] at h1
      obtain ⟨q', hq', hn⟩ := hinv.1 p (d - 1) lhs len hf
      refine ⟨q', ?_, hn⟩
      have : d - 1 = (d - 1 - 1) + 1 := by omega
      rw [this, List.getElem?_cons_succ]; exact hq'
  · simp at hv

theorem stack_sinv (hd : driverTotal T C = true) : ∀ {st : List Nat} {vs : List (Tree τ)},
    StackOK T ty st vs → SInv C st := by
  intro st vs h
  induction h with
  | base =>
    refine ⟨?_, trivial⟩
    intro p d lhs len hi
    simp [dt_zero hd, hasItem] at hi
  | @push q qs v vs s hprev he _ ih =>
    cases v with
    | leaf t =>
      simp only [edge] at he
      obtain ⟨code, hdec, hok⟩ := dt_action hd he
      simp only [actionEntryTotal, hdec, Bool.and_eq_true] at hok
      exact sinv_push hd ih hok.2.2
    | node p cs =>
      simp only [edge] at he
      obtain ⟨lhs, rhs, _, hg⟩ := he
      exact sinv_push hd ih (dt_goto hd hg)

end inv

/-! ### no internal outcome -/

theorem popN_drop : ∀ {n : Nat} {l a b : List α}, popN n l = some (a, b) → b = l.drop n
  | 0, _, _, _, h => by simp [popN] at h; simp [h.2]
  | n + 1, [], _, _, h => by simp [popN] at h
  | n + 1, x :: l, a, b, h => by
    simp only [popN, Option.map_eq_some_iff] at h
    obtain ⟨⟨a1, b1⟩, hp, heq⟩ := h
    simp at heq
    obtain ⟨rfl, rfl⟩ := heq
    simpa using popN_drop hp

theorem popN_some : ∀ (n : Nat) (l : List α), n ≤ l.length → ∃ a b, popN n l = some (a, b)
  | 0, l, _ => ⟨[], l, rfl⟩
  | n + 1, [], h => by simp at h
  | n + 1, x :: l, h => by
    obtain ⟨a, b, hab⟩ := popN_some n l (by simpa using h)
    exact ⟨x :: a, b, by simp [popN, hab]⟩

theorem stack_len {T : Tables} {ty : τ → Nat} : ∀ {st : List Nat} {vs : List (Tree τ)},
    StackOK T ty st vs → st.length = vs.length + 1 := by
  intro st vs h
  induction h with
  | base => rfl
  | push _ _ _ ih => simp [ih]

theorem All2.length_eq' {α β : Type} {Q : α → β → Prop} {as : List α} {cs : List β}
    (h : All2 Q as cs) : as.length = cs.length := by
  induction h with
  | nil => rfl
  | cons _ _ ih => simp [ih]

section driver
variable {T : Tables} {cert : List (List Nat)} {acc : List Nat} {C : ItemCert}
variable {S : Sem τ ν σ ε} {R : Source τ σ ε} {Rel : ν → Tree τ → Prop}

theorem step_no_internal (h : tablesValid T cert acc = true) (hd : driverTotal T C = true)
    {c : Config τ ν σ} (hinv : GInv T S Rel c) (w : String) :
    step T S R c ≠ .inr (.internal w) := by
  obtain ⟨trees, hstack, hyld, hrel⟩ := hinv
  intro hs
  unfold step at hs
  split at hs
  · next hst => rw [hst] at hstack; cases hstack
  · next st below hst =>
    split at hs
    · simp at hs
    · -- shift
      next s c1 hf =>
      obtain ⟨h1, h2, h3, hdisj⟩ := fetch_spec' hf
      unfold doShift at hs
      split at hs
      · simp at hs
      · next hlk =>
        rcases hdisj with ⟨p, _, hp⟩ | hp
        · simp at hp
        · have hend : lookTermOf T S c1 = T.endTerm := by
            unfold lookTermOf
            split
            · next t hl => exact absurd hl (hlk t)
            · rfl
          obtain ⟨code, hdec, hok⟩ := dt_action hd hp.symm
          simp only [actionEntryTotal, hdec, Bool.and_eq_true, bne_iff_ne, ne_eq] at hok
          exact hok.2.1 hend
    · -- reduce
      next p c1 hf =>
      obtain ⟨h1, h2, h3, hdisj⟩ := fetch_spec' hf
      have hrhs := reduce_rhs_ok' (c1 := c1) h hdisj rfl
      have hred : reduceOK C st p = true := by
        rcases hdisj with ⟨p', hdp, hp'⟩ | hp'
        · simp at hp'; subst hp'; exact dt_defaulted hd hdp
        · obtain ⟨code, hdec, hok⟩ := dt_action hd hp'.symm
          simp only [actionEntryTotal, hdec, Bool.and_eq_true] at hok
          exact hok.2
      unfold doReduce at hs
      split at hs
      · next hp => simp [prodRhsOK, hp] at hrhs
      · next lhs rhs hp =>
        have hst1 : c1.states = st :: below := by rw [h1, hst]
        have hcert : certOf cert st <:+ labels T S.ty trees := stack_cert h hstack hst
        have hsuf : rhs <:+ labels T S.ty trees := by
          simp only [prodRhsOK, hp] at hrhs
          exact (sfx_iff.mp hrhs).trans hcert
        have hlen : rhs.length ≤ trees.length := by
          have := hsuf.length_le
          simpa [labels, symList_eq_map] using this
        have hvl : c1.vals.length = trees.length := by rw [h2]; exact All2.length_eq' hrel
        have hsl : c1.states.length = trees.length + 1 := by rw [h1]; exact stack_len hstack
        obtain ⟨args, restVals, hpv⟩ := popN_some rhs.length c1.vals (by omega)
        obtain ⟨ps, restStates, hps⟩ := popN_some rhs.length c1.states (by omega)
        rw [hpv, hps] at hs
        simp only at hs
        split at hs
        · simp at hs
        · next v hv =>
          have hrest : restStates = (st :: below).drop rhs.length := by
            rw [← hst1]; exact popN_drop hps
          have hsinv : SInv C (st :: below) := by
            rw [← hst]; exact stack_sinv hd hstack
          -- the state exposed by the pop needs `lhs`
          have hneed : ∃ q rest, restStates = q :: rest ∧ (needOf C q).contains lhs = true := by
            simp only [reduceOK, Bool.or_eq_true] at hred
            rcases hred with hci | heps
            · obtain ⟨lhs', len, hi⟩ := hasCompleteItem_spec hci
              have hv' := dt_item hd hi
              simp only [itemValid, hp, Bool.and_eq_true, beq_iff_eq, decide_eq_true_eq] at hv'
              obtain ⟨⟨⟨rfl, hl⟩, h1le⟩, _⟩ := hv'
              obtain ⟨q, hq, hn⟩ := hsinv.1 p len lhs len hi
              refine ⟨q, below.drop len, ?_, hn⟩
              rw [hrest, hl]
              have : len = (len - 1) + 1 := by omega
              rw [this, List.drop_succ_cons]
              have hlt : len - 1 < below.length := by
                have := List.getElem?_eq_some_iff.mp hq
                exact this.1
              rw [List.drop_eq_getElem_cons hlt]
              have := (List.getElem?_eq_some_iff.mp hq).2
              simp [this]
            · obtain ⟨lhs', hp', hn⟩ := epsHas_spec (dt_eps hd) heps
              rw [hp] at hp'
              simp only [Option.some.injEq, Prod.mk.injEq] at hp'
              obtain ⟨rfl, rfl⟩ := hp'
              exact ⟨st, below, by simpa using hrest, hn⟩
          obtain ⟨q, rest, hrs, hn⟩ := hneed
          subst hrs
          simp only at hs
          obtain ⟨g, hg⟩ := Option.isSome_iff_exists.mp (dt_need hd hn)
          simp [hg] at hs
    · -- accept
      next c1 hf =>
      obtain ⟨h1, h2, h3, hdisj⟩ := fetch_spec' hf
      have hact : actionOf T st (lookTermOf T S c1) = some .accept := by
        rcases hdisj with ⟨p, _, hp⟩ | hp
        · simp at hp
        · exact hp.symm
      obtain ⟨code, hdec, hok⟩ := tv_action h hact
      simp only [actionEntryOK, hdec, Bool.and_eq_true, bne_iff_ne, ne_eq] at hok
      rw [hst] at hstack
      cases hstack with
      | base => exact hok.2 rfl
      | push _ _ _ =>
        cases hcv : c.vals with
        | nil => rw [hcv] at hrel; cases hrel
        | cons v0 vs0 => rw [h2, hcv] at hs; simp at hs
    · -- error
      next c1 hf =>
      unfold doError at hs
      cases hr : R.onError c1.src (lookTok c1) with
      | error e => simp [hr] at hs
      | ok res =>
        obtain ⟨t?, s'⟩ := res
        cases t? <;> simp [hr] at hs

/-- where `run` stops, `step` produced the outcome (or the fuel ran out) -/
theorem run_outcome : ∀ (fuel : Nat) (c c' : Config τ ν σ) (o : Outcome ν ε),
    run T S R fuel c = (o, c') → o = .outOfFuel ∨ step T S R c' = .inr o
  | 0, c, c', o, hr => by
    simp only [run, Prod.mk.injEq] at hr
    exact Or.inl hr.1.symm
  | fuel + 1, c, c', o, hr => by
    simp only [run] at hr
    split at hr
    · next c2 hs => exact run_outcome fuel c2 c' o hr
    · next o' hs =>
      simp only [Prod.mk.injEq] at hr
      obtain ⟨rfl, rfl⟩ := hr
      exact Or.inr hs

/-- **no internal failure of the driver**: from the initial configuration, for every semantics, token source and
    fuel, `run` never ends in `Outcome.internal` -/
theorem run_no_internal (h : tablesValid T cert acc = true) (hd : driverTotal T C = true)
    (fuel : Nat) (s : σ) (w : String) :
    (run T S R fuel (initConfig s)).1 ≠ .internal w := by
  intro hrun
  have hl : Lifts T S (fun _ _ => True) := ⟨fun _ => trivial, fun _ _ _ _ => trivial⟩
  have hreach := run_reach_snd (T := T) (S := S) (R := R) fuel (initConfig s)
  have hinv := reach_ginv h hl (ginv_init (Rel := fun _ _ => True) s) hreach
  have hout := run_outcome (T := T) (S := S) (R := R) fuel (initConfig s) _ _ (Prod.ext rfl rfl)
  rcases hout with ho | ho
  · rw [hrun] at ho; cases ho
  · rw [hrun] at ho
    exact step_no_internal h hd hinv w ho

end driver
end CalmVerif.Model.LR
