/-
C13, faithfulness on final trees, run level: the ghost relation `CRel` between semantic values and derivation trees
("the `@comments` attributes of the value are — up to order, with multiplicity — among `set_comments` of the tokens of
the tree's yield") is established by `leaf` and preserved by every semantic action; hence it holds of the accepted tree
and the shifted tokens.
-/
import Mathlib.Data.List.Perm.Subperm
import CalmVerif.Proofs.CommentsAttach
import CalmVerif.Proofs.CommentsFull
import CalmVerif.Proofs.NodePosTrack

namespace CalmVerif.Proofs.Comments
open CalmVerif CalmVerif.Model CalmVerif.Model.Actions CalmVerif.Model.ActionDesc CalmVerif.Model.LR
open CalmVerif.Model.Lexer (Token)
open CalmVerif.Proofs.NodePos (mkCtx reduce_ok)
open List

/-- `set_comments` of every token of a list (tokens without hidden comments contribute nothing) -/
def hiddenCms (toks : List Token) : List Val := toks.filterMap (fun t => commentsOf (Parser.toTok t))

theorem hiddenCms_append (a b : List Token) : hiddenCms (a ++ b) = hiddenCms a ++ hiddenCms b := by
  simp [hiddenCms]

/-- the ghost relation -/
def CRel (pv : PVal) (tr : Tree Token) : Prop :=
  (∀ tok, pv.tok = some tok → ∃ t, tr = .leaf t ∧ tok = Parser.toTok t ∧ cms pv.v = []) ∧
  cms pv.v <+~ hiddenCms tr.yield

/-- what one argument can contribute: the comments in its tree and `set_comments` of its token -/
def budget (pv : PVal) : List Val := cms pv.v ++ (pv.tok.bind commentsOf).toList

theorem CRel.budget_le {pv : PVal} {tr : Tree Token} (h : CRel pv tr) : budget pv <+~ hiddenCms tr.yield := by
  unfold budget
  cases ht : pv.tok with
  | none => simpa using h.2
  | some tok =>
    obtain ⟨t, rfl, rfl, hc⟩ := h.1 tok ht
    rw [hc]
    simp only [Option.bind_some, nil_append, Tree.yield, hiddenCms, filterMap_cons, filterMap_nil]
    cases commentsOf (Parser.toTok t) <;> exact Subperm.refl _

theorem all2_budget {args : List PVal} {trees : List (Tree Token)} (h : All2 CRel args trees) :
    args.flatMap budget <+~ hiddenCms (yieldList trees) := by
  induction h with
  | nil => simp [yieldList, hiddenCms]
  | cons hr _ ih =>
    simp only [flatMap_cons, yieldList, hiddenCms_append]
    exact Subperm.append hr.budget_le ih

/-! ### references of a row against the arguments -/

def optBudget : Option PVal → List Val
  | some pv => budget pv
  | none => []

theorem flatMap_range_get {α β : Type} (f : Option α → List β) (hf : f none = []) (l : List α) :
    (List.range l.length).flatMap (fun i => f l[i]?) = l.flatMap (fun a => f (some a)) := by
  induction l with
  | nil => simp
  | cons a rest ih =>
    rw [length_cons, range_succ_eq_map, flatMap_cons, flatMap_map]
    simp only [getElem?_cons_zero, getElem?_cons_succ, flatMap_cons]
    rw [ih]

theorem sublist_flatMap {α β : Type} {l₁ l₂ : List α} (f : α → List β) (h : l₁ <+ l₂) :
    l₁.flatMap f <+ l₂.flatMap f := by
  induction h with
  | slnil => simp
  | cons a _ ih => rw [flatMap_cons]; exact ih.trans (sublist_append_right _ _)
  | cons_cons a _ ih => rw [flatMap_cons, flatMap_cons]; exact Sublist.append (Sublist.refl _) ih

theorem subperm_flatMap {α β : Type} {l₁ l₂ : List α} (f : α → List β) (h : l₁ <+~ l₂) :
    l₁.flatMap f <+~ l₂.flatMap f := by
  obtain ⟨l, hp, hs⟩ := h
  exact ⟨l.flatMap f, hp.flatMap_right f, sublist_flatMap f hs⟩

theorem flatMap_filter_nil {α β : Type} (p : α → Bool) (f : α → List β) (l : List α)
    (h : ∀ a, p a = false → f a = []) : (l.filter p).flatMap f = l.flatMap f := by
  induction l with
  | nil => rfl
  | cons a rest ih =>
    by_cases hp : p a = true
    · simp [filter_cons, hp, ih]
    · have hp' : p a = false := by simpa using hp
      simp [filter_cons, hp', ih, h a hp']

/-- the index pairs of the slots of a production with `n` right-hand-side symbols -/
def allRefs (n : Nat) : List Ref := (List.range n).flatMap (fun i => [(false, i + 1), (true, i + 1)])

theorem slot?_eq (c : Ctx) (i : Nat) : c.slot? (i + 1) = c.slots[i]? := by
  simp [Ctx.slot?]

theorem allRefs_budget (c : Ctx) : (allRefs c.slots.length).flatMap (slotCms c) = c.slots.flatMap budget := by
  unfold allRefs
  rw [flatMap_assoc]
  have : ∀ i, ([(false, i + 1), (true, i + 1)] : List Ref).flatMap (slotCms c) = optBudget c.slots[i]? := by
    intro i
    simp only [flatMap_cons, flatMap_nil, append_nil, slotCms, slot?_eq]
    cases c.slots[i]? <;> rfl
  simp only [this]
  exact flatMap_range_get optBudget rfl c.slots

theorem refs_budget (c : Ctx) (L : List Ref) (hnd : L.Nodup) :
    L.flatMap (slotCms c) <+~ c.slots.flatMap budget := by
  have hfil := flatMap_filter_nil (fun r : Ref => (c.slot? r.2).isSome) (slotCms c) L (by
    intro r hr
    obtain ⟨b, j⟩ := r
    have hnone : c.slot? j = none := by simpa using hr
    cases b <;> simp [slotCms, hnone])
  rw [← hfil, ← allRefs_budget]
  apply subperm_flatMap
  apply Nodup.subperm (hnd.filter _)
  intro r hr
  obtain ⟨b, j⟩ := r
  simp only [mem_filter] at hr
  have hs : (c.slot? j).isSome = true := hr.2
  unfold Ctx.slot? at hs
  by_cases hj : j = 0
  · simp [hj] at hs
  · simp only [hj, if_false] at hs
    have hlt : j - 1 < c.slots.length := by
      rcases Option.isSome_iff_exists.mp hs with ⟨a, ha⟩
      exact (List.getElem?_eq_some_iff.mp ha).1
    unfold allRefs
    simp only [mem_flatMap, mem_range, mem_cons, Prod.mk.injEq, not_mem_nil, or_false]
    refine ⟨j - 1, hlt, ?_⟩
    have : j - 1 + 1 = j := by omega
    cases b <;> simp [this]

theorem nodupRef_nodup : ∀ (l : List Ref), nodupRef l = true → l.Nodup
  | [], _ => nodup_nil
  | x :: xs, h => by
    simp only [nodupRef, Bool.and_eq_true, Bool.not_eq_true', contains_eq_mem, decide_eq_false_iff_not] at h
    exact nodup_cons.mpr ⟨h.1, nodupRef_nodup xs h.2⟩

/-! ### the semantic actions preserve the relation -/

/-- table facts the preservation rests on (kernel decisions in Props/C13) -/
structure TableOK (tbl : List Entry) : Prop where
  noRead : noCommentsRead tbl = true
  plain : plainRead tbl = true
  once : refsOnce tbl = true

theorem reduce_crel {tbl : List Entry} (htbl : TableOK tbl) {wc : Bool} {lc : Nat → Nat → Option Int} {p : Nat}
    {args : List PVal} {lp : Nat × Nat} {v : PVal} (h : Actions.reduce tbl wc lc p args lp = .ok v)
    {trees : List (Tree Token)} (hall : All2 CRel args trees) : CRel v (.node p trees) := by
  obtain ⟨e, val, he, hev, rfl⟩ := reduce_ok h
  have hmem : e ∈ tbl := List.mem_of_getElem? he
  have hrow := selectRow_mem e (args.map (fun a => kindOf a.v))
  have h1 : noCommentsReadD (selectRow e (args.map (fun a => kindOf a.v))) = true :=
    List.all_eq_true.mp (List.all_eq_true.mp htbl.noRead e hmem) _ hrow
  have h2 : plainReadD (selectRow e (args.map (fun a => kindOf a.v))) = true :=
    List.all_eq_true.mp (List.all_eq_true.mp htbl.plain e hmem) _ hrow
  have h3 : nodupRef (refsD (selectRow e (args.map (fun a => kindOf a.v)))) = true :=
    List.all_eq_true.mp (List.all_eq_true.mp htbl.once e hmem) _ hrow
  refine ⟨fun tok ht => (by cases ht), ?_⟩
  have hc := evalD_cms (mkCtx args lp lc wc) _ h1 h2 val hev
  have hb := refs_budget (mkCtx args lp lc wc) _ (nodupRef_nodup _ h3)
  exact (hc.trans hb).trans (all2_budget hall)

theorem leaf_crel (t : Token) : CRel (Actions.leaf (Parser.toTok t)) (.leaf t) :=
  ⟨fun tok ht => ⟨t, rfl, by simpa [Actions.leaf] using ht.symm, by simp [Actions.leaf]⟩, by simp [Actions.leaf]⟩

theorem crel_lifts (T : Tables) (htbl : TableOK Gen.Actions.actions) : Lifts T (Parser.sem T) CRel where
  leaf := leaf_crel
  reduce := by
    intro p args src v trees lhs hr hall _ _
    rw [sem_reduce_eq] at hr
    cases hred : Actions.reduce Gen.Actions.actions src.withComments (lcOf src) p args (src.lexpos, src.lineno) with
    | error e => simp [hred] at hr
    | ok w =>
      simp only [hred, Except.ok.injEq] at hr
      subst hr
      exact reduce_crel htbl hred hall

/-- the value `run` accepts is on top of the value stack of the configuration at which it stops -/
theorem run_accepted_head {τ ν σ ε : Type} (T : Tables) (S : Sem τ ν σ ε) (R : Source τ σ ε) :
    ∀ (fuel : Nat) (c c' : Config τ ν σ) (v : ν), run T S R fuel c = (.accepted v, c') → c'.vals.head? = some v
  | 0, c, c', v, h => by simp [run] at h
  | fuel + 1, c, c', v, h => by
    simp only [run] at h
    split at h
    · exact run_accepted_head T S R fuel _ c' v h
    · next o hs =>
      simp only [Prod.mk.injEq] at h
      obtain ⟨rfl, rfl⟩ := h
      unfold step at hs
      split at hs
      · simp at hs
      · next st below hst =>
        split at hs
        · simp at hs
        · next s c1 hf => unfold doShift at hs; split at hs <;> simp at hs
        · next p c1 hf =>
          unfold doReduce at hs
          repeat' (split at hs)
          all_goals simp at hs
        · next c1 hf =>
          obtain ⟨_, h2, _, _⟩ := fetch_spec' hf
          split at hs
          · next w rest hw =>
            simp only [Sum.inr.injEq, Outcome.accepted.injEq] at hs
            subst hs
            rw [← h2, hw]
            rfl
          · simp at hs
        · next c1 hf =>
          unfold doError at hs
          repeat' (split at hs)
          all_goals simp at hs

end CalmVerif.Proofs.Comments
