import CalmVerif.Proofs.Api
/-
Helper lemmas for Props/C14 and Props/C15: prefix form of the fresh run, the call-list form,
parse histories, and the link from the regenerated table to the semantics selector.
-/
namespace CalmVerif.Proofs.Api
open CalmVerif.Model.Api

section
variable {Cfg Tree H W Frag Err : Type}

/-- a generator that is never dropped sees exactly `next`s -/
theorem opsOn_eq_replicate (g : Nat) (ops : List Op)
    (h : (opsOn g ops).all (· == GOp.next) = true) :
    opsOn g ops = List.replicate (nextCount g ops) .next := by
  unfold nextCount
  generalize opsOn g ops = l at h
  induction l with
  | nil => rfl
  | cons x xs ih =>
    simp only [List.all_cons, Bool.and_eq_true, beq_iff_eq] at h
    obtain ⟨hx, hxs⟩ := h
    subst hx
    have := ih hxs
    simp only [List.filter_cons, beq_self_eq_true, if_true, List.length_cons, List.replicate_succ]
    rw [← this]

/-- the observations of `n` `next()`s are the first `n` of the observations of `n + k` -/
theorem soloRun_take (M : Machine Cfg Tree H W Frag Err) (cfg : Cfg) (tree : Tree) (k : Nat) :
    ∀ (n : Nat) (st : GenSt H W),
      (soloRun M cfg tree st (List.replicate (n + k) .next)).take n
        = soloRun M cfg tree st (List.replicate n .next) := by
  intro n
  induction n with
  | zero => intro st; simp [soloRun]
  | succ n ih =>
    intro st
    have : n + 1 + k = (n + k) + 1 := by omega
    rw [this]
    simp only [List.replicate_succ, soloRun, List.take_succ_cons]
    rw [ih]

theorem soloRun_length (M : Machine Cfg Tree H W Frag Err) (cfg : Cfg) (tree : Tree) :
    ∀ (n : Nat) (st : GenSt H W), (soloRun M cfg tree st (List.replicate n .next)).length = n := by
  intro n
  induction n with
  | zero => intro st; simp [soloRun]
  | succ n ih => intro st; simp [List.replicate_succ, soloRun, ih]

/-- a selector that is constantly `perCall` -/
theorem sel_const (sel : Cfg → Sem) (h : ∀ cfg, sel cfg = .perCall) : sel = fun _ => Sem.perCall :=
  funext h

end

/-! ### the table decides the selector -/

open CalmVerif.Gen.Api in
theorem semOf_perCall (rows : List ObjRow)
    (h : ∀ r ∈ rows, r.stateful = true → r.shared = false) (config : String) :
    semOf rows config = .perCall := by
  unfold semOf hoistedRoles
  have : rows.filter (fun r => r.config == config && r.shared && r.stateful) = [] := by
    rw [List.filter_eq_nil_iff]
    intro r hr
    have := h r hr
    cases hs : r.stateful <;> cases hh : r.shared <;> simp_all
  simp [this]

/-! ### the call-list form -/

section
variable {Cfg Tree S Frag : Type}

theorem runCalls_call (run : Cfg → S → Tree → List (Frag × S)) (init : Cfg → S)
    (printers : List (Cfg × S)) (trees : List Tree) (cs : List Call) :
    runCalls (call run init) printers trees cs
      = (printers, cs.map (freshResult run init printers trees)) := by
  induction cs with
  | nil => rfl
  | cons c cs ih =>
    have h1 : (call run init printers trees c).1 = printers := by
      unfold call; split <;> rfl
    have h2 : (call run init printers trees c).2 = freshResult run init printers trees c := by
      unfold call freshResult; split <;> simp_all
    simp only [runCalls, h1, ih, h2, List.map_cons]

theorem runCalls_append_snd (f : List (Cfg × S) → List Tree → Call → List (Cfg × S) × Option (List Frag))
    (trees : List Tree) (cs : List Call) (c : Call) :
    ∀ printers, (runCalls f printers trees (cs ++ [c])).2
      = (runCalls f printers trees cs).2 ++ [(f (runCalls f printers trees cs).1 trees c).2] := by
  induction cs with
  | nil => intro printers; simp [runCalls]
  | cons c' cs ih => intro printers; simp [runCalls, ih]

end

/-! ### parse histories -/

section
variable {G Flag Text PS Res : Type}

theorem runParses_eq (M : ParseMachine G Flag Text PS Res) (cs : List (Flag × Text)) :
    ∀ pr : Proc G PS,
      (runParses M pr cs).2 = cs.map (parseFresh M pr.tables) ∧ (runParses M pr cs).1.tables = pr.tables := by
  induction cs with
  | nil => intro pr; simp [runParses]
  | cons c cs ih =>
    intro pr
    have h := ih (parseCall M pr c).1
    have ht : (parseCall M pr c).1.tables = pr.tables := rfl
    simp only [runParses, List.map_cons]
    refine ⟨?_, ?_⟩
    · rw [h.1, ht]; rfl
    · rw [h.2, ht]

end

end CalmVerif.Proofs.Api
