/-
Helper lemmas for C12 (lexer part): from a well-formed state (non-empty `token_stack`, non-empty `newline_idx` —
what `Lexer()` + `input` establish and every method preserves) no lexer method raises an internal error.
-/
import CalmVerif.Proofs.LexerStep

namespace CalmVerif.Proofs.LexerNoInternal
open CalmVerif.Model.TokenRegex CalmVerif.Model.PlyLex CalmVerif.Model.Lexer
open CalmVerif.Proofs.LexerStep

/-- the state invariant that rules out the internal errors -/
def WF (st : LexState) : Prop := st.tokenStack ≠ [] ∧ st.newlineIdx ≠ []

/-- the exception is not one of the internal (non-ECMASyntaxError) kinds -/
def NotInternal (e : Err) : Prop := ∀ k, e ≠ .internal k

theorem colnoAt_ok (st : LexState) (h : st.newlineIdx ≠ []) (p : Nat) : ∃ c, colnoAt st p = .ok c := by
  unfold colnoAt lastNewline
  rw [List.getLast?_eq_some_getLast h]
  exact ⟨_, rfl⟩

theorem tError_ni (st : LexState) (p : Nat) (h : st.newlineIdx ≠ []) (hd : st.text.drop p ≠ []) :
    NotInternal (tError st p) := by
  intro k
  unfold tError
  simp only
  obtain ⟨c, hc⟩ := colnoAt_ok st h p
  rw [hc]
  simp only
  split
  · rename_i n _
    have h1 : (updateNewlineIdx st p ((st.text.drop p).take n)).newlineIdx ≠ [] := by
      simp [updateNewlineIdx, h]
    split
    · split
      · obtain ⟨c1, hc1⟩ := colnoAt_ok _ h1 (p + n)
        rw [hc1]
        simp
      · simp [unterminatedMsg]
    · simp [unterminatedMsg]
  · split
    · rename_i hv; exact absurd hv hd
    · split <;> simp

theorem tRegexError_ni (st : LexState) (p : Nat) (h : st.newlineIdx ≠ []) : NotInternal (tRegexError st p) := by
  intro k
  unfold tRegexError
  obtain ⟨c, hc⟩ := colnoAt_ok st h p
  rw [hc]
  simp

theorem plyToken_error_nonempty (s : LexerState) (text : List Char) (pos p : Nat) {ap : Bool}
    (h : plyToken s text pos ap = .error p) : text.drop p ≠ [] := by
  unfold plyToken at h
  simp only at h
  split at h
  · simp at h
  · rename_i c cs hd
    split at h
    · simp at h
    · simp at h
      subst h
      rw [← List.drop_drop, hd]
      simp
    · simp at h

theorem getLexerToken_ni (s : LexerState) (st : LexState) (hwf : WF st) :
    (∀ e, getLexerToken s st = .error e → NotInternal e) ∧
    (∀ r st1, getLexerToken s st = .ok (r, st1) → WF st1) := by
  unfold getLexerToken
  split
  · exact ⟨by simp, by intro r st1 h; simp at h; rw [← h.2]; exact hwf⟩
  · exact ⟨by intro e h; simp at h; subst h; intro k; simp, by simp⟩
  · rename_i p hp
    have hd := plyToken_error_nonempty _ _ _ _ hp
    split
    · exact ⟨by intro e h; simp at h; subst h; exact tError_ni _ _ hwf.2 hd, by simp⟩
    · exact ⟨by intro e h; simp at h; subst h; exact tRegexError_ni _ _ hwf.2, by simp⟩
  · rename_i ty start len _
    obtain ⟨c, hc⟩ := colnoAt_ok st hwf.2 start
    rw [hc]
    simp only
    refine ⟨by simp, ?_⟩
    intro r st1 h
    simp at h
    rw [← h.2]
    exact ⟨hwf.1, by simp [updateNewlineIdx, hwf.2]⟩

theorem setTokens_ni (st : LexState) (t : Option Token) (hwf : WF st) :
    ∃ st2, setTokens st t = .ok st2 ∧ WF st2 := by
  unfold setTokens
  obtain ⟨hs, hn⟩ := hwf
  cases hts : st.tokenStack with
  | nil => exact absurd hts hs
  | cons x below =>
    obtain ⟨m, inner⟩ := x
    exact ⟨_, rfl, by simp [WF, hn]⟩

theorem updateStack_ni (st : LexState) (cur : Token) (hwf : WF st) :
    (∀ e, updateStack st cur = .error e → NotInternal e) ∧
    (∀ st2, updateStack st cur = .ok st2 → WF st2) := by
  have hnl : ∀ st2, (∃ ts, st2 = { st with tokenStack := ts }) → st2.newlineIdx ≠ [] := by
    intro st2 ⟨ts, h⟩; rw [h]; exact hwf.2
  constructor
  · intro e h k
    unfold updateStack at h
    -- the first `if`
    have h1 : ∃ st1, (if cur.type = "LPAREN" then pushParen st cur else Except.ok st) = .ok st1 ∧
        st1.tokenStack ≠ [] := by
      split
      · unfold pushParen
        split
        · exact ⟨_, rfl, by simp⟩
        · cases hts : st.tokenStack with
          | nil => exact absurd hts hwf.1
          | cons x below => obtain ⟨m, inner⟩ := x; exact ⟨_, rfl, by simp⟩
      · exact ⟨st, rfl, hwf.1⟩
    obtain ⟨st1, he1, hs1⟩ := h1
    rw [he1] at h
    simp only at h
    have h2 : ∃ st2, (if cur.type = "RPAREN" then popParen st1 else Except.ok st1) = .ok st2 := by
      split
      · unfold popParen
        cases hts : st1.tokenStack with
        | nil => exact absurd hts hs1
        | cons x below =>
          obtain ⟨m, inner⟩ := x
          simp only
          split <;> exact ⟨_, rfl⟩
      · exact ⟨st1, rfl⟩
    obtain ⟨st2, he2⟩ := h2
    rw [he2] at h
    simp only at h
    split at h
    · simp at h; subst h; simp
    · simp at h
  · intro st2 h
    have hex := updateStack_spec _ _ _ h
    refine ⟨?_, hnl st2 hex⟩
    unfold updateStack at h
    split at h
    · simp at h
    · split at h
      · simp at h
      · split at h
        · simp at h
        · rename_i hne
          simp at h
          subst h
          intro h0
          apply hne
          simp [h0]

theorem getUpdateToken_ni (st : LexState) (hwf : WF st) :
    (∀ e, getUpdateToken st = .error e → NotInternal e) ∧
    (∀ r st1, getUpdateToken st = .ok (r, st1) → WF st1) := by
  unfold getUpdateToken
  obtain ⟨hge, hgo⟩ := getLexerToken_ni .initial st hwf
  split
  · rename_i e he
    exact ⟨by intro e' h; simp at h; subst h; exact hge _ he, by simp⟩
  · rename_i tok st1 hg
    have hwf1 := hgo _ _ hg
    obtain ⟨st2, hs2, hwf2⟩ := setTokens_ni st1 tok hwf1
    rw [hs2]
    simp only
    split
    · exact ⟨by simp, by intro r st' h; simp at h; rw [← h.2]; exact hwf2⟩
    · rename_i cur _
      obtain ⟨hue, huo⟩ := updateStack_ni st2 cur hwf2
      split
      · rename_i e he
        exact ⟨by intro e' h; simp at h; subst h; exact hue _ he, by simp⟩
      · rename_i st3 hu
        have hwf3 := huo _ hu
        split
        · refine ⟨by simp, ?_⟩
          intro r st' h
          simp [createSemiToken] at h
          rw [← h.2]
          exact hwf3
        · exact ⟨by simp, by intro r st' h; simp at h; rw [← h.2]; exact hwf3⟩

theorem divOrRegex_ni (st : LexState) (hwf : WF st) :
    (∀ e, divOrRegex st = .error e → NotInternal e) ∧
    (∀ r st1, divOrRegex st = .ok (r, st1) → WF st1) := by
  unfold divOrRegex
  have hdiv : ∃ b, isDivisionAllowed st = .ok b := by
    cases hts : st.tokenStack with
    | nil => exact absurd hts hwf.1
    | cons x below =>
      obtain ⟨m, inner⟩ := x
      unfold isDivisionAllowed
      simp only [hts]
      repeat' split
      all_goals exact ⟨_, rfl⟩
  obtain ⟨b, hb⟩ := hdiv
  rw [hb]
  cases b with
  | true => exact getUpdateToken_ni st hwf
  | false =>
    simp only
    obtain ⟨hge, hgo⟩ := getLexerToken_ni .regex st hwf
    unfold readRegex
    split
    · rename_i e he
      exact ⟨by intro e' h; simp at h; subst h; exact hge _ he, by simp⟩
    · rename_i tok st1 hg
      obtain ⟨st2, hs2, hwf2⟩ := setTokens_ni st1 tok (hgo _ _ hg)
      rw [hs2]
      exact ⟨by simp, by intro r st' h; simp at h; rw [← h.2]; exact hwf2⟩

theorem tokenLoop_ni : ∀ (fuel : Nat) (st : LexState), WF st →
    (∀ k, tokenLoop fuel st ≠ .error (.internal k)) ∧
    (∀ r st1, tokenLoop fuel st = .ok (r, st1) → WF st1) := by
  intro fuel
  induction fuel with
  | zero => intro st _; simp [tokenLoop]
  | succ fuel ih =>
    intro st hwf
    obtain ⟨hue, huo⟩ := getUpdateToken_ni st hwf
    unfold tokenLoop
    split
    · split
      · rename_i e he
        exact ⟨by intro k h; simp at h; subst h; exact hue _ he k rfl, by simp⟩
      · rename_i st1 hg
        exact ⟨by simp, by intro r st' h; simp at h; rw [← h.2]; exact huo _ _ hg⟩
      · rename_i t st1 hg
        split
        · exact ih st1 (huo _ _ hg)
        · exact ⟨by simp, by intro r st' h; simp at h; rw [← h.2]; exact huo _ _ hg⟩
    · split
      · split
        · rename_i e he
          exact ⟨by intro k h; simp at h; subst h; exact hue _ he k rfl, by simp⟩
        · rename_i st1 hg
          exact ⟨by simp, by intro r st' h; simp at h; rw [← h.2]; exact huo _ _ hg⟩
        · rename_i t st1 hg
          have hwf1 := huo _ _ hg
          split
          · split
            · split
              · exact ⟨by simp, by intro r st' h; simp at h; rw [← h.2]; exact hwf1⟩
              · split
                · exact ih _ ⟨hwf1.1, hwf1.2⟩
                · exact ih st1 hwf1
            · exact ih st1 hwf1
          · exact ⟨by simp, by intro r st' h; simp at h; rw [← h.2]; exact hwf1⟩
      · obtain ⟨hde, hdo⟩ := divOrRegex_ni st hwf
        exact ⟨fun k h => hde _ h k rfl, hdo⟩

theorem token_ni (st : LexState) (hwf : WF st) :
    (∀ k, token st ≠ .error (.internal k)) ∧ (∀ r st1, token st = .ok (r, st1) → WF st1) := by
  have h' : (∀ k, token' st ≠ .error (.internal k)) ∧ (∀ r st1, token' st = .ok (r, st1) → WF st1) := by
    unfold token'
    split
    · exact ⟨by simp, by intro r st1 h; simp at h; rw [← h.2]; exact hwf⟩
    · exact tokenLoop_ni _ st hwf
  unfold token
  split
  · rename_i e he
    exact ⟨by intro k h; simp at h; subst h; exact h'.1 k he, by simp⟩
  · rename_i st1 ht
    exact ⟨by simp, by intro r st' h; simp at h; rw [← h.2]; exact h'.2 _ _ ht⟩
  · rename_i t st1 ht
    have := h'.2 _ _ ht
    split
    · exact ⟨by simp, by intro r st' h; simp at h; rw [← h.2]; exact this⟩
    · exact ⟨by simp, by intro r st' h; simp at h; rw [← h.2]; exact this⟩

theorem autoSemi_wf (st : LexState) (tok : Option Token) (hwf : WF st) : WF (autoSemi st tok).2 := by
  unfold autoSemi
  split
  · simpa [createSemiToken, WF] using hwf
  · split
    · simpa [createSemiToken, WF] using hwf
    · exact hwf

theorem backtrackedToken_ni (st : LexState) (pos : Nat) (hwf : WF st) :
    (∀ k, backtrackedToken st pos ≠ .error (.internal k)) ∧
    (∀ r st1, backtrackedToken st pos = .ok (r, st1) → WF st1) := by
  unfold backtrackedToken
  split
  · exact ⟨by simp, by simp⟩
  · have hwf1 : WF { st with lexpos := st.lexpos - pos, nextTokens := [] } := hwf
    obtain ⟨h1, h2⟩ := token_ni _ hwf1
    generalize hres : token { st with lexpos := st.lexpos - pos, nextTokens := [] } = res at h1 h2
    cases res with
    | error e =>
      refine ⟨?_, ?_⟩
      · intro k h; simp only [hres] at h; simp at h; subst h; exact h1 k rfl
      · intro r st' h; simp only [hres] at h; simp at h
    | ok p =>
      obtain ⟨tok, st2⟩ := p
      refine ⟨?_, ?_⟩
      · intro k h; simp only [hres] at h; simp at h
      · intro r st' h
        simp only [hres] at h
        simp at h
        rw [← h.2]
        have := h2 tok st2 rfl
        exact ⟨this.1, this.2⟩

theorem lexAll_ni : ∀ (fuel : Nat) (st : LexState) (acc : List Token), WF st →
    ∀ k, (lexAll fuel st acc).2 ≠ some (.internal k) := by
  intro fuel
  induction fuel with
  | zero => intro st acc _ k; simp [lexAll]
  | succ fuel ih =>
    intro st acc hwf k
    obtain ⟨h1, h2⟩ := token_ni st hwf
    unfold lexAll
    split
    · rename_i e he
      simp
      intro h; subst h; exact h1 k he
    · simp
    · rename_i t st1 ht
      exact ih st1 _ (h2 _ _ ht) k

end CalmVerif.Proofs.LexerNoInternal
