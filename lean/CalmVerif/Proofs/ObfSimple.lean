/-
For SIMPLE programs (no catch clause, no label, no named function expression): the walk facts (Proofs/ObfFacts.lean) and the
proved invariants of every scope record (`ChainGood`) imply the site conditions `condVal` of the renaming simulation.
Part 1: what the facts give at a single site, and the hoisting conditions.
-/
import CalmVerif.Proofs.ObfChainGood
import CalmVerif.Proofs.ObfBindSim4
namespace CalmVerif.Obf
open CalmVerif CalmVerif.Unparse
open CalmVerif.Spec.Scope (BKind Binder Layer Ctx Occ Role identName isFunctionKind isVarDeclKind
  lookupEnv lookupLabel roleOf enter isPresent hoistVal paramNames)

local notation "sLookup" => Spec.Scope.lookupAttr

theorem resolveTables_entries : ∀ (C : List Anc) (n : String), resolveTables (entriesOf C) n = resolveChain C n
  | [], _ => rfl
  | A :: C, n => by
    have he : (entriesOf C).isEmpty = C.isEmpty := by cases C <;> rfl
    simp only [entriesOf, List.map_cons, resolveTables, resolveChain]
    rw [show List.map (fun a => (a.kind.isFunc, a.remapped)) C = entriesOf C from rfl, he,
      resolveTables_entries C n]

theorem al_ne_nil {τ : Tau} {E : List Layer} {C : List Anc} (h : Al τ E C) : C ≠ [] := by
  cases h <;> simp

theorem al_head {τ : Tau} {E : List Layer} {C : List Anc} (h : Al τ E C) :
    ∀ {A : Anc} {C' : List Anc}, C = A :: C' → A.kind = .func ∧ ChainGood (A :: C') := by
  cases h with
  | root names A0 hk _ _ hg => intro A C' he; cases he; exact ⟨hk, hg⟩
  | func p names E0 A0 C0 hk _ _ hg _ _ => intro A C' he; cases he; exact ⟨hk, hg⟩

section
variable (fin : Final)

/-- the Spec context `ctx` and the scope `mc` a site is registered in belong together -/
structure Inv (ctx : Ctx) (mc : MCtx) : Prop where
  al : Al (tauFin fin) ctx.env mc.chain
  head : ∃ L E', ctx.env = L :: E' ∧ L.kind = ctx.varKind ∧ L.scope = ctx.varScope
  chains : lookupChain fin.chains mc.sid = some (entriesOf mc.chain)

variable {fin}

theorem rho_at {ctx : Ctx} {mc : MCtx} (hi : Inv fin ctx mc) {q : Path}
    (hq : lookupPath fin.identifiers q = some mc.sid) (n : String) :
    rhoFin fin q n = resolveChain mc.chain n := by
  simp only [rhoFin, hq, hi.chains, resolveTables_entries]

/-- a reference site satisfies the reference condition of the simulation -/
theorem refSite_refCond {ctx : Ctx} {mc : MCtx} (hi : Inv fin ctx mc) {q : Path} {n : String}
    (h : refSite fin mc q n = true) : refCond (tauFin fin) ctx.env n (rhoFin fin q n) = true := by
  simp only [refSite, Bool.and_eq_true, beq_iff_eq] at h
  rw [rho_at hi h.1]
  have hk : n ∈ ckeys (effRefs mc.chain) := by simpa using h.2
  simpa [refCond] using lookup_link (tauFin fin) hi.al n hk

/-- the innermost record renames its declared names -/
theorem al_head_decl {τ : Tau} : ∀ {E : List Layer} {C : List Anc}, Al τ E C → ∀ {L : Layer} {E' : List Layer},
    E = L :: E' → ∀ {n : String}, n ∈ headDecl C → resolveChain C n = tauN τ L.kind L.scope n := by
  intro E C h
  cases h with
  | root names A hk hnames htau hg =>
    intro L E' he n _
    cases he
    rw [resolveChain_single, htau n]
  | func p names E0 A C0 hk hnames htau hg hC hal =>
    intro L E' he n hn
    cases he
    rw [decl_link_func hk hg hC (by simpa [headDecl] using hn), htau n]

/-- a declaration site is renamed by the variable environment of its context -/
theorem declSite_eq {ctx : Ctx} {mc : MCtx} (hi : Inv fin ctx mc) {q : Path} {n : String}
    (h : declSite fin mc q n = true) : rhoFin fin q n = tauN (tauFin fin) ctx.varKind ctx.varScope n := by
  simp only [declSite, Bool.and_eq_true, beq_iff_eq] at h
  obtain ⟨L, E', he, hk, hs⟩ := hi.head
  rw [rho_at hi h.1, al_head_decl hi.al he (by simpa using h.2), hk, hs]

theorem declSite_refKey {ctx : Ctx} {mc : MCtx} (hi : Inv fin ctx mc) {q : Path} {n : String}
    (h : declSite fin mc q n = true) : n ∈ ckeys (effRefs mc.chain) := by
  simp only [declSite, Bool.and_eq_true] at h
  have hn : n ∈ headDecl mc.chain := by simpa using h.2
  have hal := hi.al
  cases hc : mc.chain with
  | nil => rw [hc] at hn; simp [headDecl] at hn
  | cons A C =>
    rw [hc] at hn
    obtain ⟨hk, hg⟩ := al_head hal hc
    simp only [effRefs, hk]
    exact hg.declRefs A (by simp) n (by simpa [headDecl] using hn)

theorem declSites_declCond {ctx : Ctx} {mc : MCtx} (hi : Inv fin ctx mc) (p : SPath) (a : String) (v : Val)
    (h : declSites fin mc p a v = true) :
    declCond (tauFin fin) (rhoFin fin) ctx.varKind ctx.varScope p a v = true := by
  simp only [declSites, declCond, List.all_eq_true] at h ⊢
  intro q hq
  simpa using declSite_eq hi (h q hq)

theorem identSiteFacts_cond {ctx : Ctx} {mc : MCtx} (hi : Inv fin ctx mc) (path : Path) (as : List (String × Val))
    (h : identSiteFacts fin mc path as = true) :
    identSiteCond (tauFin fin) (rhoFin fin) ctx.varKind ctx.varScope path as = true := by
  unfold identSiteFacts at h
  unfold identSiteCond
  cases hv : sLookup as "identifier" with
  | none => rfl
  | some v =>
    simp only [hv] at h ⊢
    cases hn : identName v with
    | none => rfl
    | some n =>
      simp only [hn] at h ⊢
      simpa using declSite_eq hi h

/-! ### hoisting -/

mutual
  theorem hoistFacts_cond {ctx : Ctx} {mc : MCtx} (hi : Inv fin ctx mc) : ∀ (path : Path) (v : Val),
      hoistFacts fin mc path v = true →
      hoistCond (tauFin fin) (rhoFin fin) ctx.varKind ctx.varScope path v = true
    | _, .none, _ => rfl
    | _, .bool _, _ => rfl
    | _, .int _, _ => rfl
    | _, .str _, _ => rfl
    | path, .list xs, h => by
      simp only [hoistFacts] at h
      simp only [hoistCond]
      exact hoistFactsList_cond hi path "" 0 xs h
    | path, .node k as, h => by
      simp only [hoistFacts] at h
      simp only [hoistCond]
      by_cases hf : (k == "FuncDecl") = true
      · simp only [hf, if_true] at h ⊢
        exact identSiteFacts_cond hi path as h
      · simp only [hf, Bool.false_eq_true, if_false] at h ⊢
        by_cases hfk : isFunctionKind k = true
        · simp [hfk]
        · simp only [hfk, Bool.false_eq_true, if_false, Bool.and_eq_true] at h ⊢
          refine ⟨?_, hoistFactsAttrs_cond hi path as h.2⟩
          by_cases hvd : isVarDeclKind k = true
          · simp only [hvd, if_true] at h ⊢
            exact identSiteFacts_cond hi path as h.1
          · simp [hvd]
  theorem hoistFactsList_cond {ctx : Ctx} {mc : MCtx} (hi : Inv fin ctx mc) : ∀ (path : Path) (a : String) (i : Nat)
      (xs : List Val), hoistFactsList fin mc path a i xs = true →
      hoistCondList (tauFin fin) (rhoFin fin) ctx.varKind ctx.varScope path a i xs = true
    | _, _, _, [], _ => rfl
    | path, a, i, v :: rest, h => by
      simp only [hoistFactsList, Bool.and_eq_true] at h
      simp only [hoistCondList, Bool.and_eq_true]
      exact ⟨hoistFacts_cond hi _ v h.1, hoistFactsList_cond hi path a (i + 1) rest h.2⟩
  theorem hoistFactsAttrs_cond {ctx : Ctx} {mc : MCtx} (hi : Inv fin ctx mc) : ∀ (path : Path)
      (as : List (String × Val)), hoistFactsAttrs fin mc path as = true →
      hoistCondAttrs (tauFin fin) (rhoFin fin) ctx.varKind ctx.varScope path as = true
    | _, [], _ => rfl
    | path, (a, .list xs) :: rest, h => by
      rw [hoistFactsAttrs.eq_2, Bool.and_eq_true] at h
      rw [hoistCondAttrs.eq_2, Bool.and_eq_true]
      refine ⟨?_, hoistFactsAttrs_cond hi path rest h.2⟩
      by_cases hm : Val.isMeta a = true
      · simp [hm]
      · simp only [hm, Bool.false_eq_true, if_false] at h ⊢
        exact hoistFactsList_cond hi path a 0 xs h.1
    | path, (a, .none) :: rest, h => by
      rw [hoistFactsAttrs.eq_3 _ _ _ _ _ _ (fun _ hx => by cases hx), Bool.and_eq_true] at h
      rw [hoistCondAttrs.eq_3 _ _ _ _ _ _ _ _ (fun _ hx => by cases hx), Bool.and_eq_true]
      exact ⟨by simp [hoistCond], hoistFactsAttrs_cond hi path rest h.2⟩
    | path, (a, .bool b) :: rest, h => by
      rw [hoistFactsAttrs.eq_3 _ _ _ _ _ _ (fun _ hx => by cases hx), Bool.and_eq_true] at h
      rw [hoistCondAttrs.eq_3 _ _ _ _ _ _ _ _ (fun _ hx => by cases hx), Bool.and_eq_true]
      exact ⟨by simp [hoistCond], hoistFactsAttrs_cond hi path rest h.2⟩
    | path, (a, .int n) :: rest, h => by
      rw [hoistFactsAttrs.eq_3 _ _ _ _ _ _ (fun _ hx => by cases hx), Bool.and_eq_true] at h
      rw [hoistCondAttrs.eq_3 _ _ _ _ _ _ _ _ (fun _ hx => by cases hx), Bool.and_eq_true]
      exact ⟨by simp [hoistCond], hoistFactsAttrs_cond hi path rest h.2⟩
    | path, (a, .str t) :: rest, h => by
      rw [hoistFactsAttrs.eq_3 _ _ _ _ _ _ (fun _ hx => by cases hx), Bool.and_eq_true] at h
      rw [hoistCondAttrs.eq_3 _ _ _ _ _ _ _ _ (fun _ hx => by cases hx), Bool.and_eq_true]
      exact ⟨by simp [hoistCond], hoistFactsAttrs_cond hi path rest h.2⟩
    | path, (a, .node k2 as2) :: rest, h => by
      rw [hoistFactsAttrs.eq_3 _ _ _ _ _ _ (fun _ hx => by cases hx), Bool.and_eq_true] at h
      rw [hoistCondAttrs.eq_3 _ _ _ _ _ _ _ _ (fun _ hx => by cases hx), Bool.and_eq_true]
      refine ⟨?_, hoistFactsAttrs_cond hi path rest h.2⟩
      by_cases hm : Val.isMeta a = true
      · simp [hm]
      · simp only [hm, Bool.false_eq_true, if_false] at h ⊢
        exact hoistFacts_cond hi _ (.node k2 as2) h.1
end

theorem hoistFactsAttr_cond {ctx : Ctx} {mc : MCtx} (hi : Inv fin ctx mc) (path : Path) (a : String) (ov : Option Val)
    (h : hoistFactsAttr fin mc path a ov = true) :
    hoistCondAttr (tauFin fin) (rhoFin fin) ctx.varKind ctx.varScope path a ov = true := by
  cases ov with
  | none => rfl
  | some v =>
    cases v with
    | list xs => exact hoistFactsList_cond hi path a 0 xs (by simpa [hoistFactsAttr] using h)
    | none => simp [hoistCondAttr, hoistCond]
    | bool b => simp [hoistCondAttr, hoistCond]
    | int n => simp [hoistCondAttr, hoistCond]
    | str t => simp [hoistCondAttr, hoistCond]
    | node k as => exact hoistFacts_cond hi _ (.node k as) (by simpa [hoistFactsAttr] using h)

end
end CalmVerif.Obf
