/-
For every program (function, catch, function-expression-name and label records): the walk facts (Proofs/ObfFacts.lean) and the
proved invariants of every scope record (`ChainGood`) imply the site conditions `condVal` of the renaming simulation.
Part 1: what the facts give at a single site, entering a catch clause, and the hoisting conditions.
-/
import CalmVerif.Proofs.ObfChainGood
import CalmVerif.Proofs.ObfBindSim4
namespace CalmVerif.Obf
open CalmVerif CalmVerif.Unparse
open CalmVerif.Spec.Scope (BKind Binder Layer Ctx Occ Role identName isFunctionKind isVarDeclKind
  lookupEnv lookupLabel roleOf enter isPresent hoistVal paramNames)

local notation "sLookup" => Spec.Scope.lookupAttr

theorem resolveTables_entries : ∀ (C : List Anc) (n : String), resolveTables (entriesOf C) n = resolveChain C n
  | [], _ => rfl
  | A :: C, n => by
    have he : (entriesOf C).isEmpty = C.isEmpty := by cases C <;> rfl
    simp only [entriesOf, List.map_cons, resolveTables, resolveChain]
    rw [show List.map (fun a => (a.kind.isFunc, a.remapped)) C = entriesOf C from rfl, he,
      resolveTables_entries C n]

theorem al_ne_nil {τ : Tau} {E : List Layer} {C : List Anc} (h : Al τ E C) : C ≠ [] := by
  induction h with
  | root => simp
  | func => simp
  | «catch» => simp
  | self _ _ _ _ _ _ _ ih => exact ih

section
variable (fin : Final)

/-- a label in scope: it is renamed by what `resolve` answers in the scope its Identifier is registered in -/
def LabelOK (x : String × SPath × List Anc) : Prop :=
  (∀ m, tauN (tauFin fin) .label x.2.1 m = resolveChain x.2.2 m) ∧ x.1 ∈ ckeys (effRefs x.2.2) ∧ ChainGood x.2.2

/-- the Spec context `ctx` and the scope `mc` a site is registered in belong together -/
structure Inv (ctx : Ctx) (mc : MCtx) : Prop where
  al : Al (tauFin fin) ctx.env mc.chain
  var : varLayer ctx.env = some (ctx.varKind, ctx.varScope)
  chains : lookupChain fin.chains mc.sid = some (entriesOf mc.chain)
  env : mc.env = ctx.env
  labels : mc.labels.map (fun x => (x.1, x.2.1)) = ctx.labels
  lblOK : ∀ x ∈ mc.labels, LabelOK fin x

variable {fin}

theorem rho_at {ctx : Ctx} {mc : MCtx} (hi : Inv fin ctx mc) {q : Path}
    (hq : lookupPath fin.identifiers q = some mc.sid) (n : String) :
    rhoFin fin q n = resolveChain mc.chain n := by
  simp only [rhoFin, hq, hi.chains, resolveTables_entries]

/-- a reference site satisfies the reference condition of the simulation -/
theorem refSite_refCond {ctx : Ctx} {mc : MCtx} (hi : Inv fin ctx mc) {q : Path} {n : String}
    (h : refSite fin mc q n = true) : refCond (tauFin fin) ctx.env n (rhoFin fin q n) = true := by
  simp only [refSite, Bool.and_eq_true, beq_iff_eq] at h
  rw [rho_at hi h.1.1]
  have hk : n ∈ ckeys (effRefs mc.chain) := by simpa using h.1.2
  have hx : noExtra ctx.env mc.chain n = true := by rw [← hi.env]; exact h.2
  simpa [refCond] using lookup_link (tauFin fin) hi.al n hk hx

/-- a declaration site is renamed by the variable environment of its context -/
theorem declSite_eq {ctx : Ctx} {mc : MCtx} (hi : Inv fin ctx mc) {q : Path} {n : String}
    (h : declSite fin mc q n = true) : rhoFin fin q n = tauN (tauFin fin) ctx.varKind ctx.varScope n := by
  simp only [declSite, Bool.and_eq_true, beq_iff_eq] at h
  rw [rho_at hi h.1]
  exact (decl_link hi.al hi.var h.2).1

theorem declSite_refKey {ctx : Ctx} {mc : MCtx} (hi : Inv fin ctx mc) {q : Path} {n : String}
    (h : declSite fin mc q n = true) : n ∈ ckeys (effRefs mc.chain) := by
  simp only [declSite, Bool.and_eq_true] at h
  exact (decl_link hi.al hi.var h.2).2

theorem declSites_declCond {ctx : Ctx} {mc : MCtx} (hi : Inv fin ctx mc) (p : SPath) (a : String) (v : Val)
    (h : declSites fin mc p a v = true) :
    declCond (tauFin fin) (rhoFin fin) ctx.varKind ctx.varScope p a v = true := by
  simp only [declSites, declCond, List.all_eq_true] at h ⊢
  intro q hq
  simpa using declSite_eq hi (h q hq)

theorem identSiteFacts_cond {ctx : Ctx} {mc : MCtx} (hi : Inv fin ctx mc) (path : Path) (as : List (String × Val))
    (h : identSiteFacts fin mc path as = true) :
    identSiteCond (tauFin fin) (rhoFin fin) ctx.varKind ctx.varScope path as = true := by
  unfold identSiteFacts at h
  unfold identSiteCond
  cases hv : sLookup as "identifier" with
  | none => rfl
  | some v =>
    simp only [hv] at h ⊢
    cases hn : identName v with
    | none => rfl
    | some n =>
      simp only [hn] at h ⊢
      simpa using declSite_eq hi h

theorem al_catch_inv {τ : Tau} {p : SPath} {c : String} {E' : List Layer} {C' : List Anc}
    (h : Al τ ({ kind := .catch, scope := p, names := [c] } :: E') C') :
    ∃ K C u, C' = K :: C ∧ K.kind = .catch c u ∧ (∀ n, tauN τ .catch p n = applyTable K.remapped n) ∧
      ChainGood (K :: C) ∧ C ≠ [] ∧ Al τ E' C := by
  cases h with
  | «catch» _ _ u _ K C hk htau hg hC hal => exact ⟨K, C, u, rfl, hk, htau, hg, hC, hal⟩

theorem al_func_inv {τ : Tau} {p : SPath} {names : List String} {E' : List Layer} {C' : List Anc}
    (h : Al τ ({ kind := .var, scope := p, names := names } :: E') C') :
    ∃ A C, C' = A :: C ∧ A.kind = .func ∧ (∀ x, x ∈ names → x ∈ A.decl) ∧
      (∀ n, tauN τ .var p n = applyTable A.remapped n) ∧ ChainGood (A :: C) ∧ C ≠ [] ∧ Al τ E' C := by
  cases h with
  | func _ _ _ A C hk hnames htau hg hC hal => exact ⟨A, C, rfl, hk, hnames, htau, hg, hC, hal⟩

/-- the parameter of a catch clause is renamed by the catch record -/
theorem catchSite_eq {ctx : Ctx} {mc : MCtx} (hi : Inv fin ctx mc) {p : SPath} {c : String} {E' : List Layer}
    (he : ctx.env = { kind := .catch, scope := p, names := [c] } :: E') {q : Path} {n : String}
    (h : catchSite fin mc q n = true) : rhoFin fin q n = tauN (tauFin fin) .catch p n := by
  simp only [catchSite, Bool.and_eq_true, beq_iff_eq] at h
  rw [rho_at hi h.1]
  have hal := hi.al
  rw [he] at hal
  obtain ⟨K, C, u, hmc, hk, htau, hg, _, _⟩ := al_catch_inv hal
  rw [hmc] at h ⊢
  have h2 : c = n := by simpa [isCatchOf, hk] using h.2
  obtain ⟨v, _, _, hrv, hav⟩ := resolve_catch hk hg
  rw [← h2, hrv, htau, hav]

/-- stripping catch scopes that do not bind `n` changes neither what `resolve(n)` answers nor whether `n` is a key -/
theorem catchSuffix_resolve {τ : Tau} : ∀ {E : List Layer} {C : List Anc}, Al τ E C → ∀ (Cd : List Anc) (n : String),
    catchSuffix C Cd n = true →
    resolveChain C n = resolveChain Cd n ∧ (n ∈ ckeys (effRefs C) → n ∈ ckeys (effRefs Cd)) := by
  intro E C h
  induction h with
  | root names A hk _ _ _ =>
    intro Cd n hs
    simp only [catchSuffix, hk] at hs
    by_cases he : [A] = Cd
    · subst he; exact ⟨rfl, id⟩
    · simp [he] at hs
  | func p names E A C hk _ _ _ _ _ _ =>
    intro Cd n hs
    simp only [catchSuffix, hk] at hs
    by_cases he : A :: C = Cd
    · subst he; exact ⟨rfl, id⟩
    · simp [he] at hs
  | «catch» p c u E K C hk _ hg _ _ ih =>
    intro Cd n hs
    simp only [catchSuffix, hk] at hs
    by_cases he : K :: C = Cd
    · subst he; exact ⟨rfl, id⟩
    · simp only [he, if_false, Bool.and_eq_true, bne_iff_ne, ne_eq] at hs
      have hn : n ≠ c := fun h => hs.1 h.symm
      obtain ⟨h1, h2⟩ := ih Cd n hs.2
      refine ⟨by rw [resolve_through_catch hk hg hn, h1], fun hkey => h2 ?_⟩
      rcases (effRefs_catch_keys hk).1 hkey with h | h
      · exact absurd h hn
      · exact h
  | self p g E C _ _ _ ih => exact ih

/-- **the link for labels**: a labelled jump finds, among the renamed labels, the image of the label it targets -/
theorem labelRef_link {C : List Anc} {E : List Layer} (hal : Al (tauFin fin) E C) (n : String) (hkey : n ∈ ckeys (effRefs C)) :
    ∀ (L : List (String × SPath × List Anc)), (∀ x ∈ L, LabelOK fin x) → labelRefOK C L n = true →
    lookupLabel (mapLabels (tauFin fin) (L.map (fun x => (x.1, x.2.1)))) (resolveChain C n)
      = mapBinder (tauFin fin) (lookupLabel (L.map (fun x => (x.1, x.2.1))) n)
  | [], _, h => by
    have e : resolveChain C n = n := by simpa [labelRefOK] using h
    simp [mapLabels, lookupLabel, mapBinder, tauN, e]
  | (y, py, Cy) :: rest, hok, h => by
    simp only [labelRefOK, Bool.and_eq_true, Bool.or_eq_true, beq_iff_eq] at h
    obtain ⟨hres, hk2⟩ := catchSuffix_resolve hal Cy n h.1
    obtain ⟨htau, hykey, hg⟩ := hok (y, py, Cy) (List.mem_cons_self ..)
    simp only at htau hykey hg
    simp only [List.map_cons, mapLabels, lookupLabel]
    by_cases hyn : y = n
    · subst hyn
      simp [htau y, hres, mapBinder]
    · have hne : (tauN (tauFin fin) .label py y == resolveChain C n) = false := by
        apply Bool.eq_false_iff.2
        intro hcon
        have heq : resolveChain Cy y = resolveChain Cy n := by
          rw [← htau y, ← hres]; simpa using hcon
        exact hyn (hg.ok.inj y hykey n (hk2 hkey) heq)
      have hne2 : (y == n) = false := by simpa using hyn
      simp only [hne, hne2, Bool.false_eq_true, if_false]
      have hrest : labelRefOK C rest n = true := by
        rcases h.2 with h2 | h2
        · exact absurd h2 hyn
        · exact h2
      have := labelRef_link hal n hkey rest (fun x hx => hok x (List.mem_cons_of_mem _ hx)) hrest
      simpa [mapLabels] using this

/-- the record of a catch clause: the invariant for the environment extended by the catch record -/
theorem catchRec_inv (recs : List Rec) (hgood : ∀ R ∈ recs, ChainGood R.chain) {ctx : Ctx} {mc : MCtx}
    (hi : Inv fin ctx mc) (path : Path) (as : List (String × Val)) (mc' : MCtx)
    (h : catchRec fin recs mc path as = some mc') :
    ∃ c, identAttrOf' as = some c ∧
      Inv fin { ctx with env := { kind := .catch, scope := path.reverse, names := [c] } :: ctx.env } mc' ∧
      ∃ R K, recs.find? (fun r => r.node == some path) = some R ∧ R.chain = K :: mc.chain ∧
        mc' = { sid := R.id, chain := K :: mc.chain,
                env := { kind := .catch, scope := path.reverse, names := [c] } :: mc.env, labels := mc.labels } ∧
        (∃ u, K.kind = .catch c u) ∧
        identSiteCond (tauFin fin) (rhoFin fin) .catch path.reverse path as = true := by
  unfold catchRec at h
  cases hc : identAttrOf' as with
  | none => rw [hc] at h; cases h
  | some c =>
    rw [hc] at h
    simp only at h
    cases hR : recs.find? (fun r => r.node == some path) with
    | none => rw [hR] at h; cases h
    | some R =>
      rw [hR] at h
      simp only at h
      cases hRC : R.chain with
      | nil => rw [hRC] at h; cases h
      | cons K C =>
        rw [hRC] at h
        simp only at h
        by_cases hall : catchFacts fin mc path c R.id K C = true
        · rw [if_pos hall] at h
          simp only [Option.some.injEq] at h
          subst h
          simp only [catchFacts, Bool.and_eq_true] at hall
          obtain ⟨⟨⟨⟨hC0, hK0⟩, htab0⟩, hch0⟩, hid0⟩ := hall
          have hid : lookupPath fin.identifiers (("identifier", 0) :: path) = some R.id := of_decide_eq_true hid0
          have hC : C = mc.chain := of_decide_eq_true hC0
          have htab : ((tablesOfNode fin path.reverse).headD (true, [])).2 = K.remapped := of_decide_eq_true htab0
          have hch : lookupChain fin.chains R.id = some (entriesOf (K :: C)) := of_decide_eq_true hch0
          have hK : ∃ u, K.kind = .catch c u := by
            unfold isCatchOf at hK0
            cases hk : K.kind with
            | func => rw [hk] at hK0; cases hK0
            | «catch» sym u =>
              rw [hk] at hK0
              have : sym = c := by simpa using hK0
              exact ⟨u, by rw [this]⟩
          obtain ⟨u, hk⟩ := hK
          have hg : ChainGood (K :: C) := hRC ▸ hgood R (List.mem_of_find?_eq_some hR)
          subst hC
          have htau : ∀ n, tauN (tauFin fin) .catch path.reverse n = applyTable K.remapped n := by
            intro n
            have e : tauN (tauFin fin) .catch path.reverse n
                = applyTable ((tablesOfNode fin path.reverse).headD (true, [])).2 n := rfl
            rw [e, htab]
          refine ⟨c, rfl, ⟨?_, ?_, hch, by rw [hi.env], hi.labels, hi.lblOK⟩, R, K, rfl, hRC, rfl, ⟨u, hk⟩, ?_⟩
          rotate_left 2
          · unfold identSiteCond
            unfold identAttrOf' at hc
            cases hv : sLookup as "identifier" with
            | none => rfl
            | some v =>
              rw [hv] at hc
              simp only [Option.bind_some] at hc
              simp only [hc, beq_iff_eq]
              obtain ⟨w, _, _, hrv, hav⟩ := resolve_catch hk hg
              simp only [rhoFin, hid, hch, resolveTables_entries]
              rw [hrv, htau, hav]
          · exact .catch path.reverse c u ctx.env K mc.chain hk htau hg (al_ne_nil hi.al) hi.al
          · have hkc : (BKind.catch == BKind.catch || BKind.catch == BKind.self) = true := by decide
            simp only [varLayer, hkc, if_true]
            exact hi.var
        · rw [if_neg hall] at h; cases h

/-! ### hoisting -/

variable (recs : List Rec) (hgood : ∀ R ∈ recs, ChainGood R.chain)
include hgood

mutual
  theorem hoistFacts_cond : ∀ (ctx : Ctx) (mc : MCtx) (path : Path) (v : Val), Inv fin ctx mc →
      hoistFacts fin recs mc path v = true →
      hoistCond (tauFin fin) (rhoFin fin) ctx.varKind ctx.varScope path v = true
    | _, _, _, .none, _, _ => rfl
    | _, _, _, .bool _, _, _ => rfl
    | _, _, _, .int _, _, _ => rfl
    | _, _, _, .str _, _, _ => rfl
    | ctx, mc, path, .list xs, hi, h => by
      simp only [hoistFacts] at h
      simp only [hoistCond]
      exact hoistFactsList_cond ctx mc path "" 0 xs hi h
    | ctx, mc, path, .node k as, hi, h => by
      simp only [hoistFacts] at h
      simp only [hoistCond]
      by_cases hf : (k == "FuncDecl") = true
      · simp only [hf, if_true] at h ⊢
        exact identSiteFacts_cond hi path as h
      · simp only [hf, Bool.false_eq_true, if_false] at h ⊢
        by_cases hfk : isFunctionKind k = true
        · simp [hfk]
        · simp only [hfk, Bool.false_eq_true, if_false] at h ⊢
          by_cases hc : (k == "Catch") = true
          · simp only [hc, if_true] at h
            have hkc : k = "Catch" := by simpa using hc
            have hvd : isVarDeclKind k = false := by rw [hkc]; decide
            simp only [hvd, Bool.false_eq_true, if_false, Bool.true_and]
            cases hr : catchRec fin recs mc path as with
            | none => rw [hr] at h; cases h
            | some mc' =>
              rw [hr] at h
              simp only at h
              obtain ⟨c, _, hinv, _⟩ := catchRec_inv recs hgood hi path as mc' hr
              exact hoistFactsAttrs_cond { ctx with env := _ :: ctx.env } mc' path as hinv h
          · simp only [hc, Bool.false_eq_true, if_false, Bool.and_eq_true] at h ⊢
            refine ⟨?_, hoistFactsAttrs_cond ctx mc path as hi h.2⟩
            by_cases hvd : isVarDeclKind k = true
            · simp only [hvd, if_true] at h ⊢
              exact identSiteFacts_cond hi path as h.1
            · simp [hvd]
  theorem hoistFactsList_cond : ∀ (ctx : Ctx) (mc : MCtx) (path : Path) (a : String) (i : Nat)
      (xs : List Val), Inv fin ctx mc → hoistFactsList fin recs mc path a i xs = true →
      hoistCondList (tauFin fin) (rhoFin fin) ctx.varKind ctx.varScope path a i xs = true
    | _, _, _, _, _, [], _, _ => rfl
    | ctx, mc, path, a, i, v :: rest, hi, h => by
      simp only [hoistFactsList, Bool.and_eq_true] at h
      simp only [hoistCondList, Bool.and_eq_true]
      exact ⟨hoistFacts_cond ctx mc _ v hi h.1, hoistFactsList_cond ctx mc path a (i + 1) rest hi h.2⟩
  theorem hoistFactsAttrs_cond : ∀ (ctx : Ctx) (mc : MCtx) (path : Path)
      (as : List (String × Val)), Inv fin ctx mc → hoistFactsAttrs fin recs mc path as = true →
      hoistCondAttrs (tauFin fin) (rhoFin fin) ctx.varKind ctx.varScope path as = true
    | _, _, _, [], _, _ => rfl
    | ctx, mc, path, (a, .list xs) :: rest, hi, h => by
      rw [hoistFactsAttrs.eq_2, Bool.and_eq_true] at h
      rw [hoistCondAttrs.eq_2, Bool.and_eq_true]
      refine ⟨?_, hoistFactsAttrs_cond ctx mc path rest hi h.2⟩
      by_cases hm : Val.isMeta a = true
      · simp [hm]
      · simp only [hm, Bool.false_eq_true, if_false] at h ⊢
        exact hoistFactsList_cond ctx mc path a 0 xs hi h.1
    | ctx, mc, path, (a, .none) :: rest, hi, h => by
      rw [hoistFactsAttrs.eq_3 _ _ _ _ _ _ _ (fun _ hx => by cases hx), Bool.and_eq_true] at h
      rw [hoistCondAttrs.eq_3 _ _ _ _ _ _ _ _ (fun _ hx => by cases hx), Bool.and_eq_true]
      exact ⟨by simp [hoistCond], hoistFactsAttrs_cond ctx mc path rest hi h.2⟩
    | ctx, mc, path, (a, .bool b) :: rest, hi, h => by
      rw [hoistFactsAttrs.eq_3 _ _ _ _ _ _ _ (fun _ hx => by cases hx), Bool.and_eq_true] at h
      rw [hoistCondAttrs.eq_3 _ _ _ _ _ _ _ _ (fun _ hx => by cases hx), Bool.and_eq_true]
      exact ⟨by simp [hoistCond], hoistFactsAttrs_cond ctx mc path rest hi h.2⟩
    | ctx, mc, path, (a, .int n) :: rest, hi, h => by
      rw [hoistFactsAttrs.eq_3 _ _ _ _ _ _ _ (fun _ hx => by cases hx), Bool.and_eq_true] at h
      rw [hoistCondAttrs.eq_3 _ _ _ _ _ _ _ _ (fun _ hx => by cases hx), Bool.and_eq_true]
      exact ⟨by simp [hoistCond], hoistFactsAttrs_cond ctx mc path rest hi h.2⟩
    | ctx, mc, path, (a, .str t) :: rest, hi, h => by
      rw [hoistFactsAttrs.eq_3 _ _ _ _ _ _ _ (fun _ hx => by cases hx), Bool.and_eq_true] at h
      rw [hoistCondAttrs.eq_3 _ _ _ _ _ _ _ _ (fun _ hx => by cases hx), Bool.and_eq_true]
      exact ⟨by simp [hoistCond], hoistFactsAttrs_cond ctx mc path rest hi h.2⟩
    | ctx, mc, path, (a, .node k2 as2) :: rest, hi, h => by
      rw [hoistFactsAttrs.eq_3 _ _ _ _ _ _ _ (fun _ hx => by cases hx), Bool.and_eq_true] at h
      rw [hoistCondAttrs.eq_3 _ _ _ _ _ _ _ _ (fun _ hx => by cases hx), Bool.and_eq_true]
      refine ⟨?_, hoistFactsAttrs_cond ctx mc path rest hi h.2⟩
      by_cases hm : Val.isMeta a = true
      · simp [hm]
      · simp only [hm, Bool.false_eq_true, if_false] at h ⊢
        exact hoistFacts_cond ctx mc _ (.node k2 as2) hi h.1
end

theorem hoistFactsAttr_cond {ctx : Ctx} {mc : MCtx} (hi : Inv fin ctx mc) (path : Path) (a : String) (ov : Option Val)
    (h : hoistFactsAttr fin recs mc path a ov = true) :
    hoistCondAttr (tauFin fin) (rhoFin fin) ctx.varKind ctx.varScope path a ov = true := by
  cases ov with
  | none => rfl
  | some v =>
    cases v with
    | list xs => exact hoistFactsList_cond recs hgood ctx mc path a 0 xs hi (by simpa [hoistFactsAttr] using h)
    | none => simp [hoistCondAttr, hoistCond]
    | bool b => simp [hoistCondAttr, hoistCond]
    | int n => simp [hoistCondAttr, hoistCond]
    | str t => simp [hoistCondAttr, hoistCond]
    | node k as => exact hoistFacts_cond recs hgood ctx mc _ (.node k as) hi (by simpa [hoistFactsAttr] using h)

end
end CalmVerif.Obf
