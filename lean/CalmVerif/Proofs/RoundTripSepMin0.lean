import CalmVerif.Proofs.RoundTripSep
import CalmVerif.Proofs.RoundTripCertMin0
namespace CalmVerif.TokenAdj

set_option maxRecDepth 1000000 in
theorem sep_safe_min0_forced :
    withCtx Gen.Rules.rs_minify0 Gen.Defs.definitions 4
      (fun cx => forceRects (allNeedsF cx Gen.Defs.definitions) fun F => sepOKMin Gen.Rules.rs_minify0 F) = true := by
  decide +kernel

/-- D: every two token signatures that this rule set can print with exactly one layout marker between them are
separated by white space, or boundary-safe, or one of the known findings KF-02b, KF-02c, KF-02f (KF-01 and the two
artefacts of `directOK` included) -/
theorem sep_safe_min0 : sepOKMin Gen.Rules.rs_minify0 followMin0 = true := by
  have h := sep_safe_min0_forced
  rw [withCtx_eq, forceRects_eq, allNeedsF_eq] at h
  exact h

end CalmVerif.TokenAdj
