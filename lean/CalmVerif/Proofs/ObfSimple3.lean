/-
Simple programs, part 3: the induction over the tree and the program-level statement
`factsProgram ⇒ condProgram` (walk facts + proved invariants ⇒ the site conditions of the renaming simulation).
-/
import CalmVerif.Proofs.ObfSimple2
namespace CalmVerif.Obf
open CalmVerif CalmVerif.Unparse
open CalmVerif.Spec.Scope (BKind Binder Layer Ctx Occ Role identName isFunctionKind isVarDeclKind
  lookupEnv lookupLabel roleOf enter isPresent hoistVal paramNames)

local notation "sLookup" => Spec.Scope.lookupAttr

section
variable {fin : Final} (recs : List Rec) (hgood : ∀ R ∈ recs, ChainGood R.chain)
include hgood

omit hgood in
theorem inv_flag {ctx : Ctx} {mc : MCtx} (hi : Inv fin ctx mc) (b : Bool) : Inv fin { ctx with forInItem := b } mc :=
  ⟨hi.al, hi.var, hi.chains, hi.env, hi.labels, hi.lblOK⟩

/-- the step for an attribute holding a list -/
theorem cattrs_step_list {outer inner : Ctx} {omc imc : MCtx} (hio : Inv fin outer omc) (hii : Inv fin inner imc)
    (hof : outer.forInItem = false) (hif : inner.forInItem = false)
    (p : SPath) (kind : String) (hasInit forIn : Bool)
    (hin : InnerOK kind p inner)
    (a : String) (xs : List Val) (rest : List (String × Val))
    (h : factsAttrs fin recs omc imc p kind hasInit forIn ((a, .list xs) :: rest) = true)
    (ihList : ∀ (ctx : Ctx) (mc : MCtx), Inv fin ctx mc → factsList fin recs mc ctx.forInItem p a 0 xs = true →
      condList (tauFin fin) (rhoFin fin) ctx p a 0 xs = true)
    (ihRest : factsAttrs fin recs omc imc p kind hasInit forIn rest = true →
      condAttrs (tauFin fin) (rhoFin fin) outer inner p kind hasInit forIn rest = true) :
    condAttrs (tauFin fin) (rhoFin fin) outer inner p kind hasInit forIn ((a, .list xs) :: rest) = true := by
  rw [factsAttrs.eq_2, Bool.and_eq_true] at h
  rw [condAttrs_cons_list, Bool.and_eq_true]
  refine ⟨?_, ihRest h.2⟩
  refine roleCond_of_facts hio hii p a (.list xs) _ _ _ _ _ _ _ (fun hr => hin.1 (roleOf_params_func hr)) (fun hr => hin.2 (roleOf_catchParam hr)) h.1 ?_ ?_ ?_
  · intro hc; exact ihList outer omc hio (by rw [hof]; exact hc)
  · intro hc; exact ihList inner imc hii (by rw [hif]; exact hc)
  · intro hc; exact ihList outer omc hio (by rw [hof]; exact hc)

/-- the step for an attribute holding anything but a list -/
theorem cattrs_step_nonlist {outer inner : Ctx} {omc imc : MCtx} (hio : Inv fin outer omc) (hii : Inv fin inner imc)
    (hof : outer.forInItem = false) (hif : inner.forInItem = false)
    (p : SPath) (kind : String) (hasInit forIn : Bool)
    (hin : InnerOK kind p inner)
    (a : String) (v : Val) (hnl : NotList v) (rest : List (String × Val))
    (h : factsAttrs fin recs omc imc p kind hasInit forIn ((a, v) :: rest) = true)
    (ihVal : ∀ (ctx : Ctx) (mc : MCtx), Inv fin ctx mc → factsVal fin recs mc ctx.forInItem (p ++ [(a, 0)]) v = true →
      condVal (tauFin fin) (rhoFin fin) ctx (p ++ [(a, 0)]) v = true)
    (ihRest : factsAttrs fin recs omc imc p kind hasInit forIn rest = true →
      condAttrs (tauFin fin) (rhoFin fin) outer inner p kind hasInit forIn rest = true) :
    condAttrs (tauFin fin) (rhoFin fin) outer inner p kind hasInit forIn ((a, v) :: rest) = true := by
  rw [factsAttrs.eq_3 _ _ _ _ _ _ _ _ _ _ _ hnl, Bool.and_eq_true] at h
  rw [condAttrs_cons_nonlist _ _ _ _ _ _ _ _ _ _ hnl, Bool.and_eq_true]
  refine ⟨?_, ihRest h.2⟩
  refine roleCond_of_facts hio hii p a v _ _ _ _ _ _ _ (fun hr => hin.1 (roleOf_params_func hr)) (fun hr => hin.2 (roleOf_catchParam hr)) h.1 ?_ ?_ ?_
  · intro hc; exact ihVal { outer with forInItem := true } omc (inv_flag hio true) hc
  · intro hc; exact ihVal inner imc hii (by rw [hif]; exact hc)
  · intro hc; exact ihVal outer omc hio (by rw [hof]; exact hc)

mutual
  theorem condVal_of_facts : ∀ (ctx : Ctx) (mc : MCtx) (p : SPath) (v : Val), Inv fin ctx mc →
      factsVal fin recs mc ctx.forInItem p v = true → condVal (tauFin fin) (rhoFin fin) ctx p v = true
    | _, _, _, .none, _, _ => rfl
    | _, _, _, .bool _, _, _ => rfl
    | _, _, _, .int _, _, _ => rfl
    | _, _, _, .str _, _, _ => rfl
    | ctx, mc, p, .list xs, hi, h => by
      simp only [factsVal] at h
      simp only [condVal]
      exact condList_of_facts ctx mc p "" 0 xs hi h
    | ctx, mc, p, .node k as, hi, h => by
      simp only [factsVal] at h
      simp only [condVal]
      by_cases hid : (k == "Identifier") = true
      · simp only [hid, if_true] at h ⊢
        cases hn : identName (.node k as) with
        | none => rfl
        | some n =>
          simp only [hn] at h ⊢
          exact refSite_refCond hi h
      · simp only [hid, Bool.false_eq_true, if_false, Bool.and_eq_true] at h ⊢
        have h3 := h
        cases he : enterFacts fin recs mc p k as with
        | none => rw [he] at h3; cases h3
        | some inner =>
          rw [he] at h3
          simp only at h3
          have hi0 : Inv fin { ctx with forInItem := false } mc := inv_flag hi false
          obtain ⟨hec, hinv, hvar⟩ := enter_of_facts recs hgood hi0 p k as inner he
          refine ⟨hec, ?_⟩
          have hif : (enter { ctx with forInItem := false } p k as).forInItem = false := by
            rw [enter_unfold]
            split
            · rfl
            · split
              · split <;> rfl
              · split
                · split <;> rfl
                · rfl
          exact condAttrs_of_facts { ctx with forInItem := false } (enter { ctx with forInItem := false } p k as)
            mc inner p k _ ctx.forInItem hvar as hi0 hinv rfl hif h3
  theorem condList_of_facts : ∀ (ctx : Ctx) (mc : MCtx) (p : SPath) (a : String) (i : Nat) (xs : List Val),
      Inv fin ctx mc → factsList fin recs mc ctx.forInItem p a i xs = true →
      condList (tauFin fin) (rhoFin fin) ctx p a i xs = true
    | _, _, _, _, _, [], _, _ => rfl
    | ctx, mc, p, a, i, v :: rest, hi, h => by
      simp only [factsList, Bool.and_eq_true] at h
      simp only [condList, Bool.and_eq_true]
      exact ⟨condVal_of_facts ctx mc _ v hi h.1, condList_of_facts ctx mc p a (i + 1) rest hi h.2⟩
  theorem condAttrs_of_facts : ∀ (outer inner : Ctx) (omc imc : MCtx) (p : SPath) (kind : String)
      (hasInit forIn : Bool) (_ : InnerOK kind p inner)
      (as : List (String × Val)), Inv fin outer omc → Inv fin inner imc → outer.forInItem = false →
      inner.forInItem = false → factsAttrs fin recs omc imc p kind hasInit forIn as = true →
      condAttrs (tauFin fin) (rhoFin fin) outer inner p kind hasInit forIn as = true
    | _, _, _, _, _, _, _, _, _, [], _, _, _, _, _ => rfl
    | outer, inner, omc, imc, p, kind, hasInit, forIn, hin, (a, .list xs) :: rest, hio, hii, hof, hif, h =>
      cattrs_step_list recs hgood hio hii hof hif p kind hasInit forIn hin a xs rest h
        (fun ctx mc hi hc => condList_of_facts ctx mc p a 0 xs hi hc)
        (fun hc => condAttrs_of_facts outer inner omc imc p kind hasInit forIn hin rest hio hii hof hif hc)
    | outer, inner, omc, imc, p, kind, hasInit, forIn, hin, (a, .none) :: rest, hio, hii, hof, hif, h =>
      cattrs_step_nonlist recs hgood hio hii hof hif p kind hasInit forIn hin a .none (fun _ hx => by cases hx) rest h
        (fun ctx mc hi hc => condVal_of_facts ctx mc _ .none hi hc)
        (fun hc => condAttrs_of_facts outer inner omc imc p kind hasInit forIn hin rest hio hii hof hif hc)
    | outer, inner, omc, imc, p, kind, hasInit, forIn, hin, (a, .bool b) :: rest, hio, hii, hof, hif, h =>
      cattrs_step_nonlist recs hgood hio hii hof hif p kind hasInit forIn hin a (.bool b) (fun _ hx => by cases hx) rest h
        (fun ctx mc hi hc => condVal_of_facts ctx mc _ (.bool b) hi hc)
        (fun hc => condAttrs_of_facts outer inner omc imc p kind hasInit forIn hin rest hio hii hof hif hc)
    | outer, inner, omc, imc, p, kind, hasInit, forIn, hin, (a, .int n) :: rest, hio, hii, hof, hif, h =>
      cattrs_step_nonlist recs hgood hio hii hof hif p kind hasInit forIn hin a (.int n) (fun _ hx => by cases hx) rest h
        (fun ctx mc hi hc => condVal_of_facts ctx mc _ (.int n) hi hc)
        (fun hc => condAttrs_of_facts outer inner omc imc p kind hasInit forIn hin rest hio hii hof hif hc)
    | outer, inner, omc, imc, p, kind, hasInit, forIn, hin, (a, .str t) :: rest, hio, hii, hof, hif, h =>
      cattrs_step_nonlist recs hgood hio hii hof hif p kind hasInit forIn hin a (.str t) (fun _ hx => by cases hx) rest h
        (fun ctx mc hi hc => condVal_of_facts ctx mc _ (.str t) hi hc)
        (fun hc => condAttrs_of_facts outer inner omc imc p kind hasInit forIn hin rest hio hii hof hif hc)
    | outer, inner, omc, imc, p, kind, hasInit, forIn, hin, (a, .node k2 as2) :: rest, hio, hii, hof, hif, h =>
      cattrs_step_nonlist recs hgood hio hii hof hif p kind hasInit forIn hin a (.node k2 as2) (fun _ hx => by cases hx) rest h
        (fun ctx mc hi hc => condVal_of_facts ctx mc _ (.node k2 as2) hi hc)
        (fun hc => condAttrs_of_facts outer inner omc imc p kind hasInit forIn hin rest hio hii hof hif hc)
end

end
end CalmVerif.Obf
