/-
C10 helper lemmas, part 2: the Spec encoder (`digits32`, `sextets`) — the intended
recursion equations (fuel suffices), an induction principle, digit bounds.
-/
import CalmVerif.Spec.VlqV3

namespace CalmVerif.Proofs.Vlq
open CalmVerif.Spec.VlqV3

theorem digits32Aux_fuel : ∀ (f g n : Nat), n ≤ f → n ≤ g → digits32Aux f n = digits32Aux g n := by
  intro f
  induction f with
  | zero =>
    intro g n hf hg
    have : n = 0 := by omega
    subst this
    cases g <;> simp [digits32Aux]
  | succ f ih =>
    intro g n hf hg
    cases g with
    | zero =>
      have : n = 0 := by omega
      subst this
      simp [digits32Aux]
    | succ g =>
      simp only [digits32Aux]
      split
      · rfl
      · rw [ih g (n / 32) (by omega) (by omega)]

/-- the intended equation of `digits32` -/
theorem digits32_eq (n : Nat) : digits32 n = if n < 32 then [n] else n % 32 :: digits32 (n / 32) := by
  unfold digits32
  cases n with
  | zero => simp [digits32Aux]
  | succ m =>
    simp only [digits32Aux]
    split
    · rfl
    · rw [digits32Aux_fuel m ((m + 1) / 32) ((m + 1) / 32) (by omega) (by omega)]

theorem digits32_ne_nil (n : Nat) : digits32 n ≠ [] := by
  rw [digits32_eq]; split <;> simp

theorem sextets_small {n : Nat} (h : n < 32) : sextets n = [n] := by
  unfold sextets; rw [digits32_eq]; simp [h, withCont]

theorem sextets_big {n : Nat} (h : 32 ≤ n) : sextets n = (n % 32 + 32) :: sextets (n / 32) := by
  unfold sextets
  rw [digits32_eq n]
  have : ¬ n < 32 := by omega
  simp only [this, if_false]
  cases hd : digits32 (n / 32) with
  | nil => exact absurd hd (digits32_ne_nil _)
  | cons e ds => simp [withCont]

/-- induction along the digit recursion -/
theorem sextets_induct {P : Nat → Prop} (small : ∀ n, n < 32 → P n)
    (big : ∀ n, 32 ≤ n → P (n / 32) → P n) : ∀ n, P n := by
  intro n
  induction n using Nat.strongRecOn with
  | _ n ih =>
    by_cases h : n < 32
    · exact small n h
    · exact big n (by omega) (ih (n / 32) (by omega))

theorem sextets_lt (n : Nat) : ∀ d ∈ sextets n, d < 64 := by
  induction n using sextets_induct with
  | small n h => rw [sextets_small h]; intro d hd; simp at hd; omega
  | big n h ih =>
    rw [sextets_big h]
    intro d hd
    simp only [List.mem_cons] at hd
    rcases hd with rfl | hd
    · omega
    · exact ih d hd

theorem sextets_ne_nil (n : Nat) : sextets n ≠ [] := by
  by_cases h : n < 32
  · rw [sextets_small h]; simp
  · rw [sextets_big (by omega)]; simp

theorem encodeRaw_small {n : Nat} (h : n < 32) : encodeRaw n = [b64Char n] := by
  simp [encodeRaw, sextets_small h]

theorem encodeRaw_big {n : Nat} (h : 32 ≤ n) :
    encodeRaw n = b64Char (n % 32 + 32) :: encodeRaw (n / 32) := by
  simp [encodeRaw, sextets_big h]

theorem encodeRaw_ne_nil (n : Nat) : encodeRaw n ≠ [] := by
  simp [encodeRaw, sextets_ne_nil]

end CalmVerif.Proofs.Vlq
