/-
Termination of the LR driver loop (C12), part 3: counting loop iterations.

`Trace T S R c n k c'` : `n` iterations of ply's loop lead from `c` to `c'`, and `k` successful calls of the token
source (`R.next`, `R.onError`) were made on the way.  For tables passing `tablesValid` and `ranksOK`,

    Trace T S R (initConfig s) n k c'  →  n ≤ C.bound * (k + 1)                       (`steps_bounded`)

for every semantics and token source: an iteration is a shift (one per token obtained from the source), a successful
`onError` call, or a reduction; the reductions made so far are the internal nodes of the ghost derivation trees on the
stack (Proofs/NodePosGhost), which are bounded through the rank certificate (Proofs/LRTermTree) by the tokens shifted,
plus the empty-yield trees on the stack, whose number is bounded by the state ranks `r`.
-/
import CalmVerif.Proofs.LRTermTree
import CalmVerif.Proofs.LRTotal
namespace CalmVerif.Model.LR

variable {τ ν σ ε : Type}

/-! ### the stack potential -/

section stack
variable {T : Tables} {C : RankCert} {ty : τ → Nat}

/-- reductions recorded on the stack are bounded by the tokens recorded on the stack -/
theorem stack_nodes (h : ranksOK T C = true) : ∀ {st : List Nat} {vs : List (Tree τ)},
    StackOK T ty st vs → ∀ {s qs}, st = s :: qs →
    nodesList vs + C.Emax * rOf C s ≤
      (2 * C.K + C.Emax * C.Rmax) * (yieldList vs).length + C.Emax * C.Rmax := by
  intro st vs hst
  induction hst with
  | base =>
    intro s qs heq
    cases heq
    have := Nat.mul_le_mul_left C.Emax (rk_r_le h 0)
    simp only [nodesList, yieldList, List.length_nil, Nat.mul_zero]
    omega
  | @push q qs v vs s hprev he hv ih =>
    intro s' qs' heq
    cases heq
    have ih' := ih (s := q) (qs := qs) rfl
    obtain ⟨hgood, _⟩ := tree_good h v hv
    simp only [nodesList, yieldList, List.length_append, Nat.mul_add]
    by_cases hy : v.yield = []
    · obtain ⟨hnull, hnodes⟩ := hgood.1 hy
      have hr : rOf C s < rOf C q := by
        cases v with
        | leaf a => simp [Tree.yield] at hy
        | node p cs =>
          simp only [edge] at he
          obtain ⟨lhs, rhs, hp, hg⟩ := he
          simp only [Tree.sym, hp] at hnull
          exact rk_goto h hg (rk_listed h hnull)
      have h1 := rk_e_le h (v.sym T ty)
      have h2 : C.Emax * (rOf C s + 1) ≤ C.Emax * rOf C q := Nat.mul_le_mul_left _ hr
      rw [Nat.mul_add, Nat.mul_one] at h2
      simp only [hy, List.length_nil, Nat.mul_zero]
      omega
    · have hn := hgood.2 hy
      have hlen : 1 ≤ v.yield.length := by
        cases hv' : v.yield with
        | nil => exact absurd hv' hy
        | cons _ _ => simp
      have h1 : C.Emax * rOf C s ≤ C.Emax * C.Rmax := Nat.mul_le_mul_left _ (rk_r_le h s)
      have h2 : C.Emax * C.Rmax ≤ C.Emax * C.Rmax * v.yield.length := Nat.le_mul_of_pos_right _ hlen
      simp only [Nat.add_mul] at ih' ⊢
      omega

end stack

/-! ### counting iterations and source calls -/

/-- the number of successful calls of the token source made by the loop iteration at `c`, provided the iteration
    continues (`step T S R c = .inl _`; a failing call ends the run): `R.next` is called iff the state is not
    defaulted and no look-ahead is held; `R.onError` is called iff the table has no action for the look-ahead -/
def stepCalls (T : Tables) (S : Sem τ ν σ ε) (R : Source τ σ ε) (c : Config τ ν σ) : Nat :=
  match c.states with
  | [] => 0
  | st :: _ =>
    (if (defaultedOf T st).isNone && c.look.isNone then 1 else 0) +
    (match fetch T S R c st with
     | .ok (none, _) => 1
     | _ => 0)

/-- `Trace T S R c n k c'`: `n` loop iterations lead from `c` to `c'`, with `k` successful source calls -/
inductive Trace (T : Tables) (S : Sem τ ν σ ε) (R : Source τ σ ε) :
    Config τ ν σ → Nat → Nat → Config τ ν σ → Prop
  | refl (c) : Trace T S R c 0 0 c
  | step {c c' c'' n k} : Trace T S R c n k c' → step T S R c' = .inl c'' →
      Trace T S R c (n + 1) (k + stepCalls T S R c') c''

section count
variable {T : Tables} {cert : List (List Nat)} {acc : List Nat} {C : RankCert}
variable {S : Sem τ ν σ ε} {R : Source τ σ ε}

/-- 1 if a look-ahead (a token or `$end`) is held -/
def held (c : Config τ ν σ) : Nat := if c.look.isSome then 1 else 0

/-- the counting invariant: `n` = shifts + reductions + error repairs; every shift and every repair is paid by a
    source call -/
def CInv (T : Tables) (S : Sem τ ν σ ε) (c : Config τ ν σ) (n k : Nat) : Prop :=
  ∃ (trees : List (Tree τ)) (errs : Nat), StackOK T S.ty c.states trees ∧
    All2 (fun _ _ => True) c.vals trees ∧
    (yieldList trees).length = c.shifted.length ∧
    n = c.shifted.length + nodesList trees + errs ∧
    c.shifted.length + errs + held c ≤ k

theorem cinv_init (s : σ) : CInv T S (initConfig s : Config τ ν σ) 0 0 :=
  ⟨[], 0, StackOK.base, All2.nil, by simp [initConfig, yieldList], by simp [initConfig, nodesList],
    by simp [initConfig, held]⟩

/-- what `fetch` does to the look-ahead and to the call count -/
theorem fetch_calls {c c1 : Config τ ν σ} {st : Nat} {a : Option Act}
    (hf : fetch T S R c st = .ok (a, c1)) :
    held c1 ≤ held c + (if (defaultedOf T st).isNone && c.look.isNone then 1 else 0) ∧
    (a = none → c1.look.isSome = true) := by
  unfold fetch at hf
  split at hf
  · next p hp =>
    simp only [Except.ok.injEq, Prod.mk.injEq] at hf
    obtain ⟨rfl, rfl⟩ := hf
    simp
  · next hd =>
    split at hf
    · next x hl =>
      simp only [Except.ok.injEq, Prod.mk.injEq] at hf
      obtain ⟨rfl, rfl⟩ := hf
      simp [hl]
    · next hl =>
      split at hf
      · simp at hf
      · simp only [Except.ok.injEq, Prod.mk.injEq] at hf
        obtain ⟨rfl, rfl⟩ := hf
        simp [held, hd, hl]

theorem step_cinv (h : tablesValid T cert acc = true) {c c' : Config τ ν σ} {n k : Nat}
    (hinv : CInv T S c n k) (hs : step T S R c = .inl c') :
    CInv T S c' (n + 1) (k + stepCalls T S R c) := by
  obtain ⟨trees, errs, hstack, hrel, hyl, hn, hk⟩ := hinv
  unfold step at hs
  unfold stepCalls
  split at hs
  · simp at hs
  · next st below hst =>
    simp only [hst]
    split at hs
    · simp at hs
    · -- shift
      next s c1 hf =>
      obtain ⟨h1, h2, h3, hdisj⟩ := fetch_spec' hf
      obtain ⟨hh, _⟩ := fetch_calls hf
      simp only [hf]
      unfold doShift at hs
      split at hs
      · next t hlk =>
        simp only [Sum.inl.injEq] at hs
        subst hs
        have hact : actionOf T st (S.ty t) = some (.shift s) := by
          rcases hdisj with ⟨p, _, hp⟩ | hp
          · simp at hp
          · simpa [lookTermOf, hlk] using hp.symm
        have hheld : held c1 = 1 := by simp [held, hlk]
        refine ⟨.leaf t :: trees, errs, ?_, ?_, ?_, ?_, ?_⟩
        · simp only [h1, hst]
          rw [hst] at hstack
          exact StackOK.push hstack (by simpa [edge] using hact) (by simp [Tree.valid])
        · simp only [h2]
          exact All2.cons trivial hrel
        · simp [yieldList, Tree.yield, h3, hyl]
        · simp only [h3, List.length_cons, nodesList, Tree.nodes]; omega
        · simp only [h3, List.length_cons, held, Option.isSome_none]
          simp only [Bool.false_eq_true, if_false]
          omega
      · simp at hs
    · -- reduce
      next p c1 hf =>
      obtain ⟨h1, h2, h3, hdisj⟩ := fetch_spec' hf
      obtain ⟨hh, _⟩ := fetch_calls hf
      simp only [hf]
      have hrhs := reduce_rhs_ok' (c1 := c1) h hdisj rfl
      unfold doReduce at hs
      split at hs
      · simp at hs
      · next lhs rhs hp =>
        split at hs
        · next args restVals ps restStates hpv hps =>
          split at hs
          · simp at hs
          · next v hv =>
            split at hs
            · simp at hs
            · next top rest' =>
              split at hs
              · next g hg =>
                simp only [Sum.inl.injEq] at hs
                subst hs
                have hst1 : c1.states = st :: below := by rw [h1, hst]
                obtain ⟨targs, trest, hvs, hrest, hra, hrr, hsym, hvalid⟩ :=
                  ghost_args (S := S) (Rel := fun _ _ => True) h hst1 (by rw [h1]; exact hstack)
                    (by rw [h2]; exact hrel) hp hrhs hpv hps
                refine ⟨.node p targs.reverse :: trest, errs, ?_, ?_, ?_, ?_, ?_⟩
                · refine StackOK.push (q := top) hrest ⟨lhs, rhs, hp, hg⟩ ?_
                  simp only [Tree.valid]
                  exact ⟨⟨lhs, by rw [hsym]; exact hp⟩, hvalid⟩
                · exact All2.cons trivial hrr
                · simp only [h3, yieldList, Tree.yield, List.length_append, yieldList_length_reverse]
                  rw [← hyl, hvs, yieldList_append, List.length_append]
                · simp only [h3, nodesList, Tree.nodes, nodesList_reverse]
                  rw [hn, hvs, nodesList_append]
                  omega
                · simp only [h3]
                  change c.shifted.length + errs + held c1 ≤ _
                  omega
              · simp at hs
        · simp at hs
    · -- accept
      split at hs <;> simp at hs
    · -- error: only the look-ahead and the source change
      next c1 hf =>
      obtain ⟨h1, h2, h3, _⟩ := fetch_spec' hf
      obtain ⟨hh, hsome⟩ := fetch_calls hf
      have hheld : held c1 = 1 := by simp [held, hsome rfl]
      simp only [hf]
      unfold doError at hs
      cases hr : R.onError c1.src (lookTok c1) with
      | error e => simp [hr] at hs
      | ok res =>
        obtain ⟨t?, s'⟩ := res
        cases t? with
        | none => simp [hr] at hs
        | some t =>
          simp only [hr, Sum.inl.injEq] at hs
          subst hs
          refine ⟨trees, errs + 1, by simpa [h1] using hstack, by simpa [h2] using hrel,
            by simpa [h3] using hyl, ?_, ?_⟩
          · simp only [h3]; omega
          · simp only [h3, held, Option.isSome_some, if_true]
            omega

theorem trace_cinv (h : tablesValid T cert acc = true) {s : σ} {n k : Nat} {c' : Config τ ν σ}
    (ht : Trace T S R (initConfig s) n k c') : CInv T S c' n k := by
  generalize hc : (initConfig s : Config τ ν σ) = c0 at ht
  induction ht with
  | refl => subst hc; exact cinv_init s
  | step _ hs ih => exact step_cinv h ih hs

/-- **bounded reduction chains**: along any run from the initial configuration, the number of loop iterations is at
    most `C.bound` times (the number of successful source calls + 1) -/
theorem steps_bounded (h : tablesValid T cert acc = true) (hr : ranksOK T C = true) {s : σ} {n k : Nat}
    {c' : Config τ ν σ} (ht : Trace T S R (initConfig s) n k c') : n ≤ C.bound * (k + 1) := by
  obtain ⟨trees, errs, hstack, _, hyl, hn, hk⟩ := trace_cinv h ht
  obtain ⟨st, below, hst⟩ : ∃ st below, c'.states = st :: below := by
    cases hcs : c'.states with
    | nil => rw [hcs] at hstack; cases hstack
    | cons st below => exact ⟨st, below, rfl⟩
  have hb := stack_nodes hr hstack hst
  rw [hyl] at hb
  unfold RankCert.bound
  have h1 : (2 * C.K + C.Emax * C.Rmax + 1) * c'.shifted.length ≤ (2 * C.K + C.Emax * C.Rmax + 1) * k :=
    Nat.mul_le_mul_left _ (by omega)
  have h2 : (2 * C.K + C.Emax * C.Rmax + 1) * errs ≤ (2 * C.K + C.Emax * C.Rmax + 1) * k :=
    Nat.mul_le_mul_left _ (by omega)
  have h3 : (2 * C.K + C.Emax * C.Rmax + 1) * (c'.shifted.length + errs) ≤ (2 * C.K + C.Emax * C.Rmax + 1) * k :=
    Nat.mul_le_mul_left _ (by omega)
  have h4 : errs ≤ (2 * C.K + C.Emax * C.Rmax + 1) * errs := Nat.le_mul_of_pos_left _ (by omega)
  rw [Nat.mul_add] at h3
  rw [Nat.add_mul, Nat.one_mul] at h3
  rw [Nat.mul_add, Nat.mul_one]
  omega

/-! ### runs -/

theorem trace_head {c c1 c' : Config τ ν σ} {n k : Nat} (hs : step T S R c = .inl c1)
    (ht : Trace T S R c1 n k c') : Trace T S R c (n + 1) (stepCalls T S R c + k) c' := by
  induction ht with
  | refl =>
    have := Trace.step (Trace.refl c) hs
    simpa using this
  | @step c2 c3 n k _ hs' ih =>
    have := Trace.step ih hs'
    rw [show stepCalls T S R c + (k + stepCalls T S R c2) = stepCalls T S R c + k + stepCalls T S R c2 by omega]
    exact this

/-- `run` executes a trace; if it ends `outOfFuel` it has executed exactly `fuel` iterations -/
theorem run_trace : ∀ (fuel : Nat) (c c' : Config τ ν σ) (o : Outcome ν ε),
    run T S R fuel c = (o, c') →
    ∃ n k, Trace T S R c n k c' ∧ n ≤ fuel ∧ (o = .outOfFuel → n = fuel)
  | 0, c, c', o, hr => by
    simp only [run, Prod.mk.injEq] at hr
    obtain ⟨_, rfl⟩ := hr
    exact ⟨0, 0, Trace.refl c, Nat.le_refl _, fun _ => rfl⟩
  | fuel + 1, c, c', o, hr => by
    simp only [run] at hr
    split at hr
    · next c1 hs =>
      obtain ⟨n, k, ht, hle, ho⟩ := run_trace fuel c1 c' o hr
      exact ⟨n + 1, _, trace_head hs ht, by omega, fun h => by rw [ho h]⟩
    · next o' hs =>
      simp only [Prod.mk.injEq] at hr
      obtain ⟨rfl, rfl⟩ := hr
      refine ⟨0, 0, Trace.refl c, by omega, ?_⟩
      intro ho
      subst ho
      -- `step` never returns `outOfFuel`
      exfalso
      unfold step at hs
      split at hs
      · simp at hs
      · split at hs
        · simp at hs
        · unfold doShift at hs; split at hs <;> simp at hs
        · unfold doReduce at hs
          split at hs
          · simp at hs
          · split at hs
            · split at hs
              · simp at hs
              · split at hs
                · simp at hs
                · split at hs <;> simp at hs
            · simp at hs
        · split at hs <;> simp at hs
        · next c1 hf =>
          unfold doError at hs
          cases hr : R.onError c1.src (lookTok c1) with
          | error e => simp [hr] at hs
          | ok res =>
            obtain ⟨t?, s'⟩ := res
            cases t? <;> simp [hr] at hs

/-- the token source makes at most `N` successful calls in any run of the driver from the initial configuration -/
def SourceBound (T : Tables) (S : Sem τ ν σ ε) (R : Source τ σ ε) (s : σ) (N : Nat) : Prop :=
  ∀ (n k : Nat) (c' : Config τ ν σ), Trace T S R (initConfig s) n k c' → k ≤ N

/-- if the source makes at most `N` successful calls, fuel `C.bound * (N + 1) + 1` suffices -/
theorem fuel_suffices (h : tablesValid T cert acc = true) (hr : ranksOK T C = true) {s : σ} {N : Nat}
    (hN : SourceBound T S R s N) {fuel : Nat} (hfuel : C.bound * (N + 1) < fuel) :
    (run T S R fuel (initConfig s)).1 ≠ .outOfFuel := by
  intro ho
  obtain ⟨n, k, ht, _, hn⟩ := run_trace (T := T) (S := S) (R := R) fuel (initConfig s) _ _ (Prod.ext rfl rfl)
  have hn' := hn ho
  have hb := steps_bounded h hr ht
  have hk := hN n k _ ht
  have : C.bound * (k + 1) ≤ C.bound * (N + 1) := Nat.mul_le_mul_left _ (by omega)
  omega

end count
end CalmVerif.Model.LR
