/-
C13, table level: decidable facts about the probed semantic actions (Gen.Actions) and the unparser
definitions / rule sets (Gen.Defs, Gen.Rules) that the comment clauses rest on.  Evaluated by the kernel
on the regenerated tables in Props/C13.
-/
import CalmVerif.Model.Actions
import CalmVerif.Model.UnparseTypes

namespace CalmVerif.Proofs.Comments
open CalmVerif.Model.ActionDesc CalmVerif.Model.Actions CalmVerif.Unparse

/-! ### which slot a built node takes its comments from -/

mutual
  /-- (kind, setpos slot) of every node the descriptor builds (`set_comments` runs on that slot when it holds a LexToken) -/
  def anchorsD : D → List (String × Nat)
    | .node kind attrs pos _ _ _ =>
      (match setposIdx pos with
        | some j => [(kind, j)]
        | none => []) ++ anchorsAttrs attrs
    | .list items => anchorsItems items
    | _ => []
  def anchorsAttrs : List (String × D) → List (String × Nat)
    | [] => []
    | (_, d) :: rest => anchorsD d ++ anchorsAttrs rest
  def anchorsItems : List Item → List (String × Nat)
    | [] => []
    | .item d :: rest => anchorsD d ++ anchorsItems rest
    | _ :: rest => anchorsItems rest
end

def nodupNat : List Nat → Bool
  | [] => true
  | x :: xs => !xs.contains x && nodupNat xs

/-- all result descriptors of an entry (default row and exception rows) -/
def rowsOf (e : Entry) : List D := e.result :: e.exceptions.map (·.2)

/-- in every production, for every value shape, no two built nodes take their comments from the same slot -/
def noSlotTwice (tbl : List Entry) : Bool :=
  tbl.all fun e => (rowsOf e).all fun d => nodupNat ((anchorsD d).map (·.2))

mutual
  /-- the descriptor never reads a `comments` attribute of an argument -/
  def noCommentsReadD : D → Bool
    | .attrOf _ name => name != "@comments" && name != "comments"
    | .list items => noCommentsReadItems items
    | .node _ attrs _ _ _ _ => noCommentsReadAttrs attrs
    | _ => true
  def noCommentsReadAttrs : List (String × D) → Bool
    | [] => true
    | (n, d) :: rest => n != "@comments" && noCommentsReadD d && noCommentsReadAttrs rest
  def noCommentsReadItems : List Item → Bool
    | [] => true
    | .item d :: rest => noCommentsReadD d && noCommentsReadItems rest
    | _ :: rest => noCommentsReadItems rest
end

def noCommentsRead (tbl : List Entry) : Bool := tbl.all fun e => (rowsOf e).all noCommentsReadD

/-- node kinds that can carry comments: built with `setpos` on a slot that is a terminal of the production -/
def carrierKinds (numTerminals : Nat) (prods : List (Nat × List Nat)) (tbl : List Entry) : List String :=
  ((tbl.zip prods).map fun (e, pr) =>
    ((rowsOf e).map fun d => (anchorsD d).filterMap fun (k, j) =>
      match (if j = 0 then none else pr.2[j - 1]?) with
      | some sym => if sym < numTerminals then some k else none
      | none => none).flatten).flatten.eraseDups

/-! ### the unparser side -/

def isCommentsAttr : Rule → Bool
  | .commentsAttr (.name "comments") _ => true
  | _ => false

/-- the definition of the kind prints the node's comments first -/
def printsCommentsFirst (defs : Defs) (kind : String) : Bool :=
  match defs.find? (·.1 == kind) with
  | some (_, r :: _) => isCommentsAttr r
  | _ => false

def isCommentAttr : Rule → Bool
  | .attr .lineComment _ => true
  | .attr .blockComment _ => true
  | _ => false

mutual
  /-- in a rule list (and in every nested rule list) a LineComment / BlockComment token is immediately followed by the
      Newline marker -/
  def commentThenNewline : List Rule → Bool
    | [] => true
    | r :: rest =>
      (if isCommentAttr r then
        (match rest with
          | .layout .Newline :: _ => true
          | _ => false)
       else true) && nestedOK r && commentThenNewline rest
  def nestedOK : Rule → Bool
    | .joinAttr _ sep _ => commentThenNewline sep
    | .elisionJoinAttr _ sep _ => commentThenNewline sep
    | .optional _ body => commentThenNewline body
    | _ => true
end

def defsCommentThenNewline (defs : Defs) : Bool := defs.all fun d => commentThenNewline d.2

def hardNewline : HandlerId → Bool
  | .indNewline | .newlineSimple => true
  | _ => false

/-- the rule set prints comments (has handlers for the comment deferrables) -/
def printsComments (rs : RuleSet) : Bool :=
  rs.deferrable.any (fun p => p.1 == .lineComment) && rs.deferrable.any (fun p => p.1 == .blockComment)

/-- in a rule set that prints comments, the Newline marker alone is handled by a handler that unconditionally emits the
    line terminator, and every tuple key that mentions Newline starts with another marker (so it cannot begin at the
    Newline that directly follows a comment token) -/
def newlineIsHard (rs : RuleSet) : Bool :=
  (match rs.layout.find? (fun p => p.1 == LKey.single .Newline) with
    | some (_, some h) => hardNewline h
    | _ => false) &&
  rs.layout.all fun p =>
    match p.1 with
    | [.m _] => true
    | .lp :: .m first :: _ => first != .Newline || !(p.1.contains (.m .Newline))
    | _ => !(p.1.contains (.m .Newline))

def ruleSetsNewlineOK (rss : List RuleSet) : Bool :=
  rss.all fun rs => !printsComments rs || newlineIsHard rs

end CalmVerif.Proofs.Comments
