/-
C09 helper lemmas, part 9: `normalize_mapping_line` seen through the Spec decoder.
Every retained segment decodes to the same absolute entry; every dropped mapped segment is
recovered by `interp` (nearest preceding segment + column offset); 5-field segments are kept.
-/
import CalmVerif.Proofs.SourceMapRaw

namespace CalmVerif.Proofs.SourceMap
open CalmVerif.Model.SourceMap
open CalmVerif.Spec.SourceMapV3

/-! ### look-up lemmas -/

theorem findPreceding_snoc (c : Int) (l : List Entry) (e : Entry) :
    findPreceding c (l ++ [e]) = if e.genCol ≤ c then some e else findPreceding c l := by
  induction l with
  | nil => simp [findPreceding]
  | cons x xs ih =>
    simp only [List.cons_append, findPreceding, ih]
    by_cases h : e.genCol ≤ c
    · simp [h]
    · simp [h]

theorem interp_snoc_lt (l : List Entry) (e : Entry) (c : Int) (h : c < e.genCol) :
    interp (l ++ [e]) c = interp l c := by
  unfold interp
  rw [findPreceding_snoc]
  have : ¬ e.genCol ≤ c := by omega
  simp [this]

theorem interp_snoc_self (l : List Entry) (e : Entry) (s : Int × Int × Int) (h : e.src = some s) :
    interp (l ++ [e]) e.genCol = some s := by
  unfold interp
  rw [findPreceding_snoc]
  obtain ⟨a, b, k⟩ := s
  simp [h]

theorem interp_of_last (l : List Entry) (e0 : Entry) (c : Int) (hl : l.getLast? = some e0)
    (hc : e0.genCol ≤ c) (s ln k : Int) (hs : e0.src = some (s, ln, k)) :
    interp l c = some (s, ln, k + (c - e0.genCol)) := by
  obtain ⟨l', rfl⟩ : ∃ l', l = l' ++ [e0] := by
    rcases List.eq_nil_or_concat l with rfl | ⟨l', x, rfl⟩
    · simp at hl
    · simp at hl; subst hl; exact ⟨l', by simp⟩
  unfold interp
  rw [findPreceding_snoc]
  simp [hc, hs]

/-! ### relation between a decoded line and its normalised form -/

structure LineRel (ex er : List Entry) : Prop where
  sub : er.Sublist ex
  interp_ok : ∀ e ∈ ex, ∀ s, e.src = some s → interp er e.genCol = some s
  named : ∀ e ∈ ex, e.name.isSome → e ∈ er

theorem LineRel.nil : LineRel [] [] := ⟨List.Sublist.refl _, by simp, by simp⟩

/-- appending an entry that is kept -/
theorem LineRel.keep {ex er : List Entry} (h : LineRel ex er) (e : Entry)
    (hlt : ∀ x ∈ ex, x.genCol < e.genCol) : LineRel (ex ++ [e]) (er ++ [e]) := by
  refine ⟨List.Sublist.append h.sub (List.Sublist.refl _), ?_, ?_⟩
  · intro x hx s hs
    simp only [List.mem_append, List.mem_singleton] at hx
    rcases hx with hx | rfl
    · rw [interp_snoc_lt _ _ _ (hlt x hx)]; exact h.interp_ok x hx s hs
    · exact interp_snoc_self _ _ _ hs
  · intro x hx hn
    simp only [List.mem_append, List.mem_singleton] at hx ⊢
    rcases hx with hx | rfl
    · exact Or.inl (h.named x hx hn)
    · exact Or.inr rfl

/-- appending an entry that is dropped, given what `interp` says about it -/
theorem LineRel.drop {ex er : List Entry} (h : LineRel ex er) (e : Entry)
    (hi : ∀ s, e.src = some s → interp er e.genCol = some s) (hn : e.name = none) :
    LineRel (ex ++ [e]) er := by
  refine ⟨h.sub.trans (List.sublist_append_left _ _), ?_, ?_⟩
  · intro x hx s hs
    simp only [List.mem_append, List.mem_singleton] at hx
    rcases hx with hx | rfl
    · exact h.interp_ok x hx s hs
    · exact hi s hs
  · intro x hx hnm
    simp only [List.mem_append, List.mem_singleton] at hx
    rcases hx with hx | rfl
    · exact h.named x hx hnm
    · simp [hn] at hnm

/-! ### the loop invariant -/

structure LInv (s : NState) (tx : Totals) (gx : Int) (ex : List Entry)
    (tr : Totals) (gr : Int) (er : List Entry) : Prop where
  g_eq : gr + s.r0 = gx
  src_eq : tr.src = tx.src
  line_eq : tr.line = tx.line
  name_eq : tr.name = tx.name
  col_eq : tr.col + s.r3 = tx.col
  rel : LineRel ex er
  noregen : s.regen = false → lastNot1 s.result = true ∧
    ∃ e0, er.getLast? = some e0 ∧ e0.genCol = gr ∧ e0.src = some (tr.src, tr.line, tr.col)

theorem lastNot1_snoc (r : MLine) (seg : Seg) : lastNot1 (r ++ [seg]) = (seg.length != 1) := by
  simp [lastNot1]

/-- one iteration of the loop -/
theorem normStep_inv (tout : Totals) (s : NState) (tx : Totals) (gx : Int) (ex : List Entry)
    (tr : Totals) (gr : Int) (er : List Entry)
    (hdec : decodeLine tout 0 s.result = some (tr, gr, er))
    (hinv : LInv s tx gx ex tr gr er)
    (seg : Seg) (tx' : Totals) (gx' : Int) (e : Entry)
    (hseg : decodeSeg tx gx seg = some (tx', gx', e))
    (hlt : ∀ x ∈ ex, x.genCol < e.genCol) :
    ∃ s', normStep s seg = some s' ∧ ∃ tr' gr' er',
      decodeLine tout 0 s'.result = some (tr', gr', er') ∧ LInv s' tx' gx' (ex ++ [e]) tr' gr' er' := by
  obtain ⟨hg, hsrc, hline, hname, hcol, hrel, hnr⟩ := hinv
  match seg, hseg with
  | [a], hseg =>
    simp only [decodeSeg, Option.some.injEq, Prod.mk.injEq] at hseg
    obtain ⟨rfl, rfl, rfl⟩ := hseg
    simp only [normStep]
    by_cases hl : lastNot1 s.result = true
    · simp only [hl, if_true]
      refine ⟨_, rfl, tr, gr + (s.r0 + a), er ++ [⟨gr + (s.r0 + a), none, none⟩], ?_, ?_⟩
      · exact decodeLine_snoc _ _ _ _ hdec (by simp [decodeSeg])
      · have he : (⟨gr + (s.r0 + a), none, none⟩ : Entry) = ⟨gx + a, none, none⟩ := by
          congr 1; omega
        rw [he]
        refine ⟨by simp only; omega, hsrc, hline, hname, hcol, hrel.keep _ hlt, ?_⟩
        intro h; simp at h
    · simp only [hl, if_false, Bool.false_eq_true]
      refine ⟨_, rfl, tr, gr, er, hdec, ?_⟩
      refine ⟨by simp only; omega, hsrc, hline, hname, hcol, hrel.drop _ (by simp) rfl, ?_⟩
      intro h
      exact absurd (hnr h).1 hl
  | [a, b, c, d], hseg =>
    simp only [decodeSeg, Option.some.injEq, Prod.mk.injEq] at hseg
    obtain ⟨rfl, rfl, rfl⟩ := hseg
    have h01 : (([] : List Int).length == 1) = false := rfl
    simp only [normStep, h01, Bool.false_or]
    by_cases hk : (s.regen || b != 0 || c != 0 || s.r0 + a != s.r3 + d) = true
    · simp only [hk, if_true]
      refine ⟨_, rfl, { tr with src := tr.src + b, line := tr.line + c, col := tr.col + (s.r3 + d) },
        gr + (s.r0 + a), er ++ [⟨gr + (s.r0 + a),
          some (tr.src + b, tr.line + c, tr.col + (s.r3 + d)), none⟩], ?_, ?_⟩
      · exact decodeLine_snoc _ _ _ _ hdec (by simp [decodeSeg])
      · have he : (⟨gr + (s.r0 + a), some (tr.src + b, tr.line + c, tr.col + (s.r3 + d)), none⟩ : Entry) =
            ⟨gx + a, some (tx.src + b, tx.line + c, tx.col + d), none⟩ := by
          have h1 : gr + (s.r0 + a) = gx + a := by omega
          have h2 : tr.col + (s.r3 + d) = tx.col + d := by omega
          rw [h1, h2, hsrc, hline]
        rw [he]
        refine ⟨by simp only; omega, by simp only; omega, by simp only; omega, hname,
          by simp only; omega, hrel.keep _ hlt, ?_⟩
        intro _
        refine ⟨by simp [lastNot1_snoc], ⟨gx + a, some (tx.src + b, tx.line + c, tx.col + d), none⟩,
          by simp, by simp only; omega, ?_⟩
        simp only [Option.some.injEq, Prod.mk.injEq]
        refine ⟨by omega, by omega, by omega⟩
    · simp only [hk, if_false, Bool.false_eq_true]
      simp only [Bool.or_eq_true, bne_iff_ne, ne_eq, not_or, Bool.not_eq_true, Decidable.not_not] at hk
      obtain ⟨⟨⟨hreg, hb⟩, hc⟩, h03⟩ := hk
      subst hb; subst hc
      obtain ⟨hl1, e0, hlast, he0g, he0s⟩ := hnr hreg
      refine ⟨_, rfl, tr, gr, er, hdec, ?_⟩
      refine ⟨by simp only; omega, by simp only; omega, by simp only; omega, hname,
        by simp only; omega, ?_, ?_⟩
      · apply hrel.drop _ _ rfl
        intro sv hsv
        simp only [Option.some.injEq] at hsv
        subst hsv
        have hmem : e0 ∈ ex := hrel.sub.subset (List.mem_of_getLast? hlast)
        have hlt0 := hlt e0 hmem
        simp only at hlt0
        rw [interp_of_last er e0 _ hlast (by simp only; omega) _ _ _ he0s]
        simp only [Option.some.injEq, Prod.mk.injEq]
        refine ⟨by omega, by omega, by omega⟩
      · intro _
        exact ⟨hl1, e0, hlast, he0g, he0s⟩
  | [a, b, c, d, n], hseg =>
    simp only [decodeSeg, Option.some.injEq, Prod.mk.injEq] at hseg
    obtain ⟨rfl, rfl, rfl⟩ := hseg
    have h11 : (([n] : List Int).length == 1) = true := rfl
    simp only [normStep, h11, Bool.true_or, if_true]
    refine ⟨_, rfl, ⟨tr.src + b, tr.line + c, tr.col + (s.r3 + d), tr.name + n⟩,
      gr + (s.r0 + a), er ++ [⟨gr + (s.r0 + a),
        some (tr.src + b, tr.line + c, tr.col + (s.r3 + d)), some (tr.name + n)⟩], ?_, ?_⟩
    · exact decodeLine_snoc _ _ _ _ hdec (by simp [decodeSeg])
    · have he : (⟨gr + (s.r0 + a), some (tr.src + b, tr.line + c, tr.col + (s.r3 + d)),
            some (tr.name + n)⟩ : Entry) =
          ⟨gx + a, some (tx.src + b, tx.line + c, tx.col + d), some (tx.name + n)⟩ := by
        have h1 : gr + (s.r0 + a) = gx + a := by omega
        have h2 : tr.col + (s.r3 + d) = tx.col + d := by omega
        rw [h1, h2, hsrc, hline, hname]
      rw [he]
      refine ⟨by simp only; omega, by simp only; omega, by simp only; omega, by simp only; omega,
        by simp only; omega, hrel.keep _ hlt, ?_⟩
      intro h; simp at h

end CalmVerif.Proofs.SourceMap
