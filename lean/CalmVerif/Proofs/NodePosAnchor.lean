/-
Parts 2 and 3 of the C11 composition: what the checked table facts (`actionsOK`, `extraOK`) mean for the nodes a
semantic action builds when its arguments are tracked values of a valid instance of the production.

For a call `Model.Actions.reduce table wc lc p args lexerPos = .ok pv` with `All2 Track args trees`, where `trees` are
valid derivation trees spelling the right-hand side of `p` (this is what `reduceCall_ghost` provides at every
call made by the LR driver), `reduce_nodes_ok` says: for EVERY node descriptor `x` occurring in the selected row
(the nodes built by the action are exactly the values of these descriptors, `sub_ok_D`), the node is
`.node x.kind (attributes ++ comments ++ [("@pos", p), ("@tokmap", tmv)])` with
  * `AnchorOK … x p`  — `p` is the position of a token of the node's own yield (first token; operator token; first
                        token of the slot a nested wrapper starts at), or the for(;;) placeholder, or the clone of
                        PropIdentifier, or the empty program; positions are self-consistent (`IsPos`): the column
                        is the one the lexer's line table gives for (lineno, lexpos);
  * `TokmapOK … x tmv` — every recorded position of every token-map entry is the position of a token of the yield
                        whose text is the entry's text (`EntryOK`).
-/
import CalmVerif.Proofs.NodePosTrack
namespace CalmVerif.Proofs.NodePos
open CalmVerif CalmVerif.Model.Actions CalmVerif.Model.ActionDesc CalmVerif.Model.ActionFacts CalmVerif.Model.LR

variable {τ : Type}

/-- `p` is the position of token `t`: its offset, its line, and the column the line table gives for them -/
def AtTok (lc : Nat → Nat → Option Int) (t : Tok) (p : Val) : Prop := IsPos lc t.lexpos t.lineno 0 p

/-- where the `@pos` of a node built from descriptor `x` lies -/
inductive AnchorOK (tokOf : τ → Tok) (lc : Nat → Nat → Option Int) (args : List PVal) (trees : List (Tree τ))
    (x : NodeD) (p : Val) : Prop
  /-- the first token of the production's yield -/
  | first (t : τ) (rest : List τ) : x.top = true → ¬ x.kind ∈ operatorForms → yieldList trees = t :: rest →
      AtTok lc (tokOf t) p → AnchorOK tokOf lc args trees x p
  /-- the root node of a program whose first symbol derived the empty string (exempt) -/
  | emptyProgram : x.top = true → x.kind = "ES5Program" → (∀ tr, trees.head? = some tr → tr.yield = []) →
      AnchorOK tokOf lc args trees x p
  /-- the operator token (the single token of slot 2) -/
  | operator (a op : Tree τ) (rest : List (Tree τ)) (t : τ) : x.top = true → x.kind ∈ operatorForms →
      trees = a :: op :: rest → op.yield = [t] → AtTok lc (tokOf t) p → AnchorOK tokOf lc args trees x p
  /-- PropIdentifier: the position (and token map) of the node in slot `j` are copied -/
  | clone (j : Nat) (pv : PVal) : x.kind = "PropIdentifier" → x.pos = .ofNode j → j ≠ 0 → args[j - 1]? = some pv →
      p = (getAttr pv.v "@pos").getD posUnset → AnchorOK tokOf lc args trees x p
  /-- a wrapper built inside another value: the first token of slot `k`, the first slot it contains -/
  | nested (k : Nat) (tr : Tree τ) (t : τ) (rest : List τ) : x.top = false → k ≠ 0 → trees[k - 1]? = some tr →
      tr.yield = t :: rest → AtTok lc (tokOf t) p → (∀ s ∈ slotsOfAttrs x.attrs, k ≤ s) →
      AnchorOK tokOf lc args trees x p
  /-- the placeholder for an omitted for(;;) clause: one past the token in slot `k` (exempt) -/
  | placeholder (k : Nat) (t : τ) : x.top = false → x.kind = "EmptyStatement" → k ≠ 0 →
      trees[k - 1]? = some (.leaf t) → IsPos lc (tokOf t).lexpos (tokOf t).lineno 1 p →
      AnchorOK tokOf lc args trees x p

/-- what a position `q` recorded under `text` in the token map of a node of kind `kind` designates -/
inductive EntryOK (g : G) (ty : τ → Nat) (tokOf : τ → Tok) (lc : Nat → Nat → Option Int) (trees : List (Tree τ))
    (kind : String) (text : String) (q : Val) : Prop
  /-- the single token of slot `k`, whose text is `text` -/
  | slot (k : Nat) (tr : Tree τ) (t : τ) : k ≠ 0 → trees[k - 1]? = some tr → tr.yield = [t] →
      (tokOf t).value = text → AtTok lc (tokOf t) q → EntryOK g ty tokOf lc trees kind text q
  /-- the first token of slot `k`, of a terminal spelled `text` -/
  | const (k : Nat) (tr : Tree τ) (t : τ) (rest : List τ) : k ≠ 0 → trees[k - 1]? = some tr → tr.yield = t :: rest →
      g.termSpelling[ty t]? = some text → text ≠ "" → AtTok lc (tokOf t) q →
      EntryOK g ty tokOf lc trees kind text q
  /-- the comma run of an elision: recorded where its first comma is -/
  | commas (n : Nat) (t : τ) (rest : List τ) : kind = "Elision" → text = commas n → yieldList trees = t :: rest →
      g.termSpelling[ty t]? = some "," → AtTok lc (tokOf t) q → EntryOK g ty tokOf lc trees kind text q

def TokmapOK (g : G) (ty : τ → Nat) (tokOf : τ → Tok) (lc : Nat → Nat → Option Int) (args : List PVal)
    (trees : List (Tree τ)) (x : NodeD) (tmv : Val) : Prop :=
  match x.tokmapOf with
  | some j => ∃ pv, j ≠ 0 ∧ args[j - 1]? = some pv ∧ tmv = (getAttr pv.v "@tokmap").getD (.list [])
  | none => ∃ tm : TM, tmv = tokmapVal tm ∧ TmAll (EntryOK g ty tokOf lc trees x.kind) tm

/-! ### the checks, per node descriptor -/

def nodeCheck (g : G) (rhs : List Nat) (nn : List Nat) (x : NodeD) : Bool :=
  (if x.top then topAnchorOK g rhs x.kind x.pos x.tokmapOf else nestedAnchorOK g rhs nn x.kind x.pos x.attrs) &&
  x.tokSlots.all (tokSlotOK g rhs) && x.tokmap.all (tokEntryOK g rhs x.kind)

def spreadCheck (g : G) (rhs : List Nat) (pd : PosD) : Prop :=
  pd = .at 0 0 ∧ ∃ x xs, rhs = x :: xs ∧ g.symStartsWith "," x = true

mutual
  theorem check_sub_D (g : G) (rhs nn : List Nat) (top : Bool) : ∀ (d : D), checkD g rhs nn top d = true →
      (∀ x ∈ nodesOfD top d, nodeCheck g rhs nn x = true) ∧ (∀ pd ∈ spreadsOfD d, spreadCheck g rhs pd)
    | .node kind attrs pos ts tm tmo, h => by
      simp only [checkD, Bool.and_eq_true] at h
      have ih := check_sub_attrs g rhs nn attrs h.2
      refine ⟨?_, ?_⟩
      · intro x hx
        simp only [nodesOfD, List.mem_cons] at hx
        rcases hx with rfl | hx
        · simp only [nodeCheck, Bool.and_eq_true]
          exact ⟨⟨h.1.1.1, h.1.1.2⟩, h.1.2⟩
        · exact ih.1 x hx
      · intro pd hpd
        simp only [spreadsOfD] at hpd
        exact ih.2 pd hpd
    | .list items, h => by
      simp only [checkD] at h
      have ih := check_sub_items g rhs nn items h
      exact ⟨by simpa [nodesOfD] using ih.1, by simpa [spreadsOfD] using ih.2⟩
    | .slot _, _ => by simp [nodesOfD, spreadsOfD]
    | .none, _ => by simp [nodesOfD, spreadsOfD]
    | .str _, _ => by simp [nodesOfD, spreadsOfD]
    | .int _, _ => by simp [nodesOfD, spreadsOfD]
    | .attrOf _ _, _ => by simp [nodesOfD, spreadsOfD]
    | .raiseAt _ _, _ => by simp [nodesOfD, spreadsOfD]
  theorem check_sub_attrs (g : G) (rhs nn : List Nat) : ∀ (l : List (String × D)), checkAttrs g rhs nn l = true →
      (∀ x ∈ nodesOfAttrs l, nodeCheck g rhs nn x = true) ∧ (∀ pd ∈ spreadsOfAttrs l, spreadCheck g rhs pd)
    | [], _ => by simp [nodesOfAttrs, spreadsOfAttrs]
    | (n, d) :: rest, h => by
      simp only [checkAttrs, Bool.and_eq_true] at h
      have ih1 := check_sub_D g rhs nn false d h.1
      have ih2 := check_sub_attrs g rhs nn rest h.2
      refine ⟨?_, ?_⟩
      · intro y hy
        simp only [nodesOfAttrs, List.mem_append] at hy
        rcases hy with hy | hy
        · exact ih1.1 y hy
        · exact ih2.1 y hy
      · intro pd hpd
        simp only [spreadsOfAttrs, List.mem_append] at hpd
        rcases hpd with hpd | hpd
        · exact ih1.2 pd hpd
        · exact ih2.2 pd hpd
  theorem check_sub_items (g : G) (rhs nn : List Nat) : ∀ (l : List Item), checkItems g rhs nn l = true →
      (∀ x ∈ nodesOfItems l, nodeCheck g rhs nn x = true) ∧ (∀ pd ∈ spreadsOfItems l, spreadCheck g rhs pd)
    | [], _ => by simp [nodesOfItems, spreadsOfItems]
    | .item d :: rest, h => by
      simp only [checkItems, Bool.and_eq_true] at h
      have ih1 := check_sub_D g rhs nn false d h.1
      have ih2 := check_sub_items g rhs nn rest h.2
      refine ⟨?_, ?_⟩
      · intro y hy
        simp only [nodesOfItems, List.mem_append] at hy
        rcases hy with hy | hy
        · exact ih1.1 y hy
        · exact ih2.1 y hy
      · intro pd hpd
        simp only [spreadsOfItems, List.mem_append] at hpd
        rcases hpd with hpd | hpd
        · exact ih1.2 pd hpd
        · exact ih2.2 pd hpd
    | .spread j :: rest, h => by
      simp only [checkItems] at h
      have ih2 := check_sub_items g rhs nn rest h
      exact ⟨by simpa [nodesOfItems] using ih2.1, by simpa [spreadsOfItems] using ih2.2⟩
    | .spreadMod j li none :: rest, h => by
      simp only [checkItems, Bool.and_eq_true] at h
      have ih2 := check_sub_items g rhs nn rest h.2
      exact ⟨by simpa [nodesOfItems] using ih2.1, by simpa [spreadsOfItems] using ih2.2⟩
    | .spreadMod j li (some pd) :: rest, h => by
      simp only [checkItems, Bool.and_eq_true] at h
      have ih2 := check_sub_items g rhs nn rest h.2
      refine ⟨by simpa [nodesOfItems] using ih2.1, ?_⟩
      intro pd' hpd
      simp only [spreadsOfItems, List.mem_cons] at hpd
      rcases hpd with rfl | hpd
      · have h1 := h.1
        split at h1
        · next heq =>
          simp only [Option.some.injEq] at heq
          subst heq
          split at h1
          · next x xs => exact ⟨rfl, x, xs, rfl, h1⟩
          · simp at h1
        · simp at h1
        · next heq => simp at heq
      · exact ih2.2 pd' hpd
end

/-! ### the selected row -/

/-- slot `k` holds a node other than the root -/
def NodeSlot (args : List PVal) (k : Nat) : Prop :=
  ∃ pv kk as, args[k - 1]? = some pv ∧ pv.v = .node kk as ∧ kk ≠ "ES5Program"

theorem kindOf_node {v : Val} {kd : Kind} (h : kindOf v = kd) (hn : isNodeKind kd = true) :
    ∃ kk as, v = .node kk as ∧ kd = .node kk := by
  cases v with
  | node kk as => exact ⟨kk, as, rfl, by simpa [kindOf] using h.symm⟩
  | none => simp [kindOf] at h; subst h; simp [isNodeKind] at hn
  | bool b => simp [kindOf] at h; subst h; simp [isNodeKind] at hn
  | int n => simp [kindOf] at h; subst h; simp [isNodeKind] at hn
  | str s => simp [kindOf] at h; subst h; simp [isNodeKind] at hn
  | list xs => simp [kindOf] at h; subst h; simp [isNodeKind] at hn

theorem selectRow_check {g : G} {rhs : List Nat} {e : Entry} {tracked : List Nat} (args : List PVal)
    (hce : checkEntry g rhs e = true) (hxe : extraEntry g tracked rhs e = true) :
    ∃ nn, checkD g rhs nn true (selectRow e (args.map (fun a => kindOf a.v))) = true ∧
      ∀ k ∈ nn, NodeSlot args k := by
  simp only [checkEntry, Bool.and_eq_true] at hce
  simp only [extraEntry, Bool.and_eq_true] at hxe
  unfold selectRow
  split
  · next row hrow =>
    have hmem := List.mem_of_find?_eq_some hrow
    have hsel := List.find?_some hrow
    refine ⟨rowNonNone row.1, List.all_eq_true.mp hce.2 row hmem, ?_⟩
    intro k hk
    simp only [rowNonNone, List.mem_map, List.mem_filter] at hk
    obtain ⟨cond, ⟨hcm, hcn⟩, rfl⟩ := hk
    have hholds := List.all_eq_true.mp hsel cond hcm
    have hnoprog := List.all_eq_true.mp (List.all_eq_true.mp hxe.2 row hmem) cond hcm
    unfold condHolds at hholds
    split at hholds
    · next kd hkd =>
      simp only [Bool.and_eq_true, bne_iff_ne, ne_eq, List.contains_iff_mem] at hholds
      rw [List.getElem?_map, Option.map_eq_some_iff] at hkd
      obtain ⟨pv, hpv, hkind⟩ := hkd
      have hnk := List.all_eq_true.mp hcn kd hholds.2
      obtain ⟨kk, as, hv, rfl⟩ := kindOf_node hkind hnk
      refine ⟨pv, kk, as, hpv, hv, ?_⟩
      rintro rfl
      have hnp : ¬ Kind.node "ES5Program" ∈ cond.2 := by simpa using hnoprog
      exact hnp hholds.2
    · simp at hholds
  · exact ⟨[], hce.1, by simp⟩

/-! ### one node -/

section node
variable {g : G} {T : Tables} {ty : τ → Nat} {tokOf : τ → Tok} {tracked : List Nat}
variable {args : List PVal} {trees : List (Tree τ)} {lp : Nat × Nat} {lc : Nat → Nat → Option Int} {wc : Bool}
variable {lhs : Nat}
variable (hgt : GT g T) (h0 : prod0OK g = true) (hnnull : g.nonNullOK = true) (hty : ∀ t, ty t ≤ T.numTerminals)
variable (hall : All2 (Track g T tokOf tracked) args trees) (hv : validList T ty trees)
variable (hq : (lhs, symList T ty trees) ∈ g.prods)
include hgt h0 hty hall hv hq

/-- what is known about slot `k ≥ 1` -/
theorem slot_facts {k x : Nat} (hx : rhsAt (symList T ty trees) k = some x) :
    k ≠ 0 ∧ ∃ pv tr, args[k - 1]? = some pv ∧ trees[k - 1]? = some tr ∧ Track g T tokOf tracked pv tr ∧
      tr.valid T ty ∧ tr.sym T ty = x ∧ tr.sym T ty ∈ (lhs, symList T ty trees).2 := by
  unfold rhsAt at hx
  split at hx
  · simp at hx
  · next hk =>
    obtain ⟨pv, tr, hpv, htr, hrel, hval, hsym⟩ := slot_get_tree hall hv hx
    exact ⟨hk, pv, tr, hpv, htr, hrel, hval, hsym, by rw [hsym]; exact List.mem_of_getElem? hx⟩

theorem pos_at_slot {k delta : Nat} {p : Val} (hk : k ≠ 0)
    (h : evalPos (mkCtx args lp lc wc) (.at k delta) = .ok p) :
    ∃ pv, args[k - 1]? = some pv ∧ IsPos lc pv.lexpos pv.lineno delta p := by
  obtain ⟨pv, hpv, hpos⟩ := evalPos_at_slot hk h
  exact ⟨pv, hpv, hpos⟩

/-- a slot with a terminal or string-shaped symbol: its single token, its text, and a position taken there -/
theorem str_slot_pos {k x : Nat} {p : Val} (hx : rhsAt (symList T ty trees) k = some x)
    (hs : (g.isTerm x || g.strShaped.contains (x - g.nT)) = true)
    (h : evalPos (mkCtx args lp lc wc) (.at k 0) = .ok p) :
    k ≠ 0 ∧ ∃ pv tr t, args[k - 1]? = some pv ∧ trees[k - 1]? = some tr ∧ tr.yield = [t] ∧
      pv.v = .str (tokOf t).value ∧ AtTok lc (tokOf t) p := by
  obtain ⟨hk, pv, tr, hpv, htr, hrel, hval, hsym, hmem⟩ := slot_facts hgt h0 hty hall hv hq hx
  obtain ⟨t, hy, hvt, hlp, hln⟩ := slot_str hgt h0 hty hq hrel hval hmem (by rw [hsym]; exact hs)
  obtain ⟨pv', hpv', hpos⟩ := pos_at_slot hgt h0 hty hall hv hq (lp := lp) (lc := lc) (wc := wc) hk h
  rw [hpv] at hpv'
  simp only [Option.some.injEq] at hpv'
  subst hpv'
  refine ⟨hk, pv, tr, t, hpv, htr, hy, hvt, ?_⟩
  simpa [AtTok, hlp, hln] using hpos

/-- a slot with a tracked symbol and a non-empty yield: a position taken there is the first token's -/
theorem first_slot_pos {k x : Nat} {p : Val} (hx : rhsAt (symList T ty trees) k = some x)
    (hs : symTracked g tracked x = true) {tr : Tree τ} (htr : trees[k - 1]? = some tr) {t : τ} {rest : List τ}
    (hy : tr.yield = t :: rest) (h : evalPos (mkCtx args lp lc wc) (.at k 0) = .ok p) :
    AtTok lc (tokOf t) p := by
  obtain ⟨hk, pv, tr', hpv, htr', hrel, hval, hsym, hmem⟩ := slot_facts hgt h0 hty hall hv hq hx
  rw [htr] at htr'
  simp only [Option.some.injEq] at htr'
  subst htr'
  obtain ⟨hlp, hln⟩ := slot_first hgt h0 hty hq hrel hval hmem (by rw [hsym]; exact hs) hy
  obtain ⟨pv', hpv', hpos⟩ := pos_at_slot hgt h0 hty hall hv hq (lp := lp) (lc := lc) (wc := wc) hk h
  rw [hpv] at hpv'
  simp only [Option.some.injEq] at hpv'
  subst hpv'
  simpa [AtTok, hlp, hln] using hpos

/-- the yield of the production starts where the yield of its first symbol starts -/
theorem head_yield {tr : Tree τ} (htr : trees[0]? = some tr) {t : τ} {rest : List τ} (hy : tr.yield = t :: rest) :
    ∃ rest', yieldList trees = t :: rest' := by
  cases trees with
  | nil => simp at htr
  | cons c cs =>
    simp only [List.getElem?_cons_zero, Option.some.injEq] at htr
    subst htr
    exact ⟨rest ++ yieldList cs, by simp [yieldList, hy]⟩

/-- a position taken at the result symbol (slot 0) or at slot 1, when the first symbol starts with a token of a
    terminal spelled `s` -/
theorem first_sym_pos {x : Nat} {xs : List Nat} {s : String} {j : Nat} {p : Val}
    (hrhs : symList T ty trees = x :: xs) (hs : g.symStartsWith s x = true)
    (htrk : slotTracked g tracked (symList T ty trees) j = true) (hj : j = 0 ∨ j = 1)
    (h : evalPos (mkCtx args lp lc wc) (.at j 0) = .ok p) :
    ∃ t rest, yieldList trees = t :: rest ∧ (g.termSpelling[ty t]? = some s ∧ s ≠ "") ∧
      AtTok lc (tokOf t) p := by
  have hx1 : rhsAt (symList T ty trees) 1 = some x := by simp [rhsAt, hrhs]
  obtain ⟨_, pv, tr, hpv, htr, hrel, hval, hsym, hmem⟩ := slot_facts hgt h0 hty hall hv hq hx1
  obtain ⟨t, rest, hy, hsp⟩ := symStartsWith_yield hgt h0 hty tr hval ⟨_, hq, hmem⟩ (by rw [hsym]; exact hs)
  obtain ⟨rest', hyl⟩ := head_yield hgt h0 hty hall hv hq (by simpa using htr) hy
  have htrk1 : symTracked g tracked x = true := by
    rcases hj with rfl | rfl <;> simpa [slotTracked, hx1] using htrk
  refine ⟨t, rest', hyl, hsp, ?_⟩
  rcases hj with rfl | rfl
  · -- slot 0: the position of the result symbol is that of slot 1
    have hpos := evalPos_at_zero h
    obtain ⟨hlp, hln⟩ := slot_first hgt h0 hty hq hrel hval hmem (by rw [hsym]; exact htrk1) hy
    cases args with
    | nil => simp at hpv
    | cons a as =>
      simp only [Nat.sub_self, List.getElem?_cons_zero, Option.some.injEq] at hpv
      subst hpv
      simpa [AtTok, mkCtx, pos0Of, hlp, hln] using hpos
  · exact first_slot_pos hgt h0 hty hall hv hq hx1 htrk1 htr hy h

include hnnull in
/-- the anchor of one node -/
theorem anchor_ok {nn : List Nat} (hnn : ∀ k ∈ nn, NodeSlot args k) (x : NodeD)
    (hchk : (if x.top then topAnchorOK g (symList T ty trees) x.kind x.pos x.tokmapOf
             else nestedAnchorOK g (symList T ty trees) nn x.kind x.pos x.attrs) = true)
    (htrk : posTracked g tracked (symList T ty trees) x.pos = true) {p : Val}
    (hp : evalPos (mkCtx args lp lc wc) x.pos = .ok p) : AnchorOK tokOf lc args trees x p := by
  cases htop : x.top with
  | true =>
    simp only [htop, if_true] at hchk
    unfold topAnchorOK at hchk
    split at hchk
    · next j hpos =>
      -- `.at j 0`
      rw [hpos] at hp htrk
      simp only [posTracked] at htrk
      split at hchk
      · next hop =>
        -- operator form: slot 2
        simp only [Bool.and_eq_true, beq_iff_eq] at hchk
        obtain ⟨rfl, hrhs⟩ := hchk
        split at hrhs
        · next a b rest heq =>
          simp only [Bool.and_eq_true] at hrhs
          have hx2 : rhsAt (symList T ty trees) 2 = some b := by simp [rhsAt, heq]
          obtain ⟨_, pv, tr, t, hpv, htr, hy, _, hat⟩ :=
            str_slot_pos hgt h0 hty hall hv hq (lp := lp) (lc := lc) (wc := wc) hx2 hrhs.2 hp
          match trees, htr with
          | a' :: op :: rest', htr =>
            simp only [Nat.add_one_sub_one, List.getElem?_cons_succ, List.getElem?_cons_zero,
              Option.some.injEq] at htr
            subst htr
            exact AnchorOK.operator a' op rest' t htop (by simpa using hop) rfl hy hat
          | [_], htr => simp at htr
          | [], htr => simp at htr
        · simp at hrhs
      · next hop =>
        -- slot 1
        simp only [Bool.and_eq_true, beq_iff_eq] at hchk
        obtain ⟨rfl, hrhs⟩ := hchk
        split at hrhs
        · next a rest heq =>
          have hx1 : rhsAt (symList T ty trees) 1 = some a := by simp [rhsAt, heq]
          obtain ⟨_, pv, tr, hpv, htr, hrel, hval, hsym, hmem⟩ := slot_facts hgt h0 hty hall hv hq hx1
          have htrk1 : symTracked g tracked a = true := by simpa [slotTracked, hx1] using htrk
          cases hy : tr.yield with
          | nil =>
            -- only possible for the root of an empty program
            simp only [Bool.or_eq_true, beq_iff_eq] at hrhs
            rcases hrhs with hs | hk
            · exact absurd hy (solid_yield_ne hgt h0 hnnull hty tr hval ⟨_, hq, hmem⟩ (by rw [hsym]; exact hs))
            · refine AnchorOK.emptyProgram htop hk ?_
              intro tr' htr'
              rw [List.head?_eq_getElem?] at htr'
              simp only [Nat.sub_self] at htr
              rw [htr] at htr'
              simp only [Option.some.injEq] at htr'
              rw [← htr']; exact hy
          | cons t rest' =>
            obtain ⟨rest'', hyl⟩ := head_yield hgt h0 hty hall hv hq (by simpa using htr) hy
            exact AnchorOK.first t rest'' htop (by simpa using hop) hyl
              (first_slot_pos hgt h0 hty hall hv hq hx1 htrk1 htr hy hp)
        · simp at hrhs
    · next j hpos =>
      -- `.ofNode j`
      simp only [Bool.and_eq_true, beq_iff_eq] at hchk
      rw [hpos] at hp
      simp only [evalPos] at hp
      split at hp
      · next pv hpv =>
        obtain ⟨hj, hpv'⟩ := slot?_succ hpv
        simp only [Except.ok.injEq] at hp
        exact AnchorOK.clone j pv hchk.1 hpos hj (by simpa [mkCtx] using hpv') hp.symm
      · simp at hp
    · simp at hchk
  | false =>
    simp only [htop, Bool.false_eq_true, if_false] at hchk
    unfold nestedAnchorOK at hchk
    split at hchk
    · next k hpos =>
      -- `.at k 0`
      rw [hpos] at hp htrk
      simp only [posTracked] at htrk
      simp only [Bool.and_eq_true, bne_iff_ne, ne_eq] at hchk
      obtain ⟨⟨hk, hsl⟩, hslots⟩ := hchk
      split at hsl
      · next xs hx =>
        obtain ⟨_, pv, tr, hpv, htr, hrel, hval, hsym, hmem⟩ := slot_facts hgt h0 hty hall hv hq hx
        have htrk1 : symTracked g tracked xs = true := by
          simpa [slotTracked, hk, hx] using htrk
        have hne : tr.yield ≠ [] := by
          simp only [Bool.or_eq_true, List.contains_iff_mem] at hsl
          rcases hsl with hs | hm
          · exact solid_yield_ne hgt h0 hnnull hty tr hval ⟨_, hq, hmem⟩ (by rw [hsym]; exact hs)
          · obtain ⟨pv', kk, as, hpv', hvn, hkk⟩ := hnn k hm
            rw [hpv] at hpv'
            simp only [Option.some.injEq] at hpv'
            subst hpv'
            exact hrel.node kk as hvn hkk
        cases hy : tr.yield with
        | nil => exact absurd hy hne
        | cons t rest =>
          refine AnchorOK.nested k tr t rest htop hk htr hy
            (first_slot_pos hgt h0 hty hall hv hq hx htrk1 htr hy hp) ?_
          intro s hs
          have := List.all_eq_true.mp hslots s hs
          simpa using this
      · simp at hsl
    · next k hpos =>
      -- `.at k 1`: the placeholder
      rw [hpos] at hp
      simp only [Bool.and_eq_true, beq_iff_eq, bne_iff_ne, ne_eq] at hchk
      obtain ⟨⟨hkind, hk⟩, hsl⟩ := hchk
      split at hsl
      · next xs hx =>
        obtain ⟨_, pv, tr, hpv, htr, hrel, hval, hsym, hmem⟩ := slot_facts hgt h0 hty hall hv hq hx
        rcases child_cases hgt h0 hty hq hmem hval with ⟨t, rfl, _⟩ | ⟨p', cs, l, rfl, hp', _⟩
        · have hleaf := hrel.leaf t rfl
          obtain ⟨pv', hpv', hpos'⟩ := pos_at_slot hgt h0 hty hall hv hq (lp := lp) (lc := lc) (wc := wc) hk hp
          rw [hpv] at hpv'
          simp only [Option.some.injEq] at hpv'
          subst hpv'
          subst hleaf
          exact AnchorOK.placeholder k t htop hkind hk htr hpos'
        · exfalso
          rw [← hsym, sym_node hp'] at hsl
          simp [G.isTerm, hgt.nT] at hsl
          omega
      · simp at hsl
    · simp at hchk

/-- the token map of one node -/
theorem tokmap_ok (x : NodeD) (hts : x.tokSlots.all (tokSlotOK g (symList T ty trees)) = true)
    (htm : x.tokmap.all (tokEntryOK g (symList T ty trees) x.kind) = true)
    (htrk : x.tokmap.all (fun e => posTracked g tracked (symList T ty trees) e.2) = true)
    {as : List (String × Val)} {tmv : Val}
    (h : nodeTokmap (mkCtx args lp lc wc) as x.tokSlots x.tokmap x.tokmapOf = .ok tmv) :
    TokmapOK g ty tokOf lc args trees x tmv := by
  unfold TokmapOK
  cases htmo : x.tokmapOf with
  | some j =>
    rw [htmo] at h
    simp only [nodeTokmap] at h
    split at h
    · next pv hpv =>
      obtain ⟨hj, hpv'⟩ := slot?_succ hpv
      simp only [Except.ok.injEq] at h
      exact ⟨pv, hj, by simpa [mkCtx] using hpv', h.symm⟩
    · simp at h
  | none =>
    rw [htmo] at h
    simp only [nodeTokmap] at h
    split at h
    · simp at h
    · next tm1 h1 =>
      split at h
      · simp at h
      · next tm2 h2 =>
        simp only [Except.ok.injEq] at h
        refine ⟨tm2, h.symm, ?_⟩
        -- the `tokSlots` loop
        have hP1 : TmAll (EntryOK g ty tokOf lc trees x.kind) tm1 := by
          refine foldE_inv (TmAll (EntryOK g ty tokOf lc trees x.kind))
            (fun j => tokSlotOK g (symList T ty trees) j = true) ?_ x.tokSlots [] tm1
            (fun j hj => List.all_eq_true.mp hts j hj) (by intro e he; simp at he) h1
          intro j tm tm' hj hP hstep
          unfold stepSlot at hstep
          split at hstep
          · next pv hpv =>
            split at hstep
            · next s hs =>
              split at hstep
              · next q hq' =>
                simp only [Except.ok.injEq] at hstep
                subst hstep
                refine tokmapAdd_all hP ?_
                unfold tokSlotOK at hj
                split at hj
                · next xs hx =>
                  obtain ⟨hk, pv', tr, t, hpv', htr, hy, hvt, hat⟩ :=
                    str_slot_pos hgt h0 hty hall hv hq (lp := lp) (lc := lc) (wc := wc) hx hj
                      (by simpa [evalPos] using hq')
                  obtain ⟨_, hpv2⟩ := slot?_succ hpv
                  simp only [mkCtx] at hpv2
                  rw [hpv'] at hpv2
                  simp only [Option.some.injEq] at hpv2
                  subst hpv2
                  rw [hvt] at hs
                  simp only [Val.str.injEq] at hs
                  exact EntryOK.slot j tr t hk htr hy hs hat
                · simp at hj
              · simp at hstep
            · simp only [Except.ok.injEq] at hstep
              subst hstep
              exact hP
          · simp at hstep
        -- the additional entries
        refine foldE_inv (TmAll (EntryOK g ty tokOf lc trees x.kind))
          (fun e => tokEntryOK g (symList T ty trees) x.kind e = true ∧
            posTracked g tracked (symList T ty trees) e.2 = true) ?_ x.tokmap tm1 tm2
          (fun e he => ⟨List.all_eq_true.mp htm e he, List.all_eq_true.mp htrk e he⟩) hP1 h2
        intro e tm tm' ⟨he, hetrk⟩ hP hstep
        obtain ⟨src, pd⟩ := e
        unfold stepExtra at hstep
        simp only [] at hstep
        split at hstep
        · simp at hstep
        · next q hq' =>
          split at hstep
          · simp at hstep
          · next text htext =>
            simp only [Except.ok.injEq] at hstep
            subst hstep
            refine tokmapAdd_all hP ?_
            unfold tokEntryOK at he
            split at he
            · next _ s j heq =>
              -- constant text at a symbol that starts with it
              obtain ⟨rfl, rfl⟩ := Prod.mk.inj heq
              simp only [textOf, Except.ok.injEq] at htext
              subst htext
              simp only [posTracked] at hetrk
              split at he
              · next xs hx =>
                obtain ⟨hk, pv, tr, hpv, htr, hrel, hval, hsym, hmem⟩ := slot_facts hgt h0 hty hall hv hq hx
                obtain ⟨t, rest, hy, hsp⟩ :=
                  symStartsWith_yield hgt h0 hty tr hval ⟨_, hq, hmem⟩ (by rw [hsym]; exact he)
                have htrk1 : symTracked g tracked xs = true := by simpa [slotTracked, hk, hx] using hetrk
                exact EntryOK.const j tr t rest hk htr hy hsp.1 hsp.2
                  (first_slot_pos hgt h0 hty hall hv hq hx htrk1 htr hy hq')
              · simp at he
            · next _ j heq =>
              -- the comma run of an elision
              obtain ⟨rfl, rfl⟩ := Prod.mk.inj heq
              simp only [Bool.and_eq_true, beq_iff_eq] at he
              obtain ⟨hkind, hrhs⟩ := he
              simp only [posTracked] at hetrk
              split at hrhs
              · next xs rest heq =>
                simp only [Bool.and_eq_true, Bool.or_eq_true, beq_iff_eq] at hrhs
                obtain ⟨t, rest', hyl, hsp, hat⟩ :=
                  first_sym_pos hgt h0 hty hall hv hq heq hrhs.2 hetrk hrhs.1 hq'
                simp only [textOf] at htext
                split at htext
                · next n _ =>
                  simp only [Except.ok.injEq] at htext
                  exact EntryOK.commas n.toNat t rest' hkind htext.symm hyl hsp.1 hat
                · simp at htext
              · simp at hrhs
            · next _ j k heq =>
              -- the text of a terminal slot at its own position
              obtain ⟨rfl, rfl⟩ := Prod.mk.inj heq
              simp only [Bool.and_eq_true, beq_iff_eq] at he
              obtain ⟨rfl, hsl⟩ := he
              split at hsl
              · next xs hx =>
                obtain ⟨hk, pv, tr, t, hpv, htr, hy, hvt, hat⟩ :=
                  str_slot_pos hgt h0 hty hall hv hq (lp := lp) (lc := lc) (wc := wc) hx hsl hq'
                simp only [textOf] at htext
                split at htext
                · next pv' hpv' =>
                  obtain ⟨_, hpv2⟩ := slot?_succ hpv'
                  simp only [mkCtx] at hpv2
                  rw [hpv] at hpv2
                  simp only [Option.some.injEq] at hpv2
                  subst hpv2
                  split at htext
                  · next s hs =>
                    simp only [Except.ok.injEq] at htext
                    subst htext
                    rw [hvt] at hs
                    simp only [Val.str.injEq] at hs
                    exact EntryOK.slot j tr t hk htr hy hs hat
                  · simp at htext
                · simp at htext
              · simp at hsl
            · simp at he

end node

/-! ### all nodes built by one call of a semantic action -/

/-- **what a semantic action builds**: for a call of `Model.Actions.reduce` on tracked arguments of a valid instance
    of production `p`, every node descriptor `x` of the selected row evaluates to a node carrying `@pos` and `@tokmap`
    attributes that satisfy `AnchorOK` and `TokmapOK`, and every elision run (`spreadMod`) records the position of the
    first token of the production's yield, which is a `,` -/
theorem reduce_nodes_ok {g : G} {T : Tables} {ty : τ → Nat} {tokOf : τ → Tok} {tracked : List Nat}
    {table : List Entry} (hgt : GT g T) (hty : ∀ t, ty t ≤ T.numTerminals)
    (hok : actionsOK g table = true) (hx : extraOK g tracked table = true)
    {wc : Bool} {lc : Nat → Nat → Option Int} {p : Nat} {args : List PVal} {lp : Nat × Nat} {pv : PVal}
    {trees : List (Tree τ)} {lhs : Nat}
    (hr : Model.Actions.reduce table wc lc p args lp = .ok pv)
    (hall : All2 (Track g T tokOf tracked) args trees)
    (hp : T.prods[p]? = some (lhs, symList T ty trees)) (hv : validList T ty trees) :
    ∃ e, table[p]? = some e ∧
      evalD (mkCtx args lp lc wc) (selectRow e (args.map (fun a => kindOf a.v))) = .ok pv.v ∧
      (∀ x ∈ nodesOfD true (selectRow e (args.map (fun a => kindOf a.v))),
        ∃ n as pos tmv, evalD (mkCtx args lp lc wc) x.d = .ok n ∧
          n = .node x.kind (as ++ nodeExtra (mkCtx args lp lc wc) x.pos ++ [("@pos", pos), ("@tokmap", tmv)]) ∧
          evalAttrs (mkCtx args lp lc wc) x.attrs = .ok as ∧
          AnchorOK tokOf lc args trees x pos ∧ TokmapOK g ty tokOf lc args trees x tmv) ∧
      (∀ pd ∈ spreadsOfD (selectRow e (args.map (fun a => kindOf a.v))),
        ∃ q t rest, evalPos (mkCtx args lp lc wc) pd = .ok q ∧ yieldList trees = t :: rest ∧
          g.termSpelling[ty t]? = some "," ∧ AtTok lc (tokOf t) q) := by
  simp only [actionsOK, Bool.and_eq_true] at hok
  obtain ⟨⟨hnn, hstr⟩, hchk⟩ := hok
  simp only [extraOK, Bool.and_eq_true] at hx
  obtain ⟨⟨h0, htr⟩, hxall⟩ := hx
  obtain ⟨e, v, he, hev, rfl⟩ := reduce_ok hr
  have hgp : g.prods[p]? = some (lhs, symList T ty trees) := by rw [hgt.prods]; exact hp
  have hq : (lhs, symList T ty trees) ∈ g.prods := List.mem_of_getElem? hgp
  obtain ⟨hce, _⟩ := checkAllFrom_get hchk hgp he
  have hxe := extraAllFrom_get hxall hgp he
  simp only [] at hce hxe
  obtain ⟨nn, hcd, hnodes⟩ := selectRow_check args hce hxe
  have hsel := selectRow_mem e (args.map (fun a => kindOf a.v))
  refine ⟨e, he, ?_⟩
  generalize selectRow e (args.map (fun a => kindOf a.v)) = d at hev hsel hcd ⊢
  have hxe1 := hxe
  simp only [extraEntry, Bool.and_eq_true] at hxe1
  have hslots := (List.all_eq_true.mp hxe1.1 d hsel)
  simp only [posSlotsOK, Bool.and_eq_true] at hslots
  obtain ⟨_, hnodetrk, hsprtrk⟩ := hslots
  obtain ⟨hsubn, hsubs⟩ := sub_ok_D (mkCtx args lp lc wc) true d v hev
  obtain ⟨hchkn, hchks⟩ := check_sub_D g (symList T ty trees) nn true d hcd
  refine ⟨hev, ?_, ?_⟩
  · intro x hxmem
    obtain ⟨n, hn⟩ := hsubn x hxmem
    obtain ⟨as, pos, tmv, has, hpos, htmv, hneq⟩ := evalD_node_ok hn
    have hc := hchkn x hxmem
    simp only [nodeCheck, Bool.and_eq_true] at hc
    have ht := List.all_eq_true.mp hnodetrk x hxmem
    simp only [Bool.and_eq_true] at ht
    exact ⟨n, as, pos, tmv, hn, hneq, has,
      anchor_ok hgt h0 hnn hty hall hv hq hnodes x hc.1.1 ht.1.1 hpos,
      tokmap_ok hgt h0 hty hall hv hq x hc.1.2 hc.2 ht.2 htmv⟩
  · intro pd hpd
    obtain ⟨q, hq'⟩ := hsubs pd hpd
    obtain ⟨rfl, x, xs, hrhs, hsw⟩ := hchks pd hpd
    have htrk := List.all_eq_true.mp hsprtrk _ hpd
    simp only [posTracked] at htrk
    obtain ⟨t, rest, hyl, hsp, hat⟩ := first_sym_pos hgt h0 hty hall hv hq hrhs hsw htrk (Or.inl rfl) hq'
    exact ⟨q, t, rest, hq', hyl, hsp.1, hat⟩

end CalmVerif.Proofs.NodePos
