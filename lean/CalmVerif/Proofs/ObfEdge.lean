/-
`plainEdged s`: `s` is non-empty and its first and last characters are in the `required_space` character class
of the ASCII letters.  Two plain-edged texts are `Edge`-equivalent for the generated handler data (`hdataGen`),
every word over the generator's alphabet is plain-edged: renaming a plain-edged identifier to a generated name
cannot change a decision of any layout handler.
-/
import CalmVerif.Proofs.ObfLayout
import CalmVerif.Proofs.ObfWords
import CalmVerif.Model.UnparseInst
namespace CalmVerif.Obf
open CalmVerif CalmVerif.Unparse

/-- the `required_space` class of the ASCII letters -/
def wordClass : Nat := spaceClassOf 'a'

def plainEdged (s : String) : Bool :=
  match s.toList.head?, s.toList.getLast? with
  | some a, some b => spaceClassOf a == wordClass && spaceClassOf b == wordClass
  | _, _ => false

/-! ### facts about the generated data -/

theorem charset_wordClass : ∀ c ∈ Gen.ObfData.charset, spaceClassOf c = wordClass := by decide +kernel

theorem cr_lf_not_word : spaceClassOf '\r' ≠ wordClass ∧ spaceClassOf '\n' ≠ wordClass := by decide +kernel

theorem newline_is_lf : hdataGen.newline.toList = ['\n'] := by decide +kernel

theorem newline_len : hdataGen.newline.length = 1 := by decide +kernel

def headIsWord (s : String) : Bool :=
  match s.toList.head? with
  | some a => spaceClassOf a == wordClass
  | none => false

theorem assignment_not_word : Gen.Rules.assignmentTokens.all (fun t => !headIsWord t) = true := by decide +kernel

theorem optRhs_not_word : Gen.Rules.optionalRhsSpaceTokens.all (fun o => match o with
    | some t => !headIsWord t
    | none => true) = true := by decide +kernel

/-! ### strings -/

theorem lastN_one_of_getLast {l : List Char} {b : Char} (h : l.getLast? = some b) : lastN 1 l = [b] := by
  obtain ⟨ys, rfl⟩ := List.getLast?_eq_some_iff.1 h
  simp [lastN]

theorem lastN_one_cases (l : List Char) : lastN 1 l = [] ∨ ∃ c, lastN 1 l = [c] := by
  cases hl : l.getLast? with
  | none =>
    have : l = [] := List.getLast?_eq_none_iff.1 hl
    subst this
    exact Or.inl rfl
  | some b => exact Or.inr ⟨b, lastN_one_of_getLast hl⟩

theorem take_one_of_head {l : List Char} {a : Char} (h : l.head? = some a) : l.take 1 = [a] := by
  cases l with
  | nil => simp at h
  | cons x xs => simp at h; simp [h]

theorem take_one_cases (l : List Char) : l.take 1 = [] ∨ ∃ c, l.take 1 = [c] := by
  cases l with
  | nil => exact Or.inl rfl
  | cons x xs => exact Or.inr ⟨x, by simp⟩

theorem requiredSpaceGen_left {b b' : Char} (h : spaceClassOf b = spaceClassOf b') (c : Char) :
    requiredSpaceGen b c = requiredSpaceGen b' c := by
  simp only [requiredSpaceGen, h]

theorem requiredSpaceGen_right {a a' : Char} (h : spaceClassOf a = spaceClassOf a') (c : Char) :
    requiredSpaceGen c a = requiredSpaceGen c a' := by
  simp only [requiredSpaceGen, h]

theorem plainEdged_spec {s : String} (h : plainEdged s = true) :
    ∃ a b, s.toList.head? = some a ∧ s.toList.getLast? = some b ∧ spaceClassOf a = wordClass ∧
      spaceClassOf b = wordClass := by
  unfold plainEdged at h
  split at h
  · rename_i a b ha hb
    simp only [Bool.and_eq_true, beq_iff_eq] at h
    exact ⟨a, b, ha, hb, h.1, h.2⟩
  · cases h

theorem word_char_ne {c : Char} (hc : spaceClassOf c = wordClass) : c ≠ '\r' ∧ c ≠ '\n' := by
  constructor
  · rintro rfl; exact cr_lf_not_word.1 hc
  · rintro rfl; exact cr_lf_not_word.2 hc

theorem headIsWord_of {s : String} {a : Char} (h : s.toList.head? = some a) (hc : spaceClassOf a = wordClass) :
    headIsWord s = true := by
  simp [headIsWord, h, hc]

/-- two plain-edged texts cannot be told apart by any layout handler -/
theorem edge_plain {t t' : String} (h : plainEdged t = true) (h' : plainEdged t' = true) : Edge hdataGen t t' := by
  obtain ⟨a, b, ha, hb, ca, cb⟩ := plainEdged_spec h
  obtain ⟨a', b', ha', hb', ca', cb'⟩ := plainEdged_spec h'
  have hne : ∀ {s : String} {x : Char}, s.toList.head? = some x → (s != "") = true := by
    intro s x hs
    simp only [bne_iff_ne, ne_eq]
    rintro rfl
    simp at hs
  have hlast : lastChar t = [b] := lastN_one_of_getLast hb
  have hlast' : lastChar t' = [b'] := lastN_one_of_getLast hb'
  have hfirst : firstChar t = [a] := take_one_of_head ha
  have hfirst' : firstChar t' = [a'] := take_one_of_head ha'
  have hnl : hdataGen.newline.length = 1 := newline_len
  have hlc : lcN hdataGen (some t) = [b] := by
    simp only [lcN, hnl]; exact hlast
  have hlc' : lcN hdataGen (some t') = [b'] := by
    simp only [lcN, hnl]; exact hlast'
  have hfc : fcN hdataGen (some t) = [a] := by
    simp only [fcN, hnl]; exact hfirst
  have hfc' : fcN hdataGen (some t') = [a'] := by
    simp only [fcN, hnl]; exact hfirst'
  have nlfalse : ∀ {c : Char}, spaceClassOf c = wordClass →
      [['\r'], ['\n'], hdataGen.newline.toList].contains [c] = false := by
    intro c hc
    have := word_char_ne hc
    simp [newline_is_lf, this.1, this.2]
  have crfalse : ∀ {c : Char}, spaceClassOf c = wordClass → inCRLF [c] = false := by
    intro c hc
    have := word_char_ne hc
    simp [inCRLF, this.1, this.2]
  refine ⟨?_, ?_, ?_, ?_, ?_, ?_, ?_, ?_⟩
  · rw [hne ha, hne ha']
  · intro x
    simp only [requiredSpaceStr, hlast, hlast']
    rcases take_one_cases x.toList with hx | ⟨c, hx⟩
    · simp [firstChar, hx]
    · simp only [firstChar, hx, List.cons_append, List.nil_append]
      exact requiredSpaceGen_left (cb.trans cb'.symm) c
  · intro x
    simp only [requiredSpaceStr, hfirst, hfirst']
    rcases lastN_one_cases x.toList with hx | ⟨c, hx⟩
    · simp [lastChar, hx]
    · simp only [lastChar, hx, List.cons_append, List.nil_append]
      exact requiredSpaceGen_right (ca.trans ca'.symm) c
  · rw [hlc, hlc', crfalse cb, crfalse cb']
  · rw [hlc, hlc', nlfalse cb, nlfalse cb']
  · rw [hfc, hfc', nlfalse ca, nlfalse ca']
  · have key : ∀ {s : String} {x : Char}, s.toList.head? = some x → spaceClassOf x = wordClass →
        hdataGen.optionalRhsSpaceTokens.contains (some s) = false := by
      intro s x hs hx
      by_contra hc
      have hmem : some s ∈ Gen.Rules.optionalRhsSpaceTokens := by
        simpa [hdataGen] using hc
      have := optRhs_not_word
      simp only [List.all_eq_true] at this
      have := this (some s) hmem
      simp [headIsWord_of hs hx] at this
    rw [key ha ca, key ha' ca']
  · have key : ∀ {s : String} {x : Char}, s.toList.head? = some x → spaceClassOf x = wordClass →
        hdataGen.assignmentTokens.contains s = false := by
      intro s x hs hx
      by_contra hc
      have hmem : s ∈ Gen.Rules.assignmentTokens := by
        simpa [hdataGen] using hc
      have := assignment_not_word
      simp only [List.all_eq_true] at this
      have := this s hmem
      simp [headIsWord_of hs hx] at this
    rw [key ha ca, key ha' ca']

/-- a generated name is plain-edged -/
theorem word_plainEdged {v : String} (h : IsWord Gen.ObfData.charset v) : plainEdged v = true := by
  obtain ⟨ds, hg, hne, rfl⟩ := h
  have hl : (nameOf Gen.ObfData.charset ds).toList
      = ds.reverse.map (fun d => (Gen.ObfData.charset[d]?).getD 'a') := by
    simp [nameOf]
  have hmem : ∀ c ∈ (nameOf Gen.ObfData.charset ds).toList, spaceClassOf c = wordClass := by
    intro c hc
    rw [hl] at hc
    obtain ⟨d, hd, rfl⟩ := List.mem_map.1 hc
    have hlt : d < Gen.ObfData.charset.length := hg d (List.mem_reverse.1 hd)
    simp only [List.getElem?_eq_getElem hlt, Option.getD_some]
    exact charset_wordClass _ (List.getElem_mem hlt)
  have hnil : (nameOf Gen.ObfData.charset ds).toList ≠ [] := by
    rw [hl]
    simpa using hne
  unfold plainEdged
  cases hh : (nameOf Gen.ObfData.charset ds).toList.head? with
  | none => exact absurd (List.head?_eq_none_iff.1 hh) hnil
  | some a =>
    cases hlst : (nameOf Gen.ObfData.charset ds).toList.getLast? with
    | none => exact absurd (List.getLast?_eq_none_iff.1 hlst) hnil
    | some b =>
      have ha : a ∈ (nameOf Gen.ObfData.charset ds).toList := List.mem_of_mem_head? hh
      have hb : b ∈ (nameOf Gen.ObfData.charset ds).toList := List.mem_of_getLast? hlst
      simp [hmem a ha, hmem b hb]

end CalmVerif.Obf
