/-
Ghost derivation trees for the LR driver under ANY semantics (generalises Proofs/LRSound, which is
about the free semantics `treeSem`): if a relation `Rel : ν → Tree τ → Prop` between semantic values
and derivation trees is established by `leaf` and preserved by `reduce` (`Lifts`), then every
configuration reachable from the initial one carries, for its value stack, a stack of valid
derivation trees related to the values, whose yields concatenate to the shifted tokens (`GInv`);
and at every call of the semantic action (`reduceCall`) the arguments are related to valid trees
spelling the production's right-hand side, whose yield is the most recent part of the shifted tokens.
-/
import CalmVerif.Proofs.LRSound
namespace CalmVerif.Model.LR

variable {τ ν σ ε : Type}

/-- two lists related element by element -/
inductive All2 {α β : Type} (R : α → β → Prop) : List α → List β → Prop
  | nil : All2 R [] []
  | cons {a b as bs} : R a b → All2 R as bs → All2 R (a :: as) (b :: bs)

theorem All2.append {α β : Type} {R : α → β → Prop} {as bs : List α} {cs ds : List β}
    (h1 : All2 R as cs) (h2 : All2 R bs ds) : All2 R (as ++ bs) (cs ++ ds) := by
  induction h1 with
  | nil => simpa using h2
  | cons h _ ih => exact All2.cons h ih

theorem All2.reverse {α β : Type} {R : α → β → Prop} {as : List α} {cs : List β}
    (h : All2 R as cs) : All2 R as.reverse cs.reverse := by
  induction h with
  | nil => exact All2.nil
  | cons h _ ih =>
    simp only [List.reverse_cons]
    exact ih.append (All2.cons h All2.nil)

theorem All2.length_eq {α β : Type} {R : α → β → Prop} {as : List α} {cs : List β}
    (h : All2 R as cs) : as.length = cs.length := by
  induction h with
  | nil => rfl
  | cons _ _ ih => simp [ih]

theorem All2.get {α β : Type} {R : α → β → Prop} {as : List α} {cs : List β}
    (h : All2 R as cs) : ∀ {i : Nat} {a : α}, as[i]? = some a → ∃ c, cs[i]? = some c ∧ R a c := by
  induction h with
  | nil => intro i a hi; simp at hi
  | cons h _ ih =>
    intro i a hi
    cases i with
    | zero => simp at hi; subst hi; exact ⟨_, by simp, h⟩
    | succ i => simp at hi; simpa using ih hi

/-- `Rel` is established by `leaf` and preserved by `reduce` on valid instances of a production -/
structure Lifts (T : Tables) (S : Sem τ ν σ ε) (Rel : ν → Tree τ → Prop) : Prop where
  leaf : ∀ t, Rel (S.leaf t) (.leaf t)
  reduce : ∀ {p : Nat} {args : List ν} {src : σ} {v : ν} {trees : List (Tree τ)} {lhs : Nat},
    S.reduce p args src = .ok v → All2 Rel args trees →
    T.prods[p]? = some (lhs, symList T S.ty trees) → validList T S.ty trees → Rel v (.node p trees)

/-- ghost invariant: the value stack is related, value by value, to a stack of valid derivation trees
    (top first) that label a path of the automaton and whose yields are the shifted tokens -/
def GInv (T : Tables) (S : Sem τ ν σ ε) (Rel : ν → Tree τ → Prop) (c : Config τ ν σ) : Prop :=
  ∃ trees : List (Tree τ), StackOK T S.ty c.states trees ∧
    yieldList trees.reverse = c.shifted.reverse ∧ All2 Rel c.vals trees

/-- reachability by iterations of the driver loop -/
inductive Reach (T : Tables) (S : Sem τ ν σ ε) (R : Source τ σ ε) : Config τ ν σ → Config τ ν σ → Prop
  | refl (c) : Reach T S R c c
  | step {c c' c''} : Reach T S R c c' → step T S R c' = .inl c'' → Reach T S R c c''

/-- the call `S.reduce p args src` that `step` makes at configuration `c` (none if `step` does not reduce) -/
def reduceCall (T : Tables) (S : Sem τ ν σ ε) (R : Source τ σ ε) (c : Config τ ν σ) :
    Option (Nat × List ν × σ) :=
  match c.states with
  | [] => none
  | state :: _ =>
    match fetch T S R c state with
    | .ok (some (.reduce p), c1) =>
      match T.prods[p]? with
      | some (_, rhs) =>
        match popN rhs.length c1.vals, popN rhs.length c1.states with
        | some (args, _), some _ => some (p, args.reverse, c1.src)
        | _, _ => none
      | none => none
    | _ => none

section generic
variable {T : Tables} {cert : List (List Nat)} {acc : List Nat}
variable {S : Sem τ ν σ ε} {R : Source τ σ ε} {Rel : ν → Tree τ → Prop}

theorem fetch_spec' {c c1 : Config τ ν σ} {st : Nat} {a : Option Act}
    (hf : fetch T S R c st = .ok (a, c1)) :
    c1.states = c.states ∧ c1.vals = c.vals ∧ c1.shifted = c.shifted ∧
    ((∃ p, defaultedOf T st = some p ∧ a = some (.reduce p)) ∨
      a = actionOf T st (lookTermOf T S c1)) := by
  unfold fetch at hf
  split at hf
  · next p hp =>
    simp only [Except.ok.injEq, Prod.mk.injEq] at hf
    obtain ⟨rfl, rfl⟩ := hf
    exact ⟨rfl, rfl, rfl, Or.inl ⟨p, hp, rfl⟩⟩
  · split at hf
    · simp only [Except.ok.injEq, Prod.mk.injEq] at hf
      obtain ⟨rfl, rfl⟩ := hf
      exact ⟨rfl, rfl, rfl, Or.inr rfl⟩
    · split at hf
      · simp at hf
      · simp only [Except.ok.injEq, Prod.mk.injEq] at hf
        obtain ⟨rfl, rfl⟩ := hf
        exact ⟨rfl, rfl, rfl, Or.inr rfl⟩

theorem reduce_rhs_ok' (h : tablesValid T cert acc = true) {c1 : Config τ ν σ} {st p : Nat}
    {a : Option Act}
    (hdisj : (∃ p, defaultedOf T st = some p ∧ a = some (.reduce p)) ∨
      a = actionOf T st (lookTermOf T S c1)) (ha : a = some (.reduce p)) :
    prodRhsOK T cert st p = true := by
  rcases hdisj with ⟨p', hd, ha'⟩ | ha'
  · rw [ha] at ha'; cases ha'; exact tv_defaulted h hd
  · rw [ha] at ha'
    obtain ⟨code, hdec, hok⟩ := tv_action h ha'.symm
    simpa [actionEntryOK, hdec] using hok

theorem forall₂_popN {Rel : ν → Tree τ → Prop} : ∀ {n : Nat} {vals : List ν} {trees : List (Tree τ)}
    {args rv : List ν}, All2 Rel vals trees → popN n vals = some (args, rv) →
    ∃ targs trest, popN n trees = some (targs, trest) ∧ All2 Rel args targs ∧
      All2 Rel rv trest
  | 0, vals, trees, args, rv, h, hp => by
    simp [popN] at hp
    obtain ⟨rfl, rfl⟩ := hp
    exact ⟨[], trees, by simp [popN], All2.nil, h⟩
  | n + 1, [], _, _, _, _, hp => by simp [popN] at hp
  | n + 1, v :: vals, trees, args, rv, h, hp => by
    cases h with
    | cons hv hrest =>
      rename_i tr trs
      simp only [popN, Option.map_eq_some_iff] at hp
      obtain ⟨⟨a1, b1⟩, hp1, heq⟩ := hp
      simp at heq
      obtain ⟨rfl, rfl⟩ := heq
      obtain ⟨targs, trest, h1, h2, h3⟩ := forall₂_popN hrest hp1
      exact ⟨tr :: targs, trest, by simp [popN, h1], All2.cons hv h2, h3⟩

/-- what the ghost trees say about the arguments of a reduction by production `p` in a state whose
    certificate ends with the right-hand side -/
theorem ghost_args (h : tablesValid T cert acc = true) {c : Config τ ν σ} {st : Nat} {below : List Nat}
    {trees : List (Tree τ)} (hst : c.states = st :: below)
    (hstack : StackOK T S.ty c.states trees) (hrel : All2 Rel c.vals trees)
    {p lhs : Nat} {rhs : List Nat} (hp : T.prods[p]? = some (lhs, rhs))
    (hrhs : prodRhsOK T cert st p = true)
    {args restVals : List ν} {ps restStates : List Nat}
    (hpv : popN rhs.length c.vals = some (args, restVals))
    (hps : popN rhs.length c.states = some (ps, restStates)) :
    ∃ targs trest, trees = targs ++ trest ∧ StackOK T S.ty restStates trest ∧
      All2 Rel args.reverse targs.reverse ∧ All2 Rel restVals trest ∧
      symList T S.ty targs.reverse = rhs ∧ validList T S.ty targs.reverse := by
  obtain ⟨targs, trest, hpt, hra, hrr⟩ := forall₂_popN hrel hpv
  obtain ⟨hrest, hvs, hvalid⟩ := stack_pop hstack hpt hps
  have hcert : certOf cert st <:+ labels T S.ty trees := stack_cert h hstack hst
  simp only [prodRhsOK, hp] at hrhs
  have hsuf : rhs <:+ labels T S.ty trees := (sfx_iff.mp hrhs).trans hcert
  have hlab : labels T S.ty trees = labels T S.ty trest ++ symList T S.ty targs.reverse := by
    simp [labels, hvs, symList_append]
  have hlen : (symList T S.ty targs.reverse).length = rhs.length := by
    simp [symList_eq_map, popN_length hpt]
  have hsym : symList T S.ty targs.reverse = rhs := by
    rw [hlab] at hsuf
    have h2' : symList T S.ty targs.reverse <:+ labels T S.ty trest ++ symList T S.ty targs.reverse :=
      List.suffix_append _ _
    exact suffix_eq_of_length_eq h2' hsuf (by omega)
  exact ⟨targs, trest, hvs, hrest, hra.reverse, hrr, hsym,
    (validList_reverse T S.ty targs).mpr hvalid⟩

theorem ginv_init (s : σ) : GInv T S Rel (initConfig s : Config τ ν σ) :=
  ⟨[], StackOK.base, by simp [initConfig, yieldList], All2.nil⟩

/-- the ghost invariant is preserved by one iteration of the driver loop -/
theorem step_ginv (h : tablesValid T cert acc = true) (hl : Lifts T S Rel) {c c' : Config τ ν σ}
    (hinv : GInv T S Rel c) (hs : step T S R c = .inl c') : GInv T S Rel c' := by
  obtain ⟨trees, hstack, hyld, hrel⟩ := hinv
  unfold step at hs
  split at hs
  · simp at hs
  · next st below hst =>
    split at hs
    · simp at hs
    · -- shift
      next s c1 hf =>
      obtain ⟨h1, h2, h3, hdisj⟩ := fetch_spec' hf
      unfold doShift at hs
      split at hs
      · next t hlk =>
        simp only [Sum.inl.injEq] at hs
        subst hs
        have hact : actionOf T st (S.ty t) = some (.shift s) := by
          rcases hdisj with ⟨p, _, hp⟩ | hp
          · simp at hp
          · simpa [lookTermOf, hlk] using hp.symm
        refine ⟨.leaf t :: trees, ?_, ?_, ?_⟩
        · simp only [h1, hst]
          rw [hst] at hstack
          exact StackOK.push hstack (by simpa [edge] using hact) (by simp [Tree.valid])
        · simp only [h3, List.reverse_cons, yieldList_append, hyld]
          simp [yieldList, Tree.yield]
        · simp only [h2]
          exact All2.cons (hl.leaf t) hrel
      · simp at hs
    · -- reduce
      next p c1 hf =>
      obtain ⟨h1, h2, h3, hdisj⟩ := fetch_spec' hf
      have hrhs := reduce_rhs_ok' (c1 := c1) h hdisj rfl
      unfold doReduce at hs
      split at hs
      · simp at hs
      · next lhs rhs hp =>
        split at hs
        · next args restVals ps restStates hpv hps =>
          split at hs
          · simp at hs
          · next v hv =>
            split at hs
            · simp at hs
            · next top rest' =>
              split at hs
              · next g hg =>
                simp only [Sum.inl.injEq] at hs
                subst hs
                have hst1 : c1.states = st :: below := by rw [h1, hst]
                obtain ⟨targs, trest, hvs, hrest, hra, hrr, hsym, hvalid⟩ :=
                  ghost_args (S := S) (Rel := Rel) h hst1 (by rw [h1]; exact hstack)
                    (by rw [h2]; exact hrel) hp hrhs hpv hps
                refine ⟨.node p targs.reverse :: trest, ?_, ?_, ?_⟩
                · refine StackOK.push (q := top) hrest ⟨lhs, rhs, hp, hg⟩ ?_
                  simp only [Tree.valid]
                  exact ⟨⟨lhs, by rw [hsym]; exact hp⟩, hvalid⟩
                · simp only [h3, List.reverse_cons, yieldList_append]
                  rw [← hyld, hvs]
                  simp [yieldList, Tree.yield, yieldList_append]
                · exact All2.cons (hl.reduce hv hra (by rw [hsym]; exact hp) hvalid) hrr
              · simp at hs
        · simp at hs
    · -- accept
      split at hs <;> simp at hs
    · -- error: only the look-ahead and the source change
      next c1 hf =>
      obtain ⟨h1, h2, h3, _⟩ := fetch_spec' hf
      unfold doError at hs
      cases hr : R.onError c1.src (lookTok c1) with
      | error e => simp [hr] at hs
      | ok res =>
        obtain ⟨t?, s'⟩ := res
        cases t? with
        | none => simp [hr] at hs
        | some t =>
          simp only [hr, Sum.inl.injEq] at hs
          subst hs
          exact ⟨trees, by simpa [h1] using hstack, by simpa [h3] using hyld, by simpa [h2] using hrel⟩

theorem reach_ginv (h : tablesValid T cert acc = true) (hl : Lifts T S Rel) {c c' : Config τ ν σ}
    (hinv : GInv T S Rel c) (hr : Reach T S R c c') : GInv T S Rel c' := by
  induction hr with
  | refl => exact hinv
  | step _ hs ih => exact step_ginv h hl ih hs

/-- the configuration at which `run` stops is reachable -/
theorem run_reach : ∀ (fuel : Nat) (c c' : Config τ ν σ) (o : Outcome ν ε),
    run T S R fuel c = (o, c') → Reach T S R c c'
  | 0, c, c', o, hr => by
    simp only [run, Prod.mk.injEq] at hr
    rw [← hr.2]; exact Reach.refl c
  | fuel + 1, c, c', o, hr => by
    simp only [run] at hr
    split at hr
    · next c2 hs =>
      have h2 := run_reach fuel c2 c' o hr
      clear hr
      induction h2 with
      | refl => exact Reach.step (Reach.refl c) hs
      | step _ hs' ih => exact Reach.step ih hs'
    · simp only [Prod.mk.injEq] at hr
      rw [← hr.2]; exact Reach.refl c

theorem run_reach_snd (fuel : Nat) (c : Config τ ν σ) : Reach T S R c (run T S R fuel c).2 :=
  run_reach fuel c _ (run T S R fuel c).1 (by cases run T S R fuel c; rfl)

theorem reach_trans {a b c : Config τ ν σ} (h1 : Reach T S R a b) (h2 : Reach T S R b c) :
    Reach T S R a c := by
  induction h2 with
  | refl => exact h1
  | step _ hs ih => exact Reach.step ih hs

/-- at every call of the semantic action the arguments are related to valid derivation trees that spell
    the right-hand side of the production and whose yield is the most recent part of the shifted tokens -/
theorem reduceCall_ghost (h : tablesValid T cert acc = true) {c : Config τ ν σ}
    (hinv : GInv T S Rel c) {p : Nat} {args : List ν} {src : σ}
    (hc : reduceCall T S R c = some (p, args, src)) :
    ∃ (trees : List (Tree τ)) (lhs : Nat) (before : List τ), All2 Rel args trees ∧
      T.prods[p]? = some (lhs, symList T S.ty trees) ∧ validList T S.ty trees ∧
      c.shifted.reverse = before ++ yieldList trees := by
  obtain ⟨trees, hstack, hyld, hrel⟩ := hinv
  unfold reduceCall at hc
  split at hc
  · simp at hc
  · next st below hst =>
    split at hc
    · next p' c1 hf =>
      obtain ⟨h1, h2, h3, hdisj⟩ := fetch_spec' hf
      have hrhs := reduce_rhs_ok' (c1 := c1) h hdisj rfl
      split at hc
      · next lhs rhs hp =>
        split at hc
        · next args' restVals ps hpv hps =>
          obtain ⟨ps1, restStates⟩ := ps
          simp only [Option.some.injEq, Prod.mk.injEq] at hc
          obtain ⟨rfl, rfl, rfl⟩ := hc
          have hst1 : c1.states = st :: below := by rw [h1, hst]
          obtain ⟨targs, trest, hvs, hrest, hra, hrr, hsym, hvalid⟩ :=
            ghost_args (S := S) (Rel := Rel) h hst1 (by rw [h1]; exact hstack)
              (by rw [h2]; exact hrel) hp hrhs hpv hps
          refine ⟨targs.reverse, lhs, yieldList trest.reverse, hra, by rw [hsym]; exact hp, hvalid, ?_⟩
          rw [← hyld, hvs]
          simp [yieldList_append]
        · simp at hc
      · simp at hc
    · simp at hc

/-- `reduceCall` is the call site: when it is `some (p, args, src)`, the outcome of `step` is determined by
    `S.reduce p args src` — its error is the outcome, its value is pushed (or the step ends `internal`) -/
theorem reduceCall_step {c : Config τ ν σ} {p : Nat} {args : List ν} {src : σ}
    (hc : reduceCall T S R c = some (p, args, src)) :
    (∀ e, S.reduce p args src = .error e → step T S R c = .inr (.error e)) ∧
    (∀ v c', S.reduce p args src = .ok v → step T S R c = .inl c' → c'.vals.head? = some v) := by
  unfold reduceCall at hc
  split at hc
  · simp at hc
  · next st below hst =>
    split at hc
    · next p' c1 hf =>
      split at hc
      · next lhs rhs hp =>
        split at hc
        · next args' restVals ps hpv hps =>
          obtain ⟨ps1, restStates⟩ := ps
          simp only [Option.some.injEq, Prod.mk.injEq] at hc
          obtain ⟨rfl, rfl, rfl⟩ := hc
          constructor
          · intro e he
            simp [step, hst, hf, doReduce, hp, hpv, hps, he]
          · intro v c' hv hs
            simp only [step, hst, hf, doReduce, hp, hpv, hps, hv] at hs
            split at hs
            · simp at hs
            · split at hs
              · simp only [Sum.inl.injEq] at hs
                subst hs; simp
              · simp at hs
        · simp at hc
      · simp at hc
    · simp at hc

end generic

end CalmVerif.Model.LR
