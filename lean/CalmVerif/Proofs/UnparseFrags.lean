/-
What the fragments of the final stream are: every fragment of `flushAll` is either a token fragment
of the chunk stream (in order) or one of the few fragments a layout handler can yield
(`;` `{` `}` ` ` newline, or the indentation string repeated `level` times).
-/
import CalmVerif.Proofs.UnparseLevel
import CalmVerif.Model.UnparseAux
namespace CalmVerif.Unparse
open CalmVerif

variable {σ : Type}

def indentFrag (hd : HData) (is : Option String) (level : Int) : Frag :=
  { text := strMul (effIndent hd is) level, line := none, col := none, name := none, source := .none }

/-- the fragments a layout handler can yield -/
inductive IsLayoutFrag (hd : HData) (is : Option String) : Frag → Prop where
  | semi (node : Val) : IsLayoutFrag hd is (fragAt node ";")
  | lbrace (node : Val) : IsLayoutFrag hd is (fragAt node "{")
  | rbrace (node : Val) : IsLayoutFrag hd is (fragAt node "}")
  | spaceImply : IsLayoutFrag hd is hd.spaceImply
  | spaceDrop : IsLayoutFrag hd is hd.spaceDrop
  | newline : IsLayoutFrag hd is (newlineFrag hd)
  | indent (level : Int) : strMul (effIndent hd is) level ≠ "" → IsLayoutFrag hd is (indentFrag hd is level)

theorem generateIndents_cases (hd : HData) (is : Option String) (level : Int) :
    (generateIndents hd is level = [] ∧ strMul (effIndent hd is) level = "") ∨
    (generateIndents hd is level = [indentFrag hd is level] ∧ strMul (effIndent hd is) level ≠ "") := by
  unfold generateIndents
  by_cases h : strMul (effIndent hd is) level = ""
  · left; simp [h]
  · right; simp [h, indentFrag]

theorem generateIndents_layout (hd : HData) (is : Option String) (level : Int) :
    ∀ f ∈ generateIndents hd is level, IsLayoutFrag hd is f := by
  intro f hf
  rcases generateIndents_cases hd is level with ⟨h, _⟩ | ⟨h, hne⟩
  · simp [h] at hf
  · simp [h] at hf; subst hf; exact .indent level hne

theorem runHandler_layout (hd : HData) (is : Option String) (h : HandlerId) (node : Val)
    (b a p : Option String) (lvl : Int) :
    ∀ f ∈ (runHandler hd is h node b a p lvl).1, IsLayoutFrag hd is f := by
  intro f hf
  cases h <;> simp only [runHandler] at hf
  case noop => simp at hf
  case semicolon => simp at hf; subst hf; exact .semi node
  case semicolonOptional =>
    split at hf
    · simp at hf; subst hf; exact .semi node
    · simp at hf
  case openbrace => simp at hf; subst hf; exact .lbrace node
  case closebrace => simp at hf; subst hf; exact .rbrace node
  case spaceImply => simp at hf; subst hf; exact .spaceImply
  case spaceDrop => simp at hf; subst hf; exact .spaceDrop
  case newlineSimple => simp at hf; subst hf; exact .newline
  case newlineOptionalPretty =>
    split at hf
    · simp at hf
    · split at hf
      · simp at hf; subst hf; exact .newline
      · simp at hf
  case spaceOptionalPretty =>
    split at hf
    · simp at hf; subst hf; exact .spaceImply
    · split at hf
      · split at hf
        · simp at hf; subst hf; exact .spaceImply
        · simp at hf
      · simp at hf
  case spaceMinimum =>
    split at hf
    · split at hf
      · simp at hf; subst hf; exact .spaceImply
      · simp at hf
    · simp at hf
  case indIndent => simp at hf
  case indDedent => simp at hf
  case indNewline =>
    simp only [List.mem_cons] at hf
    rcases hf with rfl | hf
    · exact .newline
    · exact generateIndents_layout hd is lvl f hf
  case indNewlineOptional =>
    split at hf
    · simp at hf
    · simp only [List.mem_append] at hf
      rcases hf with hf | hf
      · split at hf
        · simp at hf; subst hf; exact .newline
        · simp at hf
      · exact generateIndents_layout hd is lvl f hf

theorem runEntries_layout (hd : HData) (is : Option String) (b a : Option String) :
    ∀ (es : List LEntry) (prev : Option String) (lvl : Int),
      ∀ f ∈ (runEntries hd is b a es prev lvl).1, IsLayoutFrag hd is f := by
  intro es
  induction es with
  | nil => intro prev lvl f hf; simp [runEntries] at hf
  | cons e es ih =>
    intro prev lvl f hf
    simp only [runEntries, List.mem_append] at hf
    rcases hf with hf | hf
    · exact runHandler_layout _ _ _ _ _ _ _ _ f hf
    · exact ih _ _ f hf

/-- every output fragment is a token fragment of the stream or a layout fragment -/
theorem flushAll_frags (cfg : Cfg σ) :
    ∀ (cs : List Chunk) (last : Option String) (buf : List LChunk) (lvl : Int),
      ∀ f ∈ (flushAll cfg cs last buf lvl).1, f ∈ tokenFrags cs ∨ IsLayoutFrag cfg.hd cfg.indentStr f := by
  intro cs
  induction cs with
  | nil =>
    intro last buf lvl f hf
    simp only [flushAll, processLayouts] at hf
    exact Or.inr (runEntries_layout _ _ _ _ _ _ _ f hf)
  | cons c cs ih =>
    intro last buf lvl f hf
    cases c with
    | layout m h n =>
      simp only [flushAll] at hf
      rcases ih _ _ _ f hf with h1 | h1
      · exact Or.inl (by simpa [tokenFrags] using h1)
      · exact Or.inr h1
    | frag g =>
      simp only [flushAll, List.mem_append, List.mem_cons] at hf
      rcases hf with hf | rfl | hf
      · simp only [processLayouts] at hf
        exact Or.inr (runEntries_layout _ _ _ _ _ _ _ f hf)
      · exact Or.inl (by simp [tokenFrags])
      · rcases ih _ _ _ f hf with h1 | h1
        · exact Or.inl (by simp [tokenFrags, h1])
        · exact Or.inr h1

/-- the token fragments appear in the output in their order -/
theorem flushAll_tokens_sublist (cfg : Cfg σ) :
    ∀ (cs : List Chunk) (last : Option String) (buf : List LChunk) (lvl : Int),
      (tokenFrags cs).Sublist (flushAll cfg cs last buf lvl).1 := by
  intro cs
  induction cs with
  | nil => intro last buf lvl; simp [tokenFrags]
  | cons c cs ih =>
    intro last buf lvl
    cases c with
    | layout m h n => simpa [flushAll, tokenFrags] using ih _ _ _
    | frag g =>
      simp only [flushAll, tokenFrags]
      exact List.Sublist.trans (List.Sublist.cons_cons g (ih _ _ _)) (List.sublist_append_right _ _)

end CalmVerif.Unparse
