/-
C09 helper lemmas, part 8: assembling the statements about `write cc false`.
-/
import CalmVerif.Proofs.SourceMapSrc

namespace CalmVerif.Proofs.SourceMap
open CalmVerif.Model.SourceMap
open CalmVerif.Spec.SourceMapV3

theorem finalSources_getElem (keys : List Src) (i : Nat) (s : Src) (h : keys[i]? = some s) :
    (finalSources keys)[i]? = some (renderSrc s) := by
  unfold finalSources
  cases keys with
  | nil => simp at h
  | cons k ks =>
    simp only [List.map_cons]
    rw [← List.map_cons, List.getElem?_map, h]; rfl

theorem finalSources_length (keys : List Src) :
    (finalSources keys).length = if keys = [] then 1 else keys.length := by
  unfold finalSources
  cases keys with
  | nil => rfl
  | cons k ks => simp

/-- the raw (un-normalised) result of the model -/
theorem write_false_eq (cc : CharClasses) (frags : List Frag) :
    write cc false frags = some
      { mappings := (writeLoop cc WState.init frags).done ++ [(writeLoop cc WState.init frags).cur],
        sources := finalSources (writeLoop cc WState.init frags).sources.keys,
        names := (writeLoop cc WState.init frags).names.keys } := by
  simp [write]

theorem split_at {α : Type} (l : List α) (i : Nat) (x : α) (h : l[i]? = some x) :
    l = l.take i ++ x :: l.drop (i + 1) ∧ l.take (i + 1) = l.take i ++ [x] := by
  obtain ⟨hi, hx⟩ := List.getElem?_eq_some_iff.mp h
  constructor
  · rw [← hx, ← List.drop_eq_getElem_cons hi, List.take_append_drop]
  · rw [List.take_add_one, h]; rfl

theorem entryOf_explicit (st : WState) (l c : Nat) (name : Option (List Char)) (source : Option Src) :
    entryOf st (emitSeg st (some (l + 1)) (some (c + 1)) name source) (some (l + 1)) (some (c + 1)) name =
      ⟨st.book.sink.curr,
        some (((st.sources.update source).1.current : Int), (l : Int), (c : Int)),
        name.map (fun _ => (((st.names.update name).1.current : Nat) : Int))⟩ := by
  simp only [entryOf, totalsOf, emitSeg_sources, emitSeg_names]
  simp [emitSeg, Cell.set]


theorem genPos_take (frags : List Frag) (i : Nat) :
    genPos (frags.map (·.text)) i = endPos ((frags.take i).map (·.text)).flatten := by
  simp [genPos, List.map_take]

/-- what the final state knows about an explicitly positioned, non-empty fragment -/
theorem explicit_entry (cc : CharClasses) (hcc : ClassesOK cc) (frags : List Frag)
    (hns : noSplitCRLF false (frags.map (·.text)) = true)
    (i : Nat) (f : Frag) (hf : frags[i]? = some f) (hne : f.text ≠ [])
    (l c : Nat) (hl : f.lineno = some (l + 1)) (hc : f.colno = some (c + 1)) :
    ∃ D es e, ∃ si : Nat,
      WInv (writeLoop cc WState.init frags) D es ∧
      e ∈ (D ++ [es]).getD (genPos (frags.map (·.text)) i).1 [] ∧
      e.genCol = ((genPos (frags.map (·.text)) i).2 : Int) ∧
      e.src = some ((si : Int), (l : Int), (c : Int)) ∧
      (match effSource (frags.take (i + 1)) with
        | some s => (writeLoop cc WState.init frags).sources.keys[si]? = some s
        | none => si = 0) ∧
      (match f.name with
        | none => e.name = none
        | some nm => ∃ ni : Nat, e.name = some (ni : Int) ∧
            (writeLoop cc WState.init frags).names.keys[ni]? = some nm) := by
  obtain ⟨hsplit, htake⟩ := split_at frags i f hf
  rw [genPos_take]
  generalize hpre : frags.take i = pre at hsplit htake
  generalize hpost : frags.drop (i + 1) = post at hsplit
  rw [htake]
  subst hsplit
  obtain ⟨D, es, hw, hmem, hcol, hS, hN, _⟩ := core_raw cc hcc pre f post hns hne
  rw [hl, hc, entryOf_explicit] at hmem
  rw [hl, hc] at hS hN
  refine ⟨D, es, _, _, hw, hmem, hcol, rfl, ?_, ?_⟩
  · have h1 := writeLoop_srcInv cc pre
    have h2 := srcInv_step (writeLoop cc WState.init pre).sources pre f h1
    have hreg : registers f = true := by
      have : f.text.isEmpty = false := by simpa [List.isEmpty_iff] using hne
      simp [registers, hl, hc, this]
    simp only [hreg, if_true] at h2
    rw [emitSeg_sources] at hS
    simp only at hS
    unfold SrcInv at h2
    split
    · rename_i s hs
      rw [hs] at h2
      exact getElem?_of_prefix hS h2
    · rename_i hs
      rw [hs] at h2
      simpa using h2
  · cases hn : f.name with
    | none => simp
    | some nm =>
      simp only [Option.map_some]
      refine ⟨_, rfl, ?_⟩
      rw [hn] at hN
      have := emitSeg_names_getElem (writeLoop cc WState.init pre) (l + 1) (c + 1) nm f.source
      rw [emitSeg_names] at this hN
      exact getElem?_of_prefix hN this


/-! ### facts that follow from decodability -/

theorem decodeLine_seg_ne {t g l r} (h : decodeLine t g l = some r) : ∀ seg ∈ l, seg ≠ [] := by
  induction l generalizing t g r with
  | nil => simp
  | cons x xs ih =>
    simp only [decodeLine] at h
    cases hx : decodeSeg t g x with
    | none => simp [hx] at h
    | some a =>
      obtain ⟨t1, g1, e⟩ := a
      simp only [hx] at h
      cases hxs : decodeLine t1 g1 xs with
      | none => simp [hxs] at h
      | some b =>
        intro seg hseg
        simp only [List.mem_cons] at hseg
        rcases hseg with rfl | hseg
        · rintro rfl; simp [decodeSeg] at hx
        · exact ih hxs seg hseg

theorem decodeLines_seg_ne {t m r} (h : decodeLines t m = some r) :
    ∀ line ∈ m, ∀ seg ∈ line, seg ≠ [] := by
  induction m generalizing t r with
  | nil => simp
  | cons x xs ih =>
    simp only [decodeLines] at h
    cases hx : decodeLine t 0 x with
    | none => simp [hx] at h
    | some a =>
      obtain ⟨t1, g1, e⟩ := a
      simp only [hx] at h
      cases hxs : decodeLines t1 xs with
      | none => simp [hxs] at h
      | some b =>
        intro line hline
        simp only [List.mem_cons] at hline
        rcases hline with rfl | hline
        · exact decodeLine_seg_ne hx
        · exact ih hxs line hline

theorem decode_seg_ne {m D} (h : decode m = some D) : ∀ line ∈ m, ∀ seg ∈ line, seg ≠ [] := by
  unfold decode at h
  cases hm : decodeLines Totals.zero m with
  | none => simp [hm] at h
  | some r => exact decodeLines_seg_ne hm

/-- range statement about one entry, relative to the final tables -/
def InRange (nsrc nname : Nat) (e : Entry) : Prop :=
  0 ≤ e.genCol ∧
  (∀ s l c, e.src = some (s, l, c) → 0 ≤ s ∧ s < (nsrc : Int) ∧ 0 ≤ l ∧ 0 ≤ c) ∧
  (∀ n, e.name = some n → 0 ≤ n ∧ n < (nname : Int))

theorem inRange_of_entryOK (keys : List Src) (nname : Nat) (e : Entry) (h : EntryOK keys.length nname e) :
    InRange (finalSources keys).length nname e := by
  obtain ⟨h0, h1, h2⟩ := h
  refine ⟨h0, ?_, h2⟩
  intro s l c hs
  obtain ⟨a, b, c', d⟩ := h1 s l c hs
  refine ⟨a, ?_, c', d⟩
  rw [finalSources_length]
  split
  · rename_i hk; subst hk; simp at b; omega
  · rename_i hk
    have : 0 < keys.length := List.length_pos_iff.mpr hk
    rcases b with b | b <;> omega

/-- the whole-map facts about the un-normalised result -/
theorem raw_facts (cc : CharClasses) (frags : List Frag) :
    ∃ D es, WInv (writeLoop cc WState.init frags) D es ∧
      decode ((writeLoop cc WState.init frags).done ++ [(writeLoop cc WState.init frags).cur]) = some (D ++ [es]) ∧
      (∀ line ∈ D ++ [es], Sorted line) ∧
      (∀ line ∈ D ++ [es], ∀ e ∈ line,
        InRange (finalSources (writeLoop cc WState.init frags).sources.keys).length
          (writeLoop cc WState.init frags).names.keys.length e) := by
  obtain ⟨D, es, hw, _⟩ := writeLoop_ext cc frags WState.init [] [] WInv.init
  refine ⟨D, es, hw, hw.decode_raw, ?_, ?_⟩
  · intro line hl
    rcases mem_snoc_lines hl with hl | rfl
    · exact hw.D_sorted _ hl
    · exact hw.es_sorted
  · intro line hl e he
    exact inRange_of_entryOK _ _ _ (hw.ok line hl e he)

theorem raw_line_count (cc : CharClasses) (hcc : ClassesOK cc) (frags : List Frag)
    (hns : noSplitCRLF false (frags.map (·.text)) = true) :
    ((writeLoop cc WState.init frags).done ++ [(writeLoop cc WState.init frags).cur]).length =
      lineCount (output frags) := by
  have := writeLoop_pos cc hcc frags WState.init [] hasPos_init hns
  simp only [List.nil_append] at this
  simp [lineCount, output, ← this.1]

end CalmVerif.Proofs.SourceMap
