/-
ES5 binding resolution commutes with a renaming of identifier occurrences that satisfies `condVal`
(Proofs/ObfBindCond.lean): resolving the renamed tree gives the image (`mapOcc`) of resolving the original.
Part 1: attribute look-ups, `identName`, hoisting, parameter lists and declaration sites under `renameBy`.
-/
import CalmVerif.Proofs.ObfBindCond
import Mathlib.Data.List.Basic
namespace CalmVerif.Obf
open CalmVerif CalmVerif.Unparse
open CalmVerif.Spec.Scope (BKind Binder Layer Ctx Occ Role identName isFunctionKind isVarDeclKind
  lookupEnv lookupLabel roleOf enter isPresent hoistVal hoistList hoistAttrs paramNames declOccs
  resolveVal resolveList resolveAttrs)

local notation "sLookup" => Spec.Scope.lookupAttr

/-- how `renameAttrsBy` treats the value of attribute `a` -/
def renAttrVal (ρ : Rho) (path : Path) (a : String) (v : Val) : Val :=
  if Val.isMeta a then v
  else match v with
    | .list xs => .list (renameListBy ρ path a 0 xs)
    | x => renameBy ρ ((a, 0) :: path) x

theorem renameAttrsBy_cons (ρ : Rho) (path : Path) (b : String) (x : Val) (rest : List (String × Val)) :
    renameAttrsBy ρ path ((b, x) :: rest) = (b, renAttrVal ρ path b x) :: renameAttrsBy ρ path rest := by
  cases x with
  | list xs =>
    rw [renameAttrsBy.eq_2]
    unfold renAttrVal
    split <;> rfl
  | none =>
    rw [renameAttrsBy.eq_3 _ _ _ _ _ (by intro xs h; cases h)]
    unfold renAttrVal
    split <;> rfl
  | bool v =>
    rw [renameAttrsBy.eq_3 _ _ _ _ _ (by intro xs h; cases h)]
    unfold renAttrVal
    split <;> rfl
  | int v =>
    rw [renameAttrsBy.eq_3 _ _ _ _ _ (by intro xs h; cases h)]
    unfold renAttrVal
    split <;> rfl
  | str v =>
    rw [renameAttrsBy.eq_3 _ _ _ _ _ (by intro xs h; cases h)]
    unfold renAttrVal
    split <;> rfl
  | node k as =>
    rw [renameAttrsBy.eq_3 _ _ _ _ _ (by intro xs h; cases h)]
    unfold renAttrVal
    split <;> rfl

theorem lookup_renameAttrsBy (ρ : Rho) (path : Path) (a : String) (as : List (String × Val)) :
    sLookup (renameAttrsBy ρ path as) a = (sLookup as a).map (renAttrVal ρ path a) := by
  induction as with
  | nil => rfl
  | cons q rest ih =>
    obtain ⟨b, x⟩ := q
    rw [renameAttrsBy_cons]
    simp only [Spec.Scope.lookupAttr]
    by_cases hb : (b == a) = true
    · have e : b = a := by simpa using hb
      subst e
      simp
    · simp only [hb, Bool.false_eq_true, if_false]
      exact ih

theorem lookup_setAttr (a : String) (v : Val) : ∀ (l : List (String × Val)),
    sLookup (setAttr l a v) a = if (sLookup l a).isSome then some v else none
  | [] => rfl
  | (b, x) :: rest => by
    simp only [setAttr]
    by_cases hb : (b == a) = true
    · simp [hb, Spec.Scope.lookupAttr]
    · simp only [hb, Bool.false_eq_true, if_false, Spec.Scope.lookupAttr]
      exact lookup_setAttr a v rest

theorem lookup_setAttr_ne (a c : String) (v : Val) (hc : (c == a) = false) : ∀ (l : List (String × Val)),
    sLookup (setAttr l a v) c = sLookup l c
  | [] => rfl
  | (b, x) :: rest => by
    simp only [setAttr]
    by_cases hb : (b == a) = true
    · have e : b = a := by simpa using hb
      subst e
      have : (b == c) = false := by
        have : c ≠ b := by simpa using hc
        simpa using fun h => this h.symm
      simp [hb, Spec.Scope.lookupAttr, this]
    · simp only [hb, Bool.false_eq_true, if_false, Spec.Scope.lookupAttr]
      by_cases hbc : (b == c) = true
      · simp [hbc]
      · simp only [hbc, Bool.false_eq_true, if_false]
        exact lookup_setAttr_ne a c v hc rest

theorem value_not_meta : Val.isMeta "value" = false := by decide

/-- the kind of a renamed node is unchanged -/
theorem renameBy_node (ρ : Rho) (path : Path) (k : String) (as : List (String × Val)) :
    ∃ as', renameBy ρ path (.node k as) = .node k as' ∧
      (k ≠ "Identifier" → as' = renameAttrsBy ρ path as) := by
  simp only [renameBy]
  by_cases hk : (k == "Identifier") = true
  · simp only [hk, if_true]
    have : k = "Identifier" := by simpa using hk
    split
    · exact ⟨_, rfl, fun h => absurd this h⟩
    · exact ⟨_, rfl, fun h => absurd this h⟩
  · simp only [hk, Bool.false_eq_true, if_false]
    exact ⟨_, rfl, fun _ => rfl⟩

/-- the spelling of a renamed Identifier -/
theorem identName_renameBy (ρ : Rho) (path : Path) : ∀ (v : Val),
    identName (renameBy ρ path v) = (identName v).map (ρ path)
  | .none => rfl
  | .bool _ => rfl
  | .int _ => rfl
  | .str _ => rfl
  | .list _ => by simp [renameBy, identName]
  | .node k as => by
    simp only [renameBy]
    by_cases hk : (k == "Identifier") = true
    · simp only [hk, if_true]
      cases hv : sLookup as "value" with
      | none =>
        simp only [identName, hk, if_true, hv, lookup_renameAttrsBy, Option.map_none]
      | some w =>
        cases w with
        | str s =>
          simp only [identName, hk, if_true, hv, lookup_setAttr, lookup_renameAttrsBy, Option.map_some,
            Option.isSome_some]
        | none => simp [identName, hk, hv, lookup_renameAttrsBy, renAttrVal, value_not_meta, renameBy]
        | bool b => simp [identName, hk, hv, lookup_renameAttrsBy, renAttrVal, value_not_meta, renameBy]
        | int n => simp [identName, hk, hv, lookup_renameAttrsBy, renAttrVal, value_not_meta, renameBy]
        | list xs => simp [identName, hk, hv, lookup_renameAttrsBy, renAttrVal, value_not_meta]
        | node k2 as2 =>
          obtain ⟨as', he, _⟩ := renameBy_node ρ (("value", 0) :: path) k2 as2
          simp [identName, hk, hv, lookup_renameAttrsBy, renAttrVal, value_not_meta, he]
    · simp only [hk, Bool.false_eq_true, if_false, identName, Option.map_none]


/-- not a list value -/
def NotList (v : Val) : Prop := ∀ xs, v = Val.list xs → False

theorem val_list_or (v : Val) : (∃ xs, v = .list xs) ∨ NotList v := by
  cases v with
  | list xs => exact Or.inl ⟨xs, rfl⟩
  | none => exact Or.inr (fun xs h => by cases h)
  | bool b => exact Or.inr (fun xs h => by cases h)
  | int n => exact Or.inr (fun xs h => by cases h)
  | str t => exact Or.inr (fun xs h => by cases h)
  | node k as => exact Or.inr (fun xs h => by cases h)

theorem renAttrVal_list (ρ : Rho) (path : Path) (a : String) (xs : List Val) (hm : Val.isMeta a = false) :
    renAttrVal ρ path a (.list xs) = .list (renameListBy ρ path a 0 xs) := by
  simp [renAttrVal, hm]

theorem renAttrVal_nonlist (ρ : Rho) (path : Path) (a : String) (v : Val) (hm : Val.isMeta a = false)
    (hv : NotList v) : renAttrVal ρ path a v = renameBy ρ ((a, 0) :: path) v := by
  cases v with
  | list xs => exact absurd rfl (fun h => hv xs h)
  | none => simp [renAttrVal, hm]
  | bool b => simp [renAttrVal, hm]
  | int n => simp [renAttrVal, hm]
  | str t => simp [renAttrVal, hm]
  | node k as => simp [renAttrVal, hm]

theorem renAttrVal_meta (ρ : Rho) (path : Path) (a : String) (v : Val) (hm : Val.isMeta a = true) :
    renAttrVal ρ path a v = v := by
  simp [renAttrVal, hm]

/-! ### hoisting -/

theorem renAttrVal_str (ρ : Rho) (path : Path) (a s : String) : renAttrVal ρ path a (.str s) = .str s := by
  unfold renAttrVal
  split
  · rfl
  · simp [renameBy]

theorem hoistAttrs_setAttr (a s t : String) : ∀ (l : List (String × Val)), sLookup l a = some (.str s) →
    hoistAttrs (setAttr l a (.str t)) = hoistAttrs l
  | [], h => by simp [Spec.Scope.lookupAttr] at h
  | (b, x) :: rest, h => by
    simp only [Spec.Scope.lookupAttr] at h
    simp only [setAttr]
    by_cases hb : (b == a) = true
    · simp only [hb, if_true, Option.some.injEq] at h
      subst h
      simp [hb, hoistAttrs, hoistVal]
    · simp only [hb, Bool.false_eq_true, if_false] at h ⊢
      simp only [hoistAttrs, hoistAttrs_setAttr a s t rest h]

/-- the Identifier at attribute `identifier` of a renamed node -/
theorem identSite_rename (τ : Tau) (ρ : Rho) (k : BKind) (s : SPath) (path : Path) (as : List (String × Val))
    (h : identSiteCond τ ρ k s path as = true) :
    (match sLookup (renameAttrsBy ρ path as) "identifier" with
      | some v => (identName v).toList
      | none => [])
    = (match sLookup as "identifier" with
      | some v => (identName v).toList
      | none => []).map (tauN τ k s) := by
  rw [lookup_renameAttrsBy]
  unfold identSiteCond at h
  cases hv : sLookup as "identifier" with
  | none => rfl
  | some v =>
    simp only [hv] at h
    simp only [Option.map_some]
    have hm : Val.isMeta "identifier" = false := by decide
    cases v with
    | list xs => simp [renAttrVal, hm, identName]
    | none => simp [renAttrVal, hm, identName, renameBy]
    | bool b => simp [renAttrVal, hm, identName, renameBy]
    | int n => simp [renAttrVal, hm, identName, renameBy]
    | str t => simp [renAttrVal, hm, identName, renameBy]
    | node k2 as2 =>
      have e : renAttrVal ρ path "identifier" (.node k2 as2) = renameBy ρ (("identifier", 0) :: path) (.node k2 as2) := by
        simp [renAttrVal, hm]
      rw [e, identName_renameBy]
      cases hn : identName (.node k2 as2) with
      | none => rfl
      | some n =>
        simp only [hn] at h
        have : ρ (("identifier", 0) :: path) n = tauN τ k s n := by simpa using h
        simp [this]

mutual
  theorem hoist_rename (τ : Tau) (ρ : Rho) (vk : BKind) (vs : SPath) : ∀ (path : Path) (v : Val),
      hoistCond τ ρ vk vs path v = true → hoistVal (renameBy ρ path v) = (hoistVal v).map (tauN τ vk vs)
    | _, .none, _ => rfl
    | _, .bool _, _ => rfl
    | _, .int _, _ => rfl
    | _, .str _, _ => rfl
    | path, .list xs, h => by
      simp only [hoistCond] at h
      simp only [renameBy, hoistVal]
      exact hoistList_rename τ ρ vk vs path "" 0 xs h
    | path, .node k as, h => by
      simp only [hoistCond] at h
      by_cases hid : (k == "Identifier") = true
      · have hk : k = "Identifier" := by simpa using hid
        subst hk
        have h' : hoistCondAttrs τ ρ vk vs path as = true := by simpa [isFunctionKind, isVarDeclKind] using h
        have ih := hoistAttrs_rename τ ρ vk vs path as h'
        simp only [renameBy, beq_self_eq_true, if_true]
        split
        · rename_i s hv
          have hl : sLookup (renameAttrsBy ρ path as) "value" = some (.str s) := by
            rw [lookup_renameAttrsBy, hv]; simp [renAttrVal_str]
          simp [hoistVal, isFunctionKind, isVarDeclKind, hoistAttrs_setAttr _ _ _ _ hl, ih]
        · simp [hoistVal, isFunctionKind, isVarDeclKind, ih]
      · have e : renameBy ρ path (.node k as) = .node k (renameAttrsBy ρ path as) := by
          simp [renameBy, hid]
        rw [e]
        simp only [hoistVal]
        by_cases hf : (k == "FuncDecl") = true
        · simp only [hf, if_true] at h ⊢
          exact identSite_rename τ ρ vk vs path as h
        · simp only [hf, Bool.false_eq_true, if_false] at h ⊢
          by_cases hfk : isFunctionKind k = true
          · simp [hfk]
          · simp only [hfk, Bool.false_eq_true, if_false, Bool.and_eq_true] at h ⊢
            rw [hoistAttrs_rename τ ρ vk vs path as h.2, List.map_append]
            congr 1
            by_cases hvd : isVarDeclKind k = true
            · simp only [hvd, if_true] at h ⊢
              exact identSite_rename τ ρ vk vs path as h.1
            · simp [hvd]
  theorem hoistList_rename (τ : Tau) (ρ : Rho) (vk : BKind) (vs : SPath) : ∀ (path : Path) (a : String) (i : Nat)
      (xs : List Val), hoistCondList τ ρ vk vs path a i xs = true →
      hoistList (renameListBy ρ path a i xs) = (hoistList xs).map (tauN τ vk vs)
    | _, _, _, [], _ => rfl
    | path, a, i, v :: rest, h => by
      simp only [hoistCondList, Bool.and_eq_true] at h
      simp only [renameListBy, hoistList, List.map_append]
      rw [hoist_rename τ ρ vk vs _ v h.1, hoistList_rename τ ρ vk vs path a (i + 1) rest h.2]
  theorem hoistAttrs_rename (τ : Tau) (ρ : Rho) (vk : BKind) (vs : SPath) : ∀ (path : Path)
      (as : List (String × Val)), hoistCondAttrs τ ρ vk vs path as = true →
      hoistAttrs (renameAttrsBy ρ path as) = (hoistAttrs as).map (tauN τ vk vs)
    | _, [], _ => rfl
    | path, (a, v) :: rest, h => by
      rw [renameAttrsBy_cons]
      simp only [hoistAttrs, List.map_append]
      rcases val_list_or v with ⟨xs, rfl⟩ | hnl
      · rw [hoistCondAttrs.eq_2] at h
        simp only [Bool.and_eq_true] at h
        rw [hoistAttrs_rename τ ρ vk vs path rest h.2]
        congr 1
        by_cases hm : Val.isMeta a = true
        · simp [hm]
        · have hm' : Val.isMeta a = false := by simpa using hm
          simp only [hm, Bool.false_eq_true, if_false] at h ⊢
          rw [renAttrVal_list _ _ _ _ hm']
          simp only [hoistVal]
          exact hoistList_rename τ ρ vk vs path a 0 xs h.1
      · rw [hoistCondAttrs.eq_3 _ _ _ _ _ _ _ _ hnl] at h
        simp only [Bool.and_eq_true] at h
        rw [hoistAttrs_rename τ ρ vk vs path rest h.2]
        congr 1
        by_cases hm : Val.isMeta a = true
        · simp [hm]
        · have hm' : Val.isMeta a = false := by simpa using hm
          simp only [hm, Bool.false_eq_true, if_false] at h ⊢
          rw [renAttrVal_nonlist _ _ _ _ hm' hnl]
          exact hoist_rename τ ρ vk vs ((a, 0) :: path) v h.1
end

end CalmVerif.Obf
