/-
The name generator of Model/Obfuscate.lean enumerates an infinite duplicate-free sequence:
`succDigits` strictly increases the bijective-numeration value `dval`, digit strings stay in range,
`digitsName` is injective on in-range digit strings when the charset has no duplicates, so `skip.length + 1`
rounds of `nextName` always find a symbol outside `skip` (pigeonhole), and the symbols `drawFrom` returns are
pairwise distinct, non-empty and outside `skip`.
-/
import CalmVerif.Model.Obfuscate
import Mathlib.Data.List.Nodup
import Mathlib.Data.List.Perm.Subperm
namespace CalmVerif.Obf
open CalmVerif CalmVerif.Unparse

/-- value of a digit string in bijective base-`b` numeration (least significant digit first) -/
def dval (b : Nat) : List Nat → Nat
  | [] => 0
  | d :: ds => (d + 1) + b * dval b ds

/-- every digit is a valid index into a charset of size `b` -/
def Good (b : Nat) (ds : List Nat) : Prop := ∀ d ∈ ds, d < b

theorem good_nil (b : Nat) : Good b [] := by intro d h; cases h

theorem succ_good {b : Nat} (hb : 0 < b) : ∀ ds, Good b ds → Good b (succDigits b ds)
  | [], _ => by
    intro d h
    simp [succDigits] at h
    omega
  | d :: ds, h => by
    unfold succDigits
    split
    · intro x hx
      rcases List.mem_cons.1 hx with rfl | hx
      · assumption
      · exact h x (List.mem_cons_of_mem _ hx)
    · intro x hx
      rcases List.mem_cons.1 hx with rfl | hx
      · exact hb
      · exact succ_good hb ds (fun y hy => h y (List.mem_cons_of_mem _ hy)) x hx

theorem succ_val {b : Nat} : ∀ ds, Good b ds → dval b (succDigits b ds) = dval b ds + 1
  | [], _ => by simp [succDigits, dval]
  | d :: ds, h => by
    have hd : d < b := h d (List.mem_cons_self ..)
    unfold succDigits
    split
    · simp [dval]; omega
    · have ih := succ_val ds (fun y hy => h y (List.mem_cons_of_mem _ hy))
      have e : d + 1 = b := by omega
      simp only [dval, ih]
      rw [Nat.mul_add]
      omega

theorem succ_ne_nil (b : Nat) : ∀ ds, succDigits b ds ≠ []
  | [] => by simp [succDigits]
  | d :: ds => by unfold succDigits; split <;> simp

/-- the symbol of an in-range digit string -/
def nameOf (cs : List Char) (ds : List Nat) : String :=
  String.ofList (ds.reverse.map (fun d => (cs[d]?).getD 'a'))

theorem mapM_getElem {cs : List Char} : ∀ (l : List Nat), (∀ d ∈ l, d < cs.length) →
    l.mapM (fun d => cs[d]?) = some (l.map (fun d => (cs[d]?).getD 'a'))
  | [], _ => by simp
  | d :: l, h => by
    have hd : d < cs.length := h d (List.mem_cons_self ..)
    have ih := mapM_getElem l (fun x hx => h x (List.mem_cons_of_mem _ hx))
    simp [List.mapM_cons, ih, List.getElem?_eq_getElem hd]

theorem digitsName_good {cs : List Char} {ds : List Nat} (h : Good cs.length ds) :
    digitsName cs ds = some (nameOf cs ds) := by
  unfold digitsName nameOf
  rw [mapM_getElem ds.reverse (fun d hd => h d (List.mem_reverse.1 hd))]
  rfl

theorem map_inj_on {α β : Type} (f : α → β) : ∀ (l1 l2 : List α),
    (∀ x ∈ l1, ∀ y ∈ l2, f x = f y → x = y) → l1.map f = l2.map f → l1 = l2
  | [], [], _, _ => rfl
  | [], _ :: _, _, h => by simp at h
  | _ :: _, [], _, h => by simp at h
  | a :: l1, b :: l2, hinj, h => by
    simp only [List.map_cons, List.cons.injEq] at h
    have e : a = b := hinj a (List.mem_cons_self ..) b (List.mem_cons_self ..) h.1
    have r := map_inj_on f l1 l2
      (fun x hx y hy => hinj x (List.mem_cons_of_mem _ hx) y (List.mem_cons_of_mem _ hy)) h.2
    rw [e, r]

theorem nameOf_inj {cs : List Char} (hnd : cs.Nodup) {d1 d2 : List Nat}
    (h1 : Good cs.length d1) (h2 : Good cs.length d2) (h : nameOf cs d1 = nameOf cs d2) : d1 = d2 := by
  unfold nameOf at h
  rw [String.ofList_inj] at h
  have := map_inj_on (fun d => (cs[d]?).getD 'a') d1.reverse d2.reverse (by
    intro x hx y hy hxy
    have hx' : x < cs.length := h1 x (List.mem_reverse.1 hx)
    have hy' : y < cs.length := h2 y (List.mem_reverse.1 hy)
    simp only [List.getElem?_eq_getElem hx', List.getElem?_eq_getElem hy', Option.getD_some] at hxy
    exact (hnd.getElem_inj_iff).1 hxy) h
  simpa using congrArg List.reverse this

theorem nameOf_ne_empty (cs : List Char) {ds : List Nat} (h : ds ≠ []) : nameOf cs ds ≠ "" := by
  unfold nameOf
  intro e
  have : (ds.reverse.map (fun d => (cs[d]?).getD 'a')) = [] := by
    have := congrArg String.toList e
    simpa using this
  simp at this
  exact h this

/-- `k` successors -/
def iter (b : Nat) : Nat → List Nat → List Nat
  | 0, ds => ds
  | k + 1, ds => iter b k (succDigits b ds)

theorem iter_good {b : Nat} (hb : 0 < b) : ∀ k ds, Good b ds → Good b (iter b k ds)
  | 0, _, h => h
  | k + 1, ds, h => iter_good hb k _ (succ_good hb ds h)

theorem iter_val {b : Nat} (hb : 0 < b) : ∀ k ds, Good b ds → dval b (iter b k ds) = dval b ds + k
  | 0, _, _ => rfl
  | k + 1, ds, h => by
    simp only [iter]
    rw [iter_val hb k _ (succ_good hb ds h), succ_val ds h]
    omega

theorem iter_succ_ne_nil (b : Nat) : ∀ k ds, iter b (k + 1) ds ≠ []
  | 0, ds => succ_ne_nil b ds
  | k + 1, ds => iter_succ_ne_nil b k (succDigits b ds)

/-- what `nextName` does: it stops at the first successor whose symbol is outside `skip` -/
theorem nextName_spec {cs : List Char} (skip : List String) (hb : 0 < cs.length) :
    ∀ fuel ds, Good cs.length ds →
      (∃ k, k < fuel ∧ nameOf cs (iter cs.length (k + 1) ds) ∉ skip ∧
        nextName cs skip fuel ds = .ok (nameOf cs (iter cs.length (k + 1) ds), iter cs.length (k + 1) ds)) ∨
      ((∀ j, j < fuel → nameOf cs (iter cs.length (j + 1) ds) ∈ skip) ∧ nextName cs skip fuel ds = .error .fuel)
  | 0, ds, _ => by
    right
    exact ⟨fun j hj => absurd hj (Nat.not_lt_zero j), rfl⟩
  | fuel + 1, ds, h => by
    have hs := succ_good hb ds h
    simp only [nextName, digitsName_good hs]
    by_cases hc : skip.contains (nameOf cs (succDigits cs.length ds)) = true
    · simp only [hc, if_true]
      rcases nextName_spec skip hb fuel (succDigits cs.length ds) hs with ⟨k, hk, hn, he⟩ | ⟨hall, he⟩
      · left
        exact ⟨k + 1, by omega, hn, he⟩
      · right
        refine ⟨?_, he⟩
        intro j hj
        cases j with
        | zero => simpa [iter] using hc
        | succ j => exact hall j (by omega)
    · left
      have hc' : nameOf cs (succDigits cs.length ds) ∉ skip := by simpa using hc
      refine ⟨0, by omega, ?_, ?_⟩
      · simpa [iter] using hc'
      · simp [hc', iter]

/-- pigeonhole: `skip.length + 1` distinct symbols cannot all be in `skip` -/
theorem not_all_in_skip {cs : List Char} (hnd : cs.Nodup) (hb : 0 < cs.length) (skip : List String)
    (ds : List Nat) (h : Good cs.length ds) :
    ¬ (∀ j, j < skip.length + 1 → nameOf cs (iter cs.length (j + 1) ds) ∈ skip) := by
  intro hall
  let l := (List.range (skip.length + 1)).map (fun j => nameOf cs (iter cs.length (j + 1) ds))
  have hsub : l ⊆ skip := by
    intro x hx
    simp only [l, List.mem_map, List.mem_range] at hx
    obtain ⟨j, hj, rfl⟩ := hx
    exact hall j hj
  have hnodup : l.Nodup := by
    refine List.Nodup.map_on ?_ List.nodup_range
    intro i _ j _ hij
    have e := nameOf_inj hnd (iter_good hb _ _ h) (iter_good hb _ _ h) hij
    have v := congrArg (dval cs.length) e
    rw [iter_val hb _ _ h, iter_val hb _ _ h] at v
    omega
  have := (hnodup.subperm hsub).length_le
  simp [l] at this
  omega

/-- one `next()`: succeeds, the symbol is outside `skip`, non-empty, and is the symbol of a strictly later
in-range digit string -/
theorem genNext_spec {cs : List Char} (hnd : cs.Nodup) (hb : 0 < cs.length) (skip : List String)
    (ds : List Nat) (h : Good cs.length ds) :
    ∃ ds', genNext cs skip ds = .ok (nameOf cs ds', ds') ∧ Good cs.length ds' ∧
      dval cs.length ds < dval cs.length ds' ∧ nameOf cs ds' ∉ skip ∧ nameOf cs ds' ≠ "" := by
  unfold genNext
  rcases nextName_spec skip hb (skip.length + 1) ds h with ⟨k, _, hn, he⟩ | ⟨hall, _⟩
  · refine ⟨_, he, iter_good hb _ _ h, ?_, hn, nameOf_ne_empty cs (iter_succ_ne_nil _ k ds)⟩
    rw [iter_val hb _ _ h]
    omega
  · exact absurd hall (not_all_in_skip hnd hb skip ds h)

/-- the symbols drawn from state `ds` on: all later than `ds`, pairwise distinct, outside `skip`, non-empty -/
theorem drawFrom_spec {cs : List Char} (hnd : cs.Nodup) (hb : 0 < cs.length) (skip : List String) :
    ∀ n ds, Good cs.length ds →
      ∃ names, drawFrom cs skip n ds = .ok names ∧ names.length = n ∧ names.Nodup ∧
        ∀ x ∈ names, x ∉ skip ∧ x ≠ "" ∧
          ∃ ds', Good cs.length ds' ∧ dval cs.length ds < dval cs.length ds' ∧ x = nameOf cs ds'
  | 0, ds, _ => ⟨[], rfl, rfl, List.nodup_nil, fun x hx => by cases hx⟩
  | n + 1, ds, h => by
    obtain ⟨ds1, he, hg, hv, hns, hne⟩ := genNext_spec hnd hb skip ds h
    obtain ⟨rest, hr, hl, hnd', hall⟩ := drawFrom_spec hnd hb skip n ds1 hg
    refine ⟨nameOf cs ds1 :: rest, ?_, by simp [hl], ?_, ?_⟩
    · simp [drawFrom, he, hr]
    · refine List.nodup_cons.2 ⟨?_, hnd'⟩
      intro hmem
      obtain ⟨_, _, ds2, hg2, hv2, e2⟩ := hall _ hmem
      have := nameOf_inj hnd hg hg2 e2
      rw [this] at hv2
      omega
    · intro x hx
      rcases List.mem_cons.1 hx with rfl | hx
      · exact ⟨hns, hne, ds1, hg, hv, rfl⟩
      · obtain ⟨a, b, ds2, hg2, hv2, e2⟩ := hall x hx
        exact ⟨a, b, ds2, hg2, by omega, e2⟩

theorem draw_spec {cs : List Char} (hnd : cs.Nodup) (hne : cs ≠ []) (skip : List String) (n : Nat) :
    ∃ names, draw cs skip n = .ok names ∧ names.length = n ∧ names.Nodup ∧
      ∀ x ∈ names, x ∉ skip ∧ x ≠ "" := by
  have hb : 0 < cs.length := List.length_pos_iff.2 hne
  obtain ⟨names, h1, h2, h3, h4⟩ := drawFrom_spec hnd hb skip n [] (good_nil _)
  exact ⟨names, h1, h2, h3, fun x hx => ⟨(h4 x hx).1, (h4 x hx).2.1⟩⟩

/-! ### set helpers -/

theorem mem_sadd {s : List String} {x y : String} : y ∈ sadd s x ↔ y ∈ s ∨ y = x := by
  unfold sadd
  split
  · rename_i h
    have : x ∈ s := by simpa using h
    constructor
    · exact Or.inl
    · rintro (h | rfl)
      · exact h
      · exact this
  · simp

theorem mem_sunion {a : List String} : ∀ {b : List String} {y : String}, y ∈ sunion a b ↔ y ∈ a ∨ y ∈ b := by
  intro b
  induction b generalizing a with
  | nil => intro y; simp [sunion]
  | cons x b ih =>
    intro y
    have : sunion a (x :: b) = sunion (sadd a x) b := by simp [sunion]
    rw [this, ih, mem_sadd]
    simp only [List.mem_cons]
    tauto

end CalmVerif.Obf
