/-
Two runs of the main walk that differ only in the Resolve hook (`Obfuscator.resolve` against the hook that
answers `node.value`) produce chunk streams that differ only at the tokens `Attr(Resolve())` emits for
`Identifier` nodes: there the obfuscating run hands the token handler the resolved name, the plain run the
node's own value — same rule position, same node, same sourcepath stack (`TokRel`).  Everything else
(layout chunks, every other fragment, their order) is identical (`CRel`).
-/
import CalmVerif.Proofs.ObfWalkInv
import CalmVerif.Model.Obfuscate
namespace CalmVerif.Obf
open CalmVerif CalmVerif.Unparse

/-- the two hooks agree, or both answer with a string and the plain one answers the node's value -/
def HookRel (Q : String → String → Prop) (fA fB : Path → Val → Unit → Except Err (Val × Unit)) : Prop :=
  ∀ path node va vb sa sb, fA path node () = .ok (va, sa) → fB path node () = .ok (vb, sb) →
    va = vb ∨ ∃ ta tb, va = .str ta ∧ vb = .str tb ∧ nodeAttr node "value" = some (.str tb) ∧ Q ta tb

/-- the configuration of the plain run: the same, with the other Resolve hook -/
def withResolve (cfg : Cfg Unit) (f : Path → Val → Unit → Except Err (Val × Unit)) : Cfg Unit :=
  { cfg with resolve := some f }

/-- the token emitted for an Identifier's resolved name `ta` / for its own value `tb` -/
def TokRel (Q : String → String → Prop) (cfg : Cfg Unit) (ca cb : List Chunk) : Prop :=
  ∃ pos node src ta tb, isKind cfg.hd.identifierKinds node = true ∧
    nodeAttr node "value" = some (.str tb) ∧ Q ta tb ∧
    emitToken cfg pos node src (.str ta) = .ok ca ∧ emitToken cfg pos node src (.str tb) = .ok cb

inductive CRel (Q : String → String → Prop) (cfg : Cfg Unit) : List Chunk → List Chunk → Prop where
  | refl (cs : List Chunk) : CRel Q cfg cs cs
  | tok (ca cb : List Chunk) : TokRel Q cfg ca cb → CRel Q cfg ca cb
  | app (a b a' b' : List Chunk) : CRel Q cfg a b → CRel Q cfg a' b' → CRel Q cfg (a ++ a') (b ++ b')

/-! ### what does not depend on the Resolve hook (all by unfolding) -/

theorem getSrc_withResolve (cfg : Cfg Unit) (f : Path → Val → Unit → Except Err (Val × Unit)) (path : Path)
    (node : Val) (a : AttrSrc) (s : Unit) (h : a ≠ .resolve) :
    getSrc (withResolve cfg f) path node a s = getSrc cfg path node a s := by
  cases a <;> first | rfl | exact absurd rfl h

theorem iterNode_withResolve (cfg : Cfg Unit) (f : Path → Val → Unit → Except Err (Val × Unit)) (node : Val) :
    iterNode (withResolve cfg f) node = iterNode cfg node := rfl

theorem emitToken_withResolve (cfg : Cfg Unit) (f : Path → Val → Unit → Except Err (Val × Unit))
    (pos : Option Int) (cur : Val) (src : Src) (v : Val) :
    emitToken (withResolve cfg f) pos cur src v = emitToken cfg pos cur src v := rfl

/-- the part of `getIter` after `_getattr` -/
def iterPost (cfg : Cfg Unit) (a : String) (v : Val) (s' : Unit) : Except Err (List (Step × Val) × Unit) :=
  match v with
  | .list xs => .ok ((enumFrom 0 xs).map (fun p => ((a, p.1), p.2)), s')
  | .node _ _ => (iterNode cfg v).map (fun l => (l, s'))
  | .none => .error (.typeError "'NoneType' object is not iterable")
  | .int _ => .error (.typeError "'int' object is not iterable")
  | .bool _ => .error (.typeError "'bool' object is not iterable")
  | .str _ => .error (.unmodelled "JoinAttr over a str")

theorem getIter_resolve (cfg : Cfg Unit) (path : Path) (node : Val) (s : Unit) :
    getIter cfg path node .resolve s =
      match getSrc cfg path node .resolve s with
      | .error e => .error e
      | .ok (v, s') => iterPost cfg "value" v s' := by
  simp only [getIter, iterPost]
  cases getSrc cfg path node .resolve s with
  | error e => rfl
  | ok p =>
    obtain ⟨v, s'⟩ := p
    cases v <;> rfl

theorem iterPost_withResolve (cfg : Cfg Unit) (f : Path → Val → Unit → Except Err (Val × Unit)) (a : String)
    (v : Val) (s : Unit) : iterPost (withResolve cfg f) a v s = iterPost cfg a v s := by
  cases v <;> rfl

theorem getIter_withResolve (cfg : Cfg Unit) (f : Path → Val → Unit → Except Err (Val × Unit)) (path : Path)
    (node : Val) (a : AttrSrc) (s : Unit) (h : a ≠ .resolve) :
    getIter (withResolve cfg f) path node a s = getIter cfg path node a s := by
  cases a <;> first | rfl | exact absurd rfl h

/-- `Attr.__call__` / `CommentsAttr.__call__` -/
def attrStep (cfg : Cfg Unit) (wn : WalkFn Unit) (path : Path) (src : Src) (node : Val) (a : AttrSrc)
    (pos : Option Int) (s : Unit) : Except Err (List Chunk × Unit) :=
  match getSrc cfg path node a s with
  | .error e => .error e
  | .ok (v, s') =>
    if isEmptyVal v then .ok ([], s')
    else walkValue cfg wn path src node pos
      (match a with | .name n => (n, 0) | .declare n => (n, 0) | _ => ("value", 0)) v s'

theorem ruleStep_attr (cfg : Cfg Unit) (wn : WalkFn Unit) (path : Path) (src : Src) (node : Val) (a : AttrSrc)
    (pos : Option Int) (s : Unit) :
    ruleStep cfg wn path src node (.attr a pos) s = attrStep cfg wn path src node a pos s := by
  simp only [ruleStep, attrStep]
  cases getSrc cfg path node a s with
  | error e => rfl
  | ok p => obtain ⟨v, s'⟩ := p; rfl

theorem ruleStep_commentsAttr (cfg : Cfg Unit) (wn : WalkFn Unit) (path : Path) (src : Src) (node : Val)
    (a : AttrSrc) (pos : Option Int) (s : Unit) :
    ruleStep cfg wn path src node (.commentsAttr a pos) s = attrStep cfg wn path src node a pos s := by
  simp only [ruleStep, attrStep]
  cases getSrc cfg path node a s with
  | error e => rfl
  | ok p => obtain ⟨v, s'⟩ := p; rfl

section
variable {Q : String → String → Prop} {cfg : Cfg Unit} {fA fB : Path → Val → Unit → Except Err (Val × Unit)}
  (hA : cfg.resolve = some fA) (hrel : HookRel Q fA fB)
include hA hrel

theorem getSrc_rel (path : Path) (node : Val) (a : AttrSrc) (va vb : Val) (sa sb : Unit)
    (ha : getSrc cfg path node a () = .ok (va, sa))
    (hb : getSrc (withResolve cfg fB) path node a () = .ok (vb, sb)) :
    va = vb ∨ (a = .resolve ∧ isKind cfg.hd.identifierKinds node = true ∧
      ∃ ta tb, va = .str ta ∧ vb = .str tb ∧ nodeAttr node "value" = some (.str tb) ∧ Q ta tb) := by
  by_cases hr : a = .resolve
  · subst hr
    have eb : getSrc (withResolve cfg fB) path node .resolve () =
        if !isKind cfg.hd.identifierKinds node then
          .error (.typeError "the Resolve Deferrable type only works with Identifier")
        else fB path node () := rfl
    rw [eb] at hb
    simp only [getSrc, hA] at ha
    split at ha
    · cases ha
    · rename_i hk
      rw [if_neg hk] at hb
      rcases hrel path node va vb sa sb ha hb with h | h
      · exact Or.inl h
      · exact Or.inr ⟨rfl, by simpa using hk, h⟩
  · rw [getSrc_withResolve cfg fB path node a () hr, ha] at hb
    cases hb; exact Or.inl rfl

theorem getIter_rel (path : Path) (node : Val) (a : AttrSrc) (ia ib : List (Step × Val)) (sa sb : Unit)
    (ha : getIter cfg path node a () = .ok (ia, sa))
    (hb : getIter (withResolve cfg fB) path node a () = .ok (ib, sb)) : ia = ib := by
  by_cases hr : a = .resolve
  · subst hr
    rw [getIter_resolve] at ha hb
    split at ha
    · cases ha
    · rename_i va sa' ga
      split at hb
      · cases hb
      · rename_i vb sb' gb
        rw [iterPost_withResolve] at hb
        rcases getSrc_rel hA hrel path node .resolve va vb _ _ ga gb with h | ⟨_, _, ta, tb, h1, h2, _⟩
        · subst h
          rw [ha] at hb; cases hb; rfl
        · subst h1; cases ha
  · rw [getIter_withResolve cfg fB path node a () hr, ha] at hb
    cases hb; rfl

/-- the recursive callbacks are related -/
def WalkFnRel (Q : String → String → Prop) (cfg : Cfg Unit) (wa wb : WalkFn Unit) : Prop :=
  ∀ path src node defn ca cb sa sb, wa path src node defn () = .ok (ca, sa) →
    wb path src node defn () = .ok (cb, sb) → CRel Q cfg ca cb

omit hA hrel in
theorem walkValue_rel (wa wb : WalkFn Unit) (hw : WalkFnRel Q cfg wa wb) (path : Path) (src : Src) (cur : Val)
    (pos : Option Int) (st : Step) (v : Val) (ca cb : List Chunk) (sa sb : Unit)
    (ha : walkValue cfg wa path src cur pos st v () = .ok (ca, sa))
    (hb : walkValue (withResolve cfg fB) wb path src cur pos st v () = .ok (cb, sb)) : CRel Q cfg ca cb := by
  cases v with
  | node k as => exact hw _ _ _ _ _ _ _ _ ha hb
  | none =>
    have e : walkValue (withResolve cfg fB) wb path src cur pos st .none () = walkValue cfg wa path src cur pos st .none () := rfl
    rw [e, ha] at hb; cases hb; exact .refl _
  | bool b =>
    have e : walkValue (withResolve cfg fB) wb path src cur pos st (.bool b) () = walkValue cfg wa path src cur pos st (.bool b) () := rfl
    rw [e, ha] at hb; cases hb; exact .refl _
  | int n =>
    have e : walkValue (withResolve cfg fB) wb path src cur pos st (.int n) () = walkValue cfg wa path src cur pos st (.int n) () := rfl
    rw [e, ha] at hb; cases hb; exact .refl _
  | str t =>
    have e : walkValue (withResolve cfg fB) wb path src cur pos st (.str t) () = walkValue cfg wa path src cur pos st (.str t) () := rfl
    rw [e, ha] at hb; cases hb; exact .refl _
  | list xs =>
    have e : walkValue (withResolve cfg fB) wb path src cur pos st (.list xs) () = walkValue cfg wa path src cur pos st (.list xs) () := rfl
    rw [e, ha] at hb; cases hb; exact .refl _

omit hA hrel in
theorem seqM_rel {α : Type} (f g : α → Unit → Except Err (List Chunk × Unit))
    (hfg : ∀ x ca cb sa sb, f x () = .ok (ca, sa) → g x () = .ok (cb, sb) → CRel Q cfg ca cb) :
    ∀ (xs : List α) (ca cb : List Chunk) (sa sb : Unit), seqM f xs () = .ok (ca, sa) →
      seqM g xs () = .ok (cb, sb) → CRel Q cfg ca cb := by
  intro xs
  induction xs with
  | nil =>
    intro ca cb sa sb ha hb
    rw [seqM_nil_ok] at ha hb
    rw [ha.1, hb.1]; exact .refl _
  | cons x xs ih =>
    intro ca cb sa sb ha hb
    rw [seqM_cons_ok] at ha hb
    obtain ⟨a1, s1, a2, h1, h2, rfl⟩ := ha
    obtain ⟨b1, t1, b2, g1, g2, rfl⟩ := hb
    exact .app _ _ _ _ (hfg x _ _ _ _ h1 g1) (ih _ _ _ _ h2 g2)

omit hA hrel in
theorem runAct_rel (wa wb : WalkFn Unit) (hw : WalkFnRel Q cfg wa wb) (path : Path) (src : Src) (cur : Val)
    (pos : Option Int) (sep : List Rule) (a : JAct) (ca cb : List Chunk) (sa sb : Unit)
    (ha : runAct cfg wa path src cur pos sep a () = .ok (ca, sa))
    (hb : runAct (withResolve cfg fB) wb path src cur pos sep a () = .ok (cb, sb)) : CRel Q cfg ca cb := by
  cases a with
  | item st v => exact walkValue_rel wa wb hw _ _ _ _ _ _ _ _ _ _ ha hb
  | sep => exact hw _ _ _ _ _ _ _ _ ha hb
  | esep => exact hw _ _ _ _ _ _ _ _ ha hb

theorem attr_rel (wa wb : WalkFn Unit) (hw : WalkFnRel Q cfg wa wb) (path : Path) (src : Src) (node : Val)
    (a : AttrSrc) (pos : Option Int) (ca cb : List Chunk) (sa sb : Unit)
    (ha : attrStep cfg wa path src node a pos () = .ok (ca, sa))
    (hb : attrStep (withResolve cfg fB) wb path src node a pos () = .ok (cb, sb)) :
    CRel Q cfg ca cb := by
  unfold attrStep at ha hb
  split at ha
  · cases ha
  · rename_i va s1 ga
    split at hb
    · cases hb
    · rename_i vb s2 gb
      rcases getSrc_rel hA hrel path node a va vb _ _ ga gb with h | ⟨_, hk, ta, tb, h1, h2, h3, hq⟩
      · subst h
        by_cases he : isEmptyVal va = true
        · rw [if_pos he] at ha hb
          simp only [Except.ok.injEq, Prod.mk.injEq] at ha hb
          rw [← ha.1, ← hb.1]; exact .refl _
        · rw [if_neg he] at ha hb
          exact walkValue_rel wa wb hw _ _ _ _ _ _ _ _ _ _ ha hb
      · subst h1; subst h2
        have he : ¬ (isEmptyVal (.str ta) = true) := by simp [isEmptyVal]
        have he' : ¬ (isEmptyVal (.str tb) = true) := by simp [isEmptyVal]
        rw [if_neg he] at ha
        rw [if_neg he'] at hb
        simp only [walkValue] at ha hb
        rw [emitToken_withResolve] at hb
        obtain ⟨xa, ea, e1⟩ := exc_map_ok ha
        obtain ⟨xb, eb, e2⟩ := exc_map_ok hb
        simp only [Prod.mk.injEq] at e1 e2
        rw [← e1.1, ← e2.1]
        exact .tok _ _ ⟨pos, node, src, ta, tb, hk, h3, hq, ea, eb⟩

theorem ruleStep_rel (wa wb : WalkFn Unit) (hw : WalkFnRel Q cfg wa wb) (path : Path) (src : Src) (node : Val)
    (rule : Rule) (ca cb : List Chunk) (sa sb : Unit)
    (ha : ruleStep cfg wa path src node rule () = .ok (ca, sa))
    (hb : ruleStep (withResolve cfg fB) wb path src node rule () = .ok (cb, sb)) : CRel Q cfg ca cb := by
  cases rule with
  | layout m =>
    have e : ruleStep (withResolve cfg fB) wb path src node (.layout m) () = ruleStep cfg wa path src node (.layout m) () := rfl
    rw [e, ha] at hb; cases hb; exact .refl _
  | struct m =>
    have e : ruleStep (withResolve cfg fB) wb path src node (.struct m) () = ruleStep cfg wa path src node (.struct m) () := rfl
    rw [e, ha] at hb; cases hb; exact .refl _
  | text v pos =>
    have e : ruleStep (withResolve cfg fB) wb path src node (.text v pos) () = ruleStep cfg wa path src node (.text v pos) () := rfl
    rw [e, ha] at hb; cases hb; exact .refl _
  | attr a pos =>
    rw [ruleStep_attr] at ha hb
    exact attr_rel hA hrel wa wb hw path src node a pos ca cb sa sb ha hb
  | commentsAttr a pos =>
    rw [ruleStep_commentsAttr] at ha hb
    exact attr_rel hA hrel wa wb hw path src node a pos ca cb sa sb ha hb
  | operator a v pos =>
    simp only [ruleStep] at ha hb
    split at ha
    · cases ha
    · rename_i w hwv
      rw [hwv] at hb
      simp only at hb
      by_cases he : isEmptyVal w = true
      · rw [if_pos he] at ha hb
        simp only [Except.ok.injEq, Prod.mk.injEq] at ha hb
        rw [← ha.1, ← hb.1]; exact .refl _
      · rw [if_neg he] at ha hb
        exact walkValue_rel wa wb hw _ _ _ _ _ _ _ _ _ _ ha hb
  | optional a body =>
    simp only [ruleStep] at ha hb
    split at ha
    · cases ha
    · rename_i w hwv
      rw [hwv] at hb
      simp only at hb
      by_cases he : isEmptyVal w = true
      · rw [if_pos he] at ha hb
        simp only [Except.ok.injEq, Prod.mk.injEq] at ha hb
        rw [← ha.1, ← hb.1]; exact .refl _
      · rw [if_neg he] at ha hb
        exact hw _ _ _ _ _ _ _ _ ha hb
  | joinAttr a sep pos =>
    simp only [ruleStep] at ha hb
    split at ha
    · cases ha
    · rename_i ia s1 ga
      split at hb
      · cases hb
      · rename_i ib s2 gb
        have := getIter_rel hA hrel path node a ia ib _ _ ga gb
        subst this
        exact seqM_rel _ _ (fun x ca cb sa sb h1 h2 => runAct_rel wa wb hw _ _ _ _ _ _ _ _ _ _ h1 h2) _ _ _ _ _ ha hb
  | elisionToken a v pos =>
    simp only [ruleStep] at ha hb
    split at ha
    · cases ha
    · rename_i va s1 ga
      split at hb
      · cases hb
      · rename_i vb s2 gb
        rcases getSrc_rel hA hrel path node a va vb _ _ ga gb with h | ⟨_, _, ta, tb, h1, _, _⟩
        · subst h
          cases va with
          | int n =>
            simp only [emitToken_withResolve] at ha hb
            rw [ha] at hb; cases hb; exact .refl _
          | bool b =>
            simp only [emitToken_withResolve] at ha hb
            rw [ha] at hb; cases hb; exact .refl _
          | none => cases ha
          | str t => cases ha
          | list xs => cases ha
          | node k as => cases ha
        · subst h1; cases ha
  | elisionJoinAttr a sep pos =>
    simp only [ruleStep] at ha hb
    split at ha
    · cases ha
    · rename_i ia s1 ga
      split at hb
      · cases hb
      · rename_i ib s2 gb
        have := getIter_rel hA hrel path node a ia ib _ _ ga gb
        subst this
        have ek : (withResolve cfg fB).hd.elisionKinds = cfg.hd.elisionKinds := rfl
        rw [ek] at hb
        exact seqM_rel _ _ (fun x ca cb sa sb h1 h2 => runAct_rel wa wb hw _ _ _ _ _ _ _ _ _ _ h1 h2) _ _ _ _ _ ha hb

omit hA hrel in
theorem nodeStep_rel (ra rb : Path → Src → Val → Rule → Unit → Except Err (List Chunk × Unit))
    (hr : ∀ q sr n r ca cb sa sb, ra q sr n r () = .ok (ca, sa) → rb q sr n r () = .ok (cb, sb) → CRel Q cfg ca cb)
    (path : Path) (src : Src) (node : Val) (defn : Option (List Rule)) (ca cb : List Chunk) (sa sb : Unit)
    (ha : nodeStep cfg ra path src node defn () = .ok (ca, sa))
    (hb : nodeStep (withResolve cfg fB) rb path src node defn () = .ok (cb, sb)) : CRel Q cfg ca cb := by
  cases node with
  | node kind as =>
    simp only [nodeStep] at ha hb
    have ed : (withResolve cfg fB).defs = cfg.defs := rfl
    rw [ed] at hb
    split at ha
    · cases ha
    · rename_i rules hl
      rw [hl] at hb
      simp only at hb
      exact seqM_rel _ _ (fun r ca cb sa sb h1 h2 => hr _ _ _ _ _ _ _ _ h1 h2) _ _ _ _ _ ha hb
  | none => simp [nodeStep] at ha
  | bool b => simp [nodeStep] at ha
  | int n => simp [nodeStep] at ha
  | str t => simp [nodeStep] at ha
  | list xs => simp [nodeStep] at ha

theorem walk_rel : ∀ (fuel : Nat),
    WalkFnRel Q cfg (walkNode cfg fuel) (walkNode (withResolve cfg fB) fuel) ∧
    (∀ q sr n r ca cb sa sb, walkRule cfg fuel q sr n r () = .ok (ca, sa) →
      walkRule (withResolve cfg fB) fuel q sr n r () = .ok (cb, sb) → CRel Q cfg ca cb) := by
  intro fuel
  induction fuel with
  | zero =>
    constructor
    · intro path src node defn ca cb sa sb ha _; simp [walkNode] at ha
    · intro q sr n r ca cb sa sb ha _; simp [walkRule] at ha
  | succ fuel ih =>
    constructor
    · intro path src node defn ca cb sa sb ha hb
      simp only [walkNode] at ha hb
      exact nodeStep_rel _ _ ih.2 _ _ _ _ _ _ _ _ ha hb
    · intro q sr n r ca cb sa sb ha hb
      simp only [walkRule] at ha hb
      exact ruleStep_rel hA hrel _ _ ih.1 _ _ _ _ _ _ _ _ ha hb

theorem walkChunks_rel (tree : Val) (ca cb : List Chunk) (sa sb : Unit)
    (ha : walkChunks cfg tree () = .ok (ca, sa))
    (hb : walkChunks (withResolve cfg fB) tree () = .ok (cb, sb)) : CRel Q cfg ca cb := by
  unfold walkChunks at ha hb
  have hf : fuelFor (withResolve cfg fB) tree = fuelFor cfg tree := rfl
  rw [hf] at hb
  exact (walk_rel hA hrel _).1 _ _ _ _ _ _ _ _ ha hb

end
end CalmVerif.Obf

namespace CalmVerif.Obf
open CalmVerif CalmVerif.Unparse

theorem getattrVal_value {node v : Val} (h : getattrVal node "value" = .ok v) : nodeAttr node "value" = some v := by
  unfold getattrVal at h
  rw [if_neg (by decide)] at h
  cases hn : nodeAttr node "value" with
  | none => rw [hn] at h; cases h
  | some w =>
    rw [hn] at h
    simp only at h
    rw [if_neg (by decide)] at h
    simp only [Except.ok.injEq] at h
    rw [h]

/-- the printed name is what `Scope.resolve` of some scope of the finished tree answers for the original -/
def ObfQ (fin : Final) (ta tb : String) : Prop :=
  ∃ sid tables, lookupChain fin.chains sid = some tables ∧ ta = resolveTables tables tb

/-- `Obfuscator.resolve` against the hook that prints `node.value` -/
theorem hookRel_obf (fin : Final) : HookRel (ObfQ fin) (obfResolveHook fin) plainResolveHook := by
  intro path node va vb sa sb ha hb
  unfold obfResolveHook at ha
  unfold plainResolveHook at hb
  obtain ⟨wa, ea, e1⟩ := exc_map_ok ha
  obtain ⟨wb, eb, e2⟩ := exc_map_ok hb
  simp only [Prod.mk.injEq] at e1 e2
  rw [← e1.1, ← e2.1]
  unfold resolveIdent at ea
  split at ea
  · rw [ea] at eb; cases eb; exact Or.inl rfl
  · rename_i sid _
    rw [eb] at ea
    cases wb with
    | str s =>
      simp only at ea
      split at ea
      · rename_i tables hlc
        simp only [Except.ok.injEq] at ea
        exact Or.inr ⟨_, s, ea.symm, rfl, getattrVal_value eb, sid, tables, hlc, rfl⟩
      · cases ea
    | none => simp only [Except.ok.injEq] at ea; exact Or.inl ea.symm
    | bool b => simp only [Except.ok.injEq] at ea; exact Or.inl ea.symm
    | int n => simp only [Except.ok.injEq] at ea; exact Or.inl ea.symm
    | list xs => simp only [Except.ok.injEq] at ea; exact Or.inl ea.symm
    | node k as => simp only [Except.ok.injEq] at ea; exact Or.inl ea.symm

theorem mkCfg_withResolve (t : Tables) (rs : RuleSet) (indent : Option String)
    (fA fB : Path → Val → Unit → Except Err (Val × Unit))
    (h : deferLookup rs.deferrable .resolve = some .obfResolve) :
    mkCfg t rs indent fB = withResolve (mkCfg t rs indent fA) fB ∧ (mkCfg t rs indent fA).resolve = some fA := by
  simp only [mkCfg, withResolve, h, and_self]

/-- the main walk of an obfuscating printer against the same walk printing `node.value` -/
theorem obf_walk_rel (t : Tables) (rs : RuleSet) (indent : Option String) (fin : Final)
    (h : deferLookup rs.deferrable .resolve = some .obfResolve) (tree : Val) (ca cb : List Chunk) (sa sb : Unit)
    (ha : walkChunks (mkCfg t rs indent (obfResolveHook fin)) tree () = .ok (ca, sa))
    (hb : walkChunks (mkCfg t rs indent plainResolveHook) tree () = .ok (cb, sb)) :
    CRel (ObfQ fin) (mkCfg t rs indent (obfResolveHook fin)) ca cb := by
  obtain ⟨e, hA⟩ := mkCfg_withResolve t rs indent (obfResolveHook fin) plainResolveHook h
  rw [e] at hb
  exact walkChunks_rel hA (hookRel_obf fin) tree ca cb sa sb ha hb

/-- what a related token pair looks like under `token_handler_unobfuscate` -/
theorem tokenUnobfuscate_pair (hd : HData) (pos : Option Int) (node : Val) (src : Src) (ta tb : String)
    (hk : isKind hd.identifierKinds node = true) (hv : nodeAttr node "value" = some (.str tb))
    (fsa fsb : List Frag)
    (ea : tokenUnobfuscate hd pos node ta src = .ok fsa) (eb : tokenUnobfuscate hd pos node tb src = .ok fsb) :
    ∃ fa fb, fsa = [fa] ∧ fsb = [fb] ∧ fb.name = none ∧ fa.source = fb.source ∧ fb.text = tb ∧ fa.text = ta ∧
      (fa = fb ∨ (fa.name = some tb ∧ ta ≠ tb ∧ (tb ≠ "" → fa.line = fb.line ∧ fa.col = fb.col))) := by
  simp only [tokenUnobfuscate, hk, if_true, hv] at ea eb
  have hbb : (tb != tb) = false := by simp
  simp only [hbb, Bool.false_eq_true, if_false] at eb
  by_cases hte : ta = tb
  · subst hte
    simp only [hbb, Bool.false_eq_true, if_false] at ea
    rw [ea] at eb
    simp only [Except.ok.injEq] at eb
    subst eb
    cases pos with
    | none =>
      simp only [Except.ok.injEq] at ea
      subst ea
      exact ⟨_, _, rfl, rfl, rfl, rfl, rfl, rfl, Or.inl rfl⟩
    | some i =>
      simp only at ea
      split at ea
      · simp only [Except.ok.injEq] at ea
        subst ea
        exact ⟨_, _, rfl, rfl, rfl, rfl, rfl, rfl, Or.inl rfl⟩
      · cases ea
  · have hne : (tb != ta) = true := by simpa using (fun e : tb = ta => hte e.symm)
    simp only [hne, if_true] at ea
    by_cases hemp : tb = ""
    · subst hemp
      simp only [beq_self_eq_true, if_true] at ea
      cases pos with
      | none =>
        simp only [Except.ok.injEq] at ea eb
        subst ea; subst eb
        exact ⟨_, _, rfl, rfl, rfl, rfl, rfl, rfl, Or.inr ⟨rfl, hte, fun h => absurd rfl h⟩⟩
      | some i =>
        simp only at ea eb
        split at ea
        · split at eb
          · simp only [Except.ok.injEq] at ea eb
            subst ea; subst eb
            exact ⟨_, _, rfl, rfl, rfl, rfl, rfl, rfl, Or.inr ⟨rfl, hte, fun h => absurd rfl h⟩⟩
          · cases eb
        · cases ea
    · have hbe : (tb == "") = false := by simpa using hemp
      simp only [hbe, Bool.false_eq_true, if_false] at ea
      cases pos with
      | none =>
        simp only [Except.ok.injEq] at ea eb
        subst ea; subst eb
        exact ⟨_, _, rfl, rfl, rfl, rfl, rfl, rfl, Or.inr ⟨rfl, hte, fun _ => ⟨rfl, rfl⟩⟩⟩
      | some i =>
        simp only at ea eb
        split at ea
        · rename_i l c g1
          rw [g1] at eb
          simp only [Except.ok.injEq] at ea eb
          subst ea; subst eb
          exact ⟨_, _, rfl, rfl, rfl, rfl, rfl, rfl, Or.inr ⟨rfl, hte, fun _ => ⟨rfl, rfl⟩⟩⟩
        · cases ea

theorem tokRel_unobfuscate {Q : String → String → Prop} (cfg : Cfg Unit)
    (hth : cfg.tokenHandler = some .unobfuscate) (ca cb : List Chunk) (h : TokRel Q cfg ca cb) :
    ∃ fa fb, ca = [.frag fa] ∧ cb = [.frag fb] ∧ fb.name = none ∧ fa.source = fb.source ∧ Q fa.text fb.text ∧
      (fa = fb ∨ (fa.name = some fb.text ∧ fa.text ≠ fb.text ∧
        (fb.text ≠ "" → fa.line = fb.line ∧ fa.col = fb.col))) := by
  obtain ⟨pos, node, src, ta, tb, hk, hv, hq, ea, eb⟩ := h
  simp only [emitToken, hth, tokenHandler] at ea eb
  obtain ⟨fsa, ea', rfl⟩ := exc_map_ok ea
  obtain ⟨fsb, eb', rfl⟩ := exc_map_ok eb
  obtain ⟨fa, fb, rfl, rfl, h1, h2, h3, h4, h5⟩ := tokenUnobfuscate_pair _ pos node src ta tb hk hv fsa fsb ea' eb'
  refine ⟨fa, fb, rfl, rfl, h1, h2, by rw [h3, h4]; exact hq, ?_⟩
  rcases h5 with h5 | ⟨h5, h6, h7⟩
  · exact Or.inl h5
  · exact Or.inr ⟨by rw [h3]; exact h5, by rw [h3, h4]; exact h6, by rw [h3]; exact h7⟩

end CalmVerif.Obf
