/-
"The semantic actions never fail internally" for runs of the LR driver with the parser's token source.

Three invariants of every reachable configuration are combined:
  * `GInv … (ShRel cert T)`  (Proofs/NodePosGhost + Proofs/ActionsTotal): the values on the stack have shapes from
    the certificate of the grammar symbols they belong to;
  * `GoodCfg`                (Proofs/ParserReach): the lexer state is `Reachable` (its line table has exactly `lineno`
    entries) and only grows at its end;
  * `LineInv`                (here): every tracked line number on the value stack is at most the length of the
    current line table — so `lexer.lookup_colno(lineno, …)`, which `findpos` calls for positive line numbers, never
    raises IndexError: a token's line has its entry when the token is produced (`Good`), an empty production gets
    the lexer's current line (`Reachable`), and every other symbol copies the line of its first child.
`action_call_NI`: at every call of a semantic action from a reachable configuration the result is not an internal
error; `step_act_error`: an `.act` error of a driver step is the error of such a call.
-/
import CalmVerif.Proofs.ActionsTotal
import CalmVerif.Proofs.NodePosRun
import CalmVerif.Proofs.ParserReach
import CalmVerif.Proofs.LRTotal
namespace CalmVerif.Proofs.ActionsTotal
open CalmVerif CalmVerif.Model CalmVerif.Model.LR CalmVerif.Model.Actions CalmVerif.Model.ActionDesc
open CalmVerif.Model.ActionFacts CalmVerif.Proofs.NodePos
open CalmVerif.Model.Lexer CalmVerif.Proofs.ParserDrive CalmVerif.Proofs.LexerDrive

abbrev Cfg := Config Token PVal LexState

/-- a value on the stack has a shape from the certificate of its grammar symbol -/
def ShRel (cert : Cert) (T : Tables) (v : PVal) : Tree Token → Prop
  | .leaf _ => conc cert.req Sh.str v.v
  | .node p _ => ∃ lhs rhs, T.prods[p]? = some (lhs, rhs) ∧
      ∃ sh ∈ (cert.shapes[lhs]?).getD [], conc cert.req sh v.v

section generic
variable {g : G} {T : Tables} {cert : Cert} {table : List Entry}
variable {S : Sem Token PVal LexState Parser.PErr}
variable {wcOf : LexState → Bool} {lcOf : LexState → Nat → Nat → Option Int} {posOf : LexState → Nat × Nat}

/-- arguments related to valid children of an instance of a production have the shapes of its right-hand side -/
theorem argsOK_of_rel (hgt : GT g T) (h0 : prod0OK g = true) (hty : ∀ t, S.ty t ≤ T.numTerminals)
    {args : List PVal} {trees : List (Tree Token)} (hall : All2 (ShRel cert T) args trees)
    (hv : validList T S.ty trees) {lhs : Nat} (hq : (lhs, symList T S.ty trees) ∈ g.prods) :
    ArgsOK cert T.numTerminals (symList T S.ty trees) args := by
  constructor
  · rw [hall.length_eq, symList_eq_map]; simp
  · intro i pv x hpv hx
    obtain ⟨tr, htr, hrel⟩ := hall.get hpv
    have hsym : x = tr.sym T S.ty := by
      rw [symList_eq_map, List.getElem?_map, htr] at hx
      simpa using hx.symm
    subst hsym
    have hval := validList_mem hv (List.mem_of_getElem? htr)
    have hmem : tr.sym T S.ty ∈ (lhs, symList T S.ty trees).2 := List.mem_of_getElem? hx
    rcases child_cases hgt h0 hty hq hmem hval with ⟨t, rfl, hlt⟩ | ⟨p, cs, l, rfl, hp, _⟩
    · refine ⟨Sh.str, ?_, hrel⟩
      simp [symShapes, Tree.sym, hlt]
    · obtain ⟨l', r', hp', sh, hsh, hc⟩ := hrel
      rw [hp] at hp'
      simp only [Option.some.injEq, Prod.mk.injEq] at hp'
      obtain ⟨rfl, _⟩ := hp'
      refine ⟨sh, ?_, hc⟩
      rw [sym_node hp]
      have hnlt : ¬ (T.numTerminals + l < T.numTerminals) := by omega
      simp only [symShapes, hnlt, if_false, Nat.add_sub_cancel_left]
      exact hsh

/-- the shape relation is established by `leaf` and preserved by the semantic actions -/
theorem shape_lifts (hgt : GT g T) (h0 : prod0OK g = true) (hty : ∀ t, S.ty t ≤ T.numTerminals)
    (hclosed : closedOK cert T table = true)
    (hS : ActSem S Parser.toTok table wcOf lcOf posOf) : Lifts T S (ShRel cert T) := by
  constructor
  · intro t
    rw [hS.leaf]
    exact ⟨_, rfl⟩
  · intro p args src v trees lhs hr hall hp hv
    have hq : (lhs, symList T S.ty trees) ∈ g.prods := by
      rw [hgt.prods]; exact List.mem_of_getElem? hp
    have hargs := argsOK_of_rel (cert := cert) hgt h0 hty hall hv hq
    exact ⟨lhs, _, hp, reduce_res hclosed hp hargs (hS.reduce hr)⟩

/-! ### the structure of a driver step -/

theorem popN_append {α : Type} : ∀ {n : Nat} {l a b : List α}, popN n l = some (a, b) → l = a ++ b
  | 0, _, _, _, h => by simp [popN] at h; simp [h.1.symm, h.2]
  | n + 1, [], _, _, h => by simp [popN] at h
  | n + 1, x :: l, a, b, h => by
    simp only [popN, Option.map_eq_some_iff] at h
    obtain ⟨⟨a1, b1⟩, hp, heq⟩ := h
    simp at heq
    obtain ⟨rfl, rfl⟩ := heq
    simp [popN_append hp]

variable {R : Source Token LexState Parser.PErr}

/-- what a successful step does to the value stack -/
theorem step_vals {c c' : Cfg} (hs : step T S R c = .inl c') :
    (∃ t, c'.vals = S.leaf t :: c.vals ∧ c'.shifted = t :: c.shifted) ∨
    (∃ p args rest v, c.vals = args ++ rest ∧ c'.vals = v :: rest ∧ S.reduce p args.reverse c'.src = .ok v) ∨
    c'.vals = c.vals := by
  unfold step at hs
  split at hs
  · simp at hs
  · split at hs
    · simp at hs
    · next s c1 hf =>
      obtain ⟨_, h2, h3, _⟩ := fetch_spec' hf
      unfold doShift at hs
      split at hs
      · next t _ =>
        simp only [Sum.inl.injEq] at hs
        subst hs
        exact Or.inl ⟨t, by simp [h2], by simp [h3]⟩
      · simp at hs
    · next p c1 hf =>
      obtain ⟨_, h2, _, _⟩ := fetch_spec' hf
      unfold doReduce at hs
      split at hs
      · simp at hs
      · split at hs
        · next args restVals ps restStates hpv hps =>
          split at hs
          · simp at hs
          · next v hv =>
            split at hs
            · simp at hs
            · split at hs
              · simp only [Sum.inl.injEq] at hs
                subst hs
                refine Or.inr (Or.inl ⟨p, args, restVals, v, ?_, rfl, hv⟩)
                rw [← h2]; exact popN_append hpv
              · simp at hs
        · simp at hs
    · split at hs <;> simp at hs
    · next c1 hf =>
      obtain ⟨_, h2, _, _⟩ := fetch_spec' hf
      unfold doError at hs
      split at hs
      · simp at hs
      · simp at hs
      · simp only [Sum.inl.injEq] at hs
        subst hs
        exact Or.inr (Or.inr h2)

/-- the call a step makes: its arguments are on the value stack, its source state is the one after `fetch` -/
theorem reduceCall_args {text : List Char} {c : Cfg} (hg : GoodCfg text c) {p : Nat} {args : List PVal}
    {st : LexState} (hc : reduceCall T S Parser.source c = some (p, args, st)) :
    (∀ a ∈ args, a ∈ c.vals) ∧ c.src.newlineIdx <+: st.newlineIdx := by
  unfold reduceCall at hc
  split at hc
  · simp at hc
  · split at hc
    · next p' c1 hf =>
      obtain ⟨_, _, hpre⟩ := fetch_good hg hf
      obtain ⟨_, h2, _, _⟩ := fetch_spec' hf
      split at hc
      · split at hc
        · next args' restVals ps hpv hps =>
          simp only [Option.some.injEq, Prod.mk.injEq] at hc
          obtain ⟨_, rfl, rfl⟩ := hc
          refine ⟨?_, hpre⟩
          intro a ha
          rw [← h2, popN_append hpv]
          simp only [List.mem_reverse] at ha
          exact List.mem_append_left _ ha
        · simp at hc
      · simp at hc
    · simp at hc

/-! ### tracked line numbers stay within the line table -/

/-- every tracked line number on the value stack has its entry in the current line table -/
def LineInv (c : Cfg) : Prop := ∀ v ∈ c.vals, v.lineno ≤ c.src.newlineIdx.length

theorem good_lineno {text : List Char} {idx : List Nat} {t : Token} (h : Good text idx t) :
    t.lineno ≤ idx.length := by
  have counted : Counted text idx t.lexpos t.lineno → t.lineno ≤ idx.length := by
    intro ⟨h1, _, b, hb, _⟩
    have := (List.getElem?_eq_some_iff.mp hb).1
    omega
  cases ha : t.auto with
  | false => exact counted (h.1 ha).2.1
  | true =>
    rcases (h.2 ha).2.2 with h0 | hc
    · omega
    · exact counted hc

theorem reachable_lineno {text : List Char} {st : LexState} (h : Reachable text st) :
    st.lineno = st.newlineIdx.length := by
  rw [h.pinv.lineno, h.pinv.idx]
  simp; omega

variable (hS : ActSem S Parser.toTok table wcOf lcOf posOf) (hpos : ∀ st, posOf st = (st.lexpos, st.lineno))
include hS hpos

theorem step_lineinv {text : List Char} {c c' : Cfg} (hg : GoodCfg text c) (hl : LineInv c)
    (hs : step T S Parser.source c = .inl c') : LineInv c' := by
  obtain ⟨hg', hpre, _⟩ := step_good hg hs
  have hlen : c.src.newlineIdx.length ≤ c'.src.newlineIdx.length := hpre.length_le
  have hold : ∀ v ∈ c.vals, v.lineno ≤ c'.src.newlineIdx.length := fun v hv => Nat.le_trans (hl v hv) hlen
  intro v hv
  rcases step_vals hs with ⟨t, hvals, hsh⟩ | ⟨p, args, rest, v0, hvals, hvals', hred⟩ | hsame
  · rw [hvals] at hv
    simp only [List.mem_cons] at hv
    rcases hv with rfl | hv
    · rw [hS.leaf]
      exact good_lineno (hg'.2.1 t (by rw [hsh]; simp))
    · exact hold v hv
  · rw [hvals'] at hv
    simp only [List.mem_cons] at hv
    rcases hv with rfl | hv
    · obtain ⟨e, w, _, _, rfl⟩ := reduce_ok (hS.reduce hred)
      simp only []
      cases hargs : args.reverse with
      | nil =>
        simp only [pos0Of, hpos]
        rw [reachable_lineno hg'.1]
        exact Nat.le_refl _
      | cons a as =>
        simp only [pos0Of]
        have : a ∈ args := by
          have : a ∈ args.reverse := by rw [hargs]; simp
          simpa using this
        exact hold a (by rw [hvals]; exact List.mem_append_left _ this)
    · exact hold v (by rw [hvals]; exact List.mem_append_right _ hv)
  · rw [hsame] at hv
    exact hold v hv

theorem reach_lineinv {text : List Char} {c0 c : Cfg} (hg : GoodCfg text c0) (hl : LineInv c0)
    (hr : Reach T S Parser.source c0 c) : LineInv c := by
  induction hr with
  | refl => exact hl
  | step hr' hs ih => exact step_lineinv hS hpos (reach_good hg hr') ih hs

/-- at a call of a semantic action the column lookup succeeds for every line number the action can ask for -/
theorem call_lcOK (hlcOf : ∀ st ln lx, 0 < ln → ln ≤ st.newlineIdx.length → (lcOf st ln lx).isSome = true)
    {text : List Char} {c : Cfg} (hg : GoodCfg text c) (hl : LineInv c) {p : Nat} {args : List PVal}
    {st : LexState} (hc : reduceCall T S Parser.source c = some (p, args, st)) :
    LcOK (mkCtx args (posOf st) (lcOf st) (wcOf st)) := by
  obtain ⟨hmem, hpre⟩ := reduceCall_args hg hc
  obtain ⟨hreach, _⟩ := reduceCall_good hg hc
  have hargs : ∀ a ∈ args, a.lineno ≤ st.newlineIdx.length :=
    fun a ha => Nat.le_trans (hl a (hmem a ha)) hpre.length_le
  intro j ln hln hpos' lx
  apply hlcOf st ln lx hpos'
  unfold Ctx.linenoOf at hln
  split at hln
  · simp only [mkCtx, Option.some.injEq] at hln
    rw [← hln]
    cases args with
    | nil =>
      simp only [pos0Of, hpos]
      rw [reachable_lineno hreach]; exact Nat.le_refl _
    | cons a as => exact hargs a List.mem_cons_self
  · simp only [Option.map_eq_some_iff] at hln
    obtain ⟨pv, hpv, rfl⟩ := hln
    obtain ⟨_, hpv'⟩ := slot?_succ hpv
    exact hargs pv (List.mem_of_getElem? hpv')

omit hpos in
/-- **no call of a semantic action from a configuration with the three invariants fails internally** -/
theorem action_call_NI (htv : tablesValid T cert' acc = true) (hgt : GT g T) (h0 : prod0OK g = true)
    (hty : ∀ t, S.ty t ≤ T.numTerminals) (hclosed : closedOK cert T table = true)
    {c : Cfg} (hinv : GInv T S (ShRel cert T) c) {p : Nat} {args : List PVal} {st : LexState}
    (hc : reduceCall T S Parser.source c = some (p, args, st))
    (hlc : LcOK (mkCtx args (posOf st) (lcOf st) (wcOf st))) :
    NI (Model.Actions.reduce table (wcOf st) (lcOf st) p args (posOf st)) := by
  obtain ⟨trees, lhs, before, hall, hp, hval, _⟩ := reduceCall_ghost htv hinv hc
  have hq : (lhs, symList T S.ty trees) ∈ g.prods := by
    rw [hgt.prods]; exact List.mem_of_getElem? hp
  exact reduce_NI hclosed hp (argsOK_of_rel hgt h0 hty hall hval hq) hlc

end generic

/-! ### errors of a step -/

theorem pError_error_lex {st : LexState} {tok : Option Token} {e : Parser.PErr}
    (h : Parser.pError st tok = .error e) : ∃ le, e = .lex le := by
  have hraise : ∀ st' tok', ∃ le, Parser.raiseSyntaxError st' tok' = .lex le := by
    intro st' tok'
    unfold Parser.raiseSyntaxError
    split
    · exact ⟨_, rfl⟩
    · exact ⟨_, rfl⟩
  have fin : ∀ {b : Bool} {st1 : LexState}, (if b = true then
      match backtrackedToken st1 1 with
      | Except.error e => Except.error (Parser.PErr.lex e)
      | Except.ok (none, _) => Except.error (Parser.PErr.lex (Lexer.Err.internal "AttributeError"))
      | Except.ok (some rt, st2) =>
        if rt.type = "REGEX" then Except.ok (some rt, st2) else Except.error (Parser.raiseSyntaxError st2 tok)
    else Except.error (Parser.raiseSyntaxError st1 tok)) = (Except.error e : Except Parser.PErr (Option Token × LexState)) →
      ∃ le, e = .lex le := by
    intro b st1 h
    cases b with
    | false =>
      simp only [Bool.false_eq_true, if_false, Except.error.injEq] at h
      subst h; exact hraise _ _
    | true =>
      simp only [if_true] at h
      split at h
      · simp only [Except.error.injEq] at h; subst h; exact ⟨_, rfl⟩
      · simp only [Except.error.injEq] at h; subst h; exact ⟨_, rfl⟩
      · split at h
        · simp at h
        · simp only [Except.error.injEq] at h; subst h; exact hraise _ _
  unfold Parser.pError at h
  split at h
  · simp at h
  · split at h
    · simp only [Except.error.injEq] at h; exact ⟨_, h.symm⟩
    · simp only [] at h
      split at h
      · exact fin h
      · exact fin h

/-- an `.act` error of a driver step is the error of the semantic action the step calls -/
theorem step_act_error {T : Tables} {S : Sem Token PVal LexState Parser.PErr} {c : Cfg} {e : Actions.Err}
    (hs : step T S Parser.source c = .inr (.error (.act e))) :
    ∃ p args st, reduceCall T S Parser.source c = some (p, args, st) ∧ S.reduce p args st = .error (.act e) := by
  unfold step at hs
  split at hs
  · simp at hs
  · next state rest hst =>
    split at hs
    · next e' hf =>
      -- `fetch` failed: an error of the lexer
      exfalso
      simp only [Sum.inr.injEq, Outcome.error.injEq] at hs
      subst hs
      unfold fetch at hf
      split at hf
      · simp at hf
      · split at hf
        · simp at hf
        · split at hf
          · next e'' hn =>
            simp only [Except.error.injEq] at hf
            subst hf
            simp only [Parser.source] at hn
            split at hn
            · simp at hn
            · simp at hn
          · simp at hf
    · next s c1 hf =>
      unfold doShift at hs
      split at hs <;> simp at hs
    · next p c1 hf =>
      unfold doReduce at hs
      split at hs
      · simp at hs
      · next lhs rhs hp =>
        split at hs
        · next args restVals ps restStates hpv hps =>
          split at hs
          · next e' he' =>
            simp only [Sum.inr.injEq, Outcome.error.injEq] at hs
            subst hs
            refine ⟨p, args.reverse, c1.src, ?_, he'⟩
            simp [reduceCall, hst, hf, hp, hpv, hps]
          · split at hs
            · simp at hs
            · split at hs <;> simp at hs
        · simp at hs
    · split at hs <;> simp at hs
    · next c1 hf =>
      exfalso
      unfold doError at hs
      split at hs
      · next e' he' =>
        simp only [Sum.inr.injEq, Outcome.error.injEq] at hs
        subst hs
        obtain ⟨le, hle⟩ := pError_error_lex (show Parser.pError c1.src (lookTok c1) = .error _ from he')
        cases hle
      · simp at hs
      · simp at hs

end CalmVerif.Proofs.ActionsTotal
