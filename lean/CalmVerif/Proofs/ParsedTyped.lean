/-
Soundness of the typing of semantic values (Proofs/ParsedTypedDefs.lean) for `Model.Actions.evalD` / `reduce`:
if the slots of the context hold values of the types `S` and the comment nodes `set_comments` attaches are good
(`hextra`), the value of a typable descriptor has one of the predicted types (`tyD_sound`); hence (`reduce_ty`) for
an action table that passes `closedT`, a call on arguments of certified types returns a value of a certified type of
the left-hand side — in particular every node it builds is well typed under `es5Slot` (`wfVal`) and none of its
printed strings ends with a line terminator.
The context `cx` is any `TokenAdj.Ctx` whose slot typing is `es5Slot` (`cxPretty`, `cxMin0`, `cxMin1`: `wfVal` reads
nothing else of it).
-/
import CalmVerif.Proofs.ParsedTypedDefs
import CalmVerif.Proofs.EndToEndTree
import CalmVerif.Proofs.NodePosTrack
namespace CalmVerif.Proofs.ParsedTyped
open CalmVerif CalmVerif.Model.Actions CalmVerif.Model.ActionDesc CalmVerif.TokenAdj CalmVerif.Unparse
open CalmVerif.Proofs.NodePos CalmVerif.Proofs.ActionsTotal CalmVerif.Proofs.EndToEnd

/-! ### `wfVal` / `valAll` over lists -/

theorem wfAttrs_iff (cx : TokenAdj.Ctx) (k : String) (as : List (String × Val)) :
    wfAttrs cx k as = true ↔
      ∀ a ∈ as, (!printedAttr a.1 || (slotOK (cx.slot k (slotKey a.1)) a.2 && wfVal cx a.2)) = true := by
  induction as with
  | nil => simp [wfAttrs]
  | cons a rest ih => obtain ⟨n, v⟩ := a; simp only [wfAttrs, Bool.and_eq_true, ih, List.forall_mem_cons]

theorem wfList_iff (cx : TokenAdj.Ctx) (xs : List Val) : wfList cx xs = true ↔ ∀ x ∈ xs, wfVal cx x = true := by
  induction xs with
  | nil => simp [wfList]
  | cons x rest ih => simp only [wfList, Bool.and_eq_true, ih, List.forall_mem_cons]

theorem attrsAll_iff (p k : String → Bool) (as : List (String × Val)) :
    attrsAll p k as = true ↔ ∀ a ∈ as, (!printedAttr a.1 || valAll p k a.2) = true := by
  induction as with
  | nil => simp [attrsAll]
  | cons a rest ih => obtain ⟨n, v⟩ := a; simp only [attrsAll, Bool.and_eq_true, ih, List.forall_mem_cons]

theorem listAll_iff (p k : String → Bool) (xs : List Val) :
    listAll p k xs = true ↔ ∀ x ∈ xs, valAll p k x = true := by
  induction xs with
  | nil => simp [listAll]
  | cons x rest ih => simp only [listAll, Bool.and_eq_true, ih, List.forall_mem_cons]

section
variable {cx : TokenAdj.Ctx}

theorem good_none : Good cx .none := ⟨by simp [wfVal], by simp [valAll]⟩
theorem good_int (n : Int) : Good cx (.int n) := ⟨by simp [wfVal], by simp [valAll]⟩
theorem good_str {s : String} (h : endsOK s = true) : Good cx (.str s) := ⟨by simp [wfVal], by simpa [valAll] using h⟩

theorem good_list {xs : List Val} : Good cx (.list xs) ↔ ∀ x ∈ xs, Good cx x := by
  simp only [Good, wfVal, valAll, wfList_iff, listAll_iff]
  constructor
  · rintro ⟨h1, h2⟩ x hx; exact ⟨h1 x hx, h2 x hx⟩
  · intro h; exact ⟨fun x hx => (h x hx).1, fun x hx => (h x hx).2⟩

/-- a node is good iff every printed attribute holds a good value that fits its slot -/
theorem good_node {k : String} {as : List (String × Val)} :
    Good cx (.node k as) ↔
      ∀ a ∈ as, printedAttr a.1 = true → slotOK (cx.slot k (slotKey a.1)) a.2 = true ∧ Good cx a.2 := by
  simp only [Good, wfVal, valAll, anyStr, Bool.true_and, wfAttrs_iff, attrsAll_iff]
  constructor
  · rintro ⟨h1, h2⟩ a ha hp
    have := h1 a ha
    have h2' := h2 a ha
    simp only [hp, Bool.not_true, Bool.false_or, Bool.and_eq_true] at this h2'
    exact ⟨this.1, this.2, h2'⟩
  · intro h
    refine ⟨fun a ha => ?_, fun a ha => ?_⟩
    · by_cases hp : printedAttr a.1 = true
      · have := h a ha hp
        simp [hp, this.1, this.2.1]
      · simp [hp]
    · by_cases hp : printedAttr a.1 = true
      · have := h a ha hp
        simp [hp, this.2.2]
      · simp [hp]

theorem kindIn_mono {ks ks' : List String} (h : ks.all ks'.contains = true) {v : Val} (hv : kindIn ks v = true) :
    kindIn ks' v = true := by
  cases v with
  | node k as =>
    simp only [kindIn, List.contains_eq_mem, decide_eq_true_eq] at hv ⊢
    have := List.all_eq_true.mp h k hv
    simpa using this
  | _ => simp [kindIn] at hv

theorem contains_mono {cs cs' : List TC} (h : cs.all cs'.contains = true) {c : TC} (hc : cs.contains c = true) :
    cs'.contains c = true := by
  have : c ∈ cs := by simpa using hc
  exact List.all_eq_true.mp h c this

/-- a value of type `ty`, unless it is the transient `idname`, is good -/
theorem concT_good {ty : Ty} {v : Val} (h : concT cx ty v) (hne : ty ≠ Ty.idname) : Good cx v := by
  cases ty with
  | none => simp only [concT] at h; rw [h]; exact good_none
  | int1 => obtain ⟨n, rfl, _⟩ := h; exact good_int n
  | idname => exact absurd rfl hne
  | str cs => obtain ⟨s, rfl, _, he⟩ := h; exact good_str he
  | wf k => obtain ⟨as, _, hg⟩ := h; exact hg
  | list ks => obtain ⟨xs, rfl, hx⟩ := h; exact good_list.mpr (fun x hx' => (hx x hx').2)

/-- a value of a type that fits a slot is accepted by the slot and good -/
theorem slotFits_sound {st : SlotTy} {ty : Ty} {v : Val} (hc : concT cx ty v) (hf : slotFits st ty = true) :
    slotOK st v = true ∧ Good cx v := by
  have hne : ty ≠ Ty.idname := by
    rintro rfl
    cases st <;> simp [slotFits] at hf
  refine ⟨?_, concT_good hc hne⟩
  cases st with
  | tok cs =>
    cases ty with
    | str cs' =>
      obtain ⟨s, rfl, hs, _⟩ := hc
      simp only [slotFits] at hf
      simpa [slotOK] using contains_mono hf hs
    | _ => simp [slotFits] at hf
  | node ks opt =>
    cases ty with
    | wf k =>
      obtain ⟨as, rfl, _⟩ := hc
      simp only [slotFits] at hf
      have hk : k ∈ ks := by simpa using hf
      simp [slotOK, kindIn, hk]
    | none =>
      simp only [concT] at hc
      subst hc
      simp only [slotFits] at hf
      simp [slotOK, kindIn, hf]
    | _ => simp [slotFits] at hf
  | nodes ks =>
    cases ty with
    | list ks' =>
      obtain ⟨xs, rfl, hx⟩ := hc
      simp only [slotFits] at hf
      simp only [slotOK, List.all_eq_true]
      exact fun x hx' => kindIn_mono hf (hx x hx').1
    | _ => simp [slotFits] at hf
  | int1 =>
    cases ty with
    | int1 => obtain ⟨n, rfl, hn⟩ := hc; simp [slotOK, hn]
    | _ => simp [slotFits] at hf
  | any => cases v <;> rfl

theorem tyLe_sound {a b : Ty} {v : Val} (hc : concT cx a v) (hle : tyLe a b = true) : concT cx b v := by
  cases a with
  | list ks =>
    cases b with
    | list ks' =>
      obtain ⟨xs, rfl, hx⟩ := hc
      simp only [tyLe] at hle
      exact ⟨xs, rfl, fun x hx' => ⟨kindIn_mono hle (hx x hx').1, (hx x hx').2⟩⟩
    | _ => simp [tyLe] at hle
  | str cs =>
    cases b with
    | str cs' =>
      obtain ⟨s, rfl, hs, he⟩ := hc
      simp only [tyLe] at hle
      exact ⟨s, rfl, contains_mono hle hs, he⟩
    | _ => simp [tyLe] at hle
  | none => have : Ty.none = b := by simpa [tyLe] using hle
            rw [← this]; exact hc
  | int1 => have : Ty.int1 = b := by simpa [tyLe] using hle
            rw [← this]; exact hc
  | idname => have : Ty.idname = b := by simpa [tyLe] using hle
              rw [← this]; exact hc
  | wf k => have : Ty.wf k = b := by simpa [tyLe] using hle
            rw [← this]; exact hc

theorem conc_kindT {ty : Ty} {v : Val} (h : concT cx ty v) : kindOf v = ty.kind := by
  cases ty with
  | none => simp only [concT] at h; subst h; rfl
  | int1 => obtain ⟨n, rfl, _⟩ := h; rfl
  | idname => obtain ⟨as, rfl, _⟩ := h; rfl
  | str cs => obtain ⟨s, rfl, _⟩ := h; rfl
  | wf k => obtain ⟨as, rfl, _⟩ := h; rfl
  | list ks => obtain ⟨xs, rfl, _⟩ := h; rfl

end

/-! ### facts about `es5Slot` and attribute names -/

theorem es5Slot_comments (k : String) : es5Slot k "comments" = .node ["Comments"] true := by
  unfold es5Slot
  rfl

theorem es5Slot_ident_value : es5Slot "Identifier" "value" = .tok wordSigs := by rfl
theorem es5Slot_elision_value : es5Slot "Elision" "value" = .int1 := by rfl
theorem es5Slot_comments_children : es5Slot "Comments" "children" = .nodes ["LineComment", "BlockComment"] := by rfl
theorem es5Slot_linecomment : es5Slot "LineComment" "value" = .tok [.lineComment] := by rfl
theorem es5Slot_blockcomment : es5Slot "BlockComment" "value" = .tok [.blockComment] := by rfl
theorem slotKey_value : slotKey "value" = "value" := by decide

theorem slotKey_nonmeta {a : String} (h : Val.isMeta a = false) : slotKey a = a := by
  unfold slotKey
  split
  · next heq =>
    have : a = "@comments" := by simpa using heq
    subst this
    revert h; decide
  · rfl

theorem printed_nonmeta {a : String} (h : Val.isMeta a = false) : printedAttr a = true := by
  simp [printedAttr, h]

/-! ### soundness of the typing -/

/-- the slots of the context hold values of the types `S` -/
structure SlotsTy (cx : TokenAdj.Ctx) (c : Model.Actions.Ctx) (S : List (List Ty)) : Prop where
  len : c.slots.length = S.length
  shape : ∀ (i : Nat) (pv : PVal) (tys : List Ty), c.slots[i]? = some pv → S[i]? = some tys →
    ∃ ty ∈ tys, concT cx ty pv.v

section sound
variable {cx : TokenAdj.Ctx} (hslot : cx.slot = es5Slot) {c : Model.Actions.Ctx} {S : List (List Ty)} (hS : SlotsTy cx c S)
variable (hextra : ∀ pos, ∀ a ∈ nodeExtra c pos,
  a.1 = "@comments" ∧ slotOK (.node ["Comments"] true) a.2 = true ∧ Good cx a.2)

include hS in
theorem slot_of_ty {j : Nat} {tys : List Ty} (hs : slotTy S j = some tys) :
    ∃ pv, c.slot? j = some pv ∧ ∃ ty ∈ tys, concT cx ty pv.v := by
  unfold slotTy at hs
  split at hs
  · simp at hs
  · next hj =>
    have hlt : j - 1 < S.length := (List.getElem?_eq_some_iff.mp hs).1
    have hlt' : j - 1 < c.slots.length := by rw [hS.len]; exact hlt
    have hpv : c.slots[j - 1]? = some c.slots[j - 1] := List.getElem?_eq_getElem hlt'
    exact ⟨c.slots[j - 1], by simp [Ctx.slot?, hj, hpv], hS.shape _ _ _ hpv hs⟩

include hslot in
/-- the `value` of an `Identifier` node of type `wf "Identifier"` or `idname` is spelled like a name -/
theorem ident_value {ty : Ty} {v x : Val} (hty : (ty == Ty.wf "Identifier" || ty == Ty.idname) = true)
    (hc : concT cx ty v) (hx : getAttr v "value" = some x) :
    ∃ s, x = .str s ∧ nameSigs.contains (sig s) = true ∧ endsOK s = true := by
  simp only [Bool.or_eq_true, beq_iff_eq] at hty
  rcases hty with rfl | rfl
  · obtain ⟨as, rfl, hg⟩ := hc
    simp only [getAttr, Val.attr?, Option.map_eq_some_iff] at hx
    obtain ⟨a, ha, rfl⟩ := hx
    have hmem := List.mem_of_find?_eq_some ha
    have hname : a.1 = "value" := by simpa using List.find?_some ha
    have := good_node.mp hg a hmem (by rw [hname]; decide)
    rw [hname, hslot] at this
    have hsl : es5Slot "Identifier" (slotKey "value") = .tok wordSigs := by
      rw [slotKey_value]; exact es5Slot_ident_value
    rw [hsl] at this
    obtain ⟨hok, hgood⟩ := this
    cases hv : a.2 with
    | str s =>
      rw [hv] at hok hgood
      refine ⟨s, rfl, ?_, by simpa [valAll] using hgood.2⟩
      simp only [slotOK] at hok
      simp only [nameSigs, List.contains_eq_mem, List.mem_append, decide_eq_true_eq] at hok ⊢
      exact Or.inl hok
    | _ => rw [hv] at hok; simp [slotOK] at hok
  · obtain ⟨as, _, h⟩ := hc
    exact h x hx

theorem elision_kind {ks : List String} (h : ks.all (· == "Elision") = true) {v : Val} (hv : kindIn ks v = true) :
    ∃ as, v = .node "Elision" as := by
  cases v with
  | node k as =>
    simp only [kindIn, List.contains_eq_mem, decide_eq_true_eq] at hv
    have := List.all_eq_true.mp h k hv
    exact ⟨as, by simpa using this⟩
  | _ => simp [kindIn] at hv

include hslot in
/-- `value += 1` on the last element of a list of good elisions -/
theorem incLast_good {xs xs1 : List Val} (hx : ∀ x ∈ xs, (∃ as, x = .node "Elision" as) ∧ Good cx x)
    (h : incLast xs = .ok xs1) : ∀ x ∈ xs1, (∃ as, x = .node "Elision" as) ∧ Good cx x := by
  unfold incLast at h
  split at h
  · next k as before hr =>
    split at h
    · next nm n hf =>
      simp only [Except.ok.injEq] at h
      rw [← h]
      have hmem : ∀ y, y ∈ xs.reverse → (∃ as, y = .node "Elision" as) ∧ Good cx y :=
        fun y hy => hx y (by simpa using hy)
      rw [hr] at hmem
      intro y hy
      simp only [List.reverse_cons, List.mem_append, List.mem_reverse, List.mem_singleton] at hy
      rcases hy with hy | rfl
      · exact hmem y (List.mem_cons_of_mem _ hy)
      · obtain ⟨⟨as', hk⟩, hg⟩ := hmem _ List.mem_cons_self
        simp only [Val.node.injEq] at hk
        obtain ⟨rfl, rfl⟩ := hk
        refine ⟨⟨_, rfl⟩, ?_⟩
        -- the old value is an int ≥ 1
        have hold := good_node.mp hg (nm, .int n) (List.mem_of_find?_eq_some hf)
        have hname : nm = "value" := by simpa using List.find?_some hf
        subst hname
        have hsl : cx.slot "Elision" (slotKey "value") = .int1 := by
          rw [hslot, slotKey_value]; exact es5Slot_elision_value
        have h1 := (hold (show printedAttr "value" = true by decide)).1
        rw [hsl] at h1
        simp only [slotOK, decide_eq_true_eq] at h1
        rw [good_node]
        intro a ha hp
        unfold setAttr at ha
        split at ha
        · simp only [List.mem_map] at ha
          obtain ⟨b, hb, rfl⟩ := ha
          split
          · next hbn =>
            refine ⟨?_, good_int _⟩
            simp only []
            rw [hsl]
            simp only [slotOK, decide_eq_true_eq]
            omega
          · next hbn =>
            simp only [hbn, Bool.false_eq_true, if_false] at hp
            exact good_node.mp hg b hb hp
        · simp only [List.mem_append, List.mem_singleton] at ha
          rcases ha with ha | rfl
          · exact good_node.mp hg a ha hp
          · refine ⟨?_, good_int _⟩
            rw [hsl]
            simp only [slotOK, decide_eq_true_eq]
            omega
    · simp at h
  · simp at h

/-- resetting `@tokmap` (not a printed attribute) of the first element -/
theorem setFirstTm_good {q : Val} {xs1 xs2 : List Val}
    (hx : ∀ x ∈ xs1, (∃ as, x = .node "Elision" as) ∧ Good cx x) (h : setFirstTm q xs1 = .ok xs2) :
    ∀ x ∈ xs2, (∃ as, x = .node "Elision" as) ∧ Good cx x := by
  unfold setFirstTm at h
  split at h
  · next k as after =>
    split at h
    · next nm n hf =>
      simp only [Except.ok.injEq] at h
      rw [← h]
      intro y hy
      simp only [List.mem_cons] at hy
      rcases hy with rfl | hy
      · obtain ⟨⟨as', hk⟩, hg⟩ := hx _ List.mem_cons_self
        simp only [Val.node.injEq] at hk
        obtain ⟨rfl, rfl⟩ := hk
        refine ⟨⟨_, rfl⟩, ?_⟩
        rw [good_node]
        intro a ha hp
        unfold setAttr at ha
        split at ha
        · simp only [List.mem_map] at ha
          obtain ⟨b, hb, rfl⟩ := ha
          split at hp
          · exact absurd hp (show ¬ printedAttr "@tokmap" = true by decide)
          · next hbn =>
            simp only [hbn, Bool.false_eq_true, if_false]
            exact good_node.mp hg b hb hp
        · simp only [List.mem_append, List.mem_singleton] at ha
          rcases ha with ha | rfl
          · exact good_node.mp hg a ha hp
          · exact absurd hp (show ¬ printedAttr "@tokmap" = true by decide)
      · exact hx y (List.mem_cons_of_mem _ hy)
    · simp at h
  · simp at h

include hslot hS hextra

mutual
  /-- **the value of a typable descriptor has one of the predicted types** -/
  theorem tyD_sound : ∀ (d : D) (tys : List Ty) (v : Val), tyD S d = some tys → evalD c d = .ok v →
      ∃ ty ∈ tys, concT cx ty v
    | .slot j, tys, v, ht, hv => by
      simp only [tyD] at ht
      obtain ⟨pv, hpv, ty, hty, hc⟩ := slot_of_ty hS ht
      obtain ⟨pv', hpv', rfl⟩ := evalD_slot_ok hv
      rw [hpv] at hpv'
      simp only [Option.some.injEq] at hpv'
      subst hpv'
      exact ⟨ty, hty, hc⟩
    | .none, tys, v, ht, hv => by
      simp only [tyD, Option.some.injEq] at ht
      rw [evalD] at hv
      simp only [Except.ok.injEq] at hv
      subst ht; subst hv
      exact ⟨Ty.none, by simp, rfl⟩
    | .str s, tys, v, ht, hv => by
      simp only [tyD] at ht
      split at ht
      · next he =>
        simp only [Option.some.injEq] at ht
        rw [evalD] at hv
        simp only [Except.ok.injEq] at hv
        subst ht; subst hv
        exact ⟨_, List.mem_singleton.mpr rfl, s, rfl, by simp, he⟩
      · simp at ht
    | .int n, tys, v, ht, hv => by
      simp only [tyD] at ht
      split at ht
      · next hn =>
        simp only [Option.some.injEq] at ht
        rw [evalD] at hv
        simp only [Except.ok.injEq] at hv
        subst ht; subst hv
        exact ⟨_, List.mem_singleton.mpr rfl, n, rfl, hn⟩
      · simp at ht
    | .attrOf j name, tys, v, ht, hv => by
      simp only [tyD] at ht
      split at ht
      · next hname =>
        have hname' : name = "value" := by simpa using hname
        subst hname'
        split at ht
        · next tys' hs =>
          split at ht
          · next hall =>
            simp only [Option.some.injEq] at ht
            subst ht
            obtain ⟨pv, hpv, ty, hty, hc⟩ := slot_of_ty hS hs
            rw [evalD] at hv
            simp only [hpv] at hv
            split at hv
            · next x hx =>
              simp only [Except.ok.injEq] at hv
              subst hv
              obtain ⟨s, rfl, h1, h2⟩ := ident_value hslot (List.all_eq_true.mp hall ty hty) hc hx
              exact ⟨_, List.mem_singleton.mpr rfl, s, rfl, h1, h2⟩
            · simp at hv
          · simp at ht
        · simp at ht
      · simp at ht
    | .raiseAt _ _, _, v, _, hv => absurd hv evalD_raiseAt_ne
    | .list items, tys, v, ht, hv => by
      simp only [tyD, Option.map_eq_some_iff] at ht
      obtain ⟨ks, hks, rfl⟩ := ht
      obtain ⟨xs, hxs, rfl⟩ := evalD_list_ok hv
      exact ⟨_, List.mem_singleton.mpr rfl, xs, rfl, itemKinds_sound items ks xs hks hxs⟩
    | .node kind attrs pos ts tm tmo, tys, v, ht, hv => by
      obtain ⟨as, p, tmv, has, _, _, rfl⟩ := evalD_node_ok hv
      simp only [tyD] at ht
      split at ht
      · next hok =>
        simp only [Option.some.injEq] at ht
        subst ht
        refine ⟨_, List.mem_singleton.mpr rfl, _, rfl, ?_⟩
        rw [good_node]
        intro a ha hp
        simp only [List.mem_append, List.mem_cons, List.mem_nil_iff, or_false] at ha
        rcases ha with (ha | ha) | ha | ha
        · have := okAttrs_sound (es5Slot kind) attrs as hok has a ha
          rw [hslot]; exact this.2
        · obtain ⟨hn, h1, h2⟩ := hextra pos a ha
          rw [hn, hslot]
          have : slotKey "@comments" = "comments" := by decide
          rw [this, es5Slot_comments]
          exact ⟨h1, h2⟩
        · rw [ha] at hp; exact absurd hp (show ¬ printedAttr "@pos" = true by decide)
        · rw [ha] at hp; exact absurd hp (show ¬ printedAttr "@tokmap" = true by decide)
      · split at ht
        · next hno hid =>
          simp only [Option.some.injEq] at ht
          subst ht
          simp only [Bool.and_eq_true, beq_iff_eq] at hid
          obtain ⟨⟨hkind, hnames⟩, hok⟩ := hid
          subst hkind
          refine ⟨_, List.mem_singleton.mpr rfl, _, rfl, ?_⟩
          intro x hx
          -- the only descriptor attribute is `value`; `getAttr` finds it first
          have hn := evalAttrs_names has
          rw [hnames] at hn
          match as, hn with
          | [(nm, y)], hn =>
            simp only [List.map_cons, List.map_nil, List.cons.injEq, and_true] at hn
            subst hn
            have hy := okAttrs_sound (fun _ => SlotTy.tok nameSigs) attrs [("value", y)] hok has ("value", y)
              List.mem_cons_self
            simp only [getAttr, Val.attr?, List.cons_append, List.find?_cons, beq_self_eq_true, if_true,
              Option.map_some, Option.some.injEq] at hx
            subst hx
            obtain ⟨_, hsl, hg⟩ := hy
            cases y with
            | str s =>
              simp only [slotOK] at hsl
              exact ⟨s, rfl, hsl, by simpa [valAll] using hg.2⟩
            | _ => simp [slotOK] at hsl
        · simp at ht
  theorem okAttrs_sound (slotf : String → SlotTy) : ∀ (l : List (String × D)) (as : List (String × Val)),
      okAttrs S slotf l = true → evalAttrs c l = .ok as →
      ∀ a ∈ as, printedAttr a.1 = true ∧ slotOK (slotf (slotKey a.1)) a.2 = true ∧ Good cx a.2
    | [], as, _, h => by
      rw [evalAttrs] at h
      simp only [Except.ok.injEq] at h
      subst h
      intro a ha; simp at ha
    | (n, d) :: rest, as, hok, h => by
      obtain ⟨x, xs, hd, hr, rfl⟩ := evalAttrs_cons_ok h
      simp only [okAttrs, Bool.and_eq_true, Bool.not_eq_true'] at hok
      obtain ⟨⟨hmeta, hty⟩, hrest⟩ := hok
      intro a ha
      simp only [List.mem_cons] at ha
      rcases ha with rfl | ha
      · split at hty
        · next tys htys =>
          obtain ⟨ty, hmem, hc⟩ := tyD_sound d tys x htys hd
          have hf := List.all_eq_true.mp hty ty hmem
          have := slotFits_sound hc hf
          simp only []
          rw [slotKey_nonmeta hmeta]
          exact ⟨printed_nonmeta hmeta, this.1, this.2⟩
        · simp at hty
      · exact okAttrs_sound slotf rest xs hrest hr a ha
  theorem itemKinds_sound : ∀ (l : List Item) (ks : List String) (xs : List Val),
      itemKinds S l = some ks → evalItems c l = .ok xs → ∀ x ∈ xs, kindIn ks x = true ∧ Good cx x
    | [], ks, xs, _, h => by
      rw [evalItems] at h
      simp only [Except.ok.injEq] at h
      subst h
      intro x hx; simp at hx
    | .item d :: rest, ks, xs, hk, h => by
      obtain ⟨x, ys, hd, hr, rfl⟩ := evalItems_item_ok h
      simp only [itemKinds] at hk
      split at hk
      · next tys ks' htys hks' =>
        split at hk
        · next hall =>
          simp only [Option.some.injEq] at hk
          subst hk
          intro y hy
          simp only [List.mem_cons] at hy
          rcases hy with rfl | hy
          · obtain ⟨ty, hmem, hc⟩ := tyD_sound d tys y htys hd
            have hw := List.all_eq_true.mp hall ty hmem
            cases ty with
            | wf k =>
              obtain ⟨as, rfl, hg⟩ := hc
              refine ⟨?_, hg⟩
              simp only [kindIn, List.contains_eq_mem, List.mem_append, List.mem_filterMap, decide_eq_true_eq]
              exact Or.inl ⟨Ty.wf k, hmem, rfl⟩
            | _ => simp [wfKind?] at hw
          · have := itemKinds_sound rest ks' ys hks' hr y hy
            exact ⟨kindIn_mono (by simp [List.all_eq_true]; intro k hk; exact Or.inr hk) this.1, this.2⟩
        · simp at hk
      · simp at hk
    | .spread j :: rest, ks, xs, hk, h => by
      obtain ⟨pv, ys, ws, hpv, hv, hr, rfl⟩ := evalItems_spread_ok h
      simp only [itemKinds] at hk
      split at hk
      · next tys ks' htys hks' =>
        split at hk
        · next hall =>
          simp only [Option.some.injEq] at hk
          subst hk
          obtain ⟨pv', hpv', ty, hmem, hc⟩ := slot_of_ty hS htys
          rw [hpv] at hpv'
          simp only [Option.some.injEq] at hpv'
          subst hpv'
          intro y hy
          simp only [List.mem_append] at hy
          rcases hy with hy | hy
          · have hw := List.all_eq_true.mp hall ty hmem
            cases ty with
            | list ks1 =>
              obtain ⟨zs, hz, hx⟩ := hc
              rw [hv] at hz
              simp only [Val.list.injEq] at hz
              subst hz
              refine ⟨kindIn_mono ?_ (hx y hy).1, (hx y hy).2⟩
              simp only [List.all_eq_true, List.contains_eq_mem, List.mem_append, List.mem_flatten,
                List.mem_filterMap, decide_eq_true_eq]
              intro k hk
              exact Or.inl ⟨ks1, ⟨Ty.list ks1, hmem, rfl⟩, hk⟩
            | _ => simp [listKinds?] at hw
          · have := itemKinds_sound rest ks' ws hks' hr y hy
            exact ⟨kindIn_mono (by simp [List.all_eq_true]; intro k hk; exact Or.inr hk) this.1, this.2⟩
        · simp at hk
      · simp at hk
    | .spreadMod j li ft :: rest, ks, xs, hk, h => by
      obtain ⟨pv, ys, xs1, xs2, ws, hpv, hv, h1, h2, hr, rfl⟩ := evalItems_spreadMod_ok h
      simp only [itemKinds] at hk
      split at hk
      · next tys ks' htys hks' =>
        split at hk
        · next hall =>
          simp only [Option.some.injEq] at hk
          subst hk
          obtain ⟨pv', hpv', ty, hmem, hc⟩ := slot_of_ty hS htys
          rw [hpv] at hpv'
          simp only [Option.some.injEq] at hpv'
          subst hpv'
          have hw := List.all_eq_true.mp hall ty hmem
          cases ty with
          | list ks1 =>
            simp only [listKinds?] at hw
            obtain ⟨zs, hz, hx⟩ := hc
            rw [hv] at hz
            simp only [Val.list.injEq] at hz
            subst hz
            have hel : ∀ x ∈ ys, (∃ as, x = .node "Elision" as) ∧ Good cx x :=
              fun x hx' => ⟨elision_kind hw (hx x hx').1, (hx x hx').2⟩
            have hel1 : ∀ x ∈ xs1, (∃ as, x = .node "Elision" as) ∧ Good cx x := by
              cases li with
              | false => simp only [Bool.false_eq_true, if_false, Except.ok.injEq] at h1; rw [← h1]; exact hel
              | true => simp only [if_true] at h1; exact incLast_good hslot hel h1
            have hel2 : ∀ x ∈ xs2, (∃ as, x = .node "Elision" as) ∧ Good cx x := by
              cases ft with
              | none => simp only [] at h2; rw [h2]; exact hel1
              | some pd =>
                simp only [] at h2
                obtain ⟨q, _, hset⟩ := h2
                exact setFirstTm_good hel1 hset
            intro y hy
            simp only [List.mem_append] at hy
            rcases hy with hy | hy
            · obtain ⟨⟨as, rfl⟩, hg⟩ := hel2 y hy
              refine ⟨?_, hg⟩
              -- `Elision` is among the kinds: the list type is not empty-kinded because `ys` is not empty
              have hne : ys ≠ [] := by
                intro hnil
                subst hnil
                cases li with
                | false =>
                  simp only [Bool.false_eq_true, if_false, Except.ok.injEq] at h1
                  subst h1
                  cases ft with
                  | none => simp only [] at h2; subst h2; simp at hy
                  | some pd =>
                    simp only [] at h2
                    obtain ⟨q, _, hset⟩ := h2
                    simp [setFirstTm] at hset
                | true => simp [incLast] at h1
              obtain ⟨z, hz⟩ := List.exists_mem_of_ne_nil _ hne
              obtain ⟨as', rfl⟩ := elision_kind hw (hx z hz).1
              have hk1 := (hx _ hz).1
              refine kindIn_mono ?_ (show kindIn ks1 (.node "Elision" as) = true from by
                simpa [kindIn] using hk1)
              simp only [List.all_eq_true, List.contains_eq_mem, List.mem_append, List.mem_flatten,
                List.mem_filterMap, decide_eq_true_eq]
              intro k hk
              exact Or.inl ⟨ks1, ⟨Ty.list ks1, hmem, rfl⟩, hk⟩
            · have := itemKinds_sound rest ks' ws hks' hr y hy
              exact ⟨kindIn_mono (by simp [List.all_eq_true]; intro k hk; exact Or.inr hk) this.1, this.2⟩
          | _ => simp [listKinds?] at hw
        · simp at hk
      · simp at hk
end

end sound

end CalmVerif.Proofs.ParsedTyped
