/-
Soundness of the LR driver model: whatever it accepts is a derivation tree of exactly the
shifted tokens, provided the tables pass a *checkable* validity test against a certificate
(`cert s` = a suffix common to the symbol strings of all paths from state 0 to state s).
The certificate is computed by the translator; nothing about it is trusted — `tablesValid`
is evaluated by the kernel on the regenerated tables (Props/C03).
-/
import CalmVerif.Model.LR
namespace CalmVerif.Model.LR

variable {τ : Type}

/-! ### derivation trees -/

def Tree.sym (T : Tables) (ty : τ → Nat) : Tree τ → Nat
  | .leaf t => ty t
  | .node p _ => match T.prods[p]? with
    | some (lhs, _) => T.numTerminals + lhs
    | none => 0

mutual
  def Tree.yield : Tree τ → List τ
    | .leaf t => [t]
    | .node _ cs => yieldList cs
  def yieldList : List (Tree τ) → List τ
    | [] => []
    | c :: cs => c.yield ++ yieldList cs
end

mutual
  /-- every node is an instance of a production of the grammar -/
  def Tree.valid (T : Tables) (ty : τ → Nat) : Tree τ → Prop
    | .leaf _ => True
    | .node p cs => (∃ lhs, T.prods[p]? = some (lhs, symList T ty cs)) ∧ validList T ty cs
  def validList (T : Tables) (ty : τ → Nat) : List (Tree τ) → Prop
    | [] => True
    | c :: cs => c.valid T ty ∧ validList T ty cs
  def symList (T : Tables) (ty : τ → Nat) : List (Tree τ) → List Nat
    | [] => []
    | c :: cs => c.sym T ty :: symList T ty cs
end

theorem symList_eq_map (T : Tables) (ty : τ → Nat) (cs : List (Tree τ)) :
    symList T ty cs = cs.map (Tree.sym T ty) := by
  induction cs with
  | nil => simp [symList]
  | cons c cs ih => simp [symList, ih]

theorem yieldList_append (a b : List (Tree τ)) : yieldList (a ++ b) = yieldList a ++ yieldList b := by
  induction a with
  | nil => simp [yieldList]
  | cons c cs ih => simp [yieldList, ih]

theorem validList_append (T : Tables) (ty : τ → Nat) (a b : List (Tree τ)) :
    validList T ty (a ++ b) ↔ validList T ty a ∧ validList T ty b := by
  induction a with
  | nil => simp [validList]
  | cons c cs ih => simp [validList, ih, and_assoc]

theorem validList_reverse (T : Tables) (ty : τ → Nat) (a : List (Tree τ)) :
    validList T ty a.reverse ↔ validList T ty a := by
  induction a with
  | nil => simp
  | cons c cs ih =>
    simp [validList, validList_append, ih]
    constructor <;> (intro h; exact ⟨h.2, h.1⟩)

/-! ### the checkable validity condition -/

def rowAll (P : Nat → Nat → Bool) : List Nat → Bool
  | k :: v :: rest => P k v && rowAll P rest
  | _ => true

theorem rowAll_lookup {P : Nat → Nat → Bool} : ∀ {row : List Nat} {key v : Nat},
    rowAll P row = true → lookupFlat row key = some v → P key v = true
  | [], _, _, _, h => by simp [lookupFlat] at h
  | [_], _, _, _, h => by simp [lookupFlat] at h
  | k :: w :: rest, key, v, hall, h => by
    simp only [rowAll, Bool.and_eq_true] at hall
    simp only [lookupFlat] at h
    split at h
    · next hk => cases h; subst hk; exact hall.1
    · exact rowAll_lookup hall.2 h

def allFrom (f : Nat → List Nat → Bool) : Nat → List (List Nat) → Bool
  | _, [] => true
  | i, row :: rows => f i row && allFrom f (i + 1) rows

theorem allFrom_get {f : Nat → List Nat → Bool} : ∀ {rows : List (List Nat)} {i j : Nat} {row : List Nat},
    allFrom f i rows = true → rows[j]? = some row → f (i + j) row = true
  | [], _, _, _, _, h => by simp at h
  | r :: rows, i, 0, row, hall, h => by
    simp only [allFrom, Bool.and_eq_true] at hall
    simp at h; subst h; simpa using hall.1
  | r :: rows, i, j + 1, row, hall, h => by
    simp only [allFrom, Bool.and_eq_true] at hall
    simp at h
    have := allFrom_get (i := i + 1) (j := j) hall.2 h
    rw [show i + (j + 1) = i + 1 + j by omega]; exact this

def certOf (cert : List (List Nat)) (s : Nat) : List Nat := (cert[s]?).getD []

/-- suffix test as a Bool (`a` is a suffix of `b`) -/
def sfx (a b : List Nat) : Bool := a.isSuffixOf b

theorem sfx_iff {a b : List Nat} : sfx a b = true ↔ a <:+ b := by
  simp [sfx]

def prodRhsOK (T : Tables) (cert : List (List Nat)) (s p : Nat) : Bool :=
  match T.prods[p]? with
  | some (_, rhs) => sfx rhs (certOf cert s)
  | none => false

def actionEntryOK (T : Tables) (cert : List (List Nat)) (acc : List Nat) (s term code : Nat) : Bool :=
  match decodeAct code with
  | .shift t => sfx (certOf cert t) (certOf cert s ++ [term]) && (t != 0) && (!(acc.contains t) || s == 0)
  | .reduce p => prodRhsOK T cert s p
  | .accept => acc.contains s && s != 0

def gotoEntryOK (T : Tables) (cert : List (List Nat)) (acc : List Nat) (s nt t : Nat) : Bool :=
  sfx (certOf cert t) (certOf cert s ++ [T.numTerminals + nt]) && (t != 0) && (!(acc.contains t) || s == 0)

/-- `cert`: per state a common suffix of the symbol strings of all paths from state 0;
    `acc`: the states having an accept action (they may only be entered from state 0) -/
def tablesValid (T : Tables) (cert : List (List Nat)) (acc : List Nat) : Bool :=
  certOf cert 0 == [] &&
  allFrom (fun s row => rowAll (fun term code => actionEntryOK T cert acc s term code) row) 0 T.action &&
  allFrom (fun s row => rowAll (fun nt t => gotoEntryOK T cert acc s nt t) row) 0 T.goto &&
  rowAll (fun s p => prodRhsOK T cert s p) T.defaulted

/-! ### facts extracted from `tablesValid` -/

section facts
variable {T : Tables} {cert : List (List Nat)} {acc : List Nat}

theorem tv_cert0 (h : tablesValid T cert acc = true) : certOf cert 0 = [] := by
  simp only [tablesValid, Bool.and_eq_true] at h
  simpa using h.1.1.1

theorem tv_action (h : tablesValid T cert acc = true) {s term : Nat} {a : Act}
    (ha : actionOf T s term = some a) :
    ∃ code, decodeAct code = a ∧ actionEntryOK T cert acc s term code = true := by
  simp only [tablesValid, Bool.and_eq_true] at h
  unfold actionOf at ha
  split at ha
  · next row hrow =>
    cases hl : lookupFlat row term with
    | none => simp [hl] at ha
    | some code =>
      simp [hl] at ha
      refine ⟨code, ha, ?_⟩
      have := allFrom_get (i := 0) h.1.1.2 hrow
      simp only [Nat.zero_add] at this
      exact rowAll_lookup this hl
  · simp at ha

theorem tv_goto (h : tablesValid T cert acc = true) {s nt t : Nat}
    (hg : gotoOf T s nt = some t) : gotoEntryOK T cert acc s nt t = true := by
  simp only [tablesValid, Bool.and_eq_true] at h
  unfold gotoOf at hg
  split at hg
  · next row hrow =>
    have := allFrom_get (i := 0) h.1.2 hrow
    simp only [Nat.zero_add] at this
    exact rowAll_lookup this hg
  · simp at hg

theorem tv_defaulted (h : tablesValid T cert acc = true) {s p : Nat}
    (hd : defaultedOf T s = some p) : prodRhsOK T cert s p = true := by
  simp only [tablesValid, Bool.and_eq_true] at h
  exact rowAll_lookup h.2 hd

end facts

/-! ### the stack invariant -/

/-- the automaton edge taken when value `v` is pushed from state `q`, reaching `s` -/
def edge (T : Tables) (ty : τ → Nat) (q : Nat) (v : Tree τ) (s : Nat) : Prop :=
  match v with
  | .leaf t => actionOf T q (ty t) = some (.shift s)
  | .node p _ => ∃ lhs rhs, T.prods[p]? = some (lhs, rhs) ∧ gotoOf T q lhs = some s

inductive StackOK (T : Tables) (ty : τ → Nat) : List Nat → List (Tree τ) → Prop
  | base : StackOK T ty [0] []
  | push {q : Nat} {qs : List Nat} {v : Tree τ} {vs : List (Tree τ)} {s : Nat} :
      StackOK T ty (q :: qs) vs → edge T ty q v s → v.valid T ty → StackOK T ty (s :: q :: qs) (v :: vs)

def labels (T : Tables) (ty : τ → Nat) (vs : List (Tree τ)) : List Nat := symList T ty vs.reverse

theorem symList_append (T : Tables) (ty : τ → Nat) (a b : List (Tree τ)) :
    symList T ty (a ++ b) = symList T ty a ++ symList T ty b := by
  simp [symList_eq_map]

theorem labels_cons (T : Tables) (ty : τ → Nat) (v : Tree τ) (vs : List (Tree τ)) :
    labels T ty (v :: vs) = labels T ty vs ++ [v.sym T ty] := by
  simp [labels, symList_append, symList]

section inv
variable {T : Tables} {cert : List (List Nat)} {acc : List Nat} {ty : τ → Nat}

theorem edge_facts (h : tablesValid T cert acc = true) {q s : Nat} {v : Tree τ}
    (he : edge T ty q v s) :
    certOf cert s <:+ certOf cert q ++ [v.sym T ty] ∧ s ≠ 0 ∧ (s ∈ acc → q = 0) := by
  cases v with
  | leaf t =>
    simp only [edge] at he
    obtain ⟨code, hdec, hok⟩ := tv_action h he
    simp only [actionEntryOK, hdec, Bool.and_eq_true, Bool.or_eq_true, bne_iff_ne, ne_eq,
      Bool.not_eq_true', beq_iff_eq] at hok
    refine ⟨by simpa [Tree.sym] using sfx_iff.mp hok.1.1, hok.1.2, ?_⟩
    intro hs
    rcases hok.2 with h1 | h1
    · simp at h1; exact absurd hs h1
    · exact h1
  | node p cs =>
    simp only [edge] at he
    obtain ⟨lhs, rhs, hp, hg⟩ := he
    have hok := tv_goto h hg
    simp only [gotoEntryOK, Bool.and_eq_true, Bool.or_eq_true, bne_iff_ne, ne_eq,
      Bool.not_eq_true', beq_iff_eq] at hok
    refine ⟨by simpa [Tree.sym, hp] using sfx_iff.mp hok.1.1, hok.1.2, ?_⟩
    intro hs
    rcases hok.2 with h1 | h1
    · simp at h1; exact absurd hs h1
    · exact h1

theorem stack_cert (h : tablesValid T cert acc = true) :
    ∀ {st : List Nat} {vs : List (Tree τ)}, StackOK T ty st vs →
      ∀ {s qs}, st = s :: qs → certOf cert s <:+ labels T ty vs := by
  intro st vs hst
  induction hst with
  | base => intro s qs heq; cases heq; simp [tv_cert0 h]
  | @push q qs v vs s hprev he _ ih =>
    intro s' qs' heq
    cases heq
    have h1 := (edge_facts h he).1
    have h2 := ih (s := q) (qs := qs) rfl
    rw [labels_cons]
    refine h1.trans ?_
    obtain ⟨pre, hpre⟩ := h2
    exact ⟨pre, by rw [← hpre]; simp⟩

theorem stack_top_ne_zero (h : tablesValid T cert acc = true) {s q : Nat} {qs : List Nat}
    {vs : List (Tree τ)} (hst : StackOK T ty (s :: q :: qs) vs) : s ≠ 0 := by
  cases hst with
  | push _ he _ => exact (edge_facts h he).2.1

theorem stack_bottom (h : tablesValid T cert acc = true) {qs : List Nat}
    {vs : List (Tree τ)} (hst : StackOK T ty (0 :: qs) vs) : qs = [] ∧ vs = [] := by
  cases hst with
  | base => exact ⟨rfl, rfl⟩
  | push _ he _ => exact absurd rfl (edge_facts h he).2.1

theorem stack_pop : ∀ {n : Nat} {st : List Nat} {vs : List (Tree τ)}, StackOK T ty st vs →
    ∀ {args rv : List (Tree τ)} {ps rs : List Nat},
      popN n vs = some (args, rv) → popN n st = some (ps, rs) →
      StackOK T ty rs rv ∧ vs = args ++ rv ∧ validList T ty args
  | 0, st, vs, hst, args, rv, ps, rs, h1, h2 => by
    simp [popN] at h1 h2
    obtain ⟨rfl, rfl⟩ := h1
    obtain ⟨rfl, rfl⟩ := h2
    exact ⟨hst, by simp, by simp [validList]⟩
  | n + 1, st, vs, hst, args, rv, ps, rs, h1, h2 => by
    cases hst with
    | base => simp [popN] at h1
    | @push q qs v vs' s hprev he hv =>
      simp only [popN, Option.map_eq_some_iff] at h1 h2
      obtain ⟨⟨a1, b1⟩, hp1, heq1⟩ := h1
      obtain ⟨⟨a2, b2⟩, hp2, heq2⟩ := h2
      simp at heq1 heq2
      obtain ⟨rfl, rfl⟩ := heq1
      obtain ⟨rfl, rfl⟩ := heq2
      have := stack_pop hprev hp1 hp2
      exact ⟨this.1, by simp [this.2.1], by simp [validList, hv, this.2.2]⟩

theorem suffix_eq_of_length_eq {a b l : List Nat} (ha : a <:+ l) (hb : b <:+ l)
    (hlen : a.length = b.length) : a = b := by
  obtain ⟨pa, hpa⟩ := ha
  obtain ⟨pb, hpb⟩ := hb
  exact (List.append_inj' (hpa.trans hpb.symm) hlen).2

theorem popN_length : ∀ {n : Nat} {l a b : List α}, popN n l = some (a, b) → a.length = n
  | 0, _, _, _, h => by simp [popN] at h; simp [h.1.symm]
  | n + 1, [], _, _, h => by simp [popN] at h
  | n + 1, x :: l, a, b, h => by
    simp only [popN, Option.map_eq_some_iff] at h
    obtain ⟨⟨a1, b1⟩, hp, heq⟩ := h
    simp at heq
    obtain ⟨rfl, rfl⟩ := heq
    simp [popN_length hp]

end inv

/-! ### preservation by the driver -/

section driver
variable {σ ε : Type} {T : Tables} {cert : List (List Nat)} {acc : List Nat} {ty : τ → Nat}
variable {R : Source τ σ ε}

structure Inv (T : Tables) (ty : τ → Nat) (c : Config τ (Tree τ) σ) : Prop where
  stack : StackOK T ty c.states c.vals
  yld : yieldList c.vals.reverse = c.shifted.reverse

def lookTerm (T : Tables) (ty : τ → Nat) (c : Config τ (Tree τ) σ) : Nat :=
  lookTermOf T (treeSem (σ := σ) (ε := ε) ty) c

theorem fetch_spec {c c1 : Config τ (Tree τ) σ} {st : Nat} {a : Option Act}
    (hf : fetch T (treeSem (σ := σ) (ε := ε) ty) R c st = .ok (a, c1)) :
    c1.states = c.states ∧ c1.vals = c.vals ∧ c1.shifted = c.shifted ∧
    ((∃ p, defaultedOf T st = some p ∧ a = some (.reduce p)) ∨
      a = actionOf T st (lookTerm (ε := ε) T ty c1)) := by
  unfold fetch at hf
  split at hf
  · next p hp =>
    simp only [Except.ok.injEq, Prod.mk.injEq] at hf
    obtain ⟨rfl, rfl⟩ := hf
    exact ⟨rfl, rfl, rfl, Or.inl ⟨p, hp, rfl⟩⟩
  · split at hf
    · simp only [Except.ok.injEq, Prod.mk.injEq] at hf
      obtain ⟨rfl, rfl⟩ := hf
      exact ⟨rfl, rfl, rfl, Or.inr rfl⟩
    · split at hf
      · simp at hf
      · simp only [Except.ok.injEq, Prod.mk.injEq] at hf
        obtain ⟨rfl, rfl⟩ := hf
        exact ⟨rfl, rfl, rfl, Or.inr rfl⟩

theorem inv_init (s : σ) : Inv T ty (initConfig s : Config τ (Tree τ) σ) :=
  ⟨StackOK.base, by simp [initConfig, yieldList]⟩

theorem reduce_rhs_ok (ε : Type) (h : tablesValid T cert acc = true) {c1 : Config τ (Tree τ) σ} {st p : Nat}
    {a : Option Act}
    (hdisj : (∃ p, defaultedOf T st = some p ∧ a = some (.reduce p)) ∨
      a = actionOf T st (lookTerm (ε := ε) T ty c1)) (ha : a = some (.reduce p)) :
    prodRhsOK T cert st p = true := by
  rcases hdisj with ⟨p', hd, ha'⟩ | ha'
  · rw [ha] at ha'; cases ha'; exact tv_defaulted h hd
  · rw [ha] at ha'
    obtain ⟨code, hdec, hok⟩ := tv_action h ha'.symm
    simpa [actionEntryOK, hdec] using hok

theorem step_inv (h : tablesValid T cert acc = true) {c c' : Config τ (Tree τ) σ}
    (hinv : Inv T ty c) (hs : step T (treeSem (σ := σ) (ε := ε) ty) R c = .inl c') : Inv T ty c' := by
  unfold step at hs
  split at hs
  · simp at hs
  · next st below hst =>
    split at hs
    · simp at hs
    · -- shift
      next s c1 hf =>
      obtain ⟨h1, h2, h3, hdisj⟩ := fetch_spec hf
      unfold doShift at hs
      split at hs
      · next t hl =>
        simp only [Sum.inl.injEq] at hs
        subst hs
        have hact : actionOf T st (ty t) = some (.shift s) := by
          rcases hdisj with ⟨p, _, hp⟩ | hp
          · simp at hp
          · simpa [lookTerm, lookTermOf, treeSem, hl] using hp.symm
        constructor
        · simp only [h1, h2, hst]
          have := hinv.stack
          rw [hst] at this
          exact StackOK.push this (by simpa [edge, treeSem] using hact) (by simp [Tree.valid, treeSem])
        · simp only [h2, h3, treeSem, List.reverse_cons, yieldList_append, hinv.yld]
          simp [yieldList, Tree.yield]
      · simp at hs
    · -- reduce
      next p c1 hf =>
      obtain ⟨h1, h2, h3, hdisj⟩ := fetch_spec hf
      have hrhs := reduce_rhs_ok ε (c1 := c1) h hdisj rfl
      unfold doReduce at hs
      split at hs
      · simp at hs
      · next lhs rhs hp =>
        split at hs
        · next args restVals ps restStates hpv hps =>
          simp only [treeSem] at hs
          split at hs
          · simp at hs
          · next top rest' =>
            split at hs
            · next g hg =>
              simp only [Sum.inl.injEq] at hs
              subst hs
              rw [h2] at hpv
              rw [h1] at hps
              obtain ⟨hrest, hvs, hvalid⟩ := stack_pop hinv.stack hpv hps
              -- the popped values spell the right-hand side
              have hcert : certOf cert st <:+ labels T ty c.vals :=
                stack_cert h hinv.stack hst
              simp only [prodRhsOK, hp] at hrhs
              have hsuf : rhs <:+ labels T ty c.vals := (sfx_iff.mp hrhs).trans hcert
              have hlab : labels T ty c.vals = labels T ty restVals ++ symList T ty args.reverse := by
                simp [labels, hvs, symList_append]
              have hlen : (symList T ty args.reverse).length = rhs.length := by
                simp [symList_eq_map, popN_length hpv]
              have hsym : symList T ty args.reverse = rhs := by
                rw [hlab] at hsuf
                have h2' : symList T ty args.reverse <:+ labels T ty restVals ++ symList T ty args.reverse :=
                  List.suffix_append _ _
                exact suffix_eq_of_length_eq h2' hsuf (by omega)
              constructor
              · refine StackOK.push (q := top) hrest ?_ ?_
                · exact ⟨lhs, rhs, hp, hg⟩
                · simp only [Tree.valid]
                  exact ⟨⟨lhs, by rw [hsym]; exact hp⟩, (validList_reverse T ty args).mpr hvalid⟩
              · simp only [h3, List.reverse_cons, yieldList_append]
                rw [← hinv.yld, hvs]
                simp [yieldList, Tree.yield, yieldList_append]
            · simp at hs
        · simp at hs
    · -- accept
      split at hs <;> simp at hs
    · -- error: only the look-ahead and the source change
      next c1 hf =>
      obtain ⟨h1, h2, h3, _⟩ := fetch_spec hf
      unfold doError at hs
      cases hr : R.onError c1.src (lookTok c1) with
      | error e => simp [hr] at hs
      | ok res =>
        obtain ⟨t?, s'⟩ := res
        cases t? with
        | none => simp [hr] at hs
        | some t =>
          simp only [hr, Sum.inl.injEq] at hs
          subst hs
          exact ⟨by simpa [h1, h2] using hinv.stack, by simpa [h2, h3] using hinv.yld⟩

theorem step_accept (h : tablesValid T cert acc = true) {c : Config τ (Tree τ) σ} {v : Tree τ}
    (hinv : Inv T ty c) (hs : step T (treeSem (σ := σ) (ε := ε) ty) R c = .inr (.accepted v)) :
    v.valid T ty ∧ v.yield = c.shifted.reverse := by
  unfold step at hs
  split at hs
  · simp at hs
  · next st below hst =>
    split at hs
    · simp at hs
    · next s c1 hf =>
      unfold doShift at hs
      split at hs <;> simp at hs
    · next p c1 hf =>
      unfold doReduce at hs
      simp only [treeSem] at hs
      split at hs
      · simp at hs
      · split at hs
        · split at hs
          · simp at hs
          · split at hs <;> simp at hs
        · simp at hs
    · next c1 hf =>
      obtain ⟨h1, h2, h3, hdisj⟩ := fetch_spec hf
      split at hs
      · next v' rest hv =>
        simp only [Sum.inr.injEq, Outcome.accepted.injEq] at hs
        subst hs
        have hact : actionOf T st (lookTerm (ε := ε) T ty c1) = some .accept := by
          rcases hdisj with ⟨p, _, hp⟩ | hp
          · simp at hp
          · exact hp.symm
        obtain ⟨code, hdec, hok⟩ := tv_action h hact
        simp only [actionEntryOK, hdec, Bool.and_eq_true, bne_iff_ne, ne_eq] at hok
        have hmem : st ∈ acc := by simpa using hok.1
        have hstack := hinv.stack
        rw [hst, ← h2, hv] at hstack
        cases hstack with
        | @push q qs _ vs _ hprev he hvalid =>
          have hq : q = 0 := (edge_facts h he).2.2 hmem
          subst hq
          obtain ⟨_, hvs⟩ := stack_bottom h hprev
          subst hvs
          refine ⟨hvalid, ?_⟩
          have := hinv.yld
          rw [← h2, hv] at this
          simpa [yieldList, h3] using this
      · simp at hs
    · next c1 hf =>
      unfold doError at hs
      cases hr : R.onError c1.src (lookTok c1) with
      | error e => simp [hr] at hs
      | ok res =>
        obtain ⟨t?, s'⟩ := res
        cases t? <;> simp [hr] at hs

/-- **LR soundness**: if the driver accepts, the value is a derivation tree of the grammar whose
    yield is exactly the sequence of tokens that were shifted. -/
theorem run_sound (h : tablesValid T cert acc = true) :
    ∀ (fuel : Nat) (c c' : Config τ (Tree τ) σ) (v : Tree τ), Inv T ty c →
      run T (treeSem (σ := σ) (ε := ε) ty) R fuel c = (.accepted v, c') →
      v.valid T ty ∧ v.yield = c'.shifted.reverse
  | 0, c, c', v, _, hr => by simp [run] at hr
  | fuel + 1, c, c', v, hinv, hr => by
    simp only [run] at hr
    split at hr
    · next c2 hs => exact run_sound h fuel c2 c' v (step_inv h hinv hs) hr
    · next o hs =>
      simp only [Prod.mk.injEq] at hr
      obtain ⟨rfl, rfl⟩ := hr
      exact step_accept h hinv hs

end driver

end CalmVerif.Model.LR
