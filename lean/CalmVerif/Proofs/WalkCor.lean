/- C16 corollaries: the preorder is a permutation of the table-free reflection (every stored
   node, as often as it is stored), and parents come first. -/
import CalmVerif.Proofs.WalkThm
namespace CalmVerif.Proofs.Walk
open CalmVerif CalmVerif.Gen.Children CalmVerif.Model.Walk
open List

/-! ### asm is a permutation -/

theorem filter_flatMap_perm {α β : Type} (f : α → Bool) (g : α → List β) : ∀ (l : List α),
    (l.filter f).flatMap g ++ (l.filter (fun x => !f x)).flatMap g ~ l.flatMap g := by
  intro l
  induction l with
  | nil => simp
  | cons x xs ih =>
    cases hf : f x with
    | true =>
      simp only [List.filter_cons, hf, if_true, Bool.not_true, Bool.false_eq_true, if_false,
        List.flatMap_cons, List.append_assoc]
      exact Perm.append_left _ ih
    | false =>
      simp only [List.filter_cons, hf, Bool.false_eq_true, if_false, Bool.not_false, if_true,
        List.flatMap_cons]
      exact (perm_middle_flat _ _ _).trans (Perm.append_left _ ih)
where
  perm_middle_flat {β : Type} (a b c : List β) : a ++ (b ++ c) ~ b ++ (a ++ c) := by
    rw [← List.append_assoc, ← List.append_assoc]
    exact Perm.append_right _ perm_append_comm

theorem asm_perm : ∀ (ns : List String) (subs : List (String × Out)), asm ns subs ~ subs.flatMap (·.2) := by
  intro ns
  induction ns with
  | nil => intro subs; simp [asm]; 
  | cons a ns ih =>
    intro subs
    simp only [asm]
    exact (Perm.append_left _ (ih _)).trans (filter_flatMap_perm (fun e => e.1 == a) (·.2) subs)

/-- the table-free reflection: all stored nodes in stored attribute order -/
def storedDesc (full : Bool) (q : Path) (v : Val) : Out := preDesc [] full q v

mutual
  theorem perm_node (tbl : Table) (full : Bool) : ∀ (v : Val) (q : Path),
      preNode tbl full q v ~ preNode [] full q v
    | .node k as, q => by
        simp only [preNode]
        refine Perm.cons _ ?_
        exact (asm_perm _ _).trans ((perm_attrs tbl full as q).trans (asm_perm _ _).symm)
    | .none, q => by simp [preNode]
    | .bool _, q => by simp [preNode]
    | .int _, q => by simp [preNode]
    | .str _, q => by simp [preNode]
    | .list _, q => by simp [preNode]
  theorem perm_attrs (tbl : Table) (full : Bool) : ∀ (as : List (String × Val)) (q : Path),
      (preAttrs tbl full q as).flatMap (·.2) ~ (preAttrs [] full q as).flatMap (·.2)
    | [], q => by simp [preAttrs]
    | (a, x) :: rest, q => by
        simp only [preAttrs, List.flatMap_cons]
        refine Perm.append ?_ (perm_attrs tbl full rest q)
        split
        · exact Perm.refl _
        · exact perm_slot tbl full x q a
  theorem perm_slot (tbl : Table) (full : Bool) : ∀ (x : Val) (q : Path) (a : String),
      preSlot tbl full q a x ~ preSlot [] full q a x
    | .node k as, q, a => by
        simp only [preSlot]
        refine Perm.cons _ ?_
        exact (asm_perm _ _).trans ((perm_attrs tbl full as _).trans (asm_perm _ _).symm)
    | .list xs, q, a => by simp only [preSlot]; exact perm_items tbl full xs q a 0
    | .none, q, a => by simp [preSlot]
    | .bool _, q, a => by simp [preSlot]
    | .int _, q, a => by simp [preSlot]
    | .str _, q, a => by simp [preSlot]
  theorem perm_items (tbl : Table) (full : Bool) : ∀ (xs : List Val) (q : Path) (a : String) (i : Nat),
      preItems tbl full q a i xs ~ preItems [] full q a i xs
    | [], q, a, i => by simp [preItems]
    | x :: xs, q, a, i => by
        simp only [preItems]
        exact Perm.append (perm_node tbl full x _) (perm_items tbl full xs q a (i + 1))
end

theorem preDesc_perm_stored (tbl : Table) (full : Bool) (q : Path) (v : Val) :
    preDesc tbl full q v ~ storedDesc full q v := by
  cases v with
  | node k as =>
    simp only [storedDesc, preDesc]
    exact (asm_perm _ _).trans ((perm_attrs tbl full as q).trans (asm_perm _ _).symm)
  | _ => simp [storedDesc, preDesc]

/-! ### parents first -/

/-- every item's parent path is in `known` or is the path of an earlier item -/
def PF : List Path → Out → Prop
  | _, [] => True
  | known, x :: rest => (∃ s par, x.1 = s :: par ∧ par ∈ known) ∧ PF (x.1 :: known) rest

theorem PF_mono : ∀ (L : Out) (k1 k2 : List Path), (∀ q ∈ k1, q ∈ k2) → PF k1 L → PF k2 L := by
  intro L
  induction L with
  | nil => intro _ _ _ _; trivial
  | cons x rest ih =>
    intro k1 k2 hsub h
    obtain ⟨⟨s, par, hx, hp⟩, hr⟩ := h
    refine ⟨⟨s, par, hx, hsub par hp⟩, ih _ _ ?_ hr⟩
    intro q hq
    rcases List.mem_cons.mp hq with h | h
    · subst h; simp
    · exact List.mem_cons_of_mem _ (hsub q h)

theorem PF_append : ∀ (L1 L2 : Out) (known : List Path), PF known L1 → PF known L2 → PF known (L1 ++ L2) := by
  intro L1
  induction L1 with
  | nil => intro L2 known _ h2; simpa using h2
  | cons x rest ih =>
    intro L2 known h1 h2
    obtain ⟨hx, hr⟩ := h1
    refine ⟨hx, ih L2 _ hr (PF_mono L2 known _ (fun q hq => List.mem_cons_of_mem _ hq) h2)⟩

theorem PF_flatMap (known : List Path) : ∀ (subs : List (String × Out)),
    (∀ e ∈ subs, PF known e.2) → PF known (subs.flatMap (·.2)) := by
  intro subs
  induction subs with
  | nil => intro _; trivial
  | cons e rest ih =>
    intro h
    simp only [List.flatMap_cons]
    exact PF_append _ _ _ (h e List.mem_cons_self) (ih (fun e he => h e (List.mem_cons_of_mem _ he)))

theorem PF_asm (known : List Path) : ∀ (ns : List String) (subs : List (String × Out)),
    (∀ e ∈ subs, PF known e.2) → PF known (asm ns subs) := by
  intro ns
  induction ns with
  | nil => intro subs h; simp only [asm]; exact PF_flatMap known subs h
  | cons a ns ih =>
    intro subs h
    simp only [asm]
    refine PF_append _ _ _ (PF_flatMap known _ ?_) (ih _ ?_)
    · intro e he; exact h e (List.mem_filter.mp he).1
    · intro e he; exact h e (List.mem_filter.mp he).1

mutual
  theorem pf_node (tbl : Table) (full : Bool) : ∀ (v : Val) (s : Step) (par : Path) (known : List Path),
      par ∈ known → PF known (preNode tbl full (s :: par) v)
    | .node k as, s, par, known, h => by
        simp only [preNode]
        refine ⟨⟨s, par, rfl, h⟩, PF_asm _ _ _ ?_⟩
        exact pf_attrs tbl full as (s :: par) _ List.mem_cons_self
    | .none, _, _, _, _ => by simp [preNode, PF]
    | .bool _, _, _, _, _ => by simp [preNode, PF]
    | .int _, _, _, _, _ => by simp [preNode, PF]
    | .str _, _, _, _, _ => by simp [preNode, PF]
    | .list _, _, _, _, _ => by simp [preNode, PF]
  theorem pf_attrs (tbl : Table) (full : Bool) : ∀ (as : List (String × Val)) (q : Path) (known : List Path),
      q ∈ known → ∀ e ∈ preAttrs tbl full q as, PF known e.2
    | [], q, known, h => by simp [preAttrs]
    | (a, x) :: rest, q, known, h => by
        intro e he
        simp only [preAttrs, List.mem_cons] at he
        rcases he with he | he
        · subst he
          simp only
          split
          · trivial
          · exact pf_slot tbl full x q a known h
        · exact pf_attrs tbl full rest q known h e he
  theorem pf_slot (tbl : Table) (full : Bool) : ∀ (x : Val) (q : Path) (a : String) (known : List Path),
      q ∈ known → PF known (preSlot tbl full q a x)
    | .node k as, q, a, known, h => by
        simp only [preSlot]
        refine ⟨⟨(a, 0), q, rfl, h⟩, PF_asm _ _ _ ?_⟩
        exact pf_attrs tbl full as ((a, 0) :: q) _ List.mem_cons_self
    | .list xs, q, a, known, h => by simp only [preSlot]; exact pf_items tbl full xs q a 0 known h
    | .none, _, _, _, _ => by simp [preSlot, PF]
    | .bool _, _, _, _, _ => by simp [preSlot, PF]
    | .int _, _, _, _, _ => by simp [preSlot, PF]
    | .str _, _, _, _, _ => by simp [preSlot, PF]
  theorem pf_items (tbl : Table) (full : Bool) : ∀ (xs : List Val) (q : Path) (a : String) (i : Nat)
      (known : List Path), q ∈ known → PF known (preItems tbl full q a i xs)
    | [], _, _, _, _, _ => by simp [preItems, PF]
    | x :: xs, q, a, i, known, h => by
        simp only [preItems]
        exact PF_append _ _ _ (pf_node tbl full x (a, i) q known h) (pf_items tbl full xs q a (i + 1) known h)
end

theorem pf_desc (tbl : Table) (full : Bool) (q : Path) (v : Val) : PF [q] (preDesc tbl full q v) := by
  cases v with
  | node k as =>
    simp only [preDesc]
    exact PF_asm _ _ _ (pf_attrs tbl full as q [q] (by simp))
  | _ => simp [preDesc, PF]

/-- readable form of PF -/
theorem PF_split : ∀ (L : Out) (known : List Path), PF known L → ∀ (A : Out) (x : Path × Val) (B : Out),
    L = A ++ x :: B → ∃ s par, x.1 = s :: par ∧ (par ∈ known ∨ par ∈ A.map (·.1)) := by
  intro L
  induction L with
  | nil => intro known _ A x B h; simp at h
  | cons y rest ih =>
    intro known hpf A x B h
    obtain ⟨⟨s, par, hy, hp⟩, hr⟩ := hpf
    cases A with
    | nil =>
      simp at h
      obtain ⟨h1, _⟩ := h
      subst h1
      exact ⟨s, par, hy, Or.inl hp⟩
    | cons a A' =>
      simp at h
      obtain ⟨h1, h2⟩ := h
      subst h1
      obtain ⟨s', par', hx, hor⟩ := ih _ hr A' x B h2
      refine ⟨s', par', hx, ?_⟩
      rcases hor with h | h
      · rcases List.mem_cons.mp h with h | h
        · right; simp [h]
        · left; exact h
      · right; simp only [List.map_cons, List.mem_cons]; right; exact h

end CalmVerif.Proofs.Walk
