/-
C19: structural induction over JSON syntax trees — the walker model on `treeOf j` yields one fragment
whose value is `ofJson (canon (value j))`; objects: the model's dict building is Spec.Json's `insertAll`.
-/
import CalmVerif.Proofs.ExtractNodes
namespace CalmVerif.Proofs.Extract
open CalmVerif CalmVerif.Spec.Json CalmVerif.Model.Extract CalmVerif.Gen.Extractor

/-! ## the model's dict building on string keys is `Spec.Json.insert` -/

theorem dictSet_members (acc : List (List CodePoint × Value)) (k : List CodePoint) (v : Value) :
    dictSet (ofJsonMembers acc) (.str k) (ofJson v) = .ok (ofJsonMembers (Spec.Json.insert acc k v)) := by
  induction acc with
  | nil => simp [ofJsonMembers, dictSet, hashable, Spec.Json.insert]
  | cons p rest ih =>
    obtain ⟨a, b⟩ := p
    by_cases hak : a = k
    · subst hak
      simp [ofJsonMembers, dictSet, keyEq, Spec.Json.insert]
    · have hb : (a == k) = false := by simpa using hak
      simp [ofJsonMembers, dictSet, keyEq, Spec.Json.insert, hak, hb, ih]

/-- the chunks the members of an object yield -/
def memberChunks : List (List CodePoint × Value) → List Chunk
  | [] => []
  | (k, v) :: rest => tok "Assign" (.asgList [(.str k, ofJson v)]) :: memberChunks rest

theorem mapLoop_members : ∀ (ms acc : List (List CodePoint × Value)),
    mapLoop (memberChunks ms) (ofJsonMembers acc) [] = .ok (ofJsonMembers (insertAllInto acc ms), []) := by
  intro ms
  induction ms with
  | nil => intro acc; simp [memberChunks, mapLoop, insertAllInto]
  | cons p rest ih =>
    intro acc
    obtain ⟨k, v⟩ := p
    simp [memberChunks, mapLoop, tok, dictUpdate, dictSet_members, insertAllInto, ih]

/-! ## inner nodes -/

theorem walk_array (fold : Bool) (n : Nat) (xs : List Val) (cs : List Chunk) (vs : List PyVal)
    (h : walkVals (walkNode fold n) "Array" xs = .ok cs) (hv : chunkValues cs = .ok vs) :
    walkNode fold (n + 1) (.node "Array" [("items", .list xs)]) = .ok [tok "Array" (.list vs)] := by
  simp [walkNode, def_Array, runRules, runRule, getSrc, getattr, h, hv]

theorem walk_object (fold : Bool) (n : Nat) (xs : List Val) (ms : List (List CodePoint × Value))
    (h : walkVals (walkNode fold n) "Object" xs = .ok (memberChunks ms)) :
    walkNode fold (n + 1) (.node "Object" [("properties", .list xs)])
      = .ok [tok "Object" (.dict (ofJsonMembers (insertAll ms)))] := by
  have := mapLoop_members ms []
  simp only [ofJsonMembers] at this
  simp [walkNode, def_Object, runRules, runRule, getSrc, getattr, h, this, miscPairs, dictUpdate, insertAll]

theorem walkNode_node (fold : Bool) (n : Nat) (k : String) (as : List (String × Val)) :
    walkNode fold (n + 1) (.node k as) =
      match lookupDef (defsOf fold) k with
      | some rs => runRules (walkNode fold n) k as rs
      | Option.none => .error (.unmodelled ("node kind " ++ k)) := rfl

theorem walk_member (fold : Bool) (n : Nat) (kS kT : String) (aS aT : List (String × Val))
    (kv : List CodePoint) (f : Frag)
    (hS : walkNode fold (n + 1) (.node kS aS) = .ok [tok "String" (.str kv)])
    (hT : walkNode fold (n + 1) (.node kT aT) = .ok [.frag f]) (hA : isSub kT "Assign" = false) :
    walkNode fold (n + 2) (.node "Assign" [("left", .node kS aS), ("op", .str ":"), ("right", .node kT aT)])
      = .ok [tok "Assign" (.asgList [(.str kv, f.value)])] := by
  rw [walkNode_node, def_Assign]
  simp [runRules, runRule, getattr, walkVal, hS, hT, chunkValues, tok, kindOf, hA]

/-! ## shape facts about `treeOf` -/

theorem treeOf_node (j : Syn) : ∃ k as, treeOf j = .node k as ∧ isSub k "Assign" = false := by
  cases j with
  | null => exact ⟨_, _, rfl, by decide⟩
  | bool b => exact ⟨_, _, rfl, by decide⟩
  | num t =>
    cases t with
    | nil => exact ⟨_, _, rfl, by decide⟩
    | cons c r =>
      by_cases hc : (c == '-') = true
      · exact ⟨"UnaryExpr", [("op", .str "-"), ("value", .node "Number" [("value", .str (String.ofList r))])],
          by unfold treeOf numNode; simp only; rw [if_pos hc], by decide⟩
      · exact ⟨"Number", [("value", .str (String.ofList (c :: r)))],
          by unfold treeOf numNode; simp only; rw [if_neg hc], by decide⟩
  | str b => exact ⟨_, _, rfl, by decide⟩
  | arr xs => exact ⟨"Array", [("items", .list (treeOfList xs))], by rw [treeOf], by decide⟩
  | obj kvs => exact ⟨"Object", [("properties", .list (treeOfMembers kvs))], by rw [treeOf], by decide⟩

theorem depth_node (k : String) (as : List (String × Val)) : depth (.node k as) = depthAttrs as + 1 := by
  simp [depth]

/-! ## the induction -/

mutual
  theorem walk_json (fold : Bool) : ∀ (j : Syn) (v : Value), value j = some v →
      anyBody excludedBody j = false → ∀ n, depth (treeOf j) ≤ n →
      ∃ f, walkNode fold n (treeOf j) = .ok [.frag f] ∧ f.value = ofJson (canon v)
    | .null, v, hv, _, n, hn => by
      simp [value] at hv; subst hv
      obtain ⟨m, rfl⟩ : ∃ m, n = m + 1 := ⟨n - 1, by simp [treeOf, depth] at hn; omega⟩
      exact ⟨⟨.none, "Null", "Null"⟩, walk_null fold m, by simp [canon, ofJson]⟩
    | .bool b, v, hv, _, n, hn => by
      simp [value] at hv; subst hv
      obtain ⟨m, rfl⟩ : ∃ m, n = m + 1 := ⟨n - 1, by simp [treeOf, depth] at hn; omega⟩
      exact ⟨⟨.bool b, "Boolean", "Boolean"⟩, walk_bool fold m b, by simp [canon, ofJson]⟩
    | .num t, v, hv, _, n, hn => by
      simp [value] at hv
      obtain ⟨num, h1, h2⟩ := hv
      subst h2
      obtain ⟨f, hf, hfv⟩ := walk_number fold n t num h1 (by simpa [treeOf] using hn)
      exact ⟨f, by simpa [treeOf] using hf, by simp [hfv, canon, ofJson]⟩
    | .str b, v, hv, hx, n, hn => by
      simp [value] at hv
      obtain ⟨s, h1, h2⟩ := hv
      subst h2
      obtain ⟨m, rfl⟩ : ∃ m, n = m + 1 := ⟨n - 1, by simp [treeOf, strNode, depth] at hn; omega⟩
      have hx' : excludedBody b = false := by simpa [anyBody] using hx
      exact ⟨⟨.str s, "String", "String"⟩, by rw [treeOf]; exact walk_string fold m b s h1 hx',
        by simp [canon, ofJson]⟩
    | .arr xs, v, hv, hx, n, hn => by
      simp [value] at hv
      obtain ⟨vs, h1, h2⟩ := hv
      subst h2
      obtain ⟨m, rfl⟩ : ∃ m, n = m + 1 := ⟨n - 1, by simp [treeOf, depth] at hn; omega⟩
      have hd : depthList (treeOfList xs) ≤ m := by
        simp [treeOf, depth, depthAttrs] at hn; omega
      have hx' : anyBodyList excludedBody xs = false := by simpa [anyBody] using hx
      obtain ⟨cs, hc, hcv⟩ := walk_json_list fold xs vs h1 hx' m "Array" hd
      exact ⟨⟨.list (ofJsonList (canonList vs)), "Array", "Array"⟩,
        by rw [treeOf]; exact walk_array fold m _ cs _ hc hcv, by simp [canon, ofJson]⟩
    | .obj kvs, v, hv, hx, n, hn => by
      simp [value] at hv
      obtain ⟨ms, h1, h2⟩ := hv
      subst h2
      obtain ⟨m, rfl⟩ : ∃ m, n = m + 1 := ⟨n - 1, by simp [treeOf, depth] at hn; omega⟩
      have hd : depthList (treeOfMembers kvs) ≤ m := by
        simp [treeOf, depth, depthAttrs] at hn; omega
      have hx' : anyBodyMembers excludedBody kvs = false := by simpa [anyBody] using hx
      have hc := walk_json_members fold kvs ms h1 hx' m hd
      exact ⟨⟨.dict (ofJsonMembers (insertAll (canonMembers ms))), "Object", "Object"⟩,
        by rw [treeOf]; exact walk_object fold m _ _ hc, by simp [canon, ofJson]⟩
  theorem walk_json_list (fold : Bool) : ∀ (xs : List Syn) (vs : List Value), valueList xs = some vs →
      anyBodyList excludedBody xs = false → ∀ n (k : String), depthList (treeOfList xs) ≤ n →
      ∃ cs, walkVals (walkNode fold n) k (treeOfList xs) = .ok cs ∧
        chunkValues cs = .ok (ofJsonList (canonList vs))
    | [], vs, hv, _, n, k, _ => by
      simp [valueList] at hv; subst hv
      exact ⟨[], by simp [treeOfList, walkVals], by simp [chunkValues, canonList, ofJsonList]⟩
    | x :: xs, vs, hv, hx, n, k, hn => by
      unfold valueList at hv
      cases h1 : value x with
      | none => simp [h1] at hv
      | some v =>
        cases h2 : valueList xs with
        | none => simp [h1, h2] at hv
        | some vs' =>
          simp [h1, h2] at hv; subst hv
          simp [anyBodyList] at hx
          simp [treeOfList, depthList] at hn
          obtain ⟨f, hf, hfv⟩ := walk_json fold x v h1 hx.1 n (by omega)
          obtain ⟨cs, hc, hcv⟩ := walk_json_list fold xs vs' h2 hx.2 n k (by omega)
          obtain ⟨kx, ax, hnode, _⟩ := treeOf_node x
          refine ⟨.frag f :: cs, ?_, ?_⟩
          · rw [hnode] at hf
            simp [treeOfList, walkVals, hnode, walkVal, hf, hc]
          · simp [chunkValues, hcv, canonList, ofJsonList, hfv]
  theorem walk_json_members (fold : Bool) : ∀ (kvs : List (List Char × Syn)) (ms : List (List CodePoint × Value)),
      valueMembers kvs = some ms → anyBodyMembers excludedBody kvs = false →
      ∀ n, depthList (treeOfMembers kvs) ≤ n →
      walkVals (walkNode fold n) "Object" (treeOfMembers kvs) = .ok (memberChunks (canonMembers ms))
    | [], ms, hv, _, n, _ => by
      simp [valueMembers] at hv; subst hv
      simp [treeOfMembers, walkVals, canonMembers, memberChunks]
    | (k, x) :: rest, ms, hv, hx, n, hn => by
      unfold valueMembers at hv
      cases h0 : stringValue k with
      | none => simp [h0] at hv
      | some kv =>
        cases h1 : value x with
        | none => simp [h0, h1] at hv
        | some v =>
          cases h2 : valueMembers rest with
          | none => simp [h0, h1, h2] at hv
          | some ms' =>
            simp [h0, h1, h2] at hv; subst hv
            simp [anyBodyMembers] at hx
            obtain ⟨kx, ax, hnode, hA⟩ := treeOf_node x
            simp [treeOfMembers, depthList, depth, depthAttrs, strNode] at hn
            obtain ⟨m, rfl⟩ : ∃ m, n = m + 2 := ⟨n - 2, by omega⟩
            obtain ⟨f, hf, hfv⟩ := walk_json fold x v h1 hx.1.2 (m + 1) (by omega)
            have hrest := walk_json_members fold rest ms' h2 hx.2 (m + 2) (by omega)
            have hS := walk_string fold m k kv h0 hx.1.1
            rw [hnode] at hf
            have hmem := walk_member fold m "String" kx _ ax kv f hS hf hA
            simp only [treeOfMembers, walkVals, walkVal, hnode, strNode, hmem, hrest, canonMembers, memberChunks, hfv]
            rfl
end

end CalmVerif.Proofs.Extract
