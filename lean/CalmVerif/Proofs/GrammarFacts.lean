/-
Checkable facts about the regenerated grammar / LALR tables used by C04 (automatic semicolon insertion)
and C05 (division vs regular expression).  Bool functions evaluated by the kernel in Props/C04, Props/C05.
-/
import CalmVerif.Model.LR
namespace CalmVerif.Model.GrammarFacts
open CalmVerif.Model.LR

structure GT where
  terminals : List String
  nonterminals : List String
  prods : List (Nat × List Nat)
  action : List (List Nat)
  defaulted : List Nat

def GT.nT (g : GT) : Nat := g.terminals.length
def GT.term (g : GT) (name : String) : Nat := g.terminals.idxOf name
def GT.nonterm (g : GT) (name : String) : Nat := g.nonterminals.idxOf name

/-! ### C04 -/

/-- AUTOSEMI occurs in a production only as its last symbol -/
def autosemiOnlyLast (g : GT) : Bool :=
  let a := g.term "AUTOSEMI"
  (g.prods.drop 1).all fun (_, rhs) => !(rhs.dropLast.contains a)

/-- every production ending in AUTOSEMI has a twin ending in SEMI (same lhs, same other symbols) and vice versa,
    except `empty_statement : SEMI`, which must have no AUTOSEMI twin -/
def autosemiTwins (g : GT) : Bool :=
  let a := g.term "AUTOSEMI"
  let s := g.term "SEMI"
  let es := g.nonterm "empty_statement"
  let ps := g.prods.drop 1
  let endsIn (x : Nat) (rhs : List Nat) : Bool := rhs.getLast? == some x
  ps.all fun (lhs, rhs) =>
    if endsIn a rhs then ps.contains (lhs, rhs.dropLast ++ [s])
    else if endsIn s rhs then
      if lhs == es then rhs == [s] && !(ps.contains (lhs, [a]))
      else ps.contains (lhs, rhs.dropLast ++ [a])
    else true

/-- the twin productions have the same semantic action (so explicit and inserted semicolons build the same
    tree): `digests[p]` is the canonical text of production p's probed action descriptor (translator) -/
def twinsSameAction (g : GT) (digests : List String) : Bool :=
  let a := g.term "AUTOSEMI"
  let s := g.term "SEMI"
  let n := g.prods.length
  (List.range n).all fun i =>
    match g.prods[i]? with
    | some (lhs, rhs) =>
      if i != 0 && rhs.getLast? == some a then
        (List.range n).any fun j =>
          j != 0 && g.prods[j]? == some (lhs, rhs.dropLast ++ [s]) && digests[i]? == digests[j]? && (digests[i]?).isSome
      else true
    | none => false

def iterationHasNoInteriorAutosemi (g : GT) : Bool :=
  -- consequence of autosemiOnlyLast, stated for the for-headers: no production of iteration_statement
  -- has AUTOSEMI before its last symbol (the `;` separators of a for header can never be inserted)
  let a := g.term "AUTOSEMI"
  let it := g.nonterm "iteration_statement"
  (g.prods.drop 1).all fun (lhs, rhs) => lhs != it || !(rhs.dropLast.contains a)

def c04Facts (g : GT) : Bool :=
  g.terminals.contains "AUTOSEMI" && g.terminals.contains "SEMI" &&
  g.nonterminals.contains "empty_statement" && g.nonterminals.contains "iteration_statement" &&
  autosemiOnlyLast g && autosemiTwins g && iterationHasNoInteriorAutosemi g

/-! ### C05 -/

def rowTargets (row : List Nat) (term : Nat) : List Nat :=
  match lookupFlat row term with
  | some code => match decodeAct code with
    | .shift t => [t]
    | _ => []
  | none => []

/-- states entered by shifting terminal `term` -/
def shiftTargets (g : GT) (term : Nat) : List Nat :=
  (g.action.flatMap fun row => rowTargets row term).eraseDups

def hasAction (g : GT) (state term : Nat) : Bool :=
  match g.action[state]? with
  | some row => (lookupFlat row term).isSome
  | none => false

def isDefaulted (g : GT) (state : Nat) : Bool := (lookupFlat g.defaulted state).isSome

/-- after shifting `name`, the parser has no action on any of `forbidden` (non-defaulted states only: a defaulted
    state reduces without looking at the next token, the error surfaces in a later state) -/
def neverAfter (g : GT) (name : String) (forbidden : List String) : Bool :=
  let t := g.term name
  (shiftTargets g t).all fun s =>
    isDefaulted g s || forbidden.all fun f => !(hasAction g s (g.term f))

/-- tokens after which calmjs always lexes `/` as division: a regular expression can never follow them -/
def simpleTokensNeverRegex (g : GT) (simple : List String) : Bool :=
  simple.all fun n => g.terminals.contains n && neverAfter g n ["REGEX"]

/-- tokens after which calmjs always lexes `/` as a regex: a division can never follow them -/
def operatorTokensNeverDiv (g : GT) (ops : List String) : Bool :=
  ops.all fun n => g.terminals.contains n && neverAfter g n ["DIV", "DIVEQUAL"]

/-- no state entered by shifting `)` accepts both a division and a regular expression -/
def rparenExclusive (g : GT) : Bool :=
  (shiftTargets g (g.term "RPAREN")).all fun s =>
    isDefaulted g s || !((hasAction g s (g.term "DIV") || hasAction g s (g.term "DIVEQUAL")) && hasAction g s (g.term "REGEX"))

end CalmVerif.Model.GrammarFacts
