/-
Checkable facts about the regenerated grammar / LALR tables used by C04 (automatic semicolon insertion)
and C05 (division vs regular expression).  Bool functions evaluated by the kernel in Props/C04, Props/C05.
-/
import CalmVerif.Model.LR
namespace CalmVerif.Model.GrammarFacts
open CalmVerif.Model.LR

structure GT where
  terminals : List String
  nonterminals : List String
  prods : List (Nat × List Nat)
  action : List (List Nat)
  defaulted : List Nat

def GT.nT (g : GT) : Nat := g.terminals.length
def GT.term (g : GT) (name : String) : Nat := g.terminals.idxOf name
def GT.nonterm (g : GT) (name : String) : Nat := g.nonterminals.idxOf name

/-! ### C04 -/

/-- AUTOSEMI occurs in a production only as its last symbol -/
def autosemiOnlyLast (g : GT) : Bool :=
  let a := g.term "AUTOSEMI"
  (g.prods.drop 1).all fun (_, rhs) => !(rhs.dropLast.contains a)

/-- every production ending in AUTOSEMI has a twin ending in SEMI (same lhs, same other symbols) and vice versa,
    except `empty_statement : SEMI`, which must have no AUTOSEMI twin -/
def autosemiTwins (g : GT) : Bool :=
  let a := g.term "AUTOSEMI"
  let s := g.term "SEMI"
  let es := g.nonterm "empty_statement"
  let ps := g.prods.drop 1
  let endsIn (x : Nat) (rhs : List Nat) : Bool := rhs.getLast? == some x
  ps.all fun (lhs, rhs) =>
    if endsIn a rhs then ps.contains (lhs, rhs.dropLast ++ [s])
    else if endsIn s rhs then
      if lhs == es then rhs == [s] && !(ps.contains (lhs, [a]))
      else ps.contains (lhs, rhs.dropLast ++ [a])
    else true

/-- the twin productions have the same semantic action (so explicit and inserted semicolons build the same
    tree): `digests[p]` is the canonical text of production p's probed action descriptor (translator) -/
def twinsSameAction (g : GT) (digests : List String) : Bool :=
  let a := g.term "AUTOSEMI"
  let s := g.term "SEMI"
  let n := g.prods.length
  (List.range n).all fun i =>
    match g.prods[i]? with
    | some (lhs, rhs) =>
      if i != 0 && rhs.getLast? == some a then
        (List.range n).any fun j =>
          j != 0 && g.prods[j]? == some (lhs, rhs.dropLast ++ [s]) && digests[i]? == digests[j]? && (digests[i]?).isSome
      else true
    | none => false

def iterationHasNoInteriorAutosemi (g : GT) : Bool :=
  -- consequence of autosemiOnlyLast, stated for the for-headers: no production of iteration_statement
  -- has AUTOSEMI before its last symbol (the `;` separators of a for header can never be inserted)
  let a := g.term "AUTOSEMI"
  let it := g.nonterm "iteration_statement"
  (g.prods.drop 1).all fun (lhs, rhs) => lhs != it || !(rhs.dropLast.contains a)

def c04Facts (g : GT) : Bool :=
  g.terminals.contains "AUTOSEMI" && g.terminals.contains "SEMI" &&
  g.nonterminals.contains "empty_statement" && g.nonterminals.contains "iteration_statement" &&
  autosemiOnlyLast g && autosemiTwins g && iterationHasNoInteriorAutosemi g

/-! ### C05 -/

def rowTargets (row : List Nat) (term : Nat) : List Nat :=
  match lookupFlat row term with
  | some code => match decodeAct code with
    | .shift t => [t]
    | _ => []
  | none => []

/-- states entered by shifting terminal `term` -/
def shiftTargets (g : GT) (term : Nat) : List Nat :=
  (g.action.flatMap fun row => rowTargets row term).eraseDups

def hasAction (g : GT) (state term : Nat) : Bool :=
  match g.action[state]? with
  | some row => (lookupFlat row term).isSome
  | none => false

def isDefaulted (g : GT) (state : Nat) : Bool := (lookupFlat g.defaulted state).isSome

/-- after shifting `name`, the parser has no action on any of `forbidden` (non-defaulted states only: a defaulted
    state reduces without looking at the next token, the error surfaces in a later state) -/
def neverAfter (g : GT) (name : String) (forbidden : List String) : Bool :=
  let t := g.term name
  (shiftTargets g t).all fun s =>
    isDefaulted g s || forbidden.all fun f => !(hasAction g s (g.term f))

/-- tokens after which calmjs always lexes `/` as division: a regular expression can never follow them -/
def simpleTokensNeverRegex (g : GT) (simple : List String) : Bool :=
  simple.all fun n => g.terminals.contains n && neverAfter g n ["REGEX"]

/-- tokens after which calmjs always lexes `/` as a regex: a division can never follow them -/
def operatorTokensNeverDiv (g : GT) (ops : List String) : Bool :=
  ops.all fun n => g.terminals.contains n && neverAfter g n ["DIV", "DIVEQUAL"]

/-- no state entered by shifting `)` accepts both a division and a regular expression -/
def rparenExclusive (g : GT) : Bool :=
  (shiftTargets g (g.term "RPAREN")).all fun s =>
    isDefaulted g s || !((hasAction g s (g.term "DIV") || hasAction g s (g.term "DIVEQUAL")) && hasAction g s (g.term "REGEX"))

end CalmVerif.Model.GrammarFacts

namespace CalmVerif.Model.GrammarFacts
open CalmVerif.Model.LR

/-! ### C03: clauses of the property as facts about the regenerated grammar / tables -/

def GT.prodsOf (g : GT) (n : Nat) : List (List Nat) :=
  ((g.prods.drop 1).filter (fun p => p.1 == n)).map (·.2)

/-- `L` is a left-associative binary level over the operators `ops`: its productions are exactly one pass-through
    `L → R` and, for each operator, `L → L op R'` where neither R nor R' is L (no right recursion) -/
def leftAssocLevel (g : GT) (level : String) (ops : List String) : Bool :=
  let L := g.nT + g.nonterm level
  let ps := g.prodsOf (g.nonterm level)
  g.nonterminals.contains level &&
  ps.all (fun rhs => match rhs with
    | [r] => r != L && !g.terminals.isEmpty && r ≥ g.nT
    | [l, op, r] => l == L && r != L && r ≥ g.nT && (ops.map g.term).contains op
    | _ => false) &&
  ops.all (fun o => g.terminals.contains o && ps.any (fun rhs => match rhs with
    | [_, op, _] => op == g.term o
    | _ => false)) &&
  ps.any (fun rhs => rhs.length == 1)

/-- `L` is right-recursive in its last symbol (assignment, conditional): some production ends in L itself or its
    plain variant, none starts with L -/
def rightAssocLevel (g : GT) (level : String) (lastOneOf : List String) : Bool :=
  let L := g.nT + g.nonterm level
  let ps := g.prodsOf (g.nonterm level)
  g.nonterminals.contains level &&
  ps.all (fun rhs => rhs.head? != some L) &&
  ps.any (fun rhs => rhs.length > 1 && (lastOneOf.map (fun n => g.nT + g.nonterm n)).contains (rhs.getLast?.getD 0))

def binaryLevels : List (String × List String) :=
  [("multiplicative_expr", ["MULT", "DIV", "MOD"]), ("additive_expr", ["PLUS", "MINUS"]),
   ("shift_expr", ["LSHIFT", "RSHIFT", "URSHIFT"]),
   ("relational_expr", ["LT", "GT", "LE", "GE", "INSTANCEOF", "IN"]),
   ("equality_expr", ["EQEQ", "NE", "STREQ", "STRNEQ"]), ("bitwise_and_expr", ["BAND"]),
   ("bitwise_xor_expr", ["BXOR"]), ("bitwise_or_expr", ["BOR"]), ("logical_and_expr", ["AND"]),
   ("logical_or_expr", ["OR"])]

/-- all binary levels, in their plain, `_nobf` and `_noin` variants (the `_noin` relational level without `IN`) -/
def binaryLevelsOK (g : GT) : Bool :=
  binaryLevels.all fun (name, ops) =>
    leftAssocLevel g name ops && leftAssocLevel g (name ++ "_nobf") ops &&
    -- the NoIn family starts at the relational level (the tighter levels cannot contain a bare `in`)
    (["multiplicative_expr", "additive_expr", "shift_expr"].contains name ||
      leftAssocLevel g (name ++ "_noin") (ops.filter (· != "IN")))

/-- the precedence chain: the pass-through of each level is the next tighter level (same variant) -/
def chainOK (g : GT) (suffix : String) : Bool :=
  let names := binaryLevels.map (·.1)
  let pairs := (names.drop 1).zip names          -- (looser, tighter): additive → multiplicative, …
  pairs.all fun (looser, tighter) =>
    if suffix == "_noin" && ["multiplicative_expr", "additive_expr", "shift_expr"].contains looser then true
    else
      let t := if suffix == "_noin" && tighter == "shift_expr" then tighter else tighter ++ suffix
      (g.prodsOf (g.nonterm (looser ++ suffix))).contains [g.nT + g.nonterm t]

/-- no `_noin` production mentions the terminal `IN` -/
def noinExcludesIn (g : GT) : Bool :=
  let i := g.term "IN"
  (g.prods.drop 1).all fun (lhs, rhs) =>
    match g.nonterminals[lhs]? with
    | some name => !(name.endsWith "_noin") || !(rhs.contains i)
    | none => false

/-- nonterminals reachable as FIRST symbol from `start` (no nullable symbol occurs first in this family) -/
def firstClosure (g : GT) : Nat → List Nat → List Nat
  | 0, acc => acc
  | fuel + 1, acc =>
    let next := acc.foldl (fun a n =>
      (g.prodsOf n).foldl (fun a rhs => match rhs.head? with
        | some x => if x ≥ g.nT && !(a.contains (x - g.nT)) then a ++ [x - g.nT] else a
        | none => a) a) acc
    if next.length == acc.length then acc else firstClosure g fuel next

/-- terminals that can begin a string derived from `start` -/
def firstTerminals (g : GT) (start : String) : List Nat :=
  let ns := firstClosure g 64 [g.nonterm start]
  (ns.flatMap fun n => (g.prodsOf n).filterMap fun rhs => match rhs.head? with
    | some x => if x < g.nT then some x else none
    | none => none).eraseDups

/-- in the state after `IF ( expr ) statement` the action on ELSE is a shift (else binds to the nearest if) -/
def elseBindsNearest (g : GT) (cert : List (List Nat)) : Bool :=
  let pat := [g.term "IF", g.term "LPAREN", g.nT + g.nonterm "expr", g.term "RPAREN", g.nT + g.nonterm "statement"]
  let e := g.term "ELSE"
  let states := (List.range g.action.length).filter fun s =>
    pat.isSuffixOf ((cert[s]?).getD [])
  !states.isEmpty && states.all fun s =>
    match g.action[s]? with
    | some row => match lookupFlat row e with
      | some code => (match decodeAct code with | .shift _ => true | _ => false)
      | none => false
    | none => false

end CalmVerif.Model.GrammarFacts
