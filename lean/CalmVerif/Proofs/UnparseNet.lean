/-
Net indentation of the chunk stream: the Indentator level after the whole walk is the number of
Indent chunks minus the number of Dedent chunks, and a static check of the definitions
(`defsNetOK`) makes that number zero for every tree.
-/
import CalmVerif.Model.UnparseAux
namespace CalmVerif.Unparse
open CalmVerif

variable {σ : Type}

theorem netChunks_append (a b : List Chunk) : netChunks (a ++ b) = netChunks a + netChunks b := by
  induction a with
  | nil => simp [netChunks]
  | cons c cs ih => simp [netChunks, ih]; omega

/-- static net effect of one rule (only its own marker; nested bodies are checked to be neutral) -/
def ruleNet (tbl : List (LKey × Option HandlerId)) : Rule → Int
  | .layout m =>
    match lookupLayout tbl (LKey.single m) with
    | some h => hDelta h
    | none => 0
  | _ => 0

def rulesNet (tbl : List (LKey × Option HandlerId)) : List Rule → Int
  | [] => 0
  | r :: rs => ruleNet tbl r + rulesNet tbl rs

mutual
  /-- every nested body / separator definition has net effect zero -/
  def ruleNested0 (tbl : List (LKey × Option HandlerId)) : Rule → Bool
    | .optional _ body => rulesNet tbl body == 0 && rulesNested0 tbl body
    | .joinAttr _ sep _ => rulesNet tbl sep == 0 && rulesNested0 tbl sep
    | .elisionJoinAttr _ sep _ => rulesNet tbl sep == 0 && rulesNested0 tbl sep
    | _ => true
  def rulesNested0 (tbl : List (LKey × Option HandlerId)) : List Rule → Bool
    | [] => true
    | r :: rs => ruleNested0 tbl r && rulesNested0 tbl rs
end

def defsNetOK (tbl : List (LKey × Option HandlerId)) : Defs → Bool
  | [] => true
  | (_, d) :: rest => rulesNet tbl d == 0 && rulesNested0 tbl d && defsNetOK tbl rest

theorem lookupDef_netOK {tbl : List (LKey × Option HandlerId)} {defs : Defs} (h : defsNetOK tbl defs = true)
    {k : String} {d : List Rule} (hd : lookupDef defs k = some d) :
    rulesNet tbl d = 0 ∧ rulesNested0 tbl d = true := by
  induction defs with
  | nil => simp [lookupDef] at hd
  | cons p rest ih =>
    obtain ⟨k', d'⟩ := p
    simp only [defsNetOK, Bool.and_eq_true, beq_iff_eq] at h
    simp only [lookupDef] at hd
    split at hd
    · cases hd; exact ⟨h.1.1, h.1.2⟩
    · exact ih h.2 hd

theorem seqM_nil_ok {α : Type} (f : α → σ → Except Err (List Chunk × σ)) (s : σ) (cs : List Chunk) (s' : σ) :
    seqM f [] s = .ok (cs, s') ↔ cs = [] ∧ s' = s := by
  simp only [seqM, Except.ok.injEq, Prod.mk.injEq]
  constructor
  · rintro ⟨rfl, rfl⟩; exact ⟨rfl, rfl⟩
  · rintro ⟨rfl, rfl⟩; exact ⟨rfl, rfl⟩

theorem seqM_cons_ok {α : Type} (f : α → σ → Except Err (List Chunk × σ)) (x : α) (xs : List α)
    (s : σ) (cs : List Chunk) (s' : σ) :
    seqM f (x :: xs) s = .ok (cs, s') ↔
      ∃ c1 s1 c2, f x s = .ok (c1, s1) ∧ seqM f xs s1 = .ok (c2, s') ∧ cs = c1 ++ c2 := by
  simp only [seqM]
  constructor
  · intro h
    split at h
    · cases h
    · rename_i c1 s1 h1
      split at h
      · cases h
      · rename_i c2 s2 h2
        simp only [Except.ok.injEq, Prod.mk.injEq] at h
        obtain ⟨rfl, rfl⟩ := h
        exact ⟨c1, s1, c2, h1, h2, rfl⟩
  · rintro ⟨c1, s1, c2, h1, h2, rfl⟩
    simp [h1, h2]

/-- `seqM` adds up the net effects -/
theorem seqM_net {α : Type} (f : α → σ → Except Err (List Chunk × σ)) (g : α → Int) :
    ∀ (xs : List α) (s : σ) (cs : List Chunk) (s' : σ),
      (∀ x ∈ xs, ∀ s cs s', f x s = .ok (cs, s') → netChunks cs = g x) →
      seqM f xs s = .ok (cs, s') → netChunks cs = (xs.map g).sum := by
  intro xs
  induction xs with
  | nil =>
    intro s cs s' _ h
    rw [seqM_nil_ok] at h
    simp [h.1, netChunks]
  | cons x xs ih =>
    intro s cs s' hf h
    rw [seqM_cons_ok] at h
    obtain ⟨c1, s1, c2, h1, h2, rfl⟩ := h
    have e1 := hf x (by simp) s c1 s1 h1
    have e2 := ih s1 c2 s' (fun y hy => hf y (by simp [hy])) h2
    simp [netChunks_append, e1, e2]

end CalmVerif.Unparse
