/-
C04 (parse level), lexer side: every AUTOSEMI the lexer itself hands out is a restricted-production semicolon
(reason R3), and after every raw lexing call the model's test "the previous raw token is a LINE_TERMINATOR" means, in
text terms, that a line terminator sequence directly precedes the current token (`PrevInv`).
-/
import CalmVerif.Proofs.ParserAsiDefs
import CalmVerif.Proofs.ParserNoInternal

namespace CalmVerif.Proofs.ParserAsi
open CalmVerif.Model.TokenRegex CalmVerif.Model.PlyLex CalmVerif.Model.Lexer CalmVerif.Model
open CalmVerif.Proofs.LexerPly CalmVerif.Proofs.LexerStep CalmVerif.Proofs.LexerLoop CalmVerif.Proofs.LexerTables
open CalmVerif.Proofs.LexerDrive CalmVerif.Proofs.ParserDrive
open CalmVerif.Spec.LexSeg CalmVerif.Gen

/-- D: every ignored character of either lexer state is ES5 WhiteSpace -/
theorem ignored_ws (s : LexerState) (c : Char) (h : isIgnored s c = true) : isWhiteSpace c = true := by
  have key : ∀ s, (ignoreOf s).all (fun c => isWhiteSpace c) = true := by
    intro s; cases s <;> decide
  exact List.all_eq_true.mp (key s) c (by simpa [isIgnored] using h)

/-- the matcher of the rule that made a token of a non-identifier type matched its lexeme -/
theorem ruleInfo_matcher {text : List Char} {t : Token} (h : RuleInfo text t) (X : String) (hX : X ≠ "ID")
    (hk : X ∉ LexData.keywords.map (·.2)) (hty : t.type = X) (m : List Char → Option Nat)
    (hm : ruleMatcher X = some m) : m (text.drop t.lexpos) = some t.value.length := by
  obtain ⟨_, s, r, ap, ⟨_, _, m', _, hm', hn, _⟩, hr⟩ := h
  have : r = X := ruleFn_eq ap r _ X hX hk (hr ▸ hty)
  subst this
  rw [hm] at hm'
  simp at hm'
  subst hm'
  exact hn

theorem getLexerToken_cur (s : LexerState) (st : LexState) (tok : Option Token) (st1 : LexState)
    (h : getLexerToken s st = .ok (tok, st1)) : st1.curToken = st.curToken := by
  unfold getLexerToken at h
  split at h
  · simp at h; rw [← h.2]
  · simp at h
  · split at h <;> simp at h
  · split at h
    · simp at h
    · simp only [Except.ok.injEq, Prod.mk.injEq] at h
      rw [← h.2]; rfl

theorem setTokens_prev (st : LexState) (tok : Option Token) (st2 : LexState) (h : setTokens st tok = .ok st2) :
    st2.prevToken = st.curToken := by
  unfold setTokens at h
  split at h
  · simp at h
  · simp only [Except.ok.injEq] at h
    rw [← h]

/-- one raw lexing call with everything C04 needs: like `LexCall`, plus `prev_token` and the origin of an AUTOSEMI -/
def LexCall2 (st : LexState) (r : Option Token) (st' : LexState) : Prop :=
  ∃ s tok st1, getLexerToken s st = .ok (tok, st1) ∧ PosEq st' st1 ∧ st'.curToken = tok ∧
    st'.prevToken = st.curToken ∧ st'.nextTokens = st.nextTokens ∧
    (r = tok ∨ ∃ raw a p, tok = some raw ∧ r = some a ∧ a.auto = true ∧ a.type = "AUTOSEMI" ∧ a.value = [';'] ∧
      a.lexpos = raw.lexpos ∧ a.lineno = raw.lineno ∧ raw.type = "LINE_TERMINATOR" ∧ s = .initial ∧
      st.curToken = some p ∧ isRestricted p.type = true)

theorem LexCall2.toLexCall {st : LexState} {r : Option Token} {st' : LexState} (h : LexCall2 st r st') :
    LexCall st r st' := by
  obtain ⟨s, tok, st1, hg, hpe, hc, _, hn, hret⟩ := h
  refine ⟨s, tok, st1, hg, hpe, hc, hn, ?_⟩
  rcases hret with h1 | ⟨raw, a, p, h1, h2, h3, h4, h5, h6, h7, _⟩
  · exact Or.inl h1
  · exact Or.inr ⟨raw, a, h1, h2, h3, h4, h5, h6, h7⟩

theorem getUpdateToken_call2 (st : LexState) (r : Option Token) (st' : LexState)
    (h : getUpdateToken st = .ok (r, st')) : LexCall2 st r st' := by
  unfold getUpdateToken at h
  split at h
  · simp at h
  · rename_i tok st1 hg
    have hcur1 := getLexerToken_cur _ _ _ _ hg
    split at h
    · simp at h
    · rename_i st2 hs
      obtain ⟨hf2, hl2, hc2⟩ := setTokens_spec _ _ _ hs
      have hprev : st2.prevToken = st.curToken := (setTokens_prev _ _ _ hs).trans hcur1
      have hnt : st1.nextTokens = st.nextTokens := by
        cases tok with
        | none => exact (getLexerToken_none _ _ _ hg).1.2.2.2
        | some t => exact (getLexerToken_some _ _ _ _ hg).frame.2.2.2
      have hpe : PosEq st2 st1 := ⟨hf2.1, hl2.1, hl2.2.1, hl2.2.2⟩
      split at h
      · rename_i hcur
        simp at h
        obtain ⟨rfl, rfl⟩ := h
        rw [hc2] at hcur
        subst hcur
        exact ⟨.initial, none, st1, hg, hpe, hc2, hprev, hf2.2.2.2.trans hnt, Or.inl rfl⟩
      · rename_i cur hcur
        rw [hc2] at hcur
        subst hcur
        split at h
        · simp at h
        · rename_i st3 hu
          obtain ⟨ts, rfl⟩ := updateStack_spec _ _ _ hu
          split at h
          · rename_i hres
            simp only [createSemiToken, Except.ok.injEq, Prod.mk.injEq] at h
            obtain ⟨rfl, rfl⟩ := h
            simp only [isRestrictedLt, Bool.and_eq_true, decide_eq_true_eq] at hres
            have hp : ∃ p, st.curToken = some p ∧ isRestricted p.type = true := by
              have h2 := hres.2
              rw [hprev] at h2
              cases hcp : st.curToken with
              | none => rw [hcp] at h2; simp at h2
              | some p => rw [hcp] at h2; exact ⟨p, rfl, h2⟩
            obtain ⟨p, hp1, hp2⟩ := hp
            exact ⟨.initial, some cur, st1, hg, hpe, hc2, hprev, hf2.2.2.2.trans hnt,
              Or.inr ⟨cur, _, p, rfl, rfl, rfl, rfl, rfl, rfl, rfl, hres.1, rfl, hp1, hp2⟩⟩
          · simp only [Except.ok.injEq, Prod.mk.injEq] at h
            obtain ⟨rfl, rfl⟩ := h
            exact ⟨.initial, some cur, st1, hg, hpe, hc2, hprev, hf2.2.2.2.trans hnt, Or.inl rfl⟩

theorem divOrRegex_call2 (st : LexState) (r : Option Token) (st' : LexState)
    (h : divOrRegex st = .ok (r, st')) : LexCall2 st r st' := by
  unfold divOrRegex at h
  split at h
  · simp at h
  · exact getUpdateToken_call2 _ _ _ h
  · split at h
    · simp at h
    · rename_i tok st1 hg
      unfold readRegex at hg
      have hcur1 := getLexerToken_cur _ _ _ _ hg
      split at h
      · simp at h
      · rename_i st2 hs
        obtain ⟨hf2, hl2, hc2⟩ := setTokens_spec _ _ _ hs
        have hprev : st2.prevToken = st.curToken := (setTokens_prev _ _ _ hs).trans hcur1
        have hnt : st1.nextTokens = st.nextTokens := by
          cases tok with
          | none => exact (getLexerToken_none _ _ _ hg).1.2.2.2
          | some t => exact (getLexerToken_some _ _ _ _ hg).frame.2.2.2
        simp only [Except.ok.injEq, Prod.mk.injEq] at h
        obtain ⟨rfl, rfl⟩ := h
        exact ⟨.regex, tok, st1, hg, ⟨hf2.1, hl2.1, hl2.2.1, hl2.2.2⟩, hc2, hprev, hf2.2.2.2.trans hnt,
          Or.inl hc2⟩

/-! ### the invariants -/

/-- when `prev_token` is a LINE_TERMINATOR token, a line terminator sequence directly precedes the current token -/
def PrevInv (text : List Char) (st : LexState) : Prop :=
  ∀ p c, st.prevToken = some p → p.type = "LINE_TERMINATOR" → st.curToken = some c →
    LtDirectlyBefore text c.lexpos

/-- `lexpos` is the end of `cur_token`, except in the rewound state of `backtracked_token` (cur_token a DIV) -/
def CurAt (text : List Char) (st : LexState) : Prop :=
  CurOK text st ∨ ∃ c, st.curToken = some c ∧ c.type = "DIV"

/-- D: the restricted keywords and their spellings; DIV and LINE_TERMINATOR are none of them -/
theorem restricted_facts :
    LexData.restrictedKeywords = ["BREAK", "CONTINUE", "RETURN", "THROW"] ∧
    ("break", "BREAK") ∈ LexData.keywords ∧ ("continue", "CONTINUE") ∈ LexData.keywords ∧
    ("return", "RETURN") ∈ LexData.keywords ∧ ("throw", "THROW") ∈ LexData.keywords := by decide

theorem lt_not_kw' : "LINE_TERMINATOR" ∉ LexData.keywords.map (·.2) := by decide

theorem curAt_not_div {text : List Char} {st : LexState} (h : CurAt text st) (p : Token)
    (hp : st.curToken = some p) (hne : p.type ≠ "DIV") :
    st.lexpos = p.lexpos + p.value.length ∧ p.auto = false ∧ RuleInfo text p := by
  rcases h with h | ⟨c, hc, hd⟩
  · unfold CurOK at h; rw [hp] at h; exact h
  · rw [hp] at hc; simp at hc; subst hc; exact absurd hd hne

/-- what one raw call gives for C04 -/
theorem lexCall2_asi {text : List Char} {st : LexState} {r : Option Token} {st' : LexState}
    (hinv : PInv text st) (hcur : CurAt text st) (h : LexCall2 st r st') :
    PrevInv text st' ∧ ∀ a, r = some a → a.auto = true → AsiReason text a := by
  obtain ⟨s, tok, st1, hg, hpe, hc, hprev, hnt, hret⟩ := h
  have htext := hinv.textEq
  -- facts about the raw token, if any
  have hrawfacts : ∀ raw, tok = some raw → ∀ p, st.curToken = some p → p.type ≠ "DIV" →
      p.lexpos + p.value.length ≤ raw.lexpos ∧ AllWhiteSpace text (p.lexpos + p.value.length) raw.lexpos := by
    intro raw hr p hp hne
    subst hr
    have hraw := getLexerToken_some _ _ _ _ hg
    obtain ⟨hlex, _, _⟩ := curAt_not_div hcur p hp hne
    refine ⟨by rw [← hlex]; exact hraw.le, ?_⟩
    intro c hcm
    rw [← hlex] at hcm
    exact ignored_ws s c (hraw.ign c (by rw [htext]; exact hcm))
  constructor
  · intro p c hp hpt hcc
    rw [hprev] at hp
    rw [hc] at hcc
    have hne : p.type ≠ "DIV" := by rw [hpt]; decide
    obtain ⟨hlex, _, hri⟩ := curAt_not_div hcur p hp hne
    have hm := ruleInfo_matcher hri "LINE_TERMINATOR" (by decide) lt_not_kw' hpt ltSeqLen (by simp [ruleMatcher])
    obtain ⟨h1, h2⟩ := hrawfacts c hcc p hp hne
    exact ⟨p.lexpos, p.value.length, hm, h1, h2⟩
  · intro a ha hauto
    rcases hret with h1 | ⟨raw, a', p, h1, h2, _, _, _, hlp, _, hlt, hs, hp, hres⟩
    · -- the raw token itself: not an inserted one
      exfalso
      rw [ha] at h1
      cases tok with
      | none => simp at h1
      | some raw =>
        simp at h1; subst h1
        have := (getLexerToken_some _ _ _ _ hg).auto
        rw [this] at hauto; simp at hauto
    · rw [ha] at h2
      simp at h2; subst h2
      subst h1
      have hraw := getLexerToken_some _ _ _ _ hg
      obtain ⟨hrk, hb, hcn, hrt, hth⟩ := restricted_facts
      have hmem : p.type ∈ ["BREAK", "CONTINUE", "RETURN", "THROW"] := by
        rw [← hrk]; simpa [isRestricted] using hres
      have hne : p.type ≠ "DIV" := by
        intro hd; rw [hd] at hmem; simp at hmem
      obtain ⟨hlex, hpa, hri⟩ := curAt_not_div hcur p hp hne
      obtain ⟨hle, hws⟩ := hrawfacts raw rfl p hp hne
      have hltm : ltSeqLen (text.drop raw.lexpos) = some raw.value.length := by
        have := rawTok_matcher hraw "LINE_TERMINATOR" (by decide) lt_not_kw' hlt ltSeqLen (by simp [ruleMatcher])
        rw [htext] at this; exact this
      have hkw : ∃ kw, kw ∈ ["break", "continue", "return", "throw"] ∧ String.ofList p.value = kw := by
        have hcls : ∀ (sp K : String), (sp, K) ∈ LexData.keywords → p.type = K → String.ofList p.value = sp := by
          intro sp K hK hty
          exact keyword_type_exact hri sp K hK hty
        simp only [List.mem_cons, List.mem_nil_iff, or_false] at hmem
        rcases hmem with h | h | h | h
        · exact ⟨"break", by simp, hcls _ _ hb h⟩
        · exact ⟨"continue", by simp, hcls _ _ hcn h⟩
        · exact ⟨"return", by simp, hcls _ _ hrt h⟩
        · exact ⟨"throw", by simp, hcls _ _ hth h⟩
      obtain ⟨kw, hkwm, hkws⟩ := hkw
      refine AsiReason.restricted p kw ⟨hpa, hri.1⟩ hkwm hkws ?_ ?_ ⟨_, by rw [hlp]; exact hltm⟩
      · rw [hlp]; exact hle
      · rw [hlp]; exact hws

/-- the loop of `_token`: inserted tokens it returns are restricted-production semicolons; a real token it returns is
    `cur_token`; afterwards `PrevInv` holds -/
theorem tokenLoop_asi (text : List Char) : ∀ (fuel : Nat) (st : LexState) (r : Option Token) (st' : LexState),
    tokenLoop fuel st = .ok (r, st') → PInv text st → CurAt text st →
    PrevInv text st' ∧ (∀ a, r = some a → a.auto = true → AsiReason text a) ∧
    (∀ t, r = some t → t.auto = false → st'.curToken = some t) := by
  intro fuel
  induction fuel with
  | zero => intro st r st' h; simp [tokenLoop] at h
  | succ fuel ih =>
    intro st r st' h hinv hcur
    have hret : ∀ (st1 : LexState), LexCall2 st r st1 →
        PrevInv text st1 ∧ (∀ a, r = some a → a.auto = true → AsiReason text a) ∧
        (∀ t, r = some t → t.auto = false → st1.curToken = some t) := by
      intro st1 hc
      obtain ⟨h1, h2⟩ := lexCall2_asi hinv hcur hc
      exact ⟨h1, h2, fun t ht hr => by subst ht; exact ParserNoInternal.lexCall_cur hc.toLexCall hr⟩
    have hskip : ∀ (r0 : Option Token) (st1 st1' : LexState), LexCall2 st r0 st1 → PosEq st1' st1 →
        st1'.curToken = st1.curToken → tokenLoop fuel st1' = .ok (r, st') →
        PrevInv text st' ∧ (∀ a, r = some a → a.auto = true → AsiReason text a) ∧
        (∀ t, r = some t → t.auto = false → st'.curToken = some t) := by
      intro r0 st1 st1' hc hpe hcc hrec
      obtain ⟨hp1, hc1, _⟩ := lexCall_drive hinv hc.toLexCall
      have hc1' : CurOK text st1' := by
        unfold CurOK at hc1 ⊢
        rw [hcc, hpe.2.1]; exact hc1
      exact ih st1' r st' hrec (hp1.congr hpe) (Or.inl hc1')
    unfold tokenLoop at h
    split at h
    · split at h
      · simp at h
      · rename_i st1 hg
        simp at h
        obtain ⟨rfl, rfl⟩ := h
        exact hret _ (getUpdateToken_call2 _ _ _ hg)
      · rename_i t0 st1 hg
        have hc := getUpdateToken_call2 _ _ _ hg
        split at h
        · exact hskip _ st1 st1 hc ⟨rfl, rfl, rfl, rfl⟩ rfl h
        · simp at h
          obtain ⟨rfl, rfl⟩ := h
          exact hret _ hc
    · split at h
      · split at h
        · simp at h
        · rename_i st1 hg
          simp at h
          obtain ⟨rfl, rfl⟩ := h
          exact hret _ (getUpdateToken_call2 _ _ _ hg)
        · rename_i t0 st1 hg
          have hc := getUpdateToken_call2 _ _ _ hg
          split at h
          · split at h
            · split at h
              · simp at h
                obtain ⟨rfl, rfl⟩ := h
                exact hret _ hc
              · split at h
                · exact hskip _ st1 { st1 with hiddenTokens := st1.hiddenTokens ++ [t0.toComment] } hc
                    ⟨rfl, rfl, rfl, rfl⟩ rfl h
                · exact hskip _ st1 st1 hc ⟨rfl, rfl, rfl, rfl⟩ rfl h
            · exact hskip _ st1 st1 hc ⟨rfl, rfl, rfl, rfl⟩ rfl h
          · simp at h
            obtain ⟨rfl, rfl⟩ := h
            exact hret _ hc
      · exact hret _ (divOrRegex_call2 _ _ _ h)

end CalmVerif.Proofs.ParserAsi
