import CalmVerif.Proofs.RoundTripSafe
import CalmVerif.Proofs.RoundTripCertMin1
namespace CalmVerif.TokenAdj

set_option maxRecDepth 1000000 in
theorem direct_safe_min1_forced :
    withCtx Gen.Rules.rs_minify1 Gen.Defs.definitions 4 (fun cx => forceRects (allNeedsF cx Gen.Defs.definitions) fun F => directOK F) = true := by
  decide +kernel

/-- D: every two token signatures that can be printed with nothing between them under this rule set are
boundary-safe, except KF-01 (and the two artefacts of the abstraction) -/
theorem direct_safe_min1 : directOK followMin1 = true := by
  have h := direct_safe_min1_forced
  rw [withCtx_eq, forceRects_eq, allNeedsF_eq] at h
  exact h

end CalmVerif.TokenAdj
