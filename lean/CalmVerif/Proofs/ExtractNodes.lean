/-
C19: the walker model on the individual node shapes of a JSON literal and of the binding statements.
Facts about the GENERATED definitions (`def_*`) are re-checked whenever Gen/Extractor.lean changes.
-/
import CalmVerif.Proofs.ExtractString
import CalmVerif.Proofs.ExtractNumber
namespace CalmVerif.Proofs.Extract
open CalmVerif CalmVerif.Spec.Json CalmVerif.Model.Extract CalmVerif.Gen.Extractor

/-! ## the generated definitions, both fold_ops settings -/

theorem def_Null (fold : Bool) : lookupDef (defsOf fold) "Null" = some [.rawNone] := by
  cases fold <;> rfl
theorem def_Boolean (fold : Bool) : lookupDef (defsOf fold) "Boolean" = some [.rawBoolean "value"] := by
  cases fold <;> rfl
theorem def_String (fold : Bool) : lookupDef (defsOf fold) "String" = some [.literalEval .literal] := by
  cases fold <;> rfl
theorem def_Number (fold : Bool) : lookupDef (defsOf fold) "Number" = some [.literalEval (.name "value")] := by
  cases fold <;> rfl
theorem def_Array (fold : Bool) :
    lookupDef (defsOf fold) "Array" = some [.groupAsList [.joinAttr (.name "items") []]] := by
  cases fold <;> rfl
theorem def_Object (fold : Bool) :
    lookupDef (defsOf fold) "Object" = some [.groupAsMap [.joinAttr (.name "properties") []]] := by
  cases fold <;> rfl
theorem def_Assign (fold : Bool) :
    lookupDef (defsOf fold) "Assign" = some [.attrListAssignment "left" "right"] := by
  cases fold <;> rfl
theorem def_VarDecl (fold : Bool) :
    lookupDef (defsOf fold) "VarDecl" = some [.attrListAssignment "identifier" "initializer"] := by
  cases fold <;> rfl
theorem def_VarStatement (fold : Bool) : lookupDef (defsOf fold) "VarStatement" = some [.joinAttr .iter []] := by
  cases fold <;> rfl
theorem def_ExprStatement (fold : Bool) :
    lookupDef (defsOf fold) "ExprStatement" = some [.attr (.name "expr")] := by
  cases fold <;> rfl
theorem def_Identifier (fold : Bool) : lookupDef (defsOf fold) "Identifier" = some [.attr .resolve] := by
  cases fold <;> rfl
theorem def_ES5Program (fold : Bool) : lookupDef (defsOf fold) "ES5Program" = some [.topLevelAttrs] := by
  cases fold <;> rfl
theorem def_FuncDecl (fold : Bool) :
    lookupDef (defsOf fold) "FuncDecl" = some [.groupAsAssignment [.attr (.declare "identifier"),
      .structure "PushScope",
      .groupAsList [.optional "identifier" [.structure "ResolveFuncName"],
        .groupAsList [.joinAttr (.declare "parameters") []],
        .groupAsMap [.joinAttr (.name "elements") []]],
      .structure "PopScope"]] := by
  cases fold <;> rfl

/-! ## leaves -/

theorem walk_null (fold : Bool) (n : Nat) :
    walkNode fold (n + 1) (.node "Null" [("value", .str "null")]) = .ok [tok "Null" .none] := by
  simp [walkNode, def_Null, runRules, runRule]

theorem walk_bool (fold : Bool) (n : Nat) (b : Bool) :
    walkNode fold (n + 1) (.node "Boolean" [("value", .str (if b then "true" else "false"))])
      = .ok [tok "Boolean" (.bool b)] := by
  cases b <;> simp [walkNode, def_Boolean, runRules, runRule, getattr]

theorem walk_string (fold : Bool) (n : Nat) (b : List Char) (v : List CodePoint)
    (hj : stringValue b = some v) (hx : excludedBody b = false) :
    walkNode fold (n + 1) (strNode b) = .ok [tok "String" (.str v)] := by
  have := string_agree b v hj hx
  simp [strNode, walkNode, def_String, runRules, runRule, getSrc, getattr, deferrableHandlers, this]

theorem isNaN_pyOfNum (n : Num) : isNaN (pyOfNum n) = false := by
  unfold pyOfNum
  split <;> rfl

theorem walk_number (fold : Bool) (n : Nat) (t : List Char) (num : Num) (h : numberValue t = some num)
    (hn : depth (numNode t) ≤ n) :
    ∃ f, walkNode fold n (numNode t) = .ok [.frag f] ∧ f.value = pyOfNum num := by
  cases t with
  | nil => simp [numberValue] at h
  | cons c r =>
    unfold numberValue at h
    simp only at h
    by_cases hc : (c == '-') = true
    · rw [if_pos hc] at h
      have hlit := pyLiteralEval_number true r num h
      have hneg := pyNeg_pyOfNum num
      have hnn := isNaN_pyOfNum { num with neg := false }
      have hnum := with_neg_self num true (unsigned_neg true r num h)
      rw [hnum] at hneg
      obtain ⟨m, rfl⟩ : ∃ m, n = m + 2 := ⟨n - 2, by
        simp [numNode, hc, depth, depthAttrs] at hn; omega⟩
      refine ⟨{ value := pyOfNum num, kind := "UnaryExpr", folded := "Number" }, ?_, rfl⟩
      cases fold <;>
        simp [numNode, hc, walkNode, defsOf, defsOn, defsOff, lookupDef, runRules, runRule, runCases, hasCase,
          runUnary, isSub, lookupSubs, subclasses, getattr, getSrc, walkVal, hlit, tok, toNumber, hnn, hneg]
    · rw [if_neg hc] at h
      have hlit := pyLiteralEval_number false (c :: r) num h
      have hnum := with_neg_self num false (unsigned_neg false (c :: r) num h)
      rw [hnum] at hlit
      obtain ⟨m, rfl⟩ : ∃ m, n = m + 1 := ⟨n - 1, by
        simp [numNode, hc, depth, depthAttrs] at hn; omega⟩
      refine ⟨{ value := pyOfNum num, kind := "Number", folded := "Number" }, ?_, rfl⟩
      simp [numNode, hc, walkNode, def_Number, runRules, runRule, getSrc, getattr, hlit, tok]

end CalmVerif.Proofs.Extract
