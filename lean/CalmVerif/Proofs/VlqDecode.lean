/-
C10 helper lemmas, part 4: the model decoder run on Spec encodings
(self-delimiting groups; accumulator invariant `i < 2 ^ shift`).
-/
import CalmVerif.Proofs.VlqEncode

namespace CalmVerif.Proofs.Vlq
open CalmVerif.Gen.Vlq CalmVerif.Model.Vlq CalmVerif.Spec.VlqV3

theorem pow_shift (sh : Nat) : 2 ^ (sh + VLQ_SHIFT) = 2 ^ sh * 32 := by
  simp [VLQ_SHIFT, Nat.pow_add]

/-- one iteration of `for c in s:` on an alphabet character of value `v` -/
theorem vlqDecoder_step {v : Nat} (hv : v < 64) (i sh : Nat) (cs : List Char) (hi : i < 2 ^ sh) :
    vlqDecoder i sh (b64Char v :: cs) =
      if v < 32 then
        match vlqDecoder 0 0 cs with
        | .error e => .error e
        | .ok r => .ok (ofRaw (i + v * 2 ^ sh) :: r)
      else vlqDecoder (i + (v % 32) * 2 ^ sh) (sh + VLQ_SHIFT) cs := by
  rw [vlqDecoder, b64Int_eq, b64Val_b64Char v hv]
  simp only [base_mask, acc_step _ _ _ hi, emit_eq]
  by_cases h : v < 32
  · have hc : (VLQ_CONT &&& v) = 0 := (cont_zero_iff v hv).2 h
    simp only [hc, if_true, h, Nat.mod_eq_of_lt h, Nat.add_comm]
    cases vlqDecoder 0 0 cs <;> rfl
  · have hc : ¬ (VLQ_CONT &&& v) = 0 := fun e => h ((cont_zero_iff v hv).1 e)
    simp only [hc, if_false, h, Nat.add_comm]

theorem vlqDecoderFirst_step {v : Nat} (hv : v < 64) (i sh : Nat) (cs : List Char) (hi : i < 2 ^ sh) :
    vlqDecoderFirst i sh (b64Char v :: cs) =
      if v < 32 then .ok (ofRaw (i + v * 2 ^ sh))
      else vlqDecoderFirst (i + (v % 32) * 2 ^ sh) (sh + VLQ_SHIFT) cs := by
  rw [vlqDecoderFirst, b64Int_eq, b64Val_b64Char v hv]
  simp only [base_mask, acc_step _ _ _ hi, emit_eq]
  by_cases h : v < 32
  · have hc : (VLQ_CONT &&& v) = 0 := (cont_zero_iff v hv).2 h
    simp only [hc, if_true, h, Nat.mod_eq_of_lt h, Nat.add_comm]
  · have hc : ¬ (VLQ_CONT &&& v) = 0 := fun e => h ((cont_zero_iff v hv).1 e)
    simp only [hc, if_false, h, Nat.add_comm]

theorem acc_bound {i sh d : Nat} (hi : i < 2 ^ sh) (hd : d < 32) : i + d * 2 ^ sh < 2 ^ sh * 32 := by
  have : d * 2 ^ sh ≤ 31 * 2 ^ sh := Nat.mul_le_mul_right _ (by omega)
  omega

theorem acc_total (i n p : Nat) : i + n % 32 * p + n / 32 * (p * 32) = i + n * p := by
  have h := Nat.div_add_mod n 32
  have : n * p = (32 * (n / 32) + n % 32) * p := by rw [h]
  rw [this, Nat.add_mul, Nat.mul_comm 32, Nat.mul_assoc, Nat.mul_comm 32 p]
  omega

/-- the decoder, in any mid-group state, reads one whole Spec group and is back in
its start state -/
theorem vlqDecoder_encodeRaw : ∀ (n i sh : Nat) (rest : List Char), i < 2 ^ sh →
    vlqDecoder i sh (encodeRaw n ++ rest) =
      match vlqDecoder 0 0 rest with
      | .error e => .error e
      | .ok r => .ok (ofRaw (i + n * 2 ^ sh) :: r) := by
  intro n
  induction n using sextets_induct with
  | small n h =>
    intro i sh rest hi
    rw [encodeRaw_small h, List.singleton_append, vlqDecoder_step (by omega) _ _ _ hi]
    simp only [h, if_true]
  | big n h ih =>
    intro i sh rest hi
    have hv : n % 32 + 32 < 64 := by omega
    have h32 : ¬ n % 32 + 32 < 32 := by omega
    have hm : (n % 32 + 32) % 32 = n % 32 := by omega
    rw [encodeRaw_big h, List.cons_append, vlqDecoder_step hv _ _ _ hi]
    simp only [h32, if_false, hm]
    rw [ih _ _ _ (by rw [pow_shift]; exact acc_bound hi (Nat.mod_lt _ (by decide)))]
    rw [pow_shift, acc_total]

theorem vlqDecoderFirst_encodeRaw : ∀ (n i sh : Nat) (rest : List Char), i < 2 ^ sh →
    vlqDecoderFirst i sh (encodeRaw n ++ rest) = .ok (ofRaw (i + n * 2 ^ sh)) := by
  intro n
  induction n using sextets_induct with
  | small n h =>
    intro i sh rest hi
    rw [encodeRaw_small h, List.singleton_append, vlqDecoderFirst_step (by omega) _ _ _ hi]
    simp only [h, if_true]
  | big n h ih =>
    intro i sh rest hi
    have hv : n % 32 + 32 < 64 := by omega
    have h32 : ¬ n % 32 + 32 < 32 := by omega
    have hm : (n % 32 + 32) % 32 = n % 32 := by omega
    rw [encodeRaw_big h, List.cons_append, vlqDecoderFirst_step hv _ _ _ hi]
    simp only [h32, if_false, hm]
    rw [ih _ _ _ (by rw [pow_shift]; exact acc_bound hi (Nat.mod_lt _ (by decide)))]
    rw [pow_shift, acc_total]

theorem decodeVlqs_encode_append (v : Int) (rest : List Char) :
    decodeVlqs (encode v ++ rest) =
      match decodeVlqs rest with
      | .error e => .error e
      | .ok r => .ok (v :: r) := by
  unfold decodeVlqs encode
  rw [vlqDecoder_encodeRaw _ 0 0 rest (by decide)]
  simp [ofRaw_toRaw]

theorem decodeVlqs_encodeList (l : List Int) : decodeVlqs (encodeList l) = .ok l := by
  induction l with
  | nil => rfl
  | cons v vs ih => rw [encodeList, decodeVlqs_encode_append, ih]

theorem decodeVlq_encode_append (v : Int) (rest : List Char) :
    decodeVlq (encode v ++ rest) = .ok v := by
  unfold decodeVlq encode
  rw [vlqDecoderFirst_encodeRaw _ 0 0 rest (by decide)]
  simp [ofRaw_toRaw]

end CalmVerif.Proofs.Vlq

namespace CalmVerif.Proofs.Vlq
open CalmVerif.Gen.Vlq CalmVerif.Model.Vlq CalmVerif.Spec.VlqV3

theorem indexIn_none (c : Char) : ∀ l : List Char, indexIn c l = none ↔ c ∉ l := by
  intro l
  induction l with
  | nil => simp [indexIn]
  | cons a as ih =>
    unfold indexIn
    by_cases h : c = a
    · simp [h]
    · simp [h, ih]

/-- the only way the decoder raises is the KeyError of the first character outside
the alphabet -/
theorem vlqDecoder_error : ∀ (s : List Char) (i sh : Nat) (e : Err), vlqDecoder i sh s = .error e →
    ∃ c ∈ s, c ∉ alphabet ∧ e = .keyError c := by
  intro s
  induction s with
  | nil => intro i sh e h; simp [vlqDecoder] at h
  | cons c cs ih =>
    intro i sh e h
    rw [vlqDecoder, b64Int_eq] at h
    cases hv : b64Val c with
    | none =>
      simp only [hv] at h
      cases h
      exact ⟨c, by simp, (indexIn_none c alphabet).1 hv, rfl⟩
    | some v =>
      simp only [hv] at h
      split at h
      · cases hr : vlqDecoder 0 0 cs with
        | error e' =>
          simp only [hr] at h
          have hee : e' = e := Except.error.inj h
          subst hee
          obtain ⟨c', hc', hn, he⟩ := ih 0 0 e' hr
          exact ⟨c', by simp [hc'], hn, he⟩
        | ok r => simp [hr] at h
      · obtain ⟨c', hc', hn, he⟩ := ih _ _ e h
        exact ⟨c', by simp [hc'], hn, he⟩

end CalmVerif.Proofs.Vlq
