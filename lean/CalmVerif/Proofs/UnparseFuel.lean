/-
The fuel of the walk is only a recursion device: a result other than the artefact `.error .fuel`
does not change when more fuel is supplied (`walk_fuel_mono`), so whatever `walkChunks` returns
with the fuel `fuelFor` supplies — unless it is `.error .fuel` — is THE result of the walk.
(That `fuelFor` always suffices is not proved here; the tie never met `ERR fuel`.)
-/
import CalmVerif.Proofs.UnparseNet
namespace CalmVerif.Unparse
open CalmVerif

variable {σ : Type}

abbrev Res (σ : Type) := Except Err (List Chunk × σ)

def NotFuel (r : Res σ) : Prop := r ≠ .error .fuel

/-- `f'` agrees with `f` wherever `f` does not run out of fuel -/
def Ext {α : Type} (f f' : α → σ → Res σ) : Prop := ∀ x s, NotFuel (f x s) → f' x s = f x s

theorem seqM_ext {α : Type} (f f' : α → σ → Res σ) (h : Ext f f') :
    ∀ (xs : List α) (s : σ), NotFuel (seqM f xs s) → seqM f' xs s = seqM f xs s := by
  intro xs
  induction xs with
  | nil => intro s _; rfl
  | cons x xs ih =>
    intro s hn
    simp only [seqM] at hn ⊢
    cases hx : f x s with
    | error e =>
      rw [hx] at hn
      have : f' x s = f x s := h x s (by rw [hx]; exact hn)
      rw [this, hx]
    | ok r =>
      obtain ⟨c1, s1⟩ := r
      rw [hx] at hn
      have : f' x s = f x s := h x s (by rw [hx]; intro hh; cases hh)
      rw [this, hx]
      simp only at hn ⊢
      have ih' := ih s1 (by
        intro hh
        rw [hh] at hn
        exact hn rfl)
      rw [ih']

def WalkExt (wn wn' : WalkFn σ) : Prop :=
  ∀ path src node defn s, NotFuel (wn path src node defn s) → wn' path src node defn s = wn path src node defn s

theorem walkValue_ext (cfg : Cfg σ) (wn wn' : WalkFn σ) (h : WalkExt wn wn') (path : Path) (src : Src) (cur : Val)
    (pos : Option Int) (st : Step) (v : Val) (s : σ) (hn : NotFuel (walkValue cfg wn path src cur pos st v s)) :
    walkValue cfg wn' path src cur pos st v s = walkValue cfg wn path src cur pos st v s := by
  unfold walkValue at hn ⊢
  split
  · exact h _ _ _ _ _ hn
  · rfl

theorem runAct_ext (cfg : Cfg σ) (wn wn' : WalkFn σ) (h : WalkExt wn wn') (path : Path) (src : Src) (cur : Val)
    (pos : Option Int) (sep : List Rule) :
    Ext (runAct cfg wn path src cur pos sep) (runAct cfg wn' path src cur pos sep) := by
  intro a s hn
  cases a with
  | item st v => exact walkValue_ext cfg wn wn' h _ _ _ _ _ _ _ hn
  | sep => exact h _ _ _ _ _ hn
  | esep => exact h _ _ _ _ _ hn

theorem ruleStep_ext (cfg : Cfg σ) (wn wn' : WalkFn σ) (h : WalkExt wn wn') (path : Path) (src : Src) (node : Val)
    (rule : Rule) (s : σ) (hn : NotFuel (ruleStep cfg wn path src node rule s)) :
    ruleStep cfg wn' path src node rule s = ruleStep cfg wn path src node rule s := by
  cases rule with
  | layout m => rfl
  | struct m => rfl
  | text v pos => rfl
  | attr a pos =>
    simp only [ruleStep] at hn ⊢
    cases hg : getSrc cfg path node a s with
    | error e => rfl
    | ok r =>
      obtain ⟨v, s1⟩ := r
      simp only [hg] at hn ⊢
      by_cases he : isEmptyVal v = true
      · simp only [he, ↓reduceIte]
      · simp only [he, Bool.false_eq_true, ↓reduceIte] at hn ⊢
        exact walkValue_ext cfg wn wn' h _ _ _ _ _ _ _ hn
  | commentsAttr a pos =>
    simp only [ruleStep] at hn ⊢
    cases hg : getSrc cfg path node a s with
    | error e => rfl
    | ok r =>
      obtain ⟨v, s1⟩ := r
      simp only [hg] at hn ⊢
      by_cases he : isEmptyVal v = true
      · simp only [he, ↓reduceIte]
      · simp only [he, Bool.false_eq_true, ↓reduceIte] at hn ⊢
        exact walkValue_ext cfg wn wn' h _ _ _ _ _ _ _ hn
  | operator a v pos =>
    cases a with
    | some n =>
      simp only [ruleStep] at hn ⊢
      cases hg : getattrVal node n with
      | error e => rfl
      | ok w =>
        simp only [hg] at hn ⊢
        by_cases he : isEmptyVal w = true
        · simp only [he, ↓reduceIte]
        · simp only [he, Bool.false_eq_true, ↓reduceIte] at hn ⊢
          exact walkValue_ext cfg wn wn' h _ _ _ _ _ _ _ hn
    | none =>
      cases v with
      | none => rfl
      | some w =>
        simp only [ruleStep, isEmptyVal, Bool.false_eq_true, ↓reduceIte] at hn ⊢
        exact walkValue_ext cfg wn wn' h _ _ _ _ _ _ _ hn
  | optional a body =>
    simp only [ruleStep] at hn ⊢
    cases hg : getattrVal node a with
    | error e => rfl
    | ok w =>
      simp only [hg] at hn ⊢
      by_cases he : isEmptyVal w = true
      · simp only [he, ↓reduceIte]
      · simp only [he, Bool.false_eq_true, ↓reduceIte] at hn ⊢
        exact h _ _ _ _ _ hn
  | joinAttr a sep pos =>
    simp only [ruleStep] at hn ⊢
    cases hg : getIter cfg path node a s with
    | error e => rfl
    | ok r =>
      obtain ⟨items, s1⟩ := r
      simp only [hg] at hn ⊢
      exact seqM_ext _ _ (runAct_ext cfg wn wn' h _ _ _ _ _) _ _ hn
  | elisionToken a v pos => rfl
  | elisionJoinAttr a sep pos =>
    simp only [ruleStep] at hn ⊢
    cases hg : getIter cfg path node a s with
    | error e => rfl
    | ok r =>
      obtain ⟨items, s1⟩ := r
      simp only [hg] at hn ⊢
      exact seqM_ext _ _ (runAct_ext cfg wn wn' h _ _ _ _ _) _ _ hn

theorem nodeStep_ext (cfg : Cfg σ) (wr wr' : Path → Src → Val → Rule → σ → Res σ)
    (h : ∀ q sr n r s, NotFuel (wr q sr n r s) → wr' q sr n r s = wr q sr n r s)
    (path : Path) (src : Src) (node : Val) (defn : Option (List Rule)) (s : σ)
    (hn : NotFuel (nodeStep cfg wr path src node defn s)) :
    nodeStep cfg wr' path src node defn s = nodeStep cfg wr path src node defn s := by
  unfold nodeStep at hn ⊢
  split
  · split
    · rfl
    · rename_i rules hr
      simp only [hr] at hn
      exact seqM_ext _ _ (fun r s hh => h _ _ _ r s hh) _ _ hn
  · rfl

/-- more fuel never changes a result that is not `.error .fuel` -/
theorem walk_fuel_mono (cfg : Cfg σ) : ∀ (fuel : Nat),
    WalkExt (walkNode cfg fuel) (walkNode cfg (fuel + 1)) ∧
    (∀ q sr n r s, NotFuel (walkRule cfg fuel q sr n r s) →
      walkRule cfg (fuel + 1) q sr n r s = walkRule cfg fuel q sr n r s) := by
  intro fuel
  induction fuel with
  | zero =>
    constructor
    · intro path src node defn s hn; exact absurd rfl hn
    · intro q sr n r s hn; exact absurd rfl hn
  | succ fuel ih =>
    constructor
    · intro path src node defn s hn
      simp only [walkNode] at hn ⊢
      exact nodeStep_ext cfg _ _ ih.2 _ _ _ _ _ hn
    · intro q sr n r s hn
      simp only [walkRule] at hn ⊢
      exact ruleStep_ext cfg _ _ ih.1 _ _ _ _ _ hn

theorem walk_fuel_ge (cfg : Cfg σ) (fuel extra : Nat) (path : Path) (src : Src) (node : Val)
    (defn : Option (List Rule)) (s : σ) (hn : NotFuel (walkNode cfg fuel path src node defn s)) :
    walkNode cfg (fuel + extra) path src node defn s = walkNode cfg fuel path src node defn s := by
  induction extra with
  | zero => rfl
  | succ k ih =>
    have := (walk_fuel_mono cfg (fuel + k)).1 path src node defn s (by rw [ih]; exact hn)
    rw [← ih, ← this]; rfl

end CalmVerif.Unparse
