/-
`only_identifiers_change` after the layout pass: the final fragment stream of an obfuscating printer against the
same printer printing `node.value` at every Identifier.  Condition: every name the obfuscator renames (every key of
every remap table) is plain-edged (`keysPlain`, decidable): then the renamed text and the original are
`Edge`-equivalent, no layout handler can tell the runs apart, and the two fragment streams are equal up to the
identifier pairs (`FragSim hdataGen IdentPair`).
-/
import CalmVerif.Proofs.ObfEdge
import CalmVerif.Proofs.ObfOnlyIdent
namespace CalmVerif.Obf
open CalmVerif CalmVerif.Unparse

/-- every symbol that has a replacement in some scope is plain-edged -/
def keysPlain (fin : Final) : Bool :=
  fin.tree.tables.all (fun rm => rm.all (fun p => plainEdged p.1))

/-- what relates the two fragments of an identifier besides the layout-equivalence of their texts:
the plain one carries no name, same source, and they are equal or the obfuscated one records the original as
`name`, with the same position when the original is non-empty -/
def IdentPair (fa fb : Frag) : Prop :=
  fb.name = none ∧ fa.source = fb.source ∧
    (fa = fb ∨ (fa.name = some fb.text ∧ fa.text ≠ fb.text ∧ (fb.text ≠ "" → fa.line = fb.line ∧ fa.col = fb.col)))

theorem obfQ_edge (fin : Final) (hch : fin.chains = chainsOf [] fin.tree)
    (hw : ∀ rm ∈ fin.tree.tables, ∀ p ∈ rm, IsWord Gen.ObfData.charset p.2) (hk : keysPlain fin = true)
    {ta tb : String} (hq : ObfQ fin ta tb) : Edge hdataGen ta tb := by
  obtain ⟨sid, tables, hlc, rfl⟩ := hq
  rcases resolveTables_cases tables tb with h | ⟨te, hrm, hp⟩
  · rw [h]; exact Edge.refl _ _
  · have hmem := lookupChain_mem _ _ _ hlc
    rw [hch] at hmem
    rcases chainsOf_tables [] fin.tree _ hmem te hrm with h | h
    · cases h
    · have h1 : plainEdged (resolveTables tables tb) = true := word_plainEdged (hw te.2 h _ hp)
      have h2 : plainEdged tb = true := by
        simp only [keysPlain, List.all_eq_true] at hk
        exact hk te.2 h _ hp
      exact edge_plain h1 h2

theorem all2_chunkSim_refl (hd : HData) (R : Frag → Frag → Prop) : ∀ (l : List Chunk), All2 (ChunkSim hd R) l l
  | [] => .nil
  | _ :: l => .cons (Or.inl rfl) (all2_chunkSim_refl hd R l)

theorem crel_chunkSim {Q : String → String → Prop} (cfg : Cfg Unit) (hth : cfg.tokenHandler = some .unobfuscate)
    (hedge : ∀ ta tb, Q ta tb → Edge cfg.hd ta tb) {ca cb : List Chunk} (h : CRel Q cfg ca cb) :
    All2 (ChunkSim cfg.hd IdentPair) ca cb := by
  induction h with
  | refl cs => exact all2_chunkSim_refl _ _ cs
  | tok ca cb ht =>
    obtain ⟨fa, fb, rfl, rfl, h1, h2, hq, h3⟩ := tokRel_unobfuscate cfg hth ca cb ht
    exact .cons (Or.inr ⟨fa, fb, rfl, rfl, hedge _ _ hq, h1, h2, h3⟩) .nil
  | app a b a' b' _ _ ih1 ih2 => exact forall2_append ih1 ih2

theorem flushAll_withResolve (cfg : Cfg Unit) (f : Path → Val → Unit → Except Err (Val × Unit)) :
    ∀ (cs : List Chunk) (last : Option String) (buf : List LChunk) (lvl : Int),
      flushAll (withResolve cfg f) cs last buf lvl = flushAll cfg cs last buf lvl
  | [], _, _, _ => rfl
  | .layout m h n :: cs, last, buf, lvl => by
    simp only [flushAll]
    exact flushAll_withResolve cfg f cs last _ lvl
  | .frag fr :: cs, last, buf, lvl => by
    have e : processLayouts (withResolve cfg f) buf last (some fr.text) lvl
        = processLayouts cfg buf last (some fr.text) lvl := rfl
    simp only [flushAll, e, flushAll_withResolve cfg f cs]

/-- the whole printer run -/
theorem obf_unparse_sim (rs : RuleSet) (indent : Option String) (fin : Final)
    (hres : deferLookup rs.deferrable .resolve = some .obfResolve) (hth : rs.tokenHandler = .unobfuscate)
    (hch : fin.chains = chainsOf [] fin.tree)
    (hw : ∀ rm ∈ fin.tree.tables, ∀ p ∈ rm, IsWord Gen.ObfData.charset p.2) (hk : keysPlain fin = true)
    (tree : Val) (fa fb : List Frag)
    (ha : unparse (mkCfg tablesGen rs indent (obfResolveHook fin)) tree () = .ok fa)
    (hb : unparse (mkCfg tablesGen rs indent plainResolveHook) tree () = .ok fb) :
    All2 (FragSim hdataGen IdentPair) fa fb := by
  unfold unparse at ha hb
  obtain ⟨ra, ha1, rfl⟩ := exc_map_ok ha
  obtain ⟨rb, hb1, rfl⟩ := exc_map_ok hb
  unfold unparseWith at ha1 hb1
  split at ha1
  · cases ha1
  · rename_i ca sa hwa
    split at hb1
    · cases hb1
    · rename_i cb sb hwb
      simp only [Except.ok.injEq] at ha1 hb1
      subst ha1; subst hb1
      have hrel := obf_walk_rel tablesGen rs indent fin hres tree ca cb sa sb hwa hwb
      have hsim := crel_chunkSim (mkCfg tablesGen rs indent (obfResolveHook fin))
        (by simp [mkCfg, hth]) (fun ta tb hq => obfQ_edge fin hch hw hk hq) hrel
      obtain ⟨e, _⟩ := mkCfg_withResolve tablesGen rs indent (obfResolveHook fin) plainResolveHook hres
      rw [e, flushAll_withResolve]
      exact (flushAll_sim (mkCfg tablesGen rs indent (obfResolveHook fin)) IdentPair ca cb hsim none none [] 0
        .none).2

end CalmVerif.Obf
