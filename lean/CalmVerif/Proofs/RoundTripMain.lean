/-
Positions do not influence the printed text: the composed statement, and the configurations of the plain
printers (pretty printer, minifier without obfuscation) built from the regenerated tables.
-/
import CalmVerif.Proofs.RoundTripFlush
import CalmVerif.Model.UnparseInst
namespace CalmVerif.Unparse
open CalmVerif

variable {σ : Type}

/-- `unparse` with the fuel as a parameter (`unparse cfg tree s = unparseAt cfg (fuelFor cfg tree) tree s`) -/
def unparseAt (cfg : Cfg σ) (fuel : Nat) (tree : Val) (s : σ) : Except Err (List Frag) :=
  match walkNode cfg fuel [] .notImpl tree Option.none s with
  | .error e => .error e
  | .ok (chunks, _) => .ok (flushAll cfg chunks Option.none [] 0).1

theorem unparse_eq_unparseAt (cfg : Cfg σ) (tree : Val) (s : σ) :
    unparse cfg tree s = unparseAt cfg (fuelFor cfg tree) tree s := by
  simp only [unparse, unparseWith, walkChunks, unparseAt]
  cases walkNode cfg (fuelFor cfg tree) [] .notImpl tree Option.none s with
  | error e => rfl
  | ok r => rfl

theorem textOf_texts {fs fs' : List Frag} (h : texts fs = texts fs') : textOf fs = textOf fs' := by
  simp only [textOf]; simp only [texts] at h; rw [h]

/-- trees equal up to positional metadata -/
def SameStructure (t t' : Val) : Prop := eraseVal t' = eraseVal t

theorem unparseAt_erase {cfg : Cfg σ} (hc : NoHooks cfg) (ht : PlainTok cfg) (fuel : Nat) (tree : Val) (s : σ)
    (fs : List Frag) (h : unparseAt cfg fuel tree s = .ok fs) :
    ∃ fs', unparseAt cfg fuel (eraseVal tree) s = .ok fs' ∧ textOf fs' = textOf fs := by
  simp only [unparseAt] at h ⊢
  cases hw : walkNode cfg fuel [] .notImpl tree Option.none s with
  | error e => rw [hw] at h; cases h
  | ok r =>
    obtain ⟨cs, s1⟩ := r
    rw [hw] at h
    simp only [Except.ok.injEq] at h
    obtain ⟨cs', g1, g2⟩ := (walk_sim hc ht fuel eraseVal pe_erase).1 [] .notImpl .notImpl tree Option.none s cs s1 hw
    rw [g1]
    refine ⟨_, rfl, ?_⟩
    rw [← h]
    exact textOf_texts (flushAll_proj cfg cs' cs g2 Option.none [] [] rfl 0).1

/-- two trees with the same structure print the same text (same fuel) whenever both print -/
theorem unparseAt_sameStructure {cfg : Cfg σ} (hc : NoHooks cfg) (ht : PlainTok cfg) (fuel : Nat) (t t' : Val) (s : σ)
    (fs fs' : List Frag) (hs : SameStructure t t')
    (h : unparseAt cfg fuel t s = .ok fs) (h' : unparseAt cfg fuel t' s = .ok fs') : textOf fs' = textOf fs := by
  obtain ⟨g, hg, e1⟩ := unparseAt_erase hc ht fuel t s fs h
  obtain ⟨g', hg', e2⟩ := unparseAt_erase hc ht fuel t' s fs' h'
  rw [hs, hg] at hg'
  simp only [Except.ok.injEq] at hg'
  rw [← e1, ← e2, hg']

/-- readable tag of a rule (for table facts: `Rule` has no decidable equality) -/
def ruleTag : Rule → String
  | .text v _ => "text:" ++ v
  | .attr (.name a) _ => "attr:" ++ a
  | .attr _ _ => "attr"
  | .commentsAttr _ _ => "comments"
  | .joinAttr _ _ _ => "join"
  | .elisionToken _ _ _ => "elisionToken"
  | .elisionJoinAttr _ _ _ => "elisionJoin"
  | .optional a _ => "optional:" ++ a
  | .operator (some a) _ _ => "operator:" ++ a
  | .operator Option.none _ _ => "operator"
  | .layout m => "layout:" ++ m.name
  | .struct m => "struct:" ++ m.name

def defTags (defs : Defs) (kind : String) : Option (List String) := (lookupDef defs kind).map (·.map ruleTag)

/-- `cfg` prints `tree` as exactly `text` -/
def printsText {σ : Type} (cfg : Cfg σ) (tree : Val) (s : σ) (text : String) : Bool :=
  match unparse cfg tree s with
  | .ok fs => textOf fs == text
  | .error _ => false

theorem printsText_spec {σ : Type} {cfg : Cfg σ} {tree : Val} {s : σ} {text : String}
    (h : printsText cfg tree s text = true) : (unparse cfg tree s).map textOf = .ok text := by
  unfold printsText at h
  cases hu : unparse cfg tree s with
  | error e => rw [hu] at h; cases h
  | ok fs => rw [hu] at h; simp only [Except.map]; rw [eq_of_beq h]

/-- Dispatcher of `minify_printer(obfuscate=False, drop_semi=…)` -/
def minifyCfg (dropSemi : Bool) : Cfg Unit :=
  mkCfg tablesGen (if dropSemi then Gen.Rules.rs_minify1 else Gen.Rules.rs_minify0) Option.none defaultResolve

theorem prettyCfg_noHooks (indent : Option String) : NoHooks (prettyCfg indent) := ⟨rfl, rfl, fun _ => rfl⟩
theorem prettyCfg_plainTok (indent : Option String) : PlainTok (prettyCfg indent) := Or.inr rfl
theorem minifyCfg_noHooks (d : Bool) : NoHooks (minifyCfg d) := by cases d <;> exact ⟨rfl, rfl, fun _ => rfl⟩
theorem minifyCfg_plainTok (d : Bool) : PlainTok (minifyCfg d) := by cases d <;> exact Or.inr rfl

end CalmVerif.Unparse
