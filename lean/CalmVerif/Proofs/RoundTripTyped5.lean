/-
Soundness of the abstract analysis, part 5: one rule, one node, the induction on the fuel, the entry point.
-/
import CalmVerif.Proofs.RoundTripTyped4b
namespace CalmVerif.TokenAdj
open CalmVerif CalmVerif.Unparse

variable {σ : Type}

section
variable {cfg : Cfg σ} {cx : Ctx} (hc : TypedCfg cfg cx) (F : Follow)
include hc

theorem ruleStep_typed {wn : WalkFn σ} (hwn : NodeOK cfg cx F wn) (path : Path) (src : Src) (k : String)
    (as : List (String × Val)) (hw : wfVal cx (.node k as) = true) (rule : Rule) (s : σ) (cs : List Chunk) (s' : σ)
    (h : ruleStep cfg wn path src (.node k as) rule s = .ok (cs, s'))
    (p : Nat) (hb : (absRule cx k p rule).bad = false) (hn : ∀ q ∈ (absRule cx k p rule).need, q ∈ F) :
    Ann cfg.hd F (absRule cx k p rule).abs cs := by
  cases rule with
  | layout m =>
    simp only [ruleStep] at h
    simp only [absRule, hc.tbl]
    cases hl : lookupLayout cfg.layout (LKey.single m) with
    | none =>
      rw [hl] at h
      simp only [Except.ok.injEq, Prod.mk.injEq] at h
      rw [← h.1]; exact ann_nil cfg.hd F rfl
    | some hd' =>
      rw [hl] at h
      simp only [Except.ok.injEq, Prod.mk.injEq] at h
      rw [← h.1]
      simp only [Res.ok]
      refine ann_sym cfg.hd F (Sym.mo (occOf cx k p) m (cx.hdr.contains k)) ?_
        ((SymSet.mem_ofList _ _).mpr (by simp)) ((SymSet.mem_ofList _ _).mpr (by simp))
      simp only [syms, List.map_cons, List.map_nil, symOf, isKind, hc.hdr, erase_mo]
  | struct m =>
    simp only [ruleStep, hc.hooks.struct m] at h
    simp only [Except.ok.injEq, Prod.mk.injEq] at h
    rw [← h.1]; simp only [absRule, Res.ok]; exact ann_nil cfg.hd F rfl
  | text v pos =>
    simp only [ruleStep] at h
    obtain ⟨c, g1, g2⟩ := except_map_ok h
    simp only [Prod.mk.injEq] at g2
    rw [← g2.1]
    simp only [absRule, Res.ok]
    exact ann_sym cfg.hd F (Sym.t (sig v)) (by rw [emitToken_syms hc pos _ src v c g1, erase_t])
      ((SymSet.mem_ofList _ _).mpr (by simp)) ((SymSet.mem_ofList _ _).mpr (by simp))
  | attr a pos =>
    simp only [absRule] at hb hn ⊢
    simp only [ruleStep] at h
    cases hg : getSrc cfg path (.node k as) a s with
    | error x => rw [hg] at h; cases h
    | ok r =>
      obtain ⟨v, s1⟩ := r
      rw [hg] at h
      exact attrValue_typed hc F hwn path src _ pos _ v s1 cs s' (getSrc_typed hc path k as hw a s v s1 hg hb) h
  | commentsAttr a pos =>
    simp only [absRule] at hb hn ⊢
    simp only [ruleStep] at h
    cases hg : getSrc cfg path (.node k as) a s with
    | error x => rw [hg] at h; cases h
    | ok r =>
      obtain ⟨v, s1⟩ := r
      rw [hg] at h
      exact attrValue_typed hc F hwn path src _ pos _ v s1 cs s' (getSrc_typed hc path k as hw a s v s1 hg hb) h
  | operator a value pos =>
    cases a with
    | some n =>
      simp only [absRule] at hb hn ⊢
      simp only [ruleStep] at h
      cases hg : getattrVal (.node k as) n with
      | error x => rw [hg] at h; cases h
      | ok v =>
        rw [hg] at h
        exact attrValue_typed hc F hwn path src _ pos _ v s cs s' (getattr_typed hc k as hw n v hg hb).1 h
    | none =>
      cases value with
      | some t =>
        simp only [absRule, Res.ok] at hb hn ⊢
        simp only [ruleStep] at h
        exact attrValue_typed hc F hwn path src _ pos _ (.str t) s cs s'
          (.tok t ((SymSet.mem_ofList _ _).mpr (by simp)) ((SymSet.mem_ofList _ _).mpr (by simp))) h
      | none =>
        simp only [absRule, Res.ok] at hb hn ⊢
        simp only [ruleStep, isEmptyVal, if_true, Except.ok.injEq, Prod.mk.injEq] at h
        rw [← h.1]; exact ann_nil cfg.hd F rfl
  | optional a body =>
    simp only [absRule] at hb hn ⊢
    simp only [ruleStep] at h
    cases hg : getattrVal (.node k as) a with
    | error x => rw [hg] at h; cases h
    | ok v =>
      rw [hg] at h
      simp only at h
      split at h
      · simp only [Except.ok.injEq, Prod.mk.injEq] at h
        rw [← h.1]; exact ann_nil cfg.hd F rfl
      · exact ann_opt (hwn _ _ k as (some body) _ _ _ hw h _ hb hn)
  | joinAttr a sep pos =>
    simp only [absRule] at hb hn ⊢
    simp only [ruleStep] at h
    cases hik : itemKinds cx k a with
    | none => (try rw [hik] at hb); simp [Res.fail] at hb
    | some ks =>
      (try rw [hik] at hb); (try rw [hik] at hn); (try rw [hik])
      simp only [Bool.or_eq_false_iff] at hb
      simp only [List.mem_append] at hn
      cases hg : getIter cfg path (.node k as) a s with
      | error x => rw [hg] at h; cases h
      | ok r =>
        obtain ⟨items, s1⟩ := r
        rw [hg] at h
        exact join_typed hc F hwn path src k as hw pos sep _ ks hb.1 hb.2
          (fun p hp => hn p (Or.inl (Or.inl (Or.inl hp)))) (fun p hp => hn p (Or.inl (Or.inl (Or.inr hp))))
          (fun p hp => hn p (Or.inl (Or.inr hp))) (fun p hp => hn p (Or.inr hp))
          items (getIter_typed hc path k as hw a ks hik s items s1 hg) s1 cs s' h
  | elisionToken a v pos =>
    cases a with
    | name n =>
      simp only [absRule] at hb hn ⊢
      cases hs : cx.slot k n with
      | int1 =>
        (try rw [hs] at hb); (try rw [hs] at hn); (try rw [hs])
        simp only at hb ⊢
        by_cases hv : (v == ",") = true
        · rw [if_pos hv] at hb ⊢
          have hv' : v = "," := by simpa using hv
          subst hv'
          simp only [ruleStep, getSrc] at h
          cases hg : getattrVal (.node k as) n with
          | error x => rw [hg] at h; cases h
          | ok w =>
            rw [hg] at h
            simp only [Except.map] at h
            rcases getattr_slot (cx := cx) k as hw n w hg with rfl | ⟨h1, _⟩
            · cases h
            · rw [hs] at h1
              cases w with
              | int i =>
                have hi : 1 ≤ i := by simpa [slotOK] using h1
                simp only at h
                obtain ⟨c, g1, g2⟩ := except_map_ok h
                simp only [Prod.mk.injEq] at g2
                rw [← g2.1]
                have hs := emitToken_syms hc pos _ src _ c g1
                rcases sig_strMul_comma i hi with e | e
                · rw [e] at hs
                  exact ann_sym cfg.hd F (Sym.t (mkLit ",")) (by rw [hs, erase_t])
                    ((SymSet.mem_ofList _ _).mpr (by simp)) ((SymSet.mem_ofList _ _).mpr (by simp))
                · rw [e] at hs
                  exact ann_sym cfg.hd F (Sym.t .commas) (by rw [hs, erase_t])
                    ((SymSet.mem_ofList _ _).mpr (by simp)) ((SymSet.mem_ofList _ _).mpr (by simp))
              | none => simp [slotOK] at h1
              | bool b => simp [slotOK] at h1
              | str t => simp [slotOK] at h1
              | list xs => simp [slotOK] at h1
              | node k2 as2 => simp [slotOK] at h1
        · rw [if_neg hv] at hb; simp [Res.fail] at hb
      | tok cs' => (try rw [hs] at hb); simp [Res.fail] at hb
      | node ks o => (try rw [hs] at hb); simp [Res.fail] at hb
      | nodes ks => (try rw [hs] at hb); simp [Res.fail] at hb
      | any => (try rw [hs] at hb); simp [Res.fail] at hb
    | iter => simp [absRule, Res.fail] at hb
    | declare n => simp [absRule, Res.fail] at hb
    | resolve => simp [absRule, Res.fail] at hb
    | literal => simp [absRule, Res.fail] at hb
    | lineComment => simp [absRule, Res.fail] at hb
    | blockComment => simp [absRule, Res.fail] at hb
  | elisionJoinAttr a sep pos =>
    simp only [absRule] at hb hn ⊢
    simp only [ruleStep] at h
    cases hik : itemKinds cx k a with
    | none => (try rw [hik] at hb); simp [Res.fail] at hb
    | some ks =>
      (try rw [hik] at hb); (try rw [hik] at hn); (try rw [hik])
      cases hce : certOf cx cx.esep with
      | none => (try rw [hce] at hb); simp [Res.fail] at hb
      | some e =>
        (try rw [hce] at hb); (try rw [hce] at hn); (try rw [hce])
        simp only [Bool.or_eq_false_iff] at hb
        simp only [List.mem_append] at hn
        obtain ⟨⟨⟨⟨⟨hxb, heb⟩, hsb⟩, hen⟩, hxn⟩, hien⟩ := hb
        cases hg : getIter cfg path (.node k as) a s with
        | error x => rw [hg] at h; cases h
        | ok r =>
          obtain ⟨items, s1⟩ := r
          rw [hg] at h
          exact ejoin_typed hc F hwn path src k as hw pos sep _ ks e hce hxb heb hsb
            (fun p hp => hn p (Or.inl (Or.inl (Or.inl (Or.inl hp))))) hen hxn hien _ rfl
            (fun p hp => hn p (Or.inl (Or.inl (Or.inl (Or.inr hp)))))
            (fun p hp => hn p (Or.inl (Or.inl (Or.inr hp))))
            (fun p hp => hn p (Or.inl (Or.inr hp)))
            (fun p hp => hn p (Or.inr hp))
            items (getIter_typed hc path k as hw a ks hik s items s1 hg) s1 cs s' h

end

/-! ### the induction -/

theorem lookupDef_mem : ∀ {defs : Defs} {k : String} {d : List Rule}, lookupDef defs k = some d → (k, d) ∈ defs := by
  intro defs
  induction defs with
  | nil => intro k d h; simp [lookupDef] at h
  | cons x rest ih =>
    intro k d h
    obtain ⟨k0, d0⟩ := x
    simp only [lookupDef] at h
    split at h
    · rename_i hk
      have : k0 = k := by simpa using hk
      subst this
      cases h
      simp
    · exact List.mem_cons_of_mem _ (ih h)

theorem walk_typed {cfg : Cfg σ} {cx : Ctx} (hc : TypedCfg cfg cx) (F : Follow) (hcl : closed cx F cfg.defs = true) :
    ∀ (fuel : Nat), NodeOK cfg cx F (walkNode cfg fuel) ∧
      (∀ path src k as rule s cs s', wfVal cx (.node k as) = true →
        walkRule cfg fuel path src (.node k as) rule s = .ok (cs, s') →
        ∀ p, (absRule cx k p rule).bad = false → (∀ q ∈ (absRule cx k p rule).need, q ∈ F) →
        Ann cfg.hd F (absRule cx k p rule).abs cs) := by
  intro fuel
  induction fuel with
  | zero =>
    constructor
    · intro path src k as defn s cs s' _ h; simp [walkNode] at h
    · intro path src k as rule s cs s' _ h; simp [walkRule] at h
  | succ fuel ih =>
    constructor
    · intro path src k as defn s cs s' hw h
      simp only [walkNode, nodeStep] at h
      cases defn with
      | some d =>
        simp only at h ⊢
        intro p hb hn
        exact rules_typed F k _ (fun p r s cs s' hr => ih.2 _ _ k as r s cs s' hw hr p) d p s cs s' h hb hn
      | none =>
        simp only at h ⊢
        cases hl : lookupDef cfg.defs k with
        | none => rw [hl] at h; cases h
        | some d =>
          rw [hl] at h
          simp only at h
          have hmem := lookupDef_mem hl
          have hcd := List.all_eq_true.mp hcl _ hmem
          simp only [closedDef, Bool.and_eq_true, Bool.not_eq_true'] at hcd
          obtain ⟨⟨hb, hn⟩, hle⟩ := hcd
          cases hce : certOf cx k with
          | none => rw [hce] at hle; cases hle
          | some a =>
            rw [hce] at hle
            refine ⟨a, rfl, ?_⟩
            have := rules_typed F k _ (fun p r s cs s' hr => ih.2 _ _ k as r s cs s' hw hr p) d 1 s cs s' h hb
              (fun q hq => mem_of_subList hn hq)
            exact ann_mono this hle
    · intro path src k as rule s cs s' hw h p hb hn
      simp only [walkRule] at h
      exact ruleStep_typed hc F ih.1 path src k as hw rule s cs s' h p hb hn

/-- the chunk stream of a well-formed tree is a string of its root kind's certificate -/
theorem walkChunks_typed {cfg : Cfg σ} {cx : Ctx} (hc : TypedCfg cfg cx) (F : Follow) (hcl : closed cx F cfg.defs = true)
    (k : String) (as : List (String × Val)) (hw : wfVal cx (.node k as) = true) (s : σ) (cs : List Chunk) (s' : σ)
    (h : walkChunks cfg (.node k as) s = .ok (cs, s')) :
    ∃ a, certOf cx k = some a ∧ Ann cfg.hd F a cs :=
  (walk_typed hc F hcl _).1 _ _ k as Option.none s cs s' hw h

end CalmVerif.TokenAdj
