/-
C04 (parse level): every inserted semicolon held anywhere in a configuration of a parse has an `AsiReason`.
-/
import CalmVerif.Proofs.ParserAsiLex
import CalmVerif.Proofs.LexerSpelling

namespace CalmVerif.Proofs.ParserAsi
open CalmVerif.Model.TokenRegex CalmVerif.Model.PlyLex CalmVerif.Model.Lexer CalmVerif.Model CalmVerif.Model.LR
open CalmVerif.Proofs.LexerPly CalmVerif.Proofs.LexerStep CalmVerif.Proofs.LexerLoop CalmVerif.Proofs.LexerTables
open CalmVerif.Proofs.LexerDrive CalmVerif.Proofs.ParserDrive CalmVerif.Proofs.ParserNoInternal
open CalmVerif.Proofs.LexerNoInternal
open CalmVerif.Spec.LexSeg CalmVerif.Gen

theorem AsiReason.hidden {text : List Char} {t : Token} (h : AsiReason text t) (hd : List Comment) :
    AsiReason text { t with hidden := hd } := by
  cases h with
  | offending o h1 h2 h3 h4 h5 h6 => exact AsiReason.offending o h1 h2 h3 h4 h5 h6
  | endOfInput h1 h2 h3 => exact AsiReason.endOfInput h1 h2 h3
  | restricted k kw h1 h2 h3 h4 h5 h6 => exact AsiReason.restricted k kw h1 h2 h3 h4 h5 h6

/-- the model's condition implies the ES5 one (sound direction) -/
theorem lineTerminatorBefore_of_directly {text : List Char} {pos : Nat} (h : LtDirectlyBefore text pos) :
    LineTerminatorBefore text pos := by
  obtain ⟨b, n, hlt, hle, hws⟩ := h
  have hb := LexerRegex.ltSeqLen_bounded _ _ hlt
  have hchars := LexerGap.ltSeq_chars _ _ hlt
  -- the last character of the sequence
  have hlast : ∃ c, text[b + n - 1]? = some c := by
    have : b + n - 1 < text.length := by
      have := hb.2; simp at this; omega
    exact ⟨text[b + n - 1], List.getElem?_eq_getElem this⟩
  obtain ⟨c, hc⟩ := hlast
  refine ⟨b + n - 1, c, by omega, hc, ?_, ?_⟩
  · apply hchars c
    apply List.mem_of_getElem? (i := n - 1)
    rw [List.getElem?_take]
    have : n - 1 < n := by omega
    simp only [this, if_true, List.getElem?_drop]
    rw [← hc]; congr 1; omega
  · have : b + n - 1 + 1 = b + n := by omega
    rw [this]; exact hws

/-! ### the lexer-state invariant -/

structure AsiSt (text : List Char) (st : LexState) : Prop where
  prev : PrevInv text st
  nextR : ∀ t ∈ st.nextTokens, t.auto = true → AsiReason text t
  nextL : ∀ t ∈ st.nextTokens, t.auto = false → ∃ cur, st.curToken = some cur ∧ cur.lexpos = t.lexpos

/-- what is known about a token handed out -/
def TokAsi (text : List Char) (st : LexState) (t : Token) : Prop :=
  (t.auto = true → AsiReason text t) ∧
  (t.auto = false → ∃ cur, st.curToken = some cur ∧ cur.lexpos = t.lexpos)

theorem token_asi {text : List Char} {st : LexState} {r : Option Token} {st' : LexState}
    (hp : PInv text st) (hcur : CurAt text st) (ha : AsiSt text st) (h : token st = .ok (r, st')) :
    AsiSt text st' ∧ ∀ t, r = some t → TokAsi text st' t := by
  have h' : ∀ r1 st1, token' st = .ok (r1, st1) → AsiSt text st1 ∧ ∀ t, r1 = some t → TokAsi text st1 t := by
    intro r1 st1 ht
    unfold token' at ht
    split at ht
    · rename_i t rest hnt
      simp at ht
      obtain ⟨rfl, rfl⟩ := ht
      refine ⟨⟨ha.prev, fun x hx => ha.nextR x (by rw [hnt]; simp [hx]),
        fun x hx => ha.nextL x (by rw [hnt]; simp [hx])⟩, ?_⟩
      intro x hx
      simp at hx; subst hx
      exact ⟨ha.nextR _ (by rw [hnt]; simp), ha.nextL _ (by rw [hnt]; simp)⟩
    · rename_i hnt
      have hf := (tokenLoop_spec _ _ _ _ ht).1
      obtain ⟨h1, h2, h3⟩ := tokenLoop_asi text _ _ _ _ ht hp hcur
      have hn' : st1.nextTokens = [] := by rw [hf.2.2.2, hnt]
      refine ⟨⟨h1, by rw [hn']; simp, by rw [hn']; simp⟩, ?_⟩
      intro t ht'
      exact ⟨h2 t ht', fun hr => ⟨t, h3 t ht' hr, rfl⟩⟩
  unfold token at h
  split at h
  · simp at h
  · rename_i st1 ht
    simp at h
    obtain ⟨rfl, rfl⟩ := h
    exact h' _ _ ht
  · rename_i t st1 ht
    obtain ⟨h1, h2⟩ := h' _ _ ht
    split at h
    · simp at h
      obtain ⟨rfl, rfl⟩ := h
      refine ⟨⟨h1.prev, h1.nextR, h1.nextL⟩, ?_⟩
      intro x hx
      simp at hx; subst hx
      obtain ⟨a, b⟩ := h2 t rfl
      exact ⟨fun hau => (a hau).hidden _, b⟩
    · simp at h
      obtain ⟨rfl, rfl⟩ := h
      exact ⟨h1, h2⟩

/-! ### `auto_semi` and `p_error` -/

theorem rbrace_spelling : ("RBRACE", "}") ∈ LexData.punctSpelling := by decide

/-- the terminal `p_error` was called for: that of the offending token, `$end` at the end of input -/
def errTerm (tok : Option Token) : Nat :=
  match tok with
  | some o => tyOf o
  | none => Grammar.cached.endTerm

theorem autoSemi_asi {text : List Char} {st : LexState} (tok : Option Token) (ha : AsiSt text st)
    (hgood : ∀ o, tok = some o → Good text st.newlineIdx o ∧ TokAsi text st o)
    (hrej : Rejects (errTerm tok)) :
    AsiSt text (autoSemi st tok).2 ∧ ∀ a, (autoSemi st tok).1 = some a → AsiReason text a := by
  cases tok with
  | none =>
    refine ⟨⟨ha.prev, ha.nextR, ha.nextL⟩, ?_⟩
    intro a h
    simp [autoSemi] at h
    rw [← h]
    exact AsiReason.endOfInput hrej rfl rfl
  | some o =>
    obtain ⟨hg, hta⟩ := hgood o rfl
    by_cases hc : (o.type ≠ "SEMI" ∧ o.type ≠ "AUTOSEMI") ∧ (o.type = "RBRACE" ∨ isPrevTokenLt st = true)
    · have e : autoSemi st (some o) =
          (some (createSemiToken { st with nextTokens := o :: st.nextTokens } (some o)).1,
           (createSemiToken { st with nextTokens := o :: st.nextTokens } (some o)).2) := by
        unfold autoSemi
        simp only
        rw [if_pos hc]
      rw [e]
      have hreal : o.auto = false := by
        cases hau : o.auto with
        | false => rfl
        | true => exact absurd (hg.2 hau).1 hc.1.2
      obtain ⟨_, _, hri⟩ := hg.1 hreal
      obtain ⟨cur, hcur, hcl⟩ := hta.2 hreal
      refine ⟨⟨ha.prev, ?_, ?_⟩, ?_⟩
      · intro x hx hau
        have hx' : x ∈ o :: st.nextTokens := hx
        simp only [List.mem_cons] at hx'
        rcases hx' with rfl | hx'
        · rw [hreal] at hau; simp at hau
        · exact ha.nextR x hx' hau
      · intro x hx hr
        have hx' : x ∈ o :: st.nextTokens := hx
        simp only [List.mem_cons] at hx'
        rcases hx' with rfl | hx'
        · exact ⟨cur, hcur, hcl⟩
        · exact ha.nextL x hx' hr
      · intro a h
        simp only [Option.some.injEq] at h
        rw [← h]
        refine AsiReason.offending o ⟨hreal, hri.1⟩ hrej hc.1.1 rfl rfl ?_
        rcases hc.2 with hrb | hlt
        · exact Or.inl ⟨hrb, (punct_munch hri "RBRACE" "}" rbrace_spelling hrb).1⟩
        · right
          unfold isPrevTokenLt at hlt
          cases hp : st.prevToken with
          | none => rw [hp] at hlt; simp at hlt
          | some p =>
            rw [hp] at hlt
            simp only [decide_eq_true_eq] at hlt
            rw [← hcl]
            exact ha.prev p cur hp hlt hcur
    · have e : autoSemi st (some o) = (none, st) := by
        unfold autoSemi
        simp only
        rw [if_neg hc]
      rw [e]
      exact ⟨ha, by simp⟩

theorem pError_asi {text : List Char} {st : LexState} (hs : SrcOK text st) (ha : AsiSt text st)
    (tok : Option Token) (htok : TokOKFor text st tok) (hta : ∀ o, tok = some o → TokAsi text st o)
    (hrej : Rejects (errTerm tok)) {r : Option Token} {st' : LexState}
    (he : Parser.pError st tok = .ok (r, st')) :
    AsiSt text st' ∧ ∀ t, r = some t → TokAsi text st' t := by
  obtain ⟨ha1, ha2⟩ := autoSemi_asi tok ha (fun o ho => ⟨(htok o ho).1, hta o ho⟩) hrej
  unfold Parser.pError at he
  split at he
  · rename_i semi st1 hauto
    simp only [Except.ok.injEq, Prod.mk.injEq] at he
    obtain ⟨rfl, rfl⟩ := he
    have e1 : (autoSemi st tok).1 = some semi := by rw [hauto]
    have e2 : (autoSemi st tok).2 = st1 := by rw [hauto]
    rw [e2] at ha1
    refine ⟨ha1, ?_⟩
    intro t ht
    simp at ht; subst ht
    have hr := ha2 _ e1
    refine ⟨fun _ => hr, fun hreal => ?_⟩
    exfalso
    -- the inserted token is an AutoLexToken
    have hsemi : semi.auto = true := by
      cases tok with
      | none => simp [autoSemi, createSemiToken] at e1; rw [← e1]
      | some o =>
        by_cases hc : (o.type ≠ "SEMI" ∧ o.type ≠ "AUTOSEMI") ∧ (o.type = "RBRACE" ∨ isPrevTokenLt st = true)
        · have : (autoSemi st (some o)).1 =
              some (createSemiToken { st with nextTokens := o :: st.nextTokens } (some o)).1 := by
            unfold autoSemi; simp only; rw [if_pos hc]
          rw [this] at e1; simp at e1; rw [← e1]; rfl
        · have : autoSemi st (some o) = (none, st) := by
            unfold autoSemi; simp only; rw [if_neg hc]
          rw [this] at e1; simp at e1
    rw [hsemi] at hreal; simp at hreal
  · rename_i st1 hauto
    have hst : st1 = st := by
      have e1 : (autoSemi st tok).1 = none := by rw [hauto]
      have e2 : (autoSemi st tok).2 = st1 := by rw [hauto]
      rw [← e2]
      exact (autoSemi_drive tok hs.reach (fun t ht => (htok t ht).1)).2.2.2 e1
    subst hst
    split at he
    · simp at he
    · rename_i cur hcur
      simp only at he
      have tail : ∀ (x : LexState → Except Parser.PErr (Option Token × LexState)),
          LexData.backtrackCur.contains cur.type = true →
          (match backtrackedToken st1 1 with
            | Except.error e => Except.error (Parser.PErr.lex e)
            | Except.ok (none, _) => Except.error (Parser.PErr.lex (Err.internal "AttributeError"))
            | Except.ok (some rt, st2) =>
              if rt.type = "REGEX" then Except.ok (some rt, st2) else x st2) = Except.ok (r, st') →
          (∀ s y, x s ≠ .ok y) →
          AsiSt text st' ∧ ∀ t, r = some t → TokAsi text st' t := by
        intro x hty hb hx
        obtain ⟨hcs, _, _, hdiv⟩ := guard_cur hs tok htok cur hcur hty
        split at hb
        · simp at hb
        · simp at hb
        · rename_i rt st2 hbk
          split at hb
          · simp only [Except.ok.injEq, Prod.mk.injEq] at hb
            obtain ⟨rfl, rfl⟩ := hb
            unfold backtrackedToken at hbk
            split at hbk
            · simp at hbk
            · rename_i hpos
              simp only at hbk
              split at hbk
              · simp at hbk
              · rename_i r2 st2' htk
                simp only [Except.ok.injEq, Prod.mk.injEq] at hbk
                obtain ⟨rfl, rfl⟩ := hbk
                have hp := pinv_rewind hs.reach tok cur hcur hty hpos
                have hca : CurAt text { st1 with lexpos := st1.lexpos - 1, nextTokens := [] } :=
                  Or.inr ⟨cur, hcs, hdiv⟩
                have ha0 : AsiSt text { st1 with lexpos := st1.lexpos - 1, nextTokens := [] } :=
                  ⟨ha.prev, by intro x hx; simp at hx, by intro x hx; simp at hx⟩
                obtain ⟨k1, k2⟩ := token_asi hp hca ha0 htk
                exact ⟨⟨k1.prev, k1.nextR, k1.nextL⟩, k2⟩
          · exact absurd hb (hx _ _)
      split at he
      · split at he
        · rename_i hbt
          simp only [Bool.and_eq_true] at hbt
          exact tail (fun s2 => .error (Parser.raiseSyntaxError s2 tok)) hbt.1 he (by intro s y; simp)
        · simp at he
      · split at he
        · rename_i hbt
          simp at hbt
        · simp at he

/-! ### the configurations of a parse -/

abbrev PS := Parser.sem Grammar.cached
abbrev PCfg := Config Token Actions.PVal LexState

def AsiCfg (text : List Char) (c : PCfg) : Prop :=
  AsiSt text c.src ∧ (∀ t ∈ c.shifted, t.auto = true → AsiReason text t) ∧
  (∀ t, c.look = some (some t) → TokAsi text c.src t)

theorem fetch_none {c c1 : PCfg} {state : Nat}
    (hf : fetch Grammar.cached PS Parser.source c state = .ok (none, c1)) :
    Rejects (errTerm (lookTok c1)) := by
  refine ⟨state, ?_⟩
  have hterm : lookTermOf Grammar.cached PS c1 = errTerm (lookTok c1) := by
    unfold lookTermOf lookTok errTerm
    split <;> rfl
  unfold fetch at hf
  split at hf
  · simp at hf
  · rename_i hd
    split at hf
    · simp only [Except.ok.injEq, Prod.mk.injEq] at hf
      obtain ⟨h1, rfl⟩ := hf
      exact ⟨hd, hterm ▸ h1⟩
    · split at hf
      · simp at hf
      · simp only [Except.ok.injEq, Prod.mk.injEq] at hf
        obtain ⟨h1, rfl⟩ := hf
        exact ⟨hd, hterm ▸ h1⟩

theorem fetch_asi {text : List Char} {c c1 : PCfg} {state : Nat} {a : Option Act}
    (hk : CfgOK text c) (h : AsiCfg text c)
    (hf : fetch Grammar.cached PS Parser.source c state = .ok (a, c1)) :
    AsiCfg text c1 ∧ c1.shifted = c.shifted := by
  unfold fetch at hf
  split at hf
  · simp only [Except.ok.injEq, Prod.mk.injEq] at hf
    rw [← hf.2]; exact ⟨h, rfl⟩
  · split at hf
    · simp only [Except.ok.injEq, Prod.mk.injEq] at hf
      rw [← hf.2]; exact ⟨h, rfl⟩
    · split at hf
      · simp at hf
      · rename_i t s' hn
        simp only [Except.ok.injEq, Prod.mk.injEq] at hf
        rw [← hf.2]
        simp only [Parser.source] at hn
        split at hn
        · rename_i res ht
          simp only [Except.ok.injEq] at hn
          subst hn
          obtain ⟨k1, k2⟩ := token_asi hk.1.1.pinv (Or.inl hk.1.1.cur) h.1 ht
          refine ⟨⟨k1, h.2.1, ?_⟩, rfl⟩
          intro x hx
          simp only [Option.some.injEq] at hx
          exact k2 x hx
        · simp at hn

theorem step_asi {text : List Char} {c c' : PCfg} (hk : CfgOK text c) (h : AsiCfg text c)
    (hs : step Grammar.cached PS Parser.source c = .inl c') : AsiCfg text c' := by
  unfold step at hs
  split at hs
  · simp at hs
  · split at hs
    · simp at hs
    · rename_i s c1 hf
      obtain ⟨h1, hsh⟩ := fetch_asi hk h hf
      unfold doShift at hs
      split at hs
      · rename_i t hl
        simp only [Sum.inl.injEq] at hs
        rw [← hs]
        refine ⟨h1.1, ?_, by simp⟩
        intro x hx hau
        simp only [List.mem_cons] at hx
        rcases hx with rfl | hx
        · exact (h1.2.2 _ hl).1 hau
        · exact h1.2.1 x hx hau
      · simp at hs
    · rename_i p c1 hf
      obtain ⟨h1, hsh⟩ := fetch_asi hk h hf
      unfold doReduce at hs
      split at hs
      · simp at hs
      · split at hs
        · split at hs
          · simp at hs
          · split at hs
            · simp at hs
            · split at hs
              · simp only [Sum.inl.injEq] at hs
                rw [← hs]
                exact h1
              · simp at hs
        · simp at hs
    · split at hs <;> simp at hs
    · rename_i c1 hf
      obtain ⟨h1, hsh⟩ := fetch_asi hk h hf
      have hk1 := fetch_cfgOK hk hf
      have hrej := fetch_none hf
      unfold doError at hs
      split at hs
      · simp at hs
      · simp at hs
      · rename_i t s' he
        simp only [Sum.inl.injEq] at hs
        rw [← hs]
        have he' : Parser.pError c1.src (lookTok c1) = .ok (some t, s') := he
        have hta : ∀ o, lookTok c1 = some o → TokAsi text c1.src o := by
          intro o ho
          unfold lookTok at ho
          split at ho
          · rename_i t0 hl
            simp at ho; subst ho
            exact h1.2.2 _ hl
          · simp at ho
        obtain ⟨k1, k2⟩ := pError_asi hk1.srcOK h1.1 (lookTok c1) hk1.tokOK hta hrej he'
        refine ⟨k1, h1.2.1, ?_⟩
        intro x hx
        simp only [Option.some.injEq] at hx
        subst hx
        exact k2 _ rfl

theorem init_asi (text : List Char) (wc : Bool) : AsiCfg text (initConfig (init text wc false)) := by
  refine ⟨⟨?_, by simp [init, initConfig], by simp [init, initConfig]⟩, by simp [initConfig], by simp [initConfig]⟩
  intro p c hp
  simp [init, initConfig] at hp

theorem reach_asi {text : List Char} {wc : Bool} {c : PCfg}
    (hr : Reach Grammar.cached PS Parser.source (initConfig (init text wc false)) c) :
    CfgOK text c ∧ AsiCfg text c := by
  induction hr with
  | refl => exact ⟨init_cfgOK text wc, init_asi text wc⟩
  | step _ hs ih => exact ⟨step_cfgOK ih.1 hs, step_asi ih.1 ih.2 hs⟩

/-- a held real token never has the type AUTOSEMI -/
theorem good_autosemi_iff {text : List Char} {idx : List Nat} {t : Token} (hg : Good text idx t) :
    t.type = "AUTOSEMI" ↔ t.auto = true := by
  constructor
  · intro hty
    cases ha : t.auto with
    | true => rfl
    | false =>
      exfalso
      obtain ⟨hsp, hnr⟩ := LexerSpelling.special_names
      simp only [List.all_cons, List.all_nil, Bool.and_true, Bool.and_eq_true, Bool.not_eq_true',
        List.contains_eq_mem, decide_eq_false_iff_not] at hsp
      rcases LexerSpelling.ruleInfo_type_mem (hg.1 ha).2.2 with h' | h'
      · rw [hty] at h'; exact hnr h'
      · rw [hty] at h'; exact hsp.1.2 h'
  · intro ha; exact (hg.2 ha).1

end CalmVerif.Proofs.ParserAsi
