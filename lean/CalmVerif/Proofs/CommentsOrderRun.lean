/-
C13, source order of the captured comments, run level: the chain invariant through `auto_semi`, the guarded
`backtracked_token`, `p_error` and every step of the LR driver over the parser's token source.
-/
import CalmVerif.Proofs.CommentsOrder
import CalmVerif.Proofs.CommentsParser
import CalmVerif.Proofs.ParserNoInternal

namespace CalmVerif.Proofs.Comments
open CalmVerif CalmVerif.Model CalmVerif.Model.LR CalmVerif.Model.Lexer CalmVerif.Model.Parser
open CalmVerif.Proofs.LexerDrive CalmVerif.Proofs.ParserDrive CalmVerif.Proofs.ParserNoInternal

theorem createSemi_frame (st : LexState) (o : Option Token) :
    (createSemiToken st o).1.hidden = [] ∧ (createSemiToken st o).1.type = "AUTOSEMI" ∧
    (createSemiToken st o).2.lexpos = st.lexpos ∧ (createSemiToken st o).2.curToken = st.curToken ∧
    (createSemiToken st o).2.hiddenTokens = st.hiddenTokens ∧ (createSemiToken st o).2.nextTokens = st.nextTokens ∧
    (createSemiToken st o).2.withComments = st.withComments := by
  cases o <;> exact ⟨rfl, rfl, rfl, rfl, rfl, rfl, rfl⟩

/-- `auto_semi(tok)`: the pushed-back look-ahead keeps its place in the chain -/
theorem autoSemi_chain (Hs : List Comment) {st : LexState} {tok : Option Token} (ho : OrdSt st)
    (hl1 : ∀ t, tok = some t → st.hiddenTokens = [] ∨ t.type = "AUTOSEMI")
    (hc : Chain (Hs ++ hidOf tok ++ nextHid st ++ st.hiddenTokens) st) :
    OrdSt (autoSemi st tok).2 ∧
    (∀ s, (autoSemi st tok).1 = some s →
      Chain (Hs ++ hidOf (some s) ++ nextHid (autoSemi st tok).2 ++ (autoSemi st tok).2.hiddenTokens) (autoSemi st tok).2 ∧
      s.type = "AUTOSEMI") ∧
    ((autoSemi st tok).1 = none → (autoSemi st tok).2 = st) := by
  unfold autoSemi
  cases tok with
  | none =>
    obtain ⟨f1, f2, f3, f4, f5, f6, f7⟩ := createSemi_frame st none
    refine ⟨⟨f7.trans ho.wc, fun hne => by rw [f6]; exact ho.pend (by rwa [f5] at hne)⟩, ?_, fun h => by cases h⟩
    intro s hs
    simp only [Option.some.injEq] at hs
    subst hs
    refine ⟨?_, f2⟩
    have : nextHid (createSemiToken st none).2 = nextHid st := by simp [nextHid, f6]
    simp only [hidOf, f1, f5, this, List.append_nil]
    simpa [hidOf] using hc.congr f3 f4
  | some t =>
    simp only []
    split
    · next hpush =>
      obtain ⟨f1, f2, f3, f4, f5, f6, f7⟩ := createSemi_frame { st with nextTokens := t :: st.nextTokens } (some t)
      have hp : st.hiddenTokens = [] := by
        rcases hl1 t rfl with h | h
        · exact h
        · exact absurd h hpush.1.2
      refine ⟨⟨f7.trans ho.wc, fun hne => by rw [f5] at hne; exact absurd hp hne⟩, ?_, fun h => by cases h⟩
      intro s hs
      simp only [Option.some.injEq] at hs
      subst hs
      refine ⟨?_, f2⟩
      have : nextHid (createSemiToken { st with nextTokens := t :: st.nextTokens } (some t)).2 =
          t.hidden ++ nextHid st := by simp [nextHid, f6]
      simp only [hidOf, f1, f5, this, List.append_nil]
      have hc' := hc.congr (b := (createSemiToken { st with nextTokens := t :: st.nextTokens } (some t)).2) f3 f4
      simpa [hidOf, List.append_assoc] using hc'
    · exact ⟨ho, fun s hs => (by cases hs), fun _ => rfl⟩

/-- the guarded `backtracked_token(1)`: the current token is a real DIV ending at the read position; rewinding lands on
    its start, before which every held / pending comment ends -/
theorem backtracked_chain (Hs : List Comment) {st st' : LexState} {r : Option Token} {cur : Token} {L : List Comment}
    (ho : OrdSt st) (hc : Chain L st) (hsub : List.Sublist (Hs ++ st.hiddenTokens) L)
    (hcur : st.curToken = some cur) (hty : cur.type = "DIV") (hpos : st.lexpos = cur.lexpos + 1)
    (h : backtrackedToken st 1 = .ok (r, st')) :
    OrdSt st' ∧ Chain (Hs ++ hidOf r ++ nextHid st' ++ st'.hiddenTokens) st' ∧ (∀ t, r = some t → st'.hiddenTokens = []) := by
  unfold backtrackedToken at h
  split at h
  · simp at h
  · dsimp only at h
    have hc1 : Chain (Hs ++ nextHid { st with lexpos := st.lexpos - 1, nextTokens := [] } ++ st.hiddenTokens)
        { st with lexpos := st.lexpos - 1, nextTokens := [] } := by
      have hs := hc.sublist hsub
      have : nextHid { st with lexpos := st.lexpos - 1, nextTokens := [] } = [] := by simp [nextHid]
      rw [this, List.append_nil]
      refine ⟨hs.pw, ?_, fun c h1 h2 => hs.div c h1 h2, hs.ne⟩
      intro c hc'
      show cend c ≤ st.lexpos - 1
      have := hs.div cur hcur hty c hc'
      omega
    have ho1 : OrdSt { st with lexpos := st.lexpos - 1, nextTokens := [] } := ⟨ho.wc, fun _ => rfl⟩
    split at h
    · simp at h
    · next tok st2 ht =>
      simp only [Except.ok.injEq, Prod.mk.injEq] at h
      obtain ⟨rfl, rfl⟩ := h
      obtain ⟨g1, g2, g3⟩ := token_chain Hs ho1 hc1 ht
      exact ⟨⟨g1.wc, g1.pend⟩, g2.congr rfl rfl, g3⟩

/-- `p_error(tok)` returning a replacement look-ahead -/
theorem pError_chain {text : List Char} (Hs : List Comment) {st st' : LexState} {tok r : Option Token}
    (hsrc : SrcOK text st) (htok : TokOKFor text st tok) (ho : OrdSt st)
    (hl1 : ∀ t, tok = some t → st.hiddenTokens = [] ∨ t.type = "AUTOSEMI")
    (hc : Chain (Hs ++ hidOf tok ++ nextHid st ++ st.hiddenTokens) st) (h : pError st tok = .ok (r, st')) :
    OrdSt st' ∧ Chain (Hs ++ hidOf r ++ nextHid st' ++ st'.hiddenTokens) st' ∧
    (∀ t, r = some t → st'.hiddenTokens = [] ∨ t.type = "AUTOSEMI") := by
  rw [pError_eq] at h
  unfold pError' at h
  obtain ⟨a1, a2, a3⟩ := autoSemi_chain Hs ho hl1 hc
  cases hs : autoSemi st tok with
  | mk semi st1 =>
    rw [hs] at h a1 a2 a3
    cases semi with
    | some s =>
      simp only [Except.ok.injEq, Prod.mk.injEq] at h
      obtain ⟨rfl, rfl⟩ := h
      obtain ⟨b1, b2⟩ := a2 s rfl
      exact ⟨a1, b1, fun t ht => by cases ht; exact Or.inr b2⟩
    | none =>
      have hst1 : st1 = st := a3 rfl
      subst hst1
      simp only [] at h
      cases hcu : (st1.curToken <|> tok) with
      | none => simp [hcu] at h
      | some cur =>
        simp only [hcu] at h
        unfold pErrorTail at h
        cases hbt : btTest cur st1.validPrevToken with
        | false => simp [hbt] at h
        | true =>
          simp only [hbt, if_true] at h
          have hguard : Gen.LexData.backtrackCur.contains cur.type = true := by
            unfold btTest at hbt
            simp only [Bool.and_eq_true] at hbt
            exact hbt.1
          obtain ⟨g1, g2, g3, g4⟩ := guard_cur hsrc tok htok cur hcu hguard
          have hlen := (atDiv_of_token g3 g4).2
          cases hb : backtrackedToken st1 1 with
          | error e => simp [hb] at h
          | ok res =>
            obtain ⟨rt, st2⟩ := res
            cases rt with
            | none => simp [hb] at h
            | some rt =>
              simp only [hb] at h
              split at h
              · simp only [Except.ok.injEq, Prod.mk.injEq] at h
                obtain ⟨rfl, rfl⟩ := h
                have hsub : List.Sublist (Hs ++ st1.hiddenTokens) (Hs ++ hidOf tok ++ nextHid st1 ++ st1.hiddenTokens) := by
                  simp only [List.append_assoc]
                  exact List.Sublist.append (List.Sublist.refl _)
                    ((List.sublist_append_right _ _).trans (List.sublist_append_right _ _))
                obtain ⟨k1, k2, k3⟩ := backtracked_chain Hs ho hc hsub g1 g4 (by rw [g2, hlen]) hb
                exact ⟨k1, k2, fun t ht => Or.inl (k3 t ht)⟩
              · simp at h

/-! ### along the run -/

/-- the comments of everything the parser holds, in token order, then of the pushed-back tokens, then the pending ones -/
def chainC {ν : Type} (c : Config Token ν LexState) : List Comment :=
  c.shifted.reverse.flatMap (·.hidden) ++ hidOf (lookTok c) ++ nextHid c.src ++ c.src.hiddenTokens

structure OrdC {ν : Type} (c : Config Token ν LexState) : Prop where
  st : OrdSt c.src
  look : ∀ t, lookTok c = some t → c.src.hiddenTokens = [] ∨ t.type = "AUTOSEMI"
  chain : Chain (chainC c) c.src

theorem init_ordC {ν : Type} (text : List Char) :
    OrdC (initConfig (Lexer.init text true false) : Config Token ν LexState) :=
  ⟨⟨rfl, fun h => absurd rfl h⟩, fun t ht => by simp [lookTok, initConfig] at ht,
   by simpa [chainC, lookTok, initConfig, hidOf, nextHid, Lexer.init] using Chain.nil_init text true false⟩

variable {ν : Type} {T : Tables} {S : Sem Token ν LexState PErr}

theorem fetch_ordC {c c1 : Config Token ν LexState} {state : Nat} {a : Option Act} (h : OrdC c)
    (hf : fetch T S source c state = .ok (a, c1)) : OrdC c1 := by
  unfold fetch at hf
  split at hf
  · simp only [Except.ok.injEq, Prod.mk.injEq] at hf
    rw [← hf.2]; exact h
  · split at hf
    · simp only [Except.ok.injEq, Prod.mk.injEq] at hf
      rw [← hf.2]; exact h
    · next hlk =>
      split at hf
      · simp at hf
      · next t s' hn =>
        simp only [Except.ok.injEq, Prod.mk.injEq] at hf
        rw [← hf.2]
        rw [source_next_eq] at hn
        cases ht : Lexer.token c.src with
        | error e => simp [ht] at hn
        | ok res =>
          simp only [ht, Except.ok.injEq] at hn
          subst hn
          have hlt : lookTok c = none := by simp [lookTok, hlk]
          have hc0 : Chain (c.shifted.reverse.flatMap (·.hidden) ++ nextHid c.src ++ c.src.hiddenTokens) c.src := by
            simpa [chainC, hlt, hidOf] using h.chain
          obtain ⟨g1, g2, g3⟩ := token_chain _ h.st hc0 ht
          have hlt1 : lookTok ({ c with look := some t, src := s' } : Config Token ν LexState) = t := by
            cases t <;> rfl
          refine ⟨g1, ?_, ?_⟩
          · intro x hx
            rw [hlt1] at hx
            exact Or.inl (g3 x hx)
          · show Chain (chainC ({ c with look := some t, src := s' } : Config Token ν LexState)) s'
            unfold chainC
            rw [hlt1]
            exact g2

theorem step_ordC {text : List Char} {c c' : Config Token ν LexState} (hk : CfgOK text c) (h : OrdC c)
    (hs : step T S source c = .inl c') : OrdC c' := by
  unfold step at hs
  split at hs
  · simp at hs
  · split at hs
    · simp at hs
    · next s c1 hf =>
      have h1 := fetch_ordC h hf
      unfold doShift at hs
      split at hs
      · next t hlk =>
        simp only [Sum.inl.injEq] at hs
        subst hs
        have hlt : lookTok c1 = some t := by simp [lookTok, hlk]
        refine ⟨h1.st, fun x hx => by simp [lookTok] at hx, ?_⟩
        have hch := h1.chain
        unfold chainC at hch ⊢
        rw [hlt] at hch
        simpa [lookTok, hidOf, List.flatMap_append, List.append_assoc] using hch
      · simp at hs
    · next p c1 hf =>
      have h1 := fetch_ordC h hf
      unfold doReduce at hs
      split at hs
      · simp at hs
      · split at hs
        · split at hs
          · simp at hs
          · split at hs
            · simp at hs
            · split at hs
              · simp only [Sum.inl.injEq] at hs
                subst hs
                exact ⟨h1.st, h1.look, h1.chain⟩
              · simp at hs
        · simp at hs
    · split at hs <;> simp at hs
    · next c1 hf =>
      have h1 := fetch_ordC h hf
      have hk1 := fetch_cfgOK hk hf
      unfold doError at hs
      cases he : source.onError c1.src (lookTok c1) with
      | error e => simp [he] at hs
      | ok res =>
        obtain ⟨t?, s'⟩ := res
        cases t? with
        | none => simp [he] at hs
        | some t =>
          simp only [he, Sum.inl.injEq] at hs
          subst hs
          have he' : pError c1.src (lookTok c1) = .ok (some t, s') := he
          have hch : Chain (c1.shifted.reverse.flatMap (·.hidden) ++ hidOf (lookTok c1) ++ nextHid c1.src ++
              c1.src.hiddenTokens) c1.src := h1.chain
          obtain ⟨g1, g2, g3⟩ := pError_chain _ hk1.srcOK hk1.tokOK h1.st h1.look hch he'
          refine ⟨g1, ?_, g2⟩
          intro x hx
          have : x = t := by simpa [lookTok] using hx.symm
          subst this
          exact g3 _ rfl

theorem reach_ordC {text : List Char} {c0 c : Config Token ν LexState} (hk0 : CfgOK text c0) (h0 : OrdC c0)
    (hr : Reach T S source c0 c) : OrdC c := by
  have : CfgOK text c ∧ OrdC c := by
    induction hr with
    | refl => exact ⟨hk0, h0⟩
    | step _ hs ih => exact ⟨step_cfgOK ih.1 hs, step_ordC ih.1 ih.2 hs⟩
  exact this.2

end CalmVerif.Proofs.Comments
