/-
From the renaming simulation (Proofs/ObfBindSim5.lean) to `bindingIso`: if the resolution of the renamed program is the
image of the resolution of the original, and the record renamings are one-to-one and keep what must be kept (`isoCond`),
the two resolutions describe the same binding structure.
-/
import CalmVerif.Proofs.ObfBindSim5
namespace CalmVerif.Obf
open CalmVerif CalmVerif.Unparse
open CalmVerif.Spec.Scope (BKind Binder Layer Ctx Occ)

theorem binder_beq_iff (a b : Binder) : (a == b) = true ↔ a = b := by
  show decide (a = b) = true ↔ a = b
  simp

theorem functional_graph (f : Binder → Binder) : ∀ (l : List Binder), functional (l.map (fun b => (b, f b))) = true
  | [] => rfl
  | x :: rest => by
    simp only [List.map_cons, functional, Bool.and_eq_true, List.all_eq_true, List.mem_map]
    refine ⟨?_, functional_graph f rest⟩
    rintro p ⟨b, _, rfl⟩
    by_cases h : (b == x) = true
    · have : b = x := (binder_beq_iff _ _).1 h
      subst this
      simp [binder_beq_iff]
    · simp [h]

theorem zip_map_self {α β : Type} (f : α → β) : ∀ (l : List α), l.zip (l.map f) = l.map (fun b => (b, f b))
  | [] => rfl
  | x :: rest => by simp [zip_map_self f rest]

theorem binderPairs_image (τ : Tau) (ρ : Rho) : ∀ (a : List Occ),
    binderPairs a (a.map (mapOcc τ ρ)) = some ((allBinders a).map (fun b => (b, mapBinder τ b)))
  | [] => rfl
  | o :: rest => by
    simp only [List.map_cons, binderPairs, binderPairs_image τ ρ rest]
    have h1 : (o.path == (mapOcc τ ρ o).path) = true := by simp [mapOcc]
    have h2 : (o.binders.length == (mapOcc τ ρ o).binders.length) = true := by simp [mapOcc]
    simp only [h1, h2, Bool.and_self, if_true, Option.map_some]
    simp [allBinders, mapOcc, zip_map_self]

theorem bindingIso_image (τ : Tau) (ρ : Rho) (og : Bool) (a : List Occ) (h : isoCond τ og a = true) :
    bindingIso og a (a.map (mapOcc τ ρ)) = true := by
  simp only [isoCond, Bool.and_eq_true] at h
  obtain ⟨hkeep, hinj⟩ := h
  simp only [bindingIso, binderPairs_image, Bool.and_eq_true]
  refine ⟨⟨?_, functional_graph _ _⟩, ?_⟩
  · simp only [List.all_eq_true, List.mem_map] at hkeep ⊢
    rintro p ⟨b, hb, rfl⟩
    have := hkeep b hb
    simp only [mapBinder, beq_self_eq_true, Bool.true_and]
    rcases Bool.or_eq_true _ _ ▸ this with h1 | h1
    · simp [h1]
    · have e : tauN τ b.kind b.scope b.name = b.name := by simpa using h1
      simp [e]
  · simpa [List.map_map, Function.comp_def] using hinj

/-- **binding_preserved_partial** (core): for any renaming `ρ` and record renaming `τ` satisfying the decidable conditions,
ES5 binding resolution of the renamed program describes the same binding structure as that of the original. -/
theorem bindingIso_of_cond (τ : Tau) (ρ : Rho) (og : Bool) (program : Val)
    (hc : condProgram τ ρ program = true) (hi : isoCond τ og (Spec.Scope.resolveProgram program) = true) :
    bindingIso og (Spec.Scope.resolveProgram program) (Spec.Scope.resolveProgram (renameBy ρ [] program)) = true := by
  rw [resolveProgram_rename τ ρ program hc]
  exact bindingIso_image τ ρ og _ hi

/-- for the obfuscator model -/
theorem bindingPreserved_of_aligned (fl : Flags) (program : Val) (h : alignedOf fl program = some true) :
    bindingPreserved fl program = some true := by
  unfold alignedOf at h
  unfold bindingPreserved
  split at h
  · rename_i fin hfin
    simp only [Option.some.injEq, Bool.and_eq_true] at h
    simp only [hfin]
    exact congrArg some (bindingIso_of_cond (tauFin fin) (rhoFin fin) fl.obfuscateGlobals program h.1 h.2)
  · cases h

end CalmVerif.Obf
